#!/bin/bash
# Build the Coq development (full .vo) and the extracted OCaml model driver, offline.
cd "$(dirname "$0")"
export PYTHONPATH="$(pwd)/harness" PYTHONDONTWRITEBYTECODE=1
/venv/bin/python - <<'PY' 2> >(grep -v -i conda >&2)
import sys, common
import translate_checker
try:
    translate_checker.main()
except Exception as e:
    print('translator:', e)
ok, log = common.coq_make([], timeout=3000, jobs=12, keep_going=True)
print(log[-3000:])
if not ok:
    print('WARNING: some files did not compile; each check rebuilds and reports its own closure')
ok, log = common.build_driver()
print(log[-1000:])
sys.exit(0 if ok else 1)
PY
