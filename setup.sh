#!/bin/bash
# Build the Coq development (full .vo) and the extracted OCaml model driver, offline.
cd "$(dirname "$0")"
export PYTHONPATH=/verif/harness PYTHONDONTWRITEBYTECODE=1
/venv/bin/python - <<'PY' 2> >(grep -v -i conda >&2)
import sys, common
ok, log = common.coq_make([], timeout=3000, jobs=12)
print(log[-3000:])
if not ok:
    sys.exit(1)
ok, log = common.build_driver()
print(log[-1000:])
sys.exit(0 if ok else 1)
PY
