(* Generic correspondence driver: each input line is "<function number> <wire>";
   prints the result wire on one line.  Wire syntax: integers and parentheses. *)

let rec pos_of_int n = if n = 1 then Model.XH else if n land 1 = 0 then Model.XO (pos_of_int (n lsr 1)) else Model.XI (pos_of_int (n lsr 1))
let z_of_int n = if n = 0 then Model.Z0 else if n > 0 then Model.Zpos (pos_of_int n) else Model.Zneg (pos_of_int (-n))
let rec int_of_pos = function Model.XH -> 1 | Model.XO p -> 2 * int_of_pos p | Model.XI p -> 2 * int_of_pos p + 1
let int_of_z = function Model.Z0 -> 0 | Model.Zpos p -> int_of_pos p | Model.Zneg p -> - (int_of_pos p)

let parse_wire (s : string) (start : int) : Model.wire =
  let n = String.length s in
  let pos = ref start in
  let rec skip () = if !pos < n && s.[!pos] = ' ' then (incr pos; skip ()) in
  let rec value () =
    skip ();
    if s.[!pos] = '(' then begin
      incr pos;
      let items = ref [] in
      let rec loop () =
        skip ();
        if s.[!pos] = ')' then incr pos
        else begin items := value () :: !items; loop () end in
      loop (); Model.WL (List.rev !items)
    end else begin
      let b = !pos in
      while !pos < n && s.[!pos] <> ' ' && s.[!pos] <> ')' && s.[!pos] <> '(' do incr pos done;
      Model.WN (z_of_int (int_of_string (String.sub s b (!pos - b))))
    end in
  value ()

let rec print_wire buf = function
  | Model.WN z -> Buffer.add_string buf (string_of_int (int_of_z z))
  | Model.WL l -> Buffer.add_char buf '(';
      List.iteri (fun i x -> if i > 0 then Buffer.add_char buf ' '; print_wire buf x) l;
      Buffer.add_char buf ')'

let () =
  let buf = Buffer.create 65536 in
  (try
    while true do
      let line = input_line stdin in
      if String.length line > 0 then begin
        let sp = String.index line ' ' in
        let f = int_of_string (String.sub line 0 sp) in
        let w = parse_wire line (sp + 1) in
        Buffer.clear buf;
        (try print_wire buf (Model.dispatch (z_of_int f) w)
         with Stack_overflow -> Buffer.clear buf; Buffer.add_string buf "(-2)");
        print_string (Buffer.contents buf); print_newline ()
      end
    done
  with End_of_file -> ())
