(* Models of the filter + local mutations of further mutators of
   ddsmt/mutators_smtlib.py (CheckSatAssuming, RemoveAnnotation,
   RemoveRecursiveFunction, SimplifyLogic, SimplifyQuotedSymbols) and of
   mutators_boolean.BoolNegateQuantifier, over pure s-expressions.
   Convention of Model/Rewrites.v: None = the Python code raises (in filter or
   while the mutations are consumed), Some [] = the mutator does not accept the
   node or proposes nothing, Some l = the replacements proposed for the node,
   in order.  RemoveRecursiveFunction removes two grandchildren of the node:
   its model gives the resulting define-funs-rec node.  No proofs here. *)
From DD Require Export Model.Rewrites Model.CoreRw.
Open Scope string_scope.
Local Open Scope list_scope.

(* ---- CheckSatAssuming: Node(Node('check-sat')) is the list (check-sat) ---- *)
Definition rw_check_sat_assuming (e : sexp) : option (list sexp) :=
  if is_op e "check-sat-assuming" then Some [T [lf "check-sat"]] else Some [].

(* ---- RemoveAnnotation: node[1] raises IndexError on (!) ---- *)
Definition rw_remove_annotation (e : sexp) : option (list sexp) :=
  if is_op e "!" then
    match e with
    | T (_ :: t :: _) => Some [t]
    | _ => None
    end
  else Some [].

(* ---- RemoveRecursiveFunction: len() of a leaf is 0; the i-th declaration and
   the i-th body disappear together ---- *)
Definition rw_remove_rec_fun (e : sexp) : option (list sexp) :=
  if is_op e "define-funs-rec" then
    match e with
    | T [h; n1; n2] =>
        if Nat.eqb (len n1) (len n2) then
          match n1, n2 with
          | T l1, T l2 => Some (map (fun i => T [h; T (erase_at i l1); T (erase_at i l2)]) (seq 0 (length l1)))
          | _, _ => Some []
          end
        else Some []
    | _ => Some []
    end
  else Some [].

(* ---- SimplifyLogic ---- *)
(* p is a prefix of s *)
Fixpoint prefixb (p s : str) : bool :=
  match p, s with
  | [], _ => true
  | a :: p', b :: s' => N.eqb a b && prefixb p' s'
  | _ :: _, [] => false
  end.
(* Python's [p in s] *)
Fixpoint containsb (p s : str) : bool :=
  prefixb p s || match s with [] => false | _ :: r => containsb p r end.
(* Python's s.replace(p, r) for a non-empty p: occurrences are found from the
   left and do not overlap; skip = characters of a found occurrence still to drop *)
Fixpoint replace_from (p r : str) (skip : nat) (s : str) : str :=
  match s with
  | [] => []
  | c :: tl =>
      match skip with
      | S k => replace_from p r k tl
      | O => if prefixb p s then r ++ replace_from p r (length p - 1) tl
             else c :: replace_from p r 0 tl
      end
  end.
Definition replace_all (p r s : str) : str := replace_from p r 0 s.

(* the dictionary repls, in its insertion order *)
Definition logic_repls : list (string * string) :=
  [("BV", ""); ("FP", ""); ("UF", ""); ("S", ""); ("T", ""); ("NRA", "LRA"); ("LRA", "");
   ("NIA", "LIA"); ("LIA", ""); ("NIRA", "LIRA"); ("LIRA", "LRA")].
Definition logic_cands (s : str) : list str :=
  flat_map (fun pr => if containsb (lit (fst pr)) s then
                        match replace_all (lit (fst pr)) (lit (snd pr)) s with
                        | [] => []
                        | c => [c]
                        end
                      else []) logic_repls.
(* node[1] raises IndexError on (set-logic); the assertion logic.is_leaf() fails on a list *)
Definition rw_simplify_logic (e : sexp) : option (list sexp) :=
  if is_op e "set-logic" then
    match e with
    | T (_ :: L s :: _) => Some (map (fun c => T [lf "set-logic"; L c]) (logic_cands s))
    | _ => None
    end
  else Some [].

(* ---- SimplifyQuotedSymbols ---- *)
Definition in_range (c lo hi : N) : bool := N.leb lo c && N.leb c hi.
(* the character class [a-zA-Z0-9~!@$%^&*_+=<>.?/-] *)
Definition simple_char (c : char) : bool :=
  in_range c 97 122 || in_range c 65 90 || in_range c 48 57 || existsb (N.eqb c) (lit "~!@$%^&*_+=<>.?/-").
Fixpoint take_while (f : char -> bool) (s : str) : str :=
  match s with
  | c :: r => if f c then c :: take_while f r else []
  | [] => []
  end.
(* re.match of \|[class]+\| : a prefix of the text matches (the class excludes the bar) *)
Definition quoted_simple_prefix (s : str) : bool :=
  match s with
  | c :: r =>
      N.eqb c cBAR &&
      let run := take_while simple_char r in
      match run with [] => false | _ => match skipn (length run) r with d :: _ => N.eqb d cBAR | [] => false end end
  | [] => false
  end.
(* is_piped_symbol: node[0] raises IndexError on an empty leaf *)
Definition rw_simplify_quoted (e : sexp) : option (list sexp) :=
  match e with
  | L [] => None
  | L s => if is_piped s && quoted_simple_prefix s then Some [L (removelast (tl s))] else Some []
  | T _ => Some []
  end.

(* ---- BoolNegateQuantifier: node[1][1], node[1][2] raise IndexError on short quantifiers ---- *)
Definition is_quantifier (e : sexp) : bool := is_op e "exists" || is_op e "forall".
Definition rw_bool_negate_quant (e : sexp) : option (list sexp) :=
  match e with
  | T (L h :: q :: _) =>
      if iss h "not" && is_quantifier q then
        match q with
        | T (_ :: vars :: body :: _) =>
            Some [T [lf (if is_op q "exists" then "forall" else "exists"); vars; T [lf "not"; body]]]
        | _ => None
        end
      else Some []
  | _ => Some []
  end.
