(* The ddmin strategy's parallel checking loop (strategy_ddmin._check_par with
   TaskGenerator and _worker) for one task generator (one mutator, one
   granularity), as a labelled transition system over an abstract input type;
   _check_seq is the special case in which every task is worked on and consumed
   before the next one is generated.  [exec] is executable.  No proofs here. *)
From Coq Require Export List Arith Bool Lia.
Export ListNotations.

Section Ddmin.
  Variable input : Type.
  (* candidates of subset number k when the generator holds input x: the grouped
     simplification(s) of this subset applied to x, in the order the worker
     tries them; [] = no task is generated for this subset *)
  Variable cands : nat -> input -> list input.
  Variable accept : input -> bool.
  Variable nsubsets : nat.

  Record dtask := mk_dtask { d_id : nat; d_base : input; d_cands : list input }.
  (* Result(task_id, success, exprs): the first accepted candidate, if any *)
  Record dresult := mk_dres { r_id : nat; r_base : input; r_succ : option input }.

  Record dst := mk_dst {
    dcur : input;              (* taskgen.exprs *)
    dindex : nat;              (* taskgen.index *)
    dstopped : bool;           (* taskgen.stopped *)
    dabort : bool;             (* __abort_flag *)
    dskip : bool;              (* skip: a success was already adopted in this round *)
    dstart : option nat;       (* start_index (None = -1) *)
    dpending : list dtask;
    dresults : list dresult;
    dwrites : list input;      (* ghost: newest first *)
    dchecked : list (input * bool);   (* ghost *)
    ddone : bool }.

  Definition dinit (i : input) : dst := mk_dst i 0 false false false None [] [] [] [] false.

  Inductive daction :=
  | DGen                       (* TaskGenerator.__next__ looks at subset number index *)
  | DWork (i : nat) (ab : bool)   (* a worker finishes the i-th pending task; ab: it saw the abort flag at its start *)
  | DConsume (i : nat)            (* the main loop receives the i-th outstanding result *)
  | DEndRound.                    (* imap_unordered is exhausted *)

  Fixpoint dremove_nth {A} (n : nat) (l : list A) : list A :=
    match n, l with
    | _, [] => []
    | O, _ :: r => r
    | S k, x :: r => x :: dremove_nth k r
    end.

  (* the worker: candidates are tried in order; the first accepted one wins *)
  Fixpoint first_accepted (l : list input) : option input :=
    match l with [] => None | c :: r => if accept c then Some c else first_accepted r end.
  Fixpoint tested (l : list input) : list (input * bool) :=
    match l with [] => [] | c :: r => if accept c then [(c, true)] else (c, false) :: tested r end.

  Definition dexec (s : dst) (a : daction) : option dst :=
    if ddone s then None else
    match a with
    | DGen =>
        if dstopped s || negb (Nat.ltb (dindex s) nsubsets) then None
        else
          let k := dindex s in
          let cs := cands k (dcur s) in
          let pend := match cs with [] => dpending s | _ => dpending s ++ [mk_dtask k (dcur s) cs] end in
          Some (mk_dst (dcur s) (S k) (dstopped s) (dabort s) (dskip s) (dstart s) pend (dresults s)
                       (dwrites s) (dchecked s) false)
    | DWork i ab =>
        match nth_error (dpending s) i with
        | None => None
        | Some t =>
            if ab && negb (dabort s) then None else
            let r := if ab then mk_dres (d_id t) (d_base t) None
                     else mk_dres (d_id t) (d_base t) (first_accepted (d_cands t)) in
            let chk := if ab then dchecked s else rev (tested (d_cands t)) ++ dchecked s in
            Some (mk_dst (dcur s) (dindex s) (dstopped s) (dabort s) (dskip s) (dstart s)
                         (dremove_nth i (dpending s)) (dresults s ++ [r]) (dwrites s) chk false)
        end
    | DConsume i =>
        match nth_error (dresults s) i with
        | None => None
        | Some r =>
            let res := dremove_nth i (dresults s) in
            match r_succ r with
            | Some c =>
                if dskip s then
                  Some (mk_dst (dcur s) (dindex s) (dstopped s) (dabort s) true (dstart s) (dpending s) res
                               (dwrites s) (dchecked s) false)
                else
                  (* set abort flag, stop the generator, update it, write the file, remember where to restart *)
                  Some (mk_dst c (dindex s) true true true (Some (S (r_id r))) (dpending s) res
                               (c :: dwrites s) (dchecked s) false)
            | None =>
                Some (mk_dst (dcur s) (dindex s) (dstopped s) (dabort s) (dskip s) (dstart s) (dpending s) res
                             (dwrites s) (dchecked s) false)
            end
        end
    | DEndRound =>
        if (dstopped s || negb (Nat.ltb (dindex s) nsubsets)) then
          match dpending s, dresults s with
          | [], [] =>
              if dabort s then
                match dstart s with
                | Some k => Some (mk_dst (dcur s) k false false false None [] [] (dwrites s) (dchecked s) false)
                | None => None
                end
              else Some (mk_dst (dcur s) (dindex s) (dstopped s) false (dskip s) (dstart s) [] [] (dwrites s) (dchecked s) true)
          | _, _ => None
          end
        else None
    end.

  Definition dstep (s s' : dst) : Prop := exists a, dexec s a = Some s'.
  Inductive dreachable (i : input) : dst -> Prop :=
  | DR0 : dreachable i (dinit i)
  | DRS : forall s s', dreachable i s -> dstep s s' -> dreachable i s'.

  Fixpoint dreplay (s : dst) (l : list daction) : option dst :=
    match l with
    | [] => Some s
    | a :: r => match dexec s a with Some s' => dreplay s' r | None => None end
    end.
End Ddmin.
