(* Model of ddsmt.nodeio.parse_smtlib (as of the fixed scanner): a character
   automaton.  The Python inner while loops, the [pos -= 1] un-read and the
   look-ahead for a doubled quote become mode transitions.  No proofs here. *)
From DD Require Export Base.Sexp.

Inductive mode :=
| MTop
| MTok (acc : str)              (* inside an atom; acc reversed *)
| MLit (q : char) (acc : str)   (* inside a string literal / quoted symbol *)
| MLitQ (acc : str)             (* just read the closing double quote: look ahead *)
| MCom (acc : str).             (* inside a comment *)

Record st := mkst {
  out   : list sexp;            (* yielded top-level expressions, reversed *)
  stack : list (list sexp);     (* open lists, innermost first, each reversed *)
  md    : mode }.

Definition init : st := mkst [] [] MTop.

(* append leaf/list x to the innermost open list, or yield it at top level *)
Definition emit (x : sexp) (s : st) : st :=
  match stack s with
  | [] => mkst (x :: out s) [] MTop
  | f :: fs => mkst (out s) ((x :: f) :: fs) MTop
  end.

Definition close (s : st) : st :=
  match stack s with
  | [] => mkst (out s) [] MTop                      (* unmatched: ignored *)
  | f :: fs => emit (T (rev f)) (mkst (out s) fs MTop)
  end.

(* a character read in top mode *)
Definition step_top (s : st) (c : char) : st :=
  if N.eqb c cDQ || N.eqb c cBAR then mkst (out s) (stack s) (MLit c [c])
  else if N.eqb c cSEMI then mkst (out s) (stack s) (MCom [c])
  else if N.eqb c cLP then mkst (out s) ([] :: stack s) MTop
  else if N.eqb c cRP then close s
  else if is_ws c then mkst (out s) (stack s) MTop
  else mkst (out s) (stack s) (MTok [c]).

Definition step (s : st) (c : char) : st :=
  match md s with
  | MTop => step_top s c
  | MTok acc =>
      if is_ws c then emit (L (rev acc)) s
      else if is_brk c || N.eqb c cDQ || N.eqb c cBAR then step_top (emit (L (rev acc)) s) c     (* un-read: c starts the next lexeme *)
      else mkst (out s) (stack s) (MTok (c :: acc))
  | MLit q acc =>
      if N.eqb c q then
        if N.eqb q cDQ then mkst (out s) (stack s) (MLitQ (c :: acc))
        else emit (L (rev (c :: acc))) s
      else mkst (out s) (stack s) (MLit q (c :: acc))
  | MLitQ acc =>
      if N.eqb c cDQ then mkst (out s) (stack s) (MLit cDQ (c :: acc))
      else step_top (emit (L (rev acc)) s) c
  | MCom acc =>
      if N.eqb c cLF || N.eqb c cCR then emit (L (rev (c :: acc))) s       (* a comment ends at the first line-breaking character *)
      else mkst (out s) (stack s) (MCom (c :: acc))
  end.

Definition run (t : str) (s : st) : st := fold_left step t s.

(* end of input: an atom, a closed string literal or a comment in progress (which
   then gets its line break) is emitted; an unterminated literal ends the scan without emitting; lists that
   are still open are dropped. *)
Definition finish (s : st) : list sexp :=
  match md s with
  | MTop => rev (out s)
  | MTok acc => rev (out (emit (L (rev acc)) s))
  | MLit _ _ => rev (out s)
  | MLitQ acc => rev (out (emit (L (rev acc)) s))
  | MCom acc => rev (out (emit (L (rev (cLF :: acc))) s))
  end.

Definition parse (t : str) : list sexp := finish (run t init).
