(* Models of the renderers in ddsmt.nodeio: the compact one-line writer
   (__write_smtlib), the file written for checking, the default output, the
   pretty printer and the line-wrapping writer.  Structural versions of the
   explicit-stack loops.  No proofs here. *)
From DD Require Export Base.Sexp.

Definition is_comment (s : str) : bool :=
  match s with c :: _ => N.eqb c cSEMI | [] => false end.

Definition sp (ns : bool) : str := if ns then [cSP] else [].

(* __write_smtlib: text written for e and the new value of needs_space *)
Fixpoint wc (ns : bool) (e : sexp) : str * bool :=
  match e with
  | L [] => (sp ns, ns)
  | L s => if is_comment s then (sp ns ++ cLF :: s ++ [cLF], true)
           else (sp ns ++ s, true)
  | T l =>
      let body :=
        (fix go (ns : bool) (l : list sexp) : str :=
           match l with
           | [] => []
           | x :: xs => let '(t, ns') := wc ns x in t ++ go ns' xs
           end) false l in
      (sp ns ++ cLP :: body ++ [cRP], true)
  end.

Definition w_compact (e : sexp) : str := fst (wc false e).

Definition w_check (es : list sexp) : str :=
  flat_map (fun e => w_compact e ++ [cLF]) es.

Definition w_default (es : list sexp) : str :=
  flat_map (fun e => w_compact e ++ [cLF]) es.

(* Node.__str__ *)
Fixpoint to_str (e : sexp) : str :=
  match e with
  | L s => s
  | T l =>
      cLP :: (fix go (first : bool) (l : list sexp) : str :=
                match l with
                | [] => []
                | x :: xs => (if first then [] else [cSP]) ++ to_str x ++ go false xs
                end) true l ++ [cRP]
  end.

(* __write_smtlib_pretty at indentation depth d (indent = 2d spaces) *)
Fixpoint wp (d : nat) (e : sexp) : str :=
  match e with
  | L [] => []
  | L s => if is_comment s then cLF :: s ++ [cLF]
           else spaces (2 * d) ++ s ++ [cLF]
  | T l =>
      if forallb is_leaf l then spaces (2 * d) ++ to_str (T l) ++ [cLF]
      else
        let go := (fix go (l : list sexp) : str :=
                     match l with [] => [] | x :: xs => wp (S d) x ++ go xs end) in
        match l with
        | L h :: tl => spaces (2 * d) ++ cLP :: h ++ [cLF] ++ go tl
                       ++ spaces (2 * d) ++ [cRP; cLF]
        | _ => spaces (2 * d) ++ [cLP; cLF] ++ go l ++ spaces (2 * d) ++ [cRP; cLF]
        end
  end.

Definition w_pretty (es : list sexp) : str := flat_map (wp 0) es.

(* __write_smtlib_wrapped: state is (needs_space, column) *)
Definition wrap_width : nat := 78.

Definition wsep (ns : bool) (col len : nat) : str * nat :=
  if ns then
    if Nat.ltb wrap_width (col + 1 + len) then ([cLF; cSP; cSP], 2)
    else ([cSP], S col)
  else ([], col).

Fixpoint ww (ns : bool) (col : nat) (e : sexp) : str * (bool * nat) :=
  match e with
  | L s =>
      let '(sep, col1) := wsep ns col (length s) in
      match s with
      | [] => (sep, (ns, col1))
      | _ => if is_comment s then (sep ++ cLF :: s ++ [cLF], (true, 0))
             else (sep ++ s, (true, col1 + length s))
      end
  | T l =>
      let '(sep, col1) := wsep ns col 1 in
      let '(body, col2) :=
        (fix go (ns : bool) (col : nat) (l : list sexp) : str * nat :=
           match l with
           | [] => ([], col)
           | x :: xs => let '(t, (ns', col')) := ww ns col x in
                        let '(r, col'') := go ns' col' xs in (t ++ r, col'')
           end) false (S col1) l in
      (sep ++ cLP :: body ++ [cRP], (true, S col2))
  end.

Definition w_wrap1 (e : sexp) : str := fst (ww false 0 e).
Definition w_wrap (es : list sexp) : str := flat_map (fun e => w_wrap1 e ++ [cLF]) es.
