(* Models of the GLOBAL mutators of ddSMT, i.e. of those whose simplifications are more than "replace this node":
     IntroduceFreshVariable (mutators_smtlib.py), BVReduceBW, BVMergeReducedBW (mutators_bv.py),
     StringContainsToConcat (mutators_strings.py), EliminateVariable (mutators_smtlib.py),
     RemoveConstructor, RemoveDatatype (mutators_datatypes.py),
   over pure s-expressions.  A mutators_utils.Simplification(substs, fresh_vars) is a [gsimp]:
     ids    : the entries of substs keyed by a node id, in dict order; the node is named by its POSITION in the
              input (path from the list of commands: index of the command, index of the child, ...); the value is
              the replacement, None = the node is deleted from the list that holds it;
     struct : the entries of substs keyed by a Node (every structurally equal node of the input is replaced), in
              dict order;
     fresh  : fresh_vars, the declarations that apply_simp inserts.
   Convention of Model/Rewrites.v for the result: None = the Python code raises (in filter, or while the generator
   of simplifications is consumed), Some [] = the mutator does not accept the node or proposes nothing.
   What the implementation reads from its module tables enters as oracle arguments: get_sort, get_bv_width, the
   declared symbols, the first-order constants, the defined functions, the definition nodes, the node's id, and
   [here], the position of the node in the input.
   Limits (stated, not checked): node identities are positions, i.e. the input has no shared nodes (true of a
   freshly read input; after a substitution that inserted one replacement at several places ids are shared and one
   id names several positions); an empty leaf (which the reader never produces) makes is_const / is_piped_symbol
   raise, the models treat it like any other leaf; Python's int() also accepts non-ASCII digits.
   No proofs here. *)
From DD Require Export Model.InlineRw Model.CoreRw Model.ConstRw.
Open Scope string_scope.
Local Open Scope list_scope.

Definition path := list nat.
Inductive gsimp := GS (ids : list (path * option sexp)) (struct : list (sexp * option sexp)) (fresh : list sexp).
Definition gs_ids (g : gsimp) := match g with GS i _ _ => i end.
Definition gs_struct (g : gsimp) := match g with GS _ s _ => s end.
Definition gs_fresh (g : gsimp) := match g with GS _ _ f => f end.

(* the node at a position: below a node, and in the input (a list of commands; the empty path names no node) *)
Fixpoint get_at (e : sexp) (p : path) : option sexp :=
  match p with
  | [] => Some e
  | i :: q => match e with
              | T l => match nth_error l i with Some x => get_at x q | None => None end
              | L _ => None
              end
  end.
Definition get_in (input : list sexp) (p : path) : option sexp :=
  match p with [] => None | _ => get_at (T input) p end.

(* ---- smtlib.is_const ---- *)
(* is_arith_const / is_real_const on a compound node: (/ numeral numeral); the regular expressions end in $ *)
Definition is_frac (e : sexp) : bool :=
  match e with
  | T [L h; L a; L b] => iss h "/" && all_digits (chomp a) && all_digits (chomp b)
  | _ => false
  end.
Definition is_const (e : sexp) : bool :=
  match e with
  | L s => is_const_leaf s
  | T _ => is_frac e || is_bv_const e || is_op e "fp"
  end.

(* Node('declare-const', name, sort) *)
Definition mk_decl (name : str) (so : sexp) : sexp := T [lf "declare-const"; L name; so].

(* ---- IntroduceFreshVariable ---- *)
Definition fresh_name (id : Z) : str := lit "x" ++ z_to_dec id ++ lit "__fresh".

Section FreshVar.
  Variable gs : sexp -> option sexp.           (* smtlib.get_sort *)
  Variable vars : list (str * option Z).       (* the first-order constants (is_var) with their get_bv_width; None = it raises *)
  Variable isdef : bool.                       (* is_definition_node(node): the body of a define-fun *)
  Variable declared : str -> bool.             (* is_declared_symbol *)
  Variable id : Z.                             (* node.id *)
  Variable here : path.

  (* the loop of filter over dfs(node) for a term of a bit-vector sort of width sw (None: int(sort[2].data) raises,
     which is only evaluated at the first variable); None = raises *)
  Fixpoint bv_var_scan (sw : option Z) (found : bool) (l : list sexp) : option bool :=
    match l with
    | [] => Some false
    | L s :: r =>
        match alookup s vars with
        | Some w =>
            if found then Some true
            else match w, sw with
                 | Some bw, Some k => if Z.ltb k bw then Some true else bv_var_scan sw true r
                 | _, _ => None
                 end
        | None => bv_var_scan sw found r
        end
    | T _ :: r => bv_var_scan sw found r
    end.

  (* filter: the sort of an accepted node *)
  Definition fresh_filter (e : sexp) : option (option sexp) :=
    match e with
    | L _ => Some None
    | T _ =>
        if is_const e || isdef then Some None
        else match gs e with
             | None => Some None
             | Some so =>
                 if is_bv_sort so then
                   match bv_var_scan (match so with T [_; _; w] => py_int_node w | _ => None end) false (subterms e) with
                   | None => None
                   | Some true => Some (Some so)
                   | Some false => Some None
                   end
                 else Some (Some so)
             end
    end.

  Definition rw_fresh_var (e : sexp) : option (list gsimp) :=
    match fresh_filter e with
    | None => None
    | Some None => Some []
    | Some (Some so) =>
        let v := fresh_name id in
        if declared v then Some [] else Some [GS [(here, Some (L v))] [] [mk_decl v so]]
    end.
End FreshVar.

(* ---- BVReduceBW ---- *)
(* sorted(set(l)) *)
Fixpoint zinsert (x : Z) (l : list Z) : list Z :=
  match l with
  | [] => [x]
  | y :: r => if Z.ltb x y then x :: l else if Z.eqb x y then l else y :: zinsert x r
  end.
Definition sorted_set (l : list Z) : list Z := fold_right zinsert [] l.
Definition bv_sort_of (w : Z) : sexp := T [lf "_"; lf "BitVec"; L (z_to_dec w)].

Section ReduceBW.
  Variable gs : sexp -> option sexp.           (* smtlib.get_sort *)
  Variable bw : sexp -> option Z.              (* smtlib.get_bv_width; None = it raises *)
  Variable declared : str -> bool.
  Variable here : path.

  Definition reduce_bw_filter (e : sexp) : bool :=
    match e with
    | T (L h :: n1 :: rest) =>
        ((iss h "declare-const" && Nat.ltb 0 (length rest))
         || (iss h "declare-fun" && Nat.ltb 1 (length rest) && match rest with n2 :: _ => Nat.eqb (len n2) 0 | [] => false end))
        && match gs n1 with Some so => is_bv_sort so | None => false end
    | _ => false
    end.

  Definition reduce_bw_one (n1 so : sexp) (v : str) (w b : Z) : gsimp :=
    GS [(here, Some (T [lf "define-fun"; n1; T []; so; T [idx_head "zero_extend" [(w - b)%Z]; L v]]))]
       []
       [mk_decl v (bv_sort_of b)].

  Definition rw_bv_reduce_bw (e : sexp) : option (list gsimp) :=
    if reduce_bw_filter e then
      match e with
      | T (_ :: n1 :: _) =>
          match bw n1 with
          | None => None
          | Some w =>
              match n1, gs n1 with
              | L s, Some so =>
                  let v := 95%N :: s in
                  if is_piped s || (match s with c :: _ => N.eqb c cDQ || N.eqb c cSEMI | [] => false end) || declared v then Some []
                  else Some (map (reduce_bw_one n1 so v w)
                                 (filter (fun b => Z.ltb 0 b && Z.ltb b w) (sorted_set [w - 1; w / 2; 2; 1]%Z)))
              | _, _ => Some []
              end
          end
      | _ => Some []
      end
    else Some [].
End ReduceBW.

(* ---- BVMergeReducedBW ---- *)
(* node[-1][-1]: the last child of the last child; of a leaf, the last character of its text (a Python str) *)
Inductive lastlast := LLraise | LLchar (c : char) | LLnode (n : sexp).
Definition last_of_last (e : sexp) : lastlast :=
  match e with
  | L _ => LLraise
  | T l =>
      match rev l with
      | [] => LLraise
      | L s :: _ => match rev s with [] => LLraise | c :: _ => LLchar c end
      | T m :: _ => match rev m with [] => LLraise | n :: _ => LLnode n end
      end
  end.
Definition last_child (e : sexp) : option sexp :=
  match e with T l => match rev l with x :: _ => Some x | [] => None end | L _ => None end.

Section MergeBW.
  Variable gs : sexp -> option sexp.
  Variable defs : list defn.                   (* __defined_functions, in the order of the definitions *)
  Variable here : path.

  (* is_defined_fun *)
  Definition def_of (e : sexp) : option defn :=
    match e with
    | L s => lookup_def defs s
    | T (L h :: _) => lookup_def defs h
    | _ => None
    end.
  (* is_defined_fun(n) and is_indexed_operator_app(get_defined_fun(n), 'zero_extend', 1):
     None = raises, Some None = false, Some (Some b) = true with b = get_defined_fun(n) *)
  Definition zext_def (n : sexp) : option (option sexp) :=
    match def_of n with
    | None => Some None
    | Some d =>
        match instantiate d n with
        | None => None
        | Some b => if is_indexed_app b "zero_extend" 1 then Some (Some b) else Some None
        end
    end.
  (* int(b[0][-1].data) *)
  Definition zext_amount (b : sexp) : option Z :=
    match b with
    | T (h :: _) => match last_child h with Some k => py_int_node k | None => None end
    | _ => None
    end.

  Definition rw_bv_merge_bw (e : sexp) : option (list gsimp) :=
    if is_op e "define-fun" then
      match e with
      | T (_ :: n1 :: n2 :: rest) =>
          if negb (Nat.eqb (len n2) 0) then Some []
          else match gs n1 with
               | None => Some []
               | Some so =>
                   if negb (is_bv_sort so) then Some []
                   else match zext_def n1 with
                        | None => None
                        | Some None => Some []
                        | Some (Some b1) =>
                            match last_of_last e with
                            | LLraise => None
                            | LLchar c => match lookup_def defs [c] with Some _ => None | None => Some [] end
                            | LLnode n =>
                                match zext_def n with
                                | None => None
                                | Some None => Some []
                                | Some (Some b2) =>
                                    (* mutations *)
                                    match rest with
                                    | [] => None                                   (* node[3] raises IndexError *)
                                    | nsort :: _ =>
                                        match zext_amount b1 with
                                        | None => None
                                        | Some z1 =>
                                            if sexp_eqb n n1 then Some []
                                            else if (match n with L s => is_recursive defs s | T (L h :: _) => is_recursive defs h | _ => false end)
                                            then Some []          (* the inner definition refers to itself, directly or not *)
                                            else match zext_amount b2, last_child b2 with
                                                 | Some z2, Some dec =>
                                                     Some [GS [(here, Some (T [lf "define-fun"; n1; T []; nsort;
                                                                               T [idx_head "zero_extend" [(z1 + z2)%Z]; dec]]))] [] []]
                                                 | _, _ => None
                                                 end
                                        end
                                    end
                                end
                            end
                        end
               end
      | _ => None                                  (* node[2] raises IndexError *)
      end
    else Some [].
End MergeBW.

(* ---- StringContainsToConcat ---- *)
Definition rw_str_contains (declared : str -> bool) (e : sexp) : option (list gsimp) :=
  if is_op e "str.contains" then
    match e with
    | T [_; L v; x] =>
        if is_const_leaf v || is_piped v || (match v with c :: _ => N.eqb c cSEMI | [] => false end) then Some []
        else
          let k1 := v ++ lit "_prefix" in
          let k2 := v ++ lit "_suffix" in
          if declared k1 || declared k2 then Some []
          else Some [GS [] [(e, Some (T [lf "="; L v; T [lf "str.++"; L k1; x; L k2]]))]
                        [mk_decl k1 (lf "String"); mk_decl k2 (lf "String")]]
    | _ => Some []
    end
  else Some [].

(* ---- EliminateVariable ---- *)
(* the positions, in the order of nodes.dfs, of the nodes equal to t *)
Fixpoint occs (t : sexp) (p : path) (e : sexp) : list path :=
  (if sexp_eqb e t then [p] else []) ++
  match e with
  | L _ => []
  | T l => (fix go (i : nat) (l : list sexp) : list path :=
              match l with [] => [] | x :: r => occs t (p ++ [i]) x ++ go (S i) r end) 0 l
  end.
Fixpoint occs_from (t : sexp) (p : path) (i : nat) (l : list sexp) : list path :=
  match l with [] => [] | x :: r => occs t (p ++ [i]) x ++ occs_from t p (S i) r end.
Definition occs_input (t : sexp) (input : list sexp) : list path := occs_from t [] 0 input.

Section ElimVar.
  Variable input : list sexp.                  (* the whole input *)
  Variable isdef : path -> bool.               (* is_definition_node of the node at a position *)

  Definition elim_targets (ops : list sexp) : list sexp := filter (fun n => is_leaf n && negb (is_const n)) ops.
  Definition elim_one (t c : sexp) : list gsimp :=
    if sexp_eqb c t then []
    else if mem_sexp t (subterms c) then []       (* avoid cycles *)
    else match filter (fun p => negb (isdef p)) (occs_input t input) with
         | [] => []
         | ps => [GS (map (fun p => (p, Some c)) ps) [] []]
         end.
  Definition rw_elim_var (e : sexp) : option (list gsimp) :=
    match e with
    | T (L h :: ops) =>
        if iss h "=" && existsb is_leaf ops then
          Some (flat_map (fun t => flat_map (elim_one t) ops) (elim_targets ops))
        else Some []
    | _ => Some []
    end.
End ElimVar.

(* ---- RemoveConstructor: {cons.id: None}; iterating over a (non-empty) leaf yields its characters, which have no id ---- *)
Definition del_at (p : path) : gsimp := GS [(p, None)] [] [].
Fixpoint rm_cons_types (p : path) (j : nat) (tys : list sexp) : option (list gsimp) :=
  match tys with
  | [] => Some []
  | ty :: r =>
      match ty, rm_cons_types p (S j) r with
      | L [], Some rest => Some rest
      | T cs, Some rest => Some (map (fun i => del_at (p ++ [j; i])) (seq 0 (length cs)) ++ rest)
      | _, _ => None
      end
  end.
Definition rw_remove_constructor (here : path) (e : sexp) : option (list gsimp) :=
  if is_op e "declare-datatype" then
    match e with
    | T [_; _; n2] =>
        match n2 with
        | L [] => Some []
        | L _ => None
        | T cs => Some (map (fun i => del_at (here ++ [2; i]%nat)) (seq 0 (length cs)))
        end
    | _ => Some []
    end
  else if is_op e "declare-datatypes" then
    match e with
    | T [_; _; n2] =>
        match n2 with
        | L [] => Some []
        | L _ => None
        | T tys => rm_cons_types (here ++ [2%nat]) 0 tys
        end
    | _ => Some []
    end
  else Some [].

(* ---- RemoveDatatype: {node[1][i].id: None, node[2][i].id: None} ---- *)
Definition rw_remove_datatype (here : path) (e : sexp) : option (list gsimp) :=
  if is_op e "declare-datatypes" then
    match e with
    | T [_; n1; n2] =>
        if Nat.eqb (len n1) (len n2) then
          Some (map (fun i => GS [(here ++ [1; i]%nat, None); (here ++ [2; i]%nat, None)] [] []) (seq 0 (len n1)))
        else Some []
    | _ => Some []
    end
  else Some [].
