(* Model of smtlib.get_defined_fun / is_recursive_defined_fun and of
   mutators_smtlib.InlineDefinedFuns.mutations at a USE SITE (a node that is not
   part of a definition), relative to the table of definitions collected from the
   input, over pure s-expressions.  Convention of Model/Rewrites.v: None = the
   Python code raises, Some l = the replacements proposed.  No proofs here. *)
From DD Require Export Model.LetRw.
Open Scope string_scope.
Local Open Scope list_scope.

(* one (define-fun name formals sort body) as collect_information records it: formals = the children of cmd[2] *)
Record defn := mk_defn { d_name : str; d_formals : list sexp; d_body : sexp }.

Fixpoint find_def (defs : list defn) (n : str) : option defn :=
  match defs with
  | [] => None
  | d :: r => if str_eqb (d_name d) n then Some d else find_def r n
  end.
(* collect_information overwrites an earlier definition of the same name: the LAST one counts *)
Definition lookup_def (defs : list defn) (n : str) : option defn := find_def (rev defs) n.

(* nodes.substitute with several structural keys, simultaneously; a later pair with an equal key overrides an earlier
   one (dict semantics); replacements are not traversed again *)
Fixpoint assoc_last (m : list (sexp * sexp)) (e : sexp) : option sexp :=
  match m with
  | [] => None
  | (k, v) :: r => match assoc_last r e with Some x => Some x | None => if sexp_eqb k e then Some v else None end
  end.
Fixpoint subst_map (m : list (sexp * sexp)) (e : sexp) : sexp :=
  match assoc_last m e with
  | Some v => v
  | None => match e with
            | L _ => e
            | T l => T ((fix go (l : list sexp) : list sexp := match l with [] => [] | x :: r => subst_map m x :: go r end) l)
            end
  end.

(* {cmd[2][i][0]: args[i]}: None = a formal that is an empty list (or an empty leaf) makes the lambda raise *)
Fixpoint bind_formals (fs args : list sexp) : option (list (sexp * sexp)) :=
  match fs, args with
  | _, [] => Some []
  | [], _ :: _ => None
  | T (p :: _) :: fr, a :: ar => match bind_formals fr ar with Some m => Some ((p, a) :: m) | None => None end
  | L (c :: _) :: fr, a :: ar =>       (* a formal that is a leaf: cmd[2][i][0] is its first character, which as a dict key equals the leaf of that text *)
      match bind_formals fr ar with Some m => Some ((L [c], a) :: m) | None => None end
  | _ :: _, _ :: _ => None
  end.

(* get_defined_fun for a node whose name is defined by d (after the fix of F19: capture guard) *)
Definition instantiate (d : defn) (e : sexp) : option sexp :=
  match e with
  | L _ => Some (d_body d)
  | T (_ :: args) =>
      if Nat.eqb (length (d_formals d)) (length args) then
        match bind_formals (d_formals d) args with
        | Some [] => Some (d_body d)            (* substitute with an empty map returns its argument *)
        | Some m =>
            (* smtlib.__instantiate: no instantiation (the node itself is returned) if a binder within the body binds
               a formal parameter again or would capture a symbol of an actual argument *)
            let bound := bound_syms (d_body d) in
            if existsb (fun f => mem_sexp f bound) (map fst m)
               || existsb (fun n => is_leaf n && mem_sexp n bound) (flat_map subterms args)
            then Some e
            else Some (subst_map m (d_body d))
        | None => None
        end
      else Some e
  | T [] => Some e
  end.

(* is_recursive_defined_fun: the names of defined functions that occur as leaves ... *)
Definition defined_leaves (defs : list defn) (e : sexp) : list str :=
  flat_map (fun x => match x with L s => match lookup_def defs s with Some _ => [s] | None => [] end | T _ => [] end) (subterms e).
(* ... scanned in order: None = the function itself was met *)
Fixpoint scan (name : str) (leaves seen todo : list str) : option (list str * list str) :=
  match leaves with
  | [] => Some (seen, todo)
  | n :: r => if str_eqb n name then None
              else if mem_str_l n seen then scan name r seen todo
              else scan name r (seen ++ [n]) (todo ++ [n])
  end.
(* the work list is a stack (todo.pop() takes the last element); every name enters it at most once *)
Fixpoint rec_loop (defs : list defn) (fuel : nat) (name : str) (seen todo : list str) : bool :=
  match fuel with
  | O => false
  | S f =>
      match rev todo with
      | [] => false
      | cur :: rest_rev =>
          match lookup_def defs cur with
          | None => false
          | Some d =>
              match scan name (defined_leaves defs (d_body d)) seen (rev rest_rev) with
              | None => true
              | Some (seen', todo') => rec_loop defs f name seen' todo'
              end
          end
      end
  end.
Definition is_recursive (defs : list defn) (n : str) : bool := rec_loop defs (S (S (length defs))) n [] [n].

Definition rw_inline (defs : list defn) (e : sexp) : option (list sexp) :=
  let name := match e with L s => Some s | T (L h :: _) => Some h | _ => None end in
  match name with
  | None => Some []
  | Some n =>
      match lookup_def defs n with
      | None => Some []
      | Some d =>
          if is_leaf e && negb (Nat.eqb (length (d_formals d)) 0) then Some []
          else if is_recursive defs n then Some []
          else match instantiate d e with
               | None => None
               | Some res => if sexp_eqb res e then Some [] else Some [res]
               end
      end
  end.
