(* checker.execute as a function from the behaviour of the child process to the
   run record, and the embedding of configurations/outcomes into the values the
   translated code (Gen/CheckerGen.v) works on. *)
From DD Require Export Gen.CheckerGen Spec.AcceptRule.

Definition v_bool (b : bool) : pyval := VBool b.
Definition v_ostr (o : option str) : pyval := match o with Some s => VStr s | None => VNone end.

Definition cfg_of (c : ccfg) : config :=
  mk_config (VList 1) VNone
    (v_bool (ign_output c)) (v_bool (ign_out c)) (v_bool (ign_err c)) (v_ostr (m_out c)) (v_ostr (m_err c))
    (if has_cc c then VList 1 else VNone) VNone
    (v_bool (ign_output_cc c)) (v_ostr (m_out_cc c)) (v_ostr (m_err_cc c)) (v_bool (unchecked c)).

(* what the child does within the limits *)
Inductive child :=
| Exits (o : outcome)       (* terminates in time (a negative code = killed by a signal, e.g. SIGXCPU/SIGKILL) *)
| Overruns.                 (* still running when communicate(timeout) expires *)

Definition s_unchecked : str := [117;110;99;104;101;99;107;101;100]%N.

Definition run_of (o : outcome) : runinfo := mk_run (VInt (code o)) (VStr (sout o)) (VStr (serr o)).
Definition timed_out : runinfo := mk_run VNone VNone VNone.

(* execute(): with --unchecked nothing is run *)
Definition execute (c : ccfg) (b : child) : runinfo :=
  if unchecked c then mk_run (VInt 0) (VStr s_unchecked) (VStr s_unchecked)
  else match b with Exits o => run_of o | Overruns => timed_out end.

(* check_exprs: render, run the command (and the cross-check command), compare *)
Definition check_run (c : ccfg) (golden golden_cc : runinfo) (b bcc : child) : res bool :=
  check (cfg_of c) golden golden_cc (execute c b) (execute c bcc).
