(* Model of the relevance test of mutators.auto_detect_theories over pure
   s-expressions:

     exprs = [e for e in map(smtlib.without_comments, exprs) if e is not None]
     for node in nodes.dfs(exprs, max_depth=1):
         if theory.is_relevant(node): enabled = True

   nodes.dfs(exprs, max_depth=1) on a list yields exactly the top-level nodes
   (cur_depth = 1 is not < max_depth, so nothing is expanded).  The five
   is_relevant functions (mutators_arithmetic, _bv, _datatypes, _fp, _strings)
   first ask node.has_ident() (a non-empty list whose first child is a leaf)
   and then either compare the head with the four datatype commands or ask
   nodes.contains(node, pred): pred holds for SOME node of the full pre-order
   traversal of the top-level node, the node itself included.  The predicates:

     arithmetic   t in ['Int', 'Real']                     (Node == str: a leaf with that text)
     bv           smtlib.is_bv_sort: a list of length 3, head the leaf '_', second child == 'BitVec'
                  (the third child is not looked at: (_ BitVec x), (_ BitVec (a b)) pass;
                   (_ BitVec), (_ BitVec 8 9) do not)
     fp           smtlib.is_fp_sort: a leaf that starts with 'Float' and whose text from
                  position 5 on is one of 16, 32, 64, 128; or a list of length 4, head the
                  leaf '_', second child == 'FloatingPoint' (the indices are not looked at);
                  or smtlib.is_rm_sort: the leaf RoundingMode
     strings      t in ['String', 'RegLan'] or smtlib.is_seq_type: a non-empty list whose
                  head is the leaf Seq (any number of arguments, (Seq) included)

   core, boolean and smtlib define no is_relevant: auto_detect_theories never
   disables them ([has_is_relevant] = false, [relevant] = [relevant_raw] = true).  No proofs here. *)
From DD Require Export Model.LetRw.
Open Scope string_scope.
Local Open Scope list_scope.

(* Node.has_ident *)
Definition node_has_ident (e : sexp) : bool := match e with T (L _ :: _) => true | _ => false end.
(* nodes.contains(node, f) = any(map(f, nodes.dfs(node))) *)
Definition contains (f : sexp -> bool) (e : sexp) : bool := existsb f (subterms e).
(* t in [names]: list membership compares with Node.__eq__(str) = is_leaf() and data == str *)
Definition leaf_among (names : list string) (e : sexp) : bool :=
  match e with L s => existsb (iss s) names | T _ => false end.

(* smtlib.is_fp_sort *)
Definition is_fp_sort (e : sexp) : bool :=
  match e with
  | L s => starts "Float" s && existsb (fun x => str_eqb (skipn 5 s) (lit x)) ["16"; "32"; "64"; "128"]
  | T [L h; b; _; _] => iss h "_" && sexp_eqb b (lf "FloatingPoint")
  | _ => false
  end.
(* smtlib.is_rm_sort *)
Definition is_rm_sort (e : sexp) : bool := match e with L s => iss s "RoundingMode" | T _ => false end.
(* smtlib.is_seq_type = is_operator_app(node, 'Seq') *)
Definition is_seq_type (e : sexp) : bool := is_op e "Seq".

Definition dt_commands : list string :=
  ["declare-datatypes"; "declare-datatype"; "declare-codatatypes"; "declare-codatatype"].

(* <theory module>.is_relevant *)
Definition arith_is_relevant (n : sexp) : bool :=
  node_has_ident n && contains (leaf_among ["Int"; "Real"]) n.
Definition bv_is_relevant (n : sexp) : bool :=
  node_has_ident n && contains is_bv_sort n.
Definition dt_is_relevant (n : sexp) : bool :=
  match n with T (L h :: _) => existsb (iss h) dt_commands | _ => false end.
Definition fp_is_relevant (n : sexp) : bool :=
  node_has_ident n && (contains is_fp_sort n || contains is_rm_sort n).
Definition strings_is_relevant (n : sexp) : bool :=
  node_has_ident n && (contains (leaf_among ["String"; "RegLan"]) n || contains is_seq_type n).

(* hasattr(theory, 'is_relevant') / theory.is_relevant, by the key of get_all_mutators() *)
Definition is_relevant_of (theory : str) : option (sexp -> bool) :=
  if iss theory "arithmetic" then Some arith_is_relevant
  else if iss theory "bv" then Some bv_is_relevant
  else if iss theory "datatypes" then Some dt_is_relevant
  else if iss theory "fp" then Some fp_is_relevant
  else if iss theory "strings" then Some strings_is_relevant
  else None.
Definition has_is_relevant (theory : str) : bool :=
  match is_relevant_of theory with Some _ => true | None => false end.

(* the relevance test on the script as it is (auto_detect_theories before the
   repair "theory detection sees through comments and quoted sort names"): the
   value of [enabled] after the loop; a theory without is_relevant is never
   disabled *)
Definition relevant_raw (theory : str) (script : list sexp) : bool :=
  match is_relevant_of theory with
  | Some p => existsb p script
  | None => true
  end.

(* smtlib.without_comments: a copy without comment leaves (text starts with ';')
   at any depth and with every leaf |...| of length > 2 replaced by its text
   without the bars (|| stays); None if the node itself is a comment leaf.  A
   list always stays a list, possibly the empty one. *)
Definition is_comment_leaf (s : str) : bool := match s with c :: _ => N.eqb c cSEMI | [] => false end.
Definition unquote (s : str) : str :=
  if Nat.ltb 2 (length s) && N.eqb (hd 0%N s) cBAR && N.eqb (last s 0%N) cBAR then removelast (tl s) else s.
Fixpoint without_comments (e : sexp) : option sexp :=
  match e with
  | L s => if is_comment_leaf s then None else Some (L (unquote s))
  | T l => Some (T ((fix go (l : list sexp) : list sexp :=
                       match l with
                       | [] => []
                       | x :: r => match without_comments x with Some y => y :: go r | None => go r end
                       end) l))
  end.
(* exprs = [e for e in map(smtlib.without_comments, exprs) if e is not None] *)
Definition clean_script (script : list sexp) : list sexp :=
  flat_map (fun e => match without_comments e with Some y => [y] | None => [] end) script.

(* mutators.auto_detect_theories: the tests run on the cleaned copies *)
Definition relevant (theory : str) (script : list sexp) : bool :=
  relevant_raw theory (clean_script script).
