(* The output-file protocol of nodeio.write_smtlib_to_file at the level of
   low-level file operations: the new content is written to a temporary file in
   the same directory which then replaces the output file (rename is atomic:
   assumption).  A crash is any prefix of the operation sequence; a concurrent
   reader observes the output path between any two operations. *)
From DD Require Export Base.Str.

Inductive op :=
| OOpenTmp                 (* open(tmpname, 'w'): create/truncate the temporary file *)
| OWriteTmp (c : str)      (* one low-level write of a chunk *)
| OCloseTmp
| ORename                  (* os.replace(tmpname, filename) *)
| OUnlinkTmp               (* clean-up after an exception *)
(* the protocol of the code before the repair (for the refutation) *)
| OOpenOutTrunc | OWriteOut (c : str) | OCloseOut.

Record fs := mk_fs { f_out : option str; f_tmp : option str }.

Definition app_opt (o : option str) (c : str) : option str :=
  match o with Some t => Some (t ++ c) | None => None end.

Definition exec_op (s : fs) (o : op) : fs :=
  match o with
  | OOpenTmp => mk_fs (f_out s) (Some [])
  | OWriteTmp c => mk_fs (f_out s) (app_opt (f_tmp s) c)
  | OCloseTmp => s
  | ORename => match f_tmp s with Some t => mk_fs (Some t) None | None => s end
  | OUnlinkTmp => mk_fs (f_out s) None
  | OOpenOutTrunc => mk_fs (Some []) (f_tmp s)
  | OWriteOut c => mk_fs (app_opt (f_out s) c) (f_tmp s)
  | OCloseOut => s
  end.
Definition run_ops (s : fs) (l : list op) : fs := fold_left exec_op l s.

(* one rewrite with the given chunking of the rendered text *)
Definition rewrite_ops (chunks : list str) : list op :=
  OOpenTmp :: map OWriteTmp chunks ++ [OCloseTmp; ORename].
Definition old_rewrite_ops (chunks : list str) : list op :=
  OOpenOutTrunc :: map OWriteOut chunks ++ [OCloseOut].

(* a run: the successive accepted inputs, each with a chunking of its rendering *)
Definition run_rewrites (ws : list (list str)) : list op := flat_map rewrite_ops ws.

(* an interrupt (exception) after the first k operations of a rewrite: the handler unlinks the temporary file *)
Definition interrupted_rewrite (chunks : list str) (k : nat) : list op :=
  let full := rewrite_ops chunks in
  if Nat.ltb k (length full) then firstn k full ++ [OUnlinkTmp] else full.
