(* Model of what smtlib.collect_information records that smtlib.is_declared_symbol looks at, over pure
   s-expressions: the keys of __sort_lookup, the members of __other_symbols, the members of __all_tokens (since the
   repair "a fresh name must not be any token of the input": every leaf text of the unstripped input, comments and
   literals included), the (leaf) keys of __datatypes_constructors and of __datatypes_selectors; and of
   is_declared_symbol itself, with its |x| / x aliasing.  The code is mirrored branch by branch, with its behaviour on malformed commands:
     - comments (leaves whose text starts with ;) are removed from the TOP LEVEL of a command only, and only for the
       command loop: the term-level loop at the end of collect_information walks the unstripped input;
     - declare-const needs exactly 3 children and a leaf name; declare-fun exactly 4, a leaf name and a non-leaf
       list of argument sorts; define-fun exactly 5, a leaf name and a non-leaf list of formals (else: ignored);
     - define-fun-rec needs only a leaf name (any arity), its formals are read when there is a third child;
       define-funs-rec needs only a non-leaf second child: every declaration (f ...) with a leaf head gives a name,
       every declaration with at least two children gives the formals of its second child;
     - a formal is recorded when it is a non-empty list whose head is a leaf, (x), (x S), (x S T) alike; a leaf
       formal, an empty one, one whose head is a list are skipped; a leaf in the place of the formals gives nothing;
     - declare-datatype / declare-datatypes with exactly 3 children: every node of the third child down to depth 2
       (the child, its children, its grandchildren) that is (par _ (...)) with exactly 3 children and a non-leaf
       third one contributes EVERY leaf below its third child (constructors, selectors, but also sort names and
       sort parameters) to __other_symbols;
     - declare-datatype (3 children, third one not a leaf) iterates over the children of the third child as
       constructors, declare-datatypes (3 children, neither the second nor the third a leaf, every sort declaration
       a non-empty list) over the children of the FIRST len(sorts) children of the third child, skipping leaves:
       fewer constructor lists than sorts are accepted, surplus constructor lists are ignored; for a parametric
       declaration this reads par, (X ...) and ((c ...) ...) as constructors (par: a leaf, skipped; (X ..): X
       becomes a constructor; ((c ..) (d ..) ..): the key (c ..) is not a leaf and never matches a symbol, d becomes
       a selector);
     - a constructor is a non-empty list; its head is the key of __datatypes_constructors, the heads of its further
       children that are non-empty lists are the keys of __datatypes_selectors; keys that are not leaves never equal
       the leaf is_declared_symbol asks about and are left out here;
     - the term-level loop adds the text of EVERY leaf of the input, as it was read (comments on every level, string
       literals, numerals, keywords, sort names), to __all_tokens;
     - let / forall / exists nodes ANYWHERE in the input (also a command itself, also inside declarations) with a
       non-leaf second child: every binding that is a list of EXACTLY two children with a leaf head gives a key of
       __sort_lookup.
   The tables are dicts / sets; here they are lists (order irrelevant, duplicates harmless).
   No input was found on which collect_information raises (the only calls that can fail are in the sort inference
   for let-bound symbols, and get_sort swallows their exceptions);
   is_declared_symbol raises IndexError on the empty leaf, which the reader never produces: the model treats it like
   any other name.  No proofs here. *)
From DD Require Export Model.LetRw Model.CoreRw.
Open Scope string_scope.
Local Open Scope list_scope.

(* c.is_leaf() and c.data[:1] == ';' *)
Definition comment_leaf (e : sexp) : bool := match e with L (c :: _) => N.eqb c cSEMI | _ => false end.
(* the command rebuilt from its kids that are no comments *)
Definition strip_comments (cmd : sexp) : sexp :=
  match cmd with T l => T (filter (fun c => negb (comment_leaf c)) l) | L _ => cmd end.

Definition leaf_name (e : sexp) : list str := match e with L s => [s] | T _ => [] end.
(* not e.is_leaf() and len(e) > 0 and e[0].is_leaf(): e[0].data *)
Definition head_name (e : sexp) : list str := match e with T (L s :: _) => [s] | _ => [] end.
(* __formal_names *)
Definition formals_of (params : sexp) : list str :=
  match params with L _ => [] | T ps => flat_map head_name ps end.
Definition kids (e : sexp) : list sexp := match e with T l => l | L _ => [] end.
(* x.data for x in nodes.dfs(e) if x.is_leaf() *)
Definition leaves (e : sexp) : list str := flat_map leaf_name (subterms e).
(* nodes.dfs(e, max_depth=2): e, its kids, its grandchildren *)
Definition dfs2 (e : sexp) : list sexp := e :: flat_map (fun c => c :: kids c) (kids e).
(* is_operator_app(n, 'par') and len(n) == 3 and not n[2].is_leaf() *)
Definition par_names (n : sexp) : list str :=
  match n with
  | T [L h; _; T constrs] => if iss h "par" then flat_map leaves constrs else []
  | _ => []
  end.

(* ---- the command loop, on a command without its top-level comments ---- *)
(* keys of __sort_lookup *)
Definition sort_names_cmd (cmd : sexp) : list str :=
  match cmd with
  | T (L h :: args) =>
      if iss h "declare-const" then match args with [L x; _] => [x] | _ => [] end
      else if iss h "declare-fun" then match args with [L x; T _; _] => [x] | _ => [] end
      else if iss h "define-fun" then match args with [L x; T _; _; _] => [x] | _ => [] end
      else []
  | _ => []
  end.

(* members of __other_symbols *)
Definition other_names_cmd (cmd : sexp) : list str :=
  match cmd with
  | T (L h :: args) =>
      if iss h "define-fun" then match args with [L _; T ps; _; _] => formals_of (T ps) | _ => [] end
      else if iss h "define-fun-rec" then
        match args with
        | L f :: rest => f :: match rest with ps :: _ => formals_of ps | [] => [] end
        | _ => []
        end
      else if iss h "define-funs-rec" then
        match args with
        | T decls :: _ =>
            flat_map head_name decls ++
            flat_map (fun d => match d with T (_ :: ps :: _) => formals_of ps | _ => [] end) decls
        | _ => []
        end
      else if iss h "declare-datatype" || iss h "declare-datatypes" then
        match args with [_; n2] => flat_map par_names (dfs2 n2) | _ => [] end
      else []
  | _ => []
  end.

(* the constructor lists the loops of declare-datatype / declare-datatypes iterate over *)
Definition nonempty_list (e : sexp) : bool := match e with T (_ :: _) => true | _ => false end.
Definition dt_lists (cmd : sexp) : list sexp :=
  match cmd with
  | T [L h; n1; n2] =>
      if iss h "declare-datatype" then match n2 with T _ => [n2] | L _ => [] end
      else if iss h "declare-datatypes" then
        match n1, n2 with
        | T sorts, T lists =>
            if forallb nonempty_list sorts
            then filter (fun l => negb (is_leaf l)) (firstn (length sorts) lists)
            else []
        | _, _ => []
        end
      else []
  | _ => []
  end.
(* the constructors: the non-empty lists among their kids *)
Definition dt_constrs (cmd : sexp) : list sexp := filter nonempty_list (flat_map kids (dt_lists cmd)).
(* (leaf) keys of __datatypes_constructors: constr[0] *)
Definition constr_names_cmd (cmd : sexp) : list str := flat_map head_name (dt_constrs cmd).
(* (leaf) keys of __datatypes_selectors: sel[0] for sel in constr[1:] *)
Definition sel_names_cmd (cmd : sexp) : list str :=
  flat_map (fun constr => flat_map head_name (tl (kids constr))) (dt_constrs cmd).

(* ---- the term-level loop: symbols bound by let, forall, exists ---- *)
Definition bound_name (v : sexp) : list str := match v with T [L s; _] => [s] | _ => [] end.
Definition binder_names (n : sexp) : list str :=
  match n with
  | T (L h :: T vars :: _) =>
      if iss h "let" || iss h "exists" || iss h "forall" then flat_map bound_name vars else []
  | _ => []
  end.

(* ---- the five tables after collect_information(script) ---- *)
Definition tbl_sort (script : list sexp) : list str :=
  flat_map (fun c => sort_names_cmd (strip_comments c)) script ++ flat_map binder_names (flat_map subterms script).
Definition tbl_other (script : list sexp) : list str := flat_map (fun c => other_names_cmd (strip_comments c)) script.
Definition tbl_constr (script : list sexp) : list str := flat_map (fun c => constr_names_cmd (strip_comments c)) script.
Definition tbl_sel (script : list sexp) : list str := flat_map (fun c => sel_names_cmd (strip_comments c)) script.

(* __all_tokens: node.data for every leaf node of nodes.dfs(exprs), the input with its comments *)
Definition tbl_tokens (script : list sexp) : list str := flat_map leaves script.

(* the tables that know the declaring and binding forms one by one (all there was before __all_tokens) *)
Definition structural_table (script : list sexp) : list str :=
  tbl_sort script ++ tbl_other script ++ tbl_constr script ++ tbl_sel script.
Definition declared_table (script : list sexp) : list str :=
  tbl_sort script ++ tbl_other script ++ tbl_tokens script ++ tbl_constr script ++ tbl_sel script.

(* ---- is_declared_symbol on the leaf [name] ---- *)
(* get_piped_symbol(node) if is_piped_symbol(node) else Node(f'|{node.data}|'); the lone bar is "piped", its other
   spelling is the empty name *)
Definition other_spelling (name : str) : str :=
  if is_piped name then removelast (tl name) else cBAR :: name ++ [cBAR].
Definition in_tables (script : list sexp) (n : str) : bool :=
  mem_str_l n (tbl_sort script) || mem_str_l n (tbl_other script) || mem_str_l n (tbl_tokens script)
  || mem_str_l n (tbl_constr script) || mem_str_l n (tbl_sel script).
Definition is_declared (script : list sexp) (name : str) : bool :=
  in_tables script name || in_tables script (other_spelling name).
