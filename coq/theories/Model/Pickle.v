(* Node.__getstate__ / __setstate__ at record level: the byte string is a
   sequence of records  L id payload | ( id hash | )  (struct packing of the
   integers and the UTF-8 payload are not modelled).  *)
From DD Require Export Base.Node.

Inductive ptok := PL (id : Z) (s : str) | PO (id h : Z) | PC.

Fixpoint pk (n : node) : list ptok :=
  match n with
  | NL i s => [PL i s]
  | NT i h l => PO i h :: flat_map pk l ++ [PC]
  end.

Section Unpickle.
  Variable hstr : str -> Z.
  Variable htup : list Z -> Z.

  (* a frame of the exprs stack: optional (id, hash) header and children, reversed *)
  Definition frame := (option (Z * Z) * list node)%type.

  (* Node(_data, _id, _hash): zero/absent id or hash are recomputed *)
  Definition mk_state (next : Z) (i h : Z) (cs : list node) : node * Z :=
    let h' := if Z.eqb h 0 then htup (map (nhash hstr) cs) else h in
    if Z.eqb i 0 then (NT (next + 1) h' cs, (next + 1)%Z) else (NT i h' cs, next).
  Definition mk_state_leaf (next : Z) (i : Z) (s : str) : node * Z :=
    if Z.eqb i 0 then (NL (next + 1) s, (next + 1)%Z) else (NL i s, next).

  Fixpoint unpk_aux (toks : list ptok) (stack : list frame) (next : Z) : option (list frame * Z) :=
    match toks with
    | [] => Some (stack, next)
    | PO i h :: r => unpk_aux r ((Some (i, h), []) :: stack) next
    | PL i s :: r =>
        match stack with
        | (hd, cs) :: fs => let '(n, nx) := mk_state_leaf next i s in unpk_aux r ((hd, n :: cs) :: fs) nx
        | [] => None
        end
    | PC :: r =>
        match stack with
        | (Some (i, h), cs) :: (hd, ds) :: fs =>
            let '(n, nx) := mk_state next i h (rev cs) in unpk_aux r ((hd, n :: ds) :: fs) nx
        | _ => None         (* IndexError / unpack error *)
        end
    end.

  Definition unpk (toks : list ptok) (next : Z) : option node :=
    match unpk_aux toks [(None, [])] next with
    | Some ([(None, cs)], _) => match rev cs with n :: _ => Some n | [] => None end
    | _ => None
    end.
End Unpickle.
