(* Node.__deepcopy__: same structure, fresh identities allocated in post-order
   (a leaf when it is visited, a tuple after its children). *)
From DD Require Export Base.Node.

Section Copy.
  Variable hstr : str -> Z.
  Variable htup : list Z -> Z.

  Fixpoint copy (next : Z) (n : node) : node * Z :=
    match n with
    | NL _ s => mk_leaf next s
    | NT _ _ l =>
        let '(cs, next') :=
          (fix go (next : Z) (l : list node) : list node * Z :=
             match l with
             | [] => ([], next)
             | x :: xs => let '(c, nx) := copy next x in
                          let '(r, nx') := go nx xs in (c :: r, nx')
             end) next l in
        mk_tuple hstr htup next' cs
    end.
End Copy.
