(* Models of smtlib.get_default_constants and smtlib.get_variables_with_sort, and of the tables of
   collect_information they read (__sort_lookup with its values, __constants, __datatypes_constants,
   __datatypes_constructors), over pure s-expressions, as functions of the script.

   get_default_constants(sort), branch by branch (None = the Python code raises):
     - sort == 'Bool' / 'Int' / 'Real' (a leaf with that text): [false, true] / [0, 1] / [0.0, 1.0];
     - is_bv_sort (a list of exactly 3 children, head the leaf _, second child the leaf BitVec): (_ bv0 w), (_ bv1 w) with
       w the third child AS IT IS (any node, also a list, also 0 or a symbol);
     - is_fp_sort: a leaf Float16 / Float32 / Float64 / Float128 (ew, sw = 5,10 / 8,23 / 11,52 / 15,112) or a list of
       exactly 4 children, head the leaf _, second child the leaf FloatingPoint: ew = int(third.data),
       sw = int(fourth.data) - 1 (ValueError on a text that int() refuses, TypeError on a list: None); the six constants
       +zero -zero +NaN -NaN +oo -oo built from (_ bv0 1) (_ bv1 1) (_ bv0 ew) (_ bv0 sw) (_ bv1 sw) (_ bvM ew) with
       M = 2**ew - 1; widths are printed as Python prints integers (sw may be -1);
     - is_set_sort (a list of exactly 2 children, head the leaf Set): (as emptyset sort) and (singleton c) for every
       default constant c of the element sort (recursively; an exception there propagates);
     - a key of __datatypes_constants (a dict whose keys are nodes, compared structurally): its list;
     - anything else: [].
   Limits (stated, not hidden): for ew < 0 Python computes 2**ew - 1 with floats and prints e.g. bv-0.5; the model
   answers None there (NOT an exception of the implementation; the harness counts these sorts apart).  str() of an
   integer of more than 4300 digits raises ValueError: modelled (M >= 10^4300 gives None).  int() of Python: the ASCII
   part (sign, digits, single underscores between digits) as in Model/ConstRw.v.

   collect_information, as far as these two functions see it.  Command loop (on the command without its top-level
   comments, Model/Declared.v strip_comments): declare-const x S (exactly 3 children, x a leaf), declare-fun x (..) S
   (exactly 4, x a leaf, third child a list), define-fun x (..) S t (exactly 5, x a leaf, third child a list) record
   __sort_lookup[x] = S; x enters __constants when the list is empty (define-fun stores the NODE x as key while the
   others store the text: membership [text in __constants] is the same, a leaf node hashes as its text and equals it).
   A name stays in __constants whatever is declared under the same name later.  declare-datatype D (c ...) and
   declare-datatypes ((D n) ...) ((c ...) ...): every constructor (a non-empty list) records
   __datatypes_constructors[c[0]] = D and, if it has no selectors, appends c[0] to __datatypes_constants[D].
   Term loop, over every node of the UNSTRIPPED input in DFS preorder: let with a list as second child: every binding
   that is a list of exactly 2 children with a leaf head records __sort_lookup[x] = get_sort(term) (at that moment, so
   later bindings of the same let see earlier ones); forall / exists likewise with the sort written in the binding.
   Dicts keep the position of the FIRST insertion of a key and the value of the LAST.
   Limit: get_sort's cache (__get_sort_cache, by node id and, for lists, structural) is not modelled; the sort inference
   of let-bound terms is Model/Smtlib.v get_sort on the tables as they are at that moment.
   No proofs here. *)
From DD Require Export Model.Declared Model.ConstRw.
Open Scope string_scope.
Local Open Scope list_scope.

(* ---------- get_default_constants ---------- *)

(* a dict whose keys are nodes *)
Fixpoint dt_lookup {A} (k : sexp) (l : list (sexp * A)) : option A :=
  match l with [] => None | (x, v) :: r => if sexp_eqb x k then Some v else dt_lookup k r end.

Definition fp_leaf_widths (s : str) : option (Z * Z) :=
  if iss s "Float16" then Some (5, 10)%Z
  else if iss s "Float32" then Some (8, 23)%Z
  else if iss s "Float64" then Some (11, 52)%Z
  else if iss s "Float128" then Some (15, 112)%Z
  else None.
Definition is_fp_sort_list (s : sexp) : bool :=
  match s with T [L h; L b; _; _] => iss h "_" && iss b "FloatingPoint" | _ => false end.
Definition is_set_sort (s : sexp) : bool := match s with T [L h; _] => iss h "Set" | _ => false end.

(* Node('_', f'bv{v}', w) *)
Definition bvc (v : str) (w : Z) : sexp := T [lf "_"; L (lit "bv" ++ v); L (z_to_dec w)].
Definition str_limit : N := (10 ^ 4300)%N.
Definition fp_constants (ew sw : Z) : option (list sexp) :=
  if Z.ltb ew 0 then None
  else
    let m := (2 ^ Z.to_N ew - 1)%N in
    if N.leb str_limit m then None
    else
      let sign := bvc (lit "0") 1 in
      let signm := bvc (lit "1") 1 in
      let zero_ew := bvc (lit "0") ew in
      let zero_sw := bvc (lit "0") sw in
      let one_sw := bvc (lit "1") sw in
      let ones_ew := bvc (to_dec m) ew in
      Some [T [lf "fp"; sign; zero_ew; zero_sw]; T [lf "fp"; signm; zero_ew; zero_sw];
            T [lf "fp"; sign; ones_ew; one_sw]; T [lf "fp"; signm; ones_ew; one_sw];
            T [lf "fp"; sign; ones_ew; zero_sw]; T [lf "fp"; signm; ones_ew; zero_sw]].

Fixpoint default_constants (dtc : list (sexp * list sexp)) (s : sexp) : option (list sexp) :=
  if sexp_eqb s (lf "Bool") then Some [lf "false"; lf "true"]
  else if sexp_eqb s (lf "Int") then Some [lf "0"; lf "1"]
  else if sexp_eqb s (lf "Real") then Some [lf "0.0"; lf "1.0"]
  else if is_bv_sort s then
    match s with
    | T [_; _; w] => Some [T [lf "_"; lf "bv0"; w]; T [lf "_"; lf "bv1"; w]]
    | _ => None
    end
  else
    match (match s with L x => fp_leaf_widths x | T _ => None end) with
    | Some (ew, sw) => fp_constants ew sw
    | None =>
        if is_fp_sort_list s then
          match s with
          | T [_; _; e; m] =>
              match py_int_node e, py_int_node m with
              | Some ew, Some sb => fp_constants ew (sb - 1)
              | _, _ => None
              end
          | _ => None
          end
        else if is_set_sort s then
          match s with
          | T [_; x] =>
              match default_constants dtc x with
              | Some l => Some (T [lf "as"; lf "emptyset"; s] :: map (fun c => T [lf "singleton"; c]) l)
              | None => None
              end
          | _ => None
          end
        else match dt_lookup s dtc with
             | Some l => Some l
             | None => Some []
             end
    end.

(* ---------- the command loop ---------- *)

Definition is_nil {A} (l : list A) : bool := match l with [] => true | _ => false end.
(* (name, sort, enters __constants) *)
Definition sort_entry_cmd (cmd : sexp) : list (str * sexp * bool) :=
  match cmd with
  | T (L h :: args) =>
      if iss h "declare-const" then match args with [L x; so] => [(x, so, true)] | _ => [] end
      else if iss h "declare-fun" then match args with [L x; T a; so] => [(x, so, is_nil a)] | _ => [] end
      else if iss h "define-fun" then match args with [L x; T a; so; _] => [(x, so, is_nil a)] | _ => [] end
      else []
  | _ => []
  end.
Definition sort_entries (script : list sexp) : list (str * sexp * bool) :=
  flat_map (fun c => sort_entry_cmd (strip_comments c)) script.
Definition entry_name (e : str * sexp * bool) : str := fst (fst e).
Definition entry_sort (e : str * sexp * bool) : sexp := snd (fst e).
Definition entry_const (e : str * sexp * bool) : bool := snd e.

(* datatypes: the pairs (sort node, list of constructors) the two loops walk through *)
Definition head_of (e : sexp) : sexp := match e with T (h :: _) => h | _ => e end.
Definition dt_pairs (cmd : sexp) : list (sexp * sexp) :=
  match cmd with
  | T [L h; n1; n2] =>
      if iss h "declare-datatype" then match n2 with T _ => [(n1, n2)] | L _ => [] end
      else if iss h "declare-datatypes" then
        match n1, n2 with
        | T sorts, T lists =>
            if forallb nonempty_list sorts
            then filter (fun p => negb (is_leaf (snd p))) (combine (map head_of sorts) lists)
            else []
        | _, _ => []
        end
      else []
  | _ => []
  end.
(* (constr[0], sort, len(constr) == 1) for every constructor *)
Definition dt_entries_cmd (cmd : sexp) : list (sexp * sexp * bool) :=
  flat_map (fun p => flat_map (fun c => match c with
                                        | T (k :: rest) => [(k, fst p, is_nil rest)]
                                        | _ => []
                                        end) (kids (snd p))) (dt_pairs cmd).
Definition dt_entries (script : list sexp) : list (sexp * sexp * bool) :=
  flat_map (fun c => dt_entries_cmd (strip_comments c)) script.

(* __datatypes_constants.setdefault(sort, []).append(c) *)
Fixpoint dtc_add (tbl : list (sexp * list sexp)) (so c : sexp) : list (sexp * list sexp) :=
  match tbl with
  | [] => [(so, [c])]
  | (k, l) :: r => if sexp_eqb k so then (k, l ++ [c]) :: r else (k, l) :: dtc_add r so c
  end.
Definition dt_constants (script : list sexp) : list (sexp * list sexp) :=
  fold_left (fun tbl e => match e with (k, so, true) => dtc_add tbl so k | _ => tbl end) (dt_entries script) [].
(* __datatypes_constructors, the leaf keys, latest first *)
Definition dt_ctors (script : list sexp) : list (str * sexp) :=
  rev (flat_map (fun e => match e with (L k, so, _) => [(k, so)] | _ => [] end) (dt_entries script)).

(* ---------- the term loop ---------- *)

Definition binder_step (ctors : list (str * sexp)) (lk : list (str * option sexp)) (n : sexp) : list (str * option sexp) :=
  match n with
  | T (L h :: T vars :: _) =>
      if iss h "let" then
        fold_left (fun lk v => match v with T [L x; t] => (x, get_sort (mk_info lk ctors) false t) :: lk | _ => lk end) vars lk
      else if iss h "forall" || iss h "exists" then
        fold_left (fun lk v => match v with T [L x; so] => (x, Some so) :: lk | _ => lk end) vars lk
      else lk
  | _ => lk
  end.

(* __sort_lookup after the command loop / after collect_information, latest entry first *)
Definition lookup_cmds (script : list sexp) : list (str * option sexp) :=
  rev (map (fun e => (entry_name e, Some (entry_sort e))) (sort_entries script)).
Definition final_lookup (script : list sexp) : list (str * option sexp) :=
  fold_left (binder_step (dt_ctors script)) (flat_map subterms script) (lookup_cmds script).
Definition script_info (script : list sexp) : info := mk_info (final_lookup script) (dt_ctors script).

(* ---------- get_variables_with_sort ---------- *)

(* the keys in the order of their first insertion *)
Fixpoint dedup_first (seen l : list str) : list str :=
  match l with
  | [] => []
  | x :: r => if mem_str_l x seen then dedup_first seen r else x :: dedup_first (x :: seen) r
  end.
Definition const_names (script : list sexp) : list str :=
  map entry_name (filter entry_const (sort_entries script)).
Definition has_sort (lk : list (str * option sexp)) (s : sexp) (v : str) : bool :=
  match alookup v lk with Some (Some so) => sexp_eqb so s | _ => false end.
(* the keys that the term loop adds come after those of the command loop and are in __constants only if a command
   put them there, in which case they have their position already *)
Definition variables_with_sort (script : list sexp) (s : sexp) : list str :=
  filter (fun v => has_sort (final_lookup script) s v && mem_str_l v (const_names script))
         (dedup_first [] (map entry_name (sort_entries script))).
