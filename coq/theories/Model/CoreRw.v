(* Models of the structural mutators of ddsmt/mutators_core.py (EraseNode,
   ReplaceByChild, MergeWithChildren, SortChildren, BinaryReduction.mutations),
   of mutators_smtlib.LetElimination and of the candidate names of
   mutators_smtlib.SimplifySymbolNames, over pure s-expressions.
   Result convention of Model/Rewrites.v: Some [] = the mutator does not accept
   the node (or proposes nothing), Some l = the replacements proposed for the
   node.  None of these mutators can raise on any node.  No proofs here. *)
From DD Require Export Model.Rewrites Model.Trav.
Open Scope string_scope.
Local Open Scope list_scope.

(* ---- smtlib.has_nary_operator ---- *)
Definition nary_ops : list string :=
  ["=>"; "and"; "or"; "xor"; "="; "distinct"; "+"; "-"; "*"; "div"; "/"; "<="; "<"; ">="; ">";
   "bvand"; "bvor"; "bvadd"; "bvmul"; "concat"; "fp.lt"; "fp.gt"; "fp.leq"; "fp.geq"].
Definition has_nary_operator (e : sexp) : bool :=
  match has_ident e with Some h => existsb (iss h) nary_ops | None => false end.

(* ---- EraseNode: {node.id: None} removes the node from the list that holds it ---- *)
Fixpoint erase_at (i : nat) (l : list sexp) : list sexp :=
  match l, i with
  | [], _ => []
  | _ :: r, O => r
  | x :: r, S k => x :: erase_at k r
  end.
(* all results of erasing one child of a compound node *)
Definition rw_erase_child (e : sexp) : option (list sexp) :=
  match e with
  | L _ => Some []
  | T l => Some (map (fun i => T (erase_at i l)) (seq 0 (length l)))
  end.

(* ---- ReplaceByChild; gs = smtlib.get_sort (None = unknown) ---- *)
Definition osexp_eqb (a b : option sexp) : bool :=
  match a, b with
  | Some x, Some y => sexp_eqb x y
  | None, None => true
  | _, _ => false
  end.
Definition rw_replace_by_child (gs : sexp -> option sexp) (e : sexp) : option (list sexp) :=
  match e with
  | L _ => Some []
  | T l => if is_op e "let" then Some []
           else Some (filter (fun n => osexp_eqb (gs n) (gs e)) (tl l))
  end.

(* ---- MergeWithChildren ---- *)
Fixpoint merge_at (h : str) (pre post : list sexp) : list sexp :=
  match post with
  | [] => []
  | c :: r =>
      (match c with
       | T (L hc :: cargs) => if str_eqb hc h then [T (rev pre ++ cargs ++ r)] else []
       | _ => []
       end) ++ merge_at h (c :: pre) r
  end.
Definition rw_merge_children (e : sexp) : option (list sexp) :=
  if has_nary_operator e then
    match e with
    | T (L h :: args) => Some (merge_at h [L h] args)
    | _ => Some []
    end
  else Some [].

(* ---- SortChildren: sorted(node, key=count_nodes) is a stable sort ---- *)
Fixpoint insert_by (k : sexp -> nat) (x : sexp) (l : list sexp) : list sexp :=
  match l with
  | [] => [x]
  | y :: r => if Nat.leb (k x) (k y) then x :: y :: r else y :: insert_by k x r
  end.
Definition sort_by (k : sexp -> nat) (l : list sexp) : list sexp := fold_right (insert_by k) [] l.
Definition rw_sort_children (e : sexp) : option (list sexp) :=
  match e with
  | L _ => Some []
  | T l => let s := T (sort_by size l) in if sexp_eqb s e then Some [] else Some [s]
  end.

(* ---- BinaryReduction.mutations ---- *)
Definition cut (l : list sexp) (p : Z * Z) : sexp :=
  T (firstn (Z.to_nat (fst p)) l ++ skipn (Z.to_nat (snd p)) l).
Definition rw_binary_reduction (e : sexp) : option (list sexp) :=
  match e with
  | L _ => Some []
  | T l => if Nat.ltb (length l) 8 then Some [] else Some (map (cut l) (binary_search (length l)))
  end.

(* ---- LetElimination ---- *)
Definition rw_let_elim (e : sexp) : option (list sexp) :=
  if is_op e "let" then
    match e with
    | T (_ :: _ :: body :: _) => Some [body]
    | _ => Some []
    end
  else Some [].

(* ---- SimplifySymbolNames: candidate names ---- *)
(* __simpler: first half (when longer than 3), without the last, without the first character *)
Definition simpler (s : str) : list str :=
  (if Nat.ltb 3 (length s) then [firstn (Nat.div (length s) 2) s] else []) ++
  (if Nat.ltb 1 (length s) then [removelast s; tl s] else []).
Definition reserved_words : list string :=
  ["!"; "_"; "as"; "BINARY"; "DECIMAL"; "exists"; "HEXADECIMAL"; "forall"; "let"; "match"; "NUMERAL"; "par"; "STRING"].
Definition is_reserved (s : str) : bool := existsb (iss s) reserved_words.
(* smtlib.is_const on a leaf (is_fp_const is false on leaves) *)
Definition is_string_const_leaf (s : str) : bool :=
  match s with
  | c :: _ => N.eqb c cDQ && N.eqb (last s 0%N) cDQ
  | [] => false
  end.
(* the numeral regular expressions end in $, which in Python also matches before one trailing newline (chomp) *)
Definition chomp (s : str) : str :=
  match s with [] => [] | _ => if N.eqb (last s 0%N) cLF then removelast s else s end.
Definition is_const_leaf (s : str) : bool :=
  is_bool_const (L s) || is_real_const (L (chomp s)) || is_int_const (L (chomp s)) || is_string_const_leaf s || is_bv_const (L s).
Definition is_piped (s : str) : bool :=
  match s with
  | c :: _ => N.eqb c cBAR && N.eqb (last s 0%N) cBAR
  | [] => false
  end.
(* the names proposed for symbol s; isvar = smtlib.is_var on leaves *)
Definition ssn_names (isvar : str -> bool) (s : str) : list str :=
  if match s with c :: _ => N.eqb c cSEMI || N.eqb c cDQ | [] => false end then []      (* a comment or string literal in the place of the symbol *)
  else if is_piped s then
    let inner := removelast (tl s) in
    map (fun t => cBAR :: t ++ [cBAR])
        (filter (fun t => negb (isvar (cBAR :: t ++ [cBAR]))) (simpler inner))
  else
    filter (fun t => negb (isvar t) && negb (is_const_leaf t) && negb (is_reserved t)) (simpler s).
