(* nodes.reduplicate (after the fix: shared subtrees without leaves are copied
   too): post-order rebuild with the set of identities seen so far. *)
From DD Require Export Base.Node.

Section Redup.
  Variable hstr : str -> Z.
  Variable htup : list Z -> Z.

  Definition mem (i : Z) (s : list Z) : bool := existsb (Z.eqb i) s.

  Record rst := mk_rst { r_ids : list Z; r_next : Z }.

  Fixpoint redup1 (e : node) (st : rst) : node * rst :=
    match e with
    | NL i s =>
        if mem i (r_ids st) then
          let '(n, nx) := mk_leaf (r_next st) s in (n, mk_rst (r_ids st) nx)
        else (e, mk_rst (i :: r_ids st) (r_next st))
    | NT i h l =>
        let '(cs, st') :=
          (fix go (l : list node) (st : rst) : list node * rst :=
             match l with
             | [] => ([], st)
             | x :: xs => let '(a, st1) := redup1 x st in
                          let '(b, st2) := go xs st1 in (a :: b, st2)
             end) l st in
        if mem i (r_ids st') || negb (forallb (fun p => Z.eqb (nid (fst p)) (nid (snd p))) (combine l cs)) then
          let '(n, nx) := mk_tuple hstr htup (r_next st') cs in
          (n, mk_rst (nid n :: r_ids st') nx)
        else (e, mk_rst (i :: r_ids st') (r_next st'))
    end.

  Fixpoint redup_list (l : list node) (st : rst) : list node * rst :=
    match l with
    | [] => ([], st)
    | x :: xs => let '(a, st1) := redup1 x st in
                 let '(b, st2) := redup_list xs st1 in (a :: b, st2)
    end.

  Definition reduplicate (l : list node) (next : Z) : list node * Z :=
    let '(r, st) := redup_list l (mk_rst [] next) in (r, r_next st).
End Redup.
