(* Models of filter + mutations of seven more mutators, over pure s-expressions:
   ArithmeticStrengthenRelation, BoolXORRemoveConstant, FPShortSort,
   StringSimplifyConstant (local mutations), RemoveDatatypeIdentity, Constants and
   ReplaceByVariable (both modes).  Convention of Model/Rewrites.v: None = the
   Python code raises (in filter or while the mutations are consumed), Some [] =
   the mutator does not accept the node or proposes nothing, Some l = the
   replacements proposed for the node, in order.

   What the implementation keeps in module tables enters as ORACLE ARGUMENTS whose
   values the correspondence harness (harness/morecorr3.py) computes with the
   implementation:
     sels, ctors   __datatypes_selectors (items, key -> (constructor, index)) and
                   the keys of __datatypes_constructors; the keys are nodes
     isdef         smtlib.is_definition_node(node)
     sort          smtlib.get_sort(node) (None = unknown)
     dc            smtlib.get_default_constants(sort) (None = it raises)
     vars          smtlib.get_variables_with_sort(sort) without the defined
                   functions, in the implementation's order
   smtlib.is_const is modelled, not passed.

   Limits of the models (stated, not checked): nodes.binary_search computes its
   sections with binary64 floats, exact for lengths below 2^26.  No proofs here. *)
From DD Require Export Model.Rewrites Model.CoreRw Model.SmtlibRw.
Open Scope string_scope.
Local Open Scope list_scope.

(* ---- ArithmeticStrengthenRelation ---- *)
Definition strengthen (h : str) : option (list string) :=
  if iss h "<" then Some ["="] else if iss h ">" then Some ["="]
  else if iss h "<=" then Some ["<"; "="] else if iss h ">=" then Some [">"; "="]
  else if iss h "distinct" then Some ["="] else None.
(* Node(rel, *node.data[1:]): a relation without operands becomes the leaf rel *)
Definition rw_arith_strengthen (e : sexp) : option (list sexp) :=
  match e with
  | T (L h :: args) =>
      match strengthen h with
      | Some rels => Some (map (fun r => node_of r args) rels)
      | None => Some []
      end
  | _ => Some []
  end.

(* ---- BoolXORRemoveConstant: ['false' in node] and the comprehensions run over all children, the head included ---- *)
Definition is_lf (x : string) (c : sexp) : bool := sexp_eqb c (lf x).
Definition without (x : string) (l : list sexp) : list sexp := filter (fun c => negb (is_lf x c)) l.
Definition rw_bool_xor_const (e : sexp) : option (list sexp) :=
  match e with
  | T (L h :: args) =>
      if iss h "xor" then
        let l := L h :: args in
        Some ((if existsb (is_lf "false") l then [T (without "false" l)] else []) ++
              (if existsb (is_lf "true") l then [T (without "true" l); T [lf "not"; T (without "true" l)]] else []))
      else Some []
  | _ => Some []
  end.

(* ---- FPShortSort ---- *)
(* (exponent bits, significand bits, short name) *)
Definition fp_short_table : list (string * string * string) :=
  [("5", "11", "Float16"); ("8", "24", "Float32"); ("11", "53", "Float64"); ("15", "113", "Float128")].
(* is_fp_sort(node) and len(node) == 4 *)
Definition is_fp_sort_long (e : sexp) : bool :=
  match e with T [L h; x; _; _] => iss h "_" && is_lf "FloatingPoint" x | _ => false end.
Definition rw_fp_short_sort (e : sexp) : option (list sexp) :=
  if is_fp_sort_long e then
    match e with
    | T [_; _; a; b] =>
        match find (fun p => is_lf (fst (fst p)) a && is_lf (snd (fst p)) b) fp_short_table with
        | Some p => Some [lf (snd p)]
        | None => Some []
        end
    | _ => Some []
    end
  else Some [].

(* ---- StringSimplifyConstant ---- *)
Definition cBSL : char := 92%N.
(* Python's slice adjustment of a start index *)
Definition adj_start (len a : Z) : Z := if Z.ltb a 0 then Z.max 0 (a + len) else a.
(* the greatest index i with lo <= i < hi and s[i] = c, or acc; i0 = index of the first character of s *)
Fixpoint rfind_aux (c : char) (s : str) (i0 lo hi acc : Z) : Z :=
  match s with
  | [] => acc
  | x :: r => rfind_aux c r (i0 + 1) lo hi (if Z.leb lo i0 && Z.ltb i0 hi && N.eqb x c then i0 else acc)
  end.
(* s.rfind(c, a, b) for 0 <= b <= len(s); a may be negative (then it counts from the end of s) *)
Definition py_rfind (c : char) (s : str) (a b : Z) : Z :=
  rfind_aux c s 0 (adj_start (Z.of_nat (length s)) a) b (-1).
(* __fix_escape_sequences *)
Definition fix_escape (s : str) (e : Z) : Z :=
  let id := py_rfind cBSL s (e - 8) e in if Z.eqb id (-1) then e else id.
(* __is_closed: no quote is left after the doubled quotes are taken out, from the left *)
Definition is_closed (s : str) : bool := negb (existsb (N.eqb cDQ) (replace_all [cDQ; cDQ] [] s)).
Definition cut_section (content : str) (sec : Z * Z) : str :=
  firstn (Z.to_nat (fix_escape content (fst sec))) content ++ skipn (Z.to_nat (snd sec)) content.
Definition str_cands (content : str) : list str :=
  map (cut_section content) (binary_search (length content)) ++ [tl content; removelast content].
Definition quote (s : str) : str := cDQ :: s ++ [cDQ].
Definition empty_strlit : str := [cDQ; cDQ].
(* is_string_const: node[0] raises IndexError on an empty leaf; content = node[1:-1] *)
Definition rw_str_simp_const (e : sexp) : option (list sexp) :=
  match e with
  | L [] => None
  | L s =>
      if is_string_const_leaf s && negb (str_eqb s empty_strlit) then
        Some (L empty_strlit :: map (fun c => L (quote c)) (filter is_closed (str_cands (removelast (tl s)))))
      else Some []
  | T _ => Some []
  end.

(* ---- RemoveDatatypeIdentity ---- *)
(* a dictionary whose keys are nodes *)
Definition slookup {A} (k : sexp) (l : list (sexp * A)) : option A :=
  match find (fun p => sexp_eqb (fst p) k) l with Some p => Some (snd p) | None => None end.
Definition rw_dt_identity (sels : list (sexp * (sexp * nat))) (ctors : list sexp) (e : sexp) : option (list sexp) :=
  match e with
  | T [L s; c] =>
      match slookup (L s) sels with
      | Some (cname, idx) =>
          match c with
          | T (L ch :: cargs) =>
              if existsb (sexp_eqb (L ch)) ctors && sexp_eqb cname (L ch) then
                Some (match nth_error cargs idx with Some x => [x] | None => [] end)
              else Some []
          | _ => Some []
          end
      | None => Some []
      end
  | _ => Some []
  end.

(* ---- Constants ---- *)
Definition rw_constants (isdef : bool) (sort : option sexp) (dc : option (list sexp)) (e : sexp) : option (list sexp) :=
  if isdef then Some []
  else match sort with
       | None => Some []
       | Some _ =>
           match dc with
           | None => None
           | Some res => if existsb (sexp_eqb e) res then Some [] else Some res
           end
       end.

(* ---- ReplaceByVariable ---- *)
(* smtlib.is_const; None = is_string_const raises IndexError on an empty leaf.  On a list: a quotient of two
   numerals, (_ bvN w) or an application of fp *)
Definition is_int_const_nl (e : sexp) : bool := match e with L s => is_int_const (L (chomp s)) | T _ => false end.
Definition is_const (e : sexp) : option bool :=
  match e with
  | L [] => None
  | L s => Some (is_const_leaf s)
  | T [L h; a; b] => Some ((iss h "/" && is_int_const_nl a && is_int_const_nl b) || is_bv_const e || iss h "fp")
  | T _ => Some (is_op e "fp")
  end.
(* Python's < on strings: lexicographic by code point *)
Fixpoint str_ltb (a b : str) : bool :=
  match a, b with
  | _, [] => false
  | [], _ :: _ => true
  | x :: a', y :: b' => N.ltb x y || (N.eqb x y && str_ltb a' b')
  end.
Definition rw_replace_by_var (inc isdef : bool) (sort : option sexp) (vars : list str) (e : sexp) : option (list sexp) :=
  match is_const e with
  | None => None
  | Some true => Some []
  | Some false =>
      if isdef then Some []
      else match sort with
           | None => Some []
           | Some _ =>
               Some (map L (match e with
                            | L s => filter (fun v => if inc then str_ltb s v else str_ltb v s) vars
                            | T _ => vars
                            end))
           end
  end.
