(* nodes.substitute (after the fix: replacements are inserted as given),
   mutator_utils.apply_simp and smtlib.introduce_variables.
   A replacement map has identity keys (int -> Node|None) and structural keys
   (Node -> Node|None).  [subst_sm] is the explicit-stack loop with fuel;
   [subst] the structural version.  No proofs here. *)
From DD Require Export Base.Node Model.NodeEq.

Definition irepl := list (Z * option node).
Definition srepl := list (node * option node).

Fixpoint lookup_id (r : irepl) (i : Z) : option (option node) :=
  match r with
  | [] => None
  | (k, v) :: r' => if Z.eqb k i then Some v else lookup_id r' i
  end.
Fixpoint remove_id (r : irepl) (i : Z) : irepl :=
  match r with
  | [] => []
  | (k, v) :: r' => if Z.eqb k i then r' else (k, v) :: remove_id r' i
  end.

Section Subst.
  Variable hstr : str -> Z.
  Variable htup : list Z -> Z.
  Notation node_eq := (node_eq hstr).
  Notation mk_tuple := (mk_tuple hstr htup).

  Fixpoint lookup_s (r : srepl) (e : node) : option (option node) :=
    match r with
    | [] => None
    | (k, v) :: r' =>
        if Z.eqb (nhash hstr k) (nhash hstr e) && node_eq k e then Some v else lookup_s r' e
    end.

  Definition olist (v : option node) : list node := match v with Some x => [x] | None => [] end.
  Definition repl_empty (ri : irepl) (rs : srepl) : bool :=
    match ri, rs with [], [] => true | _, _ => false end.

  (* expr.id and expr.id in repl *)
  Definition find_id (ri : irepl) (e : node) : option (option node) :=
    if Z.eqb (nid e) 0 then None else lookup_id ri (nid e).

  (* ---- structural version ---- *)
  Record sst := mk_sst { s_ri : irepl; s_next : Z; s_changed : bool }.

  Fixpoint subst1 (rs : srepl) (e : node) (st : sst) : list node * sst :=
    match find_id (s_ri st) e with
    | Some v => (olist v, mk_sst (remove_id (s_ri st) (nid e)) (s_next st) true)
    | None =>
        match lookup_s rs e with
        | Some v => (olist v, mk_sst (s_ri st) (s_next st) true)
        | None =>
            match e with
            | NL _ _ => ([e], st)
            | NT _ _ l =>
                if repl_empty (s_ri st) rs then ([e], st)
                else
                  let '(cs, st') :=
                    (fix go (l : list node) (st : sst) : list node * sst :=
                       match l with
                       | [] => ([], st)
                       | x :: xs => let '(a, st1) := subst1 rs x st in
                                    let '(b, st2) := go xs st1 in (a ++ b, st2)
                       end) l st in
                  let '(n, nx) := mk_tuple (s_next st') cs in
                  ([if node_eq n e then e else n], mk_sst (s_ri st') nx (s_changed st'))
            end
        end
    end.

  Fixpoint subst_list (rs : srepl) (l : list node) (st : sst) : list node * sst :=
    match l with
    | [] => ([], st)
    | x :: xs => let '(a, st1) := subst1 rs x st in
                 let '(b, st2) := subst_list rs xs st1 in (a ++ b, st2)
    end.

  (* substitute(exprs : list, repl): (changed, result, allocator) -- when not
     changed the function returns the list object it was given *)
  Definition substitute (l : list node) (ri : irepl) (rs : srepl) (next : Z)
    : bool * list node * Z :=
    if repl_empty ri rs then (false, l, next)
    else let '(r, st) := subst_list rs l (mk_sst ri next false) in
         if s_changed st then (true, r, s_next st) else (false, l, s_next st).

  (* substitute(node, repl): None stands for Python None (node deleted) *)
  Definition substitute_node (e : node) (ri : irepl) (rs : srepl) (next : Z)
    : option node * Z :=
    if repl_empty ri rs then (Some e, next)
    else match e with
         | NL _ _ =>
             match find_id ri e with
             | Some v => (v, next)
             | None => match lookup_s rs e with Some v => (v, next) | None => (Some e, next) end
             end
         | NT _ _ _ =>
             let '(r, st) := subst1 rs e (mk_sst ri next false) in
             if s_changed st then (match r with x :: _ => Some x | [] => None end, s_next st)
             else (Some e, s_next st)
         end.

  (* ---- the explicit-stack loop, with fuel ---- *)
  Record mst := mk_mst { m_visit : list (node * bool); m_args : list (list node);
                         m_ri : irepl; m_next : Z; m_changed : bool }.

  Definition push_arg (x : list node) (args : list (list node)) : list (list node) :=
    match args with
    | top :: rest => (rev x ++ top) :: rest       (* frames are kept reversed *)
    | [] => [rev x]
    end.

  Definition sm_step (rs : srepl) (m : mst) : option mst :=
    match m_visit m with
    | [] => None
    | (e, visited) :: visit =>
        match find_id (m_ri m) e with
        | Some v => Some (mk_mst visit (push_arg (olist v) (m_args m))
                                 (remove_id (m_ri m) (nid e)) (m_next m) true)
        | None =>
            match lookup_s rs e with
            | Some v => Some (mk_mst visit (push_arg (olist v) (m_args m)) (m_ri m) (m_next m) true)
            | None =>
                if visited then
                  match m_args m with
                  | cs :: args' =>
                      let '(n, nx) := mk_tuple (m_next m) (rev cs) in
                      Some (mk_mst visit (push_arg [if node_eq n e then e else n] args')
                                   (m_ri m) nx (m_changed m))
                  | [] => None
                  end
                else if repl_empty (m_ri m) rs || n_is_leaf e then
                  Some (mk_mst visit (push_arg [e] (m_args m)) (m_ri m) (m_next m) (m_changed m))
                else
                  Some (mk_mst (map (fun c => (c, false)) (children e) ++ (e, true) :: visit)
                               ([] :: m_args m) (m_ri m) (m_next m) (m_changed m))
            end
        end
    end.

  Fixpoint sm_run (fuel : nat) (rs : srepl) (m : mst) : option mst :=
    match m_visit m with
    | [] => Some m
    | _ => match fuel with
           | O => None
           | S k => match sm_step rs m with Some m' => sm_run k rs m' | None => None end
           end
    end.

  Definition substitute_sm (fuel : nat) (l : list node) (ri : irepl) (rs : srepl) (next : Z)
    : option (bool * list node * Z) :=
    if repl_empty ri rs then Some (false, l, next)
    else match sm_run fuel rs (mk_mst (map (fun x => (x, false)) l) [[]] ri next false) with
         | Some m =>
             match m_args m with
             | [top] => Some (if m_changed m then (true, rev top, m_next m) else (false, l, m_next m))
             | _ => None
             end
         | None => None
         end.

  (* ---- apply_simp / introduce_variables ---- *)
  Definition s_set_info : str := [115;101;116;45;105;110;102;111]%N.    (* set-info *)
  Definition s_set_logic : str := [115;101;116;45;108;111;103;105;99]%N. (* set-logic *)

  (* a top-level comment (a leaf whose text starts with ';') belongs to the prefix as well (F70) *)
  Definition is_prefix_cmd (e : node) : bool :=
    match e with
    | NT _ _ (NL _ s :: _) => str_eqb s s_set_info || str_eqb s s_set_logic
    | NL _ (59%N :: _) => true
    | _ => false
    end.
  Fixpoint prefix_len (l : list node) : nat :=
    match l with
    | x :: xs => if is_prefix_cmd x then S (prefix_len xs) else O
    | [] => O
    end.
  Definition introduce_variables (l vars : list node) : list node :=
    firstn (prefix_len l) l ++ vars ++ skipn (prefix_len l) l.

  Definition apply_simp (l : list node) (ri : irepl) (rs : srepl) (vars : list node) (next : Z)
    : bool * list node * Z :=
    let '(ch, r, nx) := substitute l ri rs next in
    if ch then (match vars with [] => (true, r, nx) | _ => (true, introduce_variables r vars, nx) end)
    else (false, l, nx).
End Subst.
