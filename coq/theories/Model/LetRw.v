(* Model of mutators_smtlib.LetSubstitution (after fix F31: no variable capture,
   no shadowed occurrences) over pure s-expressions, with the convention of
   Model/Rewrites.v: None = the Python code raises, Some l = the replacements
   proposed for the node.  No proofs here. *)
From DD Require Export Model.Rewrites.
Open Scope string_scope.
Local Open Scope list_scope.

(* nodes.dfs: all subterms, pre-order *)
Fixpoint subterms (e : sexp) : list sexp :=
  e :: match e with
       | L _ => []
       | T l => (fix go (l : list sexp) : list sexp := match l with [] => [] | x :: r => subterms x ++ go r end) l
       end.

(* nodes.substitute with one structural key: every subterm equal to k becomes v
   (replacements are not traversed again) *)
Fixpoint subst_all (k v e : sexp) : sexp :=
  if sexp_eqb e k then v
  else match e with
       | L _ => e
       | T l => T ((fix go (l : list sexp) : list sexp := match l with [] => [] | x :: r => subst_all k v x :: go r end) l)
       end.

(* LetSubstitution.__bound_symbols: what the binders at node n bind ... *)
Definition binder_vars (n : sexp) : list sexp :=
  match n with
  | T (L h :: n1 :: n2 :: _) =>
      if iss h "let" || iss h "forall" || iss h "exists" || iss h "lambda" then
        match n1 with
        | T vs => flat_map (fun v => match v with T (v0 :: _) => [v0] | _ => [] end) vs
        | L _ => []
        end
      else if iss h "match" then
        match n2 with
        | T cases => flat_map (fun c => match c with T (p :: _) => filter is_leaf (subterms p) | _ => [] end) cases
        | L _ => []
        end
      else []
  | _ => []
  end.
(* ... and within e *)
Definition bound_syms (e : sexp) : list sexp := flat_map binder_vars (subterms e).

Definition mem_sexp (x : sexp) (l : list sexp) : bool := existsb (sexp_eqb x) l.

(* one binding (v0 v1 ...) of the let e = (let n1 body ...): None = raises, Some [] = skipped *)
Definition let_subst_var (h n1 body : sexp) (bound : list sexp) (var : sexp) : option (list sexp) :=
  match var with
  | T (v0 :: v1 :: _) =>
      if mem_sexp v0 (subterms v1) then Some []                                   (* avoid cycles *)
      else if mem_sexp v0 (bound_syms body) then Some []                          (* bound again within the body *)
      else if existsb (fun n => is_leaf n && mem_sexp n bound) (subterms v1) then Some []   (* capture *)
      else if mem_sexp v0 (subterms body) then Some [T [h; n1; subst_all v0 v1 body]]
      else Some []
  | _ => None
  end.

Fixpoint collect_opt (l : list (option (list sexp))) : option (list sexp) :=
  match l with
  | [] => Some []
  | None :: _ => None
  | Some x :: r => match collect_opt r with Some y => Some (x ++ y) | None => None end
  end.

Definition rw_let_subst (e : sexp) : option (list sexp) :=
  if is_op e "let" then
    match e with
    | T (h :: n1 :: body :: _) =>
        match n1 with
        | L [] => Some []
        | L _ => None
        | T vars => collect_opt (map (let_subst_var h n1 body (bound_syms e)) vars)
        end
    | _ => Some []
    end
  else Some [].
