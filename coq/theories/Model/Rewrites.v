(* Models of the filter + mutations of the mutators whose documentation states an
   identity (property C17), over pure s-expressions.  Result: None = the Python
   code raises (the strategies' guards turn that into "no proposal"),
   Some [] = the mutator does not accept the node, Some l = the replacements
   proposed for the node.  No proofs here. *)
From DD Require Export Model.Smtlib.
Open Scope string_scope.
Local Open Scope list_scope.

Definition lf (s : string) : sexp := L (lit s).
Definition is_op (e : sexp) (name : string) : bool := match e with T (L h :: _) => iss h name | _ => false end.
Definition args_of (e : sexp) : list sexp := match e with T (_ :: r) => r | _ => [] end.
Definition make_and (l : list sexp) : option sexp :=
  match l with [] => None | [x] => Some x | _ => Some (T (lf "and" :: l)) end.
(* Node(h, *args): a single string argument makes a leaf *)
Definition node_of (h : string) (args : list sexp) : sexp := match args with [] => lf h | _ => T (lf h :: args) end.
Definition olist1 (o : option sexp) : list sexp := match o with Some x => [x] | None => [] end.

(* str(int) for Python ints that may be negative *)
Definition z_to_dec (z : Z) : str := if Z.ltb z 0 then 45%N :: to_dec (Z.to_N (- z)) else to_dec (Z.to_N z).
(* bin(n)[2:] *)
Fixpoint to_bin_aux (fuel : nat) (n : N) (acc : str) : str :=
  match fuel with
  | O => acc
  | S k => let d := (48 + n mod 2)%N in if N.ltb n 2 then d :: acc else to_bin_aux k (n / 2)%N (d :: acc)
  end.
Definition to_bin (n : N) : str := to_bin_aux (S (N.to_nat (N.log2 n))) n [].
Fixpoint repeat_c (c : char) (n : nat) : str := match n with O => [] | S k => c :: repeat_c c k end.

(* get_bv_constant_value: (value, width); None = raises *)
Definition bv_const_value (e : sexp) : option (Z * Z) :=
  match e with
  | L (_ :: d :: []) => None                     (* the bare "#b" / "#x": int('', 2) raises *)
  | L (_ :: d :: tl) =>
      if N.eqb d c_b then Some (Z.of_N (bin_val tl), Z.of_nat (length tl))
      else Some (Z.of_N (hex_val tl), (Z.of_nat (length tl) * 4)%Z)
  | T [_; L (_ :: _ :: digs); w] =>
      match dec_of digs, int_of w with Some v, Some bw => Some (Z.of_N v, bw) | _, _ => None end
  | _ => None
  end.

(* ---- boolean / relational laws ---- *)
Definition rw_bool_double_neg (e : sexp) : option (list sexp) :=
  match e with
  | T (L h :: a :: _) =>
      if iss h "not" && is_op a "not" then match args_of a with x :: _ => Some [x] | [] => None end else Some []
  | _ => Some []
  end.

Definition rw_bool_de_morgan (e : sexp) : option (list sexp) :=
  match e with
  | T (L h :: a :: _) =>
      if iss h "not" && (is_op a "and" || is_op a "or") then
        let negated := map (fun t => T [lf "not"; t]) (args_of a) in
        Some [node_of (if is_op a "and" then "or" else "and") negated]
      else Some []
  | _ => Some []
  end.

Definition rw_bool_false_eq (e : sexp) : option (list sexp) :=
  match e with
  | T (L h :: args) =>
      if iss h "=" && existsb (fun n => sexp_eqb n (lf "false")) (L h :: args) then
        Some (olist1 (make_and (map (fun n => T [lf "not"; n]) (filter (fun n => negb (sexp_eqb n (lf "false"))) args))))
      else Some []
  | _ => Some []
  end.

Fixpoint impl_pairs (l : list sexp) : list sexp :=
  match l with
  | a :: ((b :: _) as r) => T [lf "or"; T [lf "not"; a]; b] :: impl_pairs r
  | _ => []
  end.
Definition rw_bool_implication (e : sexp) : option (list sexp) :=
  match e with
  | T (L h :: args) => if iss h "=>" then Some (olist1 (make_and (impl_pairs args))) else Some []
  | _ => Some []
  end.

Definition rw_bool_xor_binary (e : sexp) : option (list sexp) :=
  match e with
  | T [L h; a; b] => if iss h "xor" then Some [T [lf "distinct"; a; b]] else Some []
  | _ => Some []
  end.

Definition negator (r : str) : option string :=
  if iss r "=" then Some "distinct" else if iss r "<" then Some ">=" else if iss r ">" then Some "<="
  else if iss r ">=" then Some "<" else if iss r "<=" then Some ">" else if iss r "!=" then Some "="
  else if iss r "<>" then Some "=" else if iss r "distinct" then Some "=" else None.
Definition rw_arith_negate_relation (e : sexp) : option (list sexp) :=
  match e with
  | T (L h :: a :: _) =>
      if iss h "not" then
        match a with
        | T (L r :: xs) => match negator r with Some n => Some [node_of n xs] | None => Some [] end
        | _ => Some []
        end
      else Some []
  | _ => Some []
  end.

(* ---- bit-vector constant arithmetic ---- *)
Definition mk_bv_const (v w : Z) : sexp := T [lf "_"; L (lit "bv" ++ z_to_dec v); L (z_to_dec w)].

Definition rw_bv_normalize (e : sexp) : option (list sexp) :=
  match e with
  | L _ => if is_bv_const e then match bv_const_value e with Some (v, w) => Some [mk_bv_const v w] | None => None end else Some []
  | _ => Some []
  end.

Definition rw_bv_double_neg (e : sexp) : option (list sexp) :=
  match e with
  | T (L h :: rest) =>
      if iss h "bvnot" && match rest with a :: _ => is_op a "bvnot" | [] => false end then
        match rest with a :: _ => match args_of a with x :: _ => Some [x] | [] => None end | [] => None end
      else if iss h "bvneg" then
        match rest with
        | a :: _ => if is_op a "bvneg" then match args_of a with x :: _ => Some [x] | [] => None end else Some []
        | [] => None              (* node[1] raises IndexError *)
        end
      else Some []
  | _ => Some []
  end.

Section WithWidth.
  (* smtlib.get_bv_width / get_sort on operands (C16) *)
  Variable bw : sexp -> Z.
  Variable is_bv_term : sexp -> bool.

  Definition rw_bv_elim_bvcomp (e : sexp) : option (list sexp) :=
    match e with
    | T (L h :: c :: rest) =>
        if iss h "=" && Nat.ltb 0 (length rest) && is_bv_const c && Z.eqb (bw c) 1 && existsb (fun n => is_op n "bvcomp") rest then
          match bv_const_value c with
          | Some (v, _) =>
              let res := map (fun n => if is_op n "bvcomp" then
                                         (if Z.eqb v 1 then node_of "=" (args_of n) else T [lf "not"; node_of "=" (args_of n)])
                                       else T [lf "="; c; n]) rest in
              match res with [x] => Some [x] | _ => Some [T (lf "and" :: res)] end
          | None => None
          end
        else Some []
    | _ => Some []
    end.

  Definition rw_bv_eval_extend (e : sexp) : option (list sexp) :=
    match e with
    | T (h :: c :: _) =>
        let ze := is_indexed_operator h "zero_extend" 1 in
        let se := is_indexed_operator h "sign_extend" 1 in
        if (ze || se) && is_bv_const c then
          match bv_const_value c, get_indices h with
          | Some (v, w), Some (k :: _) =>
              let vb := to_bin (Z.to_N v) in
              if se && Z.eqb (Z.of_nat (length vb)) w && match vb with d :: _ => N.eqb d 49 | [] => false end then
                Some [L (cHASH :: c_b :: repeat_c 49%N (Z.to_nat k) ++ vb)]
              else Some [mk_bv_const v (w + k)%Z]
          | _, _ => None
          end
        else Some []
    | _ => Some []
    end.

  (* Python slice constant[upper:lower+1] for 0 <= upper *)
  Definition slice (s : str) (a b : Z) : str :=
    if Z.ltb a 0 || Z.ltb b 0 then [] else firstn (Z.to_nat b - Z.to_nat a)%nat (skipn (Z.to_nat a) s).

  Definition rw_bv_extract_const (e : sexp) : option (list sexp) :=
    match e with
    | T (h :: c :: _) =>
        if is_indexed_operator h "extract" 2 && is_bv_const c then
          match bv_const_value c, get_indices h with
          | Some (v, w), Some [i; j] =>
              let b := to_bin (Z.to_N v) in
              let padded := repeat_c 48%N (Z.to_nat (w - Z.of_nat (length b))%Z) ++ b in
              let n := Z.of_nat (length padded) in
              Some [L (cHASH :: c_b :: slice padded (n - i - 1)%Z (n - j - 1 + 1)%Z)]
          | _, _ => None
          end
        else Some []
    | _ => Some []
    end.

  Definition idx_head (op : string) (ks : list Z) : sexp := T (lf "_" :: lf op :: map (fun k => L (z_to_dec k)) ks).

  Definition rw_bv_extract_zext (e : sexp) : option (list sexp) :=
    match e with
    | T (h :: inner :: _) =>
        if is_indexed_operator h "extract" 2 && is_indexed_app inner "zero_extend" 1 then
          match args_of inner with
          | term :: _ =>
              let w := bw term in
              if Z.leb w 0 then Some []
              else match get_indices h with
                   | Some [upper; lower] =>
                       if Z.leb w lower then Some [mk_bv_const 0 (upper - lower + 1)%Z]
                       else if Z.ltb upper w then Some [T [h; term]]
                       else Some [T [idx_head "zero_extend" [(upper - w + 1)%Z]; T [idx_head "extract" [(w - 1)%Z; lower]; term]]]
                   | _ => None
                   end
          | [] => None
          end
        else Some []
    | _ => Some []
    end.

  Definition rw_bv_ite_to_bvcomp (e : sexp) : option (list sexp) :=
    match e with
    | T (L h :: rest) =>
        if iss h "ite" then
          match rest with
          | c :: rest' =>
              match c with
              | T [L eq; x; y] =>
                  if iss eq "=" && is_bv_term x then
                    match rest' with
                    | a :: b :: _ =>
                        if is_bv_const a && is_bv_const b then
                          match bv_const_value a, bv_const_value b with
                          | Some (1, 1)%Z, Some (0, 1)%Z => Some [T [lf "bvcomp"; x; y]]
                          | Some (1, 1)%Z, None => None
                          | Some _, _ => Some []
                          | None, _ => None
                          end
                        else Some []
                    | [a] => if is_bv_const a then None else Some []     (* node[3] raises IndexError *)
                    | [] => None                                           (* node[2] raises IndexError *)
                    end
                  else Some []
              | _ => Some []
              end
          | [] => None             (* node[1] raises IndexError *)
          end
        else Some []
    | _ => Some []
    end.
End WithWidth.

Definition rw_bv_reflexive_nand (e : sexp) : option (list sexp) :=
  match e with
  | T [L h; a; b] => if iss h "bvnand" && sexp_eqb a b then Some [T [lf "bvnot"; a]] else Some []
  | _ => Some []
  end.

(* BvMergeExtend: sum the indices of nested applications of the same extension *)
Fixpoint merge_ext (fuel : nat) (op : string) (e : sexp) (acc : Z) : option (Z * sexp) :=
  match fuel with
  | O => Some (acc, e)
  | S k =>
      if is_indexed_app e op 1 then
        match e with
        | T (h :: a :: _) => match get_indices h with Some (i :: _) => merge_ext k op a (acc + i)%Z | _ => None end
        | _ => None          (* n[1] raises IndexError *)
        end
      else Some (acc, e)
  end.
Definition rw_bv_merge_extend (e : sexp) : option (list sexp) :=
  let go := fun (op : string) =>
    match merge_ext (size e) op e 0%Z with
    | Some (k, inner) => Some [T [idx_head op [k]; inner]]
    | None => None
    end in
  match e with
  | T (_ :: a :: _) =>
      if is_indexed_app e "zero_extend" 1 && is_indexed_app a "zero_extend" 1 then go "zero_extend"
      else if is_indexed_app e "sign_extend" 1 && is_indexed_app a "sign_extend" 1 then go "sign_extend"
      else Some []
  | T [_] => if is_indexed_app e "zero_extend" 1 || is_indexed_app e "sign_extend" 1 then None else Some []
  | _ => Some []
  end.
