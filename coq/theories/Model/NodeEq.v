(* Node.__eq__ (node against node): the two-stack walk with the identity and
   hash short-cuts, as a fuelled stack machine, and its structural version. *)
From DD Require Export Base.Node.

Section Eq.
  Variable hstr : str -> Z.
  Variable htup : list Z -> Z.
  Notation nhash := (nhash hstr).

  (* one comparison of the pair popped from the two stacks:
     None = answer False; Some (a, b) = children to push on either stack *)
  Definition cmp_pair (ns no : node) : option (list node * list node) :=
    if Z.eqb (nid ns) (nid no) then Some ([], [])
    else if negb (Bool.eqb (n_is_leaf ns) (n_is_leaf no)) then None
    else if negb (Z.eqb (nhash ns) (nhash no)) then None
    else match ns, no with
         | NL _ s, NL _ t => if str_eqb s t then Some ([], []) else None
         | NT _ _ l, NT _ _ m =>
             if Nat.eqb (length l) (length m) then Some (rev l, rev m) else None
         | _, _ => None
         end.

  (* stacks: head = top (the element list.pop() returns) *)
  Fixpoint eq_sm (fuel : nat) (vs vo : list node) : option bool :=
    match fuel with
    | O => None
    | S k =>
        match vs with
        | [] => Some true
        | ns :: vs' =>
            match vo with
            | [] => Some false
            | no :: vo' =>
                match cmp_pair ns no with
                | None => Some false
                | Some (a, b) => eq_sm k (a ++ vs') (b ++ vo')
                end
            end
        end
    end.

  Definition node_eq_sm (fuel : nat) (a b : node) : option bool :=
    if Z.eqb (nid a) (nid b) then Some true else eq_sm fuel [a] [b].

  (* structural version *)
  Fixpoint node_eq (a b : node) : bool :=
    if Z.eqb (nid a) (nid b) then true
    else match a, b with
         | NL _ s, NL _ t => Z.eqb (hstr s) (hstr t) && str_eqb s t
         | NT _ h l, NT _ h' m =>
             Z.eqb h h' && Nat.eqb (length l) (length m) &&
             (fix go (l m : list node) : bool :=
                match l, m with
                | [], [] => true
                | x :: l', y :: m' => node_eq x y && go l' m'
                | _, _ => false
                end) l m
         | _, _ => false
         end.
End Eq.
