(* The top level of the ddmin strategy (strategy_ddmin.reduce and _apply_mutator)
   over an abstract input type, with the sequential checking loop (_check_seq)
   for every task generator; the parallel loop is Model/SchedDdmin.v, whose runs
   end in the same kind of summary (adopted inputs in order, final input).
   Executable with fuel (None = out of fuel).  No proofs here. *)
From Coq Require Export List Arith ZArith Bool Lia.
Export ListNotations.

Section DdminTop.
  Variable input : Type.
  Variable mutator : Type.
  (* TaskGenerator(exprs, gran, mutator, max_depth): number of nodes the mutator's filter accepts (max_depth is a
     property of the stage the mutator belongs to, so it is part of [mutator] here) *)
  Variable nfiltered : mutator -> input -> nat.
  (* candidates of subset number k of the generator built for mutator m with granularity g from input x0, when the
     generator currently holds input x (subsets are fixed at construction, their nodes are filtered again later) *)
  Variable cands : mutator -> nat -> input -> nat -> input -> list input.
  Variable accept : input -> bool.
  Variable redup : input -> input.          (* nodes.reduplicate *)
  Variable cexprs : input -> Z.             (* nodes.count_exprs *)

  (* len(_partition(filtered, gran)) *)
  Definition nsubsets (n g : nat) : nat := match g with O => O | _ => Nat.div (n + g - 1) g end.

  Fixpoint first_accepted (l : list input) : option input :=
    match l with [] => None | c :: r => if accept c then Some c else first_accepted r end.

  (* summary of one call: current input, inputs written (newest first), sum of the 'reduced' counts *)
  Record acc := mk_acc { a_cur : input; a_writes : list input; a_red : Z }.

  (* _check_seq: subsets k, k+1, ..., n-1 *)
  Fixpoint check_seq (m : mutator) (g : nat) (x0 : input) (k todo : nat) (a : acc) : acc :=
    match todo with
    | O => a
    | S t =>
        let a' := match first_accepted (cands m g x0 k (a_cur a)) with
                  | Some c => mk_acc c (c :: a_writes a) (a_red a + (cexprs (a_cur a) - cexprs c))%Z
                  | None => a
                  end in
        check_seq m g x0 (S k) t a'
    end.

  (* _apply_mutator: granularities n, n/2, n/4, ..., 1, each with a new generator built from the re-duplicated input *)
  Fixpoint gran_loop (m : mutator) (fuel g : nat) (a : acc) : option acc :=
    match g with
    | O => Some a
    | _ =>
        match fuel with
        | O => None
        | S f =>
            let x0 := a_cur a in
            let a1 := check_seq m g x0 0 (nsubsets (nfiltered m x0) g) a in
            gran_loop m f (Nat.div g 2) (mk_acc (redup (a_cur a1)) (a_writes a1) (a_red a1))
        end
    end.
  (* the first generator has gran = None -> len(filtered); an empty filter result gives gran 0: the input is returned as is *)
  Definition apply_mutator (m : mutator) (x : input) (w : list input) : option acc :=
    let n := nfiltered m x in gran_loop m (S n) n (mk_acc x w 0%Z).

  (* stage 1: each mutator until an application brings no net reduction *)
  Fixpoint stage1_mut (m : mutator) (fuel : nat) (x : input) (w : list input) (round : Z) : option (input * list input * Z) :=
    match fuel with
    | O => None
    | S f =>
        match apply_mutator m x w with
        | None => None
        | Some a => if Z.eqb (a_red a) 0%Z then Some (a_cur a, a_writes a, (round + a_red a)%Z)
                    else stage1_mut m f (a_cur a) (a_writes a) (round + a_red a)%Z
        end
    end.
  Fixpoint stage1 (ms : list mutator) (fuel : nat) (x : input) (w : list input) (round : Z) : option (input * list input * Z) :=
    match ms with
    | [] => Some (x, w, round)
    | m :: r => match stage1_mut m fuel x w round with
                | Some (x', w', rd) => stage1 r fuel x' w' rd
                | None => None
                end
    end.
  Fixpoint stage2 (ms : list mutator) (x : input) (w : list input) (round : Z) : option (input * list input * Z) :=
    match ms with
    | [] => Some (x, w, round)
    | m :: r => match apply_mutator m x w with
                | Some a => stage2 r (a_cur a) (a_writes a) (round + a_red a)%Z
                | None => None
                end
    end.

  (* reduce: rounds until one brings no net reduction *)
  Fixpoint reduce (s1 s2 : list mutator) (fuel : nat) (x : input) (w : list input) : option (input * list input) :=
    match fuel with
    | O => None
    | S f =>
        match stage1 s1 fuel x w 0%Z with
        | None => None
        | Some (x1, w1, r1) =>
            match stage2 s2 x1 w1 r1 with
            | None => None
            | Some (x2, w2, r2) => if Z.eqb r2 0%Z then Some (x2, w2) else reduce s1 s2 f x2 w2
            end
        end
    end.
End DdminTop.
