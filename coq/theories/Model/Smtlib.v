(* Model of ddSMT's sort oracle: smtlib._get_sort_aux / get_sort (without the
   cache) and smtlib.get_bv_width, over pure s-expressions.  The operator lists
   come from Gen/Tables.v (regenerated from smtlib.py on every run).  [None] at
   the outer level of get_bv_width stands for a Python exception (IndexError /
   ValueError on malformed terms); get_sort catches it and answers unknown.
   No proofs here. *)
From DD Require Export Base.Sexp Base.Digits Base.Lit Gen.Tables.
Open Scope string_scope.
Local Open Scope list_scope.

(* what collect_information leaves behind, as far as sorts are concerned *)
Record info := mk_info {
  sort_lookup : list (str * option sexp);     (* __sort_lookup: name -> sort (None: recorded as unknown) *)
  dt_constructors : list (str * sexp) }.      (* __datatypes_constructors: constructor name -> datatype *)

Fixpoint alookup {A} (k : str) (l : list (str * A)) : option A :=
  match l with [] => None | (x, v) :: r => if str_eqb x k then Some v else alookup k r end.

Definition iss (s : str) (x : string) : bool := str_eqb s (lit x).
Definition mem_str_l (s : str) (l : list str) : bool := existsb (str_eqb s) l.
Definition starts (p : string) (s : str) : bool :=
  (fix go (p s : str) : bool := match p, s with [] , _ => true | a :: p', b :: s' => N.eqb a b && go p' s' | _, [] => false end) (lit p) s.

Definition has_ident (e : sexp) : option str := match e with T (L h :: _) => Some h | _ => None end.
Definition len (e : sexp) : nat := match e with L _ => 0 | T l => length l end.
Definition nth_child (e : sexp) (i : nat) : option sexp := match e with L _ => None | T l => nth_error l i end.

Definition is_bool_const (e : sexp) : bool := match e with L s => iss s "false" || iss s "true" | _ => false end.
(* decimal literal: digits, optionally followed by a dot and digits *)
Definition is_int_const (e : sexp) : bool := match e with L s => all_digits s | _ => false end.
Fixpoint real_tail (s : str) : bool :=
  match s with
  | [] => true
  | c :: r => if N.eqb c cDOT then forallb is_digit r else is_digit c && real_tail r
  end.
Definition real_lit (s : str) : bool := match s with c :: r => is_digit c && real_tail r | [] => false end.
Definition is_real_const (e : sexp) : bool :=
  match e with
  | L s => real_lit s
  | T [L h; a; b] => iss h "/" && is_int_const a && is_int_const b
  | _ => false
  end.

Definition is_bv_const (e : sexp) : bool :=
  match e with
  | L s => match s with
           | c :: d :: tl => (N.eqb c cHASH && N.eqb d c_b && forallb is_bin tl) || (N.eqb c cHASH && N.eqb d c_x && forallb is_hex tl)
           | _ => false
           end
  | T [L h; L b; _] => iss h "_" && starts "bv" b
  | _ => false
  end.
Definition is_bv_sort (e : sexp) : bool :=
  match e with T [L h; b; _] => iss h "_" && sexp_eqb b (L (lit "BitVec")) | _ => false end.
Definition is_array_sort (e : sexp) : bool :=
  match e with T [L h; _; _] => iss h "Array" | _ => false end.

(* int(node.data): None = ValueError / AttributeError *)
Definition int_of (e : sexp) : option Z := match e with L s => match dec_of s with Some n => Some (Z.of_N n) | None => None end | T _ => None end.

(* is_indexed_operator(node, name, index_count) *)
Definition is_indexed_operator (e : sexp) (name : string) (cnt : nat) : bool :=
  match e with
  | L _ => false
  | T l =>
      if Nat.ltb (length l) 2 then false
      else match l with
           | L h :: _ => if negb (iss h "_") then false
                         else match nth_error l 1 with
                              | Some x => sexp_eqb x (L (lit name)) && Nat.eqb (length l) (cnt + 2)
                              | None => false end
           | _ => match nth_error l 1 with
                  | Some x => sexp_eqb x (L (lit name)) && Nat.eqb (length l) (cnt + 2)
                  | None => false end
           end
  end.
Definition is_indexed_app (e : sexp) (name : string) (cnt : nat) : bool :=
  match e with T (h :: _) => is_indexed_operator h name cnt | _ => false end.
(* get_indices(node[0], ...) : [int(n.data) for n in node[2:]] *)
Definition get_indices (h : sexp) : option (list Z) :=
  match h with
  | T (_ :: _ :: idx) => fold_right (fun x acc => match int_of x, acc with Some v, Some r => Some (v :: r) | _, _ => None end) (Some []) idx
  | _ => None
  end.

Section Oracle.
  Variable I : info.

  (* get_bv_width: Some w (w = -1: unknown) | None (exception) *)
  Fixpoint bv_width (e : sexp) : option Z :=
    if is_bv_const e then
      match e with
      | L s => match s with
               | _ :: d :: tl => if N.eqb d c_b then Some (Z.of_nat (length tl)) else Some (Z.of_nat (length tl) * 4)%Z
               | _ => None
               end
      | T [_; _; w] => int_of w
      | _ => None
      end
    else
      match (match e with L s => alookup s (sort_lookup I) | T _ => None end) with
      | Some so =>
          match so with
          | Some bs => if is_bv_sort bs then match bs with T [_; _; w] => int_of w | _ => None end else Some (-1)%Z
          | None => Some (-1)%Z     (* is_bv_sort(None) is False *)
          end
      | None =>
          match e with
          | T (h :: args) =>
              if is_indexed_operator h "zero_extend" 1 || is_indexed_operator h "sign_extend" 1 then
                match args with
                | a :: _ => match bv_width a with
                            | Some w => if Z.eqb w (-1) then Some (-1)%Z
                                        else match get_indices h with Some (k :: _) => Some (k + w)%Z | _ => None end
                            | None => None end
                | [] => None end
              else if is_indexed_operator h "extract" 2 then
                match get_indices h with Some [i; j] => Some (i - j + 1)%Z | _ => None end
              else if is_indexed_operator h "repeat" 1 then
                match args with
                | a :: _ => match bv_width a with
                            | Some w => if Z.eqb w (-1) then Some (-1)%Z
                                        else match get_indices h with Some (k :: _) => Some (k * w)%Z | _ => None end
                            | None => None end
                | [] => None end
              else if is_indexed_operator h "rotate_left" 1 || is_indexed_operator h "rotate_right" 1 then
                match args with a :: _ => bv_width a | [] => None end
              else if is_indexed_operator h "fp.to_ubv" 1 || is_indexed_operator h "fp.to_sbv" 1 then
                match get_indices h with Some (k :: _) => Some k | _ => None end
              else
                match h with
                | L ident =>
                    if mem_str_l ident bvw_same_ops then match args with a :: _ => bv_width a | [] => None end
                    else if iss ident "concat" then
                      (fix sum (l : list sexp) : option Z :=
                         match l with
                         | [] => Some 0%Z
                         | x :: r => match bv_width x, sum r with
                                     | Some w, Some s => if Z.eqb w (-1) || Z.eqb s (-1) then Some (-1)%Z else Some (w + s)%Z
                                     | _, _ => None end
                         end) args
                    else if iss ident "bvcomp" then Some 1%Z
                    else if iss ident "ite" then
                      match args with
                      | _ :: a :: _ => match bv_width a with Some w => if Z.ltb 0 w then Some w else Some (-1)%Z | None => None end
                      | _ => None
                      end
                    else Some (-1)%Z
                | T _ => Some (-1)%Z
                end
          | _ => Some (-1)%Z
          end
      end.

  Definition mk_bv (w : Z) : sexp := T [L (lit "_"); L (lit "BitVec"); L (if Z.ltb w 0 then 45%N :: to_dec (Z.to_N (- w)) else to_dec (Z.to_N w))].
  Definition opt_sexp_eqb (a : option sexp) (b : sexp) : bool := match a with Some x => sexp_eqb x b | None => false end.

  (* smtlib.has_comment_operand (F69): a list with a comment (a leaf whose text starts with ';') among its children;
     get_sort answers unknown for it, at every level of the recursion *)
  Definition is_comment_leaf (e : sexp) : bool := match e with L (59%N :: _) => true | _ => false end.
  Definition has_comment_operand (e : sexp) : bool := match e with T l => existsb is_comment_leaf l | L _ => false end.

  (* _get_sort_aux, with the recursive calls of get_sort; idx: the node is marked as an index of an indexed operator.
     Outer None = exception (get_sort answers unknown) *)
  Fixpoint sort_aux (idx : bool) (e : sexp) : option (option sexp) :=
    match (match e with L s => alookup s (sort_lookup I) | T _ => None end) with
    | Some so => Some so
    | None =>
        if is_bool_const e then Some (Some (L (lit "Bool")))
        else if is_bv_const e then match bv_width e with Some w => Some (Some (mk_bv w)) | None => None end
        else if is_int_const e && negb idx then Some (Some (L (lit "Int")))
        else if is_real_const e && negb idx then Some (Some (L (lit "Real")))
        else
          match bv_width e with
          | None => None
          | Some w =>
              if negb (Z.eqb w (-1)) then Some (Some (mk_bv w))
              else
                let gs := fun x => if has_comment_operand x then None else match sort_aux false x with Some r => r | None => None end in   (* get_sort: comment operand or exception -> unknown *)
                match e with
                | T (L ident :: a1 :: rest) =>
                    if iss ident "ite" && Nat.ltb 2 (len e) then
                      match rest with a2 :: _ => Some (gs a2) | [] => None end
                    else if mem_str_l ident sort_bool_ops then Some (Some (L (lit "Bool")))
                    else if mem_str_l ident sort_int_ops then Some (Some (L (lit "Int")))
                    else if mem_str_l ident sort_real_ops then Some (Some (L (lit "Real")))
                    else if mem_str_l ident sort_arith_ops then
                      if existsb (fun n => opt_sexp_eqb (gs n) (L (lit "Real"))) (a1 :: rest) then Some (Some (L (lit "Real")))
                      else if opt_sexp_eqb (gs a1) (L (lit "Int")) then Some (Some (L (lit "Int")))
                      else Some None
                    else if mem_str_l ident sort_fp1_ops then Some (gs a1)
                    else if mem_str_l ident sort_fp2_ops then match rest with a2 :: _ => Some (gs a2) | [] => None end
                    else if iss ident "fp" then
                      match rest with
                      | a2 :: a3 :: _ =>
                          match bv_width a2, bv_width a3 with
                          | Some ew, Some sw => if Z.eqb ew (-1) || Z.eqb sw (-1) then Some None
                                                else Some (Some (T [L (lit "_"); L (lit "FloatingPoint"); L (to_dec (Z.to_N ew)); L (to_dec (Z.to_N (sw + 1)))]))
                          | _, _ => None
                          end
                      | _ => None
                      end
                    else if iss ident "select" then
                      match gs a1 with
                      | Some asort => if is_array_sort asort then Some (nth_child asort 2) else Some None
                      | None => Some None
                      end
                    else if iss ident "store" then Some (gs a1)
                    else match alookup ident (dt_constructors I) with
                         | Some d => Some (Some d)
                         | None => Some None      (* indexed operator apps need a non-leaf head *)
                         end
                | T (h :: _ :: _) =>
                    if is_indexed_operator h "divisible" 1 then Some (Some (L (lit "Bool")))
                    else if is_indexed_operator h "to_fp" 2 || is_indexed_operator h "to_fp_unsigned" 2 then
                      match get_indices h with
                      | Some [a; b] => Some (Some (T [L (lit "_"); L (lit "FloatingPoint"); L (to_dec (Z.to_N a)); L (to_dec (Z.to_N b))]))
                      | _ => None
                      end
                    else Some None
                | T [h] =>
                    if is_indexed_operator h "divisible" 1 then Some (Some (L (lit "Bool")))
                    else if is_indexed_operator h "to_fp" 2 || is_indexed_operator h "to_fp_unsigned" 2 then
                      match get_indices h with
                      | Some [a; b] => Some (Some (T [L (lit "_"); L (lit "FloatingPoint"); L (to_dec (Z.to_N a)); L (to_dec (Z.to_N b))]))
                      | _ => None
                      end
                    else Some None
                | _ => Some None
                end
          end
    end.

  Definition get_sort (idx : bool) (e : sexp) : option sexp :=
    if has_comment_operand e then None else match sort_aux idx e with Some r => r | None => None end.
  Definition get_bv_width (e : sexp) : Z := match bv_width e with Some w => w | None => (-2)%Z end.   (* -2: raises *)
End Oracle.

(* collect_information, declaration part: __sort_lookup and __datatypes_constructors *)
Definition collect_cmd (I : info) (c : sexp) : info :=
  match c with
  | T [L k; L x; so] =>
      if iss k "declare-const" then mk_info ((x, Some so) :: sort_lookup I) (dt_constructors I)
      else if iss k "declare-datatype" then
        match so with
        | T cs => mk_info (sort_lookup I)
                    (fold_left (fun acc c => match c with T (L cn :: _) => (cn, L x) :: acc | _ => acc end) cs (dt_constructors I))
        | L _ => I
        end
      else I
  | T [L k; L x; T _; so] =>
      if iss k "declare-fun" then mk_info ((x, Some so) :: sort_lookup I) (dt_constructors I) else I
  | T [L k; L x; T _; so; _] =>
      if iss k "define-fun" then mk_info ((x, Some so) :: sort_lookup I) (dt_constructors I) else I
  | _ => I
  end.
Definition collect_decls (cmds : list sexp) : info := fold_left collect_cmd cmds (mk_info [] []).
