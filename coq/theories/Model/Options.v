(* Mutator options: the three argparse actions as a fold over the option
   sequence, automatic theory detection, get_mutators and the pass constructors
   of both strategies, over an arbitrary registry table (instantiated with
   Gen/Tables.v).  No proofs here. *)
From DD Require Export Base.Str.

Definition theory := (str * bool * list (str * str))%type.   (* name, has is_relevant, (class, option) *)
Definition t_name (t : theory) : str := fst (fst t).
Definition t_rel (t : theory) : bool := snd (fst t).
Definition t_reg (t : theory) : list (str * str) := snd t.

Inductive copt :=
| CMut (o : str) (v : bool)       (* --<option> / --no-<option> *)
| CGroup (t : str) (v : bool)     (* --<theory> / --no-<theory> *)
| CDisableAll.                    (* --disable-all *)

(* the argparse namespace: mutator_<option> (default True) and mutators_<theory> (default None) *)
Record ns := mk_ns { mv : str -> bool; gv : str -> option bool }.
Definition ns0 : ns := mk_ns (fun _ => true) (fun _ => None).

Definition upd {A} (f : str -> A) (k : str) (v : A) : str -> A :=
  fun x => if str_eqb x k then v else f x.
Definition upd_all {A} (f : str -> A) (ks : list str) (v : A) : str -> A :=
  fun x => if existsb (str_eqb x) ks then v else f x.

Section Tables.
  Variable tables : list theory.

  Definition opts_of (t : theory) : list str := map snd (t_reg t).
  Definition find_theory (n : str) : option theory := find (fun t => str_eqb (t_name t) n) tables.

  (* mutators.toggle_theory *)
  Definition toggle_theory (s : ns) (t : theory) (v : bool) : ns :=
    mk_ns (upd_all (mv s) (opts_of t) v) (upd (gv s) (t_name t) (Some v)).
  (* mutators.toggle_all_theories *)
  Definition toggle_all (s : ns) (v : bool) : ns := fold_left (fun s t => toggle_theory s t v) tables s.

  Definition step (s : ns) (o : copt) : ns :=
    match o with
    | CMut o v => mk_ns (upd (mv s) o v) (gv s)
    | CGroup t v => match find_theory t with Some th => toggle_theory s th v | None => s end
    | CDisableAll => toggle_all s false
    end.
  Definition parse_opts (os : list copt) : ns := fold_left step os ns0.

  (* mutators.auto_detect_theories: rel t = some top-level node is relevant for theory t *)
  Definition auto_detect (rel : str -> bool) (s : ns) : ns :=
    fold_left (fun s t =>
      match gv s (t_name t) with
      | Some _ => s
      | None => if t_rel t then (if rel (t_name t) then s else toggle_theory s t false) else s
      end) tables s.

  (* mutators.get_mutators: for each name, the first theory that registers it decides *)
  Fixpoint lookup_cls (ts : list theory) (c : str) : option str :=
    match ts with
    | [] => None
    | t :: r => match find (fun p => str_eqb (fst p) c) (t_reg t) with
                | Some p => Some (snd p)
                | None => lookup_cls r c
                end
    end.
  Definition get_mutators (s : ns) (names : list str) : list str :=
    flat_map (fun c => match lookup_cls tables c with
                       | Some o => if mv s o then [c] else []
                       | None => []
                       end) names.

  Definition all_classes : list str := flat_map (fun t => map fst (t_reg t)) tables.
  Definition mem_str (x : str) (l : list str) : bool := existsb (str_eqb x) l.

  (* strategy_hierarchical.get_passes *)
  Section Passes.
    Variables (prelude1 prelude2 late : list str) (stage1 stage2 exclude : list str).
    Definition s_BinaryReduction : str := [66;105;110;97;114;121;82;101;100;117;99;116;105;111;110]%N.
    Definition s_EraseNode : str := [69;114;97;115;101;78;111;100;101]%N.
    Definition hier_main : list str := filter (fun c => negb (mem_str c late)) all_classes.
    Definition hier_passes (s : ns) : list (list str) :=
      [get_mutators s [s_BinaryReduction]; get_mutators s prelude1; get_mutators s prelude2;
       get_mutators s hier_main; get_mutators s (late ++ hier_main)].
    (* strategy_ddmin.ddmin_passes *)
    Definition ddmin_stage2_names : list str :=
      stage2 ++ filter (fun c => negb (mem_str c (exclude ++ stage1 ++ stage2))) all_classes.
    Definition ddmin_passes (s : ns) : list (list str) :=
      [get_mutators s [s_EraseNode] ++ get_mutators s stage1; get_mutators s ddmin_stage2_names].
  End Passes.

  (* is the mutator class enabled after option processing + detection? *)
  Definition enabled (s : ns) (c : str) : bool :=
    match lookup_cls tables c with Some o => mv s o | None => false end.
End Tables.
