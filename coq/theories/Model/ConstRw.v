(* Models of filter + mutations of nine more mutators (constants, n-ary relations,
   zero_extend under predicates, three string/sequence rules), over pure
   s-expressions.  Same convention as Model/Rewrites.v: None = the Python code
   raises, Some [] = the mutator does not accept the node (or proposes nothing),
   Some l = the replacements proposed, in order.  None of them needs an oracle:
   get_bv_width is only ever asked about constants.  No proofs here.

   Limits of the models (stated, not checked): Python's int(str) also accepts
   non-ASCII decimal digits and surrounding white space and refuses more than
   4300 digits; the regular expressions of is_arith_const / is_int_const accept
   one trailing line feed.  None of these can be produced by the reader from a
   token that gets this far. *)
From DD Require Export Model.Rewrites.
Open Scope string_scope.
Local Open Scope list_scope.

(* ---- int(s) of Python, ASCII part: optional sign, digits, single underscores between digits ---- *)
Fixpoint py_nat_aux (s : str) (acc : N) (prev : bool) : option N :=
  match s with
  | [] => if prev then Some acc else None
  | c :: r =>
      if is_digit c then py_nat_aux r (acc * 10 + digit_val c)%N true
      else if N.eqb c 95 && prev then py_nat_aux r acc false
      else None
  end.
Definition py_nat (s : str) : option N := py_nat_aux s 0%N false.
Definition py_int (s : str) : option Z :=
  match s with
  | c :: r =>
      if N.eqb c 45 then match py_nat r with Some n => Some (- Z.of_N n)%Z | None => None end
      else if N.eqb c 43 then match py_nat r with Some n => Some (Z.of_N n) | None => None end
      else match py_nat s with Some n => Some (Z.of_N n) | None => None end
  | [] => None
  end.
(* int(node.data): TypeError on a non-leaf *)
Definition py_int_node (e : sexp) : option Z := match e with L s => py_int s | T _ => None end.
(* get_indices: [int(n.data) for n in node[2:]] *)
Definition py_indices (h : sexp) : option (list Z) :=
  match h with
  | T (_ :: _ :: idx) => fold_right (fun x acc => match py_int_node x, acc with Some v, Some r => Some (v :: r) | _, _ => None end) (Some []) idx
  | _ => None
  end.

(* get_bv_constant_value of a node that is_bv_const accepts: (value, width); None = raises
   (int('', 2) for the literals #b and #x; int() of the numeral or of the width otherwise) *)
Definition bv_cv (e : sexp) : option (Z * Z) :=
  match e with
  | L (_ :: d :: tl) =>
      match tl with
      | [] => None
      | _ => if N.eqb d c_b then Some (Z.of_N (bin_val tl), Z.of_nat (length tl))
             else Some (Z.of_N (hex_val tl), (Z.of_nat (length tl) * 4)%Z)
      end
  | T [_; L (_ :: _ :: digs); w] =>
      match py_int digs, py_int_node w with Some v, Some bw => Some (v, bw) | _, _ => None end
  | _ => None
  end.
(* get_bv_width of a node that is_bv_const accepts *)
Definition bv_cw (e : sexp) : option Z :=
  match e with
  | L (_ :: d :: tl) => Some (if N.eqb d c_b then Z.of_nat (length tl) else (Z.of_nat (length tl) * 4)%Z)
  | T [_; _; w] => py_int_node w
  | _ => None
  end.

(* ---- BVConcatToZeroExtend ---- *)
Definition rw_bv_concat_zext (e : sexp) : option (list sexp) :=
  match e with
  | T (L h :: rest) =>
      if iss h "concat" then
        match rest with
        | [] => None                              (* node[1] raises IndexError *)
        | c :: rest' =>
            if is_bv_const c then
              match bv_cv c with
              | None => None
              | Some (v, w) =>
                  if Z.eqb v 0 then
                    match rest' with
                    | x :: _ => Some [T [idx_head "zero_extend" [w]; x]]
                    | [] => None                  (* node[2] raises IndexError *)
                    end
                  else Some []
              end
            else Some []
        end
      else Some []
  | _ => Some []
  end.

(* ---- BVSimplifyConstants ---- *)
(* format(v, 'b') *)
Definition z_to_bin (z : Z) : str := if Z.ltb z 0 then 45%N :: to_bin (Z.to_N (- z)) else to_bin (Z.to_N z).
(* '{:0>Wb}'.format(v) with W = str(w): a minus sign of W is read as the sign option of the format *)
Definition fmt_bin (w v : Z) : str :=
  let b := z_to_bin v in repeat_c 48%N (Z.to_nat (Z.abs w) - length b) ++ b.
Definition bin_lit (w v : Z) : sexp := L (cHASH :: c_b :: fmt_bin w v).
Definition not01 (v : Z) : bool := negb (Z.eqb v 0 || Z.eqb v 1).
Definition rw_bv_simp_consts (e : sexp) : option (list sexp) :=
  if is_bv_const e then
    match bv_cv e with
    | None => None
    | Some (v, w) =>
        if not01 v then Some (map (bin_lit w) (0 :: 1 :: filter not01 [v / 32; v / 8; v / 2]))%Z
        else Some []
    end
  else Some [].

(* ---- BVTransformToBool ---- *)
Definition repl_of (h : str) : option string :=
  if iss h "bvand" then Some "and" else if iss h "bvor" then Some "or" else if iss h "bvxor" then Some "xor" else None.
Definition ident_repl (e : sexp) : option string := match has_ident e with Some h => repl_of h | None => None end.
(* is_bv_const(c) and get_bv_width(c) == 1; None = raises *)
Definition is_const_w1 (c : sexp) : option bool :=
  if is_bv_const c then match bv_cw c with Some w => Some (Z.eqb w 1) | None => None end else Some false.
Definition to_bool_app (c n : sexp) : option (list sexp) :=
  match ident_repl n with
  | Some r => Some [node_of r (map (fun d => T [lf "="; c; d]) (args_of n))]
  | None => Some []
  end.
Definition rw_bv_to_bool (e : sexp) : option (list sexp) :=
  match e with
  | T [L h; a; b] =>
      if iss h "=" then
        match is_const_w1 a with
        | None => None
        | Some true => to_bool_app a b
        | Some false =>
            match is_const_w1 b with
            | None => None
            | Some true => to_bool_app b a
            | Some false => Some []
            end
        end
      else Some []
  | _ => Some []
  end.

(* ---- BVZeroExtendPredicate ---- *)
Definition zx_preds : list string :=
  ["="; "distinct"; "bvult"; "bvule"; "bvugt"; "bvuge"; "bvslt"; "bvsle"; "bvsgt"; "bvsge"].
Definition is_zx_pred (h : str) : bool := existsb (iss h) zx_preds.
Definition mk_zext (k : Z) (x : sexp) : sexp := T [idx_head "zero_extend" [k]; x].
Definition rw_bv_zext_pred (e : sexp) : option (list sexp) :=
  match e with
  | T [L h; T (ha :: ra); T (hb :: rb)] =>
      if is_zx_pred h && is_indexed_operator ha "zero_extend" 1 && is_indexed_operator hb "zero_extend" 1 then
        match py_indices ha, py_indices hb with
        | Some (i1 :: _), Some (i2 :: _) =>
            match ra, rb with
            | x :: _, y :: _ =>
                if Z.eqb i1 i2 then Some [T [L h; x; y]]
                else if Z.ltb i2 i1 then Some [T [L h; mk_zext (i1 - i2) x; y]]
                else Some [T [L h; x; mk_zext (i2 - i1) y]]
            | _, _ => None                        (* node[k][1] raises IndexError *)
            end
        | _, _ => None
        end
      else Some []
  | _ => Some []
  end.

(* ---- ArithmeticSimplifyConstant ---- *)
(* Python floats (binary64), as far as this mutator needs them: non-negative values m * 2^u, infinity, NaN *)
Inductive dbl := DInf | DNan | DFin (m : N) (u : Z).
Definition pow2 (k : Z) : N := (2 ^ Z.to_N k)%N.
(* the binary64 number nearest to p/q (ties to even), for q > 0: what float(str) and the division of two floats compute *)
Definition round_q (p q : N) : dbl :=
  if N.eqb p 0 then DFin 0 0
  else
    let e0 := (Z.of_N (N.log2 p) - Z.of_N (N.log2 q))%Z in
    let ge := N.leb (q * pow2 (Z.max 0 e0)) (p * pow2 (Z.max 0 (- e0))) in     (* 2^e0 <= p/q *)
    let e := if ge then e0 else (e0 - 1)%Z in                                  (* 2^e <= p/q < 2^(e+1) *)
    let u := Z.max (e - 52) (-1074) in                                         (* exponent of the last place *)
    let num := (p * pow2 (Z.max 0 (- u)))%N in
    let den := (q * pow2 (Z.max 0 u))%N in
    let qt := (num / den)%N in
    let r := (num mod den)%N in
    let m := if N.ltb (2 * r) den then qt
             else if N.ltb den (2 * r) then (qt + 1)%N
             else if N.even qt then qt else (qt + 1)%N in
    if Z.leb 1024 (u + Z.of_N (N.log2 m)) then DInf else DFin m u.
(* float(s) for a decimal literal: digits, optionally a dot and digits *)
Fixpoint split_dot (s : str) : str * str :=
  match s with
  | [] => ([], [])
  | c :: r => if N.eqb c cDOT then ([], r) else let (a, b) := split_dot r in (c :: a, b)
  end.
Definition float_of_lit (s : str) : dbl :=
  let (ip, fp) := split_dot s in round_q (dec_val (ip ++ fp)) (10 ^ N.of_nat (length fp)).
Definition dbl_is_zero (d : dbl) : bool := match d with DFin m _ => N.eqb m 0 | _ => false end.
Definition dbl_div (a b : dbl) : dbl :=
  match a, b with
  | DNan, _ | _, DNan => DNan
  | DInf, DInf => DNan
  | DInf, _ => DInf
  | _, DInf => DFin 0 0
  | DFin ma ua, DFin mb ub =>
      round_q (ma * pow2 (Z.max 0 ua) * pow2 (Z.max 0 (- ub))) (mb * pow2 (Z.max 0 ub) * pow2 (Z.max 0 (- ua)))
  end.
(* get_arith_const of a node that is_arith_const accepts *)
Definition arith_const (e : sexp) : dbl :=
  match e with
  | L s => float_of_lit s
  | T [_; L a; L b] =>
      let fb := float_of_lit b in
      if dbl_is_zero fb then float_of_lit a else dbl_div (float_of_lit a) fb
  | _ => DNan
  end.
(* int(f) and int(f) == f, for a finite f *)
Definition dbl_trunc (m : N) (u : Z) : N * bool :=
  if Z.leb 0 u then ((m * pow2 u)%N, true) else ((m / pow2 (- u))%N, N.eqb (m mod pow2 (- u)) 0).
(* is_arith_const is smtlib.is_real_const, literally *)
Definition rw_arith_simp_const (e : sexp) : option (list sexp) :=
  if is_real_const e then
    match arith_const e with
    | DInf | DNan => None                         (* accepted by the filter; int(f) raises OverflowError / ValueError *)
    | DFin m u =>
        let (i, integral) := dbl_trunc m u in
        if integral then
          if N.eqb i 0 || N.eqb i 1 then Some []
          else Some [L (to_dec (i / 2)); L (to_dec (i / 10))]
        else
          Some [L (to_dec i);
                match e with L s => L (removelast s) | T l => T [T (removelast l)] end]   (* Node(node.data[:-1]) *)
    end
  else Some [].

(* ---- ArithmeticSplitNaryRelation ---- *)
Definition arith_rels : list string := ["="; "<"; ">"; ">="; "<="; "!="; "<>"; "distinct"].
Definition is_arith_rel (h : str) : bool := existsb (iss h) arith_rels.
Fixpoint split_pairs (h : sexp) (l : list sexp) : list sexp :=
  match l with
  | a :: ((b :: _) as r) => T [h; a; b] :: split_pairs h r
  | _ => []
  end.
Definition rw_arith_split_nary (e : sexp) : option (list sexp) :=
  match e with
  | T (L h :: args) =>
      if is_arith_rel h && Nat.ltb 2 (length args) then Some [T (lf "and" :: split_pairs (L h) args)] else Some []
  | _ => Some []
  end.

(* ---- SeqNthUnit, StringIndexOfNotFound, StringReplaceAll ---- *)
Definition rw_seq_nth_unit (e : sexp) : option (list sexp) :=
  match e with
  | T (L h :: a :: _) =>
      if iss h "seq.nth" && is_op a "seq.unit" then
        match args_of a with x :: _ => Some [x] | [] => None end       (* node[1][1] raises IndexError *)
      else Some []
  | _ => Some []
  end.

Definition rw_str_indexof (e : sexp) : option (list sexp) :=
  match e with
  | T (L h :: _) => if iss h "str.indexof" then Some [T [lf "-"; lf "1"]] else Some []
  | _ => Some []
  end.

Definition rw_str_replace_all (e : sexp) : option (list sexp) :=
  match e with
  | T (L h :: args) => if iss h "str.replace_all" then Some [node_of "str.replace" args] else Some []
  | _ => Some []
  end.
