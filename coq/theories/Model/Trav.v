(* nodes.dfs / bfs (with max_depth), count_nodes, count_exprs, binary_search.
   max_depth: 0 stands for None/0 (unlimited); the top level has depth 1 and a
   node at depth d is expanded iff unlimited or d < max_depth. *)
From DD Require Export Base.Node.

Definition expand (md d : Z) : bool := Z.eqb md 0 || Z.ltb d md.

(* dfs over a list of nodes: pre-order *)
Fixpoint dfs_d (md d : Z) (n : node) : list node :=
  match n with
  | NL _ _ => [n]
  | NT _ _ l => n :: (if expand md d then
                        (fix go (l : list node) : list node :=
                           match l with [] => [] | x :: xs => dfs_d md (d + 1) x ++ go xs end) l
                      else [])
  end.
Definition dfs (md : Z) (l : list node) : list node := flat_map (dfs_d md 1) l.
(* dfs(node): yields the node itself, then its children at depth 1 *)
Definition dfs_node (md : Z) (n : node) : list node := n :: dfs md (children n).

(* bfs: the deque machine, with fuel *)
Fixpoint bfs_q (fuel : nat) (md : Z) (q : list (Z * node)) : option (list node) :=
  match fuel with
  | O => match q with [] => Some [] | _ => None end
  | S k =>
      match q with
      | [] => Some []
      | (d, n) :: q' =>
          let kids := if expand md d then map (fun c => ((d + 1)%Z, c)) (children n) else [] in
          match bfs_q k md (q' ++ kids) with
          | Some r => Some (n :: r)
          | None => None
          end
      end
  end.
Definition bfs (md : Z) (l : list node) : option (list node) :=
  bfs_q (nsizes l) md (map (fun n => (1%Z, n)) l).

(* specification of bfs: concatenation of depth levels, left to right *)
Fixpoint bfs_levels (height : nat) (md d : Z) (level : list node) : list node :=
  match height with
  | O => []
  | S h => level ++ (if expand md d then bfs_levels h md (d + 1) (flat_map children level) else [])
  end.
Fixpoint height (n : node) : nat :=
  match n with
  | NL _ _ => 1
  | NT _ _ l => S (fold_right (fun x a => Nat.max (height x) a) 0 l)
  end.
Definition heights (l : list node) : nat := fold_right (fun x a => Nat.max (height x) a) 0 l.

Definition count_nodes (l : list node) : nat := nsizes l.
Fixpoint count_exprs1 (n : node) : nat :=
  match n with
  | NL _ _ => 0
  | NT _ _ l => S (fold_right (fun x a => count_exprs1 x + a) 0 l)
  end.
Definition count_exprs (l : list node) : nat := fold_right (fun x a => count_exprs1 x + a) 0 l.

(* nodes.binary_search(n): for den = 2, 4, ... while 2*den <= n, the sections
   [num*n/den, (num+1)*n/den) for num = den-1 .. 0 *)
Fixpoint bs_row (n den : Z) (k : nat) : list (Z * Z) :=
  match k with
  | O => []
  | S k' => ((Z.of_nat k' * n / den)%Z, ((Z.of_nat k' + 1) * n / den)%Z) :: bs_row n den k'
  end.
Fixpoint bs_loop (fuel : nat) (n den : Z) : list (Z * Z) :=
  match fuel with
  | O => []
  | S f => if Z.leb (den * 2) n then bs_row n den (Z.to_nat den) ++ bs_loop f n (den * 2) else []
  end.
Definition binary_search (n : nat) : list (Z * Z) := bs_loop n (Z.of_nat n) 2.
