(* Outcome automaton of a ddSMT invocation: cli.check_options -> golden runs ->
   strategy -> __main__.main -> bin/ddsmt, with its exit status and the number
   of diagnostic lines printed by main(); and the isolation of mutator failures
   at the two call sites (hierarchical Producer.__mutate_node, ddmin
   TaskGenerator).  No proofs here. *)
From DD Require Export Base.Py.

Inductive usage_error :=
| InputNotRegular | OutputIsInput | NoCommand | CommandNotRegular | CommandNotExecutable
| CrossCheckNotRegular | CrossCheckNotExecutable | JobsBelowOne | OutputUnusable | LimitNotANumber | InputNotDecodable.

Inductive outcome :=
| Completed                         (* minimisation ran to completion (also: nothing could be minimised) *)
| ParserTest                        (* --parser-test: parse, print, exit 0 *)
| Usage (e : usage_error)           (* DDSMTException raised by check_options *)
| CommandCannotRun                  (* the system cannot execute the (cross-check) command: logging.error + sys.exit(1) *)
| MatchStringMissing                (* golden output lacks a configured match string: logging.error + sys.exit(1) *)
| Interrupted                       (* KeyboardInterrupt *)
| OutOfMemory                       (* MemoryError *)
| InternalError (k : exn).          (* any other exception: traceback *)

(* what check_options and the golden runs see *)
Record invocation := mk_inv {
  in_regular : bool;
  out_ok : bool;                    (* the directory of the output file exists and the output file is not a directory *)
  out_is_in : bool;                 (* the output file exists and is the input file *)
  parser_test : bool; has_cmd : bool; cmd_regular : bool; cmd_exec : bool;
  has_cc : bool; cc_regular : bool; cc_exec : bool;     (* cross-check command *)
  jobs_ok : bool;                   (* -j >= 1 *)
  limits_ok : bool;                 (* --timeout, --timeout-cc, --memout are numbers the operating system accepts *)
  in_decodable : bool;              (* the input file is valid UTF-8 *)
  cmd_runs : bool; cc_runs : bool;  (* the system can execute the file (valid executable format) *)
  golden_has_match : bool;          (* every configured match string occurs in the golden run *)
  interrupted : bool;               (* SIGINT delivered during the run *)
  internal : option exn }.          (* an exception escaping the strategies *)

Definition run_cli (i : invocation) : outcome :=
  if negb (in_regular i) then Usage InputNotRegular
  else if negb (out_ok i) then Usage OutputUnusable
  else if out_is_in i then Usage OutputIsInput
  else if parser_test i then (if in_decodable i then ParserTest else Usage InputNotDecodable)
  else if negb (has_cmd i) then Usage NoCommand
  else if negb (cmd_regular i) then Usage CommandNotRegular
  else if negb (cmd_exec i) then Usage CommandNotExecutable
  else if has_cc i && negb (cc_regular i) then Usage CrossCheckNotRegular
  else if has_cc i && negb (cc_exec i) then Usage CrossCheckNotExecutable
  else if negb (jobs_ok i) then Usage JobsBelowOne
  else if negb (limits_ok i) then Usage LimitNotANumber
  else if negb (in_decodable i) then Usage InputNotDecodable
  else if negb (cmd_runs i) then CommandCannotRun
  else if negb (golden_has_match i) then MatchStringMissing
  else if has_cc i && negb (cc_runs i) then CommandCannotRun
  else if interrupted i then Interrupted
  else match internal i with Some k => InternalError k | None => Completed end.

(* __main__.main: return value, and bin/ddsmt / python -m ddsmt: sys.exit(main()) *)
Definition exit_status (o : outcome) : Z :=
  match o with Completed | ParserTest => 0 | _ => 1 end%Z.
(* lines printed as the one-line diagnostic *)
Definition diagnostic_lines (o : outcome) : nat :=
  match o with
  | Completed | ParserTest => 0
  | Usage _ | Interrupted | OutOfMemory => 1
  | MatchStringMissing | CommandCannotRun => 1          (* logging.error *)
  | InternalError _ => 0             (* traceback: an internal failure, not a diagnostic *)
  end.

(* ---- isolation of mutator failures ---- *)
Section Isolate.
  Variables node simp : Type.
  Record mutator := mk_mut {
    m_filter : node -> res bool;
    m_mutations : node -> res (list simp) }.

  (* Producer.__mutate_node / TaskGenerator: every call is guarded; an exception
     costs the candidates of that mutator for that node only *)
  Definition proposals (m : mutator) (n : node) : list simp :=
    match m_filter m n with
    | Ok true => match m_mutations m n with Ok l => l | Exn _ => [] end
    | Ok false => []
    | Exn _ => []
    end.
  Definition mutate_node (ms : list mutator) (n : node) : list simp := flat_map (fun m => proposals m n) ms.
  Definition mutate_nodes (ms : list mutator) (ns : list node) : list simp := flat_map (mutate_node ms) ns.
End Isolate.
