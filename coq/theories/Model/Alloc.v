(* Model of the identity allocator of ddsmt.nodes.Node across the processes of a
   fork-based pool.  Node.__get_id is

       with Node.__ID_COUNTER.get_lock():
           Node.__ID_COUNTER.value += 1
           return Node.__ID_COUNTER.value

   on ONE multiprocessing.Value that the main process and all forked workers
   share: an allocation by any process is an atomic "increment, return the new
   value" on the same cell.  A history is the list of the processes that
   allocate, in the order in which they hold the lock.

   [run_shared] is that allocator.  [run_local] is the alternative in which
   every process continues counting on its own copy of the counter as it was at
   the fork (what a plain module-level counter gives): kept here only to show
   what the shared cell is needed for.  No proofs here. *)
From Coq Require Export ZArith List.
Export ListNotations.
Local Open Scope Z_scope.

Definition proc := nat.

(* the identities handed out, with the process that got each, and the final counter *)
Fixpoint run_shared (c : Z) (evs : list proc) : list (proc * Z) * Z :=
  match evs with
  | [] => ([], c)
  | p :: r => let '(l, c') := run_shared (c + 1) r in ((p, c + 1) :: l, c')
  end.

Definition issued (c : Z) (evs : list proc) : list Z := map snd (fst (run_shared c evs)).
Definition final (c : Z) (evs : list proc) : Z := snd (run_shared c evs).

(* per-process copies of the counter, all equal to c at the fork *)
Fixpoint run_local (cs : proc -> Z) (evs : list proc) : list (proc * Z) :=
  match evs with
  | [] => []
  | p :: r => (p, cs p + 1) :: run_local (fun q => if Nat.eqb q p then cs p + 1 else cs q) r
  end.

Definition issued_local (c : Z) (evs : list proc) : list Z := map snd (run_local (fun _ => c) evs).
