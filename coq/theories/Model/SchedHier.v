(* The hierarchical strategy (strategy_hierarchical.reduce with Producer and
   Consumer) as a labelled transition system over an abstract input type.
   Every interleaving of producer (the pool's task feeder), workers and the
   consumption of results in the main loop is a path.  [exec] is executable:
   it is both the definition of the step relation and the monitor that replays
   observed histories.  No proofs here. *)
From Coq Require Export List Arith Bool Lia.
Export ListNotations.

Section Hier.
  Variable input : Type.
  (* candidates of a sweep in generation order: (BFS node number >= 1, candidate
     = apply_simp base simp); order = BFS x mutator x proposal *)
  Variable cands : nat -> input -> list (nat * input).
  Variable accept : input -> bool.     (* ddSMT's verdict; an exception counts as false *)
  Variable redup : input -> input.
  Variable npasses : nat.

  Record task := mk_task { t_nid : nat; t_base : input; t_cand : input }.
  Inductive outcome := OAborted | OFail | OSucc.

  Record hst := mk_hst {
    cur : input;              (* exprs *)
    pass : nat;               (* passid *)
    skip : nat;
    fresh : bool;             (* fresh_run *)
    reduction : bool;
    abort : bool;             (* abort_flag *)
    base0 : input;            (* the input this sweep's Producer was built with *)
    skip0 : nat;              (* the skip value generate() was called with *)
    ppos : nat;               (* producer position in cands pass base0 *)
    pstopped : bool;
    pending : list task;                 (* generated, verdict not yet produced *)
    results : list (task * outcome);     (* produced, not yet consumed *)
    rejected : list task;                (* ghost: consumed as failure in this sweep *)
    writes : list input;                 (* ghost: contents written to the output file, newest first *)
    checked : list (input * bool);       (* ghost: (candidate, verdict) of every completed test *)
    finished : bool }.

  Definition init (i : input) : hst :=
    mk_hst i 0 0 true false false i 0 0 false [] [] [] [] [] false.

  Inductive action :=
  | AGen                          (* the producer looks at its next candidate: emits it iff skip0 < nid *)
  | APStop                        (* the generator ends: exhausted, or abort was observed *)
  | AWork (i : nat) (ab : bool)   (* a worker finishes the i-th pending task; ab: it saw the abort flag *)
  | AConsume (i : nat)            (* the main loop receives the i-th outstanding result *)
  | AEndSweep.                    (* imap_unordered is exhausted *)

  Fixpoint remove_nth {A} (n : nat) (l : list A) : list A :=
    match n, l with
    | _, [] => []
    | O, _ :: r => r
    | S k, x :: r => x :: remove_nth k r
    end.

  Definition new_sweep (s : hst) (p sk : nat) (fr : bool) : hst :=
    mk_hst (cur s) p sk fr false false (cur s) sk 0 false [] [] [] (writes s) (checked s) false.

  Definition exec (s : hst) (a : action) : option hst :=
    if finished s then None else
    match a with
    | AGen =>
        if pstopped s then None else
        match nth_error (cands (pass s) (base0 s)) (ppos s) with
        | None => None
        | Some (n, c) =>
            let pend := if Nat.ltb (skip0 s) n then pending s ++ [mk_task n (base0 s) c] else pending s in
            Some (mk_hst (cur s) (pass s) (skip s) (fresh s) (reduction s) (abort s) (base0 s) (skip0 s)
                         (S (ppos s)) false pend (results s) (rejected s) (writes s) (checked s) false)
        end
    | APStop =>
        if pstopped s then None
        else if abort s || Nat.eqb (ppos s) (length (cands (pass s) (base0 s))) then
          Some (mk_hst (cur s) (pass s) (skip s) (fresh s) (reduction s) (abort s) (base0 s) (skip0 s)
                       (ppos s) true (pending s) (results s) (rejected s) (writes s) (checked s) false)
        else None
    | AWork i ab =>
        match nth_error (pending s) i with
        | None => None
        | Some t =>
            if ab && negb (abort s) then None else
            let o := if ab then OAborted else if accept (t_cand t) then OSucc else OFail in
            let chk := if ab then checked s else (t_cand t, accept (t_cand t)) :: checked s in
            Some (mk_hst (cur s) (pass s) (skip s) (fresh s) (reduction s) (abort s) (base0 s) (skip0 s)
                         (ppos s) (pstopped s) (remove_nth i (pending s)) (results s ++ [(t, o)])
                         (rejected s) (writes s) chk false)
        end
    | AConsume i =>
        match nth_error (results s) i with
        | None => None
        | Some (t, o) =>
            let res := remove_nth i (results s) in
            if abort s then
              Some (mk_hst (cur s) (pass s) (Nat.min (skip s) (t_nid t - 1)) (fresh s) (reduction s) true
                           (base0 s) (skip0 s) (ppos s) (pstopped s) (pending s) res
                           (rejected s) (writes s) (checked s) false)
            else match o with
                 | OSucc =>
                     let c := redup (t_cand t) in
                     Some (mk_hst c (pass s) (t_nid t - 1) false true true
                                  (base0 s) (skip0 s) (ppos s) (pstopped s) (pending s) res
                                  (rejected s) (c :: writes s) (checked s) false)
                 | _ =>
                     Some (mk_hst (cur s) (pass s) (skip s) (fresh s) (reduction s) false
                                  (base0 s) (skip0 s) (ppos s) (pstopped s) (pending s) res
                                  (t :: rejected s) (writes s) (checked s) false)
                 end
        end
    | AEndSweep =>
        if pstopped s then
          match pending s, results s with
          | [], [] =>
              if reduction s then Some (new_sweep s (pass s) (skip s) (fresh s))
              else if fresh s then
                if Nat.ltb (S (pass s)) npasses then Some (new_sweep s (S (pass s)) 0 true)
                else Some (mk_hst (cur s) (pass s) (skip s) (fresh s) (reduction s) (abort s) (base0 s) (skip0 s)
                                  (ppos s) (pstopped s) [] [] (rejected s) (writes s) (checked s) true)
              else Some (new_sweep s (pass s) 0 true)
          | _, _ => None
          end
        else None
    end.

  Definition hstep (s s' : hst) : Prop := exists a, exec s a = Some s'.

  Inductive reachable (i : input) : hst -> Prop :=
  | R0 : reachable i (init i)
  | RS : forall s s', reachable i s -> hstep s s' -> reachable i s'.

  (* replay of an action sequence (the monitor) *)
  Fixpoint replay (s : hst) (l : list action) : option hst :=
    match l with
    | [] => Some s
    | a :: r => match exec s a with Some s' => replay s' r | None => None end
    end.

  (* one job: the pool has a single worker, tasks are processed and results are
     delivered in generation order *)
  Definition fifo (a : action) : bool :=
    match a with AWork i _ => Nat.eqb i 0 | AConsume i => Nat.eqb i 0 | _ => true end.
  Definition hstep1 (s s' : hst) : Prop := exists a, fifo a = true /\ exec s a = Some s'.
  Inductive reachable1 (i : input) : hst -> Prop :=
  | R10 : reachable1 i (init i)
  | R1S : forall s s', reachable1 i s -> hstep1 s s' -> reachable1 i s'.
End Hier.
