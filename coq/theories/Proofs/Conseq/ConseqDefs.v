(* Predicates used in the statements of Props/C16Conseq.v. *)
From DD Require Import Model.Defaults Spec.Typing Proofs.Sort.Decls.
Local Open Scope list_scope.

(* the sort type_of answers for a term of the declared sort s: the four short names of floating-point sorts are
   abbreviations that Spec/Typing.v does not expand (a variable declared Float16 has the sort Float16, a literal
   (fp ..) of the same format has the sort (_ FloatingPoint 5 11)); every other sort is itself *)
Definition canon_sort (s : sexp) : sexp :=
  match s with
  | L x => match fp_leaf_widths x with Some (e, m) => sFP (Z.to_N e) (Z.to_N m + 1) | None => s end
  | T _ => s
  end.

(* well-formed sorts, as far as default constants depend on it: a bit-vector sort has a canonical numeral >= 1 as width,
   a floating-point sort canonical numerals e >= 1 and s >= 2 (SMT-LIB asks for e >= 2; type_of does not need it); set
   sorts are outside Spec/Typing.v.  Every other sort (Bool, Int, Real, String, RoundingMode, Float16..128, arrays,
   declared sorts, datatypes) passes. *)
Definition wf_sort (s : sexp) : bool :=
  if is_bv_sort s then
    match Typing.bv_width s with Some n => N.ltb 0 n && sexp_eqb s (sBV n) | None => false end
  else if is_fp_sort_list s then
    match fp_widths s with Some (e, m) => N.ltb 0 e && N.ltb 1 m && sexp_eqb s (sFP e m) | None => false end
  else negb (is_set_sort s).

(* the recorded nullary constructors are constants of their datatype *)
Definition dtc_typed (dtc : list (sexp * list sexp)) (g : env) : Prop :=
  forall d l c, dt_lookup d dtc = Some l -> In c l -> type_of g c = Some d.

(* every symbol is declared once: the commands carry no comments between their children (Spec/Typing.v decl_env reads
   the commands as they are, collect_information without their top-level comments), no name is declared by two of the
   commands declare-const / declare-fun / define-fun, and no let / forall / exists binds the name of a constant again *)
Fixpoint nodupb (l : list str) : bool :=
  match l with [] => true | x :: r => negb (mem_str_l x r) && nodupb r end.
Definition no_comments (script : list sexp) : bool := forallb (fun c => sexp_eqb (strip_comments c) c) script.
Definition declared_once (script : list sexp) : bool :=
  no_comments script
  && nodupb (map entry_name (sort_entries script))
  && forallb (fun v => negb (mem_str_l v (flat_map binder_names (flat_map subterms script)))) (const_names script).

(* datatypes as Spec/Typing.v decl_env knows them: a command that records constructors is (declare-datatype D (..))
   with a leaf D and constructors (c ..) with leaf names (no declare-datatypes: decl_env has none; no comments);
   every constructor is declared once, is no literal and is not also a constant *)
Definition cmd_dt_ok (c : sexp) : bool :=
  match dt_pairs c with
  | [] => true
  | _ => match c with T [L h; L _; T cs] => iss h "declare-datatype" && forallb wf_cons cs | _ => false end
  end.
Definition env_cons_names (g : env) : list str := flat_map (fun dt => map fst (snd dt)) (e_dts g).
Definition dt_decls_ok (script : list sexp) : bool :=
  no_comments script && forallb cmd_dt_ok script
  && nodupb (env_cons_names (decl_env script))
  && forallb (fun cn => leaf_free cn && is_none (assoc cn (e_vars (decl_env script)))) (env_cons_names (decl_env script)).
