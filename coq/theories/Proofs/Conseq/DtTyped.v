(* The nullary constructors that collect_information records for a datatype are constants of that datatype in the
   environment of the script. *)
From DD Require Import Model.Defaults Spec.Typing.
From DD Require Import Proofs.Sort.DecRT Proofs.Sort.SortBase Proofs.Sort.TypeApp Proofs.Sort.SortHyps Proofs.Sort.TableChecks
  Proofs.Sort.Decls Proofs.Conseq.ConseqDefs Proofs.Conseq.VarsTyped.
Local Open Scope list_scope.

(* ---------- the table of the model ---------- *)

Lemma dtc_add_inv : forall tbl so c d l x,
  dt_lookup d (dtc_add tbl so c) = Some l -> In x l ->
  (exists l', dt_lookup d tbl = Some l' /\ In x l') \/ (x = c /\ d = so).
Proof.
  induction tbl as [| [k l0] r IH]; intros so c d l x Hl Hx.
  - cbn [dtc_add dt_lookup] in Hl. destruct (sexp_eqb so d) eqn:E; [|discriminate].
    injection Hl as <-. destruct Hx as [<- | []]. right. split; [reflexivity|]. symmetry. now apply sexp_eqb_true.
  - cbn [dtc_add] in Hl. destruct (sexp_eqb k so) eqn:Eks.
    + cbn [dt_lookup] in Hl |- *. destruct (sexp_eqb k d) eqn:Ekd.
      * injection Hl as <-. apply in_app_or in Hx as [Hx | [<- | []]].
        -- left. now exists l0.
        -- right. split; [reflexivity|]. apply sexp_eqb_true in Eks, Ekd. congruence.
      * left. now exists l.
    + cbn [dt_lookup] in Hl |- *. destruct (sexp_eqb k d) eqn:Ekd.
      * left. now exists l.
      * eapply IH; eauto.
Qed.

Definition dtc_step (tbl : list (sexp * list sexp)) (e : sexp * sexp * bool) : list (sexp * list sexp) :=
  match e with (k, so, true) => dtc_add tbl so k | _ => tbl end.

Lemma dtc_fold_inv : forall es tbl d l x,
  dt_lookup d (fold_left dtc_step es tbl) = Some l -> In x l ->
  (exists l', dt_lookup d tbl = Some l' /\ In x l') \/ In (x, d, true) es.
Proof.
  induction es as [| e es IH]; intros tbl d l x Hl Hx.
  - left. now exists l.
  - cbn [fold_left] in Hl. destruct (IH _ _ _ _ Hl Hx) as [(l' & Hl' & Hx') | Hin]; [| right; now right].
    destruct e as [[k so] [|]]; cbn [dtc_step] in Hl'.
    + destruct (dtc_add_inv _ _ _ _ _ _ Hl' Hx') as [H | [-> ->]]; [now left | right; now left].
    + left. now exists l'.
Qed.

Lemma dt_constants_entries script d l x :
  dt_lookup d (dt_constants script) = Some l -> In x l -> In (x, d, true) (dt_entries script).
Proof.
  intros Hl Hx. unfold dt_constants in Hl.
  change (fun tbl e => match e with (k, so, true) => dtc_add tbl so k | _ => tbl end) with dtc_step in Hl.
  destruct (dtc_fold_inv _ _ _ _ _ Hl Hx) as [(l' & H & _) | H]; [discriminate | exact H].
Qed.

(* ---------- the datatypes of decl_env ---------- *)

Definition dts_of_cmd (c : sexp) : list dtype :=
  match c with
  | T [L k; L x; T cs] => if iss k "declare-datatype" then [(x, map conv_cons cs)] else []
  | _ => []
  end.

Lemma decl_step_dts g c : e_dts (decl_step g c) = dts_of_cmd c ++ e_dts g.
Proof.
  destruct c as [s | [| [k | kl] [| [x | xl] [| [y | a] [| a3 [| a4 [| a5 r]]]]]]]; try reflexivity;
    unfold decl_step, dts_of_cmd; cbv iota beta; rewrite ?is_iss; split_k k; try reflexivity;
    try (destruct a; reflexivity); try (destruct a3; reflexivity).
  all: rewrite is_iss;
    first [ match goal with H : iss ?k "declare-datatype" = _ |- _ => rewrite H; reflexivity end
          | match goal with H : iss ?k _ = true |- _ => rewrite (iss_excl k _ "declare-datatype" H) by reflexivity; reflexivity end ].
Qed.

Lemma decl_env_dts_in p c : forall cmds g,
  In c cmds -> In p (dts_of_cmd c) -> In p (e_dts (fold_left decl_step cmds g)).
Proof.
  assert (Hmono : forall cmds g, In p (e_dts g) -> In p (e_dts (fold_left decl_step cmds g))).
  { induction cmds as [| c' cmds IH]; intros g H; [exact H|].
    cbn [fold_left]. apply IH. rewrite decl_step_dts. apply in_or_app. now right. }
  induction cmds as [| c' cmds IH]; intros g Hc Hp; [destruct Hc|].
  cbn [fold_left]. destruct Hc as [-> | Hc].
  - apply Hmono. rewrite decl_step_dts. apply in_or_app. now left.
  - now apply IH.
Qed.

(* ---------- constructors declared once ---------- *)

Lemma NoDup_app_disjoint {A} (a b : list A) x : NoDup (a ++ b) -> In x a -> In x b -> False.
Proof.
  induction a as [| y a IH]; intros Hnd Ha Hb; [destruct Ha|].
  cbn [app] in Hnd. inversion Hnd as [| ? ? Hy Hr]; subst.
  destruct Ha as [-> | Ha].
  - apply Hy. apply in_or_app. now right.
  - now apply IH.
Qed.

Lemma NoDup_app_l {A} (a b : list A) : NoDup (a ++ b) -> NoDup a.
Proof.
  induction a as [| y a IH]; intro H; [constructor|].
  cbn [app] in H. inversion H as [| ? ? Hy Hr]; subst. constructor; [|now apply IH].
  intro Hin. apply Hy. apply in_or_app. now left.
Qed.

Lemma NoDup_app_r {A} (a b : list A) : NoDup (a ++ b) -> NoDup b.
Proof. induction a as [| y a IH]; intro H; [exact H|]. cbn [app] in H. inversion H; subst. now apply IH. Qed.

Lemma find_cons_unique : forall (dts : list dtype) x cs cn sels,
  NoDup (flat_map (fun dt : dtype => map fst (snd dt)) dts) -> In (x, cs) dts -> In (cn, sels) cs ->
  find_cons dts cn = Some (L x, sels).
Proof.
  induction dts as [| [y cs0] dts IH]; intros x cs cn sels Hnd Hin Hc; [destruct Hin|].
  cbn [flat_map snd] in Hnd. cbn [find_cons].
  destruct Hin as [E | Hin].
  - injection E as -> ->. rewrite assoc_alookup.
    rewrite (alookup_NoDup cs cn sels); [reflexivity | now apply NoDup_app_l in Hnd | exact Hc].
  - destruct (assoc cn cs0) as [sels0|] eqn:Ea.
    + exfalso. apply (NoDup_app_disjoint _ _ cn Hnd).
      * clear - Ea. induction cs0 as [| [z w] cs0 IHc]; [discriminate|].
        cbn [assoc] in Ea. cbn [map fst]. destruct (str_eqb z cn) eqn:E.
        -- left. now apply str_eqb_eq.
        -- right. now apply IHc.
      * apply in_flat_map. exists (x, cs). split; [exact Hin|]. cbn [snd]. apply in_map_iff. now exists (cn, sels).
    + apply (IH x cs); [now apply NoDup_app_r in Hnd | exact Hin | exact Hc].
Qed.

Lemma type_of_leaf_free' g cn :
  leaf_free cn = true ->
  type_of g (L cn) = match assoc cn (e_vars g) with
                     | Some so => Some so
                     | None => match find_cons (e_dts g) cn with Some (d, []) => Some d | _ => None end
                     end.
Proof.
  intro H. apply is_none_true in H. cbn [type_of] in *. cbn [empty_env e_vars assoc e_dts find_cons] in H.
  destruct (leaf_const_sort cn); [discriminate|].
  destruct (is_decimal cn); [discriminate|].
  destruct (mem_s cn ["RNE"; "RNA"; "RTP"; "RTN"; "RTZ"]); [discriminate|]. reflexivity.
Qed.

(* ---------- the entry of a recorded constant ---------- *)

Lemma no_comments_dt_entries script :
  no_comments script = true -> dt_entries script = flat_map dt_entries_cmd script.
Proof.
  unfold no_comments, dt_entries. induction script as [| c r IH]; intro H; [reflexivity|].
  cbn [forallb] in H. apply andb_true_iff in H as [Hc Hr]. apply sexp_eqb_true in Hc.
  cbn [flat_map]. now rewrite Hc, IH.
Qed.

Lemma entry_shape c k d :
  cmd_dt_ok c = true -> In (k, d, true) (dt_entries_cmd c) ->
  exists x cs cn, d = L x /\ k = L cn /\ In (x, map conv_cons cs) (dts_of_cmd c) /\ In (cn, []) (map conv_cons cs).
Proof.
  intros Hok Hin. unfold cmd_dt_ok in Hok. unfold dt_entries_cmd in Hin.
  destruct (dt_pairs c) as [| p ps] eqn:Ep; [destruct Hin|].
  destruct c as [s | [| [h | hl] [| [x | xl] [| [y | cs] [| a3 r]]]]]; try discriminate.
  apply andb_true_iff in Hok as [Hh Hwf].
  unfold dt_pairs in Ep. rewrite Hh in Ep. injection Ep as <- <-.
  cbn [flat_map fst snd kids] in Hin. rewrite app_nil_r in Hin.
  apply in_flat_map in Hin as (con & Hcon & Hin).
  rewrite forallb_forall in Hwf. specialize (Hwf con Hcon).
  destruct con as [| [| [cn |] rest]]; try discriminate.
  destruct Hin as [E | []]. injection E as <- <- Hn.
  destruct rest; [|discriminate].
  exists x, cs, cn. split; [reflexivity|]. split; [reflexivity|]. split.
  - unfold dts_of_cmd. rewrite Hh. now left.
  - apply in_map_iff. exists (T [L cn]). split; [reflexivity | exact Hcon].
Qed.

Theorem dt_constants_typed_proof : forall script,
  dt_decls_ok script = true -> dtc_typed (dt_constants script) (decl_env script).
Proof.
  intros script Hok d l c Hl Hc. unfold dt_decls_ok in Hok.
  apply andb_true_iff in Hok as [Hok Hfree]. apply andb_true_iff in Hok as [Hok Hnd].
  apply andb_true_iff in Hok as [Hnc Hcmd]. apply nodupb_NoDup in Hnd.
  pose proof (dt_constants_entries script d l c Hl Hc) as He.
  rewrite (no_comments_dt_entries _ Hnc) in He.
  apply in_flat_map in He as (cmd & Hcmd_in & He).
  rewrite forallb_forall in Hcmd. specialize (Hcmd cmd Hcmd_in).
  destruct (entry_shape cmd c d Hcmd He) as (x & cs & cn & -> & -> & Hdt & Hcn).
  assert (Hin : In (x, map conv_cons cs) (e_dts (decl_env script))).
  { rewrite decl_env_fold. eapply decl_env_dts_in; eauto. }
  assert (Hf : find_cons (e_dts (decl_env script)) cn = Some (L x, [])).
  { eapply find_cons_unique; eauto. }
  assert (Hname : In cn (env_cons_names (decl_env script))).
  { unfold env_cons_names. apply in_flat_map. exists (x, map conv_cons cs). split; [exact Hin|].
    cbn [snd]. apply in_map_iff. now exists (cn, []). }
  rewrite forallb_forall in Hfree. specialize (Hfree cn Hname).
  apply andb_true_iff in Hfree as [Hlf Hv]. apply is_none_true in Hv.
  rewrite (type_of_leaf_free' _ cn Hlf), Hv, Hf. reflexivity.
Qed.
