(* The variables ddSMT offers for a sort are constants of that sort in the environment of the script. *)
From DD Require Import Model.Defaults Spec.Typing.
From DD Require Import Proofs.Sort.DecRT Proofs.Sort.SortBase Proofs.Sort.TypeApp Proofs.Sort.SortHyps Proofs.Sort.TableChecks
  Proofs.Sort.Decls Proofs.Conseq.ConseqDefs.
Local Open Scope list_scope.

(* ---------- association lists without repeated keys ---------- *)

Lemma mem_str_l_false_notin s l : mem_str_l s l = false -> ~ In s l.
Proof.
  intros H Hin. unfold mem_str_l in H.
  assert (E : existsb (str_eqb s) l = true). { apply existsb_exists. exists s. split; [exact Hin | apply str_eqb_refl]. }
  congruence.
Qed.

Lemma nodupb_NoDup l : nodupb l = true -> NoDup l.
Proof.
  induction l as [| x r IH]; intro H; [constructor|].
  cbn [nodupb] in H. apply andb_true_iff in H as [H1 H2]. apply negb_true_iff in H1.
  constructor; [now apply mem_str_l_false_notin | now apply IH].
Qed.

Lemma alookup_NoDup {A} (l : list (str * A)) k v :
  NoDup (map fst l) -> In (k, v) l -> alookup k l = Some v.
Proof.
  induction l as [| [x w] r IH]; intros Hnd Hin; [destruct Hin|].
  cbn [map fst] in Hnd. inversion Hnd as [| ? ? Hx Hr]; subst.
  cbn [alookup]. destruct Hin as [E | Hin].
  - injection E as -> ->. now rewrite str_eqb_refl.
  - destruct (str_eqb x k) eqn:E.
    + apply str_eqb_eq in E. subst x. exfalso. apply Hx. apply in_map_iff. now exists (k, v).
    + now apply IH.
Qed.

Lemma assoc_alookup {A} (l : list (str * A)) k : assoc k l = alookup k l.
Proof. induction l as [| [x w] r IH]; [reflexivity|]. cbn [assoc alookup]. now rewrite IH. Qed.

Lemma NoDup_map_filter {A B} (f : A -> B) (p : A -> bool) l : NoDup (map f l) -> NoDup (map f (filter p l)).
Proof.
  induction l as [| a r IH]; intro H; [constructor|].
  cbn [map] in H. inversion H as [| ? ? Ha Hr]; subst. cbn [filter].
  destruct (p a); [|now apply IH]. cbn [map]. constructor; [|now apply IH].
  intro Hin. apply Ha. apply in_map_iff in Hin as (b & Hb & Hin). apply filter_In in Hin as [Hin _].
  apply in_map_iff. now exists b.
Qed.

(* ---------- the term loop leaves the other names alone ---------- *)

Lemma alookup_skip {A} (x k : str) (w : A) l : x <> k -> alookup k ((x, w) :: l) = alookup k l.
Proof. intro H. cbn [alookup]. now rewrite str_eqb_false. Qed.

Lemma fold_bindings_other {A} (f : list (str * A) -> sexp -> A) (two : bool) v : forall vars lk,
  ~ In v (flat_map bound_name vars) ->
  alookup v (fold_left (fun lk b => match b with T [L x; t] => (x, f lk t) :: lk | _ => lk end) vars lk) = alookup v lk.
Proof.
  induction vars as [| b vars IH]; intros lk Hn; [reflexivity|].
  cbn [fold_left]. cbn [flat_map] in Hn. rewrite IH by (intro H; apply Hn; apply in_or_app; now right).
  destruct b as [| [| [x |] [| t [|]]]]; try reflexivity.
  apply alookup_skip. intros ->. apply Hn. apply in_or_app. left. now left.
Qed.

Lemma binder_step_other ct v n lk :
  ~ In v (binder_names n) -> alookup v (binder_step ct lk n) = alookup v lk.
Proof.
  intro Hn. unfold binder_step, binder_names in *.
  destruct n as [| [| [h |] [| [| vars] rest]]]; try reflexivity.
  destruct (iss h "let") eqn:El.
  - cbn [orb] in Hn.
    exact (fold_bindings_other (fun lk t => get_sort (mk_info lk ct) false t) true v vars lk Hn).
  - cbn [orb] in Hn. rewrite orb_comm in Hn.
    destruct (iss h "forall" || iss h "exists"); [|reflexivity].
    exact (fold_bindings_other (fun _ so => Some so) true v vars lk Hn).
Qed.

Lemma term_loop_other ct v : forall ns lk,
  ~ In v (flat_map binder_names ns) -> alookup v (fold_left (binder_step ct) ns lk) = alookup v lk.
Proof.
  induction ns as [| n ns IH]; intros lk Hn; [reflexivity|].
  cbn [fold_left]. cbn [flat_map] in Hn.
  rewrite IH by (intro H; apply Hn; apply in_or_app; now right).
  apply binder_step_other. intro H. apply Hn. apply in_or_app. now left.
Qed.

(* ---------- decl_env and the command loop record the same constants ---------- *)

Definition const_pairs (cmds : list sexp) : list (str * sexp) :=
  map (fun e => (entry_name e, entry_sort e)) (filter entry_const (flat_map sort_entry_cmd cmds)).

Lemma iss_excl k a b : iss k a = true -> str_eqb (lit a) (lit b) = false -> iss k b = false.
Proof. intros H E. apply iss_true in H. subst k. exact E. Qed.

Ltac split_k k :=
  let E1 := fresh "E" in let E2 := fresh "E" in let E3 := fresh "E" in let E4 := fresh "E" in
  destruct (iss k "declare-const") eqn:E1;
  [ rewrite ?(iss_excl k _ "declare-fun" E1), ?(iss_excl k _ "define-fun" E1), ?(iss_excl k _ "declare-datatype" E1) by reflexivity
  | destruct (iss k "declare-fun") eqn:E2;
    [ rewrite ?(iss_excl k _ "define-fun" E2), ?(iss_excl k _ "declare-datatype" E2) by reflexivity
    | destruct (iss k "define-fun") eqn:E3;
      [ rewrite ?(iss_excl k _ "declare-datatype" E3) by reflexivity
      | destruct (iss k "declare-datatype") eqn:E4 ] ] ].

Lemma decl_step_vars g c :
  e_vars (decl_step g c) = rev (const_pairs [c]) ++ e_vars g.
Proof.
  unfold const_pairs. cbn [flat_map]. rewrite app_nil_r.
  destruct c as [s | [| [k | kl] [| [x | xl] [| [y | a] [| a3 [| a4 [| a5 r]]]]]]]; try reflexivity;
    unfold decl_step, sort_entry_cmd; cbv iota beta; rewrite ?is_iss; split_k k; try reflexivity;
    try (destruct a; reflexivity); try (destruct a3; reflexivity).
  all: destruct (is k "declare-datatype"); reflexivity.
Qed.

Lemma const_pairs_app a b : const_pairs (a ++ b) = const_pairs a ++ const_pairs b.
Proof. unfold const_pairs. now rewrite flat_map_app, filter_app, map_app. Qed.

Lemma decl_env_vars : forall cmds g,
  e_vars (fold_left decl_step cmds g) = rev (const_pairs cmds) ++ e_vars g.
Proof.
  induction cmds as [| c cmds IH]; intro g; [reflexivity|].
  cbn [fold_left]. rewrite IH, decl_step_vars.
  change (c :: cmds) with ([c] ++ cmds). rewrite const_pairs_app, rev_app_distr, app_assoc. reflexivity.
Qed.

Lemma no_comments_entries script :
  no_comments script = true -> sort_entries script = flat_map sort_entry_cmd script.
Proof.
  unfold no_comments, sort_entries. induction script as [| c r IH]; intro H; [reflexivity|].
  cbn [forallb] in H. apply andb_true_iff in H as [Hc Hr]. apply sexp_eqb_true in Hc.
  cbn [flat_map]. now rewrite Hc, IH.
Qed.

(* ---------- the theorem ---------- *)

Lemma variables_with_sort_assoc : forall script s v,
  declared_once script = true -> In v (variables_with_sort script s) ->
  assoc v (e_vars (decl_env script)) = Some s /\ In v (const_names script).
Proof.
  intros script s v Hd Hin. unfold declared_once in Hd.
  apply andb_true_iff in Hd as [Hd Hb]. apply andb_true_iff in Hd as [Hnc Hnd].
  apply nodupb_NoDup in Hnd.
  unfold variables_with_sort in Hin. apply filter_In in Hin as [_ Hin].
  apply andb_true_iff in Hin as [Hs Hc]. apply mem_str_l_true in Hc.
  split; [|exact Hc].
  (* v is not bound again *)
  assert (Hnb : ~ In v (flat_map binder_names (flat_map subterms script))).
  { rewrite forallb_forall in Hb. specialize (Hb v Hc). apply negb_true_iff in Hb. now apply mem_str_l_false_notin. }
  (* its entry *)
  unfold const_names in Hc. apply in_map_iff in Hc as ([[x so] b] & Hx & He).
  apply filter_In in He as [He Hbt]. cbn in Hx, Hbt. subst x b.
  (* the table *)
  unfold has_sort, final_lookup in Hs. rewrite term_loop_other in Hs by exact Hnb.
  assert (Hl : alookup v (lookup_cmds script) = Some (Some so)).
  { apply alookup_NoDup.
    - unfold lookup_cmds. rewrite <- map_rev, map_map. cbn [fst]. rewrite map_rev. now apply NoDup_rev.
    - unfold lookup_cmds. apply in_rev. rewrite rev_involutive. apply in_map_iff. now exists (v, so, true). }
  rewrite Hl in Hs. apply sexp_eqb_true in Hs. subst so.
  (* the environment *)
  rewrite decl_env_fold, decl_env_vars. cbn [e_vars]. rewrite app_nil_r.
  rewrite (no_comments_entries _ Hnc) in He, Hnd.
  rewrite assoc_alookup.
  rewrite (alookup_NoDup (rev (const_pairs script)) v s); [reflexivity | |].
  - unfold const_pairs. rewrite <- map_rev, map_map. cbn [fst]. rewrite map_rev. apply NoDup_rev.
    now apply NoDup_map_filter.
  - apply in_rev. rewrite rev_involutive. unfold const_pairs. apply in_map_iff. exists (v, s, true). split; [reflexivity|].
    apply filter_In. now split.
Qed.

Theorem variables_with_sort_typed_proof : forall script s v,
  declared_once script = true -> In v (variables_with_sort script s) ->
  type_of (decl_env script) (L v) = Some s.
Proof.
  intros script s v Hd Hin. destruct (variables_with_sort_assoc script s v Hd Hin) as [H _].
  cbn [type_of]. now rewrite H.
Qed.
