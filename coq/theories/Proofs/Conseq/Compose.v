(* The consequence of C16: the replacements that Constants, ReplaceByVariable and IntroduceFreshVariable propose,
   with the sort inferred by the sort oracle and the default constants / variables of that sort, have the sort of
   the term they replace. *)
From DD Require Import Model.Defaults Model.OracleRw Model.GlobalRw Spec.Typing.
From DD Require Import Proofs.Sort.DecRT Proofs.Sort.SortBase Proofs.Sort.TypeApp Proofs.Sort.SortHyps Proofs.Sort.TableChecks
  Proofs.Sort.Width Proofs.Sort.SortSound Proofs.Sort.Decls Proofs.Rw.LetSort
  Proofs.Conseq.ConseqDefs Proofs.Conseq.DefaultsTyped Proofs.Conseq.VarsTyped.
Local Open Scope list_scope.

(* get_default_constants(get_sort(node)), evaluated only when the sort is known *)
Definition dc_of (dtc : list (sexp * list sexp)) (o : option sexp) : option (list sexp) :=
  match o with Some so => default_constants dtc so | None => None end.
Definition vars_of (script : list sexp) (o : option sexp) : list str :=
  match o with Some so => variables_with_sort script so | None => [] end.

Theorem constants_replacement_proof : forall I g dtc e idx isdef s props r,
  lookup_agrees I g -> consts_unbound g -> ops_unbound g -> sorts_canon I -> cons_agree I g ->
  dtc_typed dtc g ->
  type_of g e = Some s -> wf_sort s = true ->
  rw_constants isdef (get_sort I idx e) (dc_of dtc (get_sort I idx e)) e = Some props ->
  In r props -> type_of g r = Some (canon_sort s).
Proof.
  intros I g dtc e idx isdef s props r H1 H2 H3 H4 H5 Hdt Ht Hwf Hrw Hin.
  unfold rw_constants in Hrw.
  destruct isdef. { injection Hrw as <-. destruct Hin. }
  destruct (get_sort I idx e) as [so|] eqn:Es; [| injection Hrw as <-; destruct Hin].
  assert (so = s) by (eapply get_sort_sound_proof; eauto). subst so.
  cbn [dc_of] in Hrw.
  destruct (default_constants dtc s) as [res|] eqn:Ed; [|discriminate].
  destruct (existsb (sexp_eqb e) res). { injection Hrw as <-. destruct Hin. }
  injection Hrw as <-. eapply default_constants_typed_proof; eauto.
Qed.

Theorem replace_by_variable_proof : forall script I bs e idx inc isdef vars s props r,
  lookup_agrees I (bind_vars (decl_env script) bs) -> consts_unbound (bind_vars (decl_env script) bs) ->
  ops_unbound (bind_vars (decl_env script) bs) -> sorts_canon I -> cons_agree I (bind_vars (decl_env script) bs) ->
  declared_once script = true ->
  (forall v, In v (const_names script) -> assoc v bs = None) ->
  incl vars (vars_of script (get_sort I idx e)) ->
  type_of (bind_vars (decl_env script) bs) e = Some s ->
  rw_replace_by_var inc isdef (get_sort I idx e) vars e = Some props ->
  In r props -> type_of (bind_vars (decl_env script) bs) r = Some s.
Proof.
  intros script I bs e idx inc isdef vars s props r H1 H2 H3 H4 H5 Hd Hbs Hincl Ht Hrw Hin.
  unfold rw_replace_by_var in Hrw.
  destruct (OracleRw.is_const e) as [[|]|]; [injection Hrw as <-; destruct Hin | | discriminate].
  destruct isdef. { injection Hrw as <-. destruct Hin. }
  destruct (get_sort I idx e) as [so|] eqn:Es; [| injection Hrw as <-; destruct Hin].
  assert (so = s) by (eapply get_sort_sound_proof; eauto). subst so.
  injection Hrw as <-. apply in_map_iff in Hin as (v & <- & Hv).
  assert (Hv' : In v vars). { destruct e; [now apply filter_In in Hv as [Hv _] | exact Hv]. }
  apply Hincl in Hv'. cbn [vars_of] in Hv'.
  destruct (variables_with_sort_assoc script s v Hd Hv') as [Ha Hc].
  cbn [type_of]. unfold bind_vars. cbn [e_vars]. rewrite assoc_app, (Hbs v Hc), Ha. reflexivity.
Qed.

(* ---------- IntroduceFreshVariable ---------- *)

Lemma fresh_filter_sort gs vars isdef e so : fresh_filter gs vars isdef e = Some (Some so) -> gs e = Some so.
Proof.
  unfold fresh_filter. destruct e as [x | l]; [discriminate|].
  destruct (_ || isdef); [discriminate|].
  destruct (gs (T l)) as [s0|]; [|discriminate].
  destruct (is_bv_sort s0).
  - destruct (bv_var_scan _ _ _ _) as [[|]|]; intro H; try discriminate. now injection H as <-.
  - intro H. now injection H as <-.
Qed.

Lemma const_pairs_decl v s : const_pairs [mk_decl v s] = [(v, s)].
Proof. reflexivity. Qed.

Lemma fresh_decl_typed pre post bs v s :
  assoc v bs = None -> assoc v (rev (const_pairs post)) = None ->
  type_of (bind_vars (decl_env (pre ++ mk_decl v s :: post)) bs) (L v) = Some s.
Proof.
  intros Hb Hp. cbn [type_of]. unfold bind_vars. cbn [e_vars]. rewrite assoc_app, Hb.
  rewrite decl_env_fold, decl_env_vars. cbn [e_vars]. rewrite app_nil_r.
  change (mk_decl v s :: post) with ([mk_decl v s] ++ post).
  rewrite !const_pairs_app, !rev_app_distr, const_pairs_decl. cbn [rev app].
  rewrite !assoc_app, Hp. cbn [assoc]. now rewrite str_eqb_refl.
Qed.

Theorem fresh_variable_proof : forall I g idx vars isdef declared id here e s sims sim,
  lookup_agrees I g -> consts_unbound g -> ops_unbound g -> sorts_canon I -> cons_agree I g ->
  type_of g e = Some s ->
  rw_fresh_var (get_sort I idx) vars isdef declared id here e = Some sims -> In sim sims ->
  sim = GS [(here, Some (L (fresh_name id)))] [] [mk_decl (fresh_name id) s] /\
  declared (fresh_name id) = false /\
  forall pre post bs,
    assoc (fresh_name id) bs = None -> assoc (fresh_name id) (rev (const_pairs post)) = None ->
    type_of (bind_vars (decl_env (pre ++ mk_decl (fresh_name id) s :: post)) bs) (L (fresh_name id)) = Some s.
Proof.
  intros I g idx vars isdef declared id here e s sims sim H1 H2 H3 H4 H5 Ht Hrw Hin.
  unfold rw_fresh_var in Hrw.
  destruct (fresh_filter (get_sort I idx) vars isdef e) as [[so|]|] eqn:Ef; [| injection Hrw as <-; destruct Hin | discriminate].
  apply fresh_filter_sort in Ef.
  assert (so = s) by (eapply get_sort_sound_proof; eauto). subst so.
  destruct (declared (fresh_name id)) eqn:Ed. { injection Hrw as <-. destruct Hin. }
  injection Hrw as <-. destruct Hin as [<- | []].
  split; [reflexivity|]. split; [reflexivity|].
  intros pre post bs Hb Hp. now apply fresh_decl_typed.
Qed.
