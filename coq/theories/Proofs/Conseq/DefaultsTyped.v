(* The default constants of a well-formed sort are well-sorted terms of that sort. *)
From DD Require Import Model.Defaults Spec.Typing.
From DD Require Import Proofs.Sort.DecRT Proofs.Sort.SortBase Proofs.Sort.TypeApp Proofs.Sort.SortHyps Proofs.Conseq.ConseqDefs.
Local Open Scope list_scope.

(* ---------- typing of the literals ---------- *)

Lemma type_of_bvlit g digs w n :
  all_digits digs = true -> dec_of w = Some n -> (0 < n)%N -> (dec_val digs < 2 ^ n)%N ->
  type_of g (T [L (lit "_"); L (c_b :: c_v :: digs); L w]) = Some (sBV n).
Proof.
  intros Hd Hw Hn Hv. cbn [type_of].
  change (is (lit "_") "_") with true. cbv iota.
  rewrite !N.eqb_refl, Hd. cbn [andb]. rewrite Hw.
  apply N.ltb_lt in Hn, Hv. rewrite Hn, Hv. reflexivity.
Qed.

Lemma z_to_dec_of_N n : z_to_dec (Z.of_N n) = to_dec n.
Proof.
  unfold z_to_dec. destruct (Z.ltb (Z.of_N n) 0) eqn:E.
  - apply Z.ltb_lt in E. lia.
  - now rewrite N2Z.id.
Qed.

Lemma type_of_bvc g v n :
  all_digits v = true -> (0 < n)%N -> (dec_val v < 2 ^ n)%N ->
  type_of g (bvc v (Z.of_N n)) = Some (sBV n).
Proof.
  intros Hd Hn Hv. unfold bvc, lf. rewrite z_to_dec_of_N.
  change (lit "bv" ++ v) with (c_b :: c_v :: v).
  apply type_of_bvlit; auto using dec_of_to_dec.
Qed.

Lemma type_app_fp g a b c :
  type_app g (lit "fp") [a; b; c] =
  match Typing.bv_width a, Typing.bv_width b, Typing.bv_width c with
  | Some 1%N, Some e, Some m => Some (sFP e (m + 1))
  | _, _, _ => None
  end.
Proof. reflexivity. Qed.

Lemma type_of_fp g a b c e m :
  type_of g a = Some (sBV 1) -> type_of g b = Some (sBV e) -> type_of g c = Some (sBV m) ->
  type_of g (T [L (lit "fp"); a; b; c]) = Some (sFP e (m + 1)).
Proof.
  intros Ha Hb Hc. cbn [type_of].
  change (is (lit "fp") "_") with false. change (is (lit "fp") "let") with false.
  change (is (lit "fp") "forall") with false. change (is (lit "fp") "exists") with false.
  change (is (lit "fp") "!") with false. cbn [orb]. cbv iota.
  cbn [map]. rewrite Ha, Hb, Hc. cbn [opt_all fold_right].
  rewrite type_app_fp, !tbv_width_sBV. reflexivity.
Qed.

Lemma pow2_gt1 n : (0 < n)%N -> (1 < 2 ^ n)%N.
Proof. intro H. apply N.pow_gt_1; lia. Qed.

Lemma fp_constants_typed g e k l c :
  (0 < e)%N -> (0 < k)%N -> fp_constants (Z.of_N e) (Z.of_N k) = Some l -> In c l ->
  type_of g c = Some (sFP e (k + 1)).
Proof.
  intros He Hk Hl Hin. unfold fp_constants in Hl.
  destruct (Z.ltb (Z.of_N e) 0); [discriminate|].
  set (lim := str_limit) in Hl. clearbody lim.
  rewrite N2Z.id in Hl.
  destruct (N.leb lim (2 ^ e - 1)); [discriminate|].
  pose proof (pow2_gt1 e He) as He1. pose proof (pow2_gt1 k Hk) as Hk1.
  assert (Hs0 : type_of g (bvc (lit "0") 1) = Some (sBV 1)) by reflexivity.
  assert (Hs1 : type_of g (bvc (lit "1") 1) = Some (sBV 1)) by reflexivity.
  assert (Hze : type_of g (bvc (lit "0") (Z.of_N e)) = Some (sBV e)).
  { apply type_of_bvc; [reflexivity | exact He |]. change (dec_val (lit "0")) with 0%N. lia. }
  assert (Hzk : type_of g (bvc (lit "0") (Z.of_N k)) = Some (sBV k)).
  { apply type_of_bvc; [reflexivity | exact Hk |]. change (dec_val (lit "0")) with 0%N. lia. }
  assert (Hok : type_of g (bvc (lit "1") (Z.of_N k)) = Some (sBV k)).
  { apply type_of_bvc; [reflexivity | exact Hk |]. change (dec_val (lit "1")) with 1%N. lia. }
  assert (Hoe : type_of g (bvc (to_dec (2 ^ e - 1)) (Z.of_N e)) = Some (sBV e)).
  { apply type_of_bvc; [apply all_digits_to_dec | exact He |]. rewrite dec_val_to_dec. lia. }
  injection Hl as <-.
  cbn [In] in Hin.
  destruct Hin as [<- | [<- | [<- | [<- | [<- | [<- | []]]]]]]; apply type_of_fp; assumption.
Qed.

(* ---------- int() of a canonical numeral ---------- *)

Lemma py_nat_aux_digits : forall s acc prev,
  forallb is_digit s = true ->
  py_nat_aux s acc prev = match s with [] => if prev then Some acc else None | _ => Some (fold_left dstep s acc) end.
Proof.
  induction s as [| c r IH]; intros acc prev H; [reflexivity|].
  cbn [forallb] in H. apply andb_true_iff in H as [Hc Hr].
  cbn [py_nat_aux]. rewrite Hc. rewrite (IH _ true Hr). cbn [fold_left]. destruct r; reflexivity.
Qed.

Lemma py_int_to_dec n : py_int (to_dec n) = Some (Z.of_N n).
Proof.
  pose proof (all_digits_to_dec n) as Hd. pose proof (dec_val_to_dec n) as Hv.
  destruct (to_dec n) as [| c r] eqn:E; [discriminate|].
  unfold all_digits in Hd.
  assert (Hc : is_digit c = true). { cbn [forallb] in Hd. now apply andb_true_iff in Hd as [Hc _]. }
  unfold py_int.
  rewrite (digit_not c 45%N Hc) by lia. rewrite (digit_not c 43%N Hc) by lia.
  unfold py_nat. rewrite (py_nat_aux_digits _ _ _ Hd).
  rewrite dec_val_fold in Hv. now rewrite Hv.
Qed.

(* ---------- the theorem ---------- *)

Lemma default_constants_eq dtc s :
  default_constants dtc s =
  if sexp_eqb s (lf "Bool") then Some [lf "false"; lf "true"]
  else if sexp_eqb s (lf "Int") then Some [lf "0"; lf "1"]
  else if sexp_eqb s (lf "Real") then Some [lf "0.0"; lf "1.0"]
  else if is_bv_sort s then
    match s with
    | T [_; _; w] => Some [T [lf "_"; lf "bv0"; w]; T [lf "_"; lf "bv1"; w]]
    | _ => None
    end
  else
    match (match s with L x => fp_leaf_widths x | T _ => None end) with
    | Some (ew, sw) => fp_constants ew sw
    | None =>
        if is_fp_sort_list s then
          match s with
          | T [_; _; e; m] =>
              match py_int_node e, py_int_node m with
              | Some ew, Some sb => fp_constants ew (sb - 1)
              | _, _ => None
              end
          | _ => None
          end
        else if is_set_sort s then
          match s with
          | T [_; x] =>
              match default_constants dtc x with
              | Some l => Some (T [lf "as"; lf "emptyset"; s] :: map (fun c => T [lf "singleton"; c]) l)
              | None => None
              end
          | _ => None
          end
        else match dt_lookup s dtc with
             | Some l => Some l
             | None => Some []
             end
    end.
Proof. destruct s; reflexivity. Qed.

Lemma leaf_typed g x so :
  consts_unbound g -> const_name x = true -> type_of (mk_env [] [] []) (L x) = Some so -> type_of g (L x) = Some so.
Proof.
  intros Hcu Hc Ht. destruct (Hcu x Hc) as [Hv Hk].
  cbn [type_of] in *. rewrite Hv. cbn [e_vars assoc] in Ht.
  destruct (leaf_const_sort x); [exact Ht|].
  destruct (is_decimal x); [exact Ht|].
  destruct (mem_s x ["RNE"; "RNA"; "RTP"; "RTN"; "RTZ"]); [exact Ht|].
  cbn [e_dts find_cons] in Ht. discriminate.
Qed.

Lemma fp_leaf_cases x ew sw :
  fp_leaf_widths x = Some (ew, sw) ->
  exists e k, ew = Z.of_N e /\ sw = Z.of_N k /\ (0 < e)%N /\ (0 < k)%N.
Proof.
  unfold fp_leaf_widths. intro H.
  destruct (iss x "Float16"). { injection H as <- <-. exists 5%N, 10%N. repeat split; reflexivity. }
  destruct (iss x "Float32"). { injection H as <- <-. exists 8%N, 23%N. repeat split; reflexivity. }
  destruct (iss x "Float64"). { injection H as <- <-. exists 11%N, 52%N. repeat split; reflexivity. }
  destruct (iss x "Float128"). { injection H as <- <-. exists 15%N, 112%N. repeat split; reflexivity. }
  discriminate.
Qed.

Theorem default_constants_typed_proof : forall g dtc s l c,
  consts_unbound g -> dtc_typed dtc g -> wf_sort s = true ->
  default_constants dtc s = Some l -> In c l -> type_of g c = Some (canon_sort s).
Proof.
  intros g dtc s l c Hcu Hdt Hwf Hl Hin.
  rewrite default_constants_eq in Hl.
  destruct (sexp_eqb s (lf "Bool")) eqn:EB.
  { apply sexp_eqb_true in EB. subst s. injection Hl as <-.
    destruct Hin as [<- | [<- | []]]; apply leaf_typed; auto. }
  destruct (sexp_eqb s (lf "Int")) eqn:EI.
  { apply sexp_eqb_true in EI. subst s. injection Hl as <-.
    destruct Hin as [<- | [<- | []]]; apply leaf_typed; auto. }
  destruct (sexp_eqb s (lf "Real")) eqn:ER.
  { apply sexp_eqb_true in ER. subst s. injection Hl as <-.
    destruct Hin as [<- | [<- | []]]; apply leaf_typed; auto. }
  unfold wf_sort in Hwf.
  destruct (is_bv_sort s) eqn:Ebv.
  { destruct (Typing.bv_width s) as [n|] eqn:En; [|discriminate].
    apply andb_true_iff in Hwf as [Hn Hs]. apply N.ltb_lt in Hn. apply sexp_eqb_true in Hs.
    rewrite Hs in Hl |- *. unfold sBV in Hl. injection Hl as <-.
    pose proof (pow2_gt1 n Hn) as Hp.
    change (canon_sort (sBV n)) with (sBV n).
    destruct Hin as [<- | [<- | []]]; unfold lf.
    - change (lit "bv0") with (c_b :: c_v :: lit "0"). apply type_of_bvlit; auto using dec_of_to_dec.
      change (dec_val (lit "0")) with 0%N. lia.
    - change (lit "bv1") with (c_b :: c_v :: lit "1"). apply type_of_bvlit; auto using dec_of_to_dec. }
  destruct s as [x | sl].
  - (* a leaf *)
    cbn [is_fp_sort_list is_set_sort] in Hl. cbn [canon_sort].
    destruct (fp_leaf_widths x) as [[ew sw]|] eqn:Efp.
    + destruct (fp_leaf_cases x ew sw Efp) as (e & k & -> & -> & He & Hk).
      rewrite !N2Z.id. eapply fp_constants_typed; eauto.
    + destruct (dt_lookup (L x) dtc) as [l'|] eqn:Edt.
      * injection Hl as <-. eapply Hdt; eauto.
      * injection Hl as <-. destruct Hin.
  - (* a list *)
    cbn [canon_sort].
    destruct (is_fp_sort_list (T sl)) eqn:Efl.
    + destruct (fp_widths (T sl)) as [[e m]|] eqn:Ew; [|discriminate].
      apply andb_true_iff in Hwf as [Hwf Hs]. apply andb_true_iff in Hwf as [He Hm].
      apply N.ltb_lt in He, Hm. apply sexp_eqb_true in Hs. unfold sFP in Hs. injection Hs as ->.
      cbv iota in Hl. cbn [py_int_node] in Hl. rewrite !py_int_to_dec in Hl.
      change (type_of g c = Some (sFP e m)).
      replace (Z.of_N m - 1)%Z with (Z.of_N (m - 1)) in Hl by lia.
      replace (sFP e m) with (sFP e (m - 1 + 1)) by (f_equal; lia).
      eapply fp_constants_typed; eauto. lia.
    + destruct (is_set_sort (T sl)); [discriminate|].
      destruct (dt_lookup (T sl) dtc) as [l'|] eqn:Edt.
      * injection Hl as <-. eapply Hdt; eauto.
      * injection Hl as <-. destruct Hin.
Qed.
