(* S5: introduce_variables inserts after the maximal prefix of set-info /
   set-logic commands; apply_simp is substitute followed by that insertion. *)
From DD Require Import Model.Subst.

Lemma prefix_firstn l : forallb is_prefix_cmd (firstn (prefix_len l) l) = true.
Proof.
  induction l as [|x xs IH]; [reflexivity|]. cbn [prefix_len].
  destruct (is_prefix_cmd x) eqn:E; [|reflexivity]. cbn [firstn forallb]. now rewrite E, IH.
Qed.

Lemma prefix_skipn l :
  match skipn (prefix_len l) l with x :: _ => is_prefix_cmd x = false | [] => True end.
Proof.
  induction l as [|x xs IH]; [exact I|]. cbn [prefix_len].
  destruct (is_prefix_cmd x) eqn:E; [exact IH|]. cbn [skipn]. exact E.
Qed.

Theorem introduce_variables_spec_proof : forall l vars,
  exists pre post,
    l = pre ++ post /\
    introduce_variables l vars = pre ++ vars ++ post /\
    forallb is_prefix_cmd pre = true /\
    match post with x :: _ => is_prefix_cmd x = false | [] => True end.
Proof.
  intros l vars. exists (firstn (prefix_len l) l), (skipn (prefix_len l) l).
  split; [symmetry; apply firstn_skipn|]. split; [reflexivity|].
  split; [apply prefix_firstn|apply prefix_skipn].
Qed.

Section ApplySimp.
  Variable hstr : str -> Z.
  Variable htup : list Z -> Z.

  Theorem apply_simp_spec_proof : forall l ri rs vars next ch r nx,
    substitute hstr htup l ri rs next = (ch, r, nx) ->
    apply_simp hstr htup l ri rs vars next =
      (if ch then (true, match vars with [] => r | _ => introduce_variables r vars end, nx)
       else (false, l, nx)) /\
    (ch = false -> r = l).
  Proof.
    intros l ri rs vars next ch r nx E. unfold apply_simp. rewrite E. split.
    - destruct ch; [|reflexivity]. destruct vars; reflexivity.
    - intros ->. unfold substitute in E. destruct (repl_empty ri rs); [congruence|].
      destruct (subst_list hstr htup rs l (mk_sst ri next false)) as [r' st].
      destruct (s_changed st); congruence.
  Qed.
End ApplySimp.
