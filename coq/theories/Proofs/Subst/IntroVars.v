(* S5: introduce_variables inserts after the maximal prefix of set-info /
   set-logic commands; apply_simp is substitute followed by that insertion. *)
From DD Require Import Base.Lit Model.Subst.

Lemma prefix_firstn l : forallb is_prefix_cmd (firstn (prefix_len l) l) = true.
Proof.
  induction l as [|x xs IH]; [reflexivity|]. cbn [prefix_len].
  destruct (is_prefix_cmd x) eqn:E; [|reflexivity]. cbn [firstn forallb]. now rewrite E, IH.
Qed.

Lemma prefix_skipn l :
  match skipn (prefix_len l) l with x :: _ => is_prefix_cmd x = false | [] => True end.
Proof.
  induction l as [|x xs IH]; [exact I|]. cbn [prefix_len].
  destruct (is_prefix_cmd x) eqn:E; [exact IH|]. cbn [skipn]. exact E.
Qed.

Theorem introduce_variables_spec_proof : forall l vars,
  exists pre post,
    l = pre ++ post /\
    introduce_variables l vars = pre ++ vars ++ post /\
    forallb is_prefix_cmd pre = true /\
    match post with x :: _ => is_prefix_cmd x = false | [] => True end.
Proof.
  intros l vars. exists (firstn (prefix_len l) l), (skipn (prefix_len l) l).
  split; [symmetry; apply firstn_skipn|]. split; [reflexivity|].
  split; [apply prefix_firstn|apply prefix_skipn].
Qed.

(* F70: a comment leaf at the head of the script belongs to the prefix: the declarations go after it *)
Theorem introduce_variables_skips_header_comments_proof : forall i s rest vars,
  introduce_variables (NL i (59%N :: s) :: rest) vars = NL i (59%N :: s) :: introduce_variables rest vars.
Proof. reflexivity. Qed.

(* "; header" "(set-logic X)" "(declare-const a Bool)" + the declaration of v: it goes after (set-logic X) *)
Example introduce_variables_header_comment_ex :
  let header := NL 1 (lit "; header") in
  let setlogic := NT 4 0 [NL 2 (lit "set-logic"); NL 3 (lit "X")] in
  let decl := NT 8 0 [NL 5 (lit "declare-const"); NL 6 (lit "a"); NL 7 (lit "Bool")] in
  let var := NT 12 0 [NL 9 (lit "declare-const"); NL 10 (lit "v"); NL 11 (lit "Bool")] in
  introduce_variables [header; setlogic; decl] [var] = [header; setlogic; var; decl].
Proof. vm_compute. reflexivity. Qed.

Section ApplySimp.
  Variable hstr : str -> Z.
  Variable htup : list Z -> Z.

  Theorem apply_simp_spec_proof : forall l ri rs vars next ch r nx,
    substitute hstr htup l ri rs next = (ch, r, nx) ->
    apply_simp hstr htup l ri rs vars next =
      (if ch then (true, match vars with [] => r | _ => introduce_variables r vars end, nx)
       else (false, l, nx)) /\
    (ch = false -> r = l).
  Proof.
    intros l ri rs vars next ch r nx E. unfold apply_simp. rewrite E. split.
    - destruct ch; [|reflexivity]. destruct vars; reflexivity.
    - intros ->. unfold substitute in E. destruct (repl_empty ri rs); [congruence|].
      destruct (subst_list hstr htup rs l (mk_sst ri next false)) as [r' st].
      destruct (s_changed st); congruence.
  Qed.
End ApplySimp.
