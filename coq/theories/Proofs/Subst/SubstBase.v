(* Unfolding lemmas and basic facts for the substitute model. *)
From DD Require Import Model.Subst Proofs.Redup.ListAux.

Local Open Scope Z_scope.

(* all nodes of a tree, in pre-order *)
Fixpoint subnodes (e : node) : list node :=
  e :: match e with NL _ _ => [] | NT _ _ l => flat_map subnodes l end.
Definition subnodes_l (l : list node) : list node := flat_map subnodes l.

Lemma subnodes_self e : In e (subnodes e).
Proof. destruct e; now left. Qed.

Lemma subnodes_child i h l x y : In x l -> In y (subnodes x) -> In y (subnodes (NT i h l)).
Proof. intros Hx Hy. cbn [subnodes]. right. apply in_flat_map. now exists x. Qed.

(* ---- identity-keyed map ---- *)

Lemma lookup_remove_other r j i : i <> j -> lookup_id (remove_id r j) i = lookup_id r i.
Proof.
  intro Hne. induction r as [|[k v] r IH]; [reflexivity|].
  cbn [remove_id lookup_id]. destruct (Z.eqb_spec k j) as [->|Hkj].
  - destruct (Z.eqb_spec j i) as [->|_]; [contradiction|reflexivity].
  - cbn [lookup_id]. now rewrite IH.
Qed.

Lemma lookup_remove_none r j i : lookup_id r i = None -> lookup_id (remove_id r j) i = None.
Proof.
  induction r as [|[k v] r IH]; intro H; [reflexivity|].
  cbn [remove_id lookup_id] in *. destruct (Z.eqb_spec k i) as [->|Hki]; [discriminate|].
  destruct (Z.eqb_spec k j) as [->|Hkj]; [exact H|].
  cbn [lookup_id]. destruct (Z.eqb_spec k i) as [->|_]; [contradiction|]. now apply IH.
Qed.

Lemma remove_id_incl r j : incl (remove_id r j) r.
Proof.
  induction r as [|[k v] r IH]; [apply incl_refl|].
  cbn [remove_id]. destruct (Z.eqb k j).
  - apply incl_tl, incl_refl.
  - intros p [<-|Hp]; [now left|right; now apply IH].
Qed.

Section SubstBase.
  Variable hstr : str -> Z.
  Variable htup : list Z -> Z.
  Notation node_eq := (node_eq hstr).
  Notation mk_tuple := (mk_tuple hstr htup).
  Notation lookup_s := (lookup_s hstr).
  Notation subst1 := (subst1 hstr htup).
  Notation subst_list := (subst_list hstr htup).

  (* the rebuilt node, and the node returned for a tuple *)
  Definition rebuilt (nx : Z) (cs : list node) : node := fst (mk_tuple nx cs).
  Definition pick (e : node) (nx : Z) (cs : list node) : node :=
    if node_eq (rebuilt nx cs) e then e else rebuilt nx cs.

  Lemma subst1_eq rs e st :
    subst1 rs e st =
    match find_id (s_ri st) e with
    | Some v => (olist v, mk_sst (remove_id (s_ri st) (nid e)) (s_next st) true)
    | None =>
        match lookup_s rs e with
        | Some v => (olist v, mk_sst (s_ri st) (s_next st) true)
        | None =>
            match e with
            | NL _ _ => ([e], st)
            | NT _ _ l =>
                if repl_empty (s_ri st) rs then ([e], st)
                else
                  let r := subst_list rs l st in
                  ([pick e (s_next (snd r)) (fst r)],
                   mk_sst (s_ri (snd r)) (s_next (snd r) + 1) (s_changed (snd r)))
            end
        end
    end.
  Proof.
    destruct e as [i s|i h l]; cbn [Subst.subst1]; [reflexivity|].
    assert (E : forall l st,
      (fix go (l : list node) (st : sst) : list node * sst :=
                       match l with
                       | [] => ([], st)
                       | x :: xs => let '(a, st1) := subst1 rs x st in
                                    let '(b, st2) := go xs st1 in (a ++ b, st2)
                       end) l st = subst_list rs l st).
    { clear. induction l as [|x xs IH]; intro st; [reflexivity|].
      cbn [Subst.subst_list]. destruct (subst1 rs x st) as [a st1]. rewrite IH. reflexivity. }
    rewrite E. destruct (subst_list rs l st) as [cs st']. reflexivity.
  Qed.

  Lemma subst_list_cons rs x xs st :
    subst_list rs (x :: xs) st =
    (fst (subst1 rs x st) ++ fst (subst_list rs xs (snd (subst1 rs x st))),
     snd (subst_list rs xs (snd (subst1 rs x st)))).
  Proof.
    cbn [Subst.subst_list]. destruct (subst1 rs x st) as [a st1]. cbn [fst snd].
    destruct (subst_list rs xs st1) as [b st2]. reflexivity.
  Qed.

  Lemma find_id_remove_none ri e j : find_id ri e = None -> find_id (remove_id ri j) e = None.
  Proof.
    unfold find_id. destruct (Z.eqb (nid e) 0); [reflexivity|]. apply lookup_remove_none.
  Qed.

  (* the identity map only shrinks: failed look-ups keep failing *)
  Definition ri_le (r' r : irepl) : Prop := forall i, lookup_id r i = None -> lookup_id r' i = None.

  Lemma ri_le_refl r : ri_le r r.
  Proof. intros i H. exact H. Qed.
  Lemma ri_le_trans a b c : ri_le a b -> ri_le b c -> ri_le a c.
  Proof. intros H1 H2 i H. apply H1, H2, H. Qed.

  Lemma subst_list_ri_le_of rs l :
    Forall (fun e => forall st, ri_le (s_ri (snd (subst1 rs e st))) (s_ri st)) l ->
    forall st, ri_le (s_ri (snd (subst_list rs l st))) (s_ri st).
  Proof.
    intro HF. induction HF as [|x xs Hx _ IH]; intro st; [apply ri_le_refl|].
    rewrite subst_list_cons. cbn [snd]. eapply ri_le_trans; [apply IH|apply Hx].
  Qed.

  Lemma subst1_ri_le rs e : forall st, ri_le (s_ri (snd (subst1 rs e st))) (s_ri st).
  Proof.
    induction e as [i s|i h l IH] using node_ind'; intro st; rewrite subst1_eq.
    - destruct (find_id (s_ri st) (NL i s)).
      + cbn [snd s_ri]. intros k Hk. now apply lookup_remove_none.
      + destruct (lookup_s rs (NL i s)); apply ri_le_refl.
    - destruct (find_id (s_ri st) (NT i h l)).
      + cbn [snd s_ri]. intros k Hk. now apply lookup_remove_none.
      + destruct (lookup_s rs (NT i h l)); [apply ri_le_refl|].
        destruct (repl_empty (s_ri st) rs); [apply ri_le_refl|].
        cbn [snd s_ri]. now apply subst_list_ri_le_of.
  Qed.

  Lemma subst_list_ri_le rs l : forall st, ri_le (s_ri (snd (subst_list rs l st))) (s_ri st).
  Proof. apply subst_list_ri_le_of. apply Forall_forall. intros e _. apply subst1_ri_le. Qed.

  Lemma find_id_ri_le r' r e : ri_le r' r -> find_id r e = None -> find_id r' e = None.
  Proof. unfold find_id. intros H. destruct (Z.eqb (nid e) 0); [reflexivity|apply H]. Qed.
End SubstBase.
