(* S4 without a hypothesis on node_eq: where every node of the result comes
   from, soundness of node_eq when equal identities imply equal shapes, and the
   token-level theorem under explicit conditions on identities. *)
From DD Require Import Model.Subst Spec.StdReader.
From DD Require Import Proofs.Redup.ListAux Proofs.Subst.SubstBase Proofs.Subst.SubstIdentity
  Proofs.Subst.SubstTokens.

Local Open Scope Z_scope.

(* the replacement values *)
Definition vals_i (ri : irepl) : list node := flat_map (fun p => olist (snd p)) ri.
Definition vals_s (rs : srepl) : list node := flat_map (fun p => olist (snd p)) rs.

Lemma ids_subnodes e : ids e = map nid (subnodes e).
Proof.
  induction e as [i s|i h l IH] using node_ind'; [reflexivity|].
  cbn [ids subnodes map nid]. f_equal.
  induction IH as [|x xs Hx _ IHxs]; [reflexivity|].
  cbn [flat_map]. now rewrite map_app, Hx, IHxs.
Qed.

Lemma ids_l_subnodes l : ids_l l = map nid (subnodes_l l).
Proof.
  unfold ids_l, subnodes_l. induction l as [|x xs IH]; [reflexivity|].
  cbn [flat_map]. now rewrite map_app, ids_subnodes, IH.
Qed.

Lemma NoDup_map_inj {A B} (f : A -> B) l x y :
  NoDup (map f l) -> In x l -> In y l -> f x = f y -> x = y.
Proof.
  induction l as [|a l IH]; intros HND Hx Hy E; [destruct Hx|].
  cbn [map] in HND. inversion HND as [|b l' Hb Hl]; subst.
  destruct Hx as [->|Hx], Hy as [->|Hy].
  - reflexivity.
  - exfalso. apply Hb. rewrite E. now apply in_map.
  - exfalso. apply Hb. rewrite <- E. now apply in_map.
  - now apply IH.
Qed.

Lemma subnodes_trans e : forall x y, In x (subnodes e) -> In y (subnodes x) -> In y (subnodes e).
Proof.
  induction e as [i s|i h l IH] using node_ind'; intros x y Hx Hy.
  - destruct Hx as [<-|[]]. exact Hy.
  - cbn [subnodes] in Hx. destruct Hx as [<-|Hx]; [exact Hy|].
    apply in_flat_map in Hx as (c & Hc & Hxc). rewrite Forall_forall in IH.
    eapply subnodes_child; [exact Hc|]. eapply IH; eassumption.
Qed.

Lemma subnodes_l_trans l x y : In x (subnodes_l l) -> In y (subnodes x) -> In y (subnodes_l l).
Proof.
  unfold subnodes_l. intros Hx Hy. apply in_flat_map in Hx as (c & Hc & Hxc).
  apply in_flat_map. exists c. split; [exact Hc|]. eapply subnodes_trans; eassumption.
Qed.

Lemma lookup_id_in r i v : lookup_id r i = Some (Some v) -> In v (vals_i r).
Proof.
  induction r as [|[k w] r IH]; intro H; [discriminate|]. cbn [lookup_id] in H.
  unfold vals_i. cbn [flat_map snd]. apply in_or_app. destruct (Z.eqb k i).
  - injection H as ->. left. now left.
  - right. now apply IH.
Qed.

Lemma vals_i_incl r r' : incl r' r -> incl (vals_i r') (vals_i r).
Proof.
  intros Hi v Hv. unfold vals_i in *. apply in_flat_map in Hv as (p & Hp & Hvp).
  apply in_flat_map. exists p. split; [now apply Hi|exact Hvp].
Qed.

Section SubstClosed.
  Variable hstr : str -> Z.
  Variable htup : list Z -> Z.
  Notation node_eq := (node_eq hstr).
  Notation mk_tuple := (mk_tuple hstr htup).
  Notation lookup_s := (lookup_s hstr).
  Notation subst1 := (subst1 hstr htup).
  Notation subst_list := (subst_list hstr htup).
  Notation substitute := (substitute hstr htup).
  Notation rebuilt := (rebuilt hstr htup).
  Notation pick := (pick hstr htup).
  Notation eq_all := (eq_all hstr).

  Lemma lookup_s_in r e v : lookup_s r e = Some (Some v) -> In v (vals_s r).
  Proof.
    induction r as [|[k w] r IH]; intro H; [discriminate|]. cbn [Subst.lookup_s] in H.
    unfold vals_s. cbn [flat_map snd]. apply in_or_app.
    destruct (Z.eqb (nhash hstr k) (nhash hstr e) && node_eq k e).
    - injection H as ->. left. now left.
    - right. now apply IH.
  Qed.

  (* ---- node_eq is sound when equal identities imply equal shapes ---- *)

  Definition idcoh (a b : node) : Prop :=
    forall x y, In x (subnodes a) -> In y (subnodes b) -> nid x = nid y -> shape x = shape y.

  Lemma node_eq_sound a : forall b, idcoh a b -> node_eq a b = true -> shape a = shape b.
  Proof.
    induction a as [i s|i h l IH] using node_ind'; intros b Hc He.
    - destruct b as [j t|j h' m]; cbn [NodeEq.node_eq nid] in He.
      + destruct (Z.eqb_spec i j) as [E|_].
        * apply Hc; [apply subnodes_self|apply subnodes_self|exact E].
        * apply andb_true_iff in He as [_ He]. apply str_eqb_eq in He. now subst.
      + destruct (Z.eqb_spec i j) as [E|_]; [|discriminate].
        apply Hc; [apply subnodes_self|apply subnodes_self|exact E].
    - destruct b as [j t|j h' m].
      + cbn [NodeEq.node_eq nid] in He. destruct (Z.eqb_spec i j) as [E|_]; [|discriminate].
        apply Hc; [apply subnodes_self|apply subnodes_self|exact E].
      + rewrite node_eq_NT in He. destruct (Z.eqb_spec i j) as [E|_].
        * apply Hc; [apply subnodes_self|apply subnodes_self|exact E].
        * apply andb_true_iff in He as [_ He]. cbn [shape]. f_equal.
          assert (Hc' : forall x y, In x l -> In y m -> idcoh x y).
          { intros x y Hx Hy x' y' Hx' Hy'. apply Hc; eapply subnodes_child; eassumption. }
          clear Hc. revert m He Hc'. induction IH as [|x xs Hx _ IHxs]; intros [|y ys] He Hc';
            try reflexivity; try discriminate.
          cbn [SubstIdentity.eq_all] in He. apply andb_true_iff in He as [H1 H2].
          cbn [map]. f_equal.
          -- apply Hx; [|exact H1]. apply Hc'; now left.
          -- apply IHxs; [exact H2|]. intros x' y' Hx' Hy'. apply Hc'; now right.
    Qed.

  (* ---- where the nodes of the result come from ---- *)

  Section Origin.
    Variable ri0 : irepl.
    Variable rs : srepl.

    Definition from_val (z : node) : Prop :=
      exists v, In v (vals_i ri0 ++ vals_s rs) /\ In z (subnodes v).

    (* z is a node of the input, a node of a replacement value, or fresh *)
    Definition origin (src : list node) (lo : Z) (z : node) : Prop :=
      In z src \/ from_val z \/ lo < nid z.

    Definition O1 (e : node) : Prop :=
      forall st, incl (s_ri st) ri0 ->
        forall o z, In o (fst (subst1 rs e st)) -> In z (subnodes o) ->
                    origin (subnodes e) (s_next st) z.

    Definition OL (l : list node) : Prop :=
      forall st, incl (s_ri st) ri0 ->
        forall o z, In o (fst (subst_list rs l st)) -> In z (subnodes o) ->
                    origin (subnodes_l l) (s_next st) z.

    Lemma OL_of l : Forall O1 l -> OL l.
    Proof.
      intro HF. induction HF as [|x xs Hx _ IH]; intros st Hin o z Ho Hz.
      - destruct Ho.
      - rewrite subst_list_cons in Ho. cbn [fst] in Ho. apply in_app_or in Ho as [Ho|Ho].
        + destruct (Hx st Hin o z Ho Hz) as [H|[H|H]].
          * left. unfold subnodes_l. cbn [flat_map]. apply in_or_app. now left.
          * right. now left.
          * right. now right.
        + destruct (frame1 hstr htup rs x st) as (F1 & F2 & _).
          destruct (IH (snd (subst1 rs x st)) (incl_tran F1 Hin) o z Ho Hz) as [H|[H|H]].
          * left. unfold subnodes_l. cbn [flat_map]. apply in_or_app. now right.
          * right. now left.
          * right. right. lia.
    Qed.

    Lemma olist_in o (v : option node) : In o (olist v) -> v = Some o.
    Proof.
      destruct v; cbn [olist]; intro H; [destruct H as [<-|[]]; reflexivity|destruct H].
    Qed.

    Lemma O1_all e : O1 e.
    Proof.
      induction e as [i s|i h l IH] using node_ind'; intros st Hin o z Ho Hz;
        rewrite subst1_eq in Ho.
      - destruct (find_id (s_ri st) (NL i s)) as [v|] eqn:Hf.
        { cbn [fst] in Ho. apply olist_in in Ho. subst v. right. left. exists o.
          split; [|exact Hz]. apply in_or_app. left. unfold find_id in Hf.
          destruct (Z.eqb (nid (NL i s)) 0); [discriminate|].
          apply (vals_i_incl _ _ Hin). eapply lookup_id_in. exact Hf. }
        destruct (lookup_s rs (NL i s)) as [v|] eqn:Hl.
        { cbn [fst] in Ho. apply olist_in in Ho. subst v. right. left. exists o.
          split; [|exact Hz]. apply in_or_app. right. eapply lookup_s_in. exact Hl. }
        cbn [fst] in Ho. destruct Ho as [<-|[]]. left. exact Hz.
      - set (e := NT i h l) in *.
        destruct (find_id (s_ri st) e) as [v|] eqn:Hf.
        { cbn [fst] in Ho. apply olist_in in Ho. subst v. right. left. exists o.
          split; [|exact Hz]. apply in_or_app. left. unfold find_id in Hf.
          destruct (Z.eqb (nid e) 0); [discriminate|].
          apply (vals_i_incl _ _ Hin). eapply lookup_id_in. exact Hf. }
        destruct (lookup_s rs e) as [v|] eqn:Hl.
        { cbn [fst] in Ho. apply olist_in in Ho. subst v. right. left. exists o.
          split; [|exact Hz]. apply in_or_app. right. eapply lookup_s_in. exact Hl. }
        destruct (repl_empty (s_ri st) rs).
        { cbn [fst] in Ho. destruct Ho as [<-|[]]. left. exact Hz. }
        cbn [fst] in Ho. destruct Ho as [<-|[]]. unfold SubstBase.pick in Hz.
        destruct (node_eq (rebuilt (s_next (snd (subst_list rs l st))) (fst (subst_list rs l st))) e).
        { left. exact Hz. }
        unfold SubstBase.rebuilt in Hz. cbn [Node.mk_tuple fst subnodes] in Hz.
        destruct (frame_list hstr htup rs l st) as (_ & F2 & _).
        destruct Hz as [<-|Hz]; [right; right; cbn [nid]; lia|].
        apply in_flat_map in Hz as (c & Hc & Hzc).
        destruct (OL_of l IH st Hin c z Hc Hzc) as [H|[H|H]].
        + left. cbn [subnodes e]. right. exact H.
        + right. now left.
        + right. now right.
    Qed.

    Lemma OL_all l : OL l.
    Proof. apply OL_of. apply Forall_forall. intros e _. apply O1_all. Qed.
  End Origin.

  (* ---- the token theorem with explicit conditions on identities ---- *)

  Theorem subst_tokens_closed_proof : forall l ri rs next,
    NoDup (ids_l l) ->
    (forall j, In j (ids_l l) -> j <= next) ->
    (forall v x y, In v (vals_i ri ++ vals_s rs) -> In x (subnodes v) -> In y (subnodes_l l) ->
                   nid x = nid y -> shape x = shape y) ->
    flat_map toks (snd (fst (substitute l ri rs next))) = flat_map (spec_toks hstr ri rs) l.
  Proof.
    intros l ri rs next HND HB Hcoh. apply subst_tokens_strong_proof; [exact HND|].
    intros i h cl st He Hin Hnx Heq. apply node_eq_sound; [|exact Heq].
    assert (Hbound : forall y, In y (subnodes_l l) -> nid y <= next).
    { intros y Hy. apply HB. rewrite ids_l_subnodes. now apply in_map. }
    destruct (frame_list hstr htup rs cl st) as (_ & F2 & _).
    intros x y Hx Hy E.
    assert (Hy' : In y (subnodes_l l)) by (eapply subnodes_l_trans; eassumption).
    pose proof (Hbound y Hy') as Hyb.
    cbn [Node.mk_tuple fst subnodes] in Hx. destruct Hx as [<-|Hx].
    { cbn [nid] in E. lia. }
    apply in_flat_map in Hx as (c & Hc & Hxc).
    destruct (OL_all ri rs cl st Hin c x Hc Hxc) as [H|[(v & Hv & Hxv)|H]].
    - assert (Hx' : In x (subnodes_l l)).
      { eapply subnodes_l_trans; [exact He|]. cbn [subnodes]. right. exact H. }
      rewrite ids_l_subnodes in HND. now rewrite (NoDup_map_inj nid _ x y HND Hx' Hy' E).
    - eapply Hcoh; eassumption.
    - lia.
  Qed.
End SubstClosed.
