(* S4: token-level exactness of substitute.  The tokens of the result are those
   of the input where every subtree that is a key has been replaced by the
   tokens of its value, as given (identity keys first, then structural keys,
   outermost first; replacements are not rewritten). *)
From DD Require Import Model.Subst Spec.StdReader.
From DD Require Import Proofs.Redup.ListAux Proofs.Subst.SubstBase.

Local Open Scope Z_scope.

Definition toks (n : node) : list lexeme := flat (shape n).
Definition toks_opt (v : option node) : list lexeme :=
  match v with Some x => toks x | None => [] end.

Lemma toks_NT i h l : toks (NT i h l) = LPar :: flat_map toks l ++ [RPar].
Proof. unfold toks. cbn [shape flat]. now rewrite flat_map_map. Qed.

Lemma toks_shape a b : shape a = shape b -> toks a = toks b.
Proof. unfold toks. now intros ->. Qed.

Lemma flat_map_ext_in {A B} (f g : A -> list B) l :
  (forall a, In a l -> f a = g a) -> flat_map f l = flat_map g l.
Proof.
  induction l as [|x l IH]; intro H; [reflexivity|]. cbn [flat_map].
  rewrite (H x (or_introl eq_refl)), IH; [reflexivity|]. intros a Ha. apply H. now right.
Qed.

Lemma nid_in_ids e : In (nid e) (ids e).
Proof. destruct e; now left. Qed.

Section SubstTokens.
  Variable hstr : str -> Z.
  Variable htup : list Z -> Z.
  Notation node_eq := (node_eq hstr).
  Notation mk_tuple := (mk_tuple hstr htup).
  Notation lookup_s := (lookup_s hstr).
  Notation subst1 := (subst1 hstr htup).
  Notation subst_list := (subst_list hstr htup).
  Notation substitute := (substitute hstr htup).
  Notation rebuilt := (rebuilt hstr htup).
  Notation pick := (pick hstr htup).

  (* the specification: no consumption of identity keys, no rebuilding *)
  Fixpoint spec_toks (ri : irepl) (rs : srepl) (e : node) {struct e} : list lexeme :=
    match find_id ri e with
    | Some v => toks_opt v
    | None =>
        match lookup_s rs e with
        | Some v => toks_opt v
        | None =>
            match e with
            | NL _ _ => toks e
            | NT _ _ l => LPar :: flat_map (spec_toks ri rs) l ++ [RPar]
            end
        end
    end.

  Lemma spec_toks_eq ri rs e :
    spec_toks ri rs e =
    match find_id ri e with
    | Some v => toks_opt v
    | None =>
        match lookup_s rs e with
        | Some v => toks_opt v
        | None =>
            match e with
            | NL _ _ => toks e
            | NT _ _ l => LPar :: flat_map (spec_toks ri rs) l ++ [RPar]
            end
        end
    end.
  Proof. destruct e; reflexivity. Qed.

  Lemma toks_olist v : flat_map toks (olist v) = toks_opt v.
  Proof. destruct v; cbn [olist flat_map toks_opt]; [apply app_nil_r|reflexivity]. Qed.

  Lemma repl_empty_true ri rs : repl_empty ri rs = true -> ri = [] /\ rs = [].
  Proof. destruct ri, rs; cbn; intro H; try discriminate. now split. Qed.

  (* without applicable keys the specification is the token sequence itself *)
  Lemma spec_toks_nohit ri e :
    (forall j, In j (ids e) -> lookup_id ri j = None) -> spec_toks ri [] e = toks e.
  Proof.
    induction e as [i s|i h l IH] using node_ind'; intro Hn; rewrite spec_toks_eq.
    - unfold find_id. rewrite (Hn _ (nid_in_ids _)). now destruct (Z.eqb (nid (NL i s)) 0).
    - unfold find_id. rewrite (Hn _ (nid_in_ids _)).
      destruct (Z.eqb (nid (NT i h l)) 0); cbn [Subst.lookup_s]; rewrite toks_NT; f_equal; f_equal;
        apply flat_map_ext_in; intros a Ha; rewrite Forall_forall in IH; apply IH; try exact Ha;
        intros j Hj; apply Hn; cbn [ids]; right; apply in_flat_map; now exists a.
  Qed.

  (* ---- general facts about the threaded state ---- *)

  Definition frame (src : list Z) (st st' : sst) : Prop :=
    incl (s_ri st') (s_ri st) /\
    s_next st <= s_next st' /\
    (s_changed st = true -> s_changed st' = true) /\
    (forall j, ~ In j src -> lookup_id (s_ri st') j = lookup_id (s_ri st) j).

  Lemma frame_refl src st : frame src st st.
  Proof. split; [apply incl_refl|]. split; [lia|]. split; [tauto|reflexivity]. Qed.

  Lemma frame_list_of rs l :
    Forall (fun e => forall st, frame (ids e) st (snd (subst1 rs e st))) l ->
    forall st, frame (ids_l l) st (snd (subst_list rs l st)).
  Proof.
    intro HF. induction HF as [|x xs Hx _ IH]; intro st; [apply frame_refl|].
    rewrite subst_list_cons. cbn [snd].
    destruct (Hx st) as (A1 & A2 & A3 & A4).
    destruct (IH (snd (subst1 rs x st))) as (B1 & B2 & B3 & B4).
    split; [eapply incl_tran; eassumption|]. split; [lia|]. split; [tauto|].
    intros j Hj. unfold ids_l in Hj. cbn [flat_map] in Hj. rewrite in_app_iff in Hj.
    rewrite B4, A4; [reflexivity|tauto|tauto].
  Qed.

  Lemma frame1 rs e : forall st, frame (ids e) st (snd (subst1 rs e st)).
  Proof.
    induction e as [i s|i h l IH] using node_ind'; intro st; rewrite subst1_eq.
    - destruct (find_id (s_ri st) (NL i s)).
      + cbn [snd]. split; [apply remove_id_incl|]. split; [cbn; lia|]. split; [reflexivity|].
        intros j Hj. cbn [s_ri]. apply lookup_remove_other. intros ->. apply Hj. now left.
      + destruct (lookup_s rs (NL i s)); [|apply frame_refl].
        cbn [snd]. split; [apply incl_refl|]. split; [cbn; lia|]. split; reflexivity.
    - destruct (find_id (s_ri st) (NT i h l)).
      + cbn [snd]. split; [apply remove_id_incl|]. split; [cbn; lia|]. split; [reflexivity|].
        intros j Hj. cbn [s_ri]. apply lookup_remove_other. intros ->. apply Hj. now left.
      + destruct (lookup_s rs (NT i h l)).
        { cbn [snd]. split; [apply incl_refl|]. split; [cbn; lia|]. split; reflexivity. }
        destruct (repl_empty (s_ri st) rs); [apply frame_refl|]. cbn [snd].
        destruct (frame_list_of rs l IH st) as (B1 & B2 & B3 & B4).
        split; [exact B1|]. split; [cbn [s_next]; lia|]. split; [exact B3|].
        intros j Hj. cbn [s_ri]. apply B4. intro Hin. apply Hj. cbn [ids]. now right.
  Qed.

  Lemma frame_list rs l : forall st, frame (ids_l l) st (snd (subst_list rs l st)).
  Proof. apply frame_list_of. apply Forall_forall. intros e _. apply frame1. Qed.

  (* ---- the main invariant ---- *)

  Section Main.
    Variable ri0 : irepl.
    Variable rs : srepl.
    Variable next0 : Z.

    (* node_eq is sound on the pairs (rebuilt tuple, original tuple) that can
       arise while the children of the tuple are processed *)
    Definition sound_at (e : node) : Prop :=
      match e with
      | NL _ _ => True
      | NT _ _ cl =>
          forall st, incl (s_ri st) ri0 -> next0 <= s_next st ->
            node_eq (rebuilt (s_next (snd (subst_list rs cl st))) (fst (subst_list rs cl st))) e = true ->
            shape (rebuilt (s_next (snd (subst_list rs cl st))) (fst (subst_list rs cl st))) = shape e
      end.

    Definition tpost (src : list lexeme) (spec : list lexeme) (out : list node) (st' : sst) : Prop :=
      flat_map toks out = spec /\ (s_changed st' = false -> flat_map toks out = src).

    Definition T1 (e : node) : Prop :=
      forall st,
        (forall x, In x (subnodes e) -> sound_at x) ->
        NoDup (ids e) -> incl (s_ri st) ri0 -> next0 <= s_next st ->
        (forall j, In j (ids e) -> lookup_id (s_ri st) j = lookup_id ri0 j) ->
        tpost (toks e) (spec_toks ri0 rs e) (fst (subst1 rs e st)) (snd (subst1 rs e st)).

    Definition TL (l : list node) : Prop :=
      forall st,
        (forall x, In x (subnodes_l l) -> sound_at x) ->
        NoDup (ids_l l) -> incl (s_ri st) ri0 -> next0 <= s_next st ->
        (forall j, In j (ids_l l) -> lookup_id (s_ri st) j = lookup_id ri0 j) ->
        tpost (flat_map toks l) (flat_map (spec_toks ri0 rs) l)
              (fst (subst_list rs l st)) (snd (subst_list rs l st)).

    Lemma TL_of l : Forall T1 l -> TL l.
    Proof.
      intro HF. induction HF as [|x xs Hx _ IH]; intros st Hs HND Hin Hnx Hag.
      - split; reflexivity.
      - rewrite subst_list_cons. cbn [fst snd].
        unfold ids_l in HND, Hag. cbn [flat_map] in HND, Hag.
        apply NoDup_app_inv in HND as (N1 & N2 & N3).
        destruct (Hx st) as [A1 A2]; [|exact N1|exact Hin|exact Hnx| |].
        { intros y Hy. apply Hs. unfold subnodes_l. cbn [flat_map]. apply in_or_app. now left. }
        { intros j Hj. apply Hag. apply in_or_app. now left. }
        destruct (frame1 rs x st) as (F1 & F2 & F3 & F4).
        destruct (IH (snd (subst1 rs x st))) as [B1 B2]; [|exact N2| | | |].
        { intros y Hy. apply Hs. unfold subnodes_l. cbn [flat_map]. apply in_or_app. now right. }
        { eapply incl_tran; eassumption. }
        { lia. }
        { intros j Hj. rewrite F4.
          - apply Hag. apply in_or_app. now right.
          - intro Hjx. exact (N3 j Hjx Hj). }
        destruct (frame_list rs xs (snd (subst1 rs x st))) as (_ & _ & G3 & _).
        split.
        + rewrite flat_map_app. cbn [flat_map]. now rewrite A1, B1.
        + intro Hc. rewrite flat_map_app. cbn [flat_map]. rewrite B2 by exact Hc.
          rewrite A2; [reflexivity|].
          destruct (s_changed (snd (subst1 rs x st))); [|reflexivity].
          rewrite G3 in Hc; [discriminate|reflexivity].
    Qed.

    Lemma find_id_agree e st :
      (forall j, In j (ids e) -> lookup_id (s_ri st) j = lookup_id ri0 j) ->
      find_id ri0 e = find_id (s_ri st) e.
    Proof. intro Hag. unfold find_id. now rewrite (Hag _ (nid_in_ids e)). Qed.

    Lemma T1_all e : T1 e.
    Proof.
      induction e as [i s|i h l IH] using node_ind'; intros st Hs HND Hin Hnx Hag;
        rewrite subst1_eq, spec_toks_eq, (find_id_agree _ st Hag); unfold tpost.
      - destruct (find_id (s_ri st) (NL i s)) as [v|].
        { cbn [fst snd]. split; [apply toks_olist|]. cbn [s_changed]. discriminate. }
        destruct (lookup_s rs (NL i s)) as [v|].
        { cbn [fst snd]. split; [apply toks_olist|]. cbn [s_changed]. discriminate. }
        cbn [fst snd flat_map]. rewrite app_nil_r. split; reflexivity.
      - set (e := NT i h l) in *.
        destruct (find_id (s_ri st) e) as [v|] eqn:Hf.
        { cbn [fst snd]. split; [apply toks_olist|]. cbn [s_changed]. discriminate. }
        destruct (lookup_s rs e) as [v|] eqn:Hl.
        { cbn [fst snd]. split; [apply toks_olist|]. cbn [s_changed]. discriminate. }
        destruct (repl_empty (s_ri st) rs) eqn:He.
        { cbn [fst snd flat_map]. rewrite app_nil_r. split; [|reflexivity].
          apply repl_empty_true in He as [Hri Hrs].
          assert (E : spec_toks ri0 rs e = toks e).
          { rewrite Hrs. apply spec_toks_nohit. intros j Hj. rewrite <- (Hag j Hj), Hri. reflexivity. }
          rewrite spec_toks_eq, (find_id_agree e st Hag), Hf, Hl in E.
          change (LPar :: flat_map (spec_toks ri0 rs) l ++ [RPar] = toks e) in E. now rewrite E. }
        cbn [fst snd s_changed].
        cbn [ids] in HND, Hag. inversion HND as [|i' l' Hi Hnd]; subst i' l'.
        destruct (TL_of l IH st) as [B1 B2]; [|exact Hnd|exact Hin|exact Hnx| |].
        { intros y Hy. apply Hs. cbn [subnodes]. right. exact Hy. }
        { intros j Hj. apply Hag. now right. }
        assert (Hp : toks (pick e (s_next (snd (subst_list rs l st))) (fst (subst_list rs l st)))
                     = LPar :: flat_map toks (fst (subst_list rs l st)) ++ [RPar]).
        { unfold SubstBase.pick.
          destruct (node_eq (rebuilt (s_next (snd (subst_list rs l st))) (fst (subst_list rs l st))) e)
            eqn:Hne.
          - pose proof (Hs e (subnodes_self e)) as Hse. cbn [sound_at e] in Hse.
            rewrite <- (toks_shape _ _ (Hse st Hin Hnx Hne)).
            unfold SubstBase.rebuilt. cbn [Node.mk_tuple fst]. apply toks_NT.
          - unfold SubstBase.rebuilt. cbn [Node.mk_tuple fst]. apply toks_NT. }
        cbn [flat_map]. rewrite app_nil_r, Hp. split.
        + now rewrite B1.
        + intro Hc. rewrite (B2 Hc). unfold e. now rewrite toks_NT.
    Qed.

    Lemma TL_all l : TL l.
    Proof. apply TL_of. apply Forall_forall. intros e _. apply T1_all. Qed.
  End Main.

  Theorem subst_tokens_strong_proof : forall l ri rs next,
    NoDup (ids_l l) ->
    (forall i h cl st, In (NT i h cl) (subnodes_l l) ->
       incl (s_ri st) ri -> next <= s_next st ->
       node_eq (fst (mk_tuple (s_next (snd (subst_list rs cl st))) (fst (subst_list rs cl st))))
               (NT i h cl) = true ->
       shape (fst (mk_tuple (s_next (snd (subst_list rs cl st))) (fst (subst_list rs cl st))))
         = shape (NT i h cl)) ->
    flat_map toks (snd (fst (substitute l ri rs next))) = flat_map (spec_toks ri rs) l.
  Proof.
    intros l ri rs next HND Hsound. unfold Subst.substitute.
    destruct (repl_empty ri rs) eqn:He.
    - cbn [fst snd]. apply repl_empty_true in He as [-> ->].
      apply flat_map_ext_in. intros a _. symmetry. apply spec_toks_nohit. reflexivity.
    - destruct (TL_all ri rs next l (mk_sst ri next false)) as [B1 B2].
      + intros x Hx. destruct x as [i s|i h cl]; [exact I|]. cbn [sound_at].
        intros st H1 H2. exact (Hsound i h cl st Hx H1 H2).
      + exact HND.
      + apply incl_refl.
      + cbn [s_next]. lia.
      + reflexivity.
      + destruct (subst_list rs l (mk_sst ri next false)) as [r st]. cbn [fst snd] in *.
        destruct (s_changed st); cbn [fst snd]; [exact B1|].
        rewrite <- B1. symmetry. now apply B2.
  Qed.

  Theorem subst_tokens_proof : forall l ri rs next,
    NoDup (ids_l l) ->
    (forall a b, node_eq a b = true -> shape a = shape b) ->
    flat_map toks (snd (fst (substitute l ri rs next))) = flat_map (spec_toks ri rs) l.
  Proof.
    intros l ri rs next HND Hsound. apply subst_tokens_strong_proof; [exact HND|].
    intros i h cl st _ _ _. apply Hsound.
  Qed.
End SubstTokens.

(* a structural key occurring inside its own replacement: key leaf a,
   replacement (+ a 1), input (+ a 1); the result is (+ (+ a 1) 1), and so is
   the specification.  Second part: an identity key on the leaf a. *)
Section Example.
  Let hs (s : str) : Z := fold_right (fun c a => (Z.of_N c + 31 * a)%Z) 7%Z s.
  Let ht (l : list Z) : Z := fold_right (fun c a => (c + 33 * a)%Z) 5%Z l.
  Let a : str := [97%N].
  Let plus : str := [43%N].
  Let one : str := [49%N].
  Let input : node := NT 4 (ht [hs plus; hs a; hs one]) [NL 1 plus; NL 2 a; NL 3 one].
  Let key : node := NL 5 a.
  Let repl : node := NT 9 (ht [hs plus; hs a; hs one]) [NL 6 plus; NL 7 a; NL 8 one].
  Let expected : list lexeme :=
    [LPar; Tok plus; LPar; Tok plus; Tok a; Tok one; RPar; Tok one; RPar].

  Example subst_tokens_ex :
    flat_map toks (snd (fst (substitute hs ht [input] [] [(key, Some repl)] 9))) = expected /\
    flat_map (spec_toks hs [] [(key, Some repl)]) [input] = expected /\
    flat_map toks (snd (fst (substitute hs ht [input] [(2, Some repl)] [] 9))) = expected /\
    flat_map (spec_toks hs [(2, Some repl)] []) [input] = expected.
  Proof. vm_compute. repeat split; reflexivity. Qed.
End Example.

(* The unrestricted soundness hypothesis of subst_tokens_proof cannot be met:
   node_eq answers true on two different leaves that carry the same identity.
   subst_tokens_strong_proof is the statement to compose with a soundness
   result for node_eq on coherent nodes. *)
Lemma node_eq_unrestricted_unsound (hstr : str -> Z) :
  ~ (forall a b, node_eq hstr a b = true -> shape a = shape b).
Proof.
  intro H. specialize (H (NL 1 [97%N]) (NL 1 [98%N]) eq_refl). discriminate H.
Qed.

(* NoDup is needed: an identity key is consumed on first use, so with a shared
   leaf the model and the consumption-free specification differ *)
Section ExampleNoDup.
  Let hs (s : str) : Z := fold_right (fun c a => (Z.of_N c + 31 * a)%Z) 7%Z s.
  Let ht (l : list Z) : Z := fold_right (fun c a => (c + 33 * a)%Z) 5%Z l.
  Let a : str := [97%N].
  Let b : str := [98%N].

  Example subst_tokens_needs_nodup :
    flat_map toks (snd (fst (substitute hs ht [NL 2 a; NL 2 a] [(2, Some (NL 7 b))] [] 9)))
      = [Tok b; Tok a] /\
    flat_map (spec_toks hs [(2, Some (NL 7 b))] []) [NL 2 a; NL 2 a] = [Tok b; Tok b].
  Proof. vm_compute. split; reflexivity. Qed.
End ExampleNoDup.
