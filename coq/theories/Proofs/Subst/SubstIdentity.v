(* S2, S3: subtrees to which no key applies are returned as the identical
   node; when no key applies at all the very same list is returned. *)
From DD Require Import Model.Subst Proofs.Redup.ListAux Proofs.Subst.SubstBase.

Section SubstIdentity.
  Variable hstr : str -> Z.
  Variable htup : list Z -> Z.
  Notation node_eq := (node_eq hstr).
  Notation nhash := (nhash hstr).
  Notation hash_ok := (hash_ok hstr htup).
  Notation mk_tuple := (mk_tuple hstr htup).
  Notation lookup_s := (lookup_s hstr).
  Notation subst1 := (subst1 hstr htup).
  Notation subst_list := (subst_list hstr htup).
  Notation substitute := (substitute hstr htup).

  (* no node of the tree is a key *)
  Definition clean (ri : irepl) (rs : srepl) (e : node) : Prop :=
    forall x, In x (subnodes e) -> find_id ri x = None /\ lookup_s rs x = None.

  Lemma clean_child ri rs i h l x : clean ri rs (NT i h l) -> In x l -> clean ri rs x.
  Proof. intros Hc Hx y Hy. apply Hc. eapply subnodes_child; eassumption. Qed.

  (* ---- node_eq on a tuple rebuilt from the identical children ---- *)

  Fixpoint eq_all (l m : list node) : bool :=
    match l, m with
    | [], [] => true
    | x :: l', y :: m' => node_eq x y && eq_all l' m'
    | _, _ => false
    end.

  Lemma node_eq_NT i h l i' h' m :
    node_eq (NT i h l) (NT i' h' m) =
    if Z.eqb i i' then true
    else Z.eqb h h' && Nat.eqb (length l) (length m) && eq_all l m.
  Proof.
    cbn [NodeEq.node_eq nid]. destruct (Z.eqb i i'); reflexivity.
  Qed.

  Lemma node_eq_same a : node_eq a a = true.
  Proof. destruct a; cbn [NodeEq.node_eq nid]; now rewrite Z.eqb_refl. Qed.

  Lemma eq_all_same l : eq_all l l = true.
  Proof. induction l as [|x l IH]; [reflexivity|]. cbn [eq_all]. now rewrite node_eq_same, IH. Qed.

  Lemma node_eq_rebuilt nx i h l :
    hash_ok (NT i h l) = true -> node_eq (rebuilt hstr htup nx l) (NT i h l) = true.
  Proof.
    intro Hok. cbn [Node.hash_ok] in Hok. apply andb_true_iff in Hok as [Hh _].
    apply Z.eqb_eq in Hh. unfold rebuilt. cbn [Node.mk_tuple fst]. rewrite node_eq_NT.
    destruct (Z.eqb (nx + 1) i); [reflexivity|].
    rewrite Hh, Z.eqb_refl, Nat.eqb_refl, eq_all_same. reflexivity.
  Qed.

  (* ---- state: the identity map and the changed flag are untouched ---- *)

  Definition same_state (st st' : sst) : Prop :=
    s_ri st' = s_ri st /\ s_changed st' = s_changed st.

  Lemma subst_list_clean_state_of rs l :
    Forall (fun e => forall st, clean (s_ri st) rs e -> same_state st (snd (subst1 rs e st))) l ->
    forall st, (forall e, In e l -> clean (s_ri st) rs e) ->
               same_state st (snd (subst_list rs l st)).
  Proof.
    intro HF. induction HF as [|x xs Hx _ IH]; intros st Hc; [split; reflexivity|].
    rewrite subst_list_cons. cbn [snd].
    destruct (Hx st (Hc x (or_introl eq_refl))) as [A1 A2].
    destruct (IH (snd (subst1 rs x st))) as [B1 B2].
    { intros e He. rewrite A1. apply Hc. now right. }
    split; congruence.
  Qed.

  Lemma subst1_clean_state rs e : forall st,
    clean (s_ri st) rs e -> same_state st (snd (subst1 rs e st)).
  Proof.
    induction e as [i s|i h l IH] using node_ind'; intros st Hc; rewrite subst1_eq;
      destruct (Hc _ (subnodes_self _)) as [Hf Hl]; rewrite Hf, Hl.
    - split; reflexivity.
    - destruct (repl_empty (s_ri st) rs); [split; reflexivity|]. cbn [snd].
      destruct (subst_list_clean_state_of rs l IH st) as [A1 A2].
      { intros x Hx. eapply clean_child; eassumption. }
      split; [exact A1|exact A2].
  Qed.

  Lemma subst_list_clean_state rs l : forall st,
    (forall e, In e l -> clean (s_ri st) rs e) -> same_state st (snd (subst_list rs l st)).
  Proof.
    apply subst_list_clean_state_of. apply Forall_forall. intros e _. apply subst1_clean_state.
  Qed.

  (* ---- result: the identical node ---- *)

  Lemma subst_list_clean_id_of rs l :
    Forall (fun e => forall st, clean (s_ri st) rs e -> hash_ok e = true ->
                                fst (subst1 rs e st) = [e]) l ->
    forall st, (forall e, In e l -> clean (s_ri st) rs e) -> forallb hash_ok l = true ->
               fst (subst_list rs l st) = l.
  Proof.
    intro HF. induction HF as [|x xs Hx _ IH]; intros st Hc Hok; [reflexivity|].
    rewrite subst_list_cons. cbn [fst forallb] in *. apply andb_true_iff in Hok as [H1 H2].
    rewrite (Hx st (Hc x (or_introl eq_refl)) H1).
    destruct (subst1_clean_state rs x st (Hc x (or_introl eq_refl))) as [A1 _].
    rewrite IH; [reflexivity| |exact H2].
    intros e He. rewrite A1. apply Hc. now right.
  Qed.

  Lemma subst1_clean_id rs e : forall st,
    clean (s_ri st) rs e -> hash_ok e = true -> fst (subst1 rs e st) = [e].
  Proof.
    induction e as [i s|i h l IH] using node_ind'; intros st Hc Hok; rewrite subst1_eq;
      destruct (Hc _ (subnodes_self _)) as [Hf Hl]; rewrite Hf, Hl.
    - reflexivity.
    - destruct (repl_empty (s_ri st) rs); [reflexivity|]. cbn [fst].
      rewrite (subst_list_clean_id_of rs l IH st).
      + unfold pick. now rewrite node_eq_rebuilt.
      + intros x Hx. eapply clean_child; eassumption.
      + cbn [Node.hash_ok] in Hok. now apply andb_true_iff in Hok as [_ H2].
  Qed.

  Theorem subst_identity_proof : forall rs e st,
    clean (s_ri st) rs e -> hash_ok e = true ->
    fst (subst1 rs e st) = [e] /\
    s_ri (snd (subst1 rs e st)) = s_ri st /\
    s_changed (snd (subst1 rs e st)) = s_changed st.
  Proof.
    intros rs e st Hc Hok. split; [now apply subst1_clean_id|].
    exact (subst1_clean_state rs e st Hc).
  Qed.

  (* the changed flag does not depend on the cached hashes *)
  Theorem subst_unchanged_nohash_proof : forall l ri rs next,
    (forall e, In e l -> clean ri rs e) ->
    fst (fst (substitute l ri rs next)) = false /\ snd (fst (substitute l ri rs next)) = l.
  Proof.
    intros l ri rs next Hc. unfold Subst.substitute.
    destruct (repl_empty ri rs); [split; reflexivity|].
    destruct (subst_list_clean_state rs l (mk_sst ri next false) Hc) as [_ A2].
    destruct (subst_list rs l (mk_sst ri next false)) as [r st]. cbn [snd s_changed] in A2.
    rewrite A2. split; reflexivity.
  Qed.

  Theorem subst_unchanged_proof : forall l ri rs next,
    (forall e, In e l -> clean ri rs e) -> forallb hash_ok l = true ->
    fst (fst (substitute l ri rs next)) = false /\ snd (fst (substitute l ri rs next)) = l.
  Proof. intros l ri rs next Hc _. now apply subst_unchanged_nohash_proof. Qed.

  (* the list computed internally is the input list too, element by element *)
  Theorem subst_list_identity_proof : forall rs l st,
    (forall e, In e l -> clean (s_ri st) rs e) -> forallb hash_ok l = true ->
    fst (subst_list rs l st) = l.
  Proof.
    intros rs l. apply subst_list_clean_id_of. apply Forall_forall.
    intros e _. apply subst1_clean_id.
  Qed.
End SubstIdentity.
