(* S1: the explicit-stack loop of substitute terminates within a linear number
   of iterations and computes the structural function. *)
From DD Require Import Model.Subst Proofs.Redup.ListAux Proofs.Subst.SubstBase.

Section SubstMachine.
  Variable hstr : str -> Z.
  Variable htup : list Z -> Z.
  Notation node_eq := (node_eq hstr).
  Notation mk_tuple := (mk_tuple hstr htup).
  Notation lookup_s := (lookup_s hstr).
  Notation subst1 := (subst1 hstr htup).
  Notation subst_list := (subst_list hstr htup).
  Notation substitute := (substitute hstr htup).
  Notation sm_step := (sm_step hstr htup).
  Notation sm_run := (sm_run hstr htup).
  Notation substitute_sm := (substitute_sm hstr htup).

  Definition ms (visit : list (node * bool)) (args : list (list node)) (st : sst) : mst :=
    mk_mst visit args (s_ri st) (s_next st) (s_changed st).

  Definition unvisited (l : list node) : list (node * bool) := map (fun x => (x, false)) l.

  Lemma sm_run_step k rs m m' p v :
    m_visit m = p :: v -> sm_step rs m = Some m' -> sm_run (S k) rs m = sm_run k rs m'.
  Proof. intros Hv Hs. cbn [Subst.sm_run]. rewrite Hv, Hs. reflexivity. Qed.

  Lemma sm_run_done k rs m : m_visit m = [] -> sm_run k rs m = Some m.
  Proof. intro Hv. destruct k; cbn [Subst.sm_run]; rewrite Hv; reflexivity. Qed.

  Lemma sm_run_mono rs k : forall m m' d, sm_run k rs m = Some m' -> sm_run (k + d) rs m = Some m'.
  Proof.
    induction k as [|k IH]; intros m m' d H.
    - cbn [Subst.sm_run] in H. destruct (m_visit m) eqn:Hv; [|discriminate].
      rewrite sm_run_done; [exact H|exact Hv].
    - cbn [Subst.sm_run plus] in *. destruct (m_visit m) eqn:Hv; [exact H|].
      destruct (sm_step rs m) as [m1|]; [|discriminate]. now apply IH.
  Qed.

  Lemma nsize_pos e : (1 <= nsize e)%nat.
  Proof. destruct e; cbn [nsize]; lia. Qed.

  (* processing one unvisited entry *)
  Definition P1 (rs : srepl) (e : node) : Prop :=
    forall st visit top more,
    exists k, (k <= 2 * nsize e)%nat /\
      forall d, sm_run (k + d) rs (ms ((e, false) :: visit) (top :: more) st) =
                sm_run d rs (ms visit ((rev (fst (subst1 rs e st)) ++ top) :: more)
                                (snd (subst1 rs e st))).

  Definition PL (rs : srepl) (l : list node) : Prop :=
    forall st visit top more,
    exists k, (k <= 2 * nsizes l)%nat /\
      forall d, sm_run (k + d) rs (ms (unvisited l ++ visit) (top :: more) st) =
                sm_run d rs (ms visit ((rev (fst (subst_list rs l st)) ++ top) :: more)
                                (snd (subst_list rs l st))).

  Lemma PL_of rs l : Forall (P1 rs) l -> PL rs l.
  Proof.
    intro HF. induction HF as [|x xs Hx _ IH]; intros st visit top more.
    - exists O. split; [lia|]. intro d. reflexivity.
    - destruct (Hx st (unvisited xs ++ visit) top more) as (k1 & B1 & R1).
      destruct (IH (snd (subst1 rs x st)) visit (rev (fst (subst1 rs x st)) ++ top) more)
        as (k2 & B2 & R2).
      exists (k1 + k2)%nat. split.
      + unfold nsizes in *. cbn [fold_right]. lia.
      + intro d. cbn [unvisited map app]. fold (unvisited xs).
        rewrite <- Nat.add_assoc. rewrite R1, R2. rewrite subst_list_cons. cbn [fst snd].
        rewrite rev_app_distr, app_assoc. reflexivity.
  Qed.

  Lemma one_step rs m m' p v :
    m_visit m = p :: v -> sm_step rs m = Some m' ->
    forall d, sm_run (1 + d) rs m = sm_run d rs m'.
  Proof. intros Hv Hs d. exact (sm_run_step d rs m m' p v Hv Hs). Qed.

  Lemma P1_all rs e : P1 rs e.
  Proof.
    induction e as [i s|i h l IH] using node_ind'; intros st visit top more; rewrite subst1_eq.
    - exists 1%nat. split; [cbn [nsize]; lia|].
      eapply one_step; [reflexivity|]. unfold Subst.sm_step, ms. cbn [m_visit m_ri m_args m_next m_changed].
      destruct (find_id (s_ri st) (NL i s)) as [v|]; [reflexivity|].
      destruct (lookup_s rs (NL i s)) as [v|]; [reflexivity|].
      cbn [n_is_leaf]. rewrite orb_true_r. destruct st; reflexivity.
    - set (e := NT i h l) in *.
      destruct (find_id (s_ri st) e) as [v|] eqn:Hf.
      { exists 1%nat. split; [pose proof (nsize_pos e); lia|].
        eapply one_step; [reflexivity|]. unfold Subst.sm_step, ms.
        cbn [m_visit m_ri m_args m_next m_changed]. rewrite Hf. reflexivity. }
      destruct (lookup_s rs e) as [v|] eqn:Hl.
      { exists 1%nat. split; [pose proof (nsize_pos e); lia|].
        eapply one_step; [reflexivity|]. unfold Subst.sm_step, ms.
        cbn [m_visit m_ri m_args m_next m_changed]. rewrite Hf, Hl. reflexivity. }
      destruct (repl_empty (s_ri st) rs) eqn:He.
      { exists 1%nat. split; [pose proof (nsize_pos e); lia|].
        eapply one_step; [reflexivity|]. unfold Subst.sm_step, ms.
        cbn [m_visit m_ri m_args m_next m_changed]. rewrite Hf, Hl, He. cbn [orb].
        destruct st; reflexivity. }
      destruct (PL_of rs l IH st ((e, true) :: visit) [] (top :: more)) as (kl & BL & RL).
      exists (S (kl + 1))%nat. split.
      { change (nsize e) with (S (nsizes l)). lia. }
      intro d. replace (S (kl + 1) + d)%nat with (1 + (kl + (1 + d)))%nat by lia.
      rewrite (one_step rs (ms ((e, false) :: visit) (top :: more) st)
                 (ms (unvisited l ++ (e, true) :: visit) ([] :: top :: more) st)
                 (e, false) visit eq_refl).
      2:{ unfold Subst.sm_step, ms. cbn [m_visit m_ri m_args m_next m_changed].
          rewrite Hf, Hl, He. cbn [orb n_is_leaf e children]. reflexivity. }
      rewrite RL.
      eapply one_step; [reflexivity|]. unfold Subst.sm_step, ms.
      cbn [m_visit m_ri m_args m_next m_changed].
      rewrite (find_id_ri_le _ _ e (subst_list_ri_le hstr htup rs l st) Hf), Hl.
      rewrite app_nil_r, rev_involutive. reflexivity.
  Qed.

  Lemma PL_all rs l : PL rs l.
  Proof. apply PL_of. apply Forall_forall. intros e _. apply P1_all. Qed.

  Theorem subst_refines_proof : forall l ri rs next,
    substitute_sm (2 * nsizes l + 2) l ri rs next = Some (substitute l ri rs next).
  Proof.
    intros l ri rs next. unfold Subst.substitute_sm, Subst.substitute.
    destruct (repl_empty ri rs); [reflexivity|].
    destruct (PL_all rs l (mk_sst ri next false) [] [] []) as (k & B & R).
    rewrite app_nil_r in R. unfold ms, unvisited in R. cbn [s_ri s_next s_changed] in R.
    replace (2 * nsizes l + 2)%nat with (k + (2 * nsizes l + 2 - k))%nat by lia.
    rewrite R. rewrite sm_run_done by reflexivity. cbn [m_args m_changed m_next].
    destruct (subst_list rs l (mk_sst ri next false)) as [r st]. cbn [fst snd].
    rewrite app_nil_r, rev_involutive. reflexivity.
  Qed.

  (* any larger fuel gives the same answer *)
  Theorem subst_refines_ge_proof : forall fuel l ri rs next,
    (2 * nsizes l + 2 <= fuel)%nat ->
    substitute_sm fuel l ri rs next = Some (substitute l ri rs next).
  Proof.
    intros fuel l ri rs next Hge. pose proof (subst_refines_proof l ri rs next) as H.
    unfold Subst.substitute_sm in *. destruct (repl_empty ri rs); [exact H|].
    destruct (sm_run (2 * nsizes l + 2) rs
                (mk_mst (map (fun x => (x, false)) l) [[]] ri next false)) as [m|] eqn:E;
      [|discriminate].
    replace fuel with (2 * nsizes l + 2 + (fuel - (2 * nsizes l + 2)))%nat by lia.
    rewrite (sm_run_mono rs _ _ _ _ E). exact H.
  Qed.
End SubstMachine.

(* a structural key occurring inside its own replacement: key leaf a,
   replacement (+ a 1), input (+ a 1); result (+ (+ a 1) 1) *)
Section Example.
  Let hs (s : str) : Z := fold_right (fun c a => (Z.of_N c + 31 * a)%Z) 7%Z s.
  Let ht (l : list Z) : Z := fold_right (fun c a => (c + 33 * a)%Z) 5%Z l.
  Let a : str := [97%N].
  Let plus : str := [43%N].
  Let one : str := [49%N].
  Let input : node := NT 4 (ht [hs plus; hs a; hs one]) [NL 1 plus; NL 2 a; NL 3 one].
  Let key : node := NL 5 a.
  Let repl : node := NT 9 (ht [hs plus; hs a; hs one]) [NL 6 plus; NL 7 a; NL 8 one].

  Example subst_refines_ex :
    substitute_sm hs ht (2 * nsizes [input] + 2) [input] [] [(key, Some repl)] 9
      = Some (substitute hs ht [input] [] [(key, Some repl)] 9) /\
    map shape (snd (fst (substitute hs ht [input] [] [(key, Some repl)] 9)))
      = [T [L plus; T [L plus; L a; L one]; L one]].
  Proof. vm_compute. split; reflexivity. Qed.
End Example.
