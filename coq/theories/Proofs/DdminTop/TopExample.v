(* A small instance of Model/DdminTop.v: inputs are lists of numbers, the
   "nodes" are the elements; the subsets of a generator are the chunks of
   size g of the input it was built from, filtered again against the current
   input.  DropOne proposes, for every element of the subset, the current input
   without it; DropAll proposes the current input without the whole subset.
   An input is accepted iff it contains 7.  The instance satisfies the
   hypotheses of the termination theorems (measure = length). *)
From DD Require Export Proofs.DdminTop.TopTerm.

Inductive ex_mut : Type := DropOne | DropAll.

Definition ex_subset (g : nat) (x0 : list nat) (k : nat) : list nat := firstn g (skipn (k * g) x0).
Definition ex_present (x : list nat) (s : list nat) : list nat := filter (fun v => existsb (Nat.eqb v) x) s.
Definition ex_nfiltered (m : ex_mut) (x : list nat) : nat := length x.
Definition ex_cands (m : ex_mut) (g : nat) (x0 : list nat) (k : nat) (x : list nat) : list (list nat) :=
  let s := ex_present x (ex_subset g x0 k) in
  match m with
  | DropOne => map (fun v => filter (fun u => negb (Nat.eqb u v)) x) s
  | DropAll => match s with [] => [] | _ => [filter (fun u => negb (existsb (Nat.eqb u) s)) x] end
  end.
Definition ex_accept (l : list nat) : bool := existsb (Nat.eqb 7) l.
Definition ex_redup (l : list nat) : list nat := l.
Definition ex_cexprs (l : list nat) : Z := Z.of_nat (length l).

Definition ex_apply := apply_mutator (list nat) ex_mut ex_nfiltered ex_cands ex_accept ex_redup ex_cexprs.
Definition ex_reduce := reduce (list nat) ex_mut ex_nfiltered ex_cands ex_accept ex_redup ex_cexprs.

(* ------------------------------------------------------------------ *)
(* the hypotheses hold *)

Lemma ex_filter_length_le : forall (f : nat -> bool) (l : list nat), length (filter f l) <= length l.
Proof.
  intros f. induction l as [ | a l IH ]; cbn [filter length].
  - lia.
  - destruct (f a); cbn [length]; lia.
Qed.

Lemma ex_filter_length_lt : forall (f : nat -> bool) (l : list nat) (v : nat),
  In v l -> f v = false -> length (filter f l) < length l.
Proof.
  intros f. induction l as [ | a l IH ]; intros v Hin Hf.
  - destruct Hin.
  - cbn [filter length]. destruct Hin as [ -> | Hin ].
    + rewrite Hf. pose proof (ex_filter_length_le f l) as Hle. lia.
    + pose proof (IH v Hin Hf) as Hlt. destruct (f a); cbn [length]; lia.
Qed.

Lemma ex_present_In : forall (x s : list nat) (v : nat), In v (ex_present x s) -> In v x.
Proof.
  intros x s v H. unfold ex_present in H. apply filter_In in H. destruct H as [ _ H ].
  apply existsb_exists in H. destruct H as (u & Hu & E). apply Nat.eqb_eq in E. subst u. exact Hu.
Qed.

Lemma ex_redup_length_lemma : forall z : list nat, length (ex_redup z) = length z.
Proof. intros z. reflexivity. Qed.

Lemma ex_redup_cexprs_lemma : forall z : list nat, ex_cexprs (ex_redup z) = ex_cexprs z.
Proof. intros z. reflexivity. Qed.

Lemma ex_mu_dec_lemma : forall (m : ex_mut) (g : nat) (x0 : list nat) (k : nat) (z c : list nat),
  In c (ex_cands m g x0 k z) -> ex_accept c = true -> length c < length z.
Proof.
  intros m g x0 k z c Hin _. unfold ex_cands in Hin. destruct m.
  - apply in_map_iff in Hin. destruct Hin as (v & <- & Hv). apply ex_present_In in Hv.
    apply (ex_filter_length_lt _ z v Hv). rewrite Nat.eqb_refl. reflexivity.
  - destruct (ex_present z (ex_subset g x0 k)) as [ | v s ] eqn:E.
    + destruct Hin.
    + destruct Hin as [ <- | [] ].
      assert (Hv : In v z). { apply (ex_present_In z (ex_subset g x0 k)). rewrite E. left. reflexivity. }
      apply (ex_filter_length_lt _ z v Hv). cbn [existsb]. rewrite Nat.eqb_refl. reflexivity.
Qed.

(* hence the general theorems apply *)
Lemma ex_reduce_terminates_lemma : forall (s1 s2 : list ex_mut) (x : list nat) (w : list (list nat)),
  exists y w', ex_reduce s1 s2 (S (length x)) x w = Some (y, w').
Proof.
  intros s1 s2 x w. unfold ex_reduce.
  apply (reduce_terminates_lemma (list nat) ex_mut ex_nfiltered ex_cands ex_accept ex_redup ex_cexprs
           (@length nat) ex_redup_length_lemma ex_mu_dec_lemma).
Qed.

(* ------------------------------------------------------------------ *)
(* runs *)

Lemma ex_run1_lemma :
  ex_reduce [DropOne] [DropAll] 7 [1; 2; 7; 3; 4; 5] [] =
  Some ([7], [[7]; [7; 5]; [7; 3; 5]; [7; 3; 4; 5]; [2; 7; 3; 4; 5]]).
Proof. vm_compute. reflexivity. Qed.

Lemma ex_run2_lemma :
  ex_reduce [DropAll] [DropOne] 7 [1; 2; 7; 3; 4; 5] [] = Some ([7], [[7]; [2; 7]; [1; 2; 7]]).
Proof. vm_compute. reflexivity. Qed.

(* two rounds are needed (the second finds nothing), one unit of fuel is not enough *)
Lemma ex_run_fuel_lemma :
  ex_reduce [DropAll] [DropOne] 2 [1; 2; 7; 3; 4; 5] [] = Some ([7], [[7]; [2; 7]; [1; 2; 7]]) /\
  ex_reduce [DropAll] [DropOne] 1 [1; 2; 7; 3; 4; 5] [] = None.
Proof. split; vm_compute; reflexivity. Qed.

Lemma ex_apply_lemma :
  ex_apply DropAll [1; 2; 7; 3; 4; 5] [] =
  Some (mk_acc [7] [[7]; [2; 7]; [1; 2; 7]] 5%Z).
Proof. vm_compute. reflexivity. Qed.

(* the chain of the first run, from the general theorem (tokens = the list itself) *)
Lemma ex_chain_lemma :
  chain ex_cands ex_accept (fun l : list nat => l) [1; 2; 7; 3; 4; 5]
        [[2; 7; 3; 4; 5]; [7; 3; 4; 5]; [7; 3; 5]; [7; 5]; [7]] [7].
Proof.
  destruct (reduce_chain_lemma (list nat) ex_mut ex_nfiltered ex_cands ex_accept ex_redup ex_cexprs
              (list nat) (fun l => l) (fun z => eq_refl) _ _ _ _ _ _ _ ex_run1_lemma) as (new & Hw & Hch).
  rewrite app_nil_r in Hw. subst new. exact Hch.
Qed.

(* ------------------------------------------------------------------ *)
(* a net reduction of 0 does not mean that nothing was adopted: a mutator that
   replaces an element by 0 keeps the expression count *)
Definition ex0_cands (m : unit) (g : nat) (x0 : list nat) (k : nat) (x : list nat) : list (list nat) :=
  map (fun v => map (fun u => if Nat.eqb u v then 0 else u) x)
      (filter (fun v => negb (Nat.eqb v 0)) (ex_present x (ex_subset g x0 k))).

Lemma ex0_zero_net_lemma :
  apply_mutator (list nat) unit (fun _ x => length x) ex0_cands ex_accept ex_redup ex_cexprs tt [7; 3] [] =
  Some (mk_acc [7; 0] [[7; 0]] 0%Z).
Proof. vm_compute. reflexivity. Qed.

(* so stage 1 does not repeat the mutator although the application changed the input *)
Lemma ex0_stage1_lemma :
  stage1_mut (list nat) unit (fun _ x => length x) ex0_cands ex_accept ex_redup ex_cexprs tt 5 [7; 3; 4] [] 0%Z =
  Some ([7; 0; 0], [[7; 0; 0]; [7; 0; 4]], 0%Z).
Proof. vm_compute. reflexivity. Qed.
