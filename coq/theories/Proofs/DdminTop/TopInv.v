(* Consequences of the invariant [run] / [summ] (TopBase.v):
   (A) writes only grow and everything written was accepted,
   (B) the new writes form a chain (w.r.t. any token function that
       re-duplication preserves) from the incoming input to the final one,
   (C) the 'reduced' counter is cexprs(incoming) - cexprs(final),
   (D2) the number of adoptions is bounded by the decrease of a measure,
   each for every layer of Model/DdminTop.v. *)
From DD Require Export Proofs.DdminTop.TopBase.

Section TopInv.
  Variable input : Type.
  Variable mutator : Type.
  Variable nfiltered : mutator -> input -> nat.
  Variable cands : mutator -> nat -> input -> nat -> input -> list input.
  Variable accept : input -> bool.
  Variable redup : input -> input.
  Variable cexprs : input -> Z.

  Local Notation CS := (check_seq input mutator cands accept cexprs).
  Local Notation GL := (gran_loop input mutator nfiltered cands accept redup cexprs).
  Local Notation AM := (apply_mutator input mutator nfiltered cands accept redup cexprs).
  Local Notation S1M := (stage1_mut input mutator nfiltered cands accept redup cexprs).
  Local Notation ST1 := (stage1 input mutator nfiltered cands accept redup cexprs).
  Local Notation ST2 := (stage2 input mutator nfiltered cands accept redup cexprs).
  Local Notation RED := (reduce input mutator nfiltered cands accept redup cexprs).
  Local Notation run := (run cands accept redup cexprs).
  Local Notation summ := (summ cands accept redup cexprs).
  Local Notation derives := (derives cands).
  Local Notation chain := (chain cands accept).

  (* ---------------------------------------------------------------- *)
  (* properties of [run] *)

  Lemma run_accept : forall x new d y, run x new d y -> forall c, In c new -> accept c = true.
  Proof.
    intros x new d y H.
    induction H as [ d Hd | new d y H IH | new d d' y c H IH Hder Hacc Hd ]; intros c0 Hin.
    - destruct Hin.
    - apply IH. exact Hin.
    - destruct Hin as [ <- | Hin ]; [ exact Hacc | apply IH; exact Hin ].
  Qed.

  Lemma run_nil : forall x new d y,
    run x new d y -> new = [] -> d = 0%Z /\ exists k, y = Nat.iter k redup x.
  Proof.
    intros x new d y H.
    induction H as [ d Hd | new d y H IH | new d d' y c H IH Hder Hacc Hd ]; intros Hnil.
    - split; [ exact Hd | exists 0; reflexivity ].
    - destruct (IH Hnil) as [ Hd (k & Hk) ]. split; [ exact Hd | ]. exists (S k). cbn [Nat.iter nat_rect]. rewrite Hk. reflexivity.
    - discriminate Hnil.
  Qed.

  Lemma run_progress : forall x new d y, run x new d y -> d <> 0%Z -> 1 <= length new.
  Proof.
    intros x new d y H Hd. destruct new as [ | c new ].
    - destruct (run_nil _ _ _ _ H eq_refl) as [ H0 _ ]. contradiction.
    - cbn [length]. lia.
  Qed.

  Lemma run_noaccept : forall x new d y,
    (forall c, accept c = false) -> run x new d y -> new = [].
  Proof.
    intros x new d y Hno H.
    induction H as [ d Hd | new d y H IH | new d d' y c H IH Hder Hacc Hd ].
    - reflexivity.
    - exact IH.
    - rewrite Hno in Hacc. discriminate Hacc.
  Qed.

  Lemma run_cexprs : forall x new d y,
    (forall z, cexprs (redup z) = cexprs z) ->
    run x new d y -> d = (cexprs x - cexprs y)%Z.
  Proof.
    intros x new d y Hc H.
    induction H as [ d Hd | new d y H IH | new d d' y c H IH Hder Hacc Hd ].
    - lia.
    - rewrite Hc. exact IH.
    - lia.
  Qed.

  Lemma chain_snoc : forall (T : Type) (tok : input -> T) t l last,
    chain tok t l last -> forall y c, tok y = last -> derives y c -> accept c = true ->
    chain tok t (l ++ [c]) (tok c).
  Proof.
    intros T tok t l last H.
    induction H as [ t | t x c0 l last Hx Hder0 Hacc0 H IH ]; intros y c Hy Hder Hacc.
    - cbn [app]. eapply chain_cons; [ exact Hy | exact Hder | exact Hacc | apply chain_nil ].
    - cbn [app]. eapply chain_cons; [ exact Hx | exact Hder0 | exact Hacc0 | ].
      eapply IH; [ exact Hy | exact Hder | exact Hacc ].
  Qed.

  Lemma run_chain : forall (T : Type) (tok : input -> T) x new d y,
    (forall z, tok (redup z) = tok z) ->
    run x new d y -> chain tok (tok x) (rev new) (tok y).
  Proof.
    intros T tok x new d y Htok H.
    induction H as [ d Hd | new d y H IH | new d d' y c H IH Hder Hacc Hd ].
    - apply chain_nil.
    - rewrite Htok. exact IH.
    - cbn [rev]. eapply chain_snoc; [ exact IH | reflexivity | exact Hder | exact Hacc ].
  Qed.

  Lemma run_mu : forall (mu : input -> nat) x new d y,
    (forall z, mu (redup z) = mu z) ->
    (forall m g x0 k z c, In c (cands m g x0 k z) -> accept c = true -> mu c < mu z) ->
    run x new d y -> length new + mu y <= mu x.
  Proof.
    intros mu x new d y Hre Hdec H.
    induction H as [ d Hd | new d y H IH | new d d' y c H IH Hder Hacc Hd ].
    - cbn [length]. lia.
    - rewrite Hre. exact IH.
    - destruct Hder as (m & g & x0 & k & Hin). pose proof (Hdec m g x0 k y c Hin Hacc) as Hlt.
      cbn [length]. lia.
  Qed.

  (* ---------------------------------------------------------------- *)
  (* the same for [summ] *)

  Lemma summ_writes : forall x w r x' w' r',
    summ x w r x' w' r' -> exists new, w' = new ++ w /\ forall c, In c new -> accept c = true.
  Proof.
    intros x w r x' w' r' (new & d & Hw & Hr & Hrun). exists new. split; [ exact Hw | ].
    eapply run_accept. exact Hrun.
  Qed.

  Lemma summ_chain : forall (T : Type) (tok : input -> T) x w r x' w' r',
    (forall z, tok (redup z) = tok z) ->
    summ x w r x' w' r' -> exists new, w' = new ++ w /\ chain tok (tok x) (rev new) (tok x').
  Proof.
    intros T tok x w r x' w' r' Htok (new & d & Hw & Hr & Hrun). exists new. split; [ exact Hw | ].
    eapply run_chain; [ exact Htok | exact Hrun ].
  Qed.

  Lemma summ_red : forall x w r x' w' r',
    (forall z, cexprs (redup z) = cexprs z) ->
    summ x w r x' w' r' -> r' = (r + (cexprs x - cexprs x'))%Z.
  Proof.
    intros x w r x' w' r' Hc (new & d & Hw & Hr & Hrun).
    rewrite (run_cexprs _ _ _ _ Hc Hrun) in Hr. exact Hr.
  Qed.

  Lemma summ_mu : forall (mu : input -> nat) x w r x' w' r',
    (forall z, mu (redup z) = mu z) ->
    (forall m g x0 k z c, In c (cands m g x0 k z) -> accept c = true -> mu c < mu z) ->
    summ x w r x' w' r' -> exists new, w' = new ++ w /\ length new + mu x' <= mu x.
  Proof.
    intros mu x w r x' w' r' Hre Hdec (new & d & Hw & Hr & Hrun). exists new. split; [ exact Hw | ].
    eapply run_mu; [ exact Hre | exact Hdec | exact Hrun ].
  Qed.

  (* a changed counter means at least one adoption, hence a strictly smaller measure *)
  Lemma summ_progress : forall (mu : input -> nat) x w r x' w' r',
    (forall z, mu (redup z) = mu z) ->
    (forall m g x0 k z c, In c (cands m g x0 k z) -> accept c = true -> mu c < mu z) ->
    summ x w r x' w' r' -> r' <> r ->
    (exists c new, w' = c :: new ++ w) /\ mu x' < mu x.
  Proof.
    intros mu x w r x' w' r' Hre Hdec (new & d & Hw & Hr & Hrun) Hne.
    assert (Hd : d <> 0%Z) by lia.
    pose proof (run_progress _ _ _ _ Hrun Hd) as Hlen.
    pose proof (run_mu mu _ _ _ _ Hre Hdec Hrun) as Hmu.
    split; [ | lia ].
    destruct new as [ | c new ]; [ cbn [length] in Hlen; lia | ]. exists c, new. exact Hw.
  Qed.

  (* the counter changes only at adoptions: no hypothesis on cexprs needed *)
  Lemma summ_changed : forall x w r x' w' r',
    summ x w r x' w' r' -> r' <> r -> exists c new, w' = c :: new ++ w.
  Proof.
    intros x w r x' w' r' (new & d & Hw & Hr & Hrun) Hne.
    assert (Hd : d <> 0%Z) by lia.
    pose proof (run_progress _ _ _ _ Hrun Hd) as Hlen.
    destruct new as [ | c new ]; [ cbn [length] in Hlen; lia | ]. exists c, new. exact Hw.
  Qed.

  Lemma summ_noaccept : forall x w r x' w' r',
    (forall c, accept c = false) ->
    summ x w r x' w' r' -> r' = r /\ w' = w /\ exists k, x' = Nat.iter k redup x.
  Proof.
    intros x w r x' w' r' Hno (new & d & Hw & Hr & Hrun).
    pose proof (run_noaccept _ _ _ _ Hno Hrun) as Hnil.
    destruct (run_nil _ _ _ _ Hrun Hnil) as [ Hd Hk ]. subst new.
    split; [ lia | ]. split; [ exact Hw | exact Hk ].
  Qed.

  (* ---------------------------------------------------------------- *)
  (* (A) per layer *)

  Lemma check_seq_writes_lemma : forall m g x0 k todo a,
    exists new, a_writes (CS m g x0 k todo a) = new ++ a_writes a /\
                forall c, In c new -> accept c = true.
  Proof.
    (* directly (not via [summ]) so that the statement does not mention redup *)
    intros m g x0 k todo. revert k. induction todo as [ | t IH ]; intros k a; cbn [check_seq].
    - exists []. split; [ reflexivity | intros c [] ].
    - destruct (first_accepted input accept (cands m g x0 k (a_cur a))) as [ c | ] eqn:E.
      + destruct (IH (S k) (mk_acc c (c :: a_writes a) (a_red a + (cexprs (a_cur a) - cexprs c))%Z))
          as (new & Hw & Hacc).
        exists (new ++ [c]). rewrite Hw. cbn [a_writes]. rewrite <- app_assoc. split; [ reflexivity | ].
        intros c0 Hin. apply in_app_or in Hin. destruct Hin as [ Hin | [ <- | [] ] ].
        * apply Hacc. exact Hin.
        * apply first_accepted_some in E. apply E.
      + apply IH.
  Qed.

  Lemma gran_loop_writes_lemma : forall m fuel g a a',
    GL m fuel g a = Some a' ->
    exists new, a_writes a' = new ++ a_writes a /\ forall c, In c new -> accept c = true.
  Proof. intros m fuel g a a' H. eapply summ_writes. eapply gran_loop_summ. exact H. Qed.

  Lemma apply_mutator_writes_lemma : forall m x w a,
    AM m x w = Some a ->
    exists new, a_writes a = new ++ w /\ forall c, In c new -> accept c = true.
  Proof. intros m x w a H. eapply summ_writes. eapply apply_mutator_summ. exact H. Qed.

  Lemma stage1_mut_writes_lemma : forall m fuel x w r x' w' r',
    S1M m fuel x w r = Some (x', w', r') ->
    exists new, w' = new ++ w /\ forall c, In c new -> accept c = true.
  Proof. intros m fuel x w r x' w' r' H. eapply summ_writes. eapply stage1_mut_summ. exact H. Qed.

  Lemma stage1_writes_lemma : forall ms fuel x w r x' w' r',
    ST1 ms fuel x w r = Some (x', w', r') ->
    exists new, w' = new ++ w /\ forall c, In c new -> accept c = true.
  Proof. intros ms fuel x w r x' w' r' H. eapply summ_writes. eapply stage1_summ. exact H. Qed.

  Lemma stage2_writes_lemma : forall ms x w r x' w' r',
    ST2 ms x w r = Some (x', w', r') ->
    exists new, w' = new ++ w /\ forall c, In c new -> accept c = true.
  Proof. intros ms x w r x' w' r' H. eapply summ_writes. eapply stage2_summ. exact H. Qed.

  Lemma reduce_writes_lemma : forall s1 s2 fuel x w y w',
    RED s1 s2 fuel x w = Some (y, w') ->
    exists new, w' = new ++ w /\ forall c, In c new -> accept c = true.
  Proof.
    intros s1 s2 fuel x w y w' H. eapply reduce_summ in H. destruct H as [ r Hr ].
    eapply summ_writes. exact Hr.
  Qed.

  (* ---------------------------------------------------------------- *)
  (* (B) per layer *)

  Section Chain.
    Variable T : Type.
    Variable tok : input -> T.
    Hypothesis Htok : forall z, tok (redup z) = tok z.

    Lemma check_seq_chain_lemma : forall m g x0 k todo a,
      exists new, a_writes (CS m g x0 k todo a) = new ++ a_writes a /\
                  chain tok (tok (a_cur a)) (rev new) (tok (a_cur (CS m g x0 k todo a))).
    Proof. intros. eapply summ_chain; [ exact Htok | ]. apply check_seq_summ. Qed.

    Lemma gran_loop_chain_lemma : forall m fuel g a a',
      GL m fuel g a = Some a' ->
      exists new, a_writes a' = new ++ a_writes a /\
                  chain tok (tok (a_cur a)) (rev new) (tok (a_cur a')).
    Proof. intros m fuel g a a' H. eapply summ_chain; [ exact Htok | ]. eapply gran_loop_summ. exact H. Qed.

    Lemma apply_mutator_chain_lemma : forall m x w a,
      AM m x w = Some a ->
      exists new, a_writes a = new ++ w /\ chain tok (tok x) (rev new) (tok (a_cur a)).
    Proof. intros m x w a H. eapply summ_chain; [ exact Htok | ]. eapply apply_mutator_summ. exact H. Qed.

    Lemma stage1_mut_chain_lemma : forall m fuel x w r x' w' r',
      S1M m fuel x w r = Some (x', w', r') ->
      exists new, w' = new ++ w /\ chain tok (tok x) (rev new) (tok x').
    Proof. intros m fuel x w r x' w' r' H. eapply summ_chain; [ exact Htok | ]. eapply stage1_mut_summ. exact H. Qed.

    Lemma stage1_chain_lemma : forall ms fuel x w r x' w' r',
      ST1 ms fuel x w r = Some (x', w', r') ->
      exists new, w' = new ++ w /\ chain tok (tok x) (rev new) (tok x').
    Proof. intros ms fuel x w r x' w' r' H. eapply summ_chain; [ exact Htok | ]. eapply stage1_summ. exact H. Qed.

    Lemma stage2_chain_lemma : forall ms x w r x' w' r',
      ST2 ms x w r = Some (x', w', r') ->
      exists new, w' = new ++ w /\ chain tok (tok x) (rev new) (tok x').
    Proof. intros ms x w r x' w' r' H. eapply summ_chain; [ exact Htok | ]. eapply stage2_summ. exact H. Qed.

    Lemma reduce_chain_lemma : forall s1 s2 fuel x w y w',
      RED s1 s2 fuel x w = Some (y, w') ->
      exists new, w' = new ++ w /\ chain tok (tok x) (rev new) (tok y).
    Proof.
      intros s1 s2 fuel x w y w' H. eapply reduce_summ in H. destruct H as [ r Hr ].
      eapply summ_chain; [ exact Htok | exact Hr ].
    Qed.
  End Chain.

  (* what a chain says, elementwise *)
  Lemma chain_accept_lemma : forall (T : Type) (tok : input -> T) t l last,
    chain tok t l last -> forall c, In c l -> accept c = true.
  Proof.
    intros T tok t l last H.
    induction H as [ t | t x c0 l last Hx Hder0 Hacc0 H IH ]; intros c Hin.
    - destruct Hin.
    - destruct Hin as [ <- | Hin ]; [ exact Hacc0 | apply IH; exact Hin ].
  Qed.

  Lemma chain_last_lemma : forall (T : Type) (tok : input -> T) t l last,
    chain tok t l last -> last = match rev l with [] => t | c :: _ => tok c end.
  Proof.
    intros T tok t l last H.
    induction H as [ t | t x c0 l last Hx Hder0 Hacc0 H IH ].
    - reflexivity.
    - cbn [rev]. rewrite IH. destruct (rev l) as [ | c r ]; reflexivity.
  Qed.

  Lemma chain_nth_lemma : forall (T : Type) (tok : input -> T) t l last,
    chain tok t l last -> forall i c, nth_error l i = Some c ->
    exists x, derives x c /\ accept c = true /\
              match i with
              | O => tok x = t
              | S j => exists p, nth_error l j = Some p /\ tok x = tok p
              end.
  Proof.
    intros T tok t l last H.
    induction H as [ t | t x c0 l last Hx Hder0 Hacc0 H IH ]; intros i c Hn.
    - destruct i; discriminate Hn.
    - destruct i as [ | i ].
      + cbn [nth_error] in Hn. inversion Hn; subst c0. exists x. split; [ exact Hder0 | ]. split; [ exact Hacc0 | exact Hx ].
      + cbn [nth_error] in Hn. destruct (IH i c Hn) as (y & Hder & Hacc & Hy).
        exists y. split; [ exact Hder | ]. split; [ exact Hacc | ].
        destruct i as [ | j ].
        * exists c0. split; [ reflexivity | exact Hy ].
        * cbn [nth_error]. exact Hy.
  Qed.

  (* ---------------------------------------------------------------- *)
  (* (C) per layer *)

  (* check_seq does not re-duplicate: no hypothesis *)
  Lemma check_seq_red_lemma : forall m g x0 todo k a,
    a_red (CS m g x0 k todo a) =
    (a_red a + (cexprs (a_cur a) - cexprs (a_cur (CS m g x0 k todo a))))%Z.
  Proof.
    intros m g x0. induction todo as [ | t IH ]; intros k a; cbn [check_seq].
    - lia.
    - destruct (first_accepted input accept (cands m g x0 k (a_cur a))) as [ c | ].
      + rewrite IH. cbn [a_cur a_red]. lia.
      + apply IH.
  Qed.

  Section Red.
    Hypothesis Hc : forall z, cexprs (redup z) = cexprs z.

    Lemma gran_loop_red_lemma : forall m fuel g a a',
      GL m fuel g a = Some a' ->
      a_red a' = (a_red a + (cexprs (a_cur a) - cexprs (a_cur a')))%Z.
    Proof. intros m fuel g a a' H. eapply summ_red; [ exact Hc | ]. eapply gran_loop_summ. exact H. Qed.

    Lemma apply_mutator_red_lemma : forall m x w a,
      AM m x w = Some a -> a_red a = (cexprs x - cexprs (a_cur a))%Z.
    Proof.
      intros m x w a H. apply apply_mutator_summ in H. apply (summ_red _ _ _ _ _ _ Hc) in H. lia.
    Qed.

    Lemma stage1_mut_red_lemma : forall m fuel x w r x' w' r',
      S1M m fuel x w r = Some (x', w', r') -> r' = (r + (cexprs x - cexprs x'))%Z.
    Proof. intros m fuel x w r x' w' r' H. eapply summ_red; [ exact Hc | ]. eapply stage1_mut_summ. exact H. Qed.

    Lemma stage1_red_lemma : forall ms fuel x w r x' w' r',
      ST1 ms fuel x w r = Some (x', w', r') -> r' = (r + (cexprs x - cexprs x'))%Z.
    Proof. intros ms fuel x w r x' w' r' H. eapply summ_red; [ exact Hc | ]. eapply stage1_summ. exact H. Qed.

    Lemma stage2_red_lemma : forall ms x w r x' w' r',
      ST2 ms x w r = Some (x', w', r') -> r' = (r + (cexprs x - cexprs x'))%Z.
    Proof. intros ms x w r x' w' r' H. eapply summ_red; [ exact Hc | ]. eapply stage2_summ. exact H. Qed.

    Lemma round_red_lemma : forall s1 s2 fuel x w x1 w1 r1 x2 w2 r2,
      ST1 s1 fuel x w 0%Z = Some (x1, w1, r1) -> ST2 s2 x1 w1 r1 = Some (x2, w2, r2) ->
      r2 = (cexprs x - cexprs x2)%Z.
    Proof.
      intros s1 s2 fuel x w x1 w1 r1 x2 w2 r2 H1 H2.
      assert (H : summ x w 0%Z x2 w2 r2) by (eapply round_summ; [ exact H1 | exact H2 ]).
      apply (summ_red _ _ _ _ _ _ Hc) in H. lia.
    Qed.

    (* reduce: one more round iff the round changed the expression count; the
       result is the outcome of a last round that left the count unchanged *)
    Lemma reduce_unfold_lemma : forall s1 s2 f x w x1 w1 r1 x2 w2 r2,
      ST1 s1 (S f) x w 0%Z = Some (x1, w1, r1) -> ST2 s2 x1 w1 r1 = Some (x2, w2, r2) ->
      RED s1 s2 (S f) x w =
      if Z.eqb (cexprs x) (cexprs x2) then Some (x2, w2) else RED s1 s2 f x2 w2.
    Proof.
      intros s1 s2 f x w x1 w1 r1 x2 w2 r2 H1 H2.
      pose proof (round_red_lemma _ _ _ _ _ _ _ _ _ _ _ H1 H2) as Hr.
      cbn [reduce]. rewrite H1, H2.
      destruct (Z.eqb_spec r2 0%Z) as [ E | E ]; destruct (Z.eqb_spec (cexprs x) (cexprs x2)) as [ E' | E' ];
        try reflexivity; lia.
    Qed.

    Lemma reduce_last_round_lemma : forall s1 s2 fuel x w y w',
      RED s1 s2 fuel x w = Some (y, w') ->
      exists f xl wl x1 w1 r1,
        ST1 s1 f xl wl 0%Z = Some (x1, w1, r1) /\ ST2 s2 x1 w1 r1 = Some (y, w', 0%Z) /\
        cexprs y = cexprs xl.
    Proof.
      intros s1 s2. induction fuel as [ | f IH ]; intros x w y w' H; cbn [reduce] in H.
      - discriminate H.
      - destruct (ST1 s1 (S f) x w 0%Z) as [ [ [ x1 w1 ] r1 ] | ] eqn:E1; [ | discriminate H ].
        destruct (ST2 s2 x1 w1 r1) as [ [ [ x2 w2 ] r2 ] | ] eqn:E2; [ | discriminate H ].
        destruct (Z.eqb_spec r2 0%Z) as [ E | E ].
        + inversion H; subst. exists (S f), x, w, x1, w1, r1. split; [ exact E1 | ]. split; [ exact E2 | ].
          pose proof (round_red_lemma _ _ _ _ _ _ _ _ _ _ _ E1 E2) as Hr. lia.
        + apply IH in H. exact H.
    Qed.
  End Red.

  (* nothing accepted: nothing written, counter 0, input only re-duplicated *)
  Lemma apply_mutator_noaccept_lemma : forall m x w a,
    (forall c, accept c = false) ->
    AM m x w = Some a ->
    a_red a = 0%Z /\ a_writes a = w /\ exists k, a_cur a = Nat.iter k redup x.
  Proof.
    intros m x w a Hno H. apply apply_mutator_summ in H. apply (summ_noaccept _ _ _ _ _ _ Hno) in H. exact H.
  Qed.

  (* ---------------------------------------------------------------- *)
  (* (D2) per layer *)

  Section Mu.
    Variable mu : input -> nat.
    Hypothesis Hre : forall z, mu (redup z) = mu z.
    Hypothesis Hdec : forall m g x0 k z c, In c (cands m g x0 k z) -> accept c = true -> mu c < mu z.

    Lemma check_seq_mu_lemma : forall m g x0 k todo a,
      exists new, a_writes (CS m g x0 k todo a) = new ++ a_writes a /\
                  length new + mu (a_cur (CS m g x0 k todo a)) <= mu (a_cur a).
    Proof. intros. eapply summ_mu; [ exact Hre | exact Hdec | ]. apply check_seq_summ. Qed.

    Lemma gran_loop_mu_lemma : forall m fuel g a a',
      GL m fuel g a = Some a' ->
      exists new, a_writes a' = new ++ a_writes a /\ length new + mu (a_cur a') <= mu (a_cur a).
    Proof. intros m fuel g a a' H. eapply summ_mu; [ exact Hre | exact Hdec | ]. eapply gran_loop_summ. exact H. Qed.

    Lemma apply_mutator_mu_lemma : forall m x w a,
      AM m x w = Some a ->
      exists new, a_writes a = new ++ w /\ length new + mu (a_cur a) <= mu x.
    Proof. intros m x w a H. eapply summ_mu; [ exact Hre | exact Hdec | ]. eapply apply_mutator_summ. exact H. Qed.

    Lemma stage1_mut_mu_lemma : forall m fuel x w r x' w' r',
      S1M m fuel x w r = Some (x', w', r') ->
      exists new, w' = new ++ w /\ length new + mu x' <= mu x.
    Proof. intros m fuel x w r x' w' r' H. eapply summ_mu; [ exact Hre | exact Hdec | ]. eapply stage1_mut_summ. exact H. Qed.

    Lemma stage1_mu_lemma : forall ms fuel x w r x' w' r',
      ST1 ms fuel x w r = Some (x', w', r') ->
      exists new, w' = new ++ w /\ length new + mu x' <= mu x.
    Proof. intros ms fuel x w r x' w' r' H. eapply summ_mu; [ exact Hre | exact Hdec | ]. eapply stage1_summ. exact H. Qed.

    Lemma stage2_mu_lemma : forall ms x w r x' w' r',
      ST2 ms x w r = Some (x', w', r') ->
      exists new, w' = new ++ w /\ length new + mu x' <= mu x.
    Proof. intros ms x w r x' w' r' H. eapply summ_mu; [ exact Hre | exact Hdec | ]. eapply stage2_summ. exact H. Qed.

    Lemma reduce_mu_lemma : forall s1 s2 fuel x w y w',
      RED s1 s2 fuel x w = Some (y, w') ->
      exists new, w' = new ++ w /\ length new + mu y <= mu x.
    Proof.
      intros s1 s2 fuel x w y w' H. eapply reduce_summ in H. destruct H as [ r Hr ].
      eapply summ_mu; [ exact Hre | exact Hdec | exact Hr ].
    Qed.

    (* a non-zero counter: something was adopted and the measure dropped *)
    Lemma apply_mutator_progress_lemma : forall m x w a,
      AM m x w = Some a -> a_red a <> 0%Z ->
      (exists c new, a_writes a = c :: new ++ w) /\ mu (a_cur a) < mu x.
    Proof.
      intros m x w a H Hne. apply apply_mutator_summ in H.
      eapply summ_progress; [ exact Hre | exact Hdec | exact H | exact Hne ].
    Qed.
  End Mu.

  Lemma apply_mutator_changed_lemma : forall m x w a,
    AM m x w = Some a -> a_red a <> 0%Z -> exists c new, a_writes a = c :: new ++ w.
  Proof.
    intros m x w a H Hne. apply apply_mutator_summ in H. eapply summ_changed; [ exact H | exact Hne ].
  Qed.
End TopInv.
