(* Shared infrastructure for the proofs about Model/DdminTop.v.

   [derives x c]   c is a candidate some generator proposes while it holds x
   [chain tok s l e]  l (oldest first) is a chain of accepted candidates: the
                   first is derived from an input with tokens s, each later one
                   from an input with the tokens of its predecessor; e are the
                   tokens of the last element (s if l is empty)
   [run x new d y] the one invariant all layers of the model preserve: starting
                   with current input x the loop re-duplicated and adopted
                   accepted candidates of its current input, ending with current
                   input y; new = the adopted inputs (newest first), d = the sum
                   of the 'reduced' counts of the adoptions
   [summ x w r x' w' r']  w' = new ++ w, r' = r + d, run x new d x'

   Every layer (check_seq .. reduce) is shown to satisfy [summ]; the properties
   (A)-(D) are consequences of [run] (TopInv.v, TopTerm.v). *)
From DD Require Export Model.DdminTop.

Arguments a_cur {input} a.
Arguments a_writes {input} a.
Arguments a_red {input} a.
Arguments mk_acc {input}.

Section TopBase.
  Variable input : Type.
  Variable mutator : Type.
  Variable nfiltered : mutator -> input -> nat.
  Variable cands : mutator -> nat -> input -> nat -> input -> list input.
  Variable accept : input -> bool.
  Variable redup : input -> input.
  Variable cexprs : input -> Z.

  Local Notation FA := (first_accepted input accept).
  Local Notation CS := (check_seq input mutator cands accept cexprs).
  Local Notation GL := (gran_loop input mutator nfiltered cands accept redup cexprs).
  Local Notation AM := (apply_mutator input mutator nfiltered cands accept redup cexprs).
  Local Notation S1M := (stage1_mut input mutator nfiltered cands accept redup cexprs).
  Local Notation ST1 := (stage1 input mutator nfiltered cands accept redup cexprs).
  Local Notation ST2 := (stage2 input mutator nfiltered cands accept redup cexprs).
  Local Notation RED := (reduce input mutator nfiltered cands accept redup cexprs).

  Definition derives (x c : input) : Prop :=
    exists (m : mutator) (g : nat) (x0 : input) (k : nat), In c (cands m g x0 k x).

  Inductive chain (T : Type) (tok : input -> T) : T -> list input -> T -> Prop :=
  | chain_nil : forall t, chain T tok t [] t
  | chain_cons : forall t x c l last,
      tok x = t -> derives x c -> accept c = true ->
      chain T tok (tok c) l last -> chain T tok t (c :: l) last.

  Inductive run (x : input) : list input -> Z -> input -> Prop :=
  | run_refl : forall d, d = 0%Z -> run x [] d x
  | run_redup : forall new d y, run x new d y -> run x new d (redup y)
  | run_adopt : forall new d d' y c,
      run x new d y -> derives y c -> accept c = true ->
      d' = (d + (cexprs y - cexprs c))%Z -> run x (c :: new) d' c.

  Lemma run_trans : forall x n1 d1 y n2 d2 z d,
    run x n1 d1 y -> run y n2 d2 z -> d = (d1 + d2)%Z -> run x (n2 ++ n1) d z.
  Proof.
    intros x n1 d1 y n2 d2 z d H1 H2; revert d.
    induction H2 as [ d2 Hd | new d2 z H2 IH | new d2 d2' z c H2 IH Hder Hacc Hd ]; intros d Hsum.
    - cbn [app]. assert (d = d1) as -> by lia. exact H1.
    - apply run_redup. apply IH. exact Hsum.
    - cbn [app]. eapply run_adopt; [ apply (IH (d1 + d2)%Z); reflexivity | exact Hder | exact Hacc | lia ].
  Qed.

  Definition summ (x : input) (w : list input) (r : Z) (x' : input) (w' : list input) (r' : Z) : Prop :=
    exists new d, w' = new ++ w /\ r' = (r + d)%Z /\ run x new d x'.

  Lemma summ_refl : forall x w r, summ x w r x w r.
  Proof.
    intros x w r. exists [], 0%Z. split; [ reflexivity | ]. split; [ lia | ]. apply run_refl. reflexivity.
  Qed.

  Lemma summ_trans : forall x w r x1 w1 r1 x2 w2 r2,
    summ x w r x1 w1 r1 -> summ x1 w1 r1 x2 w2 r2 -> summ x w r x2 w2 r2.
  Proof.
    intros x w r x1 w1 r1 x2 w2 r2 (n1 & d1 & Hw1 & Hr1 & Hrun1) (n2 & d2 & Hw2 & Hr2 & Hrun2).
    exists (n2 ++ n1), (d1 + d2)%Z. split; [ | split ].
    - rewrite Hw2, Hw1. apply app_assoc.
    - lia.
    - eapply run_trans; [ exact Hrun1 | exact Hrun2 | reflexivity ].
  Qed.

  Lemma summ_redup : forall x w r x' w' r', summ x w r x' w' r' -> summ x w r (redup x') w' r'.
  Proof.
    intros x w r x' w' r' (n & d & Hw & Hr & Hrun). exists n, d. split; [ exact Hw | ]. split; [ exact Hr | ].
    apply run_redup. exact Hrun.
  Qed.

  Lemma summ_shift : forall x w r0 r x' w' d,
    summ x w r0 x' w' (r0 + d)%Z -> summ x w r x' w' (r + d)%Z.
  Proof.
    intros x w r0 r x' w' d (n & d0 & Hw & Hr & Hrun). exists n, d0. split; [ exact Hw | ]. split; [ lia | exact Hrun ].
  Qed.

  Lemma first_accepted_some : forall l c, FA l = Some c -> In c l /\ accept c = true.
  Proof.
    induction l as [ | a l IH ]; intros c H; cbn [first_accepted] in H.
    - discriminate H.
    - destruct (accept a) eqn:E.
      + inversion H; subst. split; [ left; reflexivity | exact E ].
      + destruct (IH c H) as [ Hin Hacc ]. split; [ right; exact Hin | exact Hacc ].
  Qed.

  Lemma first_accepted_none : forall l, (forall c, In c l -> accept c = false) -> FA l = None.
  Proof.
    induction l as [ | a l IH ]; intros H; cbn [first_accepted].
    - reflexivity.
    - rewrite (H a (or_introl eq_refl)). apply IH. intros c Hc. apply H. right. exact Hc.
  Qed.

  (* ---------------------------------------------------------------- *)
  (* every layer satisfies [summ] *)

  Lemma check_seq_summ : forall m g x0 todo k a,
    summ (a_cur a) (a_writes a) (a_red a)
         (a_cur (CS m g x0 k todo a)) (a_writes (CS m g x0 k todo a)) (a_red (CS m g x0 k todo a)).
  Proof.
    intros m g x0. induction todo as [ | t IH ]; intros k a; cbn [check_seq].
    - apply summ_refl.
    - destruct (FA (cands m g x0 k (a_cur a))) as [ c | ] eqn:E.
      + eapply summ_trans; [ | apply IH ]. cbn [a_cur a_writes a_red].
        destruct (first_accepted_some _ _ E) as [ Hin Hacc ].
        exists [c], (cexprs (a_cur a) - cexprs c)%Z. split; [ reflexivity | ]. split; [ reflexivity | ].
        eapply run_adopt; [ apply run_refl; reflexivity | exists m, g, x0, k; exact Hin | exact Hacc | lia ].
      + apply IH.
  Qed.

  Lemma gran_loop_summ : forall m fuel g a a',
    GL m fuel g a = Some a' ->
    summ (a_cur a) (a_writes a) (a_red a) (a_cur a') (a_writes a') (a_red a').
  Proof.
    intros m. induction fuel as [ | f IH ]; intros g a a' H; destruct g as [ | g' ]; cbn [gran_loop] in H.
    - inversion H; subst. apply summ_refl.
    - discriminate H.
    - inversion H; subst. apply summ_refl.
    - apply IH in H. cbn [a_cur a_writes a_red] in H.
      eapply summ_trans; [ | exact H ]. apply summ_redup. apply check_seq_summ.
  Qed.

  Lemma apply_mutator_summ : forall m x w a,
    AM m x w = Some a -> summ x w 0%Z (a_cur a) (a_writes a) (a_red a).
  Proof.
    intros m x w a H. unfold apply_mutator in H. apply gran_loop_summ in H. exact H.
  Qed.

  Lemma apply_mutator_summ_shift : forall m x w a r,
    AM m x w = Some a -> summ x w r (a_cur a) (a_writes a) (r + a_red a)%Z.
  Proof.
    intros m x w a r H. apply (summ_shift x w 0%Z). apply apply_mutator_summ in H. exact H.
  Qed.

  Lemma stage1_mut_summ : forall m fuel x w r x' w' r',
    S1M m fuel x w r = Some (x', w', r') -> summ x w r x' w' r'.
  Proof.
    intros m. induction fuel as [ | f IH ]; intros x w r x' w' r' H; cbn [stage1_mut] in H.
    - discriminate H.
    - destruct (AM m x w) as [ a | ] eqn:E; [ | discriminate H ].
      destruct (Z.eqb (a_red a) 0%Z).
      + inversion H; subst. eapply apply_mutator_summ_shift; exact E.
      + eapply summ_trans; [ eapply apply_mutator_summ_shift; exact E | apply IH; exact H ].
  Qed.

  Lemma stage1_summ : forall ms fuel x w r x' w' r',
    ST1 ms fuel x w r = Some (x', w', r') -> summ x w r x' w' r'.
  Proof.
    induction ms as [ | m ms IH ]; intros fuel x w r x' w' r' H; cbn [stage1] in H.
    - inversion H; subst. apply summ_refl.
    - destruct (S1M m fuel x w r) as [ [ [ x1 w1 ] r1 ] | ] eqn:E; [ | discriminate H ].
      eapply summ_trans; [ eapply stage1_mut_summ; exact E | eapply IH; exact H ].
  Qed.

  Lemma stage2_summ : forall ms x w r x' w' r',
    ST2 ms x w r = Some (x', w', r') -> summ x w r x' w' r'.
  Proof.
    induction ms as [ | m ms IH ]; intros x w r x' w' r' H; cbn [stage2] in H.
    - inversion H; subst. apply summ_refl.
    - destruct (AM m x w) as [ a | ] eqn:E; [ | discriminate H ].
      eapply summ_trans; [ eapply apply_mutator_summ_shift; exact E | eapply IH; exact H ].
  Qed.

  (* one round: stage 1 then stage 2, counted from 0 *)
  Lemma round_summ : forall s1 s2 fuel x w x1 w1 r1 x2 w2 r2,
    ST1 s1 fuel x w 0%Z = Some (x1, w1, r1) -> ST2 s2 x1 w1 r1 = Some (x2, w2, r2) ->
    summ x w 0%Z x2 w2 r2.
  Proof.
    intros s1 s2 fuel x w x1 w1 r1 x2 w2 r2 H1 H2.
    eapply summ_trans; [ eapply stage1_summ; exact H1 | eapply stage2_summ; exact H2 ].
  Qed.

  Lemma reduce_summ : forall s1 s2 fuel x w y w',
    RED s1 s2 fuel x w = Some (y, w') -> exists r, summ x w 0%Z y w' r.
  Proof.
    intros s1 s2. induction fuel as [ | f IH ]; intros x w y w' H; cbn [reduce] in H.
    - discriminate H.
    - destruct (ST1 s1 (S f) x w 0%Z) as [ [ [ x1 w1 ] r1 ] | ] eqn:E1; [ | discriminate H ].
      destruct (ST2 s2 x1 w1 r1) as [ [ [ x2 w2 ] r2 ] | ] eqn:E2; [ | discriminate H ].
      pose proof (round_summ _ _ _ _ _ _ _ _ _ _ _ E1 E2) as Hround.
      destruct (Z.eqb r2 0%Z).
      + inversion H; subst. exists r2. exact Hround.
      + destruct (IH _ _ _ _ H) as [ r Hr ]. exists (r2 + r)%Z.
        eapply summ_trans; [ exact Hround | ]. apply (summ_shift x2 w2 0%Z). exact Hr.
  Qed.
End TopBase.

Arguments derives {input mutator} cands x c.
Arguments chain {input mutator} cands accept {T} tok _ _ _.
Arguments run {input mutator} cands accept redup cexprs x _ _ _.
Arguments summ {input mutator} cands accept redup cexprs x w r x' w' r'.
