(* Termination of the ddmin top level (Model/DdminTop.v), i.e. the fuelled
   functions do not run out of fuel:
   (D1) gran_loop with g <= fuel, hence apply_mutator and stage2 always (no measure needed);
   (D3) stage1_mut / stage1 with mu x < fuel;
   (D4) reduce with mu x < fuel, in particular fuel = S (mu x);
   and more fuel does not change a result. *)
From DD Require Export Proofs.DdminTop.TopInv.

Section TopTerm.
  Variable input : Type.
  Variable mutator : Type.
  Variable nfiltered : mutator -> input -> nat.
  Variable cands : mutator -> nat -> input -> nat -> input -> list input.
  Variable accept : input -> bool.
  Variable redup : input -> input.
  Variable cexprs : input -> Z.

  Local Notation CS := (check_seq input mutator cands accept cexprs).
  Local Notation GL := (gran_loop input mutator nfiltered cands accept redup cexprs).
  Local Notation AM := (apply_mutator input mutator nfiltered cands accept redup cexprs).
  Local Notation S1M := (stage1_mut input mutator nfiltered cands accept redup cexprs).
  Local Notation ST1 := (stage1 input mutator nfiltered cands accept redup cexprs).
  Local Notation ST2 := (stage2 input mutator nfiltered cands accept redup cexprs).
  Local Notation RED := (reduce input mutator nfiltered cands accept redup cexprs).
  Local Notation summ := (summ cands accept redup cexprs).

  (* ---------------------------------------------------------------- *)
  (* (D1) *)

  Lemma gran_loop_some_lemma : forall m fuel g a, g <= fuel -> exists a', GL m fuel g a = Some a'.
  Proof.
    intros m. induction fuel as [ | f IH ]; intros g a Hle; destruct g as [ | g' ]; cbn [gran_loop].
    - exists a. reflexivity.
    - lia.
    - exists a. reflexivity.
    - apply IH. pose proof (Nat.div_lt (S g') 2 ltac:(lia) ltac:(lia)) as Hdiv. lia.
  Qed.

  Lemma gran_loop_terminates_lemma : forall m fuel g a, g <= fuel -> GL m fuel g a <> None.
  Proof.
    intros m fuel g a Hle. destruct (gran_loop_some_lemma m fuel g a Hle) as [ a' E ]. rewrite E. discriminate.
  Qed.

  Lemma apply_mutator_some_lemma : forall m x w, exists a, AM m x w = Some a.
  Proof. intros m x w. unfold apply_mutator. apply gran_loop_some_lemma. lia. Qed.

  Lemma apply_mutator_terminates_lemma : forall m x w, AM m x w <> None.
  Proof. intros m x w. destruct (apply_mutator_some_lemma m x w) as [ a E ]. rewrite E. discriminate. Qed.

  Lemma stage2_some_lemma : forall ms x w r, exists x' w' r', ST2 ms x w r = Some (x', w', r').
  Proof.
    induction ms as [ | m ms IH ]; intros x w r; cbn [stage2].
    - exists x, w, r. reflexivity.
    - destruct (apply_mutator_some_lemma m x w) as [ a E ]. rewrite E. apply IH.
  Qed.

  (* ---------------------------------------------------------------- *)
  (* (D3), (D4) *)

  Section Mu.
    Variable mu : input -> nat.
    Hypothesis Hre : forall z, mu (redup z) = mu z.
    Hypothesis Hdec : forall m g x0 k z c, In c (cands m g x0 k z) -> accept c = true -> mu c < mu z.

    Lemma stage1_mut_some_lemma : forall m fuel x w r,
      mu x < fuel -> exists x' w' r', S1M m fuel x w r = Some (x', w', r').
    Proof.
      intros m. induction fuel as [ | f IH ]; intros x w r Hlt; cbn [stage1_mut].
      - lia.
      - destruct (apply_mutator_some_lemma m x w) as [ a E ]. rewrite E.
        destruct (Z.eqb_spec (a_red a) 0%Z) as [ E0 | E0 ].
        + do 3 eexists. reflexivity.
        + apply IH.
          destruct (apply_mutator_progress_lemma _ _ _ _ _ _ _ mu Hre Hdec _ _ _ _ E E0) as [ _ Hmu ]. lia.
    Qed.

    Lemma stage1_some_lemma : forall ms fuel x w r,
      mu x < fuel -> exists x' w' r', ST1 ms fuel x w r = Some (x', w', r').
    Proof.
      induction ms as [ | m ms IH ]; intros fuel x w r Hlt; cbn [stage1].
      - exists x, w, r. reflexivity.
      - destruct (stage1_mut_some_lemma m fuel x w r Hlt) as (x1 & w1 & r1 & E). rewrite E.
        apply IH.
        destruct (stage1_mut_mu_lemma _ _ _ _ _ _ _ mu Hre Hdec _ _ _ _ _ _ _ _ E) as (new & _ & Hmu). lia.
    Qed.

    Lemma reduce_some_lemma : forall s1 s2 fuel x w,
      mu x < fuel -> exists y w', RED s1 s2 fuel x w = Some (y, w').
    Proof.
      intros s1 s2. induction fuel as [ | f IH ]; intros x w Hlt; cbn [reduce].
      - lia.
      - destruct (stage1_some_lemma s1 (S f) x w 0%Z Hlt) as (x1 & w1 & r1 & E1). rewrite E1.
        destruct (stage2_some_lemma s2 x1 w1 r1) as (x2 & w2 & r2 & E2). rewrite E2.
        destruct (Z.eqb_spec r2 0%Z) as [ E0 | E0 ].
        + do 2 eexists. reflexivity.
        + apply IH.
          assert (Hs : summ x w 0%Z x2 w2 r2) by (eapply round_summ; [ exact E1 | exact E2 ]).
          destruct (summ_progress _ _ _ _ _ _ mu _ _ _ _ _ _ Hre Hdec Hs E0) as [ _ Hmu ]. lia.
    Qed.

    Lemma reduce_terminates_lemma : forall s1 s2 x w,
      exists y w', RED s1 s2 (S (mu x)) x w = Some (y, w').
    Proof. intros s1 s2 x w. apply reduce_some_lemma. lia. Qed.

    (* a round that goes on has adopted something and lowered the measure *)
    Lemma round_progress_lemma : forall s1 s2 fuel x w x1 w1 r1 x2 w2 r2,
      ST1 s1 fuel x w 0%Z = Some (x1, w1, r1) -> ST2 s2 x1 w1 r1 = Some (x2, w2, r2) ->
      r2 <> 0%Z -> (exists c new, w2 = c :: new ++ w) /\ mu x2 < mu x.
    Proof.
      intros s1 s2 fuel x w x1 w1 r1 x2 w2 r2 H1 H2 Hne.
      assert (Hs : summ x w 0%Z x2 w2 r2) by (eapply round_summ; [ exact H1 | exact H2 ]).
      eapply summ_progress; [ exact Hre | exact Hdec | exact Hs | exact Hne ].
    Qed.
  End Mu.

  (* ---------------------------------------------------------------- *)
  (* more fuel, same result *)

  Lemma gran_loop_fuel_lemma : forall m fuel fuel' g a a',
    GL m fuel g a = Some a' -> fuel <= fuel' -> GL m fuel' g a = Some a'.
  Proof.
    intros m. induction fuel as [ | f IH ]; intros fuel' g a a' H Hle; destruct g as [ | g' ];
      cbn [gran_loop] in H.
    - destruct fuel'; exact H.
    - discriminate H.
    - destruct fuel'; exact H.
    - destruct fuel' as [ | f' ]; [ lia | ]. cbn [gran_loop]. apply IH; [ exact H | lia ].
  Qed.

  Lemma stage1_mut_fuel_lemma : forall m fuel fuel' x w r res,
    S1M m fuel x w r = Some res -> fuel <= fuel' -> S1M m fuel' x w r = Some res.
  Proof.
    intros m. induction fuel as [ | f IH ]; intros fuel' x w r res H Hle; cbn [stage1_mut] in H.
    - discriminate H.
    - destruct fuel' as [ | f' ]; [ lia | ]. cbn [stage1_mut].
      destruct (AM m x w) as [ a | ]; [ | discriminate H ].
      destruct (Z.eqb (a_red a) 0%Z); [ exact H | ]. apply IH; [ exact H | lia ].
  Qed.

  Lemma stage1_fuel_lemma : forall ms fuel fuel' x w r res,
    ST1 ms fuel x w r = Some res -> fuel <= fuel' -> ST1 ms fuel' x w r = Some res.
  Proof.
    induction ms as [ | m ms IH ]; intros fuel fuel' x w r res H Hle; cbn [stage1] in H |- *.
    - exact H.
    - destruct (S1M m fuel x w r) as [ [ [ x1 w1 ] r1 ] | ] eqn:E; [ | discriminate H ].
      rewrite (stage1_mut_fuel_lemma _ _ _ _ _ _ _ E Hle). eapply IH; [ exact H | exact Hle ].
  Qed.

  Lemma reduce_fuel_lemma : forall s1 s2 fuel fuel' x w res,
    RED s1 s2 fuel x w = Some res -> fuel <= fuel' -> RED s1 s2 fuel' x w = Some res.
  Proof.
    intros s1 s2. induction fuel as [ | f IH ]; intros fuel' x w res H Hle; cbn [reduce] in H.
    - discriminate H.
    - destruct fuel' as [ | f' ]; [ lia | ]. cbn [reduce].
      destruct (ST1 s1 (S f) x w 0%Z) as [ [ [ x1 w1 ] r1 ] | ] eqn:E1; [ | discriminate H ].
      rewrite (stage1_fuel_lemma _ _ _ _ _ _ _ E1 Hle).
      destruct (ST2 s2 x1 w1 r1) as [ [ [ x2 w2 ] r2 ] | ]; [ | discriminate H ].
      destruct (Z.eqb r2 0%Z); [ exact H | ]. apply IH; [ exact H | lia ].
  Qed.
End TopTerm.
