(* C03, layer 3 (partial ranking), M1: the bit-vector rewrites decrease the
   measure at the root. *)
From DD Require Import Proofs.Measure.RootBase.
Local Open Scope list_scope.

Theorem bv_normalize_decr : decr rw_bv_normalize.
Proof.
  start. unfold rw_bv_normalize in HR. brk HR; injection HR as <-; in_split.
  rewrite mu_mk_bv_const, mu_L. unfold w_leaf, const_leaf.
  match goal with H : is_bv_const _ = true |- _ => rewrite H end. lia.
Qed.

Theorem bv_double_neg_decr : decr rw_bv_double_neg.
Proof.
  start. unfold rw_bv_double_neg in HR. brk HR; injection HR as <-; in_split.
  all: bools; subst; cbn [args_of] in *; subst; munf; unfold F_gen; rewrite !sm_cons.
  all: lia.
Qed.

Theorem bv_reflexive_nand_decr : decr rw_bv_reflexive_nand.
Proof.
  start. unfold rw_bv_reflexive_nand in HR. brk HR; injection HR as <-; in_split.
  bools. subst. munf. unfold F_gen. rewrite !sm_cons.
  match goal with |- context [mu ?x + (mu ?y + _)] => pose proof (mu_pos y) end. lia.
Qed.

Theorem bv_ite_to_bvcomp_decr : forall p, decr (rw_bv_ite_to_bvcomp p).
Proof.
  intro p. start. unfold rw_bv_ite_to_bvcomp in HR. brk HR; injection HR as <-; in_split.
  bools. subst. munf. unfold F_bvcomp. cbn [F_ite F_eq]. rewrite !sm_cons.
  pos. lia.
Qed.

Ltac none_case :=
  match goal with HR : Some [] = Some _, Hin : In _ _ |- _ => injection HR as <-; destruct Hin end.

(* ---- bv_elim_bvcomp: (= c t1 .. tn) becomes the conjunction of (= c ti), with
   (= a b) or (not (= a b)) in place of ti = (bvcomp a b) ---- *)
Definition elim_g (c : sexp) (v : Z) (n : sexp) : sexp :=
  if is_op n "bvcomp" then
    (if Z.eqb v 1 then node_of "=" (args_of n) else T [lf "not"; node_of "=" (args_of n)])
  else T [lf "="; c; n].

Lemma mu_node_of_eq args : mu (node_of "=" args) = F_eq (map mu args).
Proof. destruct args as [|a r]; [reflexivity|]. cbn [node_of]. now munf. Qed.

Lemma elim_g_bvcomp c v n : is_op n "bvcomp" = true -> mu (elim_g c v n) + 2 <= mu n.
Proof.
  intro H. unfold elim_g. rewrite H. apply is_op_inv in H as [xs ->]. cbn [args_of].
  destruct (Z.eqb v 1).
  - rewrite mu_node_of_eq. munf. unfold F_bvcomp. lia.
  - unfold lf. rewrite mu_not. cbn [map]. rewrite mu_node_of_eq. munf. unfold F_bvcomp. cbn [F_not sm fold_right]. lia.
Qed.

Lemma elim_g_le c v n : mu (elim_g c v n) <= 2 * mu n + 2 * mu c.
Proof.
  destruct (is_op n "bvcomp") eqn:E.
  - pose proof (elim_g_bvcomp c v n E). lia.
  - unfold elim_g. rewrite E. munf. cbn [F_eq eqsum]. lia.
Qed.

Lemma elim_sum c v rest : sm (map mu (map (elim_g c v) rest)) <= eqsum (mu c) (map mu rest).
Proof.
  induction rest as [|n rest IH]; cbn [map eqsum]; [cbn; lia|].
  rewrite sm_cons. pose proof (elim_g_le c v n). lia.
Qed.

Lemma elim_sum_lt c v rest : existsb (fun n => is_op n "bvcomp") rest = true ->
  sm (map mu (map (elim_g c v) rest)) + 2 <= eqsum (mu c) (map mu rest).
Proof.
  induction rest as [|n rest IH]; [discriminate|]. cbn [existsb map eqsum]. intro H. rewrite sm_cons.
  destruct (is_op n "bvcomp") eqn:E.
  - pose proof (elim_g_bvcomp c v n E). pose proof (elim_sum c v rest). lia.
  - cbn [orb] in H. specialize (IH H). pose proof (elim_g_le c v n). lia.
Qed.

Theorem bv_elim_bvcomp_decr : forall bw, decr (rw_bv_elim_bvcomp bw).
Proof.
  intro bw. start. unfold rw_bv_elim_bvcomp in HR.
  destruct e as [s|[|[h|hl] [|c rest]]]; cbn iota in HR; try none_case.
  match type of HR with (if ?b then _ else _) = _ => destruct b eqn:Hb end;
    [|injection HR as <-; destruct Hin].
  destruct (bv_const_value c) as [[v w]|]; [|discriminate].
  change (map _ rest) with (map (elim_g c v) rest) in HR.
  bools. subst h.
  match goal with H : existsb _ rest = true |- _ => pose proof (elim_sum_lt c v rest H) as Hs end.
  assert (Hne : exists t r, rest = t :: r) by (destruct rest; [discriminate|eauto]).
  destruct Hne as (t & r & ->).
  unfold lf in *. rewrite mu_eq. cbn [map]. rewrite F_eq_cons2.
  set (res := map (elim_g c v) (t :: r)) in *. clearbody res. cbn [map] in Hs.
  destruct res as [|x [|y q]]; injection HR as <-; in_split.
  - munf. unfold F_gen. cbn [eqsum sm fold_right] in *. pos. lia.
  - cbn [map] in Hs. rewrite !sm_cons in Hs. cbn [sm fold_right] in Hs. lia.
  - munf. unfold F_gen. cbn [map] in Hs. lia.
Qed.

(* ---- constant folding under an indexed operator ---- *)
Theorem bv_eval_extend_decr : decr rw_bv_eval_extend.
Proof.
  start. unfold rw_bv_eval_extend in HR. cbv zeta in HR. brk HR; injection HR as <-; in_split.
  all: match goal with H : (_ || _) && _ = true |- _ => apply andb_true_iff in H; destruct H as [Ho _] end.
  all: apply orb_true_iff in Ho as [Ho|Ho]; apply idx_op_mu in Ho as (hl & -> & Hm).
  all: match goal with |- _ < mu (T (T ?hl :: ?c :: ?r)) => pose proof (mu_app_lower hl c r 3 Hm) end.
  all: rewrite ?mu_mk_bv_const, ?mu_L.
  all: try match goal with |- w_leaf ?s < _ => pose proof (w_leaf_bounds s) end.
  all: lia.
Qed.

Theorem bv_extract_const_decr : decr rw_bv_extract_const.
Proof.
  start. unfold rw_bv_extract_const in HR. cbv zeta in HR. brk HR; injection HR as <-; in_split.
  bools. match goal with H : is_indexed_operator _ _ _ = true |- _ => apply idx_op_mu in H as (hl & -> & Hm) end.
  match goal with |- _ < mu (T (T ?hl :: ?c :: ?r)) => pose proof (mu_app_lower hl c r 4 Hm) end.
  rewrite mu_L.
  match goal with |- w_leaf ?s < _ => pose proof (w_leaf_bounds s) end.
  lia.
Qed.

Lemma mu_idx_app op ks a : mu (T [idx_head op ks; a]) = mu (idx_head op ks) * (11 * mu a + 4).
Proof. unfold idx_head. rewrite mu_T_head. cbn [map]. now rewrite F_big_1. Qed.

Theorem bv_extract_zext_decr : forall bw, decr (rw_bv_extract_zext bw).
Proof.
  intro bw. start. unfold rw_bv_extract_zext in HR. cbv zeta in HR. brk HR; injection HR as <-; in_split.
  all: bools.
  all: match goal with H : is_indexed_operator _ _ _ = true |- _ => apply idx_op_mu in H as (hl & -> & Hm) end.
  all: match goal with H : is_indexed_app _ _ _ = true |- _ =>
         apply idx_app_inv in H as (h2 & r2 & -> & H); apply idx_op_mu in H as (hl2 & -> & Hm2) end.
  all: match goal with H : args_of _ = _ :: _ |- _ => cbn [args_of] in H; subst r2 end.
  all: match goal with |- _ < mu (T (T ?hl :: T (T ?hl2 :: ?t :: ?r2) :: ?r)) =>
         pose proof (mu_app_lower hl2 t r2 3 Hm2) as Hi;
         pose proof (mu_app_lower hl (T (T hl2 :: t :: r2)) r _ (le_n _)) as He;
         pose proof (mu_pos t) end.
  - rewrite mu_mk_bv_const. nia.
  - rewrite mu_T_head. cbn [map]. rewrite F_big_1. nia.
  - rewrite mu_idx_app, mu_idx_app, mu_idx_head1, mu_idx_head2 by reflexivity. nia.
Qed.

(* ---- bv_merge_extend ---- *)
Lemma mu_arg_lt hl a r : mu a < mu (T (T hl :: a :: r)).
Proof.
  pose proof (mu_app_lower hl a r 1 (mu_pos (T hl))). lia.
Qed.

Lemma merge_ext_le op : forall fuel e acc k inner,
  merge_ext fuel op e acc = Some (k, inner) -> mu inner <= mu e.
Proof.
  induction fuel as [|n IH]; intros e acc k inner H; cbn [merge_ext] in H.
  - injection H as _ <-. lia.
  - destruct (is_indexed_app e op 1) eqn:E; [|injection H as _ <-; lia].
    apply idx_app_inv in E as (h & r & -> & E). apply idx_op_mu in E as (hl & -> & _).
    destruct r as [|a r]; [discriminate|].
    destruct (get_indices (T hl)) as [[|i ?]|]; try discriminate.
    apply IH in H. pose proof (mu_arg_lt hl a r). lia.
Qed.

Lemma merge_ext_lt op : forall fuel e acc k inner,
  is_indexed_app e op 1 = true ->
  merge_ext (S fuel) op e acc = Some (k, inner) -> mu inner < mu e.
Proof.
  intros fuel e acc k inner E H. cbn [merge_ext] in H. rewrite E in H.
  apply idx_app_inv in E as (h & r & -> & E). apply idx_op_mu in E as (hl & -> & _).
  destruct r as [|a r]; [discriminate|].
  destruct (get_indices (T hl)) as [[|i ?]|]; try discriminate.
  apply merge_ext_le in H. pose proof (mu_arg_lt hl a r). lia.
Qed.

Lemma merge_go_decr (op : string) e x a r k inner :
  w_leaf (lit op) = 1 ->
  e = T (x :: a :: r) -> is_indexed_app e op 1 = true -> is_indexed_app a op 1 = true ->
  merge_ext (size e) op e 0%Z = Some (k, inner) ->
  mu (T [idx_head op [k]; inner]) < mu e.
Proof.
  intros Hw -> E Ea H.
  assert (Hf : exists n, size (T (x :: a :: r)) = S (S n)).
  { cbn [size fold_right]. destruct a; cbn [size]; destruct (size x) eqn:Ex.
    - destruct x; discriminate. - eexists; reflexivity.
    - destruct x; discriminate. - eexists; reflexivity. }
  destruct Hf as [n Hf]. rewrite Hf in H. cbn [merge_ext] in H. rewrite E in H.
  apply idx_app_inv in E as (h & r' & Eq & E). injection Eq as <- <-.
  apply idx_op_mu in E as (hl & -> & Hm).
  destruct (get_indices (T hl)) as [[|i ?]|]; try discriminate.
  apply merge_ext_lt in H; [|exact Ea].
  rewrite mu_idx_app, mu_idx_head1 by exact Hw.
  pose proof (mu_app_lower hl a r 3 Hm). lia.
Qed.

Ltac split_if HR E :=
  match type of HR with (if ?b then _ else _) = _ => destruct b eqn:E end.

Theorem bv_merge_extend_decr : decr rw_bv_merge_extend.
Proof.
  start. unfold rw_bv_merge_extend in HR. cbv zeta in HR.
  destruct e as [s|[|x [|a r]]]; cbn iota in HR; try none_case.
  - split_if HR E0; [discriminate|]. none_case.
  - split_if HR E1.
    + apply andb_true_iff in E1 as [E Ea].
      destruct (merge_ext _ _ _ _) as [[k inner]|] eqn:Hm in HR; [|discriminate].
      injection HR as <-. in_split.
      eapply (merge_go_decr "zero_extend"); try eassumption; reflexivity.
    + split_if HR E2; [|none_case].
      apply andb_true_iff in E2 as [E Ea].
      destruct (merge_ext _ _ _ _) as [[k inner]|] eqn:Hm in HR; [|discriminate].
      injection HR as <-. in_split.
      eapply (merge_go_decr "sign_extend"); try eassumption; reflexivity.
Qed.
