(* C03, layer 3 (partial ranking), M2-M3: rewriting anywhere in a term with the
   modelled rewrites decreases [mu]; hence no chain of such rewrites returns to
   its start and the rewrite relation is well founded. *)
From DD Require Import Proofs.Measure.RootBase Proofs.Measure.RootBool Proofs.Measure.RootBv.
From Coq Require Import Relations Wellfounded Wf_nat.
Local Open Scope list_scope.

Definition rewrite : Type := sexp -> option (list sexp).

(* one rewrite of the set S applied to the node itself *)
Definition root_step (S : rewrite -> Prop) (e e' : sexp) : Prop :=
  exists R l, S R /\ R e = Some l /\ In e' l.

(* ... applied to the node at some position of the term (any child, the head included, at any depth) *)
Inductive step (S : rewrite -> Prop) : sexp -> sexp -> Prop :=
| step_root e e' : root_step S e e' -> step S e e'
| step_child pre x y post : step S x y -> step S (T (pre ++ x :: post)) (T (pre ++ y :: post)).

(* chains of n steps *)
Inductive chain (S : rewrite -> Prop) : nat -> sexp -> sexp -> Prop :=
| chain_0 t : chain S 0 t t
| chain_S n t u v : step S t u -> chain S n u v -> chain S (Datatypes.S n) t v.

Definition decreasing (S : rewrite -> Prop) : Prop := forall R, S R -> decr R.

Section Ranking.
  Variable S : rewrite -> Prop.
  Hypothesis HS : decreasing S.

  Theorem step_decreases : forall t t', step S t t' -> mu t' < mu t.
  Proof.
    induction 1 as [e e' (R & l & HR & He & Hin)|pre x y post _ IH].
    - exact (HS R HR e l e' He Hin).
    - now apply mu_mono.
  Qed.

  Theorem steps_decrease : forall t t', clos_trans sexp (step S) t t' -> mu t' < mu t.
  Proof.
    induction 1 as [t t' H|t u v _ IH1 _ IH2]; [now apply step_decreases|lia].
  Qed.

  Theorem no_cycles : forall t t', clos_trans sexp (step S) t t' -> t <> t'.
  Proof. intros t t' H E. apply steps_decrease in H. subst. lia. Qed.

  Theorem no_noop : forall t, ~ step S t t.
  Proof. intros t H. apply step_decreases in H. lia. Qed.

  Theorem step_wf : well_founded (fun t' t => step S t t').
  Proof.
    apply (well_founded_lt_compat sexp mu). intros t' t. apply step_decreases.
  Qed.

  (* the length of every chain of rewrites is bounded by the measure of its start *)
  Theorem chain_bounded : forall n t t', chain S n t t' -> n + mu t' <= mu t.
  Proof.
    induction 1 as [t|n t u v H _ IH]; [lia|]. apply step_decreases in H. lia.
  Qed.
End Ranking.

(* the 15 modelled rewrites, for every width oracle and every sort oracle *)
Inductive S15 : rewrite -> Prop :=
| S_bool_double_neg : S15 rw_bool_double_neg
| S_bool_de_morgan : S15 rw_bool_de_morgan
| S_bool_false_eq : S15 rw_bool_false_eq
| S_bool_implication : S15 rw_bool_implication
| S_bool_xor_binary : S15 rw_bool_xor_binary
| S_arith_negate_relation : S15 rw_arith_negate_relation
| S_bv_normalize : S15 rw_bv_normalize
| S_bv_double_neg : S15 rw_bv_double_neg
| S_bv_elim_bvcomp bw : S15 (rw_bv_elim_bvcomp bw)
| S_bv_eval_extend : S15 rw_bv_eval_extend
| S_bv_extract_const : S15 rw_bv_extract_const
| S_bv_extract_zext bw : S15 (rw_bv_extract_zext bw)
| S_bv_ite_to_bvcomp p : S15 (rw_bv_ite_to_bvcomp p)
| S_bv_reflexive_nand : S15 rw_bv_reflexive_nand
| S_bv_merge_extend : S15 rw_bv_merge_extend.

Theorem S15_decreasing : decreasing S15.
Proof.
  intros R HR. destruct HR.
  - exact bool_double_neg_decr.
  - exact bool_de_morgan_decr.
  - exact bool_false_eq_decr.
  - exact bool_implication_decr.
  - exact bool_xor_binary_decr.
  - exact arith_negate_relation_decr.
  - exact bv_normalize_decr.
  - exact bv_double_neg_decr.
  - apply bv_elim_bvcomp_decr.
  - exact bv_eval_extend_decr.
  - exact bv_extract_const_decr.
  - apply bv_extract_zext_decr.
  - apply bv_ite_to_bvcomp_decr.
  - exact bv_reflexive_nand_decr.
  - exact bv_merge_extend_decr.
Qed.

Theorem step_S15_decreases : forall t t', step S15 t t' -> mu t' < mu t.
Proof. exact (step_decreases S15 S15_decreasing). Qed.

Theorem no_cycles_partial : forall t t', clos_trans sexp (step S15) t t' -> t <> t'.
Proof. exact (no_cycles S15 S15_decreasing). Qed.

Theorem no_noop_partial : forall t, ~ step S15 t t.
Proof. exact (no_noop S15 S15_decreasing). Qed.

Theorem step_S15_wf : well_founded (fun t' t => step S15 t t').
Proof. exact (step_wf S15 S15_decreasing). Qed.

Theorem chain_S15_bounded : forall n t t', chain S15 n t t' -> n + mu t' <= mu t.
Proof. exact (chain_bounded S15 S15_decreasing). Qed.
