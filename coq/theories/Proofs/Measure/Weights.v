(* C03, layer 3 (partial ranking): the weight functions of the polynomial
   interpretation, over the list of the measures of the arguments of a node.
   Pure arithmetic on [list nat]; the measure itself is in Mu.v. *)
From Coq Require Import List Arith Lia.
Import ListNotations.

Definition sm (l : list nat) : nat := fold_right Nat.add 0 l.

(* default: and, or, <, <=, >, >=, bvnot, bvneg, bvnand, _, ... *)
Definition F_gen (a : list nat) : nat := 1 + sm a.
(* not: doubles its operand (De Morgan, negated relations) *)
Definition F_not (a : list nat) : nat := match a with [] => 1 | x :: r => 2 * x + sm r end.
(* =: the sum of the binary equalities of the first operand with the others
   (bv_elim_bvcomp distributes the first operand over the others) *)
Fixpoint eqsum (a : nat) (r : list nat) : nat :=
  match r with [] => 0 | t :: r' => 2 * t + 2 * a + eqsum a r' end.
Definition F_eq (a : list nat) : nat :=
  match a with [] => 1 | [x] => 2 * x | x :: r => eqsum x r end.
(* distinct, !=, <> *)
Definition F_dist (a : list nat) : nat := F_eq a + 1.
Definition F_xor (a : list nat) : nat := F_eq a + 2.
Definition F_bvcomp (a : list nat) : nat := 2 * F_eq a + 2.
Definition F_ite (a : list nat) : nat := match a with [] => 1 | x :: r => 1 + 3 * x + sm r end.
Definition F_imp (a : list nat) : nat := 1 + 4 * sm a.
(* dominates all of the above: used (times the measure of the head) for nodes
   whose head is not a symbol *)
Definition F_big (a : list nat) : nat := F_ite a + F_imp a + F_bvcomp a.

Lemma sm_cons x a : sm (x :: a) = x + sm a.
Proof. reflexivity. Qed.
Lemma sm_app a b : sm (a ++ b) = sm a + sm b.
Proof. induction a as [|x a IH]; cbn [app]; [reflexivity|]. rewrite !sm_cons, IH. lia. Qed.

Lemma eqsum_app a r1 r2 : eqsum a (r1 ++ r2) = eqsum a r1 + eqsum a r2.
Proof. induction r1 as [|t r1 IH]; cbn [eqsum app]; [reflexivity|]. rewrite IH. lia. Qed.
Lemma eqsum_le_a x y r : y <= x -> eqsum y r <= eqsum x r.
Proof. intro H. induction r as [|t r IH]; cbn [eqsum]; lia. Qed.
Lemma eqsum_lt_a x y t r : y < x -> eqsum y (t :: r) < eqsum x (t :: r).
Proof. intro H. cbn [eqsum]. assert (eqsum y r <= eqsum x r) by (apply eqsum_le_a; lia). lia. Qed.
Lemma eqsum_ge a r : 2 * sm r <= eqsum a r.
Proof. induction r as [|t r IH]; cbn [eqsum]; rewrite ?sm_cons; cbn [sm fold_right]; lia. Qed.

Lemma F_eq_cons2 a t r : F_eq (a :: t :: r) = eqsum a (t :: r).
Proof. reflexivity. Qed.

(* strict monotonicity in every position *)
Definition smono (F : list nat -> nat) : Prop :=
  forall pre x y post, y < x -> F (pre ++ y :: post) < F (pre ++ x :: post).

Lemma F_gen_smono : smono F_gen.
Proof. intros pre x y post H. unfold F_gen. rewrite !sm_app, !sm_cons. lia. Qed.

Lemma F_not_smono : smono F_not.
Proof.
  intros [|a pre] x y post H; cbn [app F_not]; [lia|]. rewrite !sm_app, !sm_cons. lia.
Qed.

Lemma F_eq_smono : smono F_eq.
Proof.
  intros [|a pre] x y post H; cbn [app].
  - destruct post as [|t p]; [cbn; lia|]. rewrite !F_eq_cons2. now apply eqsum_lt_a.
  - assert (E : forall z, F_eq (a :: pre ++ z :: post) = eqsum a (pre ++ z :: post)) by (intro z; destruct pre; reflexivity).
    rewrite !E, !eqsum_app. cbn [eqsum]. lia.
Qed.

Lemma F_dist_smono : smono F_dist.
Proof. intros pre x y post H. unfold F_dist. pose proof (F_eq_smono pre x y post H). lia. Qed.
Lemma F_xor_smono : smono F_xor.
Proof. intros pre x y post H. unfold F_xor. pose proof (F_eq_smono pre x y post H). lia. Qed.
Lemma F_bvcomp_smono : smono F_bvcomp.
Proof. intros pre x y post H. unfold F_bvcomp. pose proof (F_eq_smono pre x y post H). lia. Qed.
Lemma F_ite_smono : smono F_ite.
Proof.
  intros [|a pre] x y post H; cbn [app F_ite]; [lia|]. rewrite !sm_app, !sm_cons. lia.
Qed.
Lemma F_imp_smono : smono F_imp.
Proof. intros pre x y post H. unfold F_imp. rewrite !sm_app, !sm_cons. lia. Qed.
Lemma F_big_smono : smono F_big.
Proof.
  intros pre x y post H. unfold F_big.
  pose proof (F_ite_smono pre x y post H). pose proof (F_imp_smono pre x y post H).
  pose proof (F_bvcomp_smono pre x y post H). lia.
Qed.

(* domination *)
Lemma F_gen_le_big a : F_gen a <= F_big a.
Proof. unfold F_big, F_imp, F_gen. lia. Qed.
Lemma F_not_le_big a : F_not a <= F_big a.
Proof. unfold F_big, F_imp. destruct a as [|x r]; cbn [F_not]; rewrite ?sm_cons; lia. Qed.
Lemma F_eq_le_big a : F_eq a <= F_big a.
Proof. unfold F_big, F_bvcomp. lia. Qed.
Lemma F_dist_le_big a : F_dist a <= F_big a.
Proof. unfold F_big, F_bvcomp, F_dist. lia. Qed.
Lemma F_xor_le_big a : F_xor a <= F_big a.
Proof. unfold F_big, F_bvcomp, F_xor. lia. Qed.
Lemma F_bvcomp_le_big a : F_bvcomp a <= F_big a.
Proof. unfold F_big. lia. Qed.
Lemma F_ite_le_big a : F_ite a <= F_big a.
Proof. unfold F_big. lia. Qed.
Lemma F_imp_le_big a : F_imp a <= F_big a.
Proof. unfold F_big. lia. Qed.

Lemma F_big_pos a : 1 <= F_big a.
Proof. unfold F_big, F_imp. lia. Qed.

(* unary instance and growth with further operands *)
Lemma F_big_1 x : F_big [x] = 11 * x + 4.
Proof. cbn. lia. Qed.
Lemma F_eq_cons_ge x r : 2 * x <= F_eq (x :: r).
Proof. destruct r as [|t r]; [cbn; lia|]. rewrite F_eq_cons2. cbn [eqsum]. lia. Qed.
Lemma F_big_cons_ge x r : F_big [x] <= F_big (x :: r).
Proof.
  pose proof (F_eq_cons_ge x r) as H.
  unfold F_big, F_ite, F_imp, F_bvcomp. change (F_eq [x]) with (2 * x).
  rewrite !sm_cons. change (sm []) with 0. lia.
Qed.

(* lower bound of an equality by its operands *)
Lemma F_eq_ge_sm a : a <> [] -> 2 * sm a <= F_eq a.
Proof.
  destruct a as [|x [|t r]]; intro H; [congruence|cbn; lia|].
  rewrite F_eq_cons2. pose proof (eqsum_ge x r). cbn [eqsum]. rewrite !sm_cons. lia.
Qed.
