(* C03, layer 3 (partial ranking): tactics and inversion lemmas shared by the
   root-decrease proofs (M1). *)
From DD Require Export Model.Rewrites Proofs.Measure.Weights Proofs.Measure.Mu.
From DD Require Import Proofs.Rw.DigitsRT.
From Coq Require Export Arith Lia.
Local Open Scope list_scope.

(* M1 for one rewrite: every proposed replacement is smaller than the node *)
Definition decr (R : sexp -> option (list sexp)) : Prop :=
  forall e l e', R e = Some l -> In e' l -> mu e' < mu e.

Ltac brk H :=
  repeat (match type of H with
          | (match ?x with _ => _ end) = Some _ => destruct x eqn:?; try discriminate H
          end).

Ltac in_split :=
  repeat match goal with
         | H : In _ [] |- _ => destruct H
         | H : In _ (_ :: _) |- _ => destruct H as [<- | H]
         end.

Ltac start := intros e l e' HR Hin.

Lemma iss_eq s x : iss s x = true -> s = lit x.
Proof. unfold iss. apply str_eqb_eq. Qed.

Lemma is_op_inv a name : is_op a name = true -> exists xs, a = T (L (lit name) :: xs).
Proof.
  destruct a as [s|[|[h|hl] xs]]; cbn [is_op]; try discriminate.
  intro H. apply iss_eq in H. subst. eauto.
Qed.

(* split boolean conjunctions and turn symbol tests into equalities *)
Ltac bools :=
  repeat match goal with
         | H : _ && _ = true |- _ => apply andb_true_iff in H; destruct H
         | H : iss _ _ = true |- _ => apply iss_eq in H
         | H : is_op ?a ?n = true |- _ =>
             let xs := fresh "xs" in apply is_op_inv in H; destruct H as [xs H]
         end.

Global Hint Rewrite mu_not mu_and mu_or mu_eq mu_distinct mu_xor mu_bvcomp mu_ite mu_imp
  mu_bvnot mu_bvneg mu_bvnand mu_us mu_T_head mu_nil : mu.

(* the unfolding lemmas are stated with [L (lit _)]; goals are brought to that form *)
Ltac munf := unfold lf in *; repeat (progress (autorewrite with mu; cbn [map])).

Lemma sm_ge_length l : length l <= sm (map mu l).
Proof.
  induction l as [|x l IH]; cbn [map length]; [cbn; lia|]. rewrite sm_cons. pose proof (mu_pos x). lia.
Qed.

Lemma sm_pos x l : 1 <= sm (map mu (x :: l)).
Proof. cbn [map]. rewrite sm_cons. pose proof (mu_pos x). lia. Qed.

(* ---- numerals are not #b / #x literals ---- *)
Lemma const_leaf_to_dec n : const_leaf (to_dec n) = false.
Proof.
  pose proof (all_digits_to_dec n) as H. unfold const_leaf, is_bv_const.
  destruct (to_dec n) as [|c [|d tl]]; try reflexivity.
  unfold all_digits in H. cbn [forallb] in H. apply andb_true_iff in H as [H _].
  unfold is_digit in H. apply andb_true_iff in H as [H _]. apply N.leb_le in H.
  replace (N.eqb c cHASH) with false; [reflexivity|].
  symmetry. apply N.eqb_neq. unfold cHASH. lia.
Qed.

Lemma const_leaf_z_to_dec k : const_leaf (z_to_dec k) = false.
Proof.
  unfold z_to_dec. destruct (Z.ltb k 0); [|apply const_leaf_to_dec].
  unfold const_leaf, is_bv_const. destruct (to_dec (Z.to_N (- k))) as [|d tl]; reflexivity.
Qed.

Lemma w_leaf_z_to_dec k : w_leaf (z_to_dec k) = 1.
Proof. unfold w_leaf. now rewrite const_leaf_z_to_dec. Qed.

Lemma w_leaf_bv x : w_leaf (lit "bv" ++ x) = 1.
Proof. reflexivity. Qed.

Lemma mu_mk_bv_const v w : mu (mk_bv_const v w) = 3.
Proof.
  unfold mk_bv_const. munf. rewrite !mu_L, w_leaf_bv, w_leaf_z_to_dec. reflexivity.
Qed.

Lemma mu_idx_head1 (op : string) k : w_leaf (lit op) = 1 -> mu (idx_head op [k]) = 3.
Proof.
  intro H. unfold idx_head. munf. rewrite !mu_L, H, w_leaf_z_to_dec. reflexivity.
Qed.
Lemma mu_idx_head2 (op : string) i j : w_leaf (lit op) = 1 -> mu (idx_head op [i; j]) = 4.
Proof.
  intro H. unfold idx_head. munf. rewrite !mu_L, H, !w_leaf_z_to_dec. reflexivity.
Qed.

(* ---- indexed operators: (_ name i1 .. in), n + 2 children ---- *)
Lemma idx_op_mu h name cnt :
  is_indexed_operator h name cnt = true -> exists hl, h = T hl /\ cnt + 2 <= mu h.
Proof.
  destruct h as [s|l]; cbn [is_indexed_operator]; [discriminate|].
  destruct (Nat.ltb (length l) 2); [discriminate|].
  intro H. exists l. split; [reflexivity|].
  assert (G : (exists s r, l = L s :: r /\ iss s "_" = true /\ length l = cnt + 2)
              \/ (exists hl r, l = T hl :: r /\ length l = cnt + 2)).
  { destruct l as [|[s|hl] r]; [discriminate| |].
    - left. exists s, r. destruct (iss s "_"); [|discriminate]. cbn [negb] in H.
      destruct (nth_error (L s :: r) 1); [|discriminate].
      apply andb_true_iff in H as [_ H]. apply Nat.eqb_eq in H. auto.
    - right. exists hl, r. destruct (nth_error (T hl :: r) 1); [|discriminate].
      apply andb_true_iff in H as [_ H]. apply Nat.eqb_eq in H. auto. }
  destruct G as [(s & r & -> & Hs & Hl)|(hl & r & -> & Hl)].
  - apply iss_eq in Hs. subst s. munf. unfold F_gen. pose proof (sm_ge_length r). cbn [length] in Hl. lia.
  - rewrite mu_T_head. pose proof (mu_pos (T hl)). pose proof (F_gen_le_big (map mu r)) as Hg.
    unfold F_gen in Hg. pose proof (sm_ge_length r). cbn [length] in Hl. nia.
Qed.

Lemma idx_app_inv e name cnt :
  is_indexed_app e name cnt = true -> exists h r, e = T (h :: r) /\ is_indexed_operator h name cnt = true.
Proof. destruct e as [s|[|h r]]; cbn [is_indexed_app]; try discriminate. eauto. Qed.

(* a node whose head is not a leaf: lower bounds *)
Lemma mu_app_lower hl a r m : m <= mu (T hl) -> m * (11 * mu a + 4) <= mu (T (T hl :: a :: r)).
Proof.
  intro H. rewrite mu_T_head. cbn [map].
  pose proof (F_big_cons_ge (mu a) (map mu r)) as G. rewrite F_big_1 in G. nia.
Qed.

(* positivity facts for all the terms in the context *)
Ltac pos :=
  repeat match goal with
         | x : sexp |- _ =>
             lazymatch goal with
             | H : 1 <= mu x |- _ => fail
             | _ => pose proof (mu_pos x)
             end
         end.
