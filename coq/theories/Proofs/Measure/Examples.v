(* C03, layer 3 (partial ranking), M4: the boundary of the result, by computation.
   No modelled rewrite had to be left out of the ranked set S15.  The examples
   record (1) why the node count is not a ranking, (2) why the negated-relation
   rewrite needs the surrounding [not] to pay for the swap of the relation
   symbol, (3) that the three constant rewrites, which translate between the
   #b and the (_ bvN w) notations in both directions, do not form a cycle,
   (4) one decreasing instance of every rewrite, and (5) steps below the root.
   The cycles known for the whole tool go through mutators that are not
   rewrites of a node (EliminateVariable / ReplaceByVariable / InlineDefinedFuns,
   see the C03 cycle search); they are outside this model. *)
From DD Require Import Model.Rewrites Proofs.Measure.Weights Proofs.Measure.Mu Proofs.Measure.Step.
From Coq Require Import Relations.
Local Open Scope list_scope.

Definition x := lf "x". Definition y := lf "y". Definition z := lf "z".
Definition nt (a : sexp) := T [lf "not"; a].
Definition ze (k : string) := T [lf "_"; lf "zero_extend"; lf k].
Definition se (k : string) := T [lf "_"; lf "sign_extend"; lf k].
Definition ex (i j : string) := T [lf "_"; lf "extract"; lf i; lf j].
Definition bvc (v w : string) := T [lf "_"; L (lit "bv" ++ lit v); lf w].

(* measure of the node and of the proposals *)
Definition chk (R : sexp -> option (list sexp)) (e : sexp) := (mu e, option_map (map mu) (R e)).
Definition chk_size (R : sexp -> option (list sexp)) (e : sexp) := (size e, option_map (map size) (R e)).

(* (1) the node count grows under De Morgan, implication elimination, constant normalisation *)
Example size_grows_de_morgan : chk_size rw_bool_de_morgan (nt (T [lf "and"; x; y])) = (6, Some [8]).
Proof. vm_compute. reflexivity. Qed.
Example size_grows_implication : chk_size rw_bool_implication (T [lf "=>"; x; y; z]) = (5, Some [14]).
Proof. vm_compute. reflexivity. Qed.
Example size_grows_normalize : chk_size rw_bv_normalize (lf "#b101") = (1, Some [4]).
Proof. vm_compute. reflexivity. Qed.

(* (2) the map on relation symbols is an involution on {=, distinct}, {<, >=}, {>, <=} ... *)
Example negator_inverse_pairs :
  (negator (lit "="), negator (lit "distinct"), negator (lit "<"), negator (lit ">="), negator (lit ">"), negator (lit "<="))
  = (Some "distinct", Some "=", Some ">=", Some "<", Some "<=", Some ">")%string.
Proof. vm_compute. reflexivity. Qed.
(* ... so a ranking of the symbols alone cannot exist; the removed [not] pays *)
Example negate_eq : rw_arith_negate_relation (nt (T [lf "="; x; y])) = Some [T [lf "distinct"; x; y]]
  /\ mu (nt (T [lf "="; x; y])) = 8 /\ mu (T [lf "distinct"; x; y]) = 5.
Proof. vm_compute. repeat split; reflexivity. Qed.
Example negate_distinct : rw_arith_negate_relation (nt (T [lf "distinct"; x; y])) = Some [T [lf "="; x; y]]
  /\ mu (nt (T [lf "distinct"; x; y])) = 10 /\ mu (T [lf "="; x; y]) = 4.
Proof. vm_compute. repeat split; reflexivity. Qed.
(* the swapped relation is not negated again: the chain ends *)
Example negate_stops : rw_arith_negate_relation (T [lf "distinct"; x; y]) = Some [].
Proof. vm_compute. reflexivity. Qed.

(* (3) #b -> (_ bvN w) by bv_normalize; (_ bvN w) -> #b by bv_extract_const and by the
   sign-extension branch of bv_eval_extend, which consume the operator *)
Example const_chain_extract :
  rw_bv_extract_const (T [ex "0" "0"; bvc "1" "1"]) = Some [lf "#b1"]
  /\ rw_bv_normalize (lf "#b1") = Some [bvc "1" "1"]
  /\ (mu (T [ex "0" "0"; bvc "1" "1"]), mu (lf "#b1"), mu (bvc "1" "1")) = (148, 4, 3).
Proof. vm_compute. repeat split; reflexivity. Qed.
Example const_chain_sign_extend :
  rw_bv_eval_extend (T [se "1"; lf "#b1"]) = Some [lf "#b11"]
  /\ rw_bv_normalize (lf "#b11") = Some [bvc "3" "2"]
  /\ (mu (T [se "1"; lf "#b1"]), mu (lf "#b11"), mu (bvc "3" "2")) = (144, 4, 3).
Proof. vm_compute. repeat split; reflexivity. Qed.
Example const_normal_form : rw_bv_normalize (bvc "3" "2") = Some [].
Proof. vm_compute. reflexivity. Qed.

(* (4) one instance of every rewrite: measure of the node, measures of the proposals *)
Example ex_bool_double_neg : chk rw_bool_double_neg (nt (nt x)) = (4, Some [1]).
Proof. vm_compute. reflexivity. Qed.
Example ex_bool_de_morgan : chk rw_bool_de_morgan (nt (T [lf "and"; x; y; z])) = (8, Some [7]).
Proof. vm_compute. reflexivity. Qed.
Example ex_bool_de_morgan_or : chk rw_bool_de_morgan (nt (T [lf "or"; nt x; y])) = (8, Some [7]).
Proof. vm_compute. reflexivity. Qed.
Example ex_bool_false_eq : chk rw_bool_false_eq (T [lf "="; x; lf "false"; y]) = (8, Some [5]).
Proof. vm_compute. reflexivity. Qed.
Example ex_bool_implication : chk rw_bool_implication (T [lf "=>"; x; y; z]) = (13, Some [9]).
Proof. vm_compute. reflexivity. Qed.
Example ex_bool_xor_binary : chk rw_bool_xor_binary (T [lf "xor"; x; y]) = (6, Some [5]).
Proof. vm_compute. reflexivity. Qed.
Example ex_arith_negate_relation : chk rw_arith_negate_relation (nt (T [lf "<"; x; y])) = (6, Some [3]).
Proof. vm_compute. reflexivity. Qed.
Example ex_bv_normalize : chk rw_bv_normalize (lf "#xff") = (4, Some [3]).
Proof. vm_compute. reflexivity. Qed.
Example ex_bv_double_neg : chk rw_bv_double_neg (T [lf "bvneg"; T [lf "bvneg"; x]]) = (3, Some [1]).
Proof. vm_compute. reflexivity. Qed.
Example ex_bv_elim_bvcomp :
  chk (rw_bv_elim_bvcomp (fun _ => 1%Z)) (T [lf "="; lf "#b0"; x; T [lf "bvcomp"; x; y]; z]) = (48, Some [29]).
Proof. vm_compute. reflexivity. Qed.
Example ex_bv_eval_extend : chk rw_bv_eval_extend (T [ze "2"; lf "#b1"]) = (144, Some [3]).
Proof. vm_compute. reflexivity. Qed.
Example ex_bv_extract_const : chk rw_bv_extract_const (T [ex "1" "0"; lf "#b101"]) = (192, Some [4]).
Proof. vm_compute. reflexivity. Qed.
Example ex_bv_extract_zext_inside : chk (rw_bv_extract_zext (fun _ => 3%Z)) (T [ex "1" "0"; T [ze "2"; x]]) = (1996, Some [60]).
Proof. vm_compute. reflexivity. Qed.
Example ex_bv_extract_zext_zero : chk (rw_bv_extract_zext (fun _ => 3%Z)) (T [ex "4" "3"; T [ze "2"; x]]) = (1996, Some [3]).
Proof. vm_compute. reflexivity. Qed.
Example ex_bv_extract_zext_across : chk (rw_bv_extract_zext (fun _ => 3%Z)) (T [ex "4" "1"; T [ze "2"; x]]) = (1996, Some [1992]).
Proof. vm_compute. reflexivity. Qed.
Example ex_bv_ite_to_bvcomp :
  chk (rw_bv_ite_to_bvcomp (fun _ => true)) (T [lf "ite"; T [lf "="; x; y]; lf "#b1"; lf "#b0"]) = (21, Some [10]).
Proof. vm_compute. reflexivity. Qed.
Example ex_bv_reflexive_nand : chk rw_bv_reflexive_nand (T [lf "bvnand"; x; x]) = (3, Some [2]).
Proof. vm_compute. reflexivity. Qed.
Example ex_bv_merge_extend : chk rw_bv_merge_extend (T [ze "1"; T [ze "2"; x]]) = (1497, Some [45]).
Proof. vm_compute. reflexivity. Qed.

(* (5) steps below the root: in an argument, and in the head position *)
Example step_in_argument : step S15 (T [lf "and"; x; nt (nt y)]) (T [lf "and"; x; y]).
Proof.
  apply (step_child S15 [lf "and"; x] (nt (nt y)) y []). apply step_root.
  exists rw_bool_double_neg, [y]. split; [constructor|]. split; [reflexivity|now left].
Qed.
Example step_in_head : step S15 (T [nt (nt (lf "=>")); x; y]) (T [lf "=>"; x; y])
  /\ (mu (T [nt (nt (lf "=>")); x; y]), mu (T [lf "=>"; x; y])) = (96, 9).
Proof.
  split; [|vm_compute; reflexivity].
  apply (step_child S15 [] (nt (nt (lf "=>"))) (lf "=>") [x; y]). apply step_root.
  exists rw_bool_double_neg, [lf "=>"]. split; [constructor|]. split; [reflexivity|now left].
Qed.
(* a chain of three rewrites *)
Definition t0 := nt (T [lf "and"; T [lf "=>"; x; y]; z]).
Definition t1 := T [lf "or"; nt (T [lf "=>"; x; y]); nt z].
Definition t2 := T [lf "or"; nt (T [lf "or"; nt x; y]); nt z].
Definition t3 := T [lf "or"; T [lf "and"; nt (nt x); nt y]; nt z].
Example chain_of_three : chain S15 3 t0 t3 /\ (mu t0, mu t1, mu t2, mu t3) = (22, 21, 11, 10).
Proof.
  split; [|vm_compute; reflexivity].
  (* De Morgan at the root *)
  apply (chain_S S15 2 t0 t1 t3).
  { apply step_root. exists rw_bool_de_morgan, [t1]. split; [constructor|]. split; [reflexivity|now left]. }
  (* implication below the negation of the first disjunct *)
  apply (chain_S S15 1 t1 t2 t3).
  { apply (step_child S15 [lf "or"] (nt (T [lf "=>"; x; y])) (nt (T [lf "or"; nt x; y])) [nt z]).
    apply (step_child S15 [lf "not"] (T [lf "=>"; x; y]) (T [lf "or"; nt x; y]) []).
    apply step_root. exists rw_bool_implication, [T [lf "or"; nt x; y]].
    split; [constructor|]. split; [reflexivity|now left]. }
  (* De Morgan again *)
  apply (chain_S S15 0 t2 t3 t3).
  { apply (step_child S15 [lf "or"] (nt (T [lf "or"; nt x; y])) (T [lf "and"; nt (nt x); nt y]) [nt z]).
    apply step_root. exists rw_bool_de_morgan, [T [lf "and"; nt (nt x); nt y]].
    split; [constructor|]. split; [reflexivity|now left]. }
  apply chain_0.
Qed.
