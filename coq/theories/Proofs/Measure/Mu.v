(* C03, layer 3 (partial ranking): the measure [mu] on s-expressions and its
   strict monotonicity in every child position (M2). *)
From DD Require Import Model.Rewrites Proofs.Measure.Weights.
From Coq Require Import Arith Lia.
Local Open Scope list_scope.

(* literals in #b / #x notation weigh more than the (_ bvN w) notation (3) *)
Definition const_leaf (s : str) : bool := is_bv_const (L s).
Definition w_leaf (s : str) : nat := if const_leaf s then 4 else 1.

Definition Fsel (s : str) : list nat -> nat :=
  if iss s "not" then F_not
  else if iss s "=" then F_eq
  else if iss s "distinct" || iss s "!=" || iss s "<>" then F_dist
  else if iss s "xor" then F_xor
  else if iss s "bvcomp" then F_bvcomp
  else if iss s "ite" then F_ite
  else if iss s "=>" then F_imp
  else F_gen.

(* the head symbol, when the head is a leaf that is not a #b/#x literal *)
Definition hd_sym (l : list sexp) : option str :=
  match l with L s :: _ => if const_leaf s then None else Some s | _ => None end.

(* ms: the measures of all children, head included *)
Definition comb (o : option str) (ms : list nat) : nat :=
  match ms with
  | [] => 1
  | m :: args => match o with Some s => Fsel s args | None => m * F_big args end
  end.

Fixpoint mu (e : sexp) : nat :=
  match e with
  | L s => w_leaf s
  | T l => comb (hd_sym l) (map mu l)
  end.

(* ---- unfolding lemmas ---- *)
Lemma mu_L s : mu (L s) = w_leaf s.
Proof. reflexivity. Qed.
Lemma mu_T l : mu (T l) = comb (hd_sym l) (map mu l).
Proof. reflexivity. Qed.
Lemma mu_nil : mu (T []) = 1.
Proof. reflexivity. Qed.
Lemma mu_T_head hl args : mu (T (T hl :: args)) = mu (T hl) * F_big (map mu args).
Proof. reflexivity. Qed.
Lemma mu_T_sym s args : const_leaf s = false -> mu (T (L s :: args)) = Fsel s (map mu args).
Proof. intro H. rewrite mu_T. cbn [hd_sym map comb]. now rewrite H. Qed.

Lemma mu_not args : mu (T (L (lit "not") :: args)) = F_not (map mu args).
Proof. reflexivity. Qed.
Lemma mu_and args : mu (T (L (lit "and") :: args)) = F_gen (map mu args).
Proof. reflexivity. Qed.
Lemma mu_or args : mu (T (L (lit "or") :: args)) = F_gen (map mu args).
Proof. reflexivity. Qed.
Lemma mu_eq args : mu (T (L (lit "=") :: args)) = F_eq (map mu args).
Proof. reflexivity. Qed.
Lemma mu_distinct args : mu (T (L (lit "distinct") :: args)) = F_dist (map mu args).
Proof. reflexivity. Qed.
Lemma mu_xor args : mu (T (L (lit "xor") :: args)) = F_xor (map mu args).
Proof. reflexivity. Qed.
Lemma mu_bvcomp args : mu (T (L (lit "bvcomp") :: args)) = F_bvcomp (map mu args).
Proof. reflexivity. Qed.
Lemma mu_ite args : mu (T (L (lit "ite") :: args)) = F_ite (map mu args).
Proof. reflexivity. Qed.
Lemma mu_imp args : mu (T (L (lit "=>") :: args)) = F_imp (map mu args).
Proof. reflexivity. Qed.
Lemma mu_bvnot args : mu (T (L (lit "bvnot") :: args)) = F_gen (map mu args).
Proof. reflexivity. Qed.
Lemma mu_bvneg args : mu (T (L (lit "bvneg") :: args)) = F_gen (map mu args).
Proof. reflexivity. Qed.
Lemma mu_bvnand args : mu (T (L (lit "bvnand") :: args)) = F_gen (map mu args).
Proof. reflexivity. Qed.
Lemma mu_us args : mu (T (L (lit "_") :: args)) = F_gen (map mu args).
Proof. reflexivity. Qed.

Lemma w_leaf_bounds s : 1 <= w_leaf s <= 4.
Proof. unfold w_leaf. destruct (const_leaf s); lia. Qed.

(* ---- the selected weight functions: positivity, monotonicity, domination ---- *)
Ltac fsel_cases s :=
  unfold Fsel;
  repeat match goal with |- context [if ?c then _ else _] => destruct c end.

Lemma Fsel_smono s : smono (Fsel s).
Proof.
  fsel_cases s; auto using F_not_smono, F_eq_smono, F_dist_smono, F_xor_smono,
    F_bvcomp_smono, F_ite_smono, F_imp_smono, F_gen_smono.
Qed.

Lemma Fsel_le_big s a : Fsel s a <= F_big a.
Proof.
  fsel_cases s; auto using F_not_le_big, F_eq_le_big, F_dist_le_big, F_xor_le_big,
    F_bvcomp_le_big, F_ite_le_big, F_imp_le_big, F_gen_le_big.
Qed.

Lemma F_eq_pos a : Forall (fun x => 1 <= x) a -> 1 <= F_eq a.
Proof.
  intro H. destruct a as [|x [|t r]]; [cbn; lia| |].
  - inversion H; subst. cbn. lia.
  - inversion H; subst. rewrite F_eq_cons2. cbn [eqsum]. lia.
Qed.

Lemma Fsel_pos s a : Forall (fun x => 1 <= x) a -> 1 <= Fsel s a.
Proof.
  intro H. pose proof (F_eq_pos a H).
  fsel_cases s; unfold F_dist, F_xor, F_bvcomp, F_imp, F_gen; try lia.
  - destruct a as [|x r]; cbn [F_not]; [lia|]. inversion H; subst. lia.
  - destruct a as [|x r]; cbn [F_ite]; lia.
Qed.

Lemma mu_pos e : 1 <= mu e.
Proof.
  induction e as [s|l IH] using sexp_ind'.
  - apply w_leaf_bounds.
  - rewrite mu_T. destruct l as [|h r]; [cbn; lia|].
    cbn [map comb]. inversion IH as [|? ? Hh Hr]; subst.
    destruct (hd_sym (h :: r)).
    + apply Fsel_pos. clear -Hr. induction Hr; cbn [map]; constructor; assumption.
    + pose proof (F_big_pos (map mu r)). nia.
Qed.

Lemma hd_sym_some x post s : hd_sym (x :: post) = Some s -> mu x = 1.
Proof.
  destruct x as [t|l]; cbn [hd_sym]; [|discriminate].
  destruct (const_leaf t) eqn:E; [discriminate|]. intros _. rewrite mu_L. unfold w_leaf. now rewrite E.
Qed.

(* M2: strict monotonicity in every child position, the head position included *)
Theorem mu_mono : forall pre x y post,
  mu y < mu x -> mu (T (pre ++ y :: post)) < mu (T (pre ++ x :: post)).
Proof.
  intros pre x y post H. rewrite !mu_T, !map_app. cbn [map].
  destruct pre as [|h pre]; cbn [app map comb].
  - pose proof (mu_pos y) as Py. pose proof (F_big_pos (map mu post)) as Pb.
    destruct (hd_sym (x :: post)) as [s|] eqn:Ex.
    { apply hd_sym_some in Ex. lia. }
    destruct (hd_sym (y :: post)) as [s|] eqn:Ey.
    + pose proof (Fsel_le_big s (map mu post)). nia.
    + nia.
  - replace (hd_sym (h :: pre ++ y :: post)) with (hd_sym (h :: pre ++ x :: post)) by reflexivity.
    destruct (hd_sym (h :: pre ++ x :: post)) as [s|].
    + now apply Fsel_smono.
    + pose proof (mu_pos h). pose proof (F_big_smono (map mu pre) (mu x) (mu y) (map mu post) H). nia.
Qed.

(* the same with the head kept apart *)
Corollary mu_mono_arg : forall h pre x y post,
  mu y < mu x -> mu (T (h :: pre ++ y :: post)) < mu (T (h :: pre ++ x :: post)).
Proof. intros h pre x y post. apply (mu_mono (h :: pre)). Qed.
