(* C03, layer 3 (partial ranking), M1: the Boolean and relational rewrites
   decrease the measure at the root. *)
From DD Require Import Proofs.Measure.RootBase.
Local Open Scope list_scope.

Theorem bool_double_neg_decr : decr rw_bool_double_neg.
Proof.
  start. unfold rw_bool_double_neg in HR. brk HR; injection HR as <-; in_split.
  bools. subst. cbn [args_of] in *. subst. munf. cbn [F_not].
  match goal with |- mu ?x < _ => pose proof (mu_pos x) end. lia.
Qed.

Lemma mu_neg t : mu (T [L (lit "not"); t]) = 2 * mu t.
Proof. munf. cbn [F_not sm fold_right]. lia. Qed.

Lemma sm_map_not xs : sm (map mu (map (fun t => T [L (lit "not"); t]) xs)) = 2 * sm (map mu xs).
Proof.
  induction xs as [|x xs IH]; [reflexivity|]. cbn [map]. rewrite !sm_cons, IH, mu_neg. lia.
Qed.

Theorem bool_de_morgan_decr : decr rw_bool_de_morgan.
Proof.
  start. unfold rw_bool_de_morgan in HR. brk HR; injection HR as <-; in_split.
  match goal with H : _ && _ = true |- _ => apply andb_true_iff in H; destruct H as [Hn Ho] end.
  apply iss_eq in Hn. subst.
  apply orb_true_iff in Ho as [Ho|Ho]; apply is_op_inv in Ho as [xs ->].
  - change (is_op (T (L (lit "and") :: xs)) "and") with true. cbn iota. cbn [args_of].
    destruct xs as [|x r].
    + cbn [map node_of]. change (mu (lf "or")) with 1. munf. cbn [F_not]. unfold F_gen. cbn [sm fold_right]. lia.
    + cbn [map node_of]. munf. cbn [F_not sm fold_right]. unfold F_gen.
      rewrite !sm_cons, sm_map_not. lia.
  - change (is_op (T (L (lit "or") :: xs)) "and") with false. cbn iota. cbn [args_of].
    destruct xs as [|x r].
    + cbn [map node_of]. change (mu (lf "and")) with 1. munf. cbn [F_not]. unfold F_gen. cbn [sm fold_right]. lia.
    + cbn [map node_of]. munf. cbn [F_not sm fold_right]. unfold F_gen.
      rewrite !sm_cons, sm_map_not. lia.
Qed.

(* dropping the operands equal to false removes at least one operand *)
Lemma filter_sm_le (f : sexp -> bool) args : sm (map mu (filter f args)) <= sm (map mu args).
Proof.
  induction args as [|a args IH]; [cbn; lia|]. cbn [filter]. destruct (f a); cbn [map]; rewrite ?sm_cons; lia.
Qed.
Lemma filter_sm_lt (g : sexp -> bool) args :
  existsb g args = true -> sm (map mu (filter (fun n => negb (g n)) args)) + 1 <= sm (map mu args).
Proof.
  induction args as [|a args IH]; [discriminate|]. cbn [existsb filter]. intro H.
  destruct (g a); cbn [negb orb] in H; cbn [negb map]; rewrite ?sm_cons.
  - pose proof (filter_sm_le (fun n => negb (g n)) args). pose proof (mu_pos a). lia.
  - specialize (IH H). lia.
Qed.

Theorem bool_false_eq_decr : decr rw_bool_false_eq.
Proof.
  start. unfold rw_bool_false_eq in HR. brk HR; injection HR as <-; try solve [destruct Hin].
  bools. subst. match goal with |- _ < mu (T (_ :: ?a)) => rename a into l0 end.
  match goal with H : existsb _ (_ :: _) = true |- _ => cbn [existsb] in H;
    change (sexp_eqb (L (lit "=")) (lf "false")) with false in H; cbn [orb] in H; rename H into Hex end.
  assert (Hne : l0 <> []) by (intro; subst; discriminate).
  pose proof (F_eq_ge_sm (map mu l0)) as Hge.
  assert (Hne' : map mu l0 <> []) by (destruct l0; [congruence|discriminate]). specialize (Hge Hne').
  pose proof (filter_sm_lt (fun n => sexp_eqb n (lf "false")) l0 Hex) as Hlt.
  munf. fold (lf "false") in *.
  destruct (filter (fun n => negb (sexp_eqb n (lf "false"))) l0) as [|x [|y r]]; cbn [map make_and olist1] in Hin; in_split.
  - rewrite mu_neg. cbn [map] in Hlt. rewrite !sm_cons in Hlt. cbn [sm fold_right] in Hlt. lia.
  - munf. unfold F_gen. rewrite !sm_cons, sm_map_not. cbn [F_not sm fold_right].
    cbn [map] in Hlt. rewrite !sm_cons in Hlt. lia.
Qed.

Lemma impl_pairs_cons a b r :
  impl_pairs (a :: b :: r) = T [lf "or"; T [lf "not"; a]; b] :: impl_pairs (b :: r).
Proof. reflexivity. Qed.

Lemma impl_pairs_sm : forall r a,
  sm (map mu (impl_pairs (a :: r))) + mu a + 3 <= 4 * sm (map mu (a :: r)).
Proof.
  induction r as [|b r IH]; intro a; pose proof (mu_pos a).
  - cbn [impl_pairs map]. rewrite !sm_cons. cbn [sm fold_right]. lia.
  - rewrite impl_pairs_cons. specialize (IH b). cbn [map] in *. rewrite !sm_cons in *.
    rewrite mu_or. cbn [map]. rewrite mu_neg. unfold F_gen. rewrite !sm_cons. cbn [sm fold_right] in *. lia.
Qed.

Theorem bool_implication_decr : decr rw_bool_implication.
Proof.
  start. unfold rw_bool_implication in HR. brk HR; injection HR as <-; try solve [destruct Hin].
  bools. subst. match goal with |- _ < mu (T (_ :: ?a)) => rename a into l0 end. munf. unfold F_imp.
  destruct l0 as [|a r]; [destruct Hin|].
  pose proof (impl_pairs_sm r a) as Hs. pose proof (mu_pos a).
  destruct (impl_pairs (a :: r)) as [|x [|y q]]; cbn [make_and olist1] in Hin; in_split.
  - cbn [map] in Hs. rewrite !sm_cons in Hs. cbn [sm fold_right] in Hs. cbn [map]. rewrite sm_cons. lia.
  - munf. unfold F_gen. cbn [map] in *. rewrite !sm_cons in *. lia.
Qed.

Theorem bool_xor_binary_decr : decr rw_bool_xor_binary.
Proof.
  start. unfold rw_bool_xor_binary in HR. brk HR; injection HR as <-; in_split.
  bools. subst. munf. unfold F_xor, F_dist. lia.
Qed.

(* the weight functions of the relation symbols *)
Lemma Fsel_eq : Fsel (lit "=") = F_eq. Proof. reflexivity. Qed.
Lemma Fsel_distinct : Fsel (lit "distinct") = F_dist. Proof. reflexivity. Qed.
Lemma Fsel_ne1 : Fsel (lit "!=") = F_dist. Proof. reflexivity. Qed.
Lemma Fsel_ne2 : Fsel (lit "<>") = F_dist. Proof. reflexivity. Qed.
Lemma Fsel_lt : Fsel (lit "<") = F_gen. Proof. reflexivity. Qed.
Lemma Fsel_le : Fsel (lit "<=") = F_gen. Proof. reflexivity. Qed.
Lemma Fsel_gt : Fsel (lit ">") = F_gen. Proof. reflexivity. Qed.
Lemma Fsel_ge : Fsel (lit ">=") = F_gen. Proof. reflexivity. Qed.
Global Hint Rewrite Fsel_eq Fsel_distinct Fsel_ne1 Fsel_ne2 Fsel_lt Fsel_le Fsel_gt Fsel_ge : fsel.

Theorem arith_negate_relation_decr : decr rw_arith_negate_relation.
Proof.
  start. unfold rw_arith_negate_relation in HR. brk HR; injection HR as <-; in_split.
  bools. subst.
  match goal with H : negator _ = Some _ |- _ => unfold negator in H; rename H into Hn end.
  assert (Hp : forall x r, 2 <= F_eq (map mu (x :: r))).
  { intros x r. pose proof (F_eq_ge_sm (map mu (x :: r))) as G. pose proof (sm_pos x r).
    assert (map mu (x :: r) <> []) by discriminate. specialize (G ltac:(assumption)). lia. }
  repeat match type of Hn with
         | (if iss ?r ?n then _ else _) = _ =>
             let E := fresh "E" in destruct (iss r n) eqn:E; [apply iss_eq in E; subst r; injection Hn as <-|]
         end; try discriminate.
  all: match goal with |- mu (node_of _ ?xs) < _ => destruct xs as [|x r] end.
  all: cbn [node_of]; unfold lf.
  all: rewrite mu_not; cbn [map F_not].
  all: rewrite ?mu_L; rewrite ?mu_T_sym by reflexivity; autorewrite with fsel.
  all: try (match goal with |- w_leaf (lit ?n) < _ => change (w_leaf (lit n)) with 1 end).
  all: try specialize (Hp x r).
  all: unfold F_dist, F_gen in *; first [lia | cbn [map F_eq]; lia].
Qed.
