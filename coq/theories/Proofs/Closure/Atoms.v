(* C15, part 3: the leaves a rewrite writes afresh are atoms: operator names,
   decimal numerals (with a minus sign for negative Python ints), binary
   literals and bv-numerals. *)
From DD Require Import Model.Rewrites Spec.StdReader.
Local Open Scope list_scope.

(* every character may occur anywhere in an atom *)
Definition atom_str (s : str) : bool := forallb atom_char s.

(* since the scanner's fix F41 the atoms of the reader are the standard atoms, and the well-formed leaves are the
   standard leaves *)
Lemma atom_ok_lib_eq s : atom_ok_lib s = atom_ok s.
Proof. reflexivity. Qed.

Lemma leaf_ok_std s : leaf_ok s = leaf_std s.
Proof. reflexivity. Qed.

Lemma atom_str_leaf s : s <> [] -> atom_str s = true -> leaf_ok s = true.
Proof.
  intros Hne H. destruct s as [|c tl]; [congruence|].
  unfold leaf_ok, atom_ok_lib, atom_ok. unfold atom_str in H. now rewrite H.
Qed.

Lemma atom_str_app a b : atom_str (a ++ b) = atom_str a && atom_str b.
Proof. apply forallb_app. Qed.

Lemma digit_atom_char c : is_digit c = true -> atom_char c = true.
Proof.
  unfold is_digit. intro H. apply andb_true_iff in H as [H1 H2].
  apply N.leb_le in H1, H2.
  unfold atom_char, is_ws, is_brk, cSP, cTAB, cLF, cCR, cLP, cRP, cSEMI, cDQ, cBAR, char in *.
  repeat (rewrite (proj2 (N.eqb_neq _ _)) by lia). reflexivity.
Qed.

Lemma digits_atom_str s : forallb is_digit s = true -> atom_str s = true.
Proof.
  intro H. apply forallb_forall. intros x Hx. apply digit_atom_char.
  rewrite forallb_forall in H. now apply H.
Qed.

Theorem digits_leaf_proof : forall s, s <> [] -> forallb is_digit s = true -> leaf_ok s = true.
Proof. intros s H1 H2. apply atom_str_leaf; [exact H1|now apply digits_atom_str]. Qed.

(* ---- str(n) ---- *)
Lemma to_dec_aux_digits fuel : forall n acc,
  forallb is_digit acc = true -> forallb is_digit (to_dec_aux fuel n acc) = true.
Proof.
  induction fuel as [|k IH]; intros n acc Hacc; cbn [to_dec_aux]; [exact Hacc|].
  assert (Hd : is_digit (48 + n mod 10)%N = true).
  { unfold is_digit. pose proof (N.mod_lt n 10 ltac:(discriminate)) as Hm.
    revert Hm. generalize (n mod 10)%N. intros m Hm.
    apply andb_true_iff. split; apply N.leb_le; lia. }
  destruct (N.ltb n 10).
  - cbn [forallb]. now rewrite Hd, Hacc.
  - apply IH. cbn [forallb]. now rewrite Hd, Hacc.
Qed.

Lemma to_dec_aux_nonempty fuel : forall n acc, acc <> [] -> to_dec_aux fuel n acc <> [].
Proof.
  induction fuel as [|k IH]; intros n acc Hacc; cbn [to_dec_aux]; [exact Hacc|].
  destruct (N.ltb n 10); [discriminate|]. apply IH. discriminate.
Qed.

Theorem to_dec_digits_proof : forall n, forallb is_digit (to_dec n) = true /\ to_dec n <> [].
Proof.
  intro n. unfold to_dec. split; [now apply to_dec_aux_digits|].
  cbn [to_dec_aux]. destruct (N.ltb n 10); [discriminate|].
  apply to_dec_aux_nonempty. discriminate.
Qed.

(* ---- bin(n)[2:] ---- *)
Lemma to_bin_aux_digits fuel : forall n acc,
  forallb is_digit acc = true -> forallb is_digit (to_bin_aux fuel n acc) = true.
Proof.
  induction fuel as [|k IH]; intros n acc Hacc; cbn [to_bin_aux]; [exact Hacc|].
  assert (Hd : is_digit (48 + n mod 2)%N = true).
  { unfold is_digit. pose proof (N.mod_lt n 2 ltac:(discriminate)) as Hm.
    revert Hm. generalize (n mod 2)%N. intros m Hm.
    apply andb_true_iff. split; apply N.leb_le; lia. }
  destruct (N.ltb n 2).
  - cbn [forallb]. now rewrite Hd, Hacc.
  - apply IH. cbn [forallb]. now rewrite Hd, Hacc.
Qed.

Lemma to_bin_aux_nonempty fuel : forall n acc, acc <> [] -> to_bin_aux fuel n acc <> [].
Proof.
  induction fuel as [|k IH]; intros n acc Hacc; cbn [to_bin_aux]; [exact Hacc|].
  destruct (N.ltb n 2); [discriminate|]. apply IH. discriminate.
Qed.

Theorem to_bin_digits_proof : forall n, forallb is_digit (to_bin n) = true /\ to_bin n <> [].
Proof.
  intro n. unfold to_bin. split; [now apply to_bin_aux_digits|].
  cbn [to_bin_aux]. destruct (N.ltb n 2); [discriminate|].
  apply to_bin_aux_nonempty. discriminate.
Qed.

Lemma repeat_c_digits c n : is_digit c = true -> forallb is_digit (repeat_c c n) = true.
Proof. intro H. induction n as [|k IH]; [reflexivity|]. cbn [repeat_c forallb]. now rewrite H, IH. Qed.

Lemma forallb_firstn {A} (f : A -> bool) n l : forallb f l = true -> forallb f (firstn n l) = true.
Proof.
  revert l. induction n as [|k IH]; intros [|x l] H; try reflexivity.
  cbn [firstn forallb] in *. apply andb_true_iff in H as [H1 H2]. now rewrite H1, IH.
Qed.

Lemma forallb_skipn {A} (f : A -> bool) n l : forallb f l = true -> forallb f (skipn n l) = true.
Proof.
  revert l. induction n as [|k IH]; intros [|x l] H; try reflexivity; [exact H|].
  cbn [skipn forallb] in *. apply andb_true_iff in H as [_ H2]. now apply IH.
Qed.

Lemma slice_digits s a b : forallb is_digit s = true -> forallb is_digit (slice s a b) = true.
Proof.
  intro H. unfold slice. destruct (Z.ltb a 0 || Z.ltb b 0); [reflexivity|].
  now apply forallb_firstn, forallb_skipn.
Qed.

(* ---- the leaves ---- *)
Theorem z_to_dec_atom_proof : forall z, atom_str (z_to_dec z) = true /\ z_to_dec z <> [].
Proof.
  intro z. unfold z_to_dec. destruct (Z.ltb z 0).
  - split; [|discriminate]. unfold atom_str. cbn [forallb].
    destruct (to_dec_digits_proof (Z.to_N (- z))) as [H _].
    apply digits_atom_str in H. unfold atom_str in H. now rewrite H.
  - destruct (to_dec_digits_proof (Z.to_N z)) as [H1 H2]. split; [|exact H2].
    now apply digits_atom_str.
Qed.

Lemma z_to_dec_leaf z : leaf_ok (z_to_dec z) = true.
Proof. destruct (z_to_dec_atom_proof z). now apply atom_str_leaf. Qed.

Lemma to_dec_leaf n : leaf_ok (to_dec n) = true.
Proof.
  destruct (to_dec_digits_proof n). apply atom_str_leaf; [assumption|now apply digits_atom_str].
Qed.

Lemma bv_name_leaf z : leaf_ok (lit "bv" ++ z_to_dec z) = true.
Proof.
  apply atom_str_leaf; [discriminate|]. rewrite atom_str_app.
  destruct (z_to_dec_atom_proof z) as [H _]. now rewrite H.
Qed.

Lemma bin_lit_leaf ds : forallb is_digit ds = true -> leaf_ok (cHASH :: c_b :: ds) = true.
Proof.
  intro H. apply atom_str_leaf; [discriminate|]. unfold atom_str. cbn [forallb].
  apply digits_atom_str in H. unfold atom_str in H. now rewrite H.
Qed.

Lemma wf_mk_bv_const v w : wf (mk_bv_const v w) = true.
Proof.
  unfold mk_bv_const. cbn [wf forallb]. now rewrite bv_name_leaf, z_to_dec_leaf.
Qed.

Lemma wf_idx_head op ks : leaf_ok (lit op) = true -> wf (idx_head op ks) = true.
Proof.
  intro H. unfold idx_head, lf. cbn [wf forallb]. rewrite H. cbn [andb].
  change (leaf_ok (lit "_")) with true. cbn [andb].
  induction ks as [|k ks IH]; [reflexivity|]. cbn [map forallb wf]. now rewrite z_to_dec_leaf, IH.
Qed.

(* ---- subterms ---- *)
Lemma wf_T_in l x : wf (T l) = true -> In x l -> wf x = true.
Proof. cbn [wf]. intro H. rewrite forallb_forall in H. apply H. Qed.

Lemma wf_args_of e : wf e = true -> forallb wf (args_of e) = true.
Proof.
  destruct e as [s|[|h r]]; try reflexivity. cbn [wf forallb args_of].
  intro H. now apply andb_true_iff in H as [_ H].
Qed.

Lemma wf_node_of h args :
  leaf_ok (lit h) = true -> forallb wf args = true -> wf (node_of h args) = true.
Proof.
  intros Hh Ha. unfold node_of, lf. destruct args as [|a r]; [exact Hh|].
  cbn [wf forallb] in *. now rewrite Hh, Ha.
Qed.

Lemma wf_make_and l x : forallb wf l = true -> make_and l = Some x -> wf x = true.
Proof.
  intros Hl E. destruct l as [|a [|b r]]; cbn [make_and] in E; [discriminate| |];
    injection E as <-.
  - cbn [forallb] in Hl. now apply andb_true_iff in Hl as [Hl _].
  - unfold lf. cbn [wf]. cbn [forallb]. change (leaf_ok (lit "and")) with true. exact Hl.
Qed.

Lemma forallb_map_wf {A} (f : A -> sexp) (l : list A) :
  (forall a, In a l -> wf (f a) = true) -> forallb wf (map f l) = true.
Proof.
  intro H. apply forallb_forall. intros x Hx. apply in_map_iff in Hx as (a & <- & Ha). now apply H.
Qed.

Lemma forallb_filter_wf (p : sexp -> bool) l : forallb wf l = true -> forallb wf (filter p l) = true.
Proof.
  intro H. apply forallb_forall. intros x Hx. apply filter_In in Hx as [Hx _].
  rewrite forallb_forall in H. now apply H.
Qed.
