(* C15, part 4, for LetSubstitution (Model/LetRw.v): the proposed let is made
   of subterms of the node; it is well formed whenever the node is. *)
From DD Require Import Model.Rewrites Model.LetRw Spec.StdReader Proofs.Closure.RwClosed Proofs.Rw.LetSubst.
Local Open Scope list_scope.

Lemma subst_all_unfold k v e :
  subst_all k v e = if sexp_eqb e k then v else match e with L _ => e | T l => T (map (subst_all k v) l) end.
Proof. destruct e; reflexivity. Qed.

Lemma wf_subst_all k v : wf v = true -> forall e, wf e = true -> wf (subst_all k v e) = true.
Proof.
  intros Hv. induction e as [s | l IH] using sexp_ind'; intros He; rewrite subst_all_unfold.
  - destruct (sexp_eqb (L s) k); assumption.
  - destruct (sexp_eqb (T l) k); [assumption|]. cbn [wf] in He |- *.
    rewrite Forall_forall in IH. rewrite forallb_forall in He. apply forallb_forall.
    intros a Ha. apply in_map_iff in Ha as (b & <- & Hb). apply (IH b Hb). now apply He.
Qed.

Theorem rw_let_subst_closed : closed_rw rw_let_subst.
Proof.
  intros e l e' Hw HR Hin. unfold rw_let_subst in HR.
  destruct (is_op e "let"); [| injection HR as <-; destruct Hin].
  destruct e as [s | [| h [| n1 [| body rest]]]]; try (injection HR as <-; destruct Hin).
  destruct n1 as [[| c s] | vars]; [injection HR as <-; destruct Hin | discriminate HR |].
  destruct (collect_opt_In _ _ _ HR Hin) as (o & Ho & Hino).
  apply in_map_iff in Ho as (var & Hvar & Hvin).
  cbn [wf forallb] in Hw. apply andb_true_iff in Hw as [Hwh Hw]. apply andb_true_iff in Hw as [Hwn Hw].
  apply andb_true_iff in Hw as [Hwb _].
  assert (Hwvar : wf var = true) by (cbn [wf] in Hwn; rewrite forallb_forall in Hwn; now apply Hwn).
  unfold let_subst_var in Hvar. destruct var as [s | [| v0 [| v1 r]]]; try discriminate Hvar.
  cbn [wf forallb] in Hwvar. apply andb_true_iff in Hwvar as [_ Hwvar]. apply andb_true_iff in Hwvar as [Hwv1 _].
  do 3 (match type of Hvar with
        | (if ?c then _ else _) = Some _ => destruct c; [injection Hvar as <-; destruct Hino|]
        end).
  destruct (mem_sexp v0 (subterms body)); injection Hvar as <-; [|destruct Hino].
  destruct Hino as [<- | []].
  cbn [wf forallb]. rewrite Hwh, Hwn, (wf_subst_all v0 v1 Hwv1 body Hwb). reflexivity.
Qed.
