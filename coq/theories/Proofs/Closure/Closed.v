(* C15, part 2: the generic closure theorem.  The result of substitute (and of
   apply_simp, with declarations inserted) consists of single-token leaves
   whenever the input and the replacement values do; hence the tree kept in
   memory is what the reader parses from each of the four renderings. *)
From DD Require Import Model.Subst Model.Lexer Model.Writer Spec.StdReader.
From DD Require Import Proofs.Redup.ListAux Proofs.Subst.SubstBase Proofs.Subst.SubstIdentity
  Proofs.Subst.SubstTokens Proofs.Subst.SubstClosed Proofs.Subst.IntroVars
  Proofs.Lex.Writers Proofs.Closure.Tokens.

Local Open Scope Z_scope.

Definition roundtrips (es : list sexp) : Prop :=
  forallb wf es = true /\
  parse (w_check es) = es /\ parse (w_default es) = es /\
  parse (w_pretty es) = es /\ parse (w_wrap es) = es.

Lemma wf_roundtrips es : forallb wf es = true -> roundtrips es.
Proof.
  intro H. split; [exact H|]. split; [now apply parse_w_check_proof|].
  split; [now apply parse_w_default_proof|]. split; [now apply parse_w_pretty_proof|].
  now apply parse_w_wrap_proof.
Qed.

Section Closed.
  Variable hstr : str -> Z.
  Variable htup : list Z -> Z.

  Lemma substitute_wf l ri rs next :
    NoDup (ids_l l) ->
    (forall j, In j (ids_l l) -> j <= next) ->
    (forall v x y, In v (vals_i ri ++ vals_s rs) -> In x (subnodes v) -> In y (subnodes_l l) ->
                   nid x = nid y -> shape x = shape y) ->
    forallb wf (map shape l) = true ->
    (forall v, In v (vals_i ri ++ vals_s rs) -> wf (shape v) = true) ->
    forallb wf (map shape (snd (fst (substitute hstr htup l ri rs next)))) = true.
  Proof.
    intros HND HB Hcoh Hl Hv. apply wfs_iff_tokens_proof. rewrite flats_shape_proof.
    rewrite (subst_tokens_closed_proof hstr htup l ri rs next HND HB Hcoh).
    now apply spec_toks_ok_proof.
  Qed.

  (* K3 *)
  Theorem closed_apply_proof : forall l ri rs next,
    NoDup (ids_l l) ->
    (forall j, In j (ids_l l) -> j <= next) ->
    (forall v x y, In v (vals_i ri ++ vals_s rs) -> In x (subnodes v) -> In y (subnodes_l l) ->
                   nid x = nid y -> shape x = shape y) ->
    forallb wf (map shape l) = true ->
    (forall v, In v (vals_i ri ++ vals_s rs) -> wf (shape v) = true) ->
    let r := snd (fst (substitute hstr htup l ri rs next)) in
    forallb wf (map shape r) = true /\
    parse (w_check (map shape r)) = map shape r /\
    parse (w_default (map shape r)) = map shape r /\
    parse (w_pretty (map shape r)) = map shape r /\
    parse (w_wrap (map shape r)) = map shape r.
  Proof.
    intros l ri rs next HND HB Hcoh Hl Hv r. apply wf_roundtrips.
    now apply substitute_wf.
  Qed.

  Lemma introduce_variables_wf r vars :
    forallb wf (map shape r) = true -> forallb wf (map shape vars) = true ->
    forallb wf (map shape (introduce_variables r vars)) = true.
  Proof.
    intros Hr Hvars.
    destruct (introduce_variables_spec_proof r vars) as (pre & post & E1 & E2 & _).
    rewrite E2. rewrite E1 in Hr. rewrite !map_app, !forallb_app in *.
    apply andb_true_iff in Hr as [H1 H2]. now rewrite H1, H2, Hvars.
  Qed.

  Lemma apply_simp_result l ri rs vars next :
    let r := snd (fst (substitute hstr htup l ri rs next)) in
    snd (fst (apply_simp hstr htup l ri rs vars next)) = r \/
    snd (fst (apply_simp hstr htup l ri rs vars next)) = introduce_variables r vars.
  Proof.
    destruct (substitute hstr htup l ri rs next) as [[ch r] nx] eqn:E. cbn [fst snd].
    destruct (apply_simp_spec_proof hstr htup l ri rs vars next ch r nx E) as [-> Hno].
    destruct ch; cbn [fst snd].
    - destruct vars; [now left|now right].
    - left. symmetry. now apply Hno.
  Qed.

  (* K4 *)
  Theorem closed_apply_simp_proof : forall l ri rs vars next,
    NoDup (ids_l l) ->
    (forall j, In j (ids_l l) -> j <= next) ->
    (forall v x y, In v (vals_i ri ++ vals_s rs) -> In x (subnodes v) -> In y (subnodes_l l) ->
                   nid x = nid y -> shape x = shape y) ->
    forallb wf (map shape l) = true ->
    (forall v, In v (vals_i ri ++ vals_s rs) -> wf (shape v) = true) ->
    forallb wf (map shape vars) = true ->
    let r := snd (fst (apply_simp hstr htup l ri rs vars next)) in
    forallb wf (map shape r) = true /\
    parse (w_check (map shape r)) = map shape r /\
    parse (w_default (map shape r)) = map shape r /\
    parse (w_pretty (map shape r)) = map shape r /\
    parse (w_wrap (map shape r)) = map shape r.
  Proof.
    intros l ri rs vars next HND HB Hcoh Hl Hv Hvars r. apply wf_roundtrips.
    pose proof (substitute_wf l ri rs next HND HB Hcoh Hl Hv) as Hs.
    subst r. destruct (apply_simp_result l ri rs vars next) as [-> | ->].
    - exact Hs.
    - now apply introduce_variables_wf.
  Qed.

  (* what the result of apply_simp is, in terms of the substituted list *)
  Theorem apply_simp_shape_proof : forall l ri rs vars next,
    let s := snd (fst (substitute hstr htup l ri rs next)) in
    let r := snd (fst (apply_simp hstr htup l ri rs vars next)) in
    r = s \/ exists pre post, s = pre ++ post /\ r = pre ++ vars ++ post /\
                              forallb is_prefix_cmd pre = true.
  Proof.
    intros l ri rs vars next s r. subst s r.
    destruct (apply_simp_result l ri rs vars next) as [-> | ->]; [now left|right].
    destruct (introduce_variables_spec_proof
                (snd (fst (substitute hstr htup l ri rs next))) vars) as (pre & post & E1 & E2 & E3 & _).
    exists pre, post. now rewrite E2.
  Qed.
End Closed.
