(* C15, part 1: well-formedness of a tree is a property of its token sequence
   (every token is a single lexeme), and the token specification of substitute
   only produces such tokens when the input and the replacement values do. *)
From DD Require Import Model.Subst Spec.StdReader.
From DD Require Import Proofs.Redup.ListAux Proofs.Subst.SubstBase Proofs.Subst.SubstIdentity
  Proofs.Subst.SubstTokens Proofs.Subst.SubstClosed.

Definition tok_ok (x : lexeme) : Prop := lex_ok x = true.

Lemma Forall_flat_map {A B} (P : B -> Prop) (f : A -> list B) l :
  Forall P (flat_map f l) <-> Forall (fun a => Forall P (f a)) l.
Proof.
  induction l as [|x xs IH]; cbn [flat_map].
  - split; intro; constructor.
  - rewrite Forall_app, IH. split.
    + intros [H1 H2]. now constructor.
    + intro H. inversion H; subst. now split.
Qed.

Lemma Forall_paren (P : lexeme -> Prop) xs :
  P LPar -> P RPar -> (Forall P (LPar :: xs ++ [RPar]) <-> Forall P xs).
Proof.
  intros HL HR. split.
  - intro H. inversion H as [|a b _ H2]; subst. apply Forall_app in H2. tauto.
  - intro H. constructor; [exact HL|]. apply Forall_app. split; [exact H|]. now constructor.
Qed.

Lemma forallb_Forall_iff {A} (f : A -> bool) (P : A -> Prop) l :
  Forall (fun a => f a = true <-> P a) l -> (forallb f l = true <-> Forall P l).
Proof.
  intro H. induction H as [|x xs Hx _ IH]; cbn [forallb].
  - split; intro; [constructor|reflexivity].
  - rewrite andb_true_iff, Hx, IH. split.
    + intros [H1 H2]. now constructor.
    + intro H. inversion H; subst. now split.
Qed.

(* K1 *)
Theorem wf_iff_tokens_proof : forall e,
  wf e = true <-> Forall (fun x => lex_ok x = true) (flat e).
Proof.
  induction e as [s|l IH] using sexp_ind'.
  - cbn [wf flat]. split.
    + intro H. constructor; [exact H|constructor].
    + intro H. inversion H; subst. assumption.
  - cbn [wf flat]. rewrite (Forall_paren (fun x => lex_ok x = true)) by reflexivity.
    rewrite Forall_flat_map. now apply forallb_Forall_iff.
Qed.

Theorem wfs_iff_tokens_proof : forall es,
  forallb wf es = true <-> Forall (fun x => lex_ok x = true) (flats es).
Proof.
  intro es. unfold flats. rewrite Forall_flat_map. apply forallb_Forall_iff.
  apply Forall_forall. intros e _. apply wf_iff_tokens_proof.
Qed.

Theorem flats_shape_proof : forall l, flats (map shape l) = flat_map toks l.
Proof. intro l. unfold flats. rewrite flat_map_map. reflexivity. Qed.

Lemma wf_toks n : wf (shape n) = true <-> Forall (fun x => lex_ok x = true) (toks n).
Proof. apply wf_iff_tokens_proof. Qed.

Lemma wf_shape_NT i h l : wf (shape (NT i h l)) = forallb wf (map shape l).
Proof. reflexivity. Qed.

Lemma forallb_map_in {A B} (f : B -> bool) (g : A -> B) l a :
  forallb f (map g l) = true -> In a l -> f (g a) = true.
Proof.
  intros H Ha. rewrite forallb_forall in H. apply H. now apply in_map.
Qed.

Section SpecOk.
  Variable hstr : str -> Z.

  Lemma find_id_in ri e v : find_id ri e = Some (Some v) -> In v (vals_i ri).
  Proof.
    unfold find_id. destruct (Z.eqb (nid e) 0); [discriminate|]. apply lookup_id_in.
  Qed.

  Lemma toks_opt_ok (vs : list node) v :
    (forall x, In x vs -> wf (shape x) = true) ->
    (forall x, v = Some x -> In x vs) ->
    Forall (fun x => lex_ok x = true) (toks_opt v).
  Proof.
    intros Hv Hin. destruct v as [x|]; cbn [toks_opt]; [|constructor].
    apply wf_toks. apply Hv. now apply Hin.
  Qed.

  Lemma spec_toks_ok1 ri rs :
    (forall v, In v (vals_i ri ++ vals_s rs) -> wf (shape v) = true) ->
    forall e, wf (shape e) = true ->
    Forall (fun x => lex_ok x = true) (spec_toks hstr ri rs e).
  Proof.
    intros Hv. induction e as [i s|i h l IH] using node_ind'; intro Hw; rewrite spec_toks_eq.
    - destruct (find_id ri (NL i s)) as [v|] eqn:Hf.
      { apply (toks_opt_ok _ v Hv). intros x ->. apply in_or_app. left.
        eapply find_id_in. exact Hf. }
      destruct (lookup_s hstr rs (NL i s)) as [v|] eqn:Hl.
      { apply (toks_opt_ok _ v Hv). intros x ->. apply in_or_app. right.
        eapply lookup_s_in. exact Hl. }
      now apply wf_toks.
    - destruct (find_id ri (NT i h l)) as [v|] eqn:Hf.
      { apply (toks_opt_ok _ v Hv). intros x ->. apply in_or_app. left.
        eapply find_id_in. exact Hf. }
      destruct (lookup_s hstr rs (NT i h l)) as [v|] eqn:Hl.
      { apply (toks_opt_ok _ v Hv). intros x ->. apply in_or_app. right.
        eapply lookup_s_in. exact Hl. }
      apply (Forall_paren (fun x => lex_ok x = true)); [reflexivity|reflexivity|].
      apply Forall_flat_map. rewrite Forall_forall in IH. apply Forall_forall.
      intros a Ha. apply IH; [exact Ha|]. rewrite wf_shape_NT in Hw.
      exact (forallb_map_in wf shape l a Hw Ha).
  Qed.

  (* K2 *)
  Theorem spec_toks_ok_proof : forall ri rs l,
    forallb wf (map shape l) = true ->
    (forall v, In v (vals_i ri ++ vals_s rs) -> wf (shape v) = true) ->
    Forall (fun x => lex_ok x = true) (flat_map (spec_toks hstr ri rs) l).
  Proof.
    intros ri rs l Hl Hv. apply Forall_flat_map. apply Forall_forall. intros a Ha.
    apply spec_toks_ok1; [exact Hv|]. exact (forallb_map_in wf shape l a Hl Ha).
  Qed.
End SpecOk.
