(* C15, part 4, for InlineDefinedFuns at a use site (Model/InlineRw.v): the
   proposal is the body of a definition in which leaves are replaced by
   arguments of the node; it is well formed whenever the node and the bodies of
   the definitions are. *)
From DD Require Import Model.Rewrites Model.LetRw Model.InlineRw Spec.StdReader Proofs.Closure.RwClosed.
From DD Require Import Proofs.Rw.LetSubst Proofs.Rw.InlineSubst.
Local Open Scope list_scope.

Lemma wf_subst_map m :
  (forall k a, In (k, a) m -> wf a = true) -> forall e, wf e = true -> wf (subst_map m e) = true.
Proof.
  intros Hm. induction e as [s | l IH] using sexp_ind'; intros He; rewrite subst_map_unfold.
  - destruct (assoc_last m (L s)) as [a|] eqn:E; [|assumption]. apply assoc_last_some in E. now apply (Hm _ _ E).
  - destruct (assoc_last m (T l)) as [a|] eqn:E; [apply assoc_last_some in E; now apply (Hm _ _ E)|].
    cbn [wf] in He |- *. rewrite Forall_forall in IH. rewrite forallb_forall in He. apply forallb_forall.
    intros a Ha. apply in_map_iff in Ha as (b & <- & Hb). apply (IH b Hb). now apply He.
Qed.

(* the replacements are arguments of the call *)
Lemma bind_formals_In : forall fs args m k a, bind_formals fs args = Some m -> In (k, a) m -> In a args.
Proof.
  induction fs as [| f fs IH]; intros [| a0 args] m k a H Hin; cbn [bind_formals] in H;
    try (injection H as <-; destruct Hin); try discriminate H.
  { destruct f as [[| ? ?] | [| ? ?]]; injection H as <-; destruct Hin. }
  destruct f as [[| c s] | [| p r]]; try discriminate H;
    (destruct (bind_formals fs args) as [m'|] eqn:E; [|discriminate H]; injection H as <-;
     destruct Hin as [Hin | Hin]; [injection Hin as _ ->; now left | right; now apply (IH args m' k a)]).
Qed.

Theorem rw_inline_closed defs e l e' :
  wf e = true -> Forall (fun d => wf (d_body d) = true) defs ->
  rw_inline defs e = Some l -> In e' l -> wf e' = true.
Proof.
  intros Hw Hdefs HR Hin. unfold rw_inline in HR. cbv zeta in HR.
  destruct (match e with L s => Some s | T (L h :: _) => Some h | _ => None end) as [n|];
    [| injection HR as <-; destruct Hin].
  destruct (lookup_def defs n) as [d|] eqn:Ed; [| injection HR as <-; destruct Hin].
  apply lookup_def_inv in Ed as [_ Ed]. rewrite Forall_forall in Hdefs. pose proof (Hdefs d Ed) as Hb.
  destruct (is_leaf e && negb (Nat.eqb (length (d_formals d)) 0)); [injection HR as <-; destruct Hin|].
  destruct (is_recursive defs n); [injection HR as <-; destruct Hin|].
  destruct (instantiate d e) as [res|] eqn:Ei; [|discriminate HR].
  destruct (sexp_eqb res e); injection HR as <-; [destruct Hin|]. destruct Hin as [<- | []].
  unfold instantiate in Ei. destruct e as [s | [| h args]]; try (injection Ei as <-; assumption).
  destruct (Nat.eqb (length (d_formals d)) (length args)); [|injection Ei as <-; assumption].
  destruct (bind_formals (d_formals d) args) as [m|] eqn:Em; [|discriminate Ei].
  assert (Hres : res = subst_map m (d_body d) \/ res = T (h :: args)).
  { destruct m; [injection Ei as <-; left; now rewrite subst_map_nil|]. cbv zeta in Ei.
    destruct (_ || _) in Ei; injection Ei as <-; [now right | now left]. }
  destruct Hres as [Hres | Hres]; rewrite Hres; [|assumption]. apply wf_subst_map; [|assumption].
  intros k a Hka. apply (bind_formals_In _ _ _ _ _ Em) in Hka.
  cbn [wf forallb] in Hw. apply andb_true_iff in Hw as [_ Hw]. rewrite forallb_forall in Hw. now apply Hw.
Qed.
