(* C15, part 4: every modelled rewrite proposes replacements made of subterms
   of the node and of freshly written atoms: the replacement is well formed
   whenever the node is. *)
From DD Require Import Model.Rewrites Spec.StdReader Proofs.Closure.Atoms.
Local Open Scope list_scope.

Definition closed_rw (R : sexp -> option (list sexp)) : Prop :=
  forall e l e', wf e = true -> R e = Some l -> In e' l -> wf e' = true.

(* case analysis on the scrutinees of the rewrite, up to the result *)
Ltac brk H :=
  repeat (match type of H with
          | (match ?x with _ => _ end) = Some _ => destruct x eqn:?; try discriminate H
          end).

Ltac wf_split :=
  repeat match goal with
         | H : wf (T _) = true |- _ => cbn [wf] in H
         | H : forallb wf (_ :: _) = true |- _ => cbn [forallb] in H
         | H : _ && _ = true |- _ => apply andb_true_iff in H; destruct H
         end.

Ltac in_split :=
  repeat match goal with
         | H : In _ [] |- _ => destruct H
         | H : In _ (_ :: _) |- _ => destruct H as [<- | H]
         end.

Ltac wf_goal :=
  unfold lf; cbn [wf forallb];
  repeat (apply andb_true_intro; split);
  first [assumption | reflexivity | idtac].

Ltac start :=
  let e := fresh "e" in let l := fresh "l" in let e' := fresh "e'" in
  let Hw := fresh "Hw" in let HR := fresh "HR" in let Hin := fresh "Hin" in
  intros e l e' Hw HR Hin.

(* the arguments of a well-formed application are well formed *)
Ltac use_args :=
  repeat match goal with
         | H : args_of ?a = _ :: _, W : wf ?a = true |- _ =>
             let W' := fresh "W" in
             pose proof (wf_args_of a W) as W'; rewrite H in W'; clear H
         end.

Ltac wf_args_goal :=
  match goal with
  | W : wf ?a = true |- forallb wf (args_of ?a) = true => exact (wf_args_of a W)
  end.

Theorem rw_bool_double_neg_closed : closed_rw rw_bool_double_neg.
Proof.
  start. unfold rw_bool_double_neg in HR. brk HR; injection HR as <-; in_split.
  subst. wf_split. use_args. wf_split. assumption.
Qed.

Theorem rw_bool_de_morgan_closed : closed_rw rw_bool_de_morgan.
Proof.
  start. unfold rw_bool_de_morgan in HR. brk HR; injection HR as <-; in_split.
  subst. wf_split.
  assert (Hn : forallb wf (map (fun t => T [lf "not"; t]) (args_of s1)) = true).
  { apply forallb_map_wf. intros a Ha. wf_goal.
    match goal with W : wf s1 = true |- _ => apply wf_args_of in W; rewrite forallb_forall in W; now apply W end. }
  destruct (is_op s1 "and"); apply wf_node_of; try reflexivity; exact Hn.
Qed.

Theorem rw_bool_false_eq_closed : closed_rw rw_bool_false_eq.
Proof.
  start. unfold rw_bool_false_eq in HR. brk HR; injection HR as <-; in_split.
  subst. wf_split. unfold olist1 in Hin.
  match type of Hin with In _ (match ?m with _ => _ end) => destruct m eqn:E end; in_split.
  eapply wf_make_and; [|exact E]. apply forallb_map_wf. intros a Ha. wf_goal.
  apply filter_In in Ha as [Ha _].
  match goal with W : forallb wf _ = true |- _ => rewrite forallb_forall in W; now apply W end.
Qed.

Lemma impl_pairs_cons a b r :
  impl_pairs (a :: b :: r) = T [lf "or"; T [lf "not"; a]; b] :: impl_pairs (b :: r).
Proof. reflexivity. Qed.

Lemma impl_pairs_wf l : forallb wf l = true -> forallb wf (impl_pairs l) = true.
Proof.
  induction l as [|a l IH]; intro H; [reflexivity|]. destruct l as [|b r]; [reflexivity|].
  rewrite impl_pairs_cons. cbn [forallb] in H. apply andb_true_iff in H as [Ha H].
  specialize (IH H). cbn [forallb] in H. apply andb_true_iff in H as [Hb _].
  change (wf (T [lf "or"; T [lf "not"; a]; b]) && forallb wf (impl_pairs (b :: r)) = true).
  rewrite IH, andb_true_r. wf_goal.
Qed.

Theorem rw_bool_implication_closed : closed_rw rw_bool_implication.
Proof.
  start. unfold rw_bool_implication in HR. brk HR; injection HR as <-; in_split.
  subst. wf_split. unfold olist1 in Hin.
  match type of Hin with In _ (match ?m with _ => _ end) => destruct m eqn:E end; in_split.
  eapply wf_make_and; [|exact E]. now apply impl_pairs_wf.
Qed.

Theorem rw_bool_xor_binary_closed : closed_rw rw_bool_xor_binary.
Proof.
  start. unfold rw_bool_xor_binary in HR. brk HR; injection HR as <-; in_split.
  subst. wf_split. wf_goal.
Qed.

Lemma negator_leaf r n : negator r = Some n -> leaf_ok (lit n) = true.
Proof.
  unfold negator. intro H.
  repeat match type of H with (if ?c then _ else _) = _ => destruct c end;
    try discriminate; injection H as <-; reflexivity.
Qed.

Theorem rw_arith_negate_relation_closed : closed_rw rw_arith_negate_relation.
Proof.
  start. unfold rw_arith_negate_relation in HR. brk HR; injection HR as <-; in_split.
  subst. wf_split. apply wf_node_of; [eapply negator_leaf; eassumption|assumption].
Qed.

(* ---- bit-vector rewrites ---- *)

Theorem rw_bv_normalize_closed : closed_rw rw_bv_normalize.
Proof.
  start. unfold rw_bv_normalize in HR. brk HR; injection HR as <-; in_split.
  apply wf_mk_bv_const.
Qed.

Theorem rw_bv_double_neg_closed : closed_rw rw_bv_double_neg.
Proof.
  start. unfold rw_bv_double_neg in HR. brk HR; injection HR as <-; in_split;
    subst; wf_split; use_args; wf_split; assumption.
Qed.

Theorem rw_bv_reflexive_nand_closed : closed_rw rw_bv_reflexive_nand.
Proof.
  start. unfold rw_bv_reflexive_nand in HR. brk HR; injection HR as <-; in_split.
  subst. wf_split. wf_goal.
Qed.

Lemma wf_not x : wf x = true -> wf (T [lf "not"; x]) = true.
Proof. intro H. wf_goal. Qed.

Section WithWidth.
  Variable bw : sexp -> Z.
  Variable is_bv_term : sexp -> bool.

  Theorem rw_bv_elim_bvcomp_closed : closed_rw (rw_bv_elim_bvcomp bw).
  Proof.
    start. unfold rw_bv_elim_bvcomp in HR.
    brk HR; injection HR as <-; in_split; subst; wf_split.
    all: match goal with
         | E : map ?F ?rest = _, Hr : forallb wf ?rest = true |- _ =>
             assert (HF : forallb wf (map F rest) = true);
             [apply forallb_map_wf; intros a Ha; cbv beta;
              rewrite forallb_forall in Hr; pose proof (Hr _ Ha) as Hwa;
              destruct (is_op a "bvcomp");
              [match goal with |- context [Z.eqb ?z 1] => destruct (Z.eqb z 1) end;
               [|apply wf_not]; (apply wf_node_of; [reflexivity|now apply wf_args_of])
              |wf_goal]
             |rewrite E in HF]
         end.
    all: wf_split; try assumption; wf_goal.
  Qed.

  Theorem rw_bv_extract_zext_closed : closed_rw (rw_bv_extract_zext bw).
  Proof.
    start. unfold rw_bv_extract_zext in HR. cbv zeta in HR.
    brk HR; injection HR as <-; in_split; subst; wf_split; use_args; wf_split.
    - apply wf_mk_bv_const.
    - wf_goal.
    - cbn [wf forallb]. rewrite !wf_idx_head by reflexivity.
      repeat (apply andb_true_intro; split); first [assumption|reflexivity].
  Qed.

  Theorem rw_bv_ite_to_bvcomp_closed : closed_rw (rw_bv_ite_to_bvcomp is_bv_term).
  Proof.
    start. unfold rw_bv_ite_to_bvcomp in HR.
    brk HR; injection HR as <-; in_split; subst; wf_split; wf_goal.
  Qed.
End WithWidth.

Theorem rw_bv_eval_extend_closed : closed_rw rw_bv_eval_extend.
Proof.
  start. unfold rw_bv_eval_extend in HR. cbv zeta in HR.
  brk HR; injection HR as <-; in_split.
  - cbn [wf]. apply bin_lit_leaf. rewrite forallb_app.
    rewrite repeat_c_digits by reflexivity.
    now rewrite (proj1 (to_bin_digits_proof _)).
  - apply wf_mk_bv_const.
Qed.

Theorem rw_bv_extract_const_closed : closed_rw rw_bv_extract_const.
Proof.
  start. unfold rw_bv_extract_const in HR. cbv zeta in HR.
  brk HR; injection HR as <-; in_split.
  cbn [wf]. apply bin_lit_leaf. apply slice_digits. rewrite forallb_app.
  rewrite repeat_c_digits by reflexivity.
  now rewrite (proj1 (to_bin_digits_proof _)).
Qed.

Lemma merge_ext_wf fuel op : forall e acc k inner,
  wf e = true -> merge_ext fuel op e acc = Some (k, inner) -> wf inner = true.
Proof.
  induction fuel as [|n IH]; intros e acc k inner Hw H; cbn [merge_ext] in H.
  - now injection H as _ <-.
  - brk H; try (now injection H as _ <-). subst. wf_split. eapply IH; [|exact H]. assumption.
Qed.

Theorem rw_bv_merge_extend_closed : closed_rw rw_bv_merge_extend.
Proof.
  start. unfold rw_bv_merge_extend in HR.
  brk HR; injection HR as <-; in_split.
  all: cbn [wf forallb]; rewrite wf_idx_head by reflexivity; cbn [andb]; rewrite andb_true_r.
  all: eapply merge_ext_wf; [|eassumption]; assumption.
Qed.
