(* C15: a concrete instance of the closure theorems.  Input
     (set-logic QF_LIA) (assert (> x 1))
   the leaf x (identity 6) is replaced by (+ y 2), and y is declared. *)
From DD Require Import Base.Lit Model.Subst Model.Lexer Model.Writer Model.Rewrites Spec.StdReader.
From DD Require Import Proofs.Subst.SubstBase Proofs.Subst.SubstTokens Proofs.Subst.SubstClosed
  Proofs.Closure.Tokens Proofs.Closure.Closed.
Local Open Scope list_scope.
Local Open Scope Z_scope.

Definition ex_hs (s : str) : Z := fold_right (fun c a => (Z.of_N c + 31 * a)%Z) 7%Z s.
Definition ex_ht (l : list Z) : Z := fold_right (fun c a => (c + 33 * a)%Z) 5%Z l.
Definition ex_tuple (i : Z) (l : list node) : node := NT i (ex_ht (map (nhash ex_hs) l)) l.

Definition ex_input : list node :=
  [ ex_tuple 3 [NL 1 (lit "set-logic"); NL 2 (lit "QF_LIA")];
    ex_tuple 9 [NL 4 (lit "assert");
                ex_tuple 8 [NL 5 (lit ">"); NL 6 (lit "x"); NL 7 (lit "1")]] ].
Definition ex_repl : node := ex_tuple 13 [NL 10 (lit "+"); NL 11 (lit "y"); NL 12 (lit "2")].
Definition ex_vars : list node :=
  [ ex_tuple 17 [NL 14 (lit "declare-const"); NL 15 (lit "y"); NL 16 (lit "Int")] ].
Definition ex_ri : irepl := [(6, Some ex_repl)].
Definition ex_next : Z := 17.

Definition ex_expected : list sexp :=
  [ T [lf "set-logic"; lf "QF_LIA"];
    T [lf "assert"; T [lf ">"; T [lf "+"; lf "y"; lf "2"]; lf "1"]] ].
Definition ex_expected_vars : list sexp :=
  [ T [lf "set-logic"; lf "QF_LIA"];
    T [lf "declare-const"; lf "y"; lf "Int"];
    T [lf "assert"; T [lf ">"; T [lf "+"; lf "y"; lf "2"]; lf "1"]] ].

Lemma ex_nodup : NoDup (ids_l ex_input).
Proof.
  vm_compute. repeat constructor; intro H; cbn [In] in H;
    repeat (destruct H as [H|H]; [discriminate H|]); exact H.
Qed.

Lemma ex_bound : forall j, In j (ids_l ex_input) -> j <= ex_next.
Proof.
  intros j H. vm_compute in H. unfold ex_next.
  repeat (destruct H as [<-|H]; [discriminate|]). destruct H.
Qed.

Lemma ex_coherent : forall v x y,
  In v (vals_i ex_ri ++ vals_s []) -> In x (subnodes v) -> In y (subnodes_l ex_input) ->
  nid x = nid y -> shape x = shape y.
Proof.
  intros v x y Hv Hx Hy E. exfalso.
  cbn in Hv. destruct Hv as [<-|[]].
  cbn in Hx. cbn in Hy.
  repeat (destruct Hx as [<-|Hx]; [|]); try (destruct Hx);
    repeat (destruct Hy as [<-|Hy]; [discriminate E|]); destruct Hy.
Qed.

Lemma ex_input_wf : forallb wf (map shape ex_input) = true.
Proof. reflexivity. Qed.

Lemma ex_vals_wf : forall v, In v (vals_i ex_ri ++ vals_s []) -> wf (shape v) = true.
Proof. intros v Hv. cbn in Hv. destruct Hv as [<-|[]]. reflexivity. Qed.

Lemma ex_vars_wf : forallb wf (map shape ex_vars) = true.
Proof. reflexivity. Qed.

(* the trees and the round trips, by computation *)
Lemma ex_compute :
  let r := snd (fst (substitute ex_hs ex_ht ex_input ex_ri [] ex_next)) in
  let r' := snd (fst (apply_simp ex_hs ex_ht ex_input ex_ri [] ex_vars ex_next)) in
  map shape r = ex_expected /\ map shape r' = ex_expected_vars /\
  parse (w_check (map shape r)) = map shape r /\ parse (w_default (map shape r)) = map shape r /\
  parse (w_pretty (map shape r)) = map shape r /\ parse (w_wrap (map shape r)) = map shape r /\
  parse (w_check (map shape r')) = map shape r' /\ parse (w_default (map shape r')) = map shape r' /\
  parse (w_pretty (map shape r')) = map shape r' /\ parse (w_wrap (map shape r')) = map shape r'.
Proof. vm_compute. repeat split; reflexivity. Qed.

(* the hypothesis on the replacement values is needed: a value whose leaf is
   the two tokens y z is kept as one leaf in memory and read back as two *)
Definition ex_bad : node := NL 10 (lit "y z").
Lemma ex_needs_wf :
  let r := snd (fst (substitute ex_hs ex_ht ex_input [(6, Some ex_bad)] [] ex_next)) in
  wf (shape ex_bad) = false /\
  map shape r = [ T [lf "set-logic"; lf "QF_LIA"]; T [lf "assert"; T [lf ">"; lf "y z"; lf "1"]] ] /\
  parse (w_check (map shape r))
    = [ T [lf "set-logic"; lf "QF_LIA"]; T [lf "assert"; T [lf ">"; lf "y"; lf "z"; lf "1"]] ].
Proof. vm_compute. repeat split; reflexivity. Qed.

(* a rewrite that writes numerals *)
Lemma ex_rw :
  rw_bv_normalize (lf "#b101") = Some [T [lf "_"; lf "bv5"; lf "3"]] /\
  rw_bv_extract_const (T [T [lf "_"; lf "extract"; lf "2"; lf "1"]; lf "#b0110"]) = Some [lf "#b11"] /\
  rw_bv_eval_extend (T [T [lf "_"; lf "sign_extend"; lf "2"]; lf "#b10"]) = Some [lf "#b1110"] /\
  rw_bool_de_morgan (T [lf "not"; T [lf "and"; lf "a"; lf "b"]])
    = Some [T [lf "or"; T [lf "not"; lf "a"]; T [lf "not"; lf "b"]]].
Proof. vm_compute. repeat split; reflexivity. Qed.
