(* T4 (the final input is a fixpoint of the last pass) and T5 (the number of
   adoptions is bounded by a strictly decreasing measure). *)
From DD Require Import Proofs.Sched.HierBase Proofs.Sched.HierInv.

Section Fix.
  Variable input : Type.
  Variable cands : nat -> input -> list (nat * input).
  Variable accept : input -> bool.
  Variable redup : input -> input.
  Variable npasses : nat.

  Local Notation hst := (hst input).
  Local Notation exec := (exec input cands accept redup npasses).
  Local Notation reachable := (reachable input cands accept redup npasses).
  Local Notation Inv := (Inv cands accept redup npasses).

  (* the shape of a finished state *)
  Lemma finished_shape : forall i s, reachable i s -> finished s = true ->
    abort s = false /\ reduction s = false /\ fresh s = true /\ skip s = 0 /\ skip0 s = 0 /\
    cur s = base0 s /\ pstopped s = true /\ pending s = [] /\ results s = [] /\
    ppos s = length (cands (pass s) (cur s)) /\ ~ S (pass s) < npasses.
  Proof.
    intros i s Hr Hfin.
    pose proof (Inv_reachable _ _ _ _ _ _ _ Hr) as HI.
    destruct (inv_fin _ _ _ _ _ _ _ HI Hfin) as (Hred & Hfr & Hps & Hpe & Hre & Hlast).
    assert (Hab : abort s = false) by (rewrite (inv_abred _ _ _ _ _ _ _ HI); exact Hred).
    destruct (inv_fresh _ _ _ _ _ _ _ HI Hfr) as [ Hsk Hsk0 ].
    pose proof (inv_cur _ _ _ _ _ _ _ HI Hab) as Hcur.
    pose proof (inv_pstop _ _ _ _ _ _ _ HI Hps Hab) as Hpp. unfold C in Hpp.
    rewrite Hcur. repeat split; try assumption; try reflexivity.
  Qed.

  Lemma fixpoint_lemma : forall i s,
    0 < npasses ->
    (forall p x n c, In (n, c) (cands p x) -> 1 <= n) ->
    reachable i s -> finished s = true ->
    forall n c, In (n, c) (cands (npasses - 1) (cur s)) -> accept c = false.
  Proof.
    intros i s Hnp Hnid Hr Hfin n c Hin.
    pose proof (Inv_reachable _ _ _ _ _ _ _ Hr) as HI.
    destruct (finished_shape _ _ Hr Hfin)
      as (Hab & Hred & Hfr & Hsk & Hsk0 & Hcur & Hps & Hpe & Hre & Hpp & Hlast).
    assert (Hpass : pass s = npasses - 1).
    { destruct (inv_pass _ _ _ _ _ _ _ HI) as [ H | H ]; lia. }
    rewrite <- Hpass in Hin.
    assert (Hgen : gen cands s = cands (pass s) (cur s)).
    { unfold gen, C. rewrite <- Hcur, Hpp. apply firstn_all. }
    assert (Hn : skip0 s < n).
    { rewrite Hsk0. apply (Hnid _ _ _ _ Hin). }
    rewrite <- Hgen in Hin.
    destruct (inv_cover _ _ _ _ _ _ _ HI Hab n c Hin Hn) as [ H | [ [ o H ] | H ] ].
    - rewrite Hpe in H. destruct H.
    - rewrite Hre in H. destruct H.
    - destruct (inv_rej _ _ _ _ _ _ _ HI _ H) as [ _ Hacc ]. exact Hacc.
  Qed.

  (* a finished state is terminal, and finishing happens only in the last pass *)
  Lemma finished_terminal_lemma : forall s a, finished s = true -> exec s a = None.
  Proof.
    intros s a H. unfold SchedHier.exec. rewrite H. reflexivity.
  Qed.

  Lemma adoptions_bounded_lemma : forall (m : input -> nat),
    (forall p x n c, In (n, c) (cands p x) -> accept c = true -> m (redup c) < m x) ->
    forall i s, reachable i s -> m (cur s) + length (writes s) <= m i.
  Proof.
    intros m Hm i s Hr. induction Hr as [ | s s' Hr IH [ a Ha ] ].
    - simpl. lia.
    - pose proof (Inv_reachable _ _ _ _ _ _ _ Hr) as HI.
      apply exec_estep in Ha. step_cases Ha; prj; try exact IH.
      apply nth_error_In in Hn.
      destruct (inv_res _ _ _ _ _ _ _ HI t OSucc Hn) as [ (n & c & Ht & Hin & Hlt) [ Hacc _ ] ].
      subst t; prj.
      assert (Hlt' : m (redup c) < m (cur s)).
      { rewrite (inv_cur _ _ _ _ _ _ _ HI Hab). apply (Hm (pass s) (base0 s) n c); [ | exact Hacc ].
        unfold gen, C in Hin. eapply In_firstn; exact Hin. }
      simpl. lia.
  Qed.
End Fix.
