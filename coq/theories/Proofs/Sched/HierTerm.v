(* T6: termination.  Under a strictly decreasing measure on adopted inputs,
   every step from a reachable state decreases a lexicographic variant, so
   the step relation restricted to reachable states is well founded and there
   is no infinite run. *)
From Coq Require Import Wellfounded.
From DD Require Import Proofs.Sched.HierBase Proofs.Sched.HierInv.

Section Term.
  Variable input : Type.
  Variable cands : nat -> input -> list (nat * input).
  Variable accept : input -> bool.
  Variable redup : input -> input.
  Variable npasses : nat.

  Local Notation hst := (hst input).
  Local Notation exec := (exec input cands accept redup npasses).
  Local Notation estep := (estep cands accept redup npasses).
  Local Notation hstep := (hstep input cands accept redup npasses).
  Local Notation reachable := (reachable input cands accept redup npasses).
  Local Notation Inv := (Inv cands accept redup npasses).

  Variable m : input -> nat.
  Hypothesis Hm : forall p x n c, In (n, c) (cands p x) -> accept c = true -> m (redup c) < m x.

  Definition M1 (s : hst) : nat := m (cur s).
  Definition M2 (s : hst) : nat := npasses - pass s.
  Definition M3 (s : hst) : nat := if reduction s then 2 else if fresh s then 0 else 1.
  Definition M4 (s : hst) : nat :=
    3 * (length (C cands s) - ppos s) + (if pstopped s then 0 else 1) +
    2 * length (pending s) + length (results s) + (if finished s then 0 else 1).

  Definition mlt (s' s : hst) : Prop :=
    M1 s' < M1 s \/
    (M1 s' = M1 s /\
     (M2 s' < M2 s \/
      (M2 s' = M2 s /\
       (M3 s' < M3 s \/
        (M3 s' = M3 s /\ M4 s' < M4 s))))).

  Lemma mlt_wf : well_founded mlt.
  Proof.
    assert (H : forall a b c d s, M1 s = a -> M2 s = b -> M3 s = c -> M4 s = d -> Acc mlt s).
    { intros a. induction a as [ a IHa ] using (well_founded_induction lt_wf).
      intros b. induction b as [ b IHb ] using (well_founded_induction lt_wf).
      intros c. induction c as [ c IHc ] using (well_founded_induction lt_wf).
      intros d. induction d as [ d IHd ] using (well_founded_induction lt_wf).
      intros s E1 E2 E3 E4. constructor. intros s' Hlt.
      destruct Hlt as [ Hlt | [ F1 [ Hlt | [ F2 [ Hlt | [ F3 Hlt ] ] ] ] ] ].
      - eapply (IHa (M1 s')); [ rewrite <- E1; exact Hlt | reflexivity .. ].
      - eapply (IHb (M2 s')); [ rewrite <- E2; exact Hlt | rewrite F1; exact E1 | reflexivity .. ].
      - eapply (IHc (M3 s')); [ rewrite <- E3; exact Hlt | rewrite F1; exact E1
                              | rewrite F2; exact E2 | reflexivity .. ].
      - eapply (IHd (M4 s')); [ rewrite <- E4; exact Hlt | rewrite F1; exact E1
                              | rewrite F2; exact E2 | rewrite F3; exact E3 | reflexivity ]. }
    intros s. eapply H; reflexivity.
  Qed.

  Lemma estep_decreases : forall i s a s', Inv i s -> estep s a s' -> mlt s' s.
  Proof.
    intros i s a s' HI Hs. unfold mlt.
    step_cases Hs; unfold M1, M2, M3, M4, C in *; prj.
    - (* gen, emitted *)
      right; split; [ reflexivity | ]. right; split; [ reflexivity | ]. right; split; [ reflexivity | ].
      apply nth_error_lt in Hn. rewrite Hp, Hf, app_length. simpl. lia.
    - right; split; [ reflexivity | ]. right; split; [ reflexivity | ]. right; split; [ reflexivity | ].
      apply nth_error_lt in Hn. rewrite Hp, Hf. lia.
    - right; split; [ reflexivity | ]. right; split; [ reflexivity | ]. right; split; [ reflexivity | ].
      rewrite Hp, Hf. lia.
    - right; split; [ reflexivity | ]. right; split; [ reflexivity | ]. right; split; [ reflexivity | ].
      pose proof (remove_nth_length _ _ _ Hn) as Hl. rewrite Hf, app_length. simpl. lia.
    - right; split; [ reflexivity | ]. right; split; [ reflexivity | ]. right; split; [ reflexivity | ].
      pose proof (remove_nth_length _ _ _ Hn) as Hl. rewrite Hf, app_length. simpl. lia.
    - right; split; [ reflexivity | ]. right; split; [ reflexivity | ]. right; split; [ reflexivity | ].
      pose proof (remove_nth_length _ _ _ Hn) as Hl. rewrite Hf. lia.
    - (* adoption *)
      left. apply nth_error_In in Hn.
      destruct (inv_res _ _ _ _ _ _ _ HI t OSucc Hn) as [ (n & c & Ht & Hin & Hlt) [ Hacc _ ] ].
      subst t; prj. rewrite (inv_cur _ _ _ _ _ _ _ HI Hab).
      apply (Hm (pass s) (base0 s) n c); [ | exact Hacc ].
      unfold gen, C in Hin. eapply In_firstn; exact Hin.
    - right; split; [ reflexivity | ]. right; split; [ reflexivity | ]. right; split; [ reflexivity | ].
      pose proof (remove_nth_length _ _ _ Hn) as Hl. rewrite Hf. lia.
    - (* new sweep after a reduction *)
      right; split; [ reflexivity | ]. right; split; [ reflexivity | ]. left.
      rewrite Hred. destruct (fresh s); lia.
    - (* next pass *)
      right; split; [ reflexivity | ]. left. lia.
    - (* finish *)
      right; split; [ reflexivity | ]. right; split; [ reflexivity | ]. right; split; [ reflexivity | ].
      rewrite Hf, Hpe, Hre. simpl. lia.
    - (* fresh rerun *)
      right; split; [ reflexivity | ]. right; split; [ reflexivity | ]. left.
      rewrite Hred, Hfr. lia.
  Qed.

  Lemma step_decreases_lemma : forall i s a s',
    reachable i s -> exec s a = Some s' -> mlt s' s.
  Proof.
    intros i s a s' Hr He.
    eapply estep_decreases; [ apply Inv_reachable; exact Hr | apply exec_estep; exact He ].
  Qed.

  Definition rstep (i : input) (s' s : hst) : Prop := reachable i s /\ hstep s s'.

  Lemma sweep_progress_lemma : forall i, well_founded (rstep i).
  Proof.
    intros i. apply (wf_incl _ (rstep i) mlt); [ | exact mlt_wf ].
    intros s' s [ Hr [ a Ha ] ].
    eapply estep_decreases; [ apply Inv_reachable; exact Hr | apply exec_estep; exact Ha ].
  Qed.

  Lemma no_infinite_run_lemma : forall i (f : nat -> hst),
    reachable i (f 0) -> (forall n, hstep (f n) (f (S n))) -> False.
  Proof.
    intros i f H0 Hstep.
    assert (Hr : forall n, reachable i (f n)).
    { intros n; induction n as [ | n IH ]; [ exact H0 | ]. eapply RS; [ exact IH | apply Hstep ]. }
    assert (HA : forall s, Acc (rstep i) s -> forall n, f n = s -> False).
    { intros s HAcc. induction HAcc as [ s _ IH ]. intros n Hn.
      apply (IH (f (S n))) with (n := S n); [ | reflexivity ].
      split; [ rewrite <- Hn; apply Hr | rewrite <- Hn; apply Hstep ]. }
    apply (HA (f 0) (sweep_progress_lemma i (f 0)) 0). reflexivity.
  Qed.
End Term.

Arguments rstep {input} cands accept redup npasses i s' s.
