(* Shared infrastructure for the proofs about Model/SchedHier.v:
   implicit arguments, list lemmas, and an inductive presentation [estep]
   of the executable step function [exec] (one constructor per branch). *)
From DD Require Export Model.SchedHier.

Arguments cur {input} h.
Arguments pass {input} h.
Arguments skip {input} h.
Arguments fresh {input} h.
Arguments reduction {input} h.
Arguments abort {input} h.
Arguments base0 {input} h.
Arguments skip0 {input} h.
Arguments ppos {input} h.
Arguments pstopped {input} h.
Arguments pending {input} h.
Arguments results {input} h.
Arguments rejected {input} h.
Arguments writes {input} h.
Arguments checked {input} h.
Arguments finished {input} h.
Arguments mk_hst {input}.
Arguments mk_task {input}.
Arguments t_nid {input} t.
Arguments t_base {input} t.
Arguments t_cand {input} t.
Arguments init {input} i.
Arguments new_sweep {input} s p sk fr.

Ltac prj :=
  unfold new_sweep in *;
  cbn [cur pass skip fresh reduction abort base0 skip0 ppos pstopped pending
       results rejected writes checked finished t_nid t_base t_cand] in *.

(* ------------------------------------------------------------------ *)
(* list lemmas *)

Lemma remove_nth_In : forall {A} (l : list A) k x,
  In x (remove_nth k l) -> In x l.
Proof.
  intros A l; induction l as [ | a l IH ]; intros k x H.
  - destruct k; simpl in H; exact H.
  - destruct k as [ | k ]; simpl in H.
    + right; exact H.
    + destruct H as [ H | H ].
      * left; exact H.
      * right; eapply IH; exact H.
Qed.

Lemma nth_error_remove_In : forall {A} (l : list A) k x y,
  nth_error l k = Some x -> In y l -> y = x \/ In y (remove_nth k l).
Proof.
  intros A l; induction l as [ | a l IH ]; intros k x y Hn Hy.
  - destruct Hy.
  - destruct k as [ | k ]; simpl in Hn |- *.
    + injection Hn as Hn; subst a. destruct Hy as [ Hy | Hy ].
      * left; symmetry; exact Hy.
      * right; exact Hy.
    + destruct Hy as [ Hy | Hy ].
      * right; left; exact Hy.
      * destruct (IH k x y Hn Hy) as [ H | H ].
        -- left; exact H.
        -- right; right; exact H.
Qed.

Lemma remove_nth_length : forall {A} (l : list A) k x,
  nth_error l k = Some x -> S (length (remove_nth k l)) = length l.
Proof.
  intros A l; induction l as [ | a l IH ]; intros k x Hn.
  - destruct k; discriminate Hn.
  - destruct k as [ | k ]; simpl in Hn |- *.
    + reflexivity.
    + f_equal. eapply IH; exact Hn.
Qed.

Lemma firstn_S_nth : forall {A} (l : list A) k x,
  nth_error l k = Some x -> firstn (S k) l = firstn k l ++ [x].
Proof.
  intros A l; induction l as [ | a l IH ]; intros k x Hn.
  - destruct k; discriminate Hn.
  - destruct k as [ | k ].
    + simpl in Hn. injection Hn as Hn; subst a. reflexivity.
    + simpl in Hn. change (firstn (S (S k)) (a :: l)) with (a :: firstn (S k) l).
      rewrite (IH k x Hn). reflexivity.
Qed.

Lemma skipn_nth_cons : forall {A} (l : list A) k x,
  nth_error l k = Some x -> skipn k l = x :: skipn (S k) l.
Proof.
  intros A l; induction l as [ | a l IH ]; intros k x Hn.
  - destruct k; discriminate Hn.
  - destruct k as [ | k ].
    + simpl in Hn. injection Hn as Hn; subst a. reflexivity.
    + simpl in Hn. change (skipn (S k) (a :: l)) with (skipn k l).
      change (skipn (S (S k)) (a :: l)) with (skipn (S k) l).
      apply IH; exact Hn.
Qed.

Lemma nth_error_lt : forall {A} (l : list A) k x,
  nth_error l k = Some x -> k < length l.
Proof.
  intros A l k x H. apply nth_error_Some. rewrite H. discriminate.
Qed.

Lemma nth_error_0_cons : forall {A} (l : list A) x,
  nth_error l 0 = Some x -> exists r, l = x :: r.
Proof.
  intros A l x H. destruct l as [ | a r ]; simpl in H.
  - discriminate H.
  - injection H as H; subst a. exists r; reflexivity.
Qed.

(* ------------------------------------------------------------------ *)
(* the step function as an inductive relation *)

Section Step.
  Variable input : Type.
  Variable cands : nat -> input -> list (nat * input).
  Variable accept : input -> bool.
  Variable redup : input -> input.
  Variable npasses : nat.

  Local Notation hst := (hst input).
  Local Notation exec := (exec input cands accept redup npasses).

  Definition C (s : hst) : list (nat * input) := cands (pass s) (base0 s).

  Inductive estep (s : hst) : action -> hst -> Prop :=
  | EGenEmit : forall n c,
      finished s = false -> pstopped s = false ->
      nth_error (C s) (ppos s) = Some (n, c) -> skip0 s < n ->
      estep s AGen
        (mk_hst (cur s) (pass s) (skip s) (fresh s) (reduction s) (abort s) (base0 s) (skip0 s)
                (S (ppos s)) false (pending s ++ [mk_task n (base0 s) c]) (results s) (rejected s)
                (writes s) (checked s) false)
  | EGenSkip : forall n c,
      finished s = false -> pstopped s = false ->
      nth_error (C s) (ppos s) = Some (n, c) -> n <= skip0 s ->
      estep s AGen
        (mk_hst (cur s) (pass s) (skip s) (fresh s) (reduction s) (abort s) (base0 s) (skip0 s)
                (S (ppos s)) false (pending s) (results s) (rejected s)
                (writes s) (checked s) false)
  | EPStop :
      finished s = false -> pstopped s = false ->
      (abort s = true \/ ppos s = length (C s)) ->
      estep s APStop
        (mk_hst (cur s) (pass s) (skip s) (fresh s) (reduction s) (abort s) (base0 s) (skip0 s)
                (ppos s) true (pending s) (results s) (rejected s) (writes s) (checked s) false)
  | EWorkAb : forall k t,
      finished s = false -> nth_error (pending s) k = Some t -> abort s = true ->
      estep s (AWork k true)
        (mk_hst (cur s) (pass s) (skip s) (fresh s) (reduction s) (abort s) (base0 s) (skip0 s)
                (ppos s) (pstopped s) (remove_nth k (pending s)) (results s ++ [(t, OAborted)])
                (rejected s) (writes s) (checked s) false)
  | EWorkRun : forall k t,
      finished s = false -> nth_error (pending s) k = Some t ->
      estep s (AWork k false)
        (mk_hst (cur s) (pass s) (skip s) (fresh s) (reduction s) (abort s) (base0 s) (skip0 s)
                (ppos s) (pstopped s) (remove_nth k (pending s))
                (results s ++ [(t, if accept (t_cand t) then OSucc else OFail)])
                (rejected s) (writes s) ((t_cand t, accept (t_cand t)) :: checked s) false)
  | EConsAb : forall k t o,
      finished s = false -> nth_error (results s) k = Some (t, o) -> abort s = true ->
      estep s (AConsume k)
        (mk_hst (cur s) (pass s) (Nat.min (skip s) (t_nid t - 1)) (fresh s) (reduction s) true
                (base0 s) (skip0 s) (ppos s) (pstopped s) (pending s) (remove_nth k (results s))
                (rejected s) (writes s) (checked s) false)
  | EConsSucc : forall k t,
      finished s = false -> nth_error (results s) k = Some (t, OSucc) -> abort s = false ->
      estep s (AConsume k)
        (mk_hst (redup (t_cand t)) (pass s) (t_nid t - 1) false true true
                (base0 s) (skip0 s) (ppos s) (pstopped s) (pending s) (remove_nth k (results s))
                (rejected s) (redup (t_cand t) :: writes s) (checked s) false)
  | EConsFail : forall k t o,
      finished s = false -> nth_error (results s) k = Some (t, o) -> abort s = false ->
      o <> OSucc ->
      estep s (AConsume k)
        (mk_hst (cur s) (pass s) (skip s) (fresh s) (reduction s) false
                (base0 s) (skip0 s) (ppos s) (pstopped s) (pending s) (remove_nth k (results s))
                (t :: rejected s) (writes s) (checked s) false)
  | EEndRed :
      finished s = false -> pstopped s = true -> pending s = [] -> results s = [] ->
      reduction s = true ->
      estep s AEndSweep (new_sweep s (pass s) (skip s) (fresh s))
  | EEndNext :
      finished s = false -> pstopped s = true -> pending s = [] -> results s = [] ->
      reduction s = false -> fresh s = true -> S (pass s) < npasses ->
      estep s AEndSweep (new_sweep s (S (pass s)) 0 true)
  | EEndFin :
      finished s = false -> pstopped s = true -> pending s = [] -> results s = [] ->
      reduction s = false -> fresh s = true -> ~ S (pass s) < npasses ->
      estep s AEndSweep
        (mk_hst (cur s) (pass s) (skip s) (fresh s) (reduction s) (abort s) (base0 s) (skip0 s)
                (ppos s) (pstopped s) [] [] (rejected s) (writes s) (checked s) true)
  | EEndRefresh :
      finished s = false -> pstopped s = true -> pending s = [] -> results s = [] ->
      reduction s = false -> fresh s = false ->
      estep s AEndSweep (new_sweep s (pass s) 0 true).

  Lemma exec_estep : forall s a s', exec s a = Some s' -> estep s a s'.
  Proof.
    intros s a s' H. unfold SchedHier.exec in H.
    destruct (finished s) eqn:Hfin; [ discriminate H | ].
    destruct a as [ | | k ab | k | ].
    - destruct (pstopped s) eqn:Hps; [ discriminate H | ].
      destruct (nth_error (cands (pass s) (base0 s)) (ppos s)) as [ [ n c ] | ] eqn:Hn;
        [ | discriminate H ].
      destruct (Nat.ltb (skip0 s) n) eqn:Hlt; injection H as H; subst s'.
      + apply Nat.ltb_lt in Hlt. apply EGenEmit; assumption.
      + apply Nat.ltb_ge in Hlt. eapply EGenSkip; eassumption.
    - destruct (pstopped s) eqn:Hps; [ discriminate H | ].
      destruct (abort s || Nat.eqb (ppos s) (length (cands (pass s) (base0 s)))) eqn:Hc;
        [ | discriminate H ].
      injection H as H; subst s'. apply EPStop; try assumption.
      apply orb_true_iff in Hc. destruct Hc as [ Hc | Hc ].
      + left; exact Hc.
      + right; apply Nat.eqb_eq in Hc; exact Hc.
    - destruct (nth_error (pending s) k) as [ t | ] eqn:Hn; [ | discriminate H ].
      destruct ab.
      + destruct (abort s) eqn:Hab; simpl in H; [ | discriminate H ].
        injection H as H; subst s'.
        pose proof (EWorkAb s k t Hfin Hn) as E. rewrite Hab in E. apply E. reflexivity.
      + simpl in H. injection H as H; subst s'. apply EWorkRun; assumption.
    - destruct (nth_error (results s) k) as [ [ t o ] | ] eqn:Hn; [ | discriminate H ].
      destruct (abort s) eqn:Hab.
      + injection H as H; subst s'. eapply EConsAb; eassumption.
      + destruct o; injection H as H; subst s'.
        * eapply EConsFail; try eassumption. discriminate.
        * eapply EConsFail; try eassumption. discriminate.
        * eapply EConsSucc; eassumption.
    - destruct (pstopped s) eqn:Hps; [ | discriminate H ].
      destruct (pending s) as [ | t0 pe ] eqn:Hpe; [ | discriminate H ].
      destruct (results s) as [ | r0 re ] eqn:Hre; [ | discriminate H ].
      destruct (reduction s) eqn:Hred.
      + injection H as H; subst s'. apply EEndRed; assumption.
      + destruct (fresh s) eqn:Hfr.
        * destruct (Nat.ltb (S (pass s)) npasses) eqn:Hlt; injection H as H; subst s'.
          -- apply Nat.ltb_lt in Hlt. apply EEndNext; assumption.
          -- apply Nat.ltb_ge in Hlt.
             pose proof (EEndFin s) as E. rewrite Hps, Hpe, Hre, Hred, Hfr in E.
             apply E; try reflexivity; try assumption. lia.
        * injection H as H; subst s'. apply EEndRefresh; assumption.
  Qed.

  (* converse, for completeness: estep is exactly exec *)
  Lemma estep_exec : forall s a s', estep s a s' -> exec s a = Some s'.
  Proof.
    intros s a s' H.
    destruct H as [ n c Hf Hp Hn Hlt | n c Hf Hp Hn Hle | Hf Hp Hc | k t Hf Hn Hab
                  | k t Hf Hn | k t o Hf Hn Hab | k t Hf Hn Hab | k t o Hf Hn Hab Ho
                  | Hf Hp Hpe Hre Hred | Hf Hp Hpe Hre Hred Hfr Hlt
                  | Hf Hp Hpe Hre Hred Hfr Hlt | Hf Hp Hpe Hre Hred Hfr ];
      unfold C in *; unfold SchedHier.exec; rewrite Hf.
    - rewrite Hp, Hn. apply Nat.ltb_lt in Hlt. rewrite Hlt. reflexivity.
    - rewrite Hp, Hn. apply Nat.ltb_ge in Hle. rewrite Hle. reflexivity.
    - rewrite Hp. destruct Hc as [ Hc | Hc ].
      + rewrite Hc. reflexivity.
      + rewrite Hc, Nat.eqb_refl, orb_true_r. reflexivity.
    - rewrite Hn, Hab. reflexivity.
    - rewrite Hn. reflexivity.
    - rewrite Hn, Hab. reflexivity.
    - rewrite Hn, Hab. reflexivity.
    - rewrite Hn, Hab. destruct o; try reflexivity. exfalso; apply Ho; reflexivity.
    - rewrite Hp, Hpe, Hre, Hred. reflexivity.
    - rewrite Hp, Hpe, Hre, Hred, Hfr. apply Nat.ltb_lt in Hlt. rewrite Hlt. reflexivity.
    - rewrite Hp, Hpe, Hre, Hred, Hfr.
      assert (Hge : Nat.ltb (S (pass s)) npasses = false) by (apply Nat.ltb_ge; lia).
      rewrite Hge. reflexivity.
    - rewrite Hp, Hpe, Hre, Hred, Hfr. reflexivity.
  Qed.
  (* replaying an action list yields a reachable state *)
  Lemma replay_reachable : forall i l s s',
    reachable input cands accept redup npasses i s ->
    replay input cands accept redup npasses s l = Some s' ->
    reachable input cands accept redup npasses i s'.
  Proof.
    intros i l; induction l as [ | a l IH ]; intros s s' Hr H.
    - simpl in H. injection H as <-. exact Hr.
    - simpl in H. destruct (exec s a) as [ s1 | ] eqn:He; [ | discriminate H ].
      apply (IH s1 s'); [ | exact H ].
      eapply RS; [ exact Hr | ]. exists a; exact He.
  Qed.

  Lemma replay_reachable1 : forall i l s s',
    reachable1 input cands accept redup npasses i s ->
    forallb fifo l = true ->
    replay input cands accept redup npasses s l = Some s' ->
    reachable1 input cands accept redup npasses i s'.
  Proof.
    intros i l; induction l as [ | a l IH ]; intros s s' Hr Hf H.
    - simpl in H. injection H as <-. exact Hr.
    - simpl in H. destruct (exec s a) as [ s1 | ] eqn:He; [ | discriminate H ].
      simpl in Hf. apply andb_true_iff in Hf. destruct Hf as [ Hf1 Hf2 ].
      apply (IH s1 s'); [ | exact Hf2 | exact H ].
      eapply R1S; [ exact Hr | ]. exists a; split; [ exact Hf1 | exact He ].
  Qed.
End Step.

Arguments C {input} cands s.
Arguments estep {input} cands accept redup npasses s _ _.
