(* T7: with one worker (FIFO) the sequence of adopted inputs is determined by
   the initial input.  The one-worker transition system refines a
   deterministic sequential semantics [sstep] on sweep-boundary
   configurations (cur, pass, skip, fresh, writes). *)
From Coq Require Import Sorted.
From DD Require Import Proofs.Sched.HierBase Proofs.Sched.HierInv.

(* ------------------------------------------------------------------ *)
(* generic list facts *)

Lemma ss_app_inv : forall {A} (R : A -> A -> Prop) (l1 l2 : list A),
  StronglySorted R (l1 ++ l2) ->
  StronglySorted R l1 /\ StronglySorted R l2 /\
  (forall a b, In a l1 -> In b l2 -> R a b).
Proof.
  intros A R l1; induction l1 as [ | x l1 IH ]; intros l2 H.
  - split; [ constructor | ]. split; [ exact H | ]. intros a b [].
  - simpl in H. apply StronglySorted_inv in H. destruct H as [ H1 H2 ].
    destruct (IH l2 H1) as (I1 & I2 & I3).
    rewrite Forall_forall in H2.
    split; [ | split ].
    + constructor; [ exact I1 | ]. rewrite Forall_forall. intros y Hy.
      apply H2. apply in_or_app. left; exact Hy.
    + exact I2.
    + intros a b [ Ha | Ha ] Hb.
      * subst a. apply H2. apply in_or_app. right; exact Hb.
      * apply I3; assumption.
Qed.

Lemma ss_map_filter : forall {A B} (R : B -> B -> Prop) (g : A -> B) (f : A -> bool) (l : list A),
  StronglySorted R (map g l) -> StronglySorted R (map g (filter f l)).
Proof.
  intros A B R g f l; induction l as [ | x l IH ]; intros H.
  - constructor.
  - simpl in H. apply StronglySorted_inv in H. destruct H as [ H1 H2 ].
    simpl. destruct (f x).
    + simpl. constructor; [ apply IH; exact H1 | ].
      rewrite Forall_forall in *. intros y Hy.
      apply in_map_iff in Hy. destruct Hy as (z & Hz1 & Hz2).
      apply filter_In in Hz2. destruct Hz2 as [ Hz2 _ ].
      apply H2. rewrite <- Hz1. apply in_map; exact Hz2.
    + apply IH; exact H1.
Qed.

Lemma find_none_intro : forall {A} (f : A -> bool) (l : list A),
  (forall x, In x l -> f x = false) -> find f l = None.
Proof.
  intros A f l; induction l as [ | a l IH ]; intros H.
  - reflexivity.
  - simpl. rewrite (H a (or_introl eq_refl)). apply IH.
    intros x Hx. apply H. right; exact Hx.
Qed.

Lemma find_app_Some : forall {A} (f : A -> bool) (l1 l2 : list A) x,
  find f l1 = Some x -> find f (l1 ++ l2) = Some x.
Proof.
  intros A f l1; induction l1 as [ | a l1 IH ]; intros l2 x H.
  - discriminate H.
  - simpl in *. destruct (f a); [ exact H | apply IH; exact H ].
Qed.

Lemma find_andb_filter : forall {A} (f g : A -> bool) (l : list A),
  find (fun x => f x && g x) l = find g (filter f l).
Proof.
  intros A f g l; induction l as [ | a l IH ].
  - reflexivity.
  - simpl. destruct (f a); simpl.
    + destruct (g a); [ reflexivity | exact IH ].
    + exact IH.
Qed.

Section Seq.
  Variable input : Type.
  Variable cands : nat -> input -> list (nat * input).
  Variable accept : input -> bool.
  Variable redup : input -> input.
  Variable npasses : nat.

  Local Notation hst := (hst input).
  Local Notation task := (task input).
  Local Notation exec := (exec input cands accept redup npasses).
  Local Notation estep := (estep cands accept redup npasses).
  Local Notation reachable := (reachable input cands accept redup npasses).
  Local Notation reachable1 := (reachable1 input cands accept redup npasses).
  Local Notation Inv := (Inv cands accept redup npasses).

  Lemma reachable1_reachable : forall i s, reachable1 i s -> reachable i s.
  Proof.
    intros i s H. induction H as [ | s s' Hr IH (a & _ & Ha) ].
    - constructor.
    - eapply RS; [ exact IH | ]. exists a; exact Ha.
  Qed.

  (* -------------------------------------------------------------- *)
  (* the sequential semantics *)

  Record scfg := mk_scfg {
    c_cur : input; c_pass : nat; c_skip : nat; c_fresh : bool; c_writes : list input }.

  Definition first_succ (sk : nat) (l : list (nat * input)) : option (nat * input) :=
    find (fun nc => Nat.ltb sk (fst nc) && accept (snd nc)) l.

  Definition sstep (c : scfg) : option scfg :=
    match first_succ (c_skip c) (cands (c_pass c) (c_cur c)) with
    | Some (n, x) =>
        Some (mk_scfg (redup x) (c_pass c) (n - 1) false (redup x :: c_writes c))
    | None =>
        if c_fresh c then
          if Nat.ltb (S (c_pass c)) npasses
          then Some (mk_scfg (c_cur c) (S (c_pass c)) 0 true (c_writes c))
          else None
        else Some (mk_scfg (c_cur c) (c_pass c) 0 true (c_writes c))
    end.

  Fixpoint siter (k : nat) (c : scfg) : option scfg :=
    match k with
    | 0 => Some c
    | S k' => match siter k' c with Some c' => sstep c' | None => None end
    end.

  Definition cfg0 (i : input) : scfg := mk_scfg i 0 0 true [].
  Definition cfg_of (s : hst) : scfg :=
    mk_scfg (cur s) (pass s) (skip s) (fresh s) (writes s).

  Lemma sstep_writes : forall c c', sstep c = Some c' -> exists l, c_writes c' = l ++ c_writes c.
  Proof.
    intros c c' H. unfold sstep in H.
    destruct (first_succ (c_skip c) (cands (c_pass c) (c_cur c))) as [ [ n x ] | ].
    - injection H as <-. exists [redup x]. reflexivity.
    - destruct (c_fresh c).
      + destruct (Nat.ltb (S (c_pass c)) npasses); [ | discriminate H ].
        injection H as <-. exists []. reflexivity.
      + injection H as <-. exists []. reflexivity.
  Qed.

  Lemma siter_add_writes : forall d k c c1 c2,
    siter k c = Some c1 -> siter (d + k) c = Some c2 -> exists l, c_writes c2 = l ++ c_writes c1.
  Proof.
    intros d; induction d as [ | d IH ]; intros k c c1 c2 H1 H2.
    - simpl in H2. rewrite H1 in H2. injection H2 as <-. exists []. reflexivity.
    - simpl in H2. destruct (siter (d + k) c) as [ c3 | ] eqn:H3; [ | discriminate H2 ].
      destruct (IH k c c1 c3 H1 H3) as [ l Hl ].
      destruct (sstep_writes _ _ H2) as [ l' Hl' ].
      exists (l' ++ l). rewrite Hl', Hl, app_assoc. reflexivity.
  Qed.

  Lemma siter_add_None : forall d k c, siter k c = None -> siter (d + k) c = None.
  Proof.
    intros d; induction d as [ | d IH ]; intros k c H.
    - exact H.
    - simpl. rewrite (IH k c H). reflexivity.
  Qed.

  (* -------------------------------------------------------------- *)
  (* the FIFO invariant *)

  Hypothesis Hsorted : forall p x, StronglySorted le (map fst (cands p x)).

  Definition mkt (b : input) (nc : nat * input) : task := mk_task (fst nc) b (snd nc).
  Definition filt (s : hst) : list (nat * input) :=
    filter (fun nc => Nat.ltb (skip0 s) (fst nc)) (gen cands s).
  Definition queue (s : hst) : list task :=
    rev (rejected s) ++ map fst (results s) ++ pending s.

  Record Inv1 (i : input) (s : hst) : Prop := {
    q_queue : abort s = false -> map (mkt (base0 s)) (filt s) = queue s;
    q_pend : abort s = true -> forall t, In t (pending s) -> skip s <= t_nid t - 1;
    q_res : abort s = true -> forall t o, In (t, o) (results s) -> skip s <= t_nid t - 1;
    q_rest : abort s = true -> forall n c, In (n, c) (skipn (ppos s) (C cands s)) -> skip s <= n - 1;
    q_sim : exists k, siter k (cfg0 i) = Some (cfg_of s) /\
                      (finished s = true -> sstep (cfg_of s) = None)
  }.

  Lemma Inv1_init : forall i, Inv1 i (init i).
  Proof.
    intros i. constructor; unfold init; prj; try (intros; discriminate).
    - intros _. reflexivity.
    - exists 0. split; [ reflexivity | intros; discriminate ].
  Qed.

  Lemma find_queue_head : forall b l R t rest,
    map (mkt b) l = R ++ t :: rest ->
    (forall r, In r R -> accept (t_cand r) = false) ->
    accept (t_cand t) = true ->
    find (fun nc => accept (snd nc)) l = Some (t_nid t, t_cand t).
  Proof.
    intros b l; induction l as [ | x l IH ]; intros R t rest Hm HR Ht.
    - destruct R; discriminate Hm.
    - destruct R as [ | r R ]; simpl in Hm; injection Hm as Hx Hm.
      + subst t. unfold mkt in *; prj. simpl. rewrite Ht. destruct x; reflexivity.
      + simpl. assert (Hr : accept (snd x) = false).
        { pose proof (HR r (or_introl eq_refl)) as Hr. subst r. exact Hr. }
        rewrite Hr. eapply IH; [ exact Hm | | exact Ht ].
        intros r' Hr'. apply HR. right; exact Hr'.
  Qed.

  Lemma map_nid_mkt : forall b l, map (@t_nid input) (map (mkt b) l) = map fst l.
  Proof.
    intros b l. rewrite map_map. apply map_ext. intros x. reflexivity.
  Qed.

  Section Facts.
    Variable i : input.
    Variable s : hst.
    Hypothesis HI : Inv i s.
    Hypothesis HQ : Inv1 i s.

    (* no success in a completed abort-free sweep *)
    Lemma no_succ : abort s = false -> pstopped s = true -> pending s = [] -> results s = [] ->
      first_succ (skip s) (cands (pass s) (cur s)) = None.
    Proof.
      intros Hab Hps Hpe Hre. unfold first_succ. apply find_none_intro.
      intros [ n c ] Hin. cbn [fst snd].
      rewrite (inv_skip _ _ _ _ _ _ _ HI Hab).
      destruct (Nat.ltb (skip0 s) n) eqn:Hlt; [ | reflexivity ]. apply Nat.ltb_lt in Hlt.
      rewrite (inv_cur _ _ _ _ _ _ _ HI Hab) in Hin.
      assert (Hg : In (n, c) (gen cands s)).
      { unfold gen. rewrite (inv_pstop _ _ _ _ _ _ _ HI Hps Hab). rewrite firstn_all. exact Hin. }
      destruct (inv_cover _ _ _ _ _ _ _ HI Hab n c Hg Hlt) as [ H | [ [ o H ] | H ] ].
      - rewrite Hpe in H. destruct H.
      - rewrite Hre in H. destruct H.
      - destruct (inv_rej _ _ _ _ _ _ _ HI _ H) as [ _ Hacc ]. prj. rewrite Hacc. reflexivity.
    Qed.

    (* the first delivered success is the first success of the sweep *)
    Lemma adopt_first : forall t re,
      abort s = false -> results s = (t, OSucc) :: re ->
      first_succ (skip s) (cands (pass s) (cur s)) = Some (t_nid t, t_cand t).
    Proof.
      intros t re Hab Hre.
      rewrite (inv_skip _ _ _ _ _ _ _ HI Hab), (inv_cur _ _ _ _ _ _ _ HI Hab).
      unfold first_succ.
      rewrite <- (firstn_skipn (ppos s) (cands (pass s) (base0 s))).
      apply find_app_Some.
      rewrite (find_andb_filter (fun nc => Nat.ltb (skip0 s) (fst nc)) (fun nc => accept (snd nc))).
      pose proof (q_queue _ _ HQ Hab) as Hq. unfold queue in Hq. rewrite Hre in Hq.
      cbn [map fst app] in Hq. unfold filt, gen, C in Hq.
      eapply find_queue_head; [ exact Hq | | ].
      - intros r Hr. apply in_rev in Hr. destruct (inv_rej _ _ _ _ _ _ _ HI r Hr) as [ _ H ]. exact H.
      - assert (Hin : In (t, OSucc) (results s)) by (rewrite Hre; left; reflexivity).
        destruct (inv_res _ _ _ _ _ _ _ HI t OSucc Hin) as [ _ [ H _ ] ]. exact H.
    Qed.

    (* everything behind the head of the result queue has a node number at
       least as large *)
    Lemma head_min : forall t o re,
      abort s = false -> results s = (t, o) :: re ->
      (forall t', In t' (map fst re ++ pending s) -> t_nid t <= t_nid t') /\
      (forall n c, In (n, c) (skipn (ppos s) (C cands s)) -> t_nid t <= n).
    Proof.
      intros t o re Hab Hre.
      pose proof (q_queue _ _ HQ Hab) as Hq. unfold queue in Hq. rewrite Hre in Hq.
      cbn [map fst app] in Hq.
      pose proof (Hsorted (pass s) (base0 s)) as HS.
      rewrite <- (firstn_skipn (ppos s) (cands (pass s) (base0 s))) in HS.
      rewrite map_app in HS. apply ss_app_inv in HS. destruct HS as (HS1 & _ & HS3).
      split.
      - apply (ss_map_filter le fst (fun nc => Nat.ltb (skip0 s) (fst nc))) in HS1.
        fold (C cands s) in HS1. fold (gen cands s) in HS1. fold (filt s) in HS1.
        rewrite <- (map_nid_mkt (base0 s)) in HS1. rewrite Hq in HS1.
        rewrite map_app in HS1. apply ss_app_inv in HS1. destruct HS1 as (_ & HS1 & _).
        cbn [map] in HS1. apply StronglySorted_inv in HS1. destruct HS1 as [ _ HS1 ].
        rewrite Forall_forall in HS1. intros t' Ht'. apply HS1. apply in_map. exact Ht'.
      - intros n c Hin.
        assert (Ht : In t (map (mkt (base0 s)) (filt s))).
        { rewrite Hq. apply in_or_app. right. left. reflexivity. }
        apply in_map_iff in Ht. destruct Ht as (x & Hx1 & Hx2).
        unfold filt in Hx2. apply filter_In in Hx2. destruct Hx2 as [ Hx2 _ ].
        apply HS3.
        + subst t. unfold mkt; prj. apply in_map. exact Hx2.
        + change n with (fst (n, c)). apply in_map. exact Hin.
    Qed.
  End Facts.

  Section Pres1.
    Variable i : input.
    Variables (s : hst) (a : action) (s' : hst).
    Hypothesis HI : Inv i s.
    Hypothesis HQ : Inv1 i s.
    Hypothesis Hs : estep s a s'.
    Hypothesis Hfifo : fifo a = true.

    Lemma pres_queue : abort s' = false -> map (mkt (base0 s')) (filt s') = queue s'.
    Proof.
      pose proof (q_queue _ _ HQ) as H.
      step_cases Hs; unfold queue, filt, gen, C in *; prj; try exact H;
        try (intros; discriminate); try (intros; reflexivity).
      - intros Hab. rewrite (firstn_S_nth _ _ _ Hn), filter_app, map_app, (H Hab).
        cbn [filter fst]. rewrite (proj2 (Nat.ltb_lt _ _) Hlt).
        cbn [map]. unfold mkt. cbn [fst snd].
        rewrite <- !app_assoc. reflexivity.
      - intros Hab. rewrite (firstn_S_nth _ _ _ Hn), filter_app, map_app, (H Hab).
        cbn [filter fst]. rewrite (proj2 (Nat.ltb_ge _ _) Hle).
        cbn [map]. rewrite app_nil_r. reflexivity.
      - intros Hab'. congruence.
      - intros Hab. simpl in Hfifo. apply Nat.eqb_eq in Hfifo. subst k.
        destruct (nth_error_0_cons _ _ Hn) as [ pe Hpe ]. rewrite Hpe in *.
        cbn [remove_nth]. rewrite (H Hab), map_app. cbn [map fst].
        rewrite <- !app_assoc. reflexivity.
      - intros _. simpl in Hfifo. apply Nat.eqb_eq in Hfifo. subst k.
        destruct (nth_error_0_cons _ _ Hn) as [ re Hre ]. rewrite Hre in *.
        cbn [remove_nth rev]. rewrite (H Hab). cbn [map fst].
        rewrite <- !app_assoc. reflexivity.
      - intros Hab. rewrite Hpe, Hre in H. exact (H Hab).
    Qed.

    Lemma pres_q_pend : abort s' = true -> forall t0, In t0 (pending s') -> skip s' <= t_nid t0 - 1.
    Proof.
      pose proof (q_pend _ _ HQ) as H.
      pose proof (q_rest _ _ HQ) as HR.
      step_cases Hs; prj; try exact H; try (intros; discriminate);
        try (intros _ t0 Hx; exfalso; exact Hx).
      - intros Hab t0 Hin. apply in_app_or in Hin. destruct Hin as [ Hin | Hin ].
        + apply (H Hab t0 Hin).
        + destruct Hin as [ Hin | [] ]. subst t0; prj.
          apply (HR Hab n c). rewrite (skipn_nth_cons _ _ _ Hn). left; reflexivity.
      - intros _ t0 Hin. apply remove_nth_In in Hin. apply (H Hab t0 Hin).
      - intros Hab t0 Hin. apply remove_nth_In in Hin. apply (H Hab t0 Hin).
      - intros _ t0 Hin. apply nth_error_In in Hn.
        rewrite Nat.min_l by exact (q_res _ _ HQ Hab t o Hn). apply (H Hab t0 Hin).
      - intros _ t0 Hin. simpl in Hfifo. apply Nat.eqb_eq in Hfifo. subst k.
        destruct (nth_error_0_cons _ _ Hn) as [ re Hre ].
        destruct (head_min _ _ HQ t OSucc re Hab Hre) as [ Hm _ ].
        assert (Hle : t_nid t <= t_nid t0) by (apply Hm; apply in_or_app; right; exact Hin).
        lia.
    Qed.

    Lemma pres_q_res : abort s' = true -> forall t0 o0, In (t0, o0) (results s') -> skip s' <= t_nid t0 - 1.
    Proof.
      pose proof (q_res _ _ HQ) as H.
      pose proof (q_pend _ _ HQ) as HP.
      step_cases Hs; prj; try exact H; try (intros; discriminate);
        try (intros _ t0 o0 Hx; exfalso; exact Hx).
      - intros _ t0 o0 Hin. apply in_app_or in Hin. destruct Hin as [ Hin | Hin ].
        + apply (H Hab t0 o0 Hin).
        + destruct Hin as [ Hin | [] ]. injection Hin as <- <-.
          apply (HP Hab). eapply nth_error_In; exact Hn.
      - intros Hab t0 o0 Hin. apply in_app_or in Hin. destruct Hin as [ Hin | Hin ].
        + apply (H Hab t0 o0 Hin).
        + destruct Hin as [ Hin | [] ]. injection Hin as <- _.
          apply (HP Hab). eapply nth_error_In; exact Hn.
      - intros _ t0 o0 Hin. apply remove_nth_In in Hin. apply nth_error_In in Hn.
        rewrite Nat.min_l by exact (H Hab t o Hn). apply (H Hab t0 o0 Hin).
      - intros _ t0 o0 Hin. simpl in Hfifo. apply Nat.eqb_eq in Hfifo. subst k.
        destruct (nth_error_0_cons _ _ Hn) as [ re Hre ].
        destruct (head_min _ _ HQ t OSucc re Hab Hre) as [ Hm _ ].
        rewrite Hre in Hin. cbn [remove_nth] in Hin.
        assert (Hle : t_nid t <= t_nid t0).
        { apply Hm. apply in_or_app. left. change t0 with (fst (t0, o0)). apply in_map. exact Hin. }
        lia.
    Qed.

    Lemma pres_q_rest : abort s' = true -> forall n0 c0,
      In (n0, c0) (skipn (ppos s') (C cands s')) -> skip s' <= n0 - 1.
    Proof.
      pose proof (q_rest _ _ HQ) as H.
      step_cases Hs; unfold C in *; prj; try exact H; try (intros; discriminate).
      - intros Hab n0 c0 Hin. apply (H Hab n0 c0).
        rewrite (skipn_nth_cons _ _ _ Hn). right; exact Hin.
      - intros Hab n0 c0 Hin. apply (H Hab n0 c0).
        rewrite (skipn_nth_cons _ _ _ Hn). right; exact Hin.
      - intros _ n0 c0 Hin. apply nth_error_In in Hn.
        rewrite Nat.min_l by exact (q_res _ _ HQ Hab t o Hn). apply (H Hab n0 c0 Hin).
      - intros _ n0 c0 Hin. simpl in Hfifo. apply Nat.eqb_eq in Hfifo. subst k.
        destruct (nth_error_0_cons _ _ Hn) as [ re Hre ].
        destruct (head_min _ _ HQ t OSucc re Hab Hre) as [ _ Hm ].
        pose proof (Hm n0 c0 Hin) as Hle. lia.
    Qed.

    Lemma pres_sim : exists k0, siter k0 (cfg0 i) = Some (cfg_of s') /\
                      (finished s' = true -> sstep (cfg_of s') = None).
    Proof.
      destruct (q_sim _ _ HQ) as (k0 & Hk & _).
      pose proof (inv_abred _ _ _ _ _ _ _ HI) as Habred.
      step_cases Hs; unfold cfg_of in *; prj;
        try (exists k0; split; [ exact Hk | intros; discriminate ]).
      - (* consume under abort: skip is unchanged *)
        apply nth_error_In in Hn.
        rewrite Nat.min_l by exact (q_res _ _ HQ Hab t o Hn).
        exists k0; split; [ exact Hk | intros; discriminate ].
      - (* adoption *)
        simpl in Hfifo. apply Nat.eqb_eq in Hfifo. subst k.
        destruct (nth_error_0_cons _ _ Hn) as [ re Hre ].
        exists (S k0). split; [ | intros; discriminate ].
        cbn [siter]. rewrite Hk. unfold sstep. cbn [c_cur c_pass c_skip c_fresh c_writes].
        rewrite (adopt_first _ _ HI HQ t re Hab Hre). reflexivity.
      - (* next pass *)
        assert (Hab : abort s = false) by congruence.
        exists (S k0). split; [ | intros; discriminate ].
        cbn [siter]. rewrite Hk. unfold sstep. cbn [c_cur c_pass c_skip c_fresh c_writes].
        rewrite (no_succ _ _ HI Hab Hp Hpe Hre), Hfr, (proj2 (Nat.ltb_lt _ _) Hlt). reflexivity.
      - (* finish *)
        assert (Hab : abort s = false) by congruence.
        exists k0. split; [ exact Hk | ]. intros _.
        unfold sstep. cbn [c_cur c_pass c_skip c_fresh c_writes].
        rewrite (no_succ _ _ HI Hab Hp Hpe Hre), Hfr.
        assert (Hge : Nat.ltb (S (pass s)) npasses = false) by (apply Nat.ltb_ge; lia).
        rewrite Hge. reflexivity.
      - (* fresh rerun *)
        assert (Hab : abort s = false) by congruence.
        exists (S k0). split; [ | intros; discriminate ].
        cbn [siter]. rewrite Hk. unfold sstep. cbn [c_cur c_pass c_skip c_fresh c_writes].
        rewrite (no_succ _ _ HI Hab Hp Hpe Hre), Hfr. reflexivity.
    Qed.

    Lemma Inv1_estep : Inv1 i s'.
    Proof.
      constructor.
      - exact pres_queue.
      - exact pres_q_pend.
      - exact pres_q_res.
      - exact pres_q_rest.
      - exact pres_sim.
    Qed.
  End Pres1.

  Lemma Inv1_reachable1 : forall i s, reachable1 i s -> Inv1 i s.
  Proof.
    intros i s H. induction H as [ | s s' Hr IH (a & Hfifo & Ha) ].
    - apply Inv1_init.
    - eapply Inv1_estep; [ | exact IH | apply exec_estep; exact Ha | exact Hfifo ].
      apply Inv_reachable. apply reachable1_reachable. exact Hr.
  Qed.

  (* the one-worker system refines the sequential semantics *)
  Lemma seq_refines_lemma : forall i s, reachable1 i s ->
    exists k, siter k (cfg0 i) = Some (cfg_of s) /\
              (finished s = true -> sstep (cfg_of s) = None).
  Proof.
    intros i s H. exact (q_sim _ _ (Inv1_reachable1 _ _ H)).
  Qed.

  Lemma seq_prefix_lemma : forall i s1 s2, reachable1 i s1 -> reachable1 i s2 ->
    (exists l, writes s1 = l ++ writes s2) \/ (exists l, writes s2 = l ++ writes s1).
  Proof.
    intros i s1 s2 H1 H2.
    destruct (seq_refines_lemma _ _ H1) as (k1 & Hk1 & _).
    destruct (seq_refines_lemma _ _ H2) as (k2 & Hk2 & _).
    destruct (le_ge_dec k1 k2) as [ Hle | Hge ].
    - right. replace k2 with ((k2 - k1) + k1) in Hk2 by lia.
      destruct (siter_add_writes _ _ _ _ _ Hk1 Hk2) as [ l Hl ]. exists l. exact Hl.
    - left. replace k1 with ((k1 - k2) + k2) in Hk1 by lia.
      destruct (siter_add_writes _ _ _ _ _ Hk2 Hk1) as [ l Hl ]. exists l. exact Hl.
  Qed.

  Lemma seq_final_lemma : forall i s1 s2, reachable1 i s1 -> reachable1 i s2 ->
    finished s1 = true -> finished s2 = true ->
    writes s1 = writes s2 /\ cur s1 = cur s2.
  Proof.
    intros i s1 s2 H1 H2 F1 F2.
    destruct (seq_refines_lemma _ _ H1) as (k1 & Hk1 & E1).
    destruct (seq_refines_lemma _ _ H2) as (k2 & Hk2 & E2).
    specialize (E1 F1). specialize (E2 F2).
    assert (Hk : k1 = k2).
    { destruct (lt_eq_lt_dec k1 k2) as [ [ Hlt | Heq ] | Hgt ]; [ | exact Heq | ]; exfalso.
      - assert (HN : siter (S k1) (cfg0 i) = None) by (cbn [siter]; rewrite Hk1; exact E1).
        apply (siter_add_None (k2 - S k1)) in HN.
        replace (k2 - S k1 + S k1) with k2 in HN by lia. congruence.
      - assert (HN : siter (S k2) (cfg0 i) = None) by (cbn [siter]; rewrite Hk2; exact E2).
        apply (siter_add_None (k1 - S k2)) in HN.
        replace (k1 - S k2 + S k2) with k1 in HN by lia. congruence. }
    subst k2. rewrite Hk1 in Hk2. injection Hk2 as Hc _ _ _ Hw. split; assumption.
  Qed.
End Seq.

Arguments mk_scfg {input}.
Arguments c_cur {input} s.
Arguments c_pass {input} s.
Arguments c_skip {input} s.
Arguments c_fresh {input} s.
Arguments c_writes {input} s.
Arguments cfg0 {input} i.
Arguments cfg_of {input} s.
