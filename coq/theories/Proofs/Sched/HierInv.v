(* The invariant of the hierarchical scheduler model, its preservation by every
   step, and the safety theorems T1 (no stale adoption), T2 (file is last
   write), T3 (write chain, tested before written). *)
From DD Require Import Proofs.Sched.HierBase.

Lemma In_firstn_S : forall {A} (l : list A) k x,
  In x (firstn k l) -> In x (firstn (S k) l).
Proof.
  intros A l; induction l as [ | a l IH ]; intros k x H.
  - destruct k; simpl in H; destruct H.
  - destruct k as [ | k ].
    + simpl in H; destruct H.
    + change (firstn (S (S k)) (a :: l)) with (a :: firstn (S k) l).
      simpl in H. destruct H as [ H | H ].
      * left; exact H.
      * right; apply IH; exact H.
Qed.

Lemma In_firstn : forall {A} (l : list A) k x, In x (firstn k l) -> In x l.
Proof.
  intros A l; induction l as [ | a l IH ]; intros k x H.
  - destruct k; simpl in H; destruct H.
  - destruct k as [ | k ]; simpl in H.
    + destruct H.
    + destruct H as [ H | H ].
      * left; exact H.
      * right; eapply IH; exact H.
Qed.

Lemma last_rev_hd : forall {A} (l : list A) d, last (rev l) d = hd d l.
Proof.
  intros A l d. destruct l as [ | a l ].
  - reflexivity.
  - simpl. apply last_last.
Qed.

Lemma last_cons_indep : forall {A} (l : list A) b d1 d2,
  last (b :: l) d1 = last (b :: l) d2.
Proof.
  intros A l; induction l as [ | a l IH ]; intros b d1 d2.
  - reflexivity.
  - change (last (b :: a :: l) d1) with (last (a :: l) d1).
    change (last (b :: a :: l) d2) with (last (a :: l) d2). apply IH.
Qed.

Ltac step_cases Hs :=
  destruct Hs as [ n c Hf Hp Hn Hlt | n c Hf Hp Hn Hle | Hf Hp Hc | k t Hf Hn Hab
                 | k t Hf Hn | k t o Hf Hn Hab | k t Hf Hn Hab | k t o Hf Hn Hab Ho
                 | Hf Hp Hpe Hre Hred | Hf Hp Hpe Hre Hred Hfr Hlt
                 | Hf Hp Hpe Hre Hred Hfr Hlt | Hf Hp Hpe Hre Hred Hfr ].

Section Inv.
  Variable input : Type.
  Variable cands : nat -> input -> list (nat * input).
  Variable accept : input -> bool.
  Variable redup : input -> input.
  Variable npasses : nat.

  Local Notation hst := (hst input).
  Local Notation task := (task input).
  Local Notation exec := (exec input cands accept redup npasses).
  Local Notation estep := (estep cands accept redup npasses).
  Local Notation hstep := (hstep input cands accept redup npasses).
  Local Notation reachable := (reachable input cands accept redup npasses).

  (* T3 vocabulary *)
  Definition derives (w w' : input) : Prop :=
    exists p n c, In (n, c) (cands p w) /\ accept c = true /\ w' = redup c.

  Fixpoint chain_from (w : input) (l : list input) : Prop :=
    match l with
    | [] => True
    | x :: r => derives w x /\ chain_from x r
    end.

  Lemma chain_snoc : forall l w x,
    chain_from w l -> derives (last l w) x -> chain_from w (l ++ [x]).
  Proof.
    intros l; induction l as [ | a l IH ]; intros w x Hc Hd.
    - simpl in *. split; [ exact Hd | exact I ].
    - destruct Hc as [ Hc1 Hc2 ]. split; [ exact Hc1 | ].
      apply IH; [ exact Hc2 | ].
      destruct l as [ | b l ]; [ exact Hd | ].
      rewrite (last_cons_indep l b a w). exact Hd.
  Qed.

  Definition gen (s : hst) : list (nat * input) := firstn (ppos s) (C cands s).

  Definition task_ok (s : hst) (t : task) : Prop :=
    exists n c, t = mk_task n (base0 s) c /\ In (n, c) (gen s) /\ skip0 s < n.

  Definition out_ok (s : hst) (t : task) (o : outcome) : Prop :=
    match o with
    | OSucc => accept (t_cand t) = true /\ In (t_cand t, true) (checked s)
    | OFail => accept (t_cand t) = false
    | OAborted => abort s = true
    end.

  Record Inv (i : input) (s : hst) : Prop := {
    inv_fresh : fresh s = true -> skip s = 0 /\ skip0 s = 0;
    inv_abred : abort s = reduction s;
    inv_skip : abort s = false -> skip s = skip0 s;
    inv_cur : abort s = false -> cur s = base0 s;
    inv_pend : forall t, In t (pending s) -> task_ok s t;
    inv_res : forall t o, In (t, o) (results s) -> task_ok s t /\ out_ok s t o;
    inv_rej : forall t, In t (rejected s) -> task_ok s t /\ accept (t_cand t) = false;
    inv_cover : abort s = false -> forall n c, In (n, c) (gen s) -> skip0 s < n ->
                In (mk_task n (base0 s) c) (pending s) \/
                (exists o, In (mk_task n (base0 s) c, o) (results s)) \/
                In (mk_task n (base0 s) c) (rejected s);
    inv_ppos : ppos s <= length (C cands s);
    inv_pstop : pstopped s = true -> abort s = false -> ppos s = length (C cands s);
    inv_pass : pass s = 0 \/ pass s < npasses;
    inv_fin : finished s = true ->
              reduction s = false /\ fresh s = true /\ pstopped s = true /\
              pending s = [] /\ results s = [] /\ ~ S (pass s) < npasses;
    inv_last : cur s = hd i (writes s);
    inv_chain : chain_from i (rev (writes s));
    inv_checked : forall w, In w (writes s) -> exists c, w = redup c /\ In (c, true) (checked s)
  }.

  Lemma Inv_init : forall i, Inv i (init i).
  Proof.
    intros i. constructor; unfold init, gen, C; prj; simpl; try tauto; try lia;
      try (intros; discriminate); try reflexivity.
  Qed.

  Section Pres.
    Variable i : input.
    Variables (s : hst) (a : action) (s' : hst).
    Hypothesis HI : Inv i s.
    Hypothesis Hs : estep s a s'.

    Lemma task_ok_S : forall t b,
      task_ok s t ->
      task_ok (mk_hst (cur s) (pass s) (skip s) (fresh s) (reduction s) (abort s) (base0 s)
                      (skip0 s) (S (ppos s)) false b (results s) (rejected s)
                      (writes s) (checked s) false) t.
    Proof.
      intros t b (n & c & Ht & Hin & Hlt). exists n, c.
      unfold gen, C in *; prj. split; [ exact Ht | ]. split; [ | exact Hlt ].
      apply In_firstn_S; exact Hin.
    Qed.

    Lemma pres_fresh : fresh s' = true -> skip s' = 0 /\ skip0 s' = 0.
    Proof.
      pose proof (inv_fresh _ _ HI) as H.
      step_cases Hs; prj; try exact H; try (intros; discriminate); try (intros; split; reflexivity).
      - intros Hfr. destruct (H Hfr) as [ H1 H2 ]. rewrite H1. split; [ reflexivity | exact H2 ].
      - intros Hfr. destruct (H Hfr) as [ H1 H2 ]. split; exact H1.
    Qed.

    Lemma pres_abred : abort s' = reduction s'.
    Proof.
      pose proof (inv_abred _ _ HI) as H.
      step_cases Hs; prj; try exact H; try reflexivity; congruence.
    Qed.

    Lemma pres_skip : abort s' = false -> skip s' = skip0 s'.
    Proof.
      pose proof (inv_skip _ _ HI) as H.
      step_cases Hs; prj; try exact H; try (intros; discriminate); try (intros; reflexivity).
      intros _. exact (H Hab).
    Qed.

    Lemma pres_cur : abort s' = false -> cur s' = base0 s'.
    Proof.
      pose proof (inv_cur _ _ HI) as H.
      step_cases Hs; prj; try exact H; try (intros; discriminate); try (intros; reflexivity).
      intros _. exact (H Hab).
    Qed.

    Lemma pres_pend : forall t0, In t0 (pending s') -> task_ok s' t0.
    Proof.
      pose proof (inv_pend _ _ HI) as H.
      step_cases Hs; prj; try exact H; try (intros t0 Hx; exfalso; exact Hx).
      - intros t0 Hin. apply in_app_or in Hin. destruct Hin as [ Hin | Hin ].
        + apply task_ok_S. apply H; exact Hin.
        + destruct Hin as [ Hin | [] ]. subst t0. exists n, c.
          unfold gen, C in *; prj. split; [ reflexivity | ]. split; [ | exact Hlt ].
          rewrite (firstn_S_nth _ _ _ Hn). apply in_or_app. right. left. reflexivity.
      - intros t0 Hin. apply task_ok_S. apply H; exact Hin.
      - intros t0 Hin. apply remove_nth_In in Hin. apply (H t0 Hin).
      - intros t0 Hin. apply remove_nth_In in Hin. apply (H t0 Hin).
    Qed.

    Lemma pres_res : forall t0 o0, In (t0, o0) (results s') -> task_ok s' t0 /\ out_ok s' t0 o0.
    Proof.
      pose proof (inv_res _ _ HI) as H.
      pose proof (inv_pend _ _ HI) as HP.
      step_cases Hs; prj; try exact H; try (intros t0 o0 Hx; exfalso; exact Hx).
      - intros t0 o0 Hin. destruct (H t0 o0 Hin) as [ H1 H2 ]. split.
        + apply task_ok_S; exact H1.
        + exact H2.
      - intros t0 o0 Hin. destruct (H t0 o0 Hin) as [ H1 H2 ]. split.
        + apply task_ok_S; exact H1.
        + exact H2.
      - intros t0 o0 Hin. apply in_app_or in Hin. destruct Hin as [ Hin | Hin ].
        + apply (H t0 o0 Hin).
        + destruct Hin as [ Hin | [] ]. injection Hin as <- <-. split.
          * apply HP. eapply nth_error_In; exact Hn.
          * exact Hab.
      - intros t0 o0 Hin. apply in_app_or in Hin. destruct Hin as [ Hin | Hin ].
        + destruct (H t0 o0 Hin) as [ H1 H2 ]. split; [ exact H1 | ].
          destruct o0; unfold out_ok in *; prj.
          * exact H2.
          * exact H2.
          * destruct H2 as [ H2 H3 ]. split; [ exact H2 | right; exact H3 ].
        + destruct Hin as [ Hin | [] ]. injection Hin as <- <-. split.
          * apply HP. eapply nth_error_In; exact Hn.
          * unfold out_ok; prj. destruct (accept (t_cand t)) eqn:Hacc.
            -- split; [ reflexivity | left; reflexivity ].
            -- reflexivity.
      - intros t0 o0 Hin. apply remove_nth_In in Hin. destruct (H t0 o0 Hin) as [ H1 H2 ].
        split; [ exact H1 | ]. destruct o0; unfold out_ok in *; prj; try exact H2. reflexivity.
      - intros t0 o0 Hin. apply remove_nth_In in Hin. destruct (H t0 o0 Hin) as [ H1 H2 ].
        split; [ exact H1 | ]. destruct o0; unfold out_ok in *; prj; try exact H2. reflexivity.
      - intros t0 o0 Hin. apply remove_nth_In in Hin. destruct (H t0 o0 Hin) as [ H1 H2 ].
        split; [ exact H1 | ]. destruct o0; unfold out_ok in *; prj; try exact H2. congruence.
    Qed.

    Lemma pres_rej : forall t0, In t0 (rejected s') -> task_ok s' t0 /\ accept (t_cand t0) = false.
    Proof.
      pose proof (inv_rej _ _ HI) as H.
      pose proof (inv_res _ _ HI) as HR.
      step_cases Hs; prj; try exact H; try (intros t0 Hx; exfalso; exact Hx).
      - intros t0 Hin. destruct (H t0 Hin) as [ H1 H2 ]. split; [ apply task_ok_S; exact H1 | exact H2 ].
      - intros t0 Hin. destruct (H t0 Hin) as [ H1 H2 ]. split; [ apply task_ok_S; exact H1 | exact H2 ].
      - intros t0 [ Hin | Hin ].
        + subst t0. apply nth_error_In in Hn. destruct (HR t o Hn) as [ H1 H2 ].
          split; [ exact H1 | ]. destruct o; unfold out_ok in H2.
          * congruence.
          * exact H2.
          * exfalso; apply Ho; reflexivity.
        + apply (H t0 Hin).
    Qed.

    Lemma pres_cover : abort s' = false -> forall n0 c0, In (n0, c0) (gen s') -> skip0 s' < n0 ->
                In (mk_task n0 (base0 s') c0) (pending s') \/
                (exists o0, In (mk_task n0 (base0 s') c0, o0) (results s')) \/
                In (mk_task n0 (base0 s') c0) (rejected s').
    Proof.
      pose proof (inv_cover _ _ HI) as H.
      step_cases Hs; unfold gen, C in *; prj; try exact H; try (intros; discriminate);
        try (intros _ n0 c0 Hx; exfalso; exact Hx).
      - intros Hab n0 c0 Hin Hlt0. rewrite (firstn_S_nth _ _ _ Hn) in Hin.
        apply in_app_or in Hin. destruct Hin as [ Hin | Hin ].
        + destruct (H Hab n0 c0 Hin Hlt0) as [ H1 | [ H1 | H1 ] ].
          * left. apply in_or_app. left; exact H1.
          * right; left; exact H1.
          * right; right; exact H1.
        + destruct Hin as [ Hin | [] ]. injection Hin as <- <-.
          left. apply in_or_app. right. left. reflexivity.
      - intros Hab n0 c0 Hin Hlt0. rewrite (firstn_S_nth _ _ _ Hn) in Hin.
        apply in_app_or in Hin. destruct Hin as [ Hin | Hin ].
        + apply (H Hab n0 c0 Hin Hlt0).
        + destruct Hin as [ Hin | [] ]. injection Hin as <- <-. lia.
      - intros Hab'. congruence.
      - intros Hab n0 c0 Hin Hlt0.
        destruct (H Hab n0 c0 Hin Hlt0) as [ H1 | [ H1 | H1 ] ].
        + destruct (nth_error_remove_In _ _ _ _ Hn H1) as [ H2 | H2 ].
          * right; left. eexists. apply in_or_app. right. left. rewrite H2. reflexivity.
          * left; exact H2.
        + right; left. destruct H1 as [ o1 H1 ]. exists o1. apply in_or_app. left; exact H1.
        + right; right; exact H1.
      - intros _ n0 c0 Hin Hlt0.
        destruct (H Hab n0 c0 Hin Hlt0) as [ H1 | [ H1 | H1 ] ].
        + left; exact H1.
        + destruct H1 as [ o1 H1 ].
          destruct (nth_error_remove_In _ _ _ _ Hn H1) as [ H2 | H2 ].
          * right; right. left. injection H2 as H2 _. symmetry; exact H2.
          * right; left. exists o1; exact H2.
        + right; right. right; exact H1.
      - rewrite Hpe, Hre in H. exact H.
    Qed.

    Lemma pres_ppos : ppos s' <= length (C cands s').
    Proof.
      pose proof (inv_ppos _ _ HI) as H.
      step_cases Hs; unfold C in *; prj; try exact H; try lia.
      - apply nth_error_lt in Hn. exact Hn.
      - apply nth_error_lt in Hn. exact Hn.
    Qed.

    Lemma pres_pstop : pstopped s' = true -> abort s' = false -> ppos s' = length (C cands s').
    Proof.
      pose proof (inv_pstop _ _ HI) as H.
      step_cases Hs; unfold C in *; prj; try exact H; try (intros; discriminate);
        try (intros Hps _; exact (H Hps Hab)).
      intros _ Hab. destruct Hc as [ Hc | Hc ]; [ congruence | exact Hc ].
    Qed.

    Lemma pres_pass : pass s' = 0 \/ pass s' < npasses.
    Proof.
      pose proof (inv_pass _ _ HI) as H.
      step_cases Hs; prj; try exact H. right; exact Hlt.
    Qed.

    Lemma pres_fin : finished s' = true ->
              reduction s' = false /\ fresh s' = true /\ pstopped s' = true /\
              pending s' = [] /\ results s' = [] /\ ~ S (pass s') < npasses.
    Proof.
      step_cases Hs; prj; try (intros; discriminate).
      intros _. repeat split; assumption.
    Qed.

    Lemma pres_last : cur s' = hd i (writes s').
    Proof.
      pose proof (inv_last _ _ HI) as H.
      step_cases Hs; prj; try exact H. reflexivity.
    Qed.

    Lemma pres_chain : chain_from i (rev (writes s')).
    Proof.
      pose proof (inv_chain _ _ HI) as H.
      step_cases Hs; prj; try exact H.
      simpl. apply chain_snoc; [ exact H | ].
      rewrite last_rev_hd, <- (inv_last _ _ HI), (inv_cur _ _ HI Hab).
      apply nth_error_In in Hn.
      destruct (inv_res _ _ HI t OSucc Hn) as [ (n & c & Ht & Hin & Hlt) [ Hacc _ ] ].
      subst t; prj. exists (pass s), n, c. split; [ | split; [ exact Hacc | reflexivity ] ].
      unfold gen, C in Hin. eapply In_firstn; exact Hin.
    Qed.

    Lemma pres_checked : forall w, In w (writes s') -> exists c, w = redup c /\ In (c, true) (checked s').
    Proof.
      pose proof (inv_checked _ _ HI) as H.
      step_cases Hs; prj; try exact H.
      - intros w Hw. destruct (H w Hw) as (c & Hc1 & Hc2). exists c. split; [ exact Hc1 | right; exact Hc2 ].
      - intros w [ Hw | Hw ].
        + exists (t_cand t). split; [ symmetry; exact Hw | ].
          apply nth_error_In in Hn. destruct (inv_res _ _ HI t OSucc Hn) as [ _ [ _ Hchk ] ]. exact Hchk.
        + apply (H w Hw).
    Qed.

    Lemma Inv_estep : Inv i s'.
    Proof.
      constructor.
      - exact pres_fresh.
      - exact pres_abred.
      - exact pres_skip.
      - exact pres_cur.
      - exact pres_pend.
      - exact pres_res.
      - exact pres_rej.
      - exact pres_cover.
      - exact pres_ppos.
      - exact pres_pstop.
      - exact pres_pass.
      - exact pres_fin.
      - exact pres_last.
      - exact pres_chain.
      - exact pres_checked.
    Qed.
  End Pres.

  Lemma Inv_exec : forall i s a s', Inv i s -> exec s a = Some s' -> Inv i s'.
  Proof.
    intros i s a s' HI He. eapply Inv_estep; [ exact HI | ]. apply exec_estep; exact He.
  Qed.

  Lemma Inv_reachable : forall i s, reachable i s -> Inv i s.
  Proof.
    intros i s H. induction H as [ | s s' Hr IH [ a Ha ] ].
    - apply Inv_init.
    - eapply Inv_exec; [ exact IH | exact Ha ].
  Qed.

  (* ---------------------------------------------------------------- *)
  (* T1 *)
  Lemma no_stale_lemma : forall i s k s' t,
    reachable i s -> abort s = false ->
    nth_error (results s) k = Some (t, OSucc) ->
    exec s (AConsume k) = Some s' ->
    t_base t = cur s /\ cur s' = redup (t_cand t) /\ accept (t_cand t) = true.
  Proof.
    intros i s k s' t Hr Hab Hn He.
    pose proof (Inv_reachable _ _ Hr) as HI.
    pose proof (nth_error_In _ _ Hn) as Hin.
    destruct (inv_res _ _ HI t OSucc Hin) as [ (n & c & Ht & _ & _) [ Hacc _ ] ].
    split; [ | split ].
    - rewrite (inv_cur _ _ HI Hab). subst t. reflexivity.
    - unfold SchedHier.exec in He. destruct (finished s); [ discriminate He | ].
      rewrite Hn, Hab in He. injection He as <-. reflexivity.
    - exact Hacc.
  Qed.

  (* T2 *)
  Lemma file_is_last_lemma : forall i s, reachable i s ->
    match writes s with w :: _ => cur s = w | [] => cur s = i end.
  Proof.
    intros i s Hr. pose proof (inv_last _ _ (Inv_reachable _ _ Hr)) as H.
    destruct (writes s); exact H.
  Qed.

  (* T3 *)
  Lemma chain_lemma : forall i s, reachable i s -> chain_from i (rev (writes s)).
  Proof.
    intros i s Hr. exact (inv_chain _ _ (Inv_reachable _ _ Hr)).
  Qed.

  Lemma written_was_checked_lemma : forall i s w, reachable i s -> In w (writes s) ->
    exists c, w = redup c /\ In (c, true) (checked s).
  Proof.
    intros i s w Hr Hw. exact (inv_checked _ _ (Inv_reachable _ _ Hr) w Hw).
  Qed.

  (* checked is a faithful log *)
  Lemma checked_sound_lemma : forall i s x b, reachable i s -> In (x, b) (checked s) -> accept x = b.
  Proof.
    intros i s x b Hr. induction Hr as [ | s s' Hr IH [ a Ha ] ].
    - intros [].
    - apply exec_estep in Ha. step_cases Ha; prj; try exact IH.
      intros [ Hin | Hin ].
      + injection Hin as <- <-. reflexivity.
      + apply IH; exact Hin.
  Qed.
End Inv.

Arguments Inv {input} cands accept redup npasses i s.
Arguments gen {input} cands s.
Arguments task_ok {input} cands s t.
Arguments out_ok {input} accept s t o.
