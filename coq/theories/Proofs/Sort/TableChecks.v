(* Computational checks on the GENERATED operator tables of the oracle
   (Gen/Tables.v): every operator of a table that the specification's type_app
   knows has the result shape the oracle assumes for that table.  All facts are
   established by evaluation, never by inspecting the table contents by hand. *)
From DD Require Import Model.Smtlib Spec.Typing Proofs.Sort.DecRT Proofs.Sort.SortBase Proofs.Sort.TypeApp Proofs.Sort.SortHyps.
Local Open Scope list_scope.

Definition k_first (k : rkind) : bool := match k with RKFirst | RKUser => true | _ => false end.
Definition k_second (k : rkind) : bool := match k with RKSecond | RKUser => true | _ => false end.
Definition k_bool (k : rkind) : bool := match k with RKBool | RKUser => true | _ => false end.
Definition k_int (k : rkind) : bool := match k with RKInt | RKUser => true | _ => false end.
Definition k_real (k : rkind) : bool := match k with RKReal | RKUser => true | _ => false end.
Definition k_arith (k : rkind) : bool := match k with RKArith | RKUser => true | _ => false end.

Lemma chk_bvw : forallb (fun op => k_first (result_kind op)) bvw_same_ops = true.
Proof. vm_compute. reflexivity. Qed.
Lemma chk_bool : forallb (fun op => k_bool (result_kind op)) sort_bool_ops = true.
Proof. vm_compute. reflexivity. Qed.
Lemma chk_int : forallb (fun op => k_int (result_kind op)) sort_int_ops = true.
Proof. vm_compute. reflexivity. Qed.
Lemma chk_real : forallb (fun op => k_real (result_kind op)) sort_real_ops = true.
Proof. vm_compute. reflexivity. Qed.
Lemma chk_arith : forallb (fun op => k_arith (result_kind op)) sort_arith_ops = true.
Proof. vm_compute. reflexivity. Qed.
Lemma chk_fp1 : forallb (fun op => k_first (result_kind op)) sort_fp1_ops = true.
Proof. vm_compute. reflexivity. Qed.
Lemma chk_fp2 : forallb (fun op => k_second (result_kind op)) sort_fp2_ops = true.
Proof. vm_compute. reflexivity. Qed.

(* the names the oracle's operator dispatch reacts to *)
Definition oracle_head (h : str) : bool :=
  mem_str_l h oracle_ops || iss h "concat" || iss h "bvcomp" || iss h "ite" || iss h "fp" || iss h "select" || iss h "store".

Definition kws : list string := ["_"; "let"; "forall"; "exists"; "!"].
Lemma chk_kw : forallb (fun k => negb (oracle_head (lit k))) kws = true.
Proof. vm_compute. reflexivity. Qed.

Lemma kw_not_head h : kw h = true -> oracle_head h = false.
Proof.
  intro H. apply mem_s_true in H as (x & Hin & ->).
  pose proof chk_kw as Hc. rewrite forallb_forall in Hc. specialize (Hc x Hin).
  now apply negb_true_iff in Hc.
Qed.

Lemma mem_str_l_app s l1 l2 : mem_str_l s (l1 ++ l2) = mem_str_l s l1 || mem_str_l s l2.
Proof. unfold mem_str_l. apply existsb_app. Qed.

Lemma oracle_ops_mem s :
  mem_str_l s oracle_ops =
  mem_str_l s bvw_same_ops || (mem_str_l s sort_bool_ops || (mem_str_l s sort_int_ops || (mem_str_l s sort_real_ops ||
  (mem_str_l s sort_arith_ops || (mem_str_l s sort_fp1_ops || mem_str_l s sort_fp2_ops))))).
Proof. unfold oracle_ops. now rewrite !mem_str_l_app. Qed.

Lemma oracle_head_false h :
  oracle_head h = false ->
  mem_str_l h bvw_same_ops = false /\ mem_str_l h sort_bool_ops = false /\ mem_str_l h sort_int_ops = false /\
  mem_str_l h sort_real_ops = false /\ mem_str_l h sort_arith_ops = false /\ mem_str_l h sort_fp1_ops = false /\
  mem_str_l h sort_fp2_ops = false /\ iss h "concat" = false /\ iss h "bvcomp" = false /\ iss h "ite" = false /\
  iss h "fp" = false /\ iss h "select" = false /\ iss h "store" = false.
Proof.
  unfold oracle_head. rewrite oracle_ops_mem. intro H.
  repeat match type of H with orb _ _ = false => apply orb_false_iff in H; destruct H as [H ?] end.
  repeat match goal with H' : orb _ _ = false |- _ => apply orb_false_iff in H'; destruct H' end.
  repeat split; assumption.
Qed.

(* user-level typing is impossible for a table operator *)
Lemma user_app_none g op ts :
  ops_unbound g -> mem_str_l op oracle_ops = true -> user_app g op ts = None.
Proof.
  intros Hu Hm. destruct (Hu op Hm) as (H1 & H2 & H3).
  unfold user_app. destruct ts; [reflexivity|]. now rewrite H1, H2, H3.
Qed.

(* typing an application of a table operator: result kind + shape *)
Lemma table_app g (chk : rkind -> bool) (tbl : list str) op ts s :
  forallb (fun op => chk (result_kind op)) tbl = true ->
  ops_unbound g -> mem_str_l op tbl = true -> mem_str_l op oracle_ops = true ->
  type_app g op ts = Some s ->
  chk (result_kind op) = true /\ result_kind op <> RKUser /\ shape g (result_kind op) op ts s.
Proof.
  intros Hchk Hu Hm Ho Ht.
  pose proof (table_check (fun op => chk (result_kind op)) tbl op Hchk Hm) as Hk. cbv beta in Hk.
  apply type_app_shape in Ht. repeat split; auto.
  intro E. rewrite E in Ht. cbn [shape] in Ht. rewrite (user_app_none g op ts Hu Ho) in Ht. discriminate.
Qed.
