(* Shape of the results of the specification's operator typing (type_app,
   type_indexed), by operator, and the computational checks that relate the
   generated operator tables of the oracle to these shapes. *)
From DD Require Import Model.Smtlib Spec.Typing Proofs.Sort.DecRT Proofs.Sort.SortBase.
Local Open Scope list_scope.

Inductive rkind := RKBool | RKInt | RKReal | RKArith | RKFirst | RKSecond | RKBvcomp | RKConcat
                 | RKSelect | RKFp | RKOther | RKUser.

(* mirrors the operator tests of type_app, in the same order *)
Definition result_kind (op : str) : rkind :=
  if is op "not" then RKBool
  else if mem_s op ["and"; "or"; "xor"; "=>"] then RKBool
  else if mem_s op ["="; "distinct"] then RKBool
  else if is op "ite" then RKSecond
  else if mem_s op ["+"; "*"] then RKArith
  else if is op "-" then RKArith
  else if mem_s op ["div"; "mod"] then RKInt
  else if is op "abs" then RKInt
  else if is op "/" then RKReal
  else if is op "to_real" then RKReal
  else if is op "to_int" then RKInt
  else if is op "is_int" then RKBool
  else if mem_s op ["<"; "<="; ">"; ">="] then RKBool
  else if mem_s op ["bvnot"; "bvneg"] then RKFirst
  else if mem_s op ["bvand"; "bvor"; "bvxor"; "bvadd"; "bvmul"; "bvnand"; "bvnor"; "bvxnor"; "bvsub"; "bvudiv"; "bvurem";
                    "bvsdiv"; "bvsrem"; "bvsmod"; "bvshl"; "bvlshr"; "bvashr"] then RKFirst
  else if mem_s op ["bvult"; "bvule"; "bvugt"; "bvuge"; "bvslt"; "bvsle"; "bvsgt"; "bvsge"] then RKBool
  else if is op "bvcomp" then RKBvcomp
  else if is op "concat" then RKConcat
  else if is op "select" then RKSelect
  else if is op "store" then RKFirst
  else if is op "str.++" then RKOther
  else if is op "str.len" then RKInt
  else if mem_s op ["str.contains"; "str.prefixof"; "str.suffixof"; "str.<"; "str.<="] then RKBool
  else if mem_s op ["str.replace"; "str.replace_all"] then RKOther
  else if is op "str.at" then RKOther
  else if is op "str.substr" then RKOther
  else if is op "str.indexof" then RKInt
  else if is op "fp" then RKFp
  else if mem_s op ["fp.add"; "fp.sub"; "fp.mul"; "fp.div"] then RKSecond
  else if mem_s op ["fp.neg"; "fp.abs"] then RKFirst
  else if mem_s op ["fp.min"; "fp.max"; "fp.rem"] then RKFirst
  else if mem_s op ["fp.lt"; "fp.leq"; "fp.gt"; "fp.geq"; "fp.eq"] then RKBool
  else if mem_s op ["fp.isNaN"; "fp.isZero"; "fp.isInfinite"; "fp.isNormal"; "fp.isSubnormal"; "fp.isNegative"; "fp.isPositive"] then RKBool
  else RKUser.

(* the user-level part of type_app: constructors, selectors, declared functions *)
Definition user_app (g : env) (op : str) (ts : list sexp) : option sexp :=
  match ts with
  | [] => None
  | t1 :: _ =>
    match find_cons (e_dts g) op with
    | Some (d, sels) =>
        if Nat.eqb (length ts) (length sels) && forallb (fun p => sexp_eqb (fst p) (snd (snd p))) (combine ts sels) then Some d else None
    | None =>
        match find_sel (e_dts g) op with
        | Some (d, so) => (if Nat.eqb (length ts) 1 && sexp_eqb t1 d then Some so else None)
        | None =>
            match assoc op (e_funs g) with
            | Some (args, r) =>
                if Nat.eqb (length ts) (length args) && forallb (fun p => sexp_eqb (fst p) (snd p)) (combine ts args) then Some r else None
            | None => None
            end
        end
    end
  end.

Definition shape (g : env) (k : rkind) (op : str) (ts : list sexp) (s : sexp) : Prop :=
  match k with
  | RKBool => s = sBool
  | RKInt => s = sInt
  | RKReal => s = sReal
  | RKArith => exists t1 rest, ts = t1 :: rest /\ s = t1 /\ all_eq t1 ts = true /\ is_arith t1 = true
  | RKFirst => exists t1 rest, ts = t1 :: rest /\ s = t1
  | RKSecond => exists t1 t2 rest, ts = t1 :: t2 :: rest /\ s = t2
  | RKBvcomp => s = sBV 1
  | RKConcat => exists ws, opt_all (map Typing.bv_width ts) = Some ws /\ s = sBV (fold_right N.add 0%N ws)
  | RKSelect => exists a i e j, ts = [T [L a; i; e]; j] /\ s = e
  | RKFp => exists a b c e m, ts = [a; b; c] /\ Typing.bv_width b = Some e /\ Typing.bv_width c = Some m /\ s = sFP e (m + 1)
  | RKOther => True
  | RKUser => user_app g op ts = Some s
  end.

Ltac inv_branch H :=
  repeat match type of H with
         | match ?x with _ => _ end = Some _ => destruct x eqn:?; try discriminate H
         end;
  try (injection H as H).

Ltac split_andb :=
  repeat match goal with
         | E : andb _ _ = true |- _ => apply andb_true_iff in E; destruct E
         end.

Lemma type_app_shape g op ts s : type_app g op ts = Some s -> shape g (result_kind op) op ts s.
Proof.
  unfold type_app, result_kind. destruct ts as [| t1 rest]; [discriminate|].
  cbv beta iota zeta.
  repeat match goal with
         | |- (if ?c then _ else _) = Some _ -> shape _ (if ?c then _ else _) _ _ _ =>
             destruct c eqn:?;
             [ let H := fresh "H" in
               intro H; cbn [shape]; inv_branch H; split_andb; subst;
               solve [ reflexivity | exact Logic.I | repeat eexists; eauto ] | ]
         end.
  intro H. cbn [shape]. exact H.
Qed.

(* indexed operators *)
Ltac pick tac := first [ solve [tac] | solve [left; tac] | right; pick tac ].

Lemma type_indexed_shape op ix ts s :
  type_indexed op ix ts = Some s ->
  exists ks, opt_all (map dec_of ix) = Some ks /\
   ((mem_s op ["zero_extend"; "sign_extend"] = true /\
       exists k t w, ks = [k] /\ ts = [t] /\ Typing.bv_width t = Some w /\ s = sBV (w + k))
    \/ (is op "repeat" = true /\
       exists k t w, ks = [k] /\ ts = [t] /\ Typing.bv_width t = Some w /\ N.ltb 0 k = true /\ s = sBV (w * k))
    \/ (mem_s op ["rotate_left"; "rotate_right"] = true /\
       exists k t w, ks = [k] /\ ts = [t] /\ Typing.bv_width t = Some w /\ s = t)
    \/ (is op "divisible" = true /\ s = sBool)
    \/ (is op "extract" = true /\
       exists i j t w, ks = [i; j] /\ ts = [t] /\ Typing.bv_width t = Some w /\
                       N.leb j i = true /\ N.ltb i w = true /\ s = sBV (i - j + 1))
    \/ (is op "to_fp" = true /\ exists e m, ks = [e; m] /\ s = sFP e m)).
Proof.
  unfold type_indexed. intro H.
  destruct (opt_all (map dec_of ix)) as [ks|] eqn:Eks; [|discriminate].
  exists ks. split; [reflexivity|].
  inv_branch H; split_andb; subst;
    pick ltac:(split; [first [assumption | reflexivity]|]; repeat eexists; eauto).
Qed.
