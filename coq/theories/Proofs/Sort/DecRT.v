(* Decimal round trip: reading back the decimal rendering of a number. *)
From DD Require Import Base.Digits.
Local Open Scope list_scope.

Definition dstep (a : N) (c : char) : N := (a * 10 + digit_val c)%N.

Lemma dec_val_fold s : dec_val s = fold_left dstep s 0%N.
Proof. reflexivity. Qed.

Lemma to_dec_aux_val : forall (f : nat) (n : N) (acc : str),
  (n < 2 ^ N.of_nat f)%N ->
  fold_left dstep (to_dec_aux f n acc) 0%N = fold_left dstep acc n.
Proof.
  induction f as [|k IH]; intros n acc Hn.
  - cbn in Hn. assert (n = 0%N) as -> by lia. reflexivity.
  - cbn [to_dec_aux]. destruct (N.ltb n 10) eqn:E.
    + apply N.ltb_lt in E. cbn [fold_left]. unfold dstep at 2, digit_val.
      rewrite (N.mod_small n 10) by exact E.
      replace (0 * 10 + (48 + n - 48))%N with n by lia. reflexivity.
    + apply N.ltb_ge in E. rewrite IH.
      * cbn [fold_left].
        change (dstep (n / 10) (48 + n mod 10)%N) with (n / 10 * 10 + (48 + n mod 10 - 48))%N.
        pose proof (N.div_mod n 10 ltac:(lia)) as Hdm.
        pose proof (N.mod_lt n 10 ltac:(lia)) as Hm.
        assert (Hq : (n / 10 * 10 + (48 + n mod 10 - 48) = n)%N).
        { revert Hdm Hm. generalize (n / 10)%N (n mod 10)%N. intros q r Hdm Hm. lia. }
        rewrite Hq. reflexivity.
      * rewrite Nnat.Nat2N.inj_succ, N.pow_succ_r' in Hn.
        apply N.div_lt_upper_bound; [lia|].
        pose proof (N.pow_nonzero 2 (N.of_nat k) ltac:(lia)). lia.
Qed.

Lemma to_dec_aux_digits : forall (f : nat) (n : N) (acc : str),
  forallb is_digit acc = true -> forallb is_digit (to_dec_aux f n acc) = true.
Proof.
  induction f as [|k IH]; intros n acc Hacc; [exact Hacc|].
  cbn [to_dec_aux].
  assert (Hd : is_digit (48 + n mod 10)%N = true).
  { unfold is_digit. pose proof (N.mod_lt n 10 ltac:(lia)) as Hm.
    revert Hm. generalize (n mod 10)%N. intros r Hm.
    apply andb_true_iff; split; apply N.leb_le; lia. }
  destruct (N.ltb n 10).
  - cbn [forallb]. now rewrite Hd, Hacc.
  - apply IH. cbn [forallb]. now rewrite Hd, Hacc.
Qed.

Lemma to_dec_aux_nonempty : forall (f : nat) (n : N) (acc : str),
  acc <> [] -> to_dec_aux f n acc <> [].
Proof.
  induction f as [|k IH]; intros n acc Hacc; [exact Hacc|].
  cbn [to_dec_aux]. destruct (N.ltb n 10); [discriminate|]. apply IH. discriminate.
Qed.

Lemma to_dec_nonempty n : to_dec n <> [].
Proof.
  unfold to_dec. cbn [to_dec_aux]. destruct (N.ltb n 10); [discriminate|].
  apply to_dec_aux_nonempty. discriminate.
Qed.

Lemma all_digits_to_dec n : all_digits (to_dec n) = true.
Proof.
  unfold all_digits. pose proof (to_dec_nonempty n) as Hne.
  destruct (to_dec n) as [|c r] eqn:E; [congruence|].
  rewrite <- E. unfold to_dec. apply to_dec_aux_digits. reflexivity.
Qed.

Lemma log2_fuel n : (n < 2 ^ N.of_nat (S (N.to_nat (N.log2 n))))%N.
Proof.
  rewrite Nnat.Nat2N.inj_succ, Nnat.N2Nat.id.
  destruct (N.eq_dec n 0) as [-> | Hnz]; [reflexivity|].
  apply N.log2_spec. lia.
Qed.

Lemma dec_val_to_dec n : dec_val (to_dec n) = n.
Proof.
  rewrite dec_val_fold. unfold to_dec. rewrite to_dec_aux_val by apply log2_fuel. reflexivity.
Qed.

Theorem dec_of_to_dec n : dec_of (to_dec n) = Some n.
Proof. unfold dec_of. now rewrite all_digits_to_dec, dec_val_to_dec. Qed.
