(* The hypotheses that connect the oracle's tables (info) to a typing
   environment (env): every symbol has one meaning.  Also inversion lemmas for
   type_of and the typing of constant leaves. *)
From DD Require Import Model.Smtlib Spec.Typing Proofs.Sort.DecRT Proofs.Sort.SortBase Proofs.Sort.TypeApp.
Local Open Scope list_scope.

(* whatever the oracle recorded for a name is that name's sort where it is in scope *)
Definition lookup_agrees (I : info) (g : env) : Prop :=
  forall x s s', alookup x (sort_lookup I) = Some (Some s) -> type_of g (L x) = Some s' -> s = s'.

(* literals (true, false, numerals, decimals, bit-vector literals) are not
   (re)bound as variables or constructors *)
Definition const_name (x : str) : bool :=
  is_bool_const (L x) || is_bv_const (L x) || is_int_const (L x) || is_real_const (L x).
Definition consts_unbound (g : env) : Prop :=
  forall x, const_name x = true -> assoc x (e_vars g) = None /\ find_cons (e_dts g) x = None.

(* the operator names in the oracle's generated tables are not (re)declared by the script *)
Definition oracle_ops : list str :=
  bvw_same_ops ++ sort_bool_ops ++ sort_int_ops ++ sort_real_ops ++ sort_arith_ops ++ sort_fp1_ops ++ sort_fp2_ops.
Definition ops_unbound (g : env) : Prop :=
  forall op, mem_str_l op oracle_ops = true ->
    find_cons (e_dts g) op = None /\ find_sel (e_dts g) op = None /\ assoc op (e_funs g) = None.

(* recorded bit-vector sorts are written with canonical numerals *)
Definition sorts_canon (I : info) : Prop :=
  forall x s n, alookup x (sort_lookup I) = Some (Some s) -> Typing.bv_width s = Some n -> s = sBV n.

(* reserved words heading a term that is not an operator application *)
Definition kw (h : str) : bool := mem_s h ["_"; "let"; "forall"; "exists"; "!"].

(* a recorded constructor is not a reserved word, and every well-sorted application of it has the recorded datatype *)
Definition cons_agree (I : info) (g : env) : Prop :=
  forall c d, alookup c (dt_constructors I) = Some d ->
    kw c = false /\ forall ts s', type_app g c ts = Some s' -> s' = d.

(* ---------- type_of inversion ---------- *)

Lemma type_of_app_inv g h args s :
  type_of g (T (L h :: args)) = Some s ->
  kw h = true \/
  (kw h = false /\ exists ts, opt_all (map (type_of g) args) = Some ts /\ type_app g h ts = Some s).
Proof.
  cbn [type_of]. unfold kw. cbn [mem_s].
  destruct (is h "_"); [now left|].
  destruct (is h "let"); [now left|].
  destruct (is h "forall"); [now left|].
  destruct (is h "exists"); [now left|].
  destruct (is h "!"); [now left|].
  cbn [orb]. intro H. right. split; [reflexivity|].
  destruct (opt_all (map (type_of g) args)) as [ts|]; [|discriminate].
  now exists ts.
Qed.

Lemma starts_bv c1 c2 digs : N.eqb c1 c_b = true -> N.eqb c2 c_v = true -> starts "bv" (c1 :: c2 :: digs) = true.
Proof. intros H1 H2. apply N.eqb_eq in H1, H2. subst. reflexivity. Qed.

Lemma type_of_underscore g h args s :
  type_of g (T (L h :: args)) = Some s -> is h "_" = true ->
  exists b w n, args = [L b; L w] /\ starts "bv" b = true /\ dec_of w = Some n /\ s = sBV n.
Proof.
  cbn [type_of]. intros H Hh. rewrite Hh in H.
  destruct args as [| [b | ?] [| [w | ?] [| ? ?]]]; try discriminate.
  destruct b as [| c1 [| c2 digs]]; try discriminate.
  destruct (N.eqb c1 c_b && N.eqb c2 c_v && all_digits digs) eqn:E; [|discriminate].
  apply andb_true_iff in E as [E E3]. apply andb_true_iff in E as [E1 E2].
  destruct (dec_of w) as [n|] eqn:Ew; [|discriminate].
  destruct (N.ltb 0 n && N.ltb (dec_val digs) (2 ^ n)); [|discriminate].
  injection H as <-. exists (c1 :: c2 :: digs), w, n. repeat split; auto using starts_bv.
Qed.

Lemma type_of_idx_inv g hl args s :
  type_of g (T (T hl :: args)) = Some s ->
  exists op idx ix ts, hl = L (lit "_") :: L op :: idx /\
    opt_all (map (fun i => match i with L s => Some s | T _ => None end) idx) = Some ix /\
    opt_all (map (type_of g) args) = Some ts /\ type_indexed op ix ts = Some s.
Proof.
  cbn [type_of]. intro H.
  destruct hl as [| [u | ?] [| [op | ?] idx]]; try discriminate.
  destruct (is u "_") eqn:Eu; [|discriminate]. apply is_true in Eu. subst u.
  destruct (opt_all (map (fun i => match i with L s => Some s | T _ => None end) idx)) as [ix|] eqn:E1; [|discriminate].
  destruct (opt_all (map (type_of g) args)) as [ts|] eqn:E2; [|discriminate].
  now exists op, idx, ix, ts.
Qed.

(* ---------- constant leaves ---------- *)

Lemma is_lit_digits x k : is x k = true -> all_digits (lit k) = false -> all_digits x = false.
Proof. intros H Hk. apply is_true in H. now subst. Qed.

Section Leaves.
  Variable g : env.
  Hypothesis Hcu : consts_unbound g.

  Lemma leaf_bool x s : is_bool_const (L x) = true -> type_of g (L x) = Some s -> s = sBool.
  Proof.
    intros Hc Ht. destruct (Hcu x) as [Hv _]. { unfold const_name. now rewrite Hc. }
    cbn [type_of] in Ht. rewrite Hv in Ht. unfold leaf_const_sort in Ht.
    cbn [is_bool_const] in Hc. rewrite orb_comm in Hc. change (is x "true" || is x "false" = true) in Hc.
    rewrite Hc in Ht. now injection Ht.
  Qed.

  Lemma leaf_int x s : all_digits x = true -> type_of g (L x) = Some s -> s = sInt.
  Proof.
    intros Hc Ht. destruct (Hcu x) as [Hv _]. { unfold const_name. cbn [is_int_const]. rewrite Hc. now rewrite !orb_true_r. }
    cbn [type_of] in Ht. rewrite Hv in Ht. unfold leaf_const_sort in Ht.
    destruct (is x "true") eqn:E1.
    { apply is_lit_digits in E1; [congruence | reflexivity]. }
    destruct (is x "false") eqn:E2.
    { apply is_lit_digits in E2; [congruence | reflexivity]. }
    cbn [orb] in Ht. rewrite Hc in Ht. now injection Ht.
  Qed.

  (* bit-vector literals: the width the oracle computes *)
  Lemma leaf_bv I x s w :
    is_bv_const (L x) = true -> type_of g (L x) = Some s -> Smtlib.bv_width I (L x) = Some w ->
    s = sBV (Z.to_N w) /\ (0 <= w)%Z.
  Proof.
    intros Hc Ht Hw. destruct (Hcu x) as [Hv Hk]. { unfold const_name. rewrite Hc. now rewrite orb_true_r. }
    cbn [type_of] in Ht. rewrite Hv in Ht.
    cbn [Smtlib.bv_width] in Hw. rewrite Hc in Hw.
    destruct x as [| c [| d tl]]; try discriminate.
    cbn [is_bv_const] in Hc.
    assert (Hhash : c = cHASH).
    { apply orb_true_iff in Hc as [Hc | Hc]; apply andb_true_iff in Hc as [Hc _];
        apply andb_true_iff in Hc as [Hc _]; now apply N.eqb_eq in Hc. }
    subst c.
    unfold leaf_const_sort in Ht.
    change (is (cHASH :: d :: tl) "true") with false in Ht.
    change (is (cHASH :: d :: tl) "false") with false in Ht.
    change (all_digits (cHASH :: d :: tl)) with false in Ht.
    cbn [orb] in Ht. change (N.eqb cHASH cHASH) with true in *. cbn [andb] in Ht, Hc.
    destruct (N.eqb d c_b) eqn:Edb.
    - cbn [andb orb] in Hc.
      assert (Hx : N.eqb d c_x = false). { apply N.eqb_eq in Edb. subst d. reflexivity. }
      rewrite Hx in Hc. cbn [andb] in Hc. rewrite orb_false_r in Hc. rewrite Hc in Ht.
      injection Hw as <-.
      destruct tl as [| t0 tl'].
      { apply N.eqb_eq in Edb. subst d. cbv iota in Ht.
        change (is_decimal [cHASH; c_b]) with false in Ht.
        change (mem_s [cHASH; c_b] ["RNE"; "RNA"; "RTP"; "RTN"; "RTZ"]) with false in Ht.
        cbv iota in Ht. rewrite Hk in Ht. discriminate. }
      set (len := Datatypes.length (t0 :: tl')) in *. clearbody len.
      injection Ht as <-.
      split; [|lia]. f_equal. lia.
    - cbn [andb orb] in Hc. destruct (N.eqb d c_x) eqn:Edx; [|discriminate]. cbn [andb] in Hc.
      rewrite Hc in Ht. injection Hw as <-.
      destruct tl as [| t0 tl'].
      { apply N.eqb_eq in Edx. subst d. cbv iota in Ht.
        change (is_decimal [cHASH; c_x]) with false in Ht.
        change (mem_s [cHASH; c_x] ["RNE"; "RNA"; "RTP"; "RTN"; "RTZ"]) with false in Ht.
        cbv iota in Ht. rewrite Hk in Ht. discriminate. }
      set (len := Datatypes.length (t0 :: tl')) in *. clearbody len.
      cbv iota in Ht. assert (Hs : s = sBV (4 * N.of_nat len)) by congruence.
      split; [|lia]. rewrite Hs. f_equal. lia.
  Qed.

  Lemma digit_not c k : is_digit c = true -> (k < 48 \/ 57 < k)%N -> N.eqb c k = false.
  Proof.
    unfold is_digit. intros H Hk. apply andb_true_iff in H as [H1 H2].
    apply N.leb_le in H1, H2. apply N.eqb_neq. lia.
  Qed.

  Lemma leaf_real x s :
    real_lit x = true -> all_digits x = false -> type_of g (L x) = Some s -> s = sReal.
  Proof.
    intros Hc Hnd Ht. destruct (Hcu x) as [Hv Hk]. { unfold const_name. cbn [is_real_const]. rewrite Hc. now rewrite !orb_true_r. }
    cbn [type_of] in Ht. rewrite Hv, Hk in Ht.
    destruct x as [| c r]; [discriminate|]. cbn [real_lit] in Hc.
    apply andb_true_iff in Hc as [Hd Hr].
    assert (Hn : forall k, (k < 48 \/ 57 < k)%N -> N.eqb c k = false) by (intros k Hk'; now apply digit_not).
    assert (Hlit : forall k r', str_eqb (c :: r) (k :: r') = N.eqb c k && str_eqb r r') by reflexivity.
    unfold leaf_const_sort in Ht. rewrite Hnd in Ht.
    unfold is in Ht.
    change (lit "true") with (116%N :: lit "rue") in Ht.
    change (lit "false") with (102%N :: lit "alse") in Ht.
    rewrite !Hlit in Ht. rewrite (Hn 116%N), (Hn 102%N) in Ht by lia. cbn [andb orb] in Ht.
    destruct r as [| d tl].
    { cbn in Hnd. rewrite Hd in Hnd. discriminate. }
    unfold cHASH, cDQ in Ht. rewrite (Hn 35%N), (Hn 34%N) in Ht by lia. cbn [andb] in Ht.
    destruct (is_decimal (c :: d :: tl)); [now injection Ht|].
    cbn [mem_s] in Ht. unfold is in Ht.
    change (lit "RNE") with (82%N :: lit "NE") in Ht.
    change (lit "RNA") with (82%N :: lit "NA") in Ht.
    change (lit "RTP") with (82%N :: lit "TP") in Ht.
    change (lit "RTN") with (82%N :: lit "TN") in Ht.
    change (lit "RTZ") with (82%N :: lit "TZ") in Ht.
    rewrite !Hlit in Ht. rewrite (Hn 82%N) in Ht by lia. cbn [andb orb] in Ht. discriminate.
  Qed.
End Leaves.
