(* Basic facts used by the sort-oracle soundness proofs: decidable equalities,
   association lists, opt_all, literals. *)
From DD Require Import Model.Smtlib Spec.Typing Proofs.Sort.DecRT.
Local Open Scope list_scope.

Lemma sexp_eqb_true : forall a b, sexp_eqb a b = true -> a = b.
Proof.
  induction a as [s | l IH] using sexp_ind'; intros [t | m] H; cbn in H; try discriminate.
  - apply str_eqb_eq in H. now subst.
  - f_equal. revert m H.
    induction IH as [| x l Hx _ IHl]; intros [| y m] H; try discriminate; auto.
    apply andb_true_iff in H as [H1 H2]. f_equal; auto.
Qed.

Lemma sexp_eqb_refl : forall a, sexp_eqb a a = true.
Proof.
  induction a as [s | l IH] using sexp_ind'; cbn.
  - apply str_eqb_refl.
  - induction IH as [| x l Hx _ IHl]; auto. now rewrite Hx, IHl.
Qed.

Lemma iss_true s x : iss s x = true -> s = lit x.
Proof. unfold iss. apply str_eqb_eq. Qed.
Lemma is_true s x : is s x = true -> s = lit x.
Proof. unfold is. apply str_eqb_eq. Qed.
Lemma is_iss s x : is s x = iss s x.
Proof. reflexivity. Qed.

Lemma mem_s_true s l : mem_s s l = true -> exists x, In x l /\ s = lit x.
Proof.
  induction l as [| y l IH]; cbn [mem_s]; intro H; [discriminate|].
  apply orb_true_iff in H as [H | H].
  - exists y. split; [now left | now apply is_true].
  - destruct (IH H) as (x & Hin & Hx). exists x. split; [now right | exact Hx].
Qed.

Lemma mem_str_l_true s l : mem_str_l s l = true -> In s l.
Proof.
  unfold mem_str_l. intro H. apply existsb_exists in H as (x & Hin & Hx).
  apply str_eqb_eq in Hx. now subst.
Qed.

(* lifting a boolean check over a generated table to its members *)
Lemma table_check (P : str -> bool) (l : list str) s :
  forallb P l = true -> mem_str_l s l = true -> P s = true.
Proof. intros Hall Hm. apply mem_str_l_true in Hm. rewrite forallb_forall in Hall. now apply Hall. Qed.

Lemma opt_all_cons {A} (x : option A) (l : list (option A)) r :
  opt_all (x :: l) = Some r -> exists a r', x = Some a /\ opt_all l = Some r' /\ r = a :: r'.
Proof.
  unfold opt_all. cbn [fold_right]. intro H.
  destruct x as [a|]; [|discriminate].
  destruct (fold_right _ _ l) as [r'|]; [|discriminate].
  injection H as <-. now exists a, r'.
Qed.

Lemma opt_all_nil {A} : @opt_all A [] = Some [].
Proof. reflexivity. Qed.

Lemma opt_all_length {A} (l : list (option A)) r : opt_all l = Some r -> length r = length l.
Proof.
  revert r. induction l as [| x l IH]; intros r H.
  - injection H as <-. reflexivity.
  - apply opt_all_cons in H as (a & r' & _ & H2 & ->). cbn. f_equal. now apply IH.
Qed.

(* the sorts of the specification read back *)
Lemma tbv_width_sBV n : Typing.bv_width (sBV n) = Some n.
Proof. unfold Typing.bv_width, sBV. cbn. apply dec_of_to_dec. Qed.

Lemma mk_bv_nonneg w : (0 <= w)%Z -> mk_bv w = sBV (Z.to_N w).
Proof.
  intro H. unfold mk_bv, sBV. destruct (Z.ltb w 0) eqn:E; [apply Z.ltb_lt in E; lia | reflexivity].
Qed.

Lemma int_of_inv x z : int_of x = Some z -> exists s n, x = L s /\ dec_of s = Some n /\ z = Z.of_N n.
Proof.
  destruct x as [s | l]; cbn; [|discriminate]. destruct (dec_of s) as [n|] eqn:E; [|discriminate].
  intro H. injection H as <-. now exists s, n.
Qed.

Lemma opt_all_map_single {A B} (f : A -> option B) (l : list A) t :
  opt_all (map f l) = Some [t] -> exists a, l = [a] /\ f a = Some t.
Proof.
  intro H. pose proof (opt_all_length _ _ H) as Hl. rewrite map_length in Hl.
  destruct l as [| a [| ? ?]]; try discriminate.
  exists a. split; [reflexivity|]. cbn [map] in H.
  apply opt_all_cons in H as (t' & r' & Ha & _ & E). now injection E as <-.
Qed.
