(* Concrete instances: the hypotheses of the soundness theorems are satisfiable
   (checked on a script by evaluation), sample answers of the oracle, and the
   inputs that show why each hypothesis is needed. *)
From DD Require Import Model.Smtlib Spec.Typing Proofs.Sort.DecRT Proofs.Sort.SortBase Proofs.Sort.TypeApp
  Proofs.Sort.SortHyps Proofs.Sort.TableChecks Proofs.Sort.Width Proofs.Sort.SortSound Proofs.Sort.Corollaries
  Proofs.Sort.Decls Proofs.Sort.Subterms.
Local Open Scope list_scope.

Definition l (s : string) : sexp := L (lit s).

Definition ex_cmds : list sexp := [
  T [l "set-logic"; l "ALL"];
  T [l "declare-const"; l "x"; sBV 8];
  T [l "declare-const"; l "v"; sBV 4];
  T [l "declare-const"; l "r"; sReal];
  T [l "declare-const"; l "n"; sInt];
  T [l "declare-const"; l "a"; sArray sInt sBool];
  T [l "declare-fun"; l "i"; T []; sInt];
  T [l "declare-fun"; l "f"; T [sInt]; sBV 3];
  T [l "define-fun"; l "h"; T [T [l "p"; sInt]]; sInt; l "p"];
  T [l "declare-datatype"; l "D"; T [T [l "mk"; T [l "sel"; sInt]]; T [l "nil"]]];
  T [l "assert"; T [l "="; l "n"; l "i"]]
].
Definition ex_I : info := collect_decls ex_cmds.
Definition ex_g : env := decl_env ex_cmds.

Example ex_script_ok : script_ok ex_cmds = true.
Proof. vm_compute. reflexivity. Qed.

Example ex_hyps :
  lookup_agrees ex_I ex_g /\ consts_unbound ex_g /\ ops_unbound ex_g /\ sorts_canon ex_I /\ cons_agree ex_I ex_g.
Proof. exact (collect_decls_agrees_proof ex_cmds ex_script_ok). Qed.

(* oracle width, oracle sort, actual sort *)
Definition both (e : sexp) := (Smtlib.get_bv_width ex_I e, Smtlib.get_sort ex_I false e, type_of ex_g e).

Example ex_concat_unknown : both (T [l "concat"; T [l "f"; l "i"]; l "v"]) = ((-1)%Z, None, Some (sBV 7)).
Proof. vm_compute. reflexivity. Qed.
Example ex_concat : both (T [l "concat"; l "x"; l "v"]) = (12%Z, Some (sBV 12), Some (sBV 12)).
Proof. vm_compute. reflexivity. Qed.
Example ex_extract : both (T [T [l "_"; l "extract"; l "5"; l "2"]; l "x"]) = (4%Z, Some (sBV 4), Some (sBV 4)).
Proof. vm_compute. reflexivity. Qed.
Example ex_select : both (T [l "select"; l "a"; l "i"]) = ((-1)%Z, Some sBool, Some sBool).
Proof. vm_compute. reflexivity. Qed.
Example ex_plus : both (T [l "+"; l "r"; l "1.5"]) = ((-1)%Z, Some sReal, Some sReal).
Proof. vm_compute. reflexivity. Qed.
Example ex_zext : both (T [T [l "_"; l "zero_extend"; l "3"]; l "#b01"]) = (5%Z, Some (sBV 5), Some (sBV 5)).
Proof. vm_compute. reflexivity. Qed.
Example ex_cons : both (T [l "mk"; l "n"]) = ((-1)%Z, Some (l "D"), Some (l "D")).
Proof. vm_compute. reflexivity. Qed.
Example ex_fp : both (T [l "fp"; l "#b0"; l "x"; l "v"]) = ((-1)%Z, Some (sFP 8 5), Some (sFP 8 5)).
Proof. vm_compute. reflexivity. Qed.
Example ex_let : both (T [l "let"; T [T [l "y"; l "x"]]; l "y"]) = ((-1)%Z, None, Some (sBV 8)).
Proof. vm_compute. reflexivity. Qed.

(* F69: a list with a comment among its children has no sort, at the top and below an operator
   whose sort is the sort of an operand *)
Theorem comment_operand_has_no_sort_proof : forall I idx e,
  has_comment_operand e = true -> Smtlib.get_sort I idx e = None.
Proof. intros I idx e H. unfold Smtlib.get_sort. now rewrite H. Qed.

Definition ite_I : info := mk_info [(lit "p", Some sBool); (lit "b", Some sInt); (lit "c", Some sInt)] [].
Example ex_ite_comment :
  Smtlib.get_sort ite_I false (T [l "ite"; l "; c"; l "p"; l "b"; l "c"]) = None /\
  Smtlib.get_sort ite_I false (T [l "ite"; l "p"; l "b"; l "c"]) = Some sInt /\
  Smtlib.get_sort ite_I false (T [l "ite"; l "p"; T [l "ite"; l "; c"; l "p"; l "b"; l "c"]; l "c"]) = None /\
  Smtlib.get_sort ite_I false (T [l "ite"; l "p"; T [l "ite"; l "p"; l "b"; l "c"]; l "c"]) = Some sInt.
Proof. vm_compute. repeat split. Qed.

(* an instance of the subterm theorem: the bound variable below a quantifier *)
Definition ex_q : sexp := T [l "forall"; T [T [l "y"; sInt]]; T [l "="; l "y"; l "n"]].
Example ex_reach : reach ex_I ex_g ex_q (bind_vars ex_g [(lit "y", sInt)]) (l "y").
Proof.
  apply r_quant with (bound := [(lit "y", sInt)]); [reflexivity | reflexivity | |].
  - intros x s [H | []]. injection H as <- <-. split; reflexivity.
  - apply r_app with (a := l "y"); [reflexivity | now left | apply r_refl].
Qed.

(* ---------- why the hypotheses are needed ---------- *)

(* 1. a quantifier re-binds a declared symbol with another sort: the table is
      global, the oracle answers the declared sort for the bound occurrence *)
Definition shadow_g : env := bind_vars ex_g [(lit "x", sInt)].
Example ex_shadow :
  type_of ex_g (T [l "forall"; T [T [l "x"; sInt]]; T [l "="; l "x"; l "n"]]) = Some sBool /\
  type_of shadow_g (l "x") = Some sInt /\ Smtlib.get_sort ex_I false (l "x") = Some (sBV 8) /\
  Smtlib.get_bv_width ex_I (l "x") = 8%Z.
Proof. vm_compute. repeat split. Qed.

(* 2. the script declares a function whose name is in one of the oracle's
      operator tables but is no operator of the theories of the specification *)
Definition member_cmds : list sexp := [T [l "declare-fun"; l "member"; T [sInt]; sInt]].
Example ex_member :
  type_of (decl_env member_cmds) (T [l "member"; l "1"]) = Some sInt /\
  Smtlib.get_sort (collect_decls member_cmds) false (T [l "member"; l "1"]) = Some sBool /\
  script_ok member_cmds = false.
Proof. vm_compute. repeat split. Qed.

(* 3. a bit-vector sort written with a non-canonical numeral *)
Definition canon_cmds : list sexp := [T [l "declare-const"; l "y"; T [l "_"; l "BitVec"; l "08"]]].
Example ex_noncanon :
  type_of (decl_env canon_cmds) (T [l "bvnot"; l "y"]) = Some (T [l "_"; l "BitVec"; l "08"]) /\
  Smtlib.get_sort (collect_decls canon_cmds) false (T [l "bvnot"; l "y"]) = Some (sBV 8) /\
  Smtlib.get_bv_width (collect_decls canon_cmds) (T [l "bvnot"; l "y"]) = 8%Z /\
  script_ok canon_cmds = false.
Proof. vm_compute. repeat split. Qed.
