(* Subterms: the oracle is sound for every subterm of a well-sorted term, in
   the typing environment of that subterm, provided the binders on the way
   agree with the oracle's (global) table: every symbol has one meaning. *)
From DD Require Import Model.Smtlib Spec.Typing Proofs.Sort.DecRT Proofs.Sort.SortBase Proofs.Sort.TypeApp
  Proofs.Sort.SortHyps Proofs.Sort.TableChecks Proofs.Sort.Width Proofs.Sort.SortSound Proofs.Sort.Corollaries.
Local Open Scope list_scope.

(* the symbols bound by one let / quantifier: none is a literal, and the table
   records for it nothing, unknown, or the sort it is bound with *)
Definition binders_ok (I : info) (bound : list (str * sexp)) : Prop :=
  forall x s, In (x, s) bound ->
    const_name x = false /\
    match alookup x (sort_lookup I) with Some (Some so) => so = s | _ => True end.

Definition let_bind (g : env) (b : sexp) : option (str * sexp) :=
  match b with
  | T [L x; t] => match type_of g t with Some so => Some (x, so) | None => None end
  | _ => None
  end.
Definition q_bind (b : sexp) : option (str * sexp) :=
  match b with T [L x; so] => Some (x, so) | _ => None end.

(* [reach I g e g' e']: e' is a subterm of e; when e is typed in g, e' is typed in g' *)
Inductive reach (I : info) : env -> sexp -> env -> sexp -> Prop :=
| r_refl g e : reach I g e g e
| r_app g h args a g' e' :
    kw h = false -> In a args -> reach I g a g' e' -> reach I g (T (L h :: args)) g' e'
| r_idx g hl args a g' e' :
    In a args -> reach I g a g' e' -> reach I g (T (T hl :: args)) g' e'
| r_bang g h t rest g' e' :
    is h "!" = true -> reach I g t g' e' -> reach I g (T (L h :: t :: rest)) g' e'
| r_let_bind g h bs body x t g' e' :
    is h "let" = true -> In (T [L x; t]) bs -> reach I g t g' e' -> reach I g (T [L h; T bs; body]) g' e'
| r_let_body g h bs body bound g' e' :
    is h "let" = true -> opt_all (map (let_bind g) bs) = Some bound -> binders_ok I bound ->
    reach I (bind_vars g bound) body g' e' -> reach I g (T [L h; T bs; body]) g' e'
| r_quant g h vs body bound g' e' :
    is h "forall" || is h "exists" = true -> opt_all (map q_bind vs) = Some bound -> binders_ok I bound ->
    reach I (bind_vars g bound) body g' e' -> reach I g (T [L h; T vs; body]) g' e'.

(* ---------- the hypotheses are preserved by agreeing binders ---------- *)

Lemma assoc_app {A} k (l1 l2 : list (str * A)) :
  assoc k (l1 ++ l2) = match assoc k l1 with Some v => Some v | None => assoc k l2 end.
Proof.
  induction l1 as [| [x v] l1 IH]; [reflexivity|]. cbn [app assoc]. destruct (str_eqb x k); [reflexivity | exact IH].
Qed.

Lemma assoc_in {A} k (l : list (str * A)) v : assoc k l = Some v -> In (k, v) l.
Proof.
  induction l as [| [x w] l IH]; [discriminate|]. cbn [assoc]. destruct (str_eqb x k) eqn:E.
  - intro H. injection H as <-. apply str_eqb_eq in E. subst. now left.
  - intro H. right. now apply IH.
Qed.

Lemma type_app_bind g bound op ts : type_app (bind_vars g bound) op ts = type_app g op ts.
Proof. reflexivity. Qed.

Section Bind.
  Variable I : info.
  Variable g : env.
  Variable bound : list (str * sexp).
  Hypothesis Hb : binders_ok I bound.

  Lemma lookup_agrees_bind : lookup_agrees I g -> lookup_agrees I (bind_vars g bound).
  Proof.
    intros Hla y so s' Hl Ht. cbn [type_of bind_vars e_vars e_dts] in Ht. rewrite assoc_app in Ht.
    destruct (assoc y bound) as [v|] eqn:Ea.
    - injection Ht as <-. apply assoc_in in Ea. destruct (Hb y v Ea) as [_ H]. now rewrite Hl in H.
    - eapply Hla; [exact Hl|]. cbn [type_of]. exact Ht.
  Qed.

  Lemma consts_unbound_bind : consts_unbound g -> consts_unbound (bind_vars g bound).
  Proof.
    intros Hcu y Hy. destruct (Hcu y Hy) as [H1 H2]. split; [|exact H2].
    cbn [bind_vars e_vars]. rewrite assoc_app. destruct (assoc y bound) as [v|] eqn:Ea; [|exact H1].
    apply assoc_in in Ea. destruct (Hb y v Ea) as [H _]. congruence.
  Qed.

  Lemma ops_unbound_bind : ops_unbound g -> ops_unbound (bind_vars g bound).
  Proof. intros H op Hop. exact (H op Hop). Qed.

  Lemma cons_agree_bind : cons_agree I g -> cons_agree I (bind_vars g bound).
  Proof.
    intros H c d Hc. destruct (H c d Hc) as [Hk Hd]. split; [exact Hk|].
    intros ts s' Ht. rewrite type_app_bind in Ht. exact (Hd ts s' Ht).
  Qed.
End Bind.

Definition hyps (I : info) (g : env) : Prop :=
  lookup_agrees I g /\ consts_unbound g /\ ops_unbound g /\ cons_agree I g.

Lemma hyps_bind I g bound : binders_ok I bound -> hyps I g -> hyps I (bind_vars g bound).
Proof.
  intros Hb (H1 & H2 & H3 & H4).
  split; [exact (lookup_agrees_bind I g bound Hb H1)|].
  split; [exact (consts_unbound_bind I g bound Hb H2)|].
  split; [exact (ops_unbound_bind g bound H3) | exact (cons_agree_bind I g bound H4)].
Qed.

Lemma reach_hyps I g e g' e' : reach I g e g' e' -> hyps I g -> hyps I g'.
Proof.
  induction 1 as [ g e | g h args a g' e' Hk Hin Hr IH | g hl args a g' e' Hin Hr IH
                 | g h t rest g' e' Hh Hr IH | g h bs body x t g' e' Hh Hin Hr IH
                 | g h bs body bound g' e' Hh Hbd Hok Hr IH | g h vs body bound g' e' Hh Hbd Hok Hr IH ];
    intro Hg.
  - exact Hg.
  - exact (IH Hg).
  - exact (IH Hg).
  - exact (IH Hg).
  - exact (IH Hg).
  - exact (IH (hyps_bind I g bound Hok Hg)).
  - exact (IH (hyps_bind I g bound Hok Hg)).
Qed.

(* ---------- subterms of a well-sorted term are well-sorted ---------- *)

Lemma type_of_let g h bs body s :
  is h "let" = true -> type_of g (T [L h; T bs; body]) = Some s ->
  exists bound, opt_all (map (let_bind g) bs) = Some bound /\ type_of (bind_vars g bound) body = Some s.
Proof.
  intros Hh Ht. apply is_true in Hh. subst h. cbn [type_of] in Ht.
  change (is (lit "let") "_") with false in Ht. change (is (lit "let") "let") with true in Ht. cbv iota in Ht.
  fold (let_bind g) in Ht.
  destruct (opt_all (map (let_bind g) bs)) as [bound|]; [|discriminate]. now exists bound.
Qed.

Lemma type_of_quant g h vs body s :
  is h "forall" || is h "exists" = true -> type_of g (T [L h; T vs; body]) = Some s ->
  exists bound so, opt_all (map q_bind vs) = Some bound /\ type_of (bind_vars g bound) body = Some so.
Proof.
  intros Hh Ht. cbn [type_of] in Ht.
  assert (E1 : is h "_" = false).
  { apply orb_true_iff in Hh as [Hh | Hh]; apply is_true in Hh; subst h; reflexivity. }
  assert (E2 : is h "let" = false).
  { apply orb_true_iff in Hh as [Hh | Hh]; apply is_true in Hh; subst h; reflexivity. }
  rewrite E1, E2, Hh in Ht. fold q_bind in Ht.
  destruct (opt_all (map q_bind vs)) as [bound|]; [|discriminate].
  destruct (type_of (bind_vars g bound) body) as [so|] eqn:E; [|discriminate].
  now exists bound, so.
Qed.

Lemma type_of_bang g h t rest s :
  is h "!" = true -> type_of g (T (L h :: t :: rest)) = Some s -> type_of g t = Some s.
Proof.
  intros Hh Ht. apply is_true in Hh. subst h. cbn [type_of] in Ht.
  change (is (lit "!") "_") with false in Ht. change (is (lit "!") "let") with false in Ht.
  change (is (lit "!") "forall") with false in Ht. change (is (lit "!") "exists") with false in Ht.
  change (is (lit "!") "!") with true in Ht. exact Ht.
Qed.

Lemma reach_typed I g e g' e' :
  reach I g e g' e' -> forall s, type_of g e = Some s -> exists s', type_of g' e' = Some s'.
Proof.
  induction 1 as [ g e | g h args a g' e' Hk Hin Hr IH | g hl args a g' e' Hin Hr IH
                 | g h t rest g' e' Hh Hr IH | g h bs body x t g' e' Hh Hin Hr IH
                 | g h bs body bound g' e' Hh Hbd Hok Hr IH | g h vs body bound g' e' Hh Hbd Hok Hr IH ];
    intros s Ht.
  - now exists s.
  - destruct (type_of_app_inv g h args s Ht) as [Hk' | (_ & ts & Hts & _)]; [congruence|].
    destruct (opt_all_map_in _ _ _ a Hts Hin) as (t & Hta & _). exact (IH t Hta).
  - destruct (type_of_idx_inv g hl args s Ht) as (op & idx & ix & ts & _ & _ & Hts & _).
    destruct (opt_all_map_in _ _ _ a Hts Hin) as (t & Hta & _). exact (IH t Hta).
  - exact (IH s (type_of_bang g h t rest s Hh Ht)).
  - destruct (type_of_let g h bs body s Hh Ht) as (bound & Hb & _).
    destruct (opt_all_map_in _ _ _ _ Hb Hin) as ([y so] & Hlb & _).
    cbn [let_bind] in Hlb. destruct (type_of g t) as [st|] eqn:E; [|discriminate]. exact (IH st eq_refl).
  - destruct (type_of_let g h bs body s Hh Ht) as (bound' & Hb & Hbody).
    assert (bound' = bound) as -> by congruence. exact (IH s Hbody).
  - destruct (type_of_quant g h vs body s Hh Ht) as (bound' & so & Hb & Hbody).
    assert (bound' = bound) as -> by congruence. exact (IH so Hbody).
Qed.

(* ---------- the property ---------- *)

Theorem subterm_sound_proof : forall I g e s g' e',
  lookup_agrees I g -> consts_unbound g -> ops_unbound g -> sorts_canon I -> cons_agree I g ->
  type_of g e = Some s -> reach I g e g' e' ->
  exists s', type_of g' e' = Some s' /\
    (forall idx, Smtlib.get_sort I idx e' = None \/ Smtlib.get_sort I idx e' = Some s') /\
    (Smtlib.get_bv_width I e' = (-1)%Z \/ Smtlib.get_bv_width I e' = (-2)%Z \/
     ((0 <= Smtlib.get_bv_width I e')%Z /\ s' = sBV (Z.to_N (Smtlib.get_bv_width I e')))).
Proof.
  intros I g e s g' e' H1 H2 H3 H4 H5 Ht Hr.
  destruct (reach_typed I g e g' e' Hr s Ht) as (s' & Ht').
  destruct (reach_hyps I g e g' e' Hr (conj H1 (conj H2 (conj H3 H5)))) as (G1 & G2 & G3 & G5).
  exists s'. split; [exact Ht'|]. split.
  - intro idx. rewrite <- Ht'. exact (sort_unknown_or_actual_proof I g' e' idx s' G1 G2 G3 H4 G5 Ht').
  - exact (width_unknown_or_actual_proof I g' e' s' G1 G2 G3 H4 Ht').
Qed.
