(* W1: the bit-width the oracle infers is unknown (-1) or the actual width. *)
From DD Require Import Model.Smtlib Spec.Typing Proofs.Sort.DecRT Proofs.Sort.SortBase Proofs.Sort.TypeApp
  Proofs.Sort.SortHyps Proofs.Sort.TableChecks.
Local Open Scope list_scope.

(* ---------- unfolding equations of the oracle's width function ---------- *)

Fixpoint concat_sum (I : info) (l : list sexp) : option Z :=
  match l with
  | [] => Some 0%Z
  | x :: r => match Smtlib.bv_width I x, concat_sum I r with
              | Some w, Some s => if Z.eqb w (-1) || Z.eqb s (-1) then Some (-1)%Z else Some (w + s)%Z
              | _, _ => None end
  end.

Definition bvw_app (I : info) (ident : str) (args : list sexp) : option Z :=
  if mem_str_l ident bvw_same_ops then match args with a :: _ => Smtlib.bv_width I a | [] => None end
  else if iss ident "concat" then concat_sum I args
  else if iss ident "bvcomp" then Some 1%Z
  else if iss ident "ite" then
    match args with
    | _ :: a :: _ => match Smtlib.bv_width I a with Some w => if Z.ltb 0 w then Some w else Some (-1)%Z | None => None end
    | _ => None
    end
  else Some (-1)%Z.

Definition bvw_idx (I : info) (h : sexp) (args : list sexp) : option Z :=
  if is_indexed_operator h "zero_extend" 1 || is_indexed_operator h "sign_extend" 1 then
    match args with
    | a :: _ => match Smtlib.bv_width I a with
                | Some w => if Z.eqb w (-1) then Some (-1)%Z
                            else match get_indices h with Some (k :: _) => Some (k + w)%Z | _ => None end
                | None => None end
    | [] => None end
  else if is_indexed_operator h "extract" 2 then
    match get_indices h with Some [i; j] => Some (i - j + 1)%Z | _ => None end
  else if is_indexed_operator h "repeat" 1 then
    match args with
    | a :: _ => match Smtlib.bv_width I a with
                | Some w => if Z.eqb w (-1) then Some (-1)%Z
                            else match get_indices h with Some (k :: _) => Some (k * w)%Z | _ => None end
                | None => None end
    | [] => None end
  else if is_indexed_operator h "rotate_left" 1 || is_indexed_operator h "rotate_right" 1 then
    match args with a :: _ => Smtlib.bv_width I a | [] => None end
  else if is_indexed_operator h "fp.to_ubv" 1 || is_indexed_operator h "fp.to_sbv" 1 then
    match get_indices h with Some (k :: _) => Some k | _ => None end
  else Some (-1)%Z.

Lemma bv_width_app I ident args :
  is_bv_const (T (L ident :: args)) = false ->
  Smtlib.bv_width I (T (L ident :: args)) = bvw_app I ident args.
Proof.
  intro H. cbn [Smtlib.bv_width]. rewrite H. cbn [is_indexed_operator orb]. unfold bvw_app.
  destruct (mem_str_l ident bvw_same_ops); [reflexivity|].
  destruct (iss ident "concat"); [|reflexivity].
  clear H. induction args as [| x r IHr]; [reflexivity|].
  cbn [concat_sum]. rewrite <- IHr. reflexivity.
Qed.

Lemma bv_width_idx I hl args :
  Smtlib.bv_width I (T (T hl :: args)) = bvw_idx I (T hl) args.
Proof. reflexivity. Qed.

Lemma bv_width_nil I : Smtlib.bv_width I (T []) = Some (-1)%Z.
Proof. reflexivity. Qed.

(* ---------- indexed heads ---------- *)

Definition leafstr (i : sexp) : option str := match i with L s => Some s | T _ => None end.

Lemma iio_inv u op idx name cnt :
  is_indexed_operator (T (L u :: L op :: idx)) name cnt = true -> op = lit name /\ length idx = cnt.
Proof.
  unfold is_indexed_operator. cbn [length Nat.ltb Nat.leb nth_error].
  destruct (negb (iss u "_")); [discriminate|].
  intro H. apply andb_true_iff in H as [H1 H2]. cbn [sexp_eqb] in H1.
  apply str_eqb_eq in H1. apply Nat.eqb_eq in H2. split; [exact H1 | lia].
Qed.

Lemma get_indices_spec u op idx ix ks :
  opt_all (map leafstr idx) = Some ix -> opt_all (map dec_of ix) = Some ks ->
  get_indices (T (u :: op :: idx)) = Some (map Z.of_N ks).
Proof.
  cbn [get_indices]. revert ix ks.
  induction idx as [| x idx IH]; intros ix ks H1 H2.
  - injection H1 as <-. injection H2 as <-. reflexivity.
  - cbn [map] in H1. apply opt_all_cons in H1 as (a & ix' & Ha & H1 & ->).
    cbn [map] in H2. apply opt_all_cons in H2 as (k & ks' & Hk & H2 & ->).
    cbn [fold_right]. rewrite (IH ix' ks' H1 H2).
    destruct x as [sx | ?]; [|discriminate]. injection Ha as ->.
    cbn [int_of]. rewrite Hk. reflexivity.
Qed.

Lemma indices_length idx ix ks :
  opt_all (map leafstr idx) = Some ix -> opt_all (map dec_of ix) = Some ks -> length ks = length idx.
Proof.
  intros H1 H2. apply opt_all_length in H1, H2. rewrite map_length in H1, H2. congruence.
Qed.

(* ---------- the statement proved by induction ---------- *)

Definition wsound (I : info) (s : sexp) (w : Z) : Prop :=
  Typing.bv_width s = Some (Z.to_N w) /\ (0 <= w)%Z /\ (sorts_canon I -> s = sBV (Z.to_N w)).

Lemma wsound_sBV I n w : (0 <= w)%Z -> n = Z.to_N w -> wsound I (sBV n) w.
Proof. intros Hw ->. repeat split; auto. apply tbv_width_sBV. Qed.

Ltac kill_disj D :=
  let Hm := fresh "Hm" in
  repeat (destruct D as [[Hm D] | D]; [try (vm_compute in Hm; discriminate Hm) | ]);
  try (destruct D as [Hm D]; try (vm_compute in Hm; discriminate Hm)).

Section Width.
  Variable I : info.
  Variable g : env.
  Hypothesis Hla : lookup_agrees I g.
  Hypothesis Hcu : consts_unbound g.
  Hypothesis Hou : ops_unbound g.

  Definition PW (a : sexp) : Prop :=
    forall w s, Smtlib.bv_width I a = Some w -> w <> (-1)%Z -> type_of g a = Some s -> wsound I s w.

  Lemma concat_sound args :
    Forall PW args -> forall w ts ws,
    concat_sum I args = Some w -> w <> (-1)%Z ->
    opt_all (map (type_of g) args) = Some ts -> opt_all (map Typing.bv_width ts) = Some ws ->
    fold_right N.add 0%N ws = Z.to_N w /\ (0 <= w)%Z.
  Proof.
    induction 1 as [| x r Hx _ IH]; intros w ts ws Hs Hw Hts Hws.
    - injection Hs as <-. injection Hts as <-. injection Hws as <-. split; [reflexivity | lia].
    - cbn [concat_sum] in Hs.
      destruct (Smtlib.bv_width I x) as [w1|] eqn:E1; [|discriminate].
      destruct (concat_sum I r) as [s1|] eqn:E2; [|discriminate].
      destruct (Z.eqb w1 (-1) || Z.eqb s1 (-1)) eqn:E3.
      { injection Hs as <-. congruence. }
      injection Hs as <-. apply orb_false_iff in E3 as [E3 E4]. apply Z.eqb_neq in E3, E4.
      cbn [map] in Hts. apply opt_all_cons in Hts as (t & ts' & Ht & Hts & ->).
      cbn [map] in Hws. apply opt_all_cons in Hws as (n & ws' & Hn & Hws & ->).
      destruct (Hx w1 t E1 E3 Ht) as (Hx1 & Hx2 & _).
      destruct (IH s1 ts' ws' eq_refl E4 Hts Hws) as (IH1 & IH2).
      cbn [fold_right]. rewrite IH1. assert (n = Z.to_N w1) as -> by congruence. split; lia.
  Qed.

  Lemma width_leaf x : PW (L x).
  Proof.
    intros w s Hw Hne Ht.
    destruct (is_bv_const (L x)) eqn:Ec.
    - destruct (leaf_bv g Hcu I x s w Ec Ht Hw) as [-> H0]. now apply wsound_sBV.
    - cbn [Smtlib.bv_width] in Hw. rewrite Ec in Hw.
      destruct (alookup x (sort_lookup I)) as [[bs|]|] eqn:El.
      + destruct (is_bv_sort bs) eqn:Eb; [| injection Hw as <-; congruence].
        assert (s = bs) as -> by (symmetry; eapply Hla; eauto).
        destruct bs as [| [| [h|] [| b [| wx [|]]]]]; try discriminate.
        cbn [is_bv_sort] in Eb. apply andb_true_iff in Eb as [Eb1 Eb2].
        apply iss_true in Eb1. apply sexp_eqb_true in Eb2. subst h b.
        apply int_of_inv in Hw as (sx & n & -> & Hd & ->).
        assert (Hbw : Typing.bv_width (T [L (lit "_"); L (lit "BitVec"); L sx]) = Some n) by exact Hd.
        unfold wsound. rewrite N2Z.id. repeat split; [exact Hbw | lia |].
        intro Hcan. eapply Hcan; eauto.
      + injection Hw as <-. congruence.
      + injection Hw as <-. congruence.
  Qed.

  Lemma width_app ident args : Forall PW args -> PW (T (L ident :: args)).
  Proof.
    intros IH w s Hw Hne Ht.
    destruct (is_bv_const (T (L ident :: args))) eqn:Ec.
    - (* (_ bvN w) *)
      assert (Hu : is ident "_" = true).
      { cbn [is_bv_const] in Ec. destruct args as [| [b|] [| wx [|]]]; try discriminate.
        now apply andb_true_iff in Ec as [Ec _]. }
      destruct (type_of_underscore g ident args s Ht Hu) as (b & w0 & n & -> & _ & Hd & ->).
      cbn [Smtlib.bv_width] in Hw. rewrite Ec in Hw. cbn [int_of] in Hw. rewrite Hd in Hw.
      injection Hw as <-. apply wsound_sBV; [lia | now rewrite N2Z.id].
    - rewrite (bv_width_app I ident args Ec) in Hw.
      destruct (type_of_app_inv g ident args s Ht) as [Hk | (Hk & ts & Hts & Hta)].
      { apply kw_not_head, oracle_head_false in Hk.
        destruct Hk as (K1 & _ & _ & _ & _ & _ & _ & K2 & K3 & K4 & _).
        unfold bvw_app in Hw. rewrite K1, K2, K3, K4 in Hw. injection Hw as <-. congruence. }
      unfold bvw_app in Hw.
      destruct (mem_str_l ident bvw_same_ops) eqn:Em.
      { assert (Ho : mem_str_l ident oracle_ops = true) by (rewrite oracle_ops_mem, Em; reflexivity).
        destruct (table_app g k_first bvw_same_ops ident ts s chk_bvw Hou Em Ho Hta) as (Hk1 & Hk2 & Hsh).
        destruct (result_kind ident); try discriminate; try congruence.
        destruct Hsh as (t1 & rest & -> & ->).
        destruct args as [| a args']; [discriminate|].
        cbn [map] in Hts. apply opt_all_cons in Hts as (t & ts' & Hta1 & _ & E). injection E as <- <-.
        inversion IH as [| ? ? IHa _]; subst. exact (IHa w t1 Hw Hne Hta1). }
      destruct (iss ident "concat") eqn:E1.
      { apply iss_true in E1. subst ident. apply type_app_shape in Hta.
        change (result_kind (lit "concat")) with RKConcat in Hta. destruct Hta as (ws & Hws & ->).
        destruct (concat_sound args IH w ts ws Hw Hne Hts Hws) as [Hsum H0].
        apply wsound_sBV; assumption. }
      destruct (iss ident "bvcomp") eqn:E2.
      { apply iss_true in E2. subst ident. apply type_app_shape in Hta.
        change (result_kind (lit "bvcomp")) with RKBvcomp in Hta. cbn [shape] in Hta. subst s.
        injection Hw as <-. apply wsound_sBV; [lia | reflexivity]. }
      destruct (iss ident "ite") eqn:E3; [| injection Hw as <-; congruence].
      apply iss_true in E3. subst ident. apply type_app_shape in Hta.
      change (result_kind (lit "ite")) with RKSecond in Hta. destruct Hta as (t1 & t2 & rest & -> & ->).
      destruct args as [| a0 [| a args']]; try discriminate.
      cbn [map] in Hts. apply opt_all_cons in Hts as (t & ts' & _ & Hts & E). injection E as <- <-.
      apply opt_all_cons in Hts as (t' & ts'' & Hta1 & _ & E). injection E as <- <-.
      destruct (Smtlib.bv_width I a) as [w0|] eqn:Ea; [|discriminate].
      destruct (Z.ltb 0 w0) eqn:Ez; [| injection Hw as <-; congruence].
      injection Hw as <-.
      inversion IH as [| ? ? _ IH']; subst. inversion IH' as [| ? ? IHa _]; subst.
      exact (IHa w0 t2 Ea Hne Hta1).
  Qed.

  Lemma width_idx hl args : Forall PW args -> PW (T (T hl :: args)).
  Proof.
    intros IH w s Hw Hne Ht.
    rewrite bv_width_idx in Hw.
    destruct (type_of_idx_inv g hl args s Ht) as (op & idx & ix & ts & -> & Hix & Hts & Hti).
    apply type_indexed_shape in Hti as (ks & Hks & D).
    pose proof (get_indices_spec (L (lit "_")) (L op) idx ix ks Hix Hks) as Hgi.
    pose proof (indices_length idx ix ks Hix Hks) as Hlen.
    unfold bvw_idx in Hw.
    assert (Hext : forall name, is_indexed_operator (T (L (lit "_") :: L op :: idx)) name 1 = true ->
                   mem_s (lit name) ["zero_extend"; "sign_extend"] = true ->
                   match args with
                   | a :: _ => match Smtlib.bv_width I a with
                               | Some w => if Z.eqb w (-1) then Some (-1)%Z
                                           else match get_indices (T (L (lit "_") :: L op :: idx)) with Some (k :: _) => Some (k + w)%Z | _ => None end
                               | None => None end
                   | [] => None end = Some w -> wsound I s w).
    { intros name Hn Hmem Hw'. apply iio_inv in Hn as [-> Hl].
      destruct D as [[_ D] | D].
      2:{ exfalso.
          apply mem_s_true in Hmem as (x & Hin & Hx).
          destruct Hin as [<- | [<- | []]]; rewrite Hx in D; kill_disj D. }
      destruct D as (k & t & wt & -> & -> & Hwt & ->).
      apply opt_all_map_single in Hts as (a & -> & Hta).
      destruct (Smtlib.bv_width I a) as [w0|] eqn:Ea; [|discriminate].
      destruct (Z.eqb w0 (-1)) eqn:Ez; [injection Hw' as <-; congruence|]. apply Z.eqb_neq in Ez.
      rewrite Hgi in Hw'. cbn [map] in Hw'. injection Hw' as <-.
      inversion IH as [| ? ? IHa _]; subst.
      destruct (IHa w0 t Ea Ez Hta) as (H1 & H2 & _).
      assert (wt = Z.to_N w0) as -> by congruence.
      apply wsound_sBV; lia. }
    destruct (is_indexed_operator (T (L (lit "_") :: L op :: idx)) "zero_extend" 1) eqn:Eze.
    { cbn [orb] in Hw. exact (Hext "zero_extend" Eze eq_refl Hw). }
    destruct (is_indexed_operator (T (L (lit "_") :: L op :: idx)) "sign_extend" 1) eqn:Ese.
    { cbn [orb] in Hw. exact (Hext "sign_extend" Ese eq_refl Hw). }
    cbn [orb] in Hw. clear Hext.
    destruct (is_indexed_operator (T (L (lit "_") :: L op :: idx)) "extract" 2) eqn:Eex.
    { apply iio_inv in Eex as [-> Hl]. kill_disj D.
      destruct D as (i & j & t & wt & -> & -> & Hwt & Hji & Hiw & ->).
      rewrite Hgi in Hw. cbn [map] in Hw. injection Hw as <-.
      apply N.leb_le in Hji. apply wsound_sBV; lia. }
    destruct (is_indexed_operator (T (L (lit "_") :: L op :: idx)) "repeat" 1) eqn:Erp.
    { apply iio_inv in Erp as [-> Hl]. kill_disj D.
      destruct D as (k & t & wt & -> & -> & Hwt & Hk & ->).
      apply opt_all_map_single in Hts as (a & -> & Hta).
      destruct (Smtlib.bv_width I a) as [w0|] eqn:Ea; [|discriminate].
      destruct (Z.eqb w0 (-1)) eqn:Ez; [injection Hw as <-; congruence|]. apply Z.eqb_neq in Ez.
      rewrite Hgi in Hw. cbn [map] in Hw. injection Hw as <-.
      inversion IH as [| ? ? IHa _]; subst.
      destruct (IHa w0 t Ea Ez Hta) as (H1 & H2 & _).
      assert (wt = Z.to_N w0) as -> by congruence.
      apply wsound_sBV; [lia|]. rewrite Z2N.inj_mul by lia. rewrite N2Z.id. lia. }
    destruct (is_indexed_operator (T (L (lit "_") :: L op :: idx)) "rotate_left" 1 ||
              is_indexed_operator (T (L (lit "_") :: L op :: idx)) "rotate_right" 1) eqn:Ero.
    { assert (Hop : op = lit "rotate_left" \/ op = lit "rotate_right").
      { apply orb_true_iff in Ero as [E | E]; apply iio_inv in E as [-> _]; auto. }
      assert (D' : exists k t wt, ks = [k] /\ ts = [t] /\ Typing.bv_width t = Some wt /\ s = t).
      { destruct Hop as [-> | ->]; kill_disj D; exact D. }
      destruct D' as (k & t & wt & -> & -> & Hwt & ->).
      apply opt_all_map_single in Hts as (a & -> & Hta).
      inversion IH as [| ? ? IHa _]; subst. exact (IHa w t Hw Hne Hta). }
    destruct (is_indexed_operator (T (L (lit "_") :: L op :: idx)) "fp.to_ubv" 1 ||
              is_indexed_operator (T (L (lit "_") :: L op :: idx)) "fp.to_sbv" 1) eqn:Efp.
    { exfalso. apply orb_true_iff in Efp as [E | E]; apply iio_inv in E as [-> _]; kill_disj D. }
    injection Hw as <-. congruence.
  Qed.

  Theorem width_sound_all : forall e, PW e.
  Proof.
    induction e as [x | l IH] using sexp_ind'.
    - apply width_leaf.
    - destruct l as [| [ident | hl] args].
      + intros w s Hw Hne _. rewrite bv_width_nil in Hw. injection Hw as <-. congruence.
      + apply width_app. now inversion IH.
      + apply width_idx. now inversion IH.
  Qed.
End Width.

(* W1, weak form: no assumption on how recorded sorts are written *)
Theorem bv_width_sound_weak_proof : forall I g e w s,
  lookup_agrees I g -> consts_unbound g -> ops_unbound g ->
  Smtlib.bv_width I e = Some w -> w <> (-1)%Z -> type_of g e = Some s ->
  Typing.bv_width s = Some (Z.to_N w) /\ (0 <= w)%Z.
Proof.
  intros I g e w s H1 H2 H3 Hw Hne Ht.
  destruct (width_sound_all I g H1 H2 H3 e w s Hw Hne Ht) as (A & B & _). now split.
Qed.

(* W1 *)
Theorem bv_width_sound_proof : forall I g e w s,
  lookup_agrees I g -> consts_unbound g -> ops_unbound g -> sorts_canon I ->
  Smtlib.bv_width I e = Some w -> w <> (-1)%Z -> type_of g e = Some s ->
  s = sBV (Z.to_N w) /\ (0 <= w)%Z.
Proof.
  intros I g e w s H1 H2 H3 H4 Hw Hne Ht.
  destruct (width_sound_all I g H1 H2 H3 e w s Hw Hne Ht) as (A & B & C). split; auto.
Qed.
