(* W4: the tables collected from a script of declarations agree with the
   typing environment of the same script, under a decidable check on the
   script (script_ok): declared names are not literals / oracle operator names /
   reserved words, a function symbol with arguments is not also a constant or a
   nullary constructor, a constructor is not also a declared constant/function,
   bit-vector sorts are written canonically. *)
From DD Require Import Model.Smtlib Spec.Typing Proofs.Sort.DecRT Proofs.Sort.SortBase Proofs.Sort.TypeApp
  Proofs.Sort.SortHyps Proofs.Sort.TableChecks.
Local Open Scope list_scope.

(* the step function of decl_env *)
Definition conv_sel (s : sexp) : str * sexp := match s with T [L sn; ss] => (sn, ss) | _ => ([], L []) end.
Definition conv_cons (c : sexp) : str * list (str * sexp) :=
  match c with T (L cn :: sels) => (cn, map conv_sel sels) | _ => ([], []) end.

Definition decl_step (g : env) (c : sexp) : env :=
    match c with
    | T [L k; L x; so] =>
        if is k "declare-const" then mk_env ((x, so) :: e_vars g) (e_funs g) (e_dts g)
        else if is k "declare-datatype" then
          match so with
          | T cs => mk_env (e_vars g) (e_funs g) ((x, map conv_cons cs) :: e_dts g)
          | _ => g
          end
        else g
    | T [L k; L x; T args; so] =>
        if is k "declare-fun" then
          match args with
          | [] => mk_env ((x, so) :: e_vars g) (e_funs g) (e_dts g)
          | _ => mk_env (e_vars g) ((x, (args, so)) :: e_funs g) (e_dts g)
          end
        else g
    | T [L k; L x; T params; so; _] =>
        if is k "define-fun" then
          match params with
          | [] => mk_env ((x, so) :: e_vars g) (e_funs g) (e_dts g)
          | _ => mk_env (e_vars g) ((x, (map (fun p => match p with T [_; ps] => ps | _ => L [] end) params, so)) :: e_funs g) (e_dts g)
          end
        else g
    | _ => g
    end.

Lemma decl_env_fold cmds : decl_env cmds = fold_left decl_step cmds (mk_env [] [] []).
Proof. reflexivity. Qed.

(* ---------- the check ---------- *)

Definition is_none {A} (o : option A) : bool := match o with None => true | Some _ => false end.
Definition k_user (k : rkind) : bool := match k with RKUser => true | _ => false end.
Definition empty_env : env := mk_env [] [] [].
(* the name is no literal of any kind *)
Definition leaf_free (x : str) : bool := is_none (type_of empty_env (L x)).
Definition sort_okb (so : sexp) : bool :=
  match Typing.bv_width so with Some n => sexp_eqb so (sBV n) | None => true end.
Definition cons_name_ok (cn : str) : bool :=
  negb (const_name cn) && negb (mem_str_l cn oracle_ops) && negb (kw cn) && k_user (result_kind cn).
Definition sel_names (cs : list sexp) : list str :=
  flat_map (fun c => match c with T (L _ :: sels) => map (fun s => fst (conv_sel s)) sels | _ => [] end) cs.
Definition dt_ok (I : info) (cs : list sexp) : bool :=
  forallb (fun c => match c with
                    | T (L cn :: _) => cons_name_ok cn && is_none (alookup cn (sort_lookup I))
                    | _ => false end) cs
  && forallb (fun sn => negb (mem_str_l sn oracle_ops)) (sel_names cs).
Definition var_ok (x : str) (so : sexp) : bool := negb (const_name x) && sort_okb so.
Definition fun_ok (g : env) (x : str) (so : sexp) : bool :=
  negb (mem_str_l x oracle_ops) && leaf_free x && is_none (assoc x (e_vars g)) && is_none (find_cons (e_dts g) x) && sort_okb so.

Definition cmd_ok (I : info) (g : env) (c : sexp) : bool :=
  match c with
  | T [L k; L x; so] =>
      if is k "declare-const" then var_ok x so
      else if is k "declare-datatype" then match so with T cs => dt_ok I cs | L _ => true end
      else true
  | T [L k; L x; T args; so] =>
      if is k "declare-fun" then match args with [] => var_ok x so | _ => fun_ok g x so end else true
  | T [L k; L x; T params; so; _] =>
      if is k "define-fun" then match params with [] => var_ok x so | _ => fun_ok g x so end else true
  | _ => true
  end.

Fixpoint script_ok_from (I : info) (g : env) (cmds : list sexp) : bool :=
  match cmds with
  | [] => true
  | c :: r => cmd_ok I g c && script_ok_from (collect_cmd I c) (decl_step g c) r
  end.
Definition script_ok (cmds : list sexp) : bool := script_ok_from (mk_info [] []) empty_env cmds.

(* ---------- the invariant ---------- *)

Definition cons_inv (I : info) (g : env) : Prop :=
  forall c d, alookup c (dt_constructors I) = Some d ->
    kw c = false /\ result_kind c = RKUser /\ exists sels, find_cons (e_dts g) c = Some (d, sels).

Record Inv (I : info) (g : env) : Prop := mk_Inv {
  inv_la : lookup_agrees I g;
  inv_cu : consts_unbound g;
  inv_ou : ops_unbound g;
  inv_sc : sorts_canon I;
  inv_ci : cons_inv I g }.

Lemma cons_inv_agree I g : cons_inv I g -> cons_agree I g.
Proof.
  intros H c d Hc. destruct (H c d Hc) as (Hk & Hr & sels & Hf). split; [exact Hk|].
  intros ts s' Ht. apply type_app_shape in Ht. rewrite Hr in Ht. cbn [shape] in Ht.
  unfold user_app in Ht. destruct ts as [| t1 ts']; [discriminate|]. rewrite Hf in Ht.
  destruct (_ && _) in Ht; [|discriminate]. now injection Ht.
Qed.

Lemma Inv_empty : Inv (mk_info [] []) empty_env.
Proof.
  split.
  - intros x s s' H. discriminate.
  - intros x _. split; reflexivity.
  - intros op _. repeat split; reflexivity.
  - intros x s n H. discriminate.
  - intros c d H. discriminate.
Qed.

Lemma str_eqb_false a b : a <> b -> str_eqb a b = false.
Proof. intro H. destruct (str_eqb a b) eqn:E; [|reflexivity]. apply str_eqb_eq in E. contradiction. Qed.

Lemma is_none_true {A} (o : option A) : is_none o = true -> o = None.
Proof. destruct o; [discriminate | reflexivity]. Qed.

(* type_of on a leaf depends on the variables and the datatypes only *)
Lemma type_of_leaf_eq g g' y :
  assoc y (e_vars g') = assoc y (e_vars g) -> find_cons (e_dts g') y = find_cons (e_dts g) y ->
  type_of g' (L y) = type_of g (L y).
Proof. intros H1 H2. cbn [type_of]. now rewrite H1, H2. Qed.

Lemma type_of_leaf_free g x :
  leaf_free x = true -> assoc x (e_vars g) = None -> find_cons (e_dts g) x = None -> type_of g (L x) = None.
Proof.
  intros Hf Hv Hc. apply is_none_true in Hf.
  rewrite <- Hf. apply type_of_leaf_eq; [now rewrite Hv | now rewrite Hc].
Qed.

(* ---------- adding a variable ---------- *)

Lemma Inv_var I g x so :
  Inv I g -> var_ok x so = true ->
  Inv (mk_info ((x, Some so) :: sort_lookup I) (dt_constructors I)) (mk_env ((x, so) :: e_vars g) (e_funs g) (e_dts g)).
Proof.
  intros [Hla Hcu Hou Hsc Hci] Hok. apply andb_true_iff in Hok as [Hnc Hso]. apply negb_true_iff in Hnc.
  split.
  - intros y s s' Hl Ht. cbn [sort_lookup alookup] in Hl. cbn [type_of e_vars assoc] in Ht.
    destruct (str_eqb x y) eqn:E.
    + congruence.
    + eapply Hla; [exact Hl|]. cbn [type_of]. exact Ht.
  - intros y Hy. destruct (Hcu y Hy) as [H1 H2]. split; [|exact H2].
    cbn [e_vars assoc]. rewrite str_eqb_false; [exact H1|]. intros ->. congruence.
  - exact Hou.
  - intros y s n Hl Hw. cbn [sort_lookup alookup] in Hl. destruct (str_eqb x y).
    + injection Hl as <-. unfold sort_okb in Hso. rewrite Hw in Hso. now apply sexp_eqb_true.
    + eapply Hsc; eauto.
  - exact Hci.
Qed.

(* ---------- adding a function symbol with arguments ---------- *)

Lemma Inv_fun I g x args so :
  Inv I g -> fun_ok g x so = true ->
  Inv (mk_info ((x, Some so) :: sort_lookup I) (dt_constructors I)) (mk_env (e_vars g) ((x, (args, so)) :: e_funs g) (e_dts g)).
Proof.
  intros [Hla Hcu Hou Hsc Hci] Hok. unfold fun_ok in Hok.
  apply andb_true_iff in Hok as [Hok Hso]. apply andb_true_iff in Hok as [Hok Hfc].
  apply andb_true_iff in Hok as [Hok Hfv]. apply andb_true_iff in Hok as [Hno Hlf].
  apply negb_true_iff in Hno. apply is_none_true in Hfc, Hfv.
  split.
  - intros y s s' Hl Ht. cbn [sort_lookup alookup] in Hl.
    assert (Ht' : type_of g (L y) = Some s') by exact Ht.
    destruct (str_eqb x y) eqn:E.
    + apply str_eqb_eq in E. subst y. rewrite (type_of_leaf_free g x Hlf Hfv Hfc) in Ht'. discriminate.
    + eapply Hla; eauto.
  - exact Hcu.
  - intros op Hop. destruct (Hou op Hop) as (H1 & H2 & H3). repeat split; auto.
    cbn [e_funs assoc]. rewrite str_eqb_false; [exact H3|]. intros ->. congruence.
  - intros y s n Hl Hw. cbn [sort_lookup alookup] in Hl. destruct (str_eqb x y).
    + injection Hl as <-. unfold sort_okb in Hso. rewrite Hw in Hso. now apply sexp_eqb_true.
    + eapply Hsc; eauto.
  - exact Hci.
Qed.

(* ---------- adding a datatype ---------- *)

Definition named (c : str) (e : sexp) : bool := match e with T (L cn :: _) => str_eqb cn c | _ => false end.

Lemma alookup_new_cons (d : sexp) c cs acc :
  alookup c (fold_left (fun acc c => match c with T (L cn :: _) => (cn, d) :: acc | _ => acc end) cs acc) =
  if existsb (named c) cs then Some d else alookup c acc.
Proof.
  revert acc. induction cs as [| e cs IH]; intro acc; [reflexivity|].
  cbn [fold_left existsb]. rewrite IH.
  destruct (existsb (named c) cs); [now rewrite orb_true_r|]. rewrite orb_false_r.
  destruct e as [| [| [cn|] ?]]; reflexivity.
Qed.

Definition wf_cons (e : sexp) : bool := match e with T (L _ :: _) => true | _ => false end.

Lemma assoc_conv_cons c cs :
  forallb wf_cons cs = true ->
  if existsb (named c) cs then exists sels, assoc c (map conv_cons cs) = Some sels
  else assoc c (map conv_cons cs) = None.
Proof.
  induction cs as [| e cs IH]; intro Hwf; [reflexivity|].
  cbn [forallb] in Hwf. apply andb_true_iff in Hwf as [He Hwf]. specialize (IH Hwf).
  destruct e as [| [| [cn|] sels]]; try discriminate.
  cbn [existsb named map conv_cons assoc]. destruct (str_eqb cn c); cbn [orb].
  - eexists. reflexivity.
  - exact IH.
Qed.

Lemma find_sel_in_none op cs :
  mem_str_l op (sel_names cs) = false -> find_sel_in (map conv_cons cs) op = None.
Proof.
  induction cs as [| e cs IH]; intro H; [reflexivity|].
  unfold sel_names in H. cbn [flat_map] in H. rewrite mem_str_l_app in H.
  apply orb_false_iff in H as [H1 H2]. specialize (IH H2).
  cbn [map find_sel_in]. destruct (conv_cons e) as [cn sels] eqn:Ec.
  assert (Ha : assoc op sels = None).
  { destruct e as [| [| [cn'|] sl]]; cbn [conv_cons] in Ec; try (injection Ec as <- <-; reflexivity).
    injection Ec as <- <-. clear - H1. induction sl as [| s sl IHs]; [reflexivity|].
    cbn [map mem_str_l existsb] in H1. unfold mem_str_l in H1. cbn [map existsb] in H1.
    apply orb_false_iff in H1 as [Ha Hb].
    cbn [map assoc]. destruct (conv_sel s) as [sn ss]. cbn [fst] in Ha.
    assert (E : str_eqb sn op = false).
    { destruct (str_eqb sn op) eqn:E; [|reflexivity]. apply str_eqb_eq in E. subst.
      now rewrite str_eqb_refl in Ha. }
    rewrite E. apply IHs. exact Hb. }
  rewrite Ha. exact IH.
Qed.

Lemma dt_ok_wf I cs : dt_ok I cs = true -> forallb wf_cons cs = true.
Proof.
  unfold dt_ok. intro H. apply andb_true_iff in H as [H _].
  rewrite forallb_forall in *. intros e He. specialize (H e He).
  destruct e as [| [| [cn|] ?]]; try discriminate. reflexivity.
Qed.

Lemma dt_ok_named I cs c :
  dt_ok I cs = true -> existsb (named c) cs = true ->
  cons_name_ok c = true /\ alookup c (sort_lookup I) = None.
Proof.
  unfold dt_ok. intros H Hn. apply andb_true_iff in H as [H _].
  apply existsb_exists in Hn as (e & He & Hn). rewrite forallb_forall in H. specialize (H e He).
  destruct e as [| [| [cn|] ?]]; try discriminate. cbn [named] in Hn. apply str_eqb_eq in Hn. subst cn.
  apply andb_true_iff in H as [H1 H2]. split; [exact H1 | now apply is_none_true].
Qed.

Lemma cons_name_ok_inv c :
  cons_name_ok c = true ->
  const_name c = false /\ mem_str_l c oracle_ops = false /\ kw c = false /\ result_kind c = RKUser.
Proof.
  unfold cons_name_ok. intro H.
  apply andb_true_iff in H as [H H4]. apply andb_true_iff in H as [H H3]. apply andb_true_iff in H as [H1 H2].
  apply negb_true_iff in H1, H2, H3. repeat split; auto.
  destruct (result_kind c); try discriminate. reflexivity.
Qed.

Lemma Inv_dt I g x cs :
  Inv I g -> dt_ok I cs = true ->
  Inv (mk_info (sort_lookup I)
         (fold_left (fun acc c => match c with T (L cn :: _) => (cn, L x) :: acc | _ => acc end) cs (dt_constructors I)))
      (mk_env (e_vars g) (e_funs g) ((x, map conv_cons cs) :: e_dts g)).
Proof.
  intros [Hla Hcu Hou Hsc Hci] Hok.
  pose proof (dt_ok_wf I cs Hok) as Hwf.
  assert (Hfc : forall y, find_cons ((x, map conv_cons cs) :: e_dts g) y =
                if existsb (named y) cs then find_cons ((x, map conv_cons cs) :: e_dts g) y else find_cons (e_dts g) y).
  { intro y. pose proof (assoc_conv_cons y cs Hwf) as Ha.
    destruct (existsb (named y) cs); [reflexivity|]. cbn [find_cons]. now rewrite Ha. }
  split.
  - intros y s s' Hl Ht. cbn [sort_lookup] in Hl.
    destruct (existsb (named y) cs) eqn:En.
    + destruct (dt_ok_named I cs y Hok En) as [_ Hn]. congruence.
    + eapply Hla; [exact Hl|]. rewrite <- Ht. symmetry. apply type_of_leaf_eq; [reflexivity|].
      cbn [e_dts]. rewrite Hfc, En. reflexivity.
  - intros y Hy. destruct (Hcu y Hy) as [H1 H2]. split; [exact H1|].
    cbn [e_dts]. rewrite Hfc.
    destruct (existsb (named y) cs) eqn:En; [|exact H2].
    destruct (dt_ok_named I cs y Hok En) as [Hn _]. apply cons_name_ok_inv in Hn as (Hn & _). congruence.
  - intros op Hop. destruct (Hou op Hop) as (H1 & H2 & H3). cbn [e_dts e_funs]. repeat split; [| | exact H3].
    + rewrite Hfc. destruct (existsb (named op) cs) eqn:En; [|exact H1].
      destruct (dt_ok_named I cs op Hok En) as [Hn _]. apply cons_name_ok_inv in Hn as (_ & Hn & _). congruence.
    + cbn [find_sel]. rewrite find_sel_in_none; [exact H2|].
      unfold dt_ok in Hok. apply andb_true_iff in Hok as [_ Hs].
      destruct (mem_str_l op (sel_names cs)) eqn:Em; [|reflexivity].
      apply mem_str_l_true in Em. rewrite forallb_forall in Hs. specialize (Hs op Em).
      apply negb_true_iff in Hs. congruence.
  - exact Hsc.
  - intros c d Hc. cbn [dt_constructors] in Hc. rewrite alookup_new_cons in Hc. cbn [e_dts].
    destruct (existsb (named c) cs) eqn:En.
    + injection Hc as <-. destruct (dt_ok_named I cs c Hok En) as [Hn _].
      apply cons_name_ok_inv in Hn as (_ & _ & Hk & Hr). repeat split; auto.
      pose proof (assoc_conv_cons c cs Hwf) as Ha. rewrite En in Ha. destruct Ha as (sels & Ha).
      exists sels. cbn [find_cons]. now rewrite Ha.
    + destruct (Hci c d Hc) as (Hk & Hr & sels & Hf). repeat split; auto.
      exists sels. rewrite Hfc, En. exact Hf.
Qed.

(* ---------- one command ---------- *)

Lemma Inv_step I g c : Inv I g -> cmd_ok I g c = true -> Inv (collect_cmd I c) (decl_step g c).
Proof.
  intros HI Hok.
  destruct c as [s | [| [k|?] [| [x|?] [| c3 [| c4 [| c5 [| c6 ?]]]]]]]; try exact HI.
  - (* three elements *)
    cbn [collect_cmd decl_step cmd_ok] in *. change (iss k "declare-const") with (is k "declare-const").
    change (iss k "declare-datatype") with (is k "declare-datatype").
    destruct c3 as [so | cs].
    + destruct (is k "declare-const"); [now apply Inv_var|].
      destruct (is k "declare-datatype"); exact HI.
    + destruct (is k "declare-const"); [now apply Inv_var|].
      destruct (is k "declare-datatype"); [|exact HI]. now apply Inv_dt.
  - (* four elements *)
    destruct c3 as [| args]; [exact HI|].
    cbn [collect_cmd decl_step cmd_ok] in *. change (iss k "declare-fun") with (is k "declare-fun").
    destruct (is k "declare-fun"); [|exact HI].
    destruct args as [| a args']; [now apply Inv_var | now apply Inv_fun].
  - (* five elements *)
    destruct c3 as [| ps]; [exact HI|].
    cbn [collect_cmd decl_step cmd_ok] in *. change (iss k "define-fun") with (is k "define-fun").
    destruct (is k "define-fun"); [|exact HI].
    destruct ps as [| p ps']; [now apply Inv_var | now apply Inv_fun].
  - destruct c3; exact HI.
Qed.

Lemma Inv_fold cmds : forall I g,
  Inv I g -> script_ok_from I g cmds = true ->
  Inv (fold_left collect_cmd cmds I) (fold_left decl_step cmds g).
Proof.
  induction cmds as [| c r IH]; intros I g HI Hok; [exact HI|].
  cbn [script_ok_from] in Hok. apply andb_true_iff in Hok as [H1 H2].
  cbn [fold_left]. apply IH; [now apply Inv_step | exact H2].
Qed.

(* W4 *)
Theorem collect_decls_agrees_proof : forall cmds,
  script_ok cmds = true ->
  lookup_agrees (collect_decls cmds) (decl_env cmds) /\
  consts_unbound (decl_env cmds) /\ ops_unbound (decl_env cmds) /\
  sorts_canon (collect_decls cmds) /\ cons_agree (collect_decls cmds) (decl_env cmds).
Proof.
  intros cmds Hok. rewrite decl_env_fold. unfold collect_decls.
  destruct (Inv_fold cmds _ _ Inv_empty Hok) as [H1 H2 H3 H4 H5].
  split; [exact H1|]. split; [exact H2|]. split; [exact H3|]. split; [exact H4|]. now apply cons_inv_agree.
Qed.
