(* W3: the soundness theorems in the words of the property. *)
From DD Require Import Model.Smtlib Spec.Typing Proofs.Sort.DecRT Proofs.Sort.SortBase Proofs.Sort.TypeApp
  Proofs.Sort.SortHyps Proofs.Sort.TableChecks Proofs.Sort.Width Proofs.Sort.SortSound.
Local Open Scope list_scope.

Theorem sort_unknown_or_actual_proof : forall I g e idx s,
  lookup_agrees I g -> consts_unbound g -> ops_unbound g -> sorts_canon I -> cons_agree I g ->
  type_of g e = Some s ->
  Smtlib.get_sort I idx e = None \/ Smtlib.get_sort I idx e = type_of g e.
Proof.
  intros I g e idx s H1 H2 H3 H4 H5 Ht.
  destruct (Smtlib.get_sort I idx e) as [s'|] eqn:E; [right | now left].
  rewrite Ht. f_equal. exact (get_sort_sound_proof I g e idx s' s H1 H2 H3 H4 H5 E Ht).
Qed.

(* -2 stands for an exception raised by the modelled code *)
Theorem width_unknown_or_actual_proof : forall I g e s,
  lookup_agrees I g -> consts_unbound g -> ops_unbound g -> sorts_canon I ->
  type_of g e = Some s ->
  Smtlib.get_bv_width I e = (-1)%Z \/ Smtlib.get_bv_width I e = (-2)%Z \/
  ((0 <= Smtlib.get_bv_width I e)%Z /\ s = sBV (Z.to_N (Smtlib.get_bv_width I e))).
Proof.
  intros I g e s H1 H2 H3 H4 Ht. unfold Smtlib.get_bv_width.
  destruct (Smtlib.bv_width I e) as [w|] eqn:E; [| right; now left].
  destruct (Z.eq_dec w (-1)) as [-> | Hne]; [now left|].
  right; right. destruct (bv_width_sound_proof I g e w s H1 H2 H3 H4 E Hne Ht). now split.
Qed.

(* without any assumption on how recorded sorts are written: the actual width *)
Theorem width_unknown_or_actual_weak_proof : forall I g e s,
  lookup_agrees I g -> consts_unbound g -> ops_unbound g ->
  type_of g e = Some s ->
  Smtlib.get_bv_width I e = (-1)%Z \/ Smtlib.get_bv_width I e = (-2)%Z \/
  ((0 <= Smtlib.get_bv_width I e)%Z /\ Typing.bv_width s = Some (Z.to_N (Smtlib.get_bv_width I e))).
Proof.
  intros I g e s H1 H2 H3 Ht. unfold Smtlib.get_bv_width.
  destruct (Smtlib.bv_width I e) as [w|] eqn:E; [| right; now left].
  destruct (Z.eq_dec w (-1)) as [-> | Hne]; [now left|].
  right; right. destruct (bv_width_sound_weak_proof I g e w s H1 H2 H3 E Hne Ht). now split.
Qed.
