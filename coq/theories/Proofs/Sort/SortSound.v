(* W2: the sort the oracle infers is unknown or the actual sort. *)
From DD Require Import Model.Smtlib Spec.Typing Proofs.Sort.DecRT Proofs.Sort.SortBase Proofs.Sort.TypeApp
  Proofs.Sort.SortHyps Proofs.Sort.TableChecks Proofs.Sort.Width.
Local Open Scope list_scope.

(* ---------- unfolding equations of the oracle's sort function ---------- *)

Definition sort_app (I : info) (ident : str) (a1 : sexp) (rest : list sexp) : option (option sexp) :=
  let gs := get_sort I false in
  if iss ident "ite" && Nat.ltb 2 (len (T (L ident :: a1 :: rest))) then
    match rest with a2 :: _ => Some (gs a2) | [] => None end
  else if mem_str_l ident sort_bool_ops then Some (Some (L (lit "Bool")))
  else if mem_str_l ident sort_int_ops then Some (Some (L (lit "Int")))
  else if mem_str_l ident sort_real_ops then Some (Some (L (lit "Real")))
  else if mem_str_l ident sort_arith_ops then
    if existsb (fun n => opt_sexp_eqb (gs n) (L (lit "Real"))) (a1 :: rest) then Some (Some (L (lit "Real")))
    else if opt_sexp_eqb (gs a1) (L (lit "Int")) then Some (Some (L (lit "Int")))
    else Some None
  else if mem_str_l ident sort_fp1_ops then Some (gs a1)
  else if mem_str_l ident sort_fp2_ops then match rest with a2 :: _ => Some (gs a2) | [] => None end
  else if iss ident "fp" then
    match rest with
    | a2 :: a3 :: _ =>
        match Smtlib.bv_width I a2, Smtlib.bv_width I a3 with
        | Some ew, Some sw => if Z.eqb ew (-1) || Z.eqb sw (-1) then Some None
                              else Some (Some (T [L (lit "_"); L (lit "FloatingPoint"); L (to_dec (Z.to_N ew)); L (to_dec (Z.to_N (sw + 1)))]))
        | _, _ => None
        end
    | _ => None
    end
  else if iss ident "select" then
    match gs a1 with
    | Some asort => if is_array_sort asort then Some (nth_child asort 2) else Some None
    | None => Some None
    end
  else if iss ident "store" then Some (gs a1)
  else match alookup ident (dt_constructors I) with
       | Some d => Some (Some d)
       | None => Some None
       end.

Definition sort_idx (h : sexp) : option (option sexp) :=
  if is_indexed_operator h "divisible" 1 then Some (Some (L (lit "Bool")))
  else if is_indexed_operator h "to_fp" 2 || is_indexed_operator h "to_fp_unsigned" 2 then
    match get_indices h with
    | Some [a; b] => Some (Some (T [L (lit "_"); L (lit "FloatingPoint"); L (to_dec (Z.to_N a)); L (to_dec (Z.to_N b))]))
    | _ => None
    end
  else Some None.

Definition sort_T (I : info) (l : list sexp) : option (option sexp) :=
  match l with
  | L ident :: a1 :: rest => sort_app I ident a1 rest
  | T hl :: _ => sort_idx (T hl)
  | _ => Some None
  end.

Lemma sort_aux_T I idx l :
  sort_aux I idx (T l) =
  if is_bv_const (T l) then match Smtlib.bv_width I (T l) with Some w => Some (Some (mk_bv w)) | None => None end
  else if is_real_const (T l) && negb idx then Some (Some (L (lit "Real")))
  else match Smtlib.bv_width I (T l) with
       | None => None
       | Some w => if negb (Z.eqb w (-1)) then Some (Some (mk_bv w)) else sort_T I l
       end.
Proof.
  destruct l as [| [ident | hl] [| a1 rest]]; reflexivity.
Qed.

Lemma sort_aux_L I idx x :
  sort_aux I idx (L x) =
  match alookup x (sort_lookup I) with
  | Some so => Some so
  | None =>
    if is_bool_const (L x) then Some (Some (L (lit "Bool")))
    else if is_bv_const (L x) then match Smtlib.bv_width I (L x) with Some w => Some (Some (mk_bv w)) | None => None end
    else if is_int_const (L x) && negb idx then Some (Some (L (lit "Int")))
    else if is_real_const (L x) && negb idx then Some (Some (L (lit "Real")))
    else match Smtlib.bv_width I (L x) with
         | None => None
         | Some w => if negb (Z.eqb w (-1)) then Some (Some (mk_bv w)) else Some None
         end
  end.
Proof. reflexivity. Qed.

(* ---------- auxiliary ---------- *)

Lemma bv_const_width_nonneg I e w : is_bv_const e = true -> Smtlib.bv_width I e = Some w -> (0 <= w)%Z.
Proof.
  intros Hc Hw. destruct e as [x | l].
  - cbn [Smtlib.bv_width] in Hw. rewrite Hc in Hw.
    destruct x as [| c [| d tl]]; try discriminate.
    destruct (N.eqb d c_b); injection Hw as <-; lia.
  - destruct l as [| [h|] [| [b|] [| wx [|]]]]; try discriminate.
    cbn [Smtlib.bv_width] in Hw. rewrite Hc in Hw.
    apply int_of_inv in Hw as (sx & n & _ & _ & ->). lia.
Qed.

Lemma opt_all_map_in {A B} (f : A -> option B) (l : list A) ts a :
  opt_all (map f l) = Some ts -> In a l -> exists t, f a = Some t /\ In t ts.
Proof.
  revert ts. induction l as [| x l IH]; intros ts H Hin; [destruct Hin|].
  cbn [map] in H. apply opt_all_cons in H as (t & ts' & Hx & H & ->).
  destruct Hin as [<- | Hin].
  - exists t. split; [exact Hx | now left].
  - destruct (IH ts' H Hin) as (t' & H1 & H2). exists t'. split; [exact H1 | now right].
Qed.

Lemma all_eq_in t ts x : all_eq t ts = true -> In x ts -> x = t.
Proof.
  unfold all_eq. intros H Hin. rewrite forallb_forall in H. symmetry. apply sexp_eqb_true. now apply H.
Qed.

Lemma opt_sexp_eqb_true a b : opt_sexp_eqb a b = true -> a = Some b.
Proof. destruct a as [x|]; cbn; [|discriminate]. intro H. apply sexp_eqb_true in H. now subst. Qed.

Section Sorts.
  Variable I : info.
  Variable g : env.
  Hypothesis Hla : lookup_agrees I g.
  Hypothesis Hcu : consts_unbound g.
  Hypothesis Hou : ops_unbound g.
  Hypothesis Hsc : sorts_canon I.
  Hypothesis Hca : cons_agree I g.

  Definition PS (a : sexp) : Prop :=
    forall idx s' s, get_sort I idx a = Some s' -> type_of g a = Some s -> s' = s.

  Lemma width_strong e w s :
    Smtlib.bv_width I e = Some w -> w <> (-1)%Z -> type_of g e = Some s -> mk_bv w = s.
  Proof.
    intros Hw Hne Ht.
    destruct (bv_width_sound_proof I g e w s Hla Hcu Hou Hsc Hw Hne Ht) as [-> H0].
    now apply mk_bv_nonneg.
  Qed.

  Lemma sort_leaf x : PS (L x).
  Proof.
    intros idx s' s Hs Ht. unfold get_sort in Hs. rewrite sort_aux_L in Hs.
    destruct (alookup x (sort_lookup I)) as [[so|]|] eqn:El.
    - injection Hs as <-. eapply Hla; eauto.
    - discriminate.
    - destruct (is_bool_const (L x)) eqn:E1.
      { injection Hs as <-. symmetry. now apply (leaf_bool g Hcu x). }
      destruct (is_bv_const (L x)) eqn:E2.
      { destruct (Smtlib.bv_width I (L x)) as [w|] eqn:Ew; [|discriminate]. injection Hs as <-.
        destruct (leaf_bv g Hcu I x s w E2 Ht Ew) as [-> H0]. now apply mk_bv_nonneg. }
      destruct (is_int_const (L x) && negb idx) eqn:E3.
      { injection Hs as <-. apply andb_true_iff in E3 as [E3 _]. symmetry. now apply (leaf_int g Hcu x). }
      destruct (is_real_const (L x) && negb idx) eqn:E4.
      { injection Hs as <-. apply andb_true_iff in E4 as [E4 E5]. rewrite E5, andb_true_r in E3.
        symmetry. now apply (leaf_real g Hcu x). }
      destruct (Smtlib.bv_width I (L x)) as [w|] eqn:Ew; [|discriminate].
      destruct (Z.eqb w (-1)) eqn:Ez; [discriminate|]. apply Z.eqb_neq in Ez.
      cbn [negb] in Hs. injection Hs as <-. now apply width_strong with (e := L x).
  Qed.

  Lemma sort_app_sound ident a1 rest :
    Forall PS (a1 :: rest) -> forall s' s,
    sort_app I ident a1 rest = Some (Some s') -> type_of g (T (L ident :: a1 :: rest)) = Some s -> s' = s.
  Proof.
    intros IH s' s Hs Ht.
    destruct (type_of_app_inv g ident (a1 :: rest) s Ht) as [Hk | (Hk & ts & Hts & Hta)].
    { pose proof Hk as Hk'. apply kw_not_head, oracle_head_false in Hk.
      destruct Hk as (_ & K1 & K2 & K3 & K4 & K5 & K6 & _ & _ & K7 & K8 & K9 & K10).
      unfold sort_app in Hs. rewrite K1, K2, K3, K4, K5, K6, K7, K8, K9, K10 in Hs. cbn [andb] in Hs.
      destruct (alookup ident (dt_constructors I)) as [d|] eqn:Ed; [|discriminate].
      destruct (Hca ident d Ed) as [Hkw _]. congruence. }
    pose proof Hts as Hts0.
    cbn [map] in Hts. apply opt_all_cons in Hts as (t1 & ts' & Ht1 & Hts' & ->).
    inversion IH as [| ? ? IH1 IHr]; subst.
    unfold sort_app in Hs. cbv zeta in Hs.
    destruct (iss ident "ite" && Nat.ltb 2 (len (T (L ident :: a1 :: rest)))) eqn:E0.
    { apply andb_true_iff in E0 as [E0 _]. apply iss_true in E0. subst ident.
      apply type_app_shape in Hta. change (result_kind (lit "ite")) with RKSecond in Hta.
      destruct Hta as (u1 & t2 & r & E & ->). injection E as <- ->.
      destruct rest as [| a2 rest']; [discriminate|]. injection Hs as Hs.
      cbn [map] in Hts'. apply opt_all_cons in Hts' as (t & ts'' & Ht2 & _ & E). injection E as <- <-.
      inversion IHr as [| ? ? IH2 _]; subst. exact (IH2 false s' t2 Hs Ht2). }
    destruct (mem_str_l ident sort_bool_ops) eqn:Eb.
    { assert (Ho : mem_str_l ident oracle_ops = true) by (rewrite oracle_ops_mem, Eb; now rewrite ?orb_true_r).
      destruct (table_app g k_bool sort_bool_ops ident _ s chk_bool Hou Eb Ho Hta) as (Hk1 & Hk2 & Hsh).
      destruct (result_kind ident); try discriminate; try congruence; cbn [shape] in Hsh; unfold sBool in Hsh; congruence. }
    destruct (mem_str_l ident sort_int_ops) eqn:Ei.
    { assert (Ho : mem_str_l ident oracle_ops = true) by (rewrite oracle_ops_mem, Ei; now rewrite ?orb_true_r).
      destruct (table_app g k_int sort_int_ops ident _ s chk_int Hou Ei Ho Hta) as (Hk1 & Hk2 & Hsh).
      destruct (result_kind ident); try discriminate; try congruence; cbn [shape] in Hsh; unfold sInt in Hsh; congruence. }
    destruct (mem_str_l ident sort_real_ops) eqn:Er.
    { assert (Ho : mem_str_l ident oracle_ops = true) by (rewrite oracle_ops_mem, Er; now rewrite ?orb_true_r).
      destruct (table_app g k_real sort_real_ops ident _ s chk_real Hou Er Ho Hta) as (Hk1 & Hk2 & Hsh).
      destruct (result_kind ident); try discriminate; try congruence; cbn [shape] in Hsh; unfold sReal in Hsh; congruence. }
    destruct (mem_str_l ident sort_arith_ops) eqn:Ea.
    { assert (Ho : mem_str_l ident oracle_ops = true) by (rewrite oracle_ops_mem, Ea; now rewrite ?orb_true_r).
      destruct (table_app g k_arith sort_arith_ops ident _ s chk_arith Hou Ea Ho Hta) as (Hk1 & Hk2 & Hsh).
      destruct (result_kind ident); try discriminate; try congruence.
      destruct Hsh as (u1 & r & E & -> & Hall & _). injection E as <- <-.
      destruct (existsb (fun n => opt_sexp_eqb (get_sort I false n) (L (lit "Real"))) (a1 :: rest)) eqn:Eex.
      { injection Hs as <-. apply existsb_exists in Eex as (n & Hin & Hn). apply opt_sexp_eqb_true in Hn.
        destruct (opt_all_map_in _ _ _ n Hts0 Hin) as (tn & Htn & Hintn).
        rewrite Forall_forall in IH. transitivity tn; [exact (IH n Hin false _ tn Hn Htn)|].
        now apply all_eq_in with (ts := t1 :: ts'). }
      destruct (opt_sexp_eqb (get_sort I false a1) (L (lit "Int"))) eqn:Eint; [|discriminate].
      injection Hs as <-. apply opt_sexp_eqb_true in Eint. exact (IH1 false _ t1 Eint Ht1). }
    destruct (mem_str_l ident sort_fp1_ops) eqn:Ef1.
    { assert (Ho : mem_str_l ident oracle_ops = true) by (rewrite oracle_ops_mem, Ef1; now rewrite ?orb_true_r).
      destruct (table_app g k_first sort_fp1_ops ident _ s chk_fp1 Hou Ef1 Ho Hta) as (Hk1 & Hk2 & Hsh).
      destruct (result_kind ident); try discriminate; try congruence.
      destruct Hsh as (u1 & r & E & ->). injection E as <- <-. injection Hs as Hs.
      exact (IH1 false s' t1 Hs Ht1). }
    destruct (mem_str_l ident sort_fp2_ops) eqn:Ef2.
    { assert (Ho : mem_str_l ident oracle_ops = true) by (rewrite oracle_ops_mem, Ef2; now rewrite ?orb_true_r).
      destruct (table_app g k_second sort_fp2_ops ident _ s chk_fp2 Hou Ef2 Ho Hta) as (Hk1 & Hk2 & Hsh).
      destruct (result_kind ident); try discriminate; try congruence.
      destruct Hsh as (u1 & t2 & r & E & ->). injection E as <- ->.
      destruct rest as [| a2 rest']; [discriminate|]. injection Hs as Hs.
      cbn [map] in Hts'. apply opt_all_cons in Hts' as (t & ts'' & Ht2 & _ & E). injection E as <- <-.
      inversion IHr as [| ? ? IH2 _]; subst. exact (IH2 false s' t2 Hs Ht2). }
    destruct (iss ident "fp") eqn:Efp.
    { apply iss_true in Efp. subst ident.
      apply type_app_shape in Hta. change (result_kind (lit "fp")) with RKFp in Hta.
      destruct Hta as (ta & tb & tc & e & m & E & Hb & Hc & ->). injection E as <- ->.
      destruct rest as [| a2 [| a3 rest']]; try discriminate.
      cbn [map] in Hts'. apply opt_all_cons in Hts' as (t & ts'' & Ht2 & Hts'' & E). injection E as <- <-.
      apply opt_all_cons in Hts'' as (t & ts3 & Ht3 & _ & E). injection E as <- <-.
      destruct (Smtlib.bv_width I a2) as [ew|] eqn:Eew; [|discriminate].
      destruct (Smtlib.bv_width I a3) as [sw|] eqn:Esw; [|discriminate].
      destruct (Z.eqb ew (-1) || Z.eqb sw (-1)) eqn:Ez; [discriminate|].
      apply orb_false_iff in Ez as [Ez1 Ez2]. apply Z.eqb_neq in Ez1, Ez2.
      injection Hs as <-.
      destruct (bv_width_sound_weak_proof I g a2 ew tb Hla Hcu Hou Eew Ez1 Ht2) as [B1 B2].
      destruct (bv_width_sound_weak_proof I g a3 sw tc Hla Hcu Hou Esw Ez2 Ht3) as [C1 C2].
      assert (e = Z.to_N ew) as -> by congruence. assert (m = Z.to_N sw) as -> by congruence.
      unfold sFP. replace (Z.to_N (sw + 1)) with (Z.to_N sw + 1)%N by lia. reflexivity. }
    destruct (iss ident "select") eqn:Esel.
    { apply iss_true in Esel. subst ident.
      apply type_app_shape in Hta. change (result_kind (lit "select")) with RKSelect in Hta.
      destruct Hta as (a & i & e & j & E & ->). injection E as -> ->.
      destruct (get_sort I false a1) as [asort|] eqn:Eas; [|discriminate].
      destruct (is_array_sort asort); [|discriminate].
      rewrite (IH1 false asort _ Eas Ht1) in Hs. cbn [nth_child nth_error] in Hs. now injection Hs. }
    destruct (iss ident "store") eqn:Est.
    { apply iss_true in Est. subst ident.
      apply type_app_shape in Hta. change (result_kind (lit "store")) with RKFirst in Hta.
      destruct Hta as (u1 & r & E & ->). injection E as <- <-. injection Hs as Hs.
      exact (IH1 false s' t1 Hs Ht1). }
    destruct (alookup ident (dt_constructors I)) as [d|] eqn:Ed; [|discriminate].
    injection Hs as <-. destruct (Hca ident d Ed) as [_ Hd]. symmetry. eapply Hd; eauto.
  Qed.

  Lemma sort_idx_sound hl args s' s :
    sort_idx (T hl) = Some (Some s') -> type_of g (T (T hl :: args)) = Some s -> s' = s.
  Proof.
    intros Hs Ht.
    destruct (type_of_idx_inv g hl args s Ht) as (op & idx & ix & ts & -> & Hix & Hts & Hti).
    apply type_indexed_shape in Hti as (ks & Hks & D).
    pose proof (get_indices_spec (L (lit "_")) (L op) idx ix ks Hix Hks) as Hgi.
    unfold sort_idx in Hs.
    destruct (is_indexed_operator (T (L (lit "_") :: L op :: idx)) "divisible" 1) eqn:Ed.
    { apply iio_inv in Ed as [-> _]. injection Hs as <-. kill_disj D. now subst s. }
    destruct (is_indexed_operator (T (L (lit "_") :: L op :: idx)) "to_fp" 2) eqn:Ef.
    { apply iio_inv in Ef as [-> _]. cbn [orb] in Hs. kill_disj D.
      destruct D as (e & m & -> & ->). rewrite Hgi in Hs. cbn [map] in Hs. injection Hs as <-.
      rewrite !N2Z.id. reflexivity. }
    destruct (is_indexed_operator (T (L (lit "_") :: L op :: idx)) "to_fp_unsigned" 2) eqn:Efu.
    { exfalso. apply iio_inv in Efu as [-> _]. kill_disj D. }
    discriminate.
  Qed.

  Theorem sort_sound_all : forall e, PS e.
  Proof.
    induction e as [x | l IH] using sexp_ind'; [apply sort_leaf|].
    intros idx s' s Hs Ht. unfold get_sort in Hs.
    destruct (has_comment_operand (T l)); [discriminate|]. rewrite sort_aux_T in Hs.
    destruct (is_bv_const (T l)) eqn:Ec.
    { destruct (Smtlib.bv_width I (T l)) as [w|] eqn:Ew; [|discriminate]. injection Hs as <-.
      pose proof (bv_const_width_nonneg I (T l) w Ec Ew) as H0.
      apply width_strong with (e := T l); auto. lia. }
    destruct (is_real_const (T l) && negb idx) eqn:Er.
    { injection Hs as <-. apply andb_true_iff in Er as [Er _].
      destruct l as [| [h|] [| a [| b [|]]]]; try discriminate.
      cbn [is_real_const] in Er. apply andb_true_iff in Er as [Er _]. apply andb_true_iff in Er as [Er _].
      apply iss_true in Er. subst h.
      destruct (type_of_app_inv g _ _ s Ht) as [Hk | (_ & ts & _ & Hta)]; [vm_compute in Hk; discriminate|].
      apply type_app_shape in Hta. change (result_kind (lit "/")) with RKReal in Hta. now symmetry. }
    destruct (Smtlib.bv_width I (T l)) as [w|] eqn:Ew; [|discriminate].
    destruct (Z.eqb w (-1)) eqn:Ez.
    2:{ apply Z.eqb_neq in Ez. cbn [negb] in Hs. injection Hs as <-. now apply width_strong with (e := T l). }
    cbn [negb] in Hs.
    destruct l as [| [ident | hl] [| a1 rest]]; try discriminate.
    - destruct (sort_T I (L ident :: a1 :: rest)) as [r|] eqn:Est; [|discriminate]. subst r.
      cbn [sort_T] in Est. inversion IH as [| ? ? _ IH']; subst.
      exact (sort_app_sound ident a1 rest IH' s' s Est Ht).
    - destruct (sort_T I [T hl]) as [r|] eqn:Est; [|discriminate]. subst r.
      exact (sort_idx_sound hl [] s' s Est Ht).
    - destruct (sort_T I (T hl :: a1 :: rest)) as [r|] eqn:Est; [|discriminate]. subst r.
      exact (sort_idx_sound hl (a1 :: rest) s' s Est Ht).
  Qed.
End Sorts.

(* W2 *)
Theorem get_sort_sound_proof : forall I g e idx s' s,
  lookup_agrees I g -> consts_unbound g -> ops_unbound g -> sorts_canon I -> cons_agree I g ->
  Smtlib.get_sort I idx e = Some s' -> type_of g e = Some s -> s' = s.
Proof. intros I g e idx s' s H1 H2 H3 H4 H5. exact (sort_sound_all I g H1 H2 H3 H4 H5 e idx s' s). Qed.
