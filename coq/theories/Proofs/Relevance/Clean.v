(* The repaired relevance test (Model/Relevance.v [relevant] = [relevant_raw] on
   the script cleaned by smtlib.without_comments): the model's cleaning is the
   specification's cleaning (Spec/TheorySpec.v [clean_spec]), hence completeness
   for the wide specification (comments removed, quoted symbols unquoted);
   monotonicity and order-insensitivity carry over because cleaning works
   command by command. *)
From Coq Require Import Permutation.
From DD Require Import Model.Relevance Spec.TheorySpec.
From DD Require Import Proofs.Relevance.RelBase Proofs.Relevance.Complete Proofs.Relevance.Mono Proofs.Relevance.Necessary.
Local Open Scope list_scope.

Definition olist1 (o : option sexp) : list sexp := match o with Some y => [y] | None => [] end.

Lemma is_comment_agree s : is_comment s = is_comment_leaf s.
Proof. destruct s; reflexivity. Qed.

Lemma plain_symbol_agree s : plain_symbol s = unquote s.
Proof.
  unfold plain_symbol, unquote. destruct s as [| b r]; [reflexivity |].
  destruct r as [| c r'].
  - cbn. rewrite andb_false_r. reflexivity.
  - change (hd 0%N (b :: c :: r')) with b.
    change (last (b :: c :: r') 0%N) with (last (c :: r') 0%N).
    change (tl (b :: c :: r')) with (c :: r').
    change (Nat.ltb 2 (length (b :: c :: r'))) with (Nat.leb 2 (length (c :: r'))).
    unfold cBAR. destruct (N.eqb b 124); destruct (Nat.leb 2 (length (c :: r')));
      destruct (N.eqb (last (c :: r') 0%N) 124); reflexivity.
Qed.

Definition clean_list (l : list sexp) : list sexp := flat_map (fun e => olist1 (without_comments e)) l.

Lemma without_comments_T l : without_comments (T l) = Some (T (clean_list l)).
Proof.
  cbn [without_comments]. f_equal. f_equal. unfold clean_list.
  induction l as [| x r IH]; [reflexivity |]. cbn [flat_map]. rewrite IH.
  destruct (without_comments x); reflexivity.
Qed.

Lemma clean_script_eq script : clean_script script = clean_list script.
Proof. reflexivity. Qed.

Lemma strip_agree : forall e, strip e = olist1 (without_comments e).
Proof.
  induction e as [s | l IH] using sexp_ind'.
  - cbn [strip without_comments]. rewrite is_comment_agree, plain_symbol_agree.
    destruct (is_comment_leaf s); reflexivity.
  - rewrite without_comments_T. cbn [strip olist1]. f_equal. f_equal. unfold clean_list.
    induction IH as [| x r Hx _ IHr]; [reflexivity |]. cbn [flat_map]. now rewrite Hx, IHr.
Qed.

Lemma clean_spec_agrees_stmt : forall script, clean_spec script = clean_script script.
Proof.
  intros script. unfold clean_spec, clean_script.
  induction script as [| x r IH]; [reflexivity |]. cbn [flat_map]. rewrite IH, strip_agree. reflexivity.
Qed.

Lemma relevant_unfold_stmt : forall n script, relevant n script = relevant_raw n (clean_script script).
Proof. reflexivity. Qed.

(* completeness for the wide specification *)
Lemma completeness_wide_stmt : forall t script,
  spec_declares_theory_wide t script -> relevant (thy_name t) script = true.
Proof.
  intros t script H. unfold spec_declares_theory_wide in H. rewrite clean_spec_agrees_stmt in H.
  unfold relevant. now apply completeness_stmt.
Qed.

Lemma not_relevant_not_declared_wide_stmt : forall t script,
  relevant (thy_name t) script = false -> ~ spec_declares_theory_wide t script.
Proof.
  intros t script Hr Hs. apply completeness_wide_stmt in Hs. rewrite Hs in Hr. discriminate.
Qed.

Lemma spec_wide_needs_declaring_command_stmt : forall t script,
  spec_declares_theory_wide t script -> existsb may_declare (clean_script script) = true.
Proof.
  intros t script H. unfold spec_declares_theory_wide in H. rewrite clean_spec_agrees_stmt in H.
  now apply (spec_needs_declaring_command_stmt t).
Qed.

(* cleaning works command by command *)
Lemma clean_script_in script y :
  In y (clean_script script) <-> exists c, In c script /\ without_comments c = Some y.
Proof.
  unfold clean_script. rewrite in_flat_map. split; intros (c & Hc & H); exists c; (split; [exact Hc |]).
  - destruct (without_comments c) as [z |]; [| destruct H]. destruct H as [-> | []]. reflexivity.
  - rewrite H. now left.
Qed.

Lemma clean_script_app a b : clean_script (a ++ b) = clean_script a ++ clean_script b.
Proof. unfold clean_script. apply flat_map_app. Qed.

Lemma clean_script_incl s1 s2 :
  (forall c, In c s1 -> In c s2) -> forall y, In y (clean_script s1) -> In y (clean_script s2).
Proof.
  intros Hi y Hy. apply clean_script_in in Hy as (c & Hc & H). apply clean_script_in. exists c.
  split; [now apply Hi | exact H].
Qed.

Lemma relevant_clean_incl_stmt : forall n s1 s2,
  (forall c, In c s1 -> In c s2) -> relevant n s1 = true -> relevant n s2 = true.
Proof.
  intros n s1 s2 Hi. unfold relevant. apply relevant_incl_stmt. now apply clean_script_incl.
Qed.

Lemma relevant_clean_app_stmt : forall n a b, relevant n (a ++ b) = relevant n a || relevant n b.
Proof. intros n a b. unfold relevant. rewrite clean_script_app. apply relevant_app_stmt. Qed.

Lemma relevant_clean_insert_stmt : forall n a c b,
  relevant n (a ++ b) = true -> relevant n (a ++ c :: b) = true.
Proof.
  intros n a c b. apply relevant_clean_incl_stmt. intros x Hx.
  apply in_app_or in Hx as [Hx | Hx]; apply in_or_app; [now left | right; now right].
Qed.

Lemma relevant_clean_same_commands_stmt : forall n s1 s2,
  (forall c, In c s1 <-> In c s2) -> relevant n s1 = relevant n s2.
Proof.
  intros n s1 s2 Hiff. unfold relevant. apply relevant_same_commands_stmt. intros y.
  split; apply clean_script_incl; intros c; apply Hiff.
Qed.

Lemma relevant_clean_perm_stmt : forall n s1 s2, Permutation s1 s2 -> relevant n s1 = relevant n s2.
Proof.
  intros n s1 s2 Hp. apply relevant_clean_same_commands_stmt. intros c. split.
  - apply Permutation_in. exact Hp.
  - apply Permutation_in. apply Permutation_sym. exact Hp.
Qed.

Lemma relevant_clean_pointwise_stmt : forall n s,
  has_is_relevant n = true ->
  (relevant n s = true <-> exists c, In c s /\ relevant n [c] = true).
Proof.
  intros n s Hn. unfold relevant. rewrite (relevant_pointwise_stmt n (clean_script s) Hn). split.
  - intros (y & Hy & Hr). apply clean_script_in in Hy as (c & Hc & Hw). exists c. split; [exact Hc |].
    unfold clean_script. cbn [flat_map]. rewrite Hw. exact Hr.
  - intros (c & Hc & Hr). unfold clean_script in Hr. cbn [flat_map] in Hr. rewrite app_nil_r in Hr.
    destruct (without_comments c) as [y |] eqn:Hw.
    + exists y. split; [apply clean_script_in; now exists c | exact Hr].
    + rewrite relevant_nil_stmt, Hn in Hr. discriminate.
Qed.

(* a script without comments and quoted symbols is left as it is: on such
   scripts the repaired test is the raw one *)
Definition plain_leaf (s : str) : bool := negb (is_comment_leaf s) && str_eqb (unquote s) s.
Fixpoint plain (e : sexp) : bool :=
  match e with
  | L s => plain_leaf s
  | T l => forallb plain l
  end.

Lemma without_comments_plain : forall e, plain e = true -> without_comments e = Some e.
Proof.
  induction e as [s | l IH] using sexp_ind'; intros Hp.
  - cbn [plain] in Hp. unfold plain_leaf in Hp. apply andb_true_iff in Hp as (Hc & Hu).
    apply str_eqb_eq in Hu. cbn [without_comments]. destruct (is_comment_leaf s); [discriminate |].
    now rewrite Hu.
  - rewrite without_comments_T. f_equal. f_equal. cbn [plain] in Hp. unfold clean_list.
    induction IH as [| x r Hx _ IHr]; [reflexivity |]. cbn [forallb] in Hp.
    apply andb_true_iff in Hp as (Hpx & Hpr). cbn [flat_map]. rewrite (Hx Hpx). cbn [olist1 app].
    f_equal. now apply IHr.
Qed.

Lemma clean_script_plain script : forallb plain script = true -> clean_script script = script.
Proof.
  induction script as [| x r IH]; intros Hp; [reflexivity |]. cbn [forallb] in Hp.
  apply andb_true_iff in Hp as (Hx & Hr). unfold clean_script. cbn [flat_map].
  rewrite (without_comments_plain x Hx). cbn [app]. f_equal. now apply IH.
Qed.

Lemma relevant_plain_stmt : forall n script,
  forallb plain script = true -> relevant n script = relevant_raw n script.
Proof. intros n script Hp. unfold relevant. now rewrite clean_script_plain. Qed.

(* completeness for the narrow specification on scripts without comments and
   quoted symbols *)
Lemma completeness_plain_stmt : forall t script,
  forallb plain script = true -> spec_declares_theory t script -> relevant (thy_name t) script = true.
Proof.
  intros t script Hp Hs. rewrite (relevant_plain_stmt _ script Hp). now apply completeness_stmt.
Qed.
