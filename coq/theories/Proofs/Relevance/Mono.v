(* The relevance test looks at every top-level node on its own: it is monotone
   in the script (more commands never make a theory irrelevant) and does not
   depend on the order or multiplicity of the commands. *)
From Coq Require Import Permutation.
From DD Require Import Model.Relevance.
Local Open Scope list_scope.

Lemma relevant_incl_stmt : forall n s1 s2,
  (forall c, In c s1 -> In c s2) -> relevant_raw n s1 = true -> relevant_raw n s2 = true.
Proof.
  intros n s1 s2 Hi. unfold relevant_raw. destruct (is_relevant_of n) as [p |]; [| intros _; reflexivity].
  intros H. apply existsb_exists in H as (c & Hc & Hp). apply existsb_exists.
  exists c. split; [now apply Hi | exact Hp].
Qed.

Lemma relevant_app_stmt : forall n a b, relevant_raw n (a ++ b) = relevant_raw n a || relevant_raw n b.
Proof.
  intros n a b. unfold relevant_raw. destruct (is_relevant_of n) as [p |]; [apply existsb_app | reflexivity].
Qed.

(* inserting a command anywhere *)
Lemma relevant_insert_stmt : forall n a c b,
  relevant_raw n (a ++ b) = true -> relevant_raw n (a ++ c :: b) = true.
Proof.
  intros n a c b. apply relevant_incl_stmt. intros x Hx.
  apply in_app_or in Hx as [Hx | Hx]; apply in_or_app; [now left | right; now right].
Qed.

Lemma relevant_same_commands_stmt : forall n s1 s2,
  (forall c, In c s1 <-> In c s2) -> relevant_raw n s1 = relevant_raw n s2.
Proof.
  intros n s1 s2 Hiff.
  destruct (relevant_raw n s1) eqn:H1.
  - symmetry. apply (relevant_incl_stmt n s1 s2); [intros c; apply Hiff | exact H1].
  - destruct (relevant_raw n s2) eqn:H2; [| reflexivity].
    rewrite <- H1. apply (relevant_incl_stmt n s2 s1); [intros c; apply Hiff | exact H2].
Qed.

Lemma relevant_perm_stmt : forall n s1 s2, Permutation s1 s2 -> relevant_raw n s1 = relevant_raw n s2.
Proof.
  intros n s1 s2 Hp. apply relevant_same_commands_stmt. intros c. split.
  - apply Permutation_in. exact Hp.
  - apply Permutation_in. apply Permutation_sym. exact Hp.
Qed.

(* for a theory with is_relevant: relevant_raw = some top-level command is relevant
   on its own; the empty script is relevant for none of them *)
Lemma relevant_pointwise_stmt : forall n s,
  has_is_relevant n = true ->
  (relevant_raw n s = true <-> exists c, In c s /\ relevant_raw n [c] = true).
Proof.
  intros n s. unfold has_is_relevant, relevant_raw. destruct (is_relevant_of n) as [p |]; [intros _ | discriminate].
  rewrite existsb_exists. split; intros (c & Hc & Hp); exists c; (split; [exact Hc |]).
  - cbn [existsb]. now rewrite Hp.
  - cbn [existsb] in Hp. now rewrite orb_false_r in Hp.
Qed.

Lemma relevant_nil_stmt : forall n, relevant_raw n [] = negb (has_is_relevant n).
Proof.
  intros n. unfold has_is_relevant, relevant_raw. destruct (is_relevant_of n); reflexivity.
Qed.
