(* Basic facts for the relevance model (Model/Relevance.v): the pre-order list
   of subterms, nodes.contains, and the link between the specification's
   sub-term relation (Spec/TheorySpec.v) and the model's traversal. *)
From DD Require Import Model.Relevance Spec.TheorySpec.
Local Open Scope list_scope.

Lemma rsubterms_T l : subterms (T l) = T l :: flat_map subterms l.
Proof. reflexivity. Qed.

Lemma rsub_refl e : In e (subterms e).
Proof. destruct e as [s | l]; [now left | rewrite rsubterms_T; now left]. Qed.

Lemma rsub_child l a c : In a l -> In c (subterms a) -> In c (subterms (T l)).
Proof. intros Ha Hc. rewrite rsubterms_T. right. apply in_flat_map. now exists a. Qed.

Lemma rsub_inv l c : In c (subterms (T l)) -> c = T l \/ exists a, In a l /\ In c (subterms a).
Proof.
  rewrite rsubterms_T. intros [H | H]; [left; now symmetry | right]. now apply in_flat_map in H.
Qed.

Lemma rsub_trans : forall c a b, In a (subterms b) -> In b (subterms c) -> In a (subterms c).
Proof.
  induction c as [s | l IH] using sexp_ind'; intros a b Hab Hbc.
  - destruct Hbc as [<- | []]. exact Hab.
  - rewrite Forall_forall in IH. apply rsub_inv in Hbc as [-> | (x & Hx & Hb)]; [exact Hab|].
    apply (rsub_child l x); [assumption|]. now apply (IH x Hx a b).
Qed.

(* a direct child is a subterm *)
Lemma rsub_child1 l a : In a l -> In a (subterms (T l)).
Proof. intros Ha. apply (rsub_child l a); [assumption | apply rsub_refl]. Qed.

(* the specification's sub-term relation is contained in the traversal *)
Lemma subterm_in_subterms e c : subterm e c -> In e (subterms c).
Proof.
  intros H. induction H as [e | a l e Ha _ IH].
  - apply rsub_refl.
  - now apply (rsub_child l a).
Qed.

Lemma in_subterms_subterm : forall c e, In e (subterms c) -> subterm e c.
Proof.
  induction c as [s | l IH] using sexp_ind'; intros e He.
  - destruct He as [<- | []]. constructor.
  - rewrite Forall_forall in IH. apply rsub_inv in He as [-> | (a & Ha & He)]; [constructor|].
    apply (st_child a l e Ha). now apply IH.
Qed.

(* nodes.contains *)
Lemma contains_intro f a c : In a (subterms c) -> f a = true -> contains f c = true.
Proof. intros Ha Hf. unfold contains. apply existsb_exists. now exists a. Qed.

Lemma contains_elim f c : contains f c = true -> exists a, In a (subterms c) /\ f a = true.
Proof. unfold contains. intros H. now apply existsb_exists in H. Qed.

Lemma contains_sub f a c : In a (subterms c) -> contains f a = true -> contains f c = true.
Proof.
  intros Ha H. apply contains_elim in H as (x & Hx & Hf).
  apply (contains_intro f x c); [now apply (rsub_trans c x a) | assumption].
Qed.
