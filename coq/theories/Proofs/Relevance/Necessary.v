(* A necessary condition of the specification, used to show that the model
   over-approximates it: a command that declares something of a theory
   (Spec/TheorySpec.v) is one of the declaring / defining commands, or an assert
   whose term contains a quantifier. *)
From DD Require Import Model.Relevance Spec.TheorySpec Proofs.Relevance.RelBase.
Open Scope string_scope.
Local Open Scope list_scope.

Definition decl_heads : list string :=
  ["declare-const"; "declare-var"; "declare-fun"; "define-fun"; "define-fun-rec"; "define-funs-rec";
   "define-const"; "define-sort"; "declare-datatype"; "declare-codatatype"; "declare-datatypes";
   "declare-codatatypes"].

Definition may_declare (c : sexp) : bool :=
  match c with
  | T (L h :: _) =>
      existsb (iss h) decl_heads || (iss h "assert" && contains (leaf_among ["forall"; "exists"]) c)
  | _ => false
  end.

Lemma may_declare_assert t :
  contains (leaf_among ["forall"; "exists"]) (T [sym "assert"; t]) = true ->
  may_declare (T [sym "assert"; t]) = true.
Proof.
  intros H. unfold may_declare. unfold sym in *. cbv beta iota. rewrite H. vm_compute. reflexivity.
Qed.

Lemma binder_sort_quantifier S e : binder_sort S e -> contains (leaf_among ["forall"; "exists"]) e = true.
Proof.
  intros (q & vars & body & x & Hq & Hsub & _).
  apply subterm_in_subterms in Hsub.
  apply (contains_intro _ q).
  - apply (rsub_trans e q (T [q; T vars; body])); [| exact Hsub]. apply rsub_child1. now left.
  - destruct Hq as [-> | ->]; vm_compute; reflexivity.
Qed.

Lemma cmd_sort_may S c : cmd_sort S c -> may_declare c = true.
Proof.
  intros H.
  destruct H as [x | x | f args R Hin | f args | k f formals R body x Hk Hin | k f formals body Hk
                | k f formals R body Hk Hb | decls bodies f formals R x Hd Hin | decls bodies f formals Hd
                | decls bodies b Hin Hb | x body | x R body Hb | name params | t Hb
                | k name dec Hk Hd | k sorts decs dec Hk Hin Hd];
    repeat match goal with
           | Hk : fun_def_kw _ |- _ => destruct Hk as [-> | ->]
           | Hk : dt1_kw _ |- _ => destruct Hk as [-> | ->]
           | Hk : dtn_kw _ |- _ => destruct Hk as [-> | ->]
           end;
    try (vm_compute; reflexivity).
  apply may_declare_assert. apply (contains_sub _ t); [| now apply (binder_sort_quantifier S)].
  apply rsub_child1. right. now left.
Qed.

Lemma cmd_declares_may t c : cmd_declares t c -> may_declare c = true.
Proof.
  intros [(S & HS & _) | (_ & (k & rest & Hk & ->))].
  - now apply (cmd_sort_may S).
  - destruct Hk as [[-> | ->] | [-> | ->]]; vm_compute; reflexivity.
Qed.

Lemma spec_needs_declaring_command_stmt : forall t script,
  spec_declares_theory t script -> existsb may_declare script = true.
Proof.
  intros t script (c & Hc & Hd). apply existsb_exists. exists c. split; [exact Hc |].
  now apply (cmd_declares_may t).
Qed.

(* Refuting the specification on a concrete script by case analysis (used for
   the recorded over-approximation examples): no sort position of any command
   holds a sort that mentions the theory.  For scripts without quantifiers. *)
Ltac kw_cases :=
  repeat match goal with
         | Hk : fun_def_kw _ |- _ => destruct Hk; subst
         | Hk : dt1_kw _ |- _ => destruct Hk; subst
         | Hk : dtn_kw _ |- _ => destruct Hk; subst
         end.

Ltac refute_mentions H :=
  let Hts := fresh "Hts" in let Hf := fresh "Hf" in let Hin := fresh "Hin" in let Hm := fresh "Hm" in
  inversion H as [? Hts | ? ? ? Hf Hin Hm]; subst;
  first [ solve [inversion Hts]
        | solve [now elim Hf]
        | cbn [In] in Hin; repeat (destruct Hin as [<- | Hin]; [refute_mentions Hm |]); contradiction ].

Ltac refute_command Hd :=
  let S := fresh "S" in let HS := fresh "HS" in let Hm := fresh "Hm" in let E := fresh "E" in
  let Hdt := fresh "Hdt" in let k := fresh "k" in let rest := fresh "rest" in let Hk := fresh "Hk" in
  let Heq := fresh "Heq" in
  destruct Hd as [(S & HS & Hm) | (E & Hdt)];
  [ inversion HS; subst; kw_cases; try discriminate; refute_mentions Hm
  | first [ discriminate E
          | destruct Hdt as (k & rest & Hk & Heq); destruct Hk as [[Hk | Hk] | [Hk | Hk]]; subst; discriminate ] ].

Ltac refute_spec :=
  let c := fresh "c" in let Hc := fresh "Hc" in let Hd := fresh "Hd" in
  intros (c & Hc & Hd); vm_compute in Hc;
  repeat (destruct Hc as [<- | Hc]; [refute_command Hd |]); contradiction.
