(* Completeness of ddSMT's relevance test (Model/Relevance.v) with respect to
   the SMT-LIB level specification Spec/TheorySpec.v: a theory of which the
   script declares something is reported relevant, hence never disabled by
   automatic detection. *)
From DD Require Import Model.Relevance Spec.TheorySpec Proofs.Relevance.RelBase.
Open Scope string_scope.
Local Open Scope list_scope.

(* what the model looks for inside a top-level node, per theory *)
Definition thy_pred (t : thy) (e : sexp) : bool :=
  match t with
  | Arith => leaf_among ["Int"; "Real"] e
  | BV => is_bv_sort e
  | FP => is_fp_sort e || is_rm_sort e
  | Strings => leaf_among ["String"; "RegLan"] e || is_seq_type e
  | Datatypes => false
  end.

Definition thy_is_relevant (t : thy) : sexp -> bool :=
  match t with
  | Arith => arith_is_relevant
  | BV => bv_is_relevant
  | FP => fp_is_relevant
  | Strings => strings_is_relevant
  | Datatypes => dt_is_relevant
  end.

Lemma is_relevant_of_thy t : is_relevant_of (thy_name t) = Some (thy_is_relevant t).
Proof. destruct t; vm_compute; reflexivity. Qed.

Lemma theory_sort_pred t S : theory_sort t S -> thy_pred t S = true.
Proof. intros H. destruct H; vm_compute; reflexivity. Qed.

Lemma mentions_witness t S : sort_mentions t S -> exists a, In a (subterms S) /\ thy_pred t a = true.
Proof.
  intros H. induction H as [S HS | f args a Hf Ha _ (x & Hx & Hp)].
  - exists S. split; [apply rsub_refl | now apply theory_sort_pred].
  - exists x. split; [| exact Hp]. apply (rsub_child (f :: args) a); [now right | exact Hx].
Qed.

Ltac rel_step a := apply (rsub_child _ a); [first [assumption | cbn [In]; auto 10] |].
Ltac rel_fin := apply rsub_child1; first [assumption | cbn [In]; auto 10].

Lemma binder_sort_sub S e : binder_sort S e -> In S (subterms e).
Proof.
  intros (q & vars & body & x & _ & Hsub & Hin).
  apply subterm_in_subterms in Hsub.
  apply (rsub_trans e S (T [q; T vars; body])); [| exact Hsub].
  rel_step (T vars). rel_step (T [x; S]). rel_fin.
Qed.

Lemma field_sort_sub S ctors : field_sort S ctors -> In S (subterms (T ctors)).
Proof.
  intros (c & fields & sel & Hc & Hf).
  rel_step (T (c :: fields)). rel_step (T [sel; S]). rel_fin.
Qed.

Lemma dtdec_sort_sub S d : dtdec_sort S d -> In S (subterms d).
Proof.
  intros [ctors H | params ctors H].
  - now apply field_sort_sub.
  - rel_step (T ctors). now apply field_sort_sub.
Qed.

Lemma cmd_sort_ident S c : cmd_sort S c -> node_has_ident c = true.
Proof.
  intros H. destruct H;
    repeat match goal with
           | Hk : fun_def_kw _ |- _ => destruct Hk as [-> | ->]
           | Hk : dt1_kw _ |- _ => destruct Hk as [-> | ->]
           | Hk : dtn_kw _ |- _ => destruct Hk as [-> | ->]
           end; reflexivity.
Qed.

Lemma cmd_sort_sub S c : cmd_sort S c -> In S (subterms c).
Proof.
  intros H.
  destruct H as [x | x | f args R Hin | f args | k f formals R body x Hk Hin | k f formals body Hk
                | k f formals R body Hk Hb | decls bodies f formals R x Hd Hin | decls bodies f formals Hd
                | decls bodies b Hin Hb | x body | x R body Hb | name params | t Hb
                | k name dec Hk Hd | k sorts decs dec Hk Hin Hd].
  - rel_fin.
  - rel_fin.
  - rel_step (T args). rel_fin.
  - rel_fin.
  - rel_step (T formals). rel_step (T [x; S]). rel_fin.
  - rel_fin.
  - apply (rsub_trans _ S body); [now apply binder_sort_sub | rel_fin].
  - rel_step (T decls). rel_step (T [f; T formals; R]). rel_step (T formals). rel_step (T [x; S]). rel_fin.
  - rel_step (T decls). rel_step (T [f; T formals; S]). rel_fin.
  - apply (rsub_trans _ S b); [now apply binder_sort_sub |]. rel_step (T bodies). rel_fin.
  - rel_fin.
  - apply (rsub_trans _ S body); [now apply binder_sort_sub | rel_fin].
  - rel_fin.
  - apply (rsub_trans _ S t); [now apply binder_sort_sub | rel_fin].
  - apply (rsub_trans _ S dec); [now apply dtdec_sort_sub | rel_fin].
  - apply (rsub_trans _ S dec); [now apply dtdec_sort_sub |]. rel_step (T decs). rel_fin.
Qed.

Lemma witness_relevant t c a :
  node_has_ident c = true -> In a (subterms c) -> thy_pred t a = true -> thy_is_relevant t c = true.
Proof.
  intros Hid Ha Hp. destruct t; cbn [thy_is_relevant thy_pred] in *.
  - unfold arith_is_relevant. rewrite Hid. cbn [andb]. now apply (contains_intro _ a).
  - unfold bv_is_relevant. rewrite Hid. cbn [andb]. now apply (contains_intro _ a).
  - unfold fp_is_relevant. rewrite Hid. cbn [andb].
    apply orb_true_iff in Hp as [Hp | Hp]; apply orb_true_iff; [left | right]; now apply (contains_intro _ a).
  - unfold strings_is_relevant. rewrite Hid. cbn [andb].
    apply orb_true_iff in Hp as [Hp | Hp]; apply orb_true_iff; [left | right]; now apply (contains_intro _ a).
  - discriminate.
Qed.

Lemma dt_command_relevant c : dt_command c -> dt_is_relevant c = true.
Proof.
  intros (k & rest & Hk & ->). destruct Hk as [[-> | ->] | [-> | ->]]; vm_compute; reflexivity.
Qed.

Lemma cmd_declares_relevant t c : cmd_declares t c -> thy_is_relevant t c = true.
Proof.
  intros [(S & HS & Hm) | (-> & Hdt)].
  - pose proof (cmd_sort_ident S c HS) as Hid. apply cmd_sort_sub in HS.
    apply mentions_witness in Hm as (a & Ha & Hp).
    apply (witness_relevant t c a Hid); [| exact Hp]. now apply (rsub_trans c a S).
  - now apply dt_command_relevant.
Qed.

Lemma completeness_stmt : forall t script,
  spec_declares_theory t script -> relevant_raw (thy_name t) script = true.
Proof.
  intros t script (c & Hc & Hd). unfold relevant_raw. rewrite is_relevant_of_thy.
  apply existsb_exists. exists c. split; [exact Hc | now apply cmd_declares_relevant].
Qed.

(* contrapositive *)
Lemma not_relevant_not_declared_stmt : forall t script,
  relevant_raw (thy_name t) script = false -> ~ spec_declares_theory t script.
Proof.
  intros t script Hr Hs. apply completeness_stmt in Hs. rewrite Hs in Hr. discriminate.
Qed.
