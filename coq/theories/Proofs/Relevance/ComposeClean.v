(* Composition of the repaired relevance test ([relevant]: the tests on the
   script cleaned by smtlib.without_comments) with the options model over the
   generated registry, for the wide specification (comments removed, quoted
   symbols unquoted).  The statements about [relevant_raw] are in Compose.v. *)
From DD Require Import Base.Lit Model.Options Spec.EnabledSpec Gen.Tables Model.Relevance Spec.TheorySpec.
From DD Require Import Proofs.Opt.TablesOk Props.C14 Proofs.Relevance.Complete Proofs.Relevance.Compose
  Proofs.Relevance.Clean.
Local Open Scope list_scope.

Definition rel_of (script : list sexp) : str -> bool := fun n => relevant n script.

Lemma rel_of_clean script : rel_of script = rel_of_raw (clean_script script).
Proof. reflexivity. Qed.

Lemma detection_keeps_wide_stmt : forall script s T t co,
  In t theories -> t_name t = thy_name T -> In co (opts_of t) ->
  gv s (t_name t) = None ->
  spec_declares_theory_wide T script ->
  mv (auto_detect theories (rel_of script) s) co = mv s co.
Proof.
  intros script s T t co Ht Hn Hco Hg Hs.
  rewrite (auto_detect_mv_spec theories (rel_of script) s t co registry_ok_gen Ht Hco).
  rewrite Hg. unfold rel_of. rewrite Hn, (completeness_wide_stmt T script Hs).
  cbn [negb]. rewrite andb_false_r. reflexivity.
Qed.

Lemma detection_keeps_plain_stmt : forall script s T t co,
  In t theories -> t_name t = thy_name T -> In co (opts_of t) ->
  gv s (t_name t) = None ->
  forallb plain script = true -> spec_declares_theory T script ->
  mv (auto_detect theories (rel_of script) s) co = mv s co.
Proof.
  intros script s T t co Ht Hn Hco Hg Hp Hs.
  rewrite (auto_detect_mv_spec theories (rel_of script) s t co registry_ok_gen Ht Hco).
  rewrite Hg. unfold rel_of. rewrite Hn, (completeness_plain_stmt T script Hp Hs).
  cbn [negb]. rewrite andb_false_r. reflexivity.
Qed.

Lemma explicit_group_untouched_clean_stmt : forall script s t co v,
  In t theories -> In co (opts_of t) -> gv s (t_name t) = Some v ->
  mv (auto_detect theories (rel_of script) s) co = mv s co.
Proof.
  intros script s t co v. rewrite rel_of_clean. apply explicit_group_untouched_stmt.
Qed.

Lemma changed_only_if_irrelevant_clean_stmt : forall script s t co,
  In t theories -> In co (opts_of t) ->
  mv (auto_detect theories (rel_of script) s) co <> mv s co ->
  gv s (t_name t) = None /\ has_is_relevant (t_name t) = true
  /\ relevant (t_name t) script = false
  /\ mv (auto_detect theories (rel_of script) s) co = false.
Proof.
  intros script s t co. rewrite rel_of_clean. apply changed_only_if_irrelevant_stmt.
Qed.

Lemma disabled_only_if_wide_stmt : forall script s T t co,
  In t theories -> t_name t = thy_name T -> In co (opts_of t) ->
  mv (auto_detect theories (rel_of script) s) co <> mv s co ->
  gv s (t_name t) = None /\ relevant (thy_name T) script = false
  /\ ~ spec_declares_theory_wide T script.
Proof.
  intros script s T t co Ht Hn Hco Hne.
  destruct (changed_only_if_irrelevant_clean_stmt script s t co Ht Hco Hne) as (Hg & _ & Hr & _).
  rewrite Hn in Hr. split; [exact Hg |]. split; [exact Hr |].
  now apply not_relevant_not_declared_wide_stmt.
Qed.

Lemma declared_theory_classes_wide_stmt : forall os script T t c,
  theory_of theories c = Some t -> t_name t = thy_name T ->
  spec_declares_theory_wide T script ->
  enabled theories (auto_detect theories (rel_of script) (parse_opts theories os)) c
  = enabled_spec theories os (fun _ => true) c.
Proof.
  intros os script T t c Hth Hn Hs. rewrite enabled_correct_gen.
  unfold enabled_spec. rewrite Hth. destruct (lookup_cls theories c) as [co |]; [| reflexivity].
  unfold rel_of. rewrite Hn, (completeness_wide_stmt T script Hs). cbn [negb].
  rewrite !andb_false_r. reflexivity.
Qed.
