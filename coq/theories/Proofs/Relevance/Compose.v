(* Composition of the relevance model with the options model (Model/Options.v)
   over the generated registry Gen/Tables.v: with rel := relevant_raw . script,
   automatic detection leaves the options of a theory group alone whenever the
   script declares something of that theory (Spec/TheorySpec.v), and whenever it
   changes an option, the user did not set the group, the theory is reported
   irrelevant, and the script declares nothing of it. *)
From DD Require Import Base.Lit Model.Options Spec.EnabledSpec Gen.Tables Model.Relevance Spec.TheorySpec.
From DD Require Import Proofs.Opt.TablesOk Props.C14 Proofs.Relevance.Complete.
Local Open Scope list_scope.

Definition rel_of_raw (script : list sexp) : str -> bool := fun n => relevant_raw n script.

(* the registry's "defines is_relevant" column agrees with the model *)
Lemma tables_rel_agree_stmt : forall t, In t theories -> t_rel t = has_is_relevant (t_name t).
Proof.
  assert (H : forallb (fun t => Bool.eqb (t_rel t) (has_is_relevant (t_name t))) theories = true)
    by (vm_compute; reflexivity).
  rewrite forallb_forall in H. intros t Ht. apply eqb_prop. now apply H.
Qed.

(* each of the five theories of the specification is a group of the registry *)
Lemma thy_in_tables_stmt : forall T, exists t, In t theories /\ t_name t = thy_name T /\ t_rel t = true.
Proof.
  intros T.
  assert (H : exists t, find (fun t => str_eqb (t_name t) (thy_name T)) theories = Some t /\ t_rel t = true)
    by (destruct T; vm_compute; eexists; split; reflexivity).
  destruct H as (t & Hf & Hr). apply find_some in Hf as (Hin & He).
  apply str_eqb_eq in He. now exists t.
Qed.

Lemma detection_keeps_stmt : forall script s T t co,
  In t theories -> t_name t = thy_name T -> In co (opts_of t) ->
  gv s (t_name t) = None ->
  spec_declares_theory T script ->
  mv (auto_detect theories (rel_of_raw script) s) co = mv s co.
Proof.
  intros script s T t co Ht Hn Hco Hg Hs.
  rewrite (auto_detect_mv_spec theories (rel_of_raw script) s t co registry_ok_gen Ht Hco).
  rewrite Hg. unfold rel_of_raw. rewrite Hn, (completeness_stmt T script Hs).
  cbn [negb]. rewrite andb_false_r. reflexivity.
Qed.

(* the other half of C14: a group the user set is never touched, whatever the script *)
Lemma explicit_group_untouched_stmt : forall script s t co v,
  In t theories -> In co (opts_of t) -> gv s (t_name t) = Some v ->
  mv (auto_detect theories (rel_of_raw script) s) co = mv s co.
Proof.
  intros script s t co v Ht Hco Hg.
  rewrite (auto_detect_mv_spec theories (rel_of_raw script) s t co registry_ok_gen Ht Hco).
  rewrite Hg. reflexivity.
Qed.

Lemma changed_only_if_irrelevant_stmt : forall script s t co,
  In t theories -> In co (opts_of t) ->
  mv (auto_detect theories (rel_of_raw script) s) co <> mv s co ->
  gv s (t_name t) = None /\ has_is_relevant (t_name t) = true
  /\ relevant_raw (t_name t) script = false
  /\ mv (auto_detect theories (rel_of_raw script) s) co = false.
Proof.
  intros script s t co Ht Hco Hne.
  rewrite (auto_detect_mv_spec theories (rel_of_raw script) s t co registry_ok_gen Ht Hco) in *.
  rewrite <- (tables_rel_agree_stmt t Ht).
  destruct (gv s (t_name t)) as [v |]; [now elim Hne |].
  unfold rel_of_raw in *. destruct (t_rel t); [| now elim Hne].
  destruct (relevant_raw (t_name t) script); [now elim Hne |].
  repeat split; reflexivity.
Qed.

Lemma disabled_only_if_stmt : forall script s T t co,
  In t theories -> t_name t = thy_name T -> In co (opts_of t) ->
  mv (auto_detect theories (rel_of_raw script) s) co <> mv s co ->
  gv s (t_name t) = None /\ relevant_raw (thy_name T) script = false /\ ~ spec_declares_theory T script.
Proof.
  intros script s T t co Ht Hn Hco Hne.
  destruct (changed_only_if_irrelevant_stmt script s t co Ht Hco Hne) as (Hg & _ & Hr & _).
  rewrite Hn in Hr. split; [exact Hg |]. split; [exact Hr |].
  now apply not_relevant_not_declared_stmt.
Qed.

(* at the level of enabled mutator classes, from the command line: the classes
   of a theory of which the script declares something are enabled exactly as
   if nothing had been detected as irrelevant *)
Lemma declared_theory_classes_stmt : forall os script T t c,
  theory_of theories c = Some t -> t_name t = thy_name T ->
  spec_declares_theory T script ->
  enabled theories (auto_detect theories (rel_of_raw script) (parse_opts theories os)) c
  = enabled_spec theories os (fun _ => true) c.
Proof.
  intros os script T t c Hth Hn Hs. rewrite enabled_correct_gen.
  unfold enabled_spec. rewrite Hth. destruct (lookup_cls theories c) as [co |]; [| reflexivity].
  unfold rel_of_raw. rewrite Hn, (completeness_stmt T script Hs). cbn [negb].
  rewrite !andb_false_r. reflexivity.
Qed.
