(* C01 composition: the scheduler's chain theorem + the renderers' token
   agreement: every content written to the output file has, in each output
   format, the token sequence of a candidate on which the command was run and
   accepted; for a command whose behaviour depends on the token sequence only,
   running it on the output file gives the accepted behaviour again. *)
From DD Require Import Model.Lexer Model.Writer Spec.StdReader Model.SchedHier.
From DD Require Import Proofs.Sched.HierBase Proofs.Sched.HierInv Proofs.Lex.Writers.
From DD Require Props.SchedHierProps.

Section Golden.
  (* the command (with the configured comparison against the golden run) as a
     function of the text of the file it is given *)
  Variable cmd : str -> bool.
  (* property hypothesis: its behaviour depends on the token sequence only *)
  Hypothesis token_determined :
    forall t1 t2 xs, tokens_of t1 xs -> tokens_of t2 xs -> cmd t1 = cmd t2.

  Definition ginput := list sexp.
  Variable cands : nat -> ginput -> list (nat * ginput).
  (* C15: candidates of well-formed inputs are well formed (single-token leaves) *)
  Hypothesis cands_wf :
    forall p x n c, forallb wf x = true -> In (n, c) (cands p x) -> forallb wf c = true.
  Variable npasses : nat.

  (* ddSMT tests a candidate by rendering it with the checking writer *)
  Definition gaccept (c : ginput) : bool := cmd (w_check c).
  (* C13 (redup_shape): re-duplication does not change the shape *)
  Definition gredup (c : ginput) : ginput := c.

  Notation reach := (reachable ginput cands gaccept gredup npasses).

  Lemma chain_wf i l :
    forallb wf i = true -> chain_from ginput cands gaccept gredup i l -> forall w, In w l -> forallb wf w = true.
  Proof.
    revert i; induction l as [|x r IH]; intros i Hi Hc w Hw; [contradiction|].
    cbn [chain_from] in Hc. destruct Hc as [[p [n [c [Hin [_ ->]]]]] Hr].
    assert (Hx : forallb wf (gredup c) = true) by (unfold gredup; eapply cands_wf; eauto).
    destruct Hw as [<-|Hw]; [exact Hx|]. eapply IH; eauto.
  Qed.

  Lemma golden_lemma i s w :
    forallb wf i = true -> reach i s -> In w (writes s) ->
    (exists c, w = c /\ In (c, true) (checked s) /\ cmd (w_check c) = true) /\
    tokens_of (w_default w) (flats w) /\ tokens_of (w_pretty w) (flats w) /\
    tokens_of (w_wrap w) (flats w) /\ tokens_of (w_check w) (flats w) /\
    cmd (w_default w) = true /\ cmd (w_pretty w) = true /\ cmd (w_wrap w) = true.
  Proof.
    intros Hi Hr Hw.
    destruct (SchedHierProps.written_was_checked _ _ _ _ _ _ _ _ Hr Hw) as [c [Hc Hin]].
    unfold gredup in Hc. subst c.
    pose proof (SchedHierProps.checked_sound _ _ _ _ _ _ _ _ _ Hr Hin) as Hacc. unfold gaccept in Hacc.
    assert (Hwf : forallb wf w = true).
    { pose proof (SchedHierProps.chain _ _ _ _ _ _ _ Hr) as Hch.
      eapply chain_wf; [exact Hi | exact Hch | apply in_rev; rewrite rev_involutive; exact Hw]. }
    destruct (tokens_agree_proof w Hwf) as [Tc [Td [Tp Tw]]].
    refine (conj _ (conj Td (conj Tp (conj Tw (conj Tc (conj _ (conj _ _))))))).
    - exists w; auto.
    - rewrite (token_determined _ _ _ Td Tc); exact Hacc.
    - rewrite (token_determined _ _ _ Tp Tc); exact Hacc.
    - rewrite (token_determined _ _ _ Tw Tc); exact Hacc.
  Qed.

  (* the file left at exit: the last element; parses back to the same list *)
  Lemma golden_final i s :
    forallb wf i = true -> reach i s ->
    match writes s with
    | w :: _ => cur s = w /\ cmd (w_default w) = true /\ cmd (w_pretty w) = true /\ cmd (w_wrap w) = true
                /\ parse (w_default w) = w /\ parse (w_pretty w) = w /\ parse (w_wrap w) = w
    | [] => cur s = i
    end.
  Proof.
    intros Hi Hr. pose proof (SchedHierProps.file_is_last _ _ _ _ _ _ _ Hr) as Hl.
    destruct (writes s) as [|w r] eqn:E; [exact Hl|].
    assert (Hw : In w (writes s)) by (rewrite E; left; reflexivity).
    destruct (golden_lemma i s w Hi Hr Hw) as [_ [_ [_ [_ [_ [A [B C]]]]]]].
    assert (Hwf : forallb wf w = true).
    { pose proof (SchedHierProps.chain _ _ _ _ _ _ _ Hr) as Hch.
      eapply chain_wf; [exact Hi | exact Hch | apply in_rev; rewrite rev_involutive; exact Hw]. }
    refine (conj Hl (conj A (conj B (conj C (conj _ (conj _ _)))))).
    - apply parse_w_default_proof; exact Hwf.
    - apply parse_w_pretty_proof; exact Hwf.
    - apply parse_w_wrap_proof; exact Hwf.
  Qed.
End Golden.
