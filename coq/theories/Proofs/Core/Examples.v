(* Non-vacuity of the statements about the structural mutators: nodes on which
   each rewrite proposes something, names with proposals, a step, and the
   boundary cases of the token-hood statement. *)
From DD Require Import Model.CoreRw Spec.StdReader Proofs.Core.Base Proofs.Core.Sort Proofs.Core.Step.
From Coq Require Import Relations.
Local Open Scope list_scope.

Definition a_ := lf "a".
Definition b_ := lf "b".
Definition c_ := lf "c".
Definition gs0 (_ : sexp) : option sexp := None.
Definition novar (_ : str) : bool := false.

Example ex_erase :
  rw_erase_child (T [a_; b_; c_]) = Some [T [b_; c_]; T [a_; c_]; T [a_; b_]].
Proof. vm_compute. reflexivity. Qed.

Example ex_replace :
  rw_replace_by_child gs0 (T [lf "f"; a_; T [lf "g"; b_]]) = Some [a_; T [lf "g"; b_]].
Proof. vm_compute. reflexivity. Qed.

(* the oracle selects: only children of the sort of the node *)
Definition gs1 (e : sexp) : option sexp :=
  match e with L _ => Some (lf "Int") | T _ => Some (lf "Bool") end.
Example ex_replace_sorted :
  rw_replace_by_child gs1 (T [lf "f"; a_; T [lf "g"; b_]]) = Some [T [lf "g"; b_]].
Proof. vm_compute. reflexivity. Qed.

Example ex_replace_let :
  rw_replace_by_child gs0 (T [lf "let"; T [T [a_; b_]]; a_]) = Some [].
Proof. vm_compute. reflexivity. Qed.

Example ex_merge :
  rw_merge_children (T [lf "and"; a_; T [lf "and"; b_; c_]; T [lf "or"; a_]; T [lf "and"; c_]])
  = Some [T [lf "and"; a_; b_; c_; T [lf "or"; a_]; T [lf "and"; c_]];
          T [lf "and"; a_; T [lf "and"; b_; c_]; T [lf "or"; a_]; c_]].
Proof. vm_compute. reflexivity. Qed.

Example ex_sort :
  rw_sort_children (T [lf "f"; T [a_; b_]; c_; T [a_]]) = Some [T [lf "f"; c_; T [a_]; T [a_; b_]]].
Proof. vm_compute. reflexivity. Qed.

Example ex_sort_disorder :
  disorder (T [lf "f"; T [a_; b_]; c_; T [a_]]) = 2 /\
  disorder (T [lf "f"; c_; T [a_]; T [a_; b_]]) = 0.
Proof. vm_compute. split; reflexivity. Qed.

Example ex_sort_fixed :
  rw_sort_children (T [lf "f"; c_; T [a_]; T [a_; b_]]) = Some [].
Proof. vm_compute. reflexivity. Qed.

Example ex_binary_search_8 :
  binary_search 8 = [(4, 8); (0, 4); (6, 8); (4, 6); (2, 4); (0, 2)]%Z.
Proof. vm_compute. reflexivity. Qed.

Definition n8 := T [lf "0"; lf "1"; lf "2"; lf "3"; lf "4"; lf "5"; lf "6"; lf "7"].
Example ex_binary :
  rw_binary_reduction n8 =
  Some [T [lf "0"; lf "1"; lf "2"; lf "3"];
        T [lf "4"; lf "5"; lf "6"; lf "7"];
        T [lf "0"; lf "1"; lf "2"; lf "3"; lf "4"; lf "5"];
        T [lf "0"; lf "1"; lf "2"; lf "3"; lf "6"; lf "7"];
        T [lf "0"; lf "1"; lf "4"; lf "5"; lf "6"; lf "7"];
        T [lf "2"; lf "3"; lf "4"; lf "5"; lf "6"; lf "7"]].
Proof. vm_compute. reflexivity. Qed.

Example ex_binary_7 :
  rw_binary_reduction (T [lf "0"; lf "1"; lf "2"; lf "3"; lf "4"; lf "5"; lf "6"]) = Some [].
Proof. vm_compute. reflexivity. Qed.

Example ex_let :
  rw_let_elim (T [lf "let"; T [T [a_; b_]]; T [lf "f"; a_]]) = Some [T [lf "f"; a_]].
Proof. vm_compute. reflexivity. Qed.

(* a step below the root, and a chain of two steps *)
Example ex_cstep :
  cstep gs0 (T [lf "g"; T [lf "f"; T [a_; b_]; c_]]) (T [lf "g"; T [lf "f"; c_; T [a_; b_]]]).
Proof.
  apply (step_child (Score gs0) [lf "g"] (T [lf "f"; T [a_; b_]; c_]) (T [lf "f"; c_; T [a_; b_]]) []).
  apply step_root. exists rw_sort_children, [T [lf "f"; c_; T [a_; b_]]].
  split; [constructor|]. split; [vm_compute; reflexivity|now left].
Qed.

Example ex_cchain :
  chain (Score gs0) 2 (T [lf "f"; T [a_; b_]; c_]) (T [lf "f"; c_]).
Proof.
  eapply chain_S; [|eapply chain_S; [|apply chain_0]].
  - apply step_root. exists rw_sort_children, [T [lf "f"; c_; T [a_; b_]]].
    split; [constructor|]. split; [vm_compute; reflexivity|now left].
  - apply step_root. exists rw_erase_child, [T [c_; T [a_; b_]]; T [lf "f"; T [a_; b_]]; T [lf "f"; c_]].
    split; [constructor|]. split; [vm_compute; reflexivity|right; right; now left].
Qed.

(* ---- names ---- *)
Example ex_names3 : ssn_names novar (lit "abcd") = [lit "ab"; lit "abc"; lit "bcd"].
Proof. vm_compute. reflexivity. Qed.

Example ex_names_piped :
  ssn_names novar (lit "|abcd|") = [lit "|ab|"; lit "|abc|"; lit "|bcd|"].
Proof. vm_compute. reflexivity. Qed.

(* a constant, a reserved word and a variable name are not proposed *)
Example ex_names_const : ssn_names novar (lit "x1") = [lit "x"].
Proof. vm_compute. reflexivity. Qed.
Example ex_names_reserved : ssn_names novar (lit "let_") = [lit "le"; lit "et_"].
Proof. vm_compute. reflexivity. Qed.
Example ex_names_var :
  ssn_names (fun t => str_eqb t (lit "ab")) (lit "abc") = [lit "bc"].
Proof. vm_compute. reflexivity. Qed.
Example ex_names_short : ssn_names novar (lit "x") = [] /\ ssn_names novar (lit "|x|") = [].
Proof. vm_compute. split; reflexivity. Qed.

(* The liberal atoms of ddSMT's earlier scanner (a quote or a bar after the first
   character) are no leaves any more (fix F41: an atom ends before a quote or a bar),
   so the earlier boundary of [ssn_symbol_wf] -- a well-formed liberal atom whose
   candidates are an unterminated string or a lone bar -- has disappeared. *)
Example ex_names_no_liberal :
  leaf_ok (lit "a""b") = false /\ leaf_ok (lit "a|") = false /\
  leaf_ok (lit "a""b""") = false /\ leaf_ok (lit "a|b|") = false.
Proof. vm_compute. repeat split; reflexivity. Qed.

(* a string literal or a comment in the place of the symbol is left alone (fix F47); before, its candidates were cut as
   for a plain name and were not tokens: """a" or ";ab" without the line break *)
Example ex_names_strlit :
  ssn_names novar (lit """ab""") = [] /\ leaf_ok (lit """a") = false.
Proof. vm_compute. split; reflexivity. Qed.

Example ex_names_comment :
  ssn_names novar [cSEMI; 97%N; 98%N; cLF] = [] /\
  leaf_ok [cSEMI; 97%N] = false /\ leaf_ok [97%N; 98%N; cLF] = false.
Proof. vm_compute. repeat split; reflexivity. Qed.
