(* Structural mutators (Model/CoreRw.v): basic facts about sexp_eqb, size/sizes
   and the list functions the mutators are made of. *)
From DD Require Import Model.CoreRw.
From Coq Require Import Permutation Arith Lia.
Local Open Scope list_scope.

(* ---- boolean equality of s-expressions decides equality ---- *)
Lemma seqb_true : forall a b, sexp_eqb a b = true -> a = b.
Proof.
  induction a as [s | l IH] using sexp_ind'; intros [t | m] H; cbn in H; try discriminate.
  - apply str_eqb_eq in H. now subst.
  - f_equal. revert m H.
    induction IH as [| x l Hx _ IHl]; intros [| y m] H; try discriminate; auto.
    apply andb_true_iff in H as [H1 H2]. f_equal; auto.
Qed.

Lemma seqb_refl : forall a, sexp_eqb a a = true.
Proof.
  induction a as [s | l IH] using sexp_ind'; cbn.
  - apply str_eqb_refl.
  - induction IH as [| x l Hx _ IHl]; auto. now rewrite Hx, IHl.
Qed.

Lemma sexp_eqb_iff a b : sexp_eqb a b = true <-> a = b.
Proof. split; [apply seqb_true|intros ->; apply seqb_refl]. Qed.

Lemma sexp_eqb_false a b : sexp_eqb a b = false -> a <> b.
Proof. intros H E. subst. rewrite seqb_refl in H. discriminate. Qed.

Lemma osexp_eqb_iff a b : osexp_eqb a b = true <-> a = b.
Proof.
  destruct a as [x|], b as [y|]; cbn [osexp_eqb]; split; intro H;
    try discriminate; try reflexivity.
  - apply seqb_true in H. now subst.
  - injection H as ->. apply seqb_refl.
Qed.

(* ---- size / sizes ---- *)
Lemma size_T l : size (T l) = S (sizes l).
Proof. reflexivity. Qed.

Lemma size_pos e : 0 < size e.
Proof. destruct e; [cbn; lia|rewrite size_T; lia]. Qed.

Lemma sizes_nil : sizes [] = 0.
Proof. reflexivity. Qed.

Lemma sizes_cons x l : sizes (x :: l) = size x + sizes l.
Proof. reflexivity. Qed.

Lemma sizes_app l m : sizes (l ++ m) = sizes l + sizes m.
Proof.
  induction l as [|x l IH]; [reflexivity|].
  rewrite <- app_comm_cons, !sizes_cons, IH. lia.
Qed.

Lemma sizes_rev l : sizes (rev l) = sizes l.
Proof.
  induction l as [|x l IH]; [reflexivity|].
  cbn [rev]. rewrite sizes_app, !sizes_cons, sizes_nil, IH. lia.
Qed.

Lemma sizes_in x l : In x l -> size x <= sizes l.
Proof.
  induction l as [|y l IH]; intro H; [destruct H|].
  rewrite sizes_cons. destruct H as [-> | H]; [lia|]. specialize (IH H). lia.
Qed.

Lemma sizes_len l : length l <= sizes l.
Proof.
  induction l as [|x l IH]; [cbn; lia|].
  rewrite sizes_cons. cbn [length]. pose proof (size_pos x). lia.
Qed.

Lemma sizes_perm l m : Permutation l m -> sizes l = sizes m.
Proof.
  induction 1 as [|x l m _ IH|x y l|l m n _ IH1 _ IH2]; rewrite ?sizes_cons; lia.
Qed.

Lemma sizes_skipn_le k l : sizes (skipn k l) <= sizes l.
Proof.
  revert l; induction k as [|k IH]; intros [|x l]; cbn [skipn]; try lia.
  rewrite sizes_cons. specialize (IH l). lia.
Qed.

Lemma in_tl {A} (x : A) l : In x (tl l) -> In x l.
Proof. destruct l; [intros []|now right]. Qed.
