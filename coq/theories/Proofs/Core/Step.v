(* (C): the structural mutators applied at any position of a term strictly
   decrease the pair (size, disorder) in the lexicographic order; hence no
   cycles, well-foundedness and a bound on the length of chains.
   The step relation is [step] of Proofs/Measure/Step.v over the set [Score gs]. *)
From DD Require Import Model.CoreRw Proofs.Core.Base Proofs.Core.Size Proofs.Core.Sort.
From DD Require Export Proofs.Measure.Step.
From Coq Require Import Relations Wellfounded Wf_nat Arith Lia.
Local Open Scope list_scope.

(* the six structural mutators, for a sort oracle gs *)
Inductive Score (gs : sexp -> option sexp) : rewrite -> Prop :=
| S_erase_child : Score gs rw_erase_child
| S_replace_by_child : Score gs (rw_replace_by_child gs)
| S_merge_children : Score gs rw_merge_children
| S_sort_children : Score gs rw_sort_children
| S_binary_reduction : Score gs rw_binary_reduction
| S_let_elim : Score gs rw_let_elim.

(* replace the subterm at some position by one of the proposals of one of the six *)
Definition cstep (gs : sexp -> option sexp) : sexp -> sexp -> Prop := step (Score gs).

(* ---- the lexicographic order on pairs of numbers ---- *)
Definition lexlt (p q : nat * nat) : Prop :=
  fst p < fst q \/ (fst p = fst q /\ snd p < snd q).

Lemma lexlt_trans p q r : lexlt p q -> lexlt q r -> lexlt p r.
Proof. unfold lexlt. lia. Qed.

Lemma lexlt_irrefl p : ~ lexlt p p.
Proof. unfold lexlt. lia. Qed.

Lemma lexlt_wf : well_founded lexlt.
Proof.
  assert (H : forall a b, Acc lexlt (a, b)).
  { induction a as [a IHa] using lt_wf_ind. induction b as [b IHb] using lt_wf_ind.
    constructor. intros [a' b'] [Hlt | [Heq Hlt]]; cbn [fst snd] in *.
    - now apply IHa.
    - subst a'. now apply IHb. }
  intros [a b]. apply H.
Qed.

(* the measure *)
Definition sd (e : sexp) : nat * nat := (size e, disorder e).
Definition sd_lt (a b : sexp) : Prop := lexlt (sd a) (sd b).

Lemma sd_lt_wf : well_founded sd_lt.
Proof. unfold sd_lt. apply (wf_inverse_image sexp (nat * nat) lexlt sd), lexlt_wf. Qed.

(* ---- a rewrite at the root ---- *)
Lemma root_lex gs e e' : root_step (Score gs) e e' -> sd_lt e' e.
Proof.
  intros (R & l & HR & He & Hin). unfold sd_lt, lexlt, sd. cbn [fst snd].
  destruct HR.
  - left. exact (erase_child_size e l e' He Hin).
  - left. exact (replace_by_child_size gs e l e' He Hin).
  - left. exact (merge_children_size e l e' He Hin).
  - right. exact (sort_children_lex e l e' He Hin).
  - left. exact (binary_reduction_size e l e' He Hin).
  - left. exact (let_elim_size e l e' He Hin).
Qed.

(* ---- both components are monotone in every child position; replacing a child
        by one of the same size leaves the inversions of the parent unchanged ---- *)
Lemma child_lex pre x y post :
  sd_lt y x -> sd_lt (T (pre ++ y :: post)) (T (pre ++ x :: post)).
Proof.
  unfold sd_lt, lexlt, sd. cbn [fst snd].
  rewrite !size_T, !sizes_app, !sizes_cons. intros [H | [H1 H2]]; [left; lia|right].
  split; [lia|].
  rewrite !disorder_T, !map_app, !disorders_app. cbn [map]. rewrite !disorders_cons, H1. lia.
Qed.

Theorem cstep_lex gs t t' : cstep gs t t' -> sd_lt t' t.
Proof.
  induction 1 as [e e' H|pre x y post _ IH]; [exact (root_lex gs e e' H)|now apply child_lex].
Qed.

Theorem cstep_decreases gs t t' :
  cstep gs t t' -> size t' < size t \/ (size t' = size t /\ disorder t' < disorder t).
Proof. exact (cstep_lex gs t t'). Qed.

Theorem csteps_lex gs t t' : clos_trans sexp (cstep gs) t t' -> sd_lt t' t.
Proof.
  induction 1 as [t t' H|t u v _ IH1 _ IH2]; [now apply (cstep_lex gs)|].
  unfold sd_lt in *. eapply lexlt_trans; eassumption.
Qed.

Theorem no_cycles_structural gs t t' : clos_trans sexp (cstep gs) t t' -> t <> t'.
Proof. intros H E. apply csteps_lex in H. subst. exact (lexlt_irrefl _ H). Qed.

Theorem no_noop_structural gs t : ~ cstep gs t t.
Proof. intro H. apply cstep_lex in H. exact (lexlt_irrefl _ H). Qed.

Theorem cstep_wf gs : well_founded (fun a b => cstep gs b a).
Proof.
  apply (wf_incl _ _ sd_lt); [|exact sd_lt_wf]. intros a b H. exact (cstep_lex gs b a H).
Qed.

(* ---- a bound on the length of chains: disorder t <= size t ^ 2, so that
        size^3 + disorder is a natural-number ranking ---- *)
Lemma filter_len {A} (f : A -> bool) l : length (filter f l) <= length l.
Proof.
  induction l as [|x l IH]; [cbn; lia|]. cbn [filter]. destruct (f x); cbn [length]; lia.
Qed.

Lemma inv_list_sq l : inv_list l <= length l * length l.
Proof.
  induction l as [|x r IH]; [cbn; lia|].
  cbn [inv_list length]. pose proof (filter_len (fun y => Nat.ltb y x) r). nia.
Qed.

Lemma disorders_sq l :
  Forall (fun x => disorder x <= size x * size x) l ->
  length l * length l + disorders l + 1 <= (sizes l + 1) * (sizes l + 1).
Proof.
  induction 1 as [|x r Hx _ IH]; [cbn; lia|].
  rewrite disorders_cons, sizes_cons. cbn [length].
  pose proof (size_pos x). pose proof (sizes_len r). nia.
Qed.

Lemma disorder_sq e : disorder e <= size e * size e.
Proof.
  induction e as [s|l IH] using sexp_ind'; [cbn; lia|].
  rewrite disorder_T, size_T. pose proof (disorders_sq l IH).
  pose proof (inv_list_sq (map size l)). rewrite map_length in *. nia.
Qed.

Definition rank (e : sexp) : nat := size e * size e * size e + disorder e.

Theorem cstep_rank gs t t' : cstep gs t t' -> rank t' < rank t.
Proof.
  intro H. apply cstep_decreases in H. unfold rank.
  destruct H as [H | [H1 H2]]; [|rewrite H1; lia].
  pose proof (disorder_sq t'). pose proof (size_pos t').
  assert (H3 : size t' * size t' * (size t' + 1) <= size t' * size t' * size t)
    by (apply Nat.mul_le_mono_l; lia).
  assert (H4 : size t' * size t' * size t < size t * size t * size t).
  { apply Nat.mul_lt_mono_pos_r; [lia|]. apply Nat.mul_lt_mono; lia. }
  nia.
Qed.

Theorem cchain_bounded gs n t t' : chain (Score gs) n t t' -> n + rank t' <= rank t.
Proof.
  induction 1 as [t|n t u v H _ IH]; [lia|]. apply (cstep_rank gs) in H. lia.
Qed.

Theorem cchain_bounded_size gs n t t' :
  chain (Score gs) n t t' -> n <= size t * size t * size t + size t * size t.
Proof.
  intro H. apply cchain_bounded in H. unfold rank in H. pose proof (disorder_sq t). lia.
Qed.
