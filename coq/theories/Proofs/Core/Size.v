(* (S): every proposal of EraseNode, ReplaceByChild, MergeWithChildren,
   BinaryReduction and LetElimination has strictly fewer nodes than the node it
   replaces; (R): ReplaceByChild respects the sort oracle.  All s-expressions. *)
From DD Require Import Model.CoreRw Proofs.Core.Base.
From Coq Require Import Arith ZArith Lia.
Local Open Scope list_scope.

(* ---- EraseNode ---- *)
Lemma erase_at_sizes i l : i < length l -> sizes (erase_at i l) < sizes l.
Proof.
  revert i; induction l as [|x l IH]; intros i Hi; [cbn in Hi; lia|].
  destruct i as [|i]; cbn [erase_at].
  - rewrite sizes_cons. pose proof (size_pos x). lia.
  - rewrite !sizes_cons. cbn [length] in Hi. assert (Hi' : i < length l) by lia.
    specialize (IH i Hi'). lia.
Qed.

Theorem erase_child_size e l e' :
  rw_erase_child e = Some l -> In e' l -> size e' < size e.
Proof.
  intros HR Hin. destruct e as [s|c]; cbn [rw_erase_child] in HR; injection HR as <-.
  - destruct Hin.
  - apply in_map_iff in Hin as (i & <- & Hi). apply in_seq in Hi.
    rewrite !size_T. assert (Hi' : i < length c) by lia.
    pose proof (erase_at_sizes i c Hi'). lia.
Qed.

(* ---- ReplaceByChild ---- *)
Theorem replace_by_child_size gs e l e' :
  rw_replace_by_child gs e = Some l -> In e' l -> size e' < size e.
Proof.
  intros HR Hin. destruct e as [s|c]; cbn [rw_replace_by_child] in HR.
  - injection HR as <-. destruct Hin.
  - destruct (is_op (T c) "let"); injection HR as <-; [destruct Hin|].
    apply filter_In in Hin as [Hin _]. apply in_tl in Hin.
    rewrite size_T. pose proof (sizes_in e' c Hin). lia.
Qed.

Theorem replace_by_child_in gs e l e' :
  rw_replace_by_child gs e = Some l -> In e' l -> exists c, e = T c /\ In e' (tl c).
Proof.
  intros HR Hin. destruct e as [s|c]; cbn [rw_replace_by_child] in HR.
  - injection HR as <-. destruct Hin.
  - destruct (is_op (T c) "let"); injection HR as <-; [destruct Hin|].
    apply filter_In in Hin as [Hin _]. now exists c.
Qed.

(* (R) the child proposed has the sort the oracle gives to the node *)
Theorem replace_by_child_sort gs e l e' :
  rw_replace_by_child gs e = Some l -> In e' l -> gs e' = gs e.
Proof.
  intros HR Hin. destruct e as [s|c]; cbn [rw_replace_by_child] in HR.
  - injection HR as <-. destruct Hin.
  - destruct (is_op (T c) "let"); injection HR as <-; [destruct Hin|].
    apply filter_In in Hin as [_ Hs]. now apply osexp_eqb_iff in Hs.
Qed.

(* ---- MergeWithChildren: the merged node has exactly two nodes less ---- *)
Lemma merge_at_size h pre post e' :
  In e' (merge_at h pre post) -> size e' + 2 = S (sizes pre + sizes post).
Proof.
  revert pre; induction post as [|c r IH]; intros pre Hin; [destruct Hin|].
  cbn [merge_at] in Hin. apply in_app_or in Hin as [Hin | Hin].
  - destruct c as [s|[|[hc|?] cargs]]; cbn [In] in Hin; try contradiction.
    destruct (str_eqb hc h); [|destruct Hin].
    destruct Hin as [<- | []].
    rewrite size_T, !sizes_app, sizes_rev, !sizes_cons, size_T, sizes_cons.
    cbn [size]. lia.
  - apply IH in Hin. rewrite sizes_cons in *. lia.
Qed.

Theorem merge_children_size2 e l e' :
  rw_merge_children e = Some l -> In e' l -> size e' + 2 = size e.
Proof.
  intros HR Hin. unfold rw_merge_children in HR.
  destruct (has_nary_operator e); [|injection HR as <-; destruct Hin].
  destruct e as [s|[|[h|?] args]]; injection HR as <-; cbn [In] in Hin; try contradiction.
  apply merge_at_size in Hin. rewrite size_T, sizes_cons.
  rewrite sizes_cons, sizes_nil in Hin. lia.
Qed.

Theorem merge_children_size e l e' :
  rw_merge_children e = Some l -> In e' l -> size e' < size e.
Proof. intros HR Hin. pose proof (merge_children_size2 e l e' HR Hin). lia. Qed.

(* ---- nodes.binary_search: every section is a non-empty range inside [0, n] ---- *)
Local Open Scope Z_scope.

Lemma bs_row_range n den k a b :
  0 < den -> den <= n -> Z.of_nat k <= den ->
  In (a, b) (bs_row n den k) -> 0 <= a /\ a < b /\ b <= n.
Proof.
  intros Hd Hn. induction k as [|k IH]; intros Hk Hin; [destruct Hin|].
  cbn [bs_row] in Hin. destruct Hin as [E | Hin]; [|apply IH; [lia|exact Hin]].
  injection E as <- <-.
  set (j := Z.of_nat k). assert (Hj : 0 <= j) by (unfold j; lia).
  assert (Hj1 : j + 1 <= den) by (unfold j; lia).
  assert (Hq : den * (j * n / den) <= j * n) by (apply Z.mul_div_le; exact Hd).
  split; [|split].
  - apply Z.div_pos; [|exact Hd]. apply Z.mul_nonneg_nonneg; lia.
  - assert (Hlow : j * n / den + 1 <= (j + 1) * n / den).
    { apply Z.div_le_lower_bound; [exact Hd|].
      rewrite Z.mul_add_distr_l, Z.mul_1_r, Z.mul_add_distr_r, Z.mul_1_l. lia. }
    lia.
  - apply Z.div_le_upper_bound; [exact Hd|].
    apply Z.mul_le_mono_nonneg_r; lia.
Qed.

Lemma bs_loop_range fuel n den a b :
  0 < den -> In (a, b) (bs_loop fuel n den) -> 0 <= a /\ a < b /\ b <= n.
Proof.
  revert den; induction fuel as [|f IH]; intros den Hd Hin; [destruct Hin|].
  cbn [bs_loop] in Hin. destruct (Z.leb (den * 2) n) eqn:E; [|destruct Hin].
  apply Z.leb_le in E. apply in_app_or in Hin as [Hin | Hin].
  - apply (bs_row_range n den (Z.to_nat den)); [exact Hd|lia|lia|exact Hin].
  - apply (IH (den * 2)); [lia|exact Hin].
Qed.

(* for every n (the sections exist only when 4 <= n) *)
Theorem binary_search_range n a b :
  In (a, b) (binary_search n) -> 0 <= a /\ a < b /\ b <= Z.of_nat n.
Proof. unfold binary_search. apply bs_loop_range. lia. Qed.

Local Close Scope Z_scope.

(* ---- BinaryReduction ---- *)
Lemma cut_sizes l a b :
  a < b -> a < length l -> sizes (firstn a l ++ skipn b l) < sizes l.
Proof.
  revert a b; induction l as [|x l IH]; intros a b Hab Hal; [cbn in Hal; lia|].
  destruct b as [|b]; [lia|]. destruct a as [|a].
  - cbn [firstn skipn app]. rewrite sizes_cons.
    pose proof (sizes_skipn_le b l). pose proof (size_pos x). lia.
  - cbn [firstn skipn]. rewrite <- app_comm_cons, !sizes_cons.
    cbn [length] in Hal. assert (H1 : a < b) by lia. assert (H2 : a < length l) by lia.
    specialize (IH a b H1 H2). lia.
Qed.

Theorem binary_reduction_size e l e' :
  rw_binary_reduction e = Some l -> In e' l -> size e' < size e.
Proof.
  intros HR Hin. destruct e as [s|c]; cbn [rw_binary_reduction] in HR.
  - injection HR as <-. destruct Hin.
  - destruct (Nat.ltb (length c) 8); injection HR as <-; [destruct Hin|].
    apply in_map_iff in Hin as ([a b] & <- & Hab).
    apply binary_search_range in Hab. unfold cut. cbn [fst snd].
    rewrite !size_T.
    assert (H1 : Z.to_nat a < Z.to_nat b) by lia.
    assert (H2 : Z.to_nat a < length c) by lia.
    pose proof (cut_sizes c _ _ H1 H2). lia.
Qed.

(* ---- LetElimination ---- *)
Theorem let_elim_size e l e' :
  rw_let_elim e = Some l -> In e' l -> size e' < size e.
Proof.
  intros HR Hin. unfold rw_let_elim in HR.
  destruct (is_op e "let"); [|injection HR as <-; destruct Hin].
  destruct e as [s|[|x [|y [|body r]]]]; injection HR as <-; cbn [In] in Hin; try contradiction.
  destruct Hin as [<- | []]. rewrite size_T, !sizes_cons. lia.
Qed.
