(* (N) SimplifySymbolNames: the candidate names.  Every candidate is strictly
   shorter, is not a variable name, and -- for a name that is not piped -- is a
   non-empty prefix or suffix of the name that is neither a reserved word nor a
   constant; for a piped name it is again piped. *)
From DD Require Import Model.CoreRw Spec.StdReader Proofs.Closure.Atoms Proofs.Core.Base.
From Coq Require Import Arith Lia.
Local Open Scope list_scope.

(* ---- __simpler ---- *)
Lemma simpler_in s t :
  In t (simpler s) ->
  (3 < length s /\ t = firstn (Nat.div (length s) 2) s) \/
  (1 < length s /\ (t = removelast s \/ t = tl s)).
Proof.
  unfold simpler. intro H. apply in_app_or in H as [H | H].
  - destruct (Nat.ltb 3 (length s)) eqn:E; [|destruct H].
    apply Nat.ltb_lt in E. destruct H as [<- | []]. now left.
  - destruct (Nat.ltb 1 (length s)) eqn:E; [|destruct H].
    apply Nat.ltb_lt in E. right. split; [exact E|].
    destruct H as [<- | [<- | []]]; [now left|now right].
Qed.

Lemma half_bounds n : 3 < n -> 2 <= Nat.div n 2 /\ Nat.div n 2 < n.
Proof.
  intro H. split.
  - apply Nat.div_le_lower_bound; lia.
  - apply Nat.div_lt; lia.
Qed.

Lemma removelast_len {A} (s : list A) : length (removelast s) = length s - 1.
Proof.
  destruct s as [|c r]; [reflexivity|].
  assert (Hne : c :: r <> []) by discriminate.
  pose proof (app_removelast_last c Hne) as E. apply (f_equal (@length A)) in E.
  rewrite app_length in E. cbn [length] in *. lia.
Qed.

Lemma tl_len {A} (s : list A) : length (tl s) = length s - 1.
Proof. destruct s; cbn [tl length]; lia. Qed.

Lemma simpler_length s t : In t (simpler s) -> 0 < length t /\ length t < length s.
Proof.
  intro H. apply simpler_in in H as [[Hl ->] | [Hl [-> | ->]]].
  - rewrite firstn_length. pose proof (half_bounds _ Hl). lia.
  - rewrite removelast_len. lia.
  - rewrite tl_len. lia.
Qed.

(* a candidate is a prefix or a suffix of the name *)
Lemma simpler_infix s t : In t (simpler s) -> exists a b, s = a ++ t ++ b.
Proof.
  intro H. apply simpler_in in H as [[Hl ->] | [Hl [-> | ->]]].
  - exists [], (skipn (Nat.div (length s) 2) s). cbn [app]. now rewrite firstn_skipn.
  - exists [], [last s 0%N]. cbn [app]. apply app_removelast_last.
    intros ->. cbn in Hl. lia.
  - destruct s as [|c r]; [cbn in Hl; lia|]. exists [c], []. cbn [tl app]. now rewrite app_nil_r.
Qed.

Lemma infix_Forall {A} (P : A -> Prop) (s a t b : list A) :
  s = a ++ t ++ b -> Forall P s -> Forall P t.
Proof.
  intros -> H. rewrite Forall_forall in *. intros x Hx. apply H.
  apply in_or_app. right. apply in_or_app. now left.
Qed.

Lemma infix_forallb {A} (f : A -> bool) (s a t b : list A) :
  s = a ++ t ++ b -> forallb f s = true -> forallb f t = true.
Proof.
  intros -> H. rewrite !forallb_app in H.
  apply andb_true_iff in H as [_ H]. now apply andb_true_iff in H as [H _].
Qed.

(* ---- names that are not piped ---- *)
Lemma ssn_plain_in isvar s t :
  is_piped s = false -> In t (ssn_names isvar s) ->
  In t (simpler s) /\ isvar t = false /\ is_const_leaf t = false /\ is_reserved t = false.
Proof.
  intros Hp H. unfold ssn_names in H.
  match type of H with In _ (if ?c then _ else _) => destruct c; [destruct H|] end.
  rewrite Hp in H.
  apply filter_In in H as [Hin Hf]. split; [exact Hin|].
  apply andb_true_iff in Hf as [Hf H3]. apply andb_true_iff in Hf as [H1 H2].
  apply negb_true_iff in H1, H2, H3. now repeat split.
Qed.

(* ---- piped names ---- *)
Lemma ssn_piped_in isvar s t :
  is_piped s = true -> In t (ssn_names isvar s) ->
  exists u, t = cBAR :: u ++ [cBAR] /\ In u (simpler (removelast (tl s))) /\ isvar t = false.
Proof.
  intros Hp H. unfold ssn_names in H.
  match type of H with In _ (if ?c then _ else _) => destruct c; [destruct H|] end.
  rewrite Hp in H. cbv zeta in H.
  apply in_map_iff in H as (u & <- & Hu). apply filter_In in Hu as [Hin Hf].
  apply negb_true_iff in Hf. now exists u.
Qed.

(* ---- the statements ---- *)
Theorem ssn_shorter isvar s t : In t (ssn_names isvar s) -> length t < length s.
Proof.
  intro H. destruct (is_piped s) eqn:Hp.
  - apply (ssn_piped_in isvar s t Hp) in H as (u & -> & Hu & _).
    apply simpler_length in Hu. rewrite removelast_len, tl_len in Hu.
    cbn [length]. rewrite app_length. cbn [length]. unfold char in *. lia.
  - apply (ssn_plain_in isvar s t Hp) in H as (Hu & _). now apply simpler_length in Hu.
Qed.

Theorem ssn_not_var isvar s t : In t (ssn_names isvar s) -> isvar t = false.
Proof.
  intro H. destruct (is_piped s) eqn:Hp.
  - now apply (ssn_piped_in isvar s t Hp) in H as (u & _ & _ & Hv).
  - now apply (ssn_plain_in isvar s t Hp) in H as (_ & Hv & _).
Qed.

Theorem ssn_plain isvar s t :
  is_piped s = false -> In t (ssn_names isvar s) ->
  t <> [] /\ is_reserved t = false /\ is_const_leaf t = false /\
  exists a b, s = a ++ t ++ b.
Proof.
  intros Hp H. apply (ssn_plain_in isvar s t Hp) in H as (Hu & _ & Hc & Hr).
  repeat split; try assumption.
  - apply simpler_length in Hu. intros ->. cbn in Hu. lia.
  - now apply simpler_infix.
Qed.

Theorem ssn_plain_chars isvar (P : char -> Prop) s t :
  is_piped s = false -> In t (ssn_names isvar s) -> Forall P s -> Forall P t.
Proof.
  intros Hp H HP. destruct (ssn_plain isvar s t Hp H) as (_ & _ & _ & a & b & E).
  exact (infix_Forall P s a t b E HP).
Qed.

Theorem ssn_piped isvar s t :
  is_piped s = true -> In t (ssn_names isvar s) ->
  2 <= length t /\ hd 0%N t = cBAR /\ last t 0%N = cBAR /\
  exists u a b, t = cBAR :: u ++ [cBAR] /\ u <> [] /\ removelast (tl s) = a ++ u ++ b.
Proof.
  intros Hp H. apply (ssn_piped_in isvar s t Hp) in H as (u & -> & Hu & _).
  split; [cbn [length]; rewrite app_length; cbn [length]; lia|].
  split; [reflexivity|]. split.
  - change (cBAR :: u ++ [cBAR]) with ((cBAR :: u) ++ [cBAR]). apply last_last.
  - destruct (simpler_infix _ _ Hu) as (a & b & E). exists u, a, b.
    repeat split; [|exact E]. apply simpler_length in Hu. intros ->. cbn in Hu. lia.
Qed.

(* ---- token-hood: a candidate for an atom is an atom, a candidate for a quoted
        symbol is a quoted symbol ---- *)
Lemma atom_not_piped s : atom_ok s = true -> is_piped s = false.
Proof.
  destruct s as [|c r]; [reflexivity|]. unfold atom_ok. cbn [forallb]. intro H.
  apply andb_true_iff in H as [H _]. unfold atom_char in H. apply negb_true_iff in H.
  apply orb_false_iff in H as [_ H]. unfold is_piped. now rewrite H.
Qed.

Theorem ssn_atom isvar s t :
  atom_ok s = true -> In t (ssn_names isvar s) -> atom_ok t = true.
Proof.
  intros Ha H. pose proof (atom_not_piped s Ha) as Hp.
  destruct (ssn_plain isvar s t Hp H) as (Hne & _ & _ & a & b & E).
  assert (Hs : forallb atom_char s = true) by (destruct s; [discriminate|exact Ha]).
  pose proof (infix_forallb atom_char s a t b E Hs) as Ht.
  destruct t; [congruence|exact Ht].
Qed.

Lemma qsym_shape s :
  qsym_ok s = true ->
  exists body, s = cBAR :: body ++ [cBAR] /\ forallb (fun x => negb (N.eqb x cBAR)) body = true.
Proof.
  destruct s as [|c r]; [discriminate|]. unfold qsym_ok. intro H.
  apply andb_true_iff in H as [Hc H]. apply N.eqb_eq in Hc. subst c.
  destruct (rev r) as [|d body_rev] eqn:E; [discriminate|].
  apply andb_true_iff in H as [Hd H]. apply N.eqb_eq in Hd. subst d.
  exists (rev body_rev). split.
  - f_equal. rewrite <- (rev_involutive r), E. reflexivity.
  - apply forallb_forall. intros x Hx. apply in_rev in Hx.
    rewrite forallb_forall in H. now apply H.
Qed.

Lemma qsym_make u :
  forallb (fun x => negb (N.eqb x cBAR)) u = true -> qsym_ok (cBAR :: u ++ [cBAR]) = true.
Proof.
  intro H. unfold qsym_ok. rewrite N.eqb_refl, rev_unit, N.eqb_refl. cbn [andb].
  apply forallb_forall. intros x Hx. apply in_rev in Hx.
  rewrite forallb_forall in H. now apply H.
Qed.

Lemma qsym_piped s : qsym_ok s = true -> is_piped s = true.
Proof.
  intro H. destruct (qsym_shape s H) as (body & -> & _).
  unfold is_piped. rewrite N.eqb_refl.
  change (cBAR :: body ++ [cBAR]) with ((cBAR :: body) ++ [cBAR]).
  now rewrite last_last, N.eqb_refl.
Qed.

Theorem ssn_qsym isvar s t :
  qsym_ok s = true -> In t (ssn_names isvar s) -> qsym_ok t = true.
Proof.
  intros Hq H. pose proof (qsym_piped s Hq) as Hp.
  destruct (ssn_piped isvar s t Hp H) as (_ & _ & _ & u & a & b & -> & _ & E).
  destruct (qsym_shape s Hq) as (body & -> & Hb).
  cbn [tl] in E. rewrite removelast_last in E.
  apply qsym_make. exact (infix_forallb _ body a u b E Hb).
Qed.

(* hence well-formedness of the renamed leaf for standard symbols *)
Theorem ssn_symbol_wf isvar s t :
  atom_ok s = true \/ qsym_ok s = true -> In t (ssn_names isvar s) ->
  leaf_std t = true /\ leaf_ok t = true.
Proof.
  intros [Ha | Hq] H.
  - pose proof (ssn_atom isvar s t Ha H) as Ht. split.
    + unfold leaf_std. now rewrite Ht.
    + destruct t as [|c r]; [discriminate|]. apply atom_str_leaf; [discriminate|exact Ht].
  - pose proof (ssn_qsym isvar s t Hq H) as Ht. split.
    + unfold leaf_std. rewrite Ht. now rewrite !orb_true_r.
    + unfold leaf_ok. rewrite Ht. now rewrite !orb_true_r.
Qed.

(* Since the scanner's fix F41 no leaf is a "liberal" atom (a quote or a bar inside
   an atom) any more: a well-formed leaf is an atom, a string literal, a quoted
   symbol or a comment, so [ssn_atom] covers every well-formed leaf that is not piped
   and is neither a string literal nor a comment, and [ssn_symbol_wf] every well-formed
   symbol. *)
Theorem ssn_leaf_wf isvar s t :
  leaf_ok s = true -> strlit_ok s = false -> comment_ok s = false ->
  In t (ssn_names isvar s) ->
  leaf_std t = true /\ leaf_ok t = true.
Proof.
  intros Hl Hs Hc H. apply (ssn_symbol_wf isvar s t); [|exact H].
  unfold leaf_ok, atom_ok_lib in Hl. rewrite Hs, Hc, !orb_false_r in Hl.
  now apply orb_true_iff in Hl.
Qed.

(* since fix F47 the mutator does not touch a string literal or comment in the place of the symbol: closure holds for
   EVERY well-formed leaf *)
Lemma ssn_nonsym_nil isvar s c r : s = c :: r -> (N.eqb c cSEMI || N.eqb c cDQ) = true -> ssn_names isvar s = [].
Proof. intros -> H. unfold ssn_names. rewrite H. reflexivity. Qed.

Theorem ssn_any_leaf_wf isvar s t :
  leaf_ok s = true -> In t (ssn_names isvar s) -> leaf_std t = true /\ leaf_ok t = true.
Proof.
  intros Hl H.
  destruct (strlit_ok s) eqn:Hs.
  { destruct s as [|c r]; [discriminate Hs|]. cbn [strlit_ok] in Hs. apply andb_true_iff in Hs as [Hc _].
    rewrite (ssn_nonsym_nil isvar (c :: r) c r eq_refl) in H; [destruct H|]. rewrite Hc. apply orb_true_r. }
  destruct (comment_ok s) eqn:Hc.
  { destruct s as [|c r]; [discriminate Hc|]. cbn [comment_ok] in Hc. apply andb_true_iff in Hc as [Hc' _].
    rewrite (ssn_nonsym_nil isvar (c :: r) c r eq_refl) in H; [destruct H|]. rewrite Hc'. reflexivity. }
  now apply (ssn_leaf_wf isvar s t).
Qed.
