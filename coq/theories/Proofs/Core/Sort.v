(* (O) SortChildren: the stable insertion sort by [size]; permutation,
   sortedness, idempotence, and the inversion count [disorder] that the mutator
   strictly decreases. *)
From DD Require Import Model.CoreRw Proofs.Core.Base.
From Coq Require Import Permutation Sorted Arith Lia.
Local Open Scope list_scope.

Definition le_by (k : sexp -> nat) (a b : sexp) : Prop := k a <= k b.

(* ---- the insertion sort ---- *)
Lemma insert_by_perm k x l : Permutation (insert_by k x l) (x :: l).
Proof.
  induction l as [|y r IH]; [apply Permutation_refl|].
  cbn [insert_by]. destruct (Nat.leb (k x) (k y)); [apply Permutation_refl|].
  eapply perm_trans; [apply perm_skip; exact IH|apply perm_swap].
Qed.

Lemma sort_by_perm k l : Permutation (sort_by k l) l.
Proof.
  induction l as [|x l IH]; [apply perm_nil|].
  change (sort_by k (x :: l)) with (insert_by k x (sort_by k l)).
  eapply perm_trans; [apply insert_by_perm|now apply perm_skip].
Qed.

Lemma insert_by_sorted k x l :
  StronglySorted (le_by k) l -> StronglySorted (le_by k) (insert_by k x l).
Proof.
  induction 1 as [|y r Hs IH Hy].
  - cbn [insert_by]. constructor; constructor.
  - cbn [insert_by]. destruct (Nat.leb (k x) (k y)) eqn:E.
    + apply Nat.leb_le in E. constructor; [now constructor|].
      constructor; [exact E|]. rewrite Forall_forall in *. intros z Hz.
      specialize (Hy z Hz). unfold le_by in *. lia.
    + apply Nat.leb_gt in E. constructor; [exact IH|].
      rewrite Forall_forall in *. intros z Hz.
      apply (Permutation_in _ (insert_by_perm k x r)) in Hz.
      destruct Hz as [<- | Hz]; [unfold le_by; lia|now apply Hy].
Qed.

Lemma sort_by_sorted k l : StronglySorted (le_by k) (sort_by k l).
Proof.
  induction l as [|x l IH]; [constructor|].
  change (sort_by k (x :: l)) with (insert_by k x (sort_by k l)).
  now apply insert_by_sorted.
Qed.

(* ---- inversions of a list of numbers ---- *)
Fixpoint inv_list (l : list nat) : nat :=
  match l with
  | [] => 0
  | x :: r => length (filter (fun y => Nat.ltb y x) r) + inv_list r
  end.

Lemma inv_list_sorted l : StronglySorted le l -> inv_list l = 0.
Proof.
  induction 1 as [|x r _ IH Hx]; [reflexivity|].
  cbn [inv_list]. rewrite IH.
  assert (E : filter (fun y => Nat.ltb y x) r = []).
  { clear IH. induction Hx as [|y r Hy _ IHr]; [reflexivity|].
    cbn [filter]. destruct (Nat.ltb y x) eqn:Ey; [apply Nat.ltb_lt in Ey; lia|exact IHr]. }
  now rewrite E.
Qed.

Lemma sorted_map k l : StronglySorted (le_by k) l -> StronglySorted le (map k l).
Proof.
  induction 1 as [|x r _ IH Hx]; [constructor|].
  cbn [map]. constructor; [exact IH|].
  rewrite Forall_forall in *. intros z Hz. apply in_map_iff in Hz as (y & <- & Hy).
  exact (Hx y Hy).
Qed.

Lemma inv_sort_by k l : inv_list (map k (sort_by k l)) = 0.
Proof. apply inv_list_sorted, sorted_map, sort_by_sorted. Qed.

(* a list without inversions is left unchanged by the sort *)
Lemma inv0_sort_id k l : inv_list (map k l) = 0 -> sort_by k l = l.
Proof.
  induction l as [|x r IH]; intro H; [reflexivity|].
  cbn [map inv_list] in H.
  change (sort_by k (x :: r)) with (insert_by k x (sort_by k r)).
  assert (H2 : inv_list (map k r) = 0) by lia. rewrite (IH H2).
  destruct r as [|y r']; [reflexivity|].
  cbn [insert_by]. destruct (Nat.leb (k x) (k y)) eqn:E; [reflexivity|].
  apply Nat.leb_gt in E. apply Nat.ltb_lt in E.
  cbn [map filter] in H. rewrite E in H. cbn [length] in H. lia.
Qed.

Lemma sort_by_idem k l : sort_by k (sort_by k l) = sort_by k l.
Proof. apply inv0_sort_id, inv_sort_by. Qed.

Lemma sort_changes_inv k l : sort_by k l <> l -> 0 < inv_list (map k l).
Proof.
  intro H. destruct (inv_list (map k l)) eqn:E; [|lia].
  exfalso. apply H. now apply inv0_sort_id.
Qed.

(* ---- the mutator ---- *)
Lemma sort_children_inv e l :
  rw_sort_children e = Some l ->
  l = [] \/ exists c, e = T c /\ l = [T (sort_by size c)] /\ sort_by size c <> c.
Proof.
  intro HR. destruct e as [s|c]; cbn [rw_sort_children] in HR.
  - injection HR as <-. now left.
  - cbv zeta in HR. destruct (sexp_eqb (T (sort_by size c)) (T c)) eqn:E; injection HR as <-.
    + now left.
    + right. exists c. repeat split. intro E'. apply sexp_eqb_false in E.
      apply E. now rewrite E'.
Qed.

Lemma sort_children_inv1 e e' l :
  rw_sort_children e = Some l -> In e' l ->
  exists c, e = T c /\ l = [e'] /\ e' = T (sort_by size c) /\ sort_by size c <> c.
Proof.
  intros HR Hin. apply sort_children_inv in HR as [-> | (c & -> & -> & Hne)]; [destruct Hin|].
  destruct Hin as [<- | []]. now exists c.
Qed.

Theorem sort_children_size e l e' :
  rw_sort_children e = Some l -> In e' l -> size e' = size e /\ e' <> e.
Proof.
  intros HR Hin. destruct (sort_children_inv1 e e' l HR Hin) as (c & -> & _ & -> & Hne).
  split.
  - rewrite !size_T. f_equal. apply sizes_perm, sort_by_perm.
  - intro E. injection E as E. now apply Hne.
Qed.

Theorem sort_children_perm e l e' :
  rw_sort_children e = Some l -> In e' l ->
  exists c c', e = T c /\ e' = T c' /\ Permutation c' c /\
               StronglySorted (fun a b => size a <= size b) c'.
Proof.
  intros HR Hin. destruct (sort_children_inv1 e e' l HR Hin) as (c & -> & _ & -> & Hne).
  exists c, (sort_by size c). repeat split; [apply sort_by_perm|apply (sort_by_sorted size)].
Qed.

Theorem sort_children_sorted e l e' :
  rw_sort_children e = Some l -> In e' l ->
  exists c', e' = T c' /\ Sorted (fun a b => size a <= size b) c'.
Proof.
  intros HR Hin. destruct (sort_children_perm e l e' HR Hin) as (c & c' & _ & -> & _ & Hs).
  exists c'. split; [reflexivity|now apply StronglySorted_Sorted].
Qed.

Theorem sort_children_idem e s :
  rw_sort_children e = Some [s] -> rw_sort_children s = Some [].
Proof.
  intro HR. destruct (sort_children_inv1 e s [s] HR (or_introl eq_refl)) as (c & -> & _ & -> & _).
  cbn [rw_sort_children]. cbv zeta. rewrite sort_by_idem, seqb_refl. reflexivity.
Qed.

(* at most one proposal *)
Theorem sort_children_le1 e l : rw_sort_children e = Some l -> length l <= 1.
Proof.
  intro HR. apply sort_children_inv in HR as [-> | (c & _ & -> & _)]; cbn; lia.
Qed.

(* ---- disorder: the inversions of the child sizes, summed over all nodes ---- *)
Fixpoint disorder (e : sexp) : nat :=
  match e with
  | L _ => 0
  | T l => inv_list (map size l) + fold_right (fun x a => disorder x + a) 0 l
  end.
Definition disorders (l : list sexp) : nat := fold_right (fun x a => disorder x + a) 0 l.

Lemma disorder_T l : disorder (T l) = inv_list (map size l) + disorders l.
Proof. reflexivity. Qed.

Lemma disorders_cons x l : disorders (x :: l) = disorder x + disorders l.
Proof. reflexivity. Qed.

Lemma disorders_app l m : disorders (l ++ m) = disorders l + disorders m.
Proof.
  induction l as [|x l IH]; [reflexivity|].
  rewrite <- app_comm_cons, !disorders_cons, IH. lia.
Qed.

Lemma disorders_perm l m : Permutation l m -> disorders l = disorders m.
Proof.
  induction 1 as [|x l m _ IH|x y l|l m n _ IH1 _ IH2]; rewrite ?disorders_cons; lia.
Qed.

Theorem sort_children_disorder e s :
  rw_sort_children e = Some [s] -> disorder s < disorder e.
Proof.
  intro HR. destruct (sort_children_inv1 e s [s] HR (or_introl eq_refl)) as (c & -> & _ & -> & Hne).
  rewrite !disorder_T, inv_sort_by, (disorders_perm _ _ (sort_by_perm size c)).
  pose proof (sort_changes_inv size c Hne). lia.
Qed.

(* the form used by the step relation *)
Theorem sort_children_lex e l e' :
  rw_sort_children e = Some l -> In e' l -> size e' = size e /\ disorder e' < disorder e.
Proof.
  intros HR Hin. split; [exact (proj1 (sort_children_size e l e' HR Hin))|].
  destruct (sort_children_inv1 e e' l HR Hin) as (c & _ & -> & _). now apply sort_children_disorder.
Qed.
