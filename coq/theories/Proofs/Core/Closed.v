(* (W), property C15 for the structural mutators: every proposal is made of
   children of the node (erased, selected, spliced, permuted, cut), hence well
   formed whenever the node is. *)
From DD Require Import Model.CoreRw Spec.StdReader Proofs.Closure.RwClosed
  Proofs.Core.Base Proofs.Core.Sort.
From Coq Require Import Permutation Arith Lia.
Local Open Scope list_scope.

Lemma forallb_in (l : list sexp) x : forallb wf l = true -> In x l -> wf x = true.
Proof. intros H Hx. rewrite forallb_forall in H. now apply H. Qed.

Lemma forallb_incl (l m : list sexp) :
  (forall x, In x m -> In x l) -> forallb wf l = true -> forallb wf m = true.
Proof.
  intros Hi H. apply forallb_forall. intros x Hx. eapply forallb_in; [exact H|now apply Hi].
Qed.

Lemma erase_at_in i (l : list sexp) x : In x (erase_at i l) -> In x l.
Proof.
  revert i; induction l as [|y l IH]; intros i H; [destruct i; exact H|].
  destruct i as [|i]; cbn [erase_at] in H; [now right|].
  destruct H as [-> | H]; [now left|right; now apply (IH i)].
Qed.

Theorem rw_erase_child_closed : closed_rw rw_erase_child.
Proof.
  intros e l e' Hw HR Hin. destruct e as [s|c]; cbn [rw_erase_child] in HR; injection HR as <-.
  - destruct Hin.
  - apply in_map_iff in Hin as (i & <- & _). cbn [wf] in *.
    eapply forallb_incl; [|exact Hw]. apply erase_at_in.
Qed.

Theorem rw_replace_by_child_closed gs : closed_rw (rw_replace_by_child gs).
Proof.
  intros e l e' Hw HR Hin. destruct e as [s|c]; cbn [rw_replace_by_child] in HR.
  - injection HR as <-. destruct Hin.
  - destruct (is_op (T c) "let"); injection HR as <-; [destruct Hin|].
    apply filter_In in Hin as [Hin _]. apply in_tl in Hin. cbn [wf] in Hw.
    now apply (forallb_in c).
Qed.

Lemma merge_at_wf h pre post e' :
  forallb wf pre = true -> forallb wf post = true ->
  In e' (merge_at h pre post) -> wf e' = true.
Proof.
  revert pre; induction post as [|c r IH]; intros pre Hp Hq Hin; [destruct Hin|].
  cbn [forallb] in Hq. apply andb_true_iff in Hq as [Hc Hr].
  cbn [merge_at] in Hin. apply in_app_or in Hin as [Hin | Hin].
  - destruct c as [s|[|[hc|?] cargs]]; cbn [In] in Hin; try contradiction.
    destruct (str_eqb hc h); [|destruct Hin]. destruct Hin as [<- | []].
    cbn [wf forallb] in Hc. apply andb_true_iff in Hc as [_ Hc].
    cbn [wf]. rewrite !forallb_app, Hc, Hr, !andb_true_r.
    apply forallb_forall. intros x Hx. apply in_rev in Hx. now apply (forallb_in pre).
  - apply (IH (c :: pre)); [cbn [forallb]; now rewrite Hc, Hp|exact Hr|exact Hin].
Qed.

Theorem rw_merge_children_closed : closed_rw rw_merge_children.
Proof.
  intros e l e' Hw HR Hin. unfold rw_merge_children in HR.
  destruct (has_nary_operator e); [|injection HR as <-; destruct Hin].
  destruct e as [s|[|[h|?] args]]; injection HR as <-; cbn [In] in Hin; try contradiction.
  cbn [wf forallb] in Hw. apply andb_true_iff in Hw as [Hh Ha].
  apply (merge_at_wf h [L h] args); [cbn [forallb wf]; now rewrite Hh|exact Ha|exact Hin].
Qed.

Theorem rw_sort_children_closed : closed_rw rw_sort_children.
Proof.
  intros e l e' Hw HR Hin.
  destruct (sort_children_inv1 e e' l HR Hin) as (c & -> & _ & -> & _).
  cbn [wf] in *. eapply forallb_incl; [|exact Hw].
  intros x Hx. exact (Permutation_in _ (sort_by_perm size c) Hx).
Qed.

Lemma firstn_in {A} k (l : list A) x : In x (firstn k l) -> In x l.
Proof.
  revert l; induction k as [|k IH]; intros [|y l] H; cbn [firstn In] in H; try contradiction.
  destruct H as [-> | H]; [now left|right; now apply IH].
Qed.

Lemma skipn_in {A} k (l : list A) x : In x (skipn k l) -> In x l.
Proof.
  revert l; induction k as [|k IH]; intros [|y l] H; cbn [skipn] in H; try exact H.
  right. now apply IH.
Qed.

Theorem rw_binary_reduction_closed : closed_rw rw_binary_reduction.
Proof.
  intros e l e' Hw HR Hin. destruct e as [s|c]; cbn [rw_binary_reduction] in HR.
  - injection HR as <-. destruct Hin.
  - destruct (Nat.ltb (length c) 8); injection HR as <-; [destruct Hin|].
    apply in_map_iff in Hin as ([a b] & <- & _). unfold cut. cbn [wf] in *.
    eapply forallb_incl; [|exact Hw]. intros x Hx.
    apply in_app_or in Hx as [Hx | Hx]; [eapply firstn_in|eapply skipn_in]; exact Hx.
Qed.

Theorem rw_let_elim_closed : closed_rw rw_let_elim.
Proof.
  intros e l e' Hw HR Hin. unfold rw_let_elim in HR.
  destruct (is_op e "let"); [|injection HR as <-; destruct Hin].
  destruct e as [s|[|x [|y [|body r]]]]; injection HR as <-; cbn [In] in Hin; try contradiction.
  destruct Hin as [<- | []]. cbn [wf] in Hw. apply (forallb_in _ _ Hw). right; right; now left.
Qed.
