(* SimplifyLogic (Model/SmtlibRw.v): str.replace with patterns and replacements
   made of capital letters keeps every lexeme class (closure, C15), whatever
   leaf follows set-logic (atom, string literal, quoted symbol, comment); every
   candidate is strictly smaller in (length + number of letters N). *)
From DD Require Import Model.SmtlibRw Spec.StdReader Proofs.Closure.Atoms Proofs.Closure.RwClosed
  Proofs.Core.Base Proofs.More1.Basic Proofs.More1.Quoted.
From Coq Require Import Arith Lia.
Local Open Scope list_scope.

(* ---- plain characters: capital letters ---- *)
Definition plain (c : char) : bool := in_range c 65 90.

Lemma plain_range c : plain c = true -> (65 <= c <= 90)%N.
Proof.
  unfold plain, in_range. intro H. apply andb_true_iff in H as [H1 H2].
  apply N.leb_le in H1, H2. lia.
Qed.

Lemma plain_neq c d : plain c = true -> (d < 65 \/ 90 < d)%N -> N.eqb c d = false.
Proof. intros H Hd. apply plain_range in H. apply N.eqb_neq. lia. Qed.

Lemma plain_atom c : plain c = true -> atom_char c = true.
Proof.
  intro H. unfold atom_char, is_ws, is_brk.
  rewrite !(plain_neq c) by (try exact H; vm_compute; intuition congruence). reflexivity.
Qed.

Lemma plain_notbar c : plain c = true -> notbar c = true.
Proof. intro H. unfold notbar. rewrite (plain_neq c) by (try exact H; vm_compute; intuition congruence). reflexivity. Qed.

Definition notlb (c : char) : bool := negb (is_lb c).
Lemma plain_notlb c : plain c = true -> notlb c = true.
Proof.
  intro H. unfold notlb, is_lb.
  rewrite !(plain_neq c) by (try exact H; vm_compute; intuition congruence). reflexivity.
Qed.

(* ---- the relation between a text and its image under replace ---- *)
Inductive rel : str -> str -> Prop :=
| rel_nil : rel [] []
| rel_keep c s o : rel s o -> rel (c :: s) (c :: o)
| rel_sub p r s o : p <> [] -> forallb plain p = true -> forallb plain r = true ->
                    rel s o -> rel (p ++ s) (r ++ o).

Lemma prefixb_app p : forall s, prefixb p s = true -> s = p ++ skipn (length p) s.
Proof.
  induction p as [|a p IH]; intros s H; [reflexivity|].
  destruct s as [|b s]; [discriminate|]. cbn [prefixb] in H.
  apply andb_true_iff in H as [H1 H2]. apply N.eqb_eq in H1. subst b.
  cbn [length skipn app]. f_equal. now apply IH.
Qed.

Lemma replace_rel p r :
  p <> [] -> forallb plain p = true -> forallb plain r = true ->
  forall s k, rel (skipn k s) (replace_from p r k s).
Proof.
  intros Hp Hpp Hpr. induction s as [|c tl IH]; intro k.
  - destruct k; cbn; constructor.
  - destruct k as [|k]; cbn [replace_from skipn]; [|apply IH].
    destruct (prefixb p (c :: tl)) eqn:E.
    + pose proof (prefixb_app p _ E) as Hs. destruct p as [|a p']; [congruence|].
      cbn [length skipn] in Hs. rewrite Hs.
      unfold char in *. replace (length (a :: p') - 1) with (length p') by (cbn [length]; lia).
      apply rel_sub; try assumption. apply IH.
    + apply rel_keep. apply (IH 0).
Qed.

Lemma rel_nil_inv o : rel [] o -> o = [].
Proof.
  intro H. remember [] as x eqn:Ex. destruct H as [|c s o H|p r s o Hp _ _ _]; [reflexivity|discriminate|].
  destruct p; [congruence|discriminate].
Qed.

Lemma rel_cons_inv c s o : rel (c :: s) o -> plain c = false -> exists o', o = c :: o' /\ rel s o'.
Proof.
  intros H Hc. remember (c :: s) as x eqn:Ex.
  destruct H as [|c' s' o' H'|p r s' o' Hp Hpp _ _]; [discriminate| |].
  - injection Ex as -> ->. now exists o'.
  - destruct p as [|a p]; [congruence|]. cbn [app] in Ex. injection Ex as -> _.
    cbn [forallb] in Hpp. rewrite Hc in Hpp. discriminate.
Qed.

Lemma rel_app a b c d : rel a b -> rel c d -> rel (a ++ c) (b ++ d).
Proof.
  intros H1 H2. induction H1 as [|x s o _ IH|p r s o Hp Hpp Hpr _ IH]; [exact H2| |].
  - cbn [app]. now apply rel_keep.
  - rewrite <- !app_assoc. now apply rel_sub.
Qed.

Lemma rel_rev s o : rel s o -> rel (rev s) (rev o).
Proof.
  intro H. induction H as [|x s o _ IH|p r s o Hp Hpp Hpr _ IH]; [constructor| |].
  - cbn [rev]. apply rel_app; [exact IH|]. apply rel_keep, rel_nil.
  - rewrite !rev_app_distr. apply rel_app; [exact IH|].
    rewrite <- (app_nil_r (rev p)), <- (app_nil_r (rev r)).
    apply rel_sub; [|now apply forallb_rev|now apply forallb_rev|constructor].
    intro E. apply (f_equal (@rev N)) in E. rewrite rev_involutive in E. now apply Hp.
Qed.

Lemma rel_forallb (P : char -> bool) :
  (forall c, plain c = true -> P c = true) ->
  forall s o, rel s o -> forallb P s = true -> forallb P o = true.
Proof.
  intros HP s o H. induction H as [|x s o _ IH|p r s o Hp Hpp Hpr _ IH]; intro Hs; [reflexivity| |].
  - cbn [forallb] in *. apply andb_true_iff in Hs as [H1 H2]. now rewrite H1, IH.
  - rewrite forallb_app in *. apply andb_true_iff in Hs as [_ H2]. rewrite (IH H2), andb_true_r.
    apply forallb_forall. intros c Hc. apply HP. rewrite forallb_forall in Hpr. now apply Hpr.
Qed.

(* string bodies: a double quote only doubled *)
Lemma strbody_plain_app p s : forallb plain p = true -> strbody_ok (p ++ s) = strbody_ok s.
Proof.
  induction p as [|c p IH]; intro H; [reflexivity|]. cbn [forallb] in H.
  apply andb_true_iff in H as [Hc Hp]. cbn [app strbody_ok].
  rewrite (plain_neq c) by (try exact Hc; vm_compute; intuition congruence). now apply IH.
Qed.

Lemma rel_strbody_aux s o : rel s o ->
  (strbody_ok s = true -> strbody_ok o = true) /\
  (forall s', s = cDQ :: s' -> strbody_ok s' = true -> exists o', o = cDQ :: o' /\ strbody_ok o' = true).
Proof.
  intro H. induction H as [|c s o _ [IH1 IH2]|p r s o Hp Hpp Hpr _ [IH1 IH2]].
  - split; [auto|]. intros s' E. discriminate.
  - split.
    + cbn [strbody_ok]. destruct (N.eqb c cDQ) eqn:Ec; [|exact IH1].
      destruct s as [|d s']; [discriminate|]. intro Hd. apply andb_true_iff in Hd as [Hd Hs'].
      apply N.eqb_eq in Hd. subst d. destruct (IH2 s' eq_refl Hs') as (o' & -> & Ho').
      change (N.eqb cDQ cDQ) with true. exact Ho'.
    + intros s' E Hs'. injection E as -> <-. exists o. split; [reflexivity|now apply IH1].
  - split.
    + rewrite !strbody_plain_app by assumption. exact IH1.
    + intros s' E. destruct p as [|a p]; [congruence|]. injection E as -> _.
      cbn [forallb] in Hpp. discriminate.
Qed.

Lemma rel_strbody s o : rel s o -> strbody_ok s = true -> strbody_ok o = true.
Proof. intro H. exact (proj1 (rel_strbody_aux s o H)). Qed.

(* ---- every class of leaves is kept ---- *)
(* first character c0 special, last character satisfying [lastp] (special), body: [bodyp] *)
Lemma rel_bracket (s o : str) (c0 : char) (lastp : char -> bool) (bodyp : str -> bool) :
  rel s o ->
  (forall d, lastp d = true -> plain d = false) -> plain c0 = false ->
  (forall a b, rel a b -> bodyp a = true -> bodyp b = true) ->
  match s with
  | c :: tl => N.eqb c c0 && match rev tl with d :: body_rev => lastp d && bodyp body_rev | [] => false end
  | [] => false
  end = true ->
  match o with
  | c :: tl => N.eqb c c0 && match rev tl with d :: body_rev => lastp d && bodyp body_rev | [] => false end
  | [] => false
  end = true.
Proof.
  intros H Hl Hc0 Hb Hs. destruct s as [|c tl]; [discriminate|].
  apply andb_true_iff in Hs as [Hc Hs]. apply N.eqb_eq in Hc. subst c.
  destruct (rel_cons_inv _ _ _ H Hc0) as (tl' & -> & Ht). rewrite N.eqb_refl. cbn [andb].
  apply rel_rev in Ht. unfold char in *. destruct (rev tl) as [|d body_rev]; [discriminate|].
  apply andb_true_iff in Hs as [Hd Hbody].
  destruct (rel_cons_inv _ _ _ Ht (Hl d Hd)) as (br' & -> & Hbr).
  rewrite Hd. cbn [andb]. exact (Hb _ _ Hbr Hbody).
Qed.

Lemma rel_leaf_ok s o : rel s o -> o <> [] -> leaf_ok s = true -> leaf_ok o = true.
Proof.
  intros H Ho Hs. unfold leaf_ok, atom_ok_lib in *.
  apply orb_true_iff in Hs as [Hs | Hs]; [apply orb_true_iff in Hs as [Hs | Hs]; [apply orb_true_iff in Hs as [Hs | Hs]|]|].
  - (* atom *)
    assert (Ha : atom_ok o = true); [|now rewrite Ha].
    unfold atom_ok in *. destruct s as [|c s]; [discriminate|]. destruct o as [|d o]; [congruence|].
    exact (rel_forallb atom_char plain_atom _ _ H Hs).
  - (* string literal *)
    assert (Ha : strlit_ok o = true); [|now rewrite Ha, !orb_true_r].
    unfold strlit_ok in *.
    apply (rel_bracket s o cDQ (fun d => N.eqb d cDQ) (fun b => strbody_ok (rev b)) H); try assumption; try reflexivity.
    + intros d Hd. apply N.eqb_eq in Hd. now subst d.
    + intros a b Hab. apply rel_strbody. now apply rel_rev.
  - (* quoted symbol *)
    assert (Ha : qsym_ok o = true); [|now rewrite Ha, !orb_true_r].
    unfold qsym_ok in *.
    apply (rel_bracket s o cBAR (fun d => N.eqb d cBAR) (forallb (fun x => negb (N.eqb x cBAR))) H); try assumption; try reflexivity.
    + intros d Hd. apply N.eqb_eq in Hd. now subst d.
    + intros a b Hab. apply (rel_forallb _ plain_notbar _ _ Hab).
  - (* comment *)
    assert (Ha : comment_ok o = true); [|now rewrite Ha, !orb_true_r].
    unfold comment_ok in *.
    apply (rel_bracket s o cSEMI is_lb (forallb (fun x => negb (is_lb x))) H); try assumption; try reflexivity.
    + intros d Hd. unfold is_lb in Hd. apply orb_true_iff in Hd as [Hd | Hd]; apply N.eqb_eq in Hd; now subst d.
    + intros a b Hab. apply (rel_forallb _ plain_notlb _ _ Hab).
Qed.

(* ---- the candidates ---- *)
Lemma logic_cands_rel s c : In c (logic_cands s) -> c <> [] /\ rel s c.
Proof.
  unfold logic_cands. intro H. apply in_flat_map in H as (pr & Hpr & Hc).
  cbn [logic_repls In] in Hpr.
  repeat (destruct Hpr as [<- | Hpr]; [
    cbn [fst snd] in Hc;
    match type of Hc with In _ (if ?b then _ else _) => destruct b; [|destruct Hc] end;
    match type of Hc with In _ (match ?r with _ => _ end) => destruct r eqn:E; [destruct Hc|] end;
    destruct Hc as [<- | []]; split; [discriminate|];
    rewrite <- E; unfold replace_all;
    match goal with |- rel ?s (replace_from ?p ?r 0 ?s) =>
      apply (replace_rel p r ltac:(discriminate) eq_refl eq_refl s 0) end
  |]).
  destruct Hpr.
Qed.

Theorem simplify_logic_closed : closed_rw rw_simplify_logic.
Proof.
  intros e l e' Hw HR Hin. unfold rw_simplify_logic in HR.
  destruct (is_op e "set-logic"); [|injection HR as <-; destruct Hin].
  destruct e as [s|[|h [|[s|c] rest]]]; try discriminate. injection HR as <-.
  apply in_map_iff in Hin as (c & <- & Hc). apply logic_cands_rel in Hc as [Hne Hrel].
  cbn [wf forallb] in *. wf_split.
  rewrite (rel_leaf_ok s c Hrel Hne) by assumption. reflexivity.
Qed.

(* ---- the measure: length + number of letters N ---- *)
Definition lm (s : str) : nat := length s + length (filter (N.eqb 78%N) s).

Lemma lm_app a b : lm (a ++ b) = lm a + lm b.
Proof. unfold lm. rewrite filter_app, !app_length. lia. Qed.

Lemma lm_cons c s : lm (c :: s) = lm [c] + lm s.
Proof. exact (lm_app [c] s). Qed.

Lemma replace_lm_le p r : p <> [] -> lm r <= lm p ->
  forall s k, lm (replace_from p r k s) <= lm (skipn k s).
Proof.
  intros Hp Hle. induction s as [|c tl IH]; intro k.
  - destruct k; cbn; lia.
  - destruct k as [|k]; cbn [replace_from skipn]; [|apply IH].
    destruct (prefixb p (c :: tl)) eqn:E.
    + pose proof (prefixb_app p _ E) as Hs. destruct p as [|a p']; [congruence|].
      cbn [length skipn] in Hs. rewrite Hs.
      unfold char in *. replace (length (a :: p') - 1) with (length p') by (cbn [length]; lia).
      rewrite !lm_app. specialize (IH (length p')). lia.
    + rewrite (lm_cons c tl), (lm_cons c (replace_from p r 0 tl)). specialize (IH 0). cbn [skipn] in IH. lia.
Qed.

Lemma replace_lm_lt p r : p <> [] -> lm r < lm p ->
  forall s, containsb p s = true -> lm (replace_from p r 0 s) < lm s.
Proof.
  intros Hp Hlt. induction s as [|c tl IH]; intro Hc.
  - destruct p; [congruence|discriminate].
  - cbn [replace_from]. cbn [containsb] in Hc. destruct (prefixb p (c :: tl)) eqn:E.
    + pose proof (prefixb_app p _ E) as Hs. destruct p as [|a p']; [congruence|].
      cbn [length skipn] in Hs. rewrite Hs.
      unfold char in *. replace (length (a :: p') - 1) with (length p') by (cbn [length]; lia).
      rewrite !lm_app.
      pose proof (replace_lm_le (a :: p') r Hp ltac:(lia) tl (length p')). lia.
    + cbn [orb] in Hc. specialize (IH Hc).
      rewrite (lm_cons c tl), (lm_cons c (replace_from p r 0 tl)). lia.
Qed.

Lemma logic_cands_lm s c : In c (logic_cands s) -> lm c < lm s.
Proof.
  unfold logic_cands. intro H. apply in_flat_map in H as (pr & Hpr & Hc).
  cbn [logic_repls In] in Hpr.
  repeat (destruct Hpr as [<- | Hpr]; [
    cbn [fst snd] in Hc;
    match type of Hc with In _ (if ?b then _ else _) => destruct b eqn:Eb; [|destruct Hc] end;
    match type of Hc with In _ (match ?r with _ => _ end) => destruct r eqn:E; [destruct Hc|] end;
    destruct Hc as [<- | []];
    rewrite <- E; unfold replace_all;
    apply replace_lm_lt; [discriminate|vm_compute; lia|exact Eb]
  |]).
  destruct Hpr.
Qed.

(* the number of nodes does not grow (it stays the same on (set-logic X)); the logic name gets smaller *)
Theorem simplify_logic_size e l e' :
  rw_simplify_logic e = Some l -> In e' l ->
  size e' <= size e /\
  exists s rest c, e = T (lf "set-logic" :: L s :: rest) /\ e' = T [lf "set-logic"; L c] /\
                   c <> [] /\ lm c < lm s.
Proof.
  intros HR Hin. unfold rw_simplify_logic in HR.
  destruct (is_op e "set-logic") eqn:Eop; [|injection HR as <-; destruct Hin].
  apply is_op_inv in Eop as (r & ->).
  destruct r as [|[s|c] rest]; try discriminate. injection HR as <-.
  apply in_map_iff in Hin as (c & <- & Hc). split.
  - rewrite !size_T, !sizes_cons, sizes_nil. cbn [lf size]. lia.
  - exists s, rest, c. repeat split; [exact (proj1 (logic_cands_rel s c Hc))|now apply logic_cands_lm].
Qed.
