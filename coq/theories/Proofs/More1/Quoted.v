(* SimplifyQuotedSymbols (Model/SmtlibRw.v): on a well-formed leaf the prefix
   match of the regular expression is a full match, the unquoted text is an
   atom (closure, C15); the leaf loses its two bars (the number of nodes stays). *)
From DD Require Import Model.SmtlibRw Spec.StdReader Proofs.Closure.Atoms Proofs.Closure.RwClosed.
From Coq Require Import Arith Lia.
Local Open Scope list_scope.

Lemma simple_atom c : simple_char c = true -> atom_char c = true.
Proof.
  intro H. destruct (atom_char c) eqn:E; [reflexivity|].
  unfold atom_char in E. apply negb_false_iff in E. unfold is_ws, is_brk in E.
  repeat (apply orb_true_iff in E; destruct E as [E|E]);
    apply N.eqb_eq in E; subst c; vm_compute in H; discriminate.
Qed.

Lemma take_while_all f s : forallb f (take_while f s) = true.
Proof.
  induction s as [|c r IH]; [reflexivity|]. cbn [take_while].
  destruct (f c) eqn:E; [|reflexivity]. cbn [forallb]. now rewrite E, IH.
Qed.

Definition notbar (x : char) : bool := negb (N.eqb x cBAR).

Lemma simple_notbar c : simple_char c = true -> notbar c = true.
Proof.
  intro H. unfold notbar. destruct (N.eqb c cBAR) eqn:E; [|reflexivity].
  apply N.eqb_eq in E. subst c. vm_compute in H. discriminate.
Qed.

(* the run of class characters of a bar-free body followed by a bar, when a bar follows it, is the body *)
Lemma run_is_body body :
  forallb notbar body = true ->
  match skipn (length (take_while simple_char (body ++ [cBAR]))) (body ++ [cBAR]) with
  | d :: _ => N.eqb d cBAR
  | [] => false
  end = true ->
  take_while simple_char (body ++ [cBAR]) = body.
Proof.
  induction body as [|x b IH]; intros Hb Hs; [reflexivity|].
  cbn [forallb] in Hb. apply andb_true_iff in Hb as [Hx Hb].
  cbn [app take_while] in *. destruct (simple_char x) eqn:E.
  - cbn [length skipn] in Hs. now rewrite IH.
  - cbn [length skipn] in Hs. unfold notbar in Hx. rewrite Hs in Hx. discriminate.
Qed.

Lemma forallb_rev {A} (f : A -> bool) l : forallb f l = true -> forallb f (rev l) = true.
Proof.
  intro H. apply forallb_forall. intros x Hx. apply in_rev in Hx.
  rewrite forallb_forall in H. now apply H.
Qed.

(* a well-formed leaf that starts with a bar is a quoted symbol: bar, bar-free body, bar *)
Lemma wf_bar_leaf r :
  leaf_ok (cBAR :: r) = true -> exists body, r = body ++ [cBAR] /\ forallb notbar body = true.
Proof.
  unfold leaf_ok, atom_ok_lib, atom_ok, strlit_ok, comment_ok, qsym_ok. cbn [forallb].
  change (atom_char cBAR) with false. change (N.eqb cBAR cDQ) with false.
  change (N.eqb cBAR cSEMI) with false. change (N.eqb cBAR cBAR) with true. cbn [andb orb].
  intro H. rewrite ?orb_false_r in H. unfold char in *. destruct (rev r) as [|d body_rev] eqn:E; [discriminate|].
  apply andb_true_iff in H as [Hd Hb]. apply N.eqb_eq in Hd. subst d.
  exists (rev body_rev). split.
  - rewrite <- (rev_involutive r), E. reflexivity.
  - now apply forallb_rev.
Qed.

Lemma quoted_inv e l e' :
  rw_simplify_quoted e = Some l -> In e' l ->
  exists r, e = L (cBAR :: r) /\ e' = L (removelast r) /\ quoted_simple_prefix (cBAR :: r) = true.
Proof.
  intros HR Hin. destruct e as [[|c r]|t]; cbn [rw_simplify_quoted] in HR; try discriminate;
    [|injection HR as <-; destruct Hin].
  destruct (is_piped (c :: r) && quoted_simple_prefix (c :: r)) eqn:E; injection HR as <-; [|destruct Hin].
  destruct Hin as [<- | []]. apply andb_true_iff in E as [_ E].
  assert (Hc : c = cBAR).
  { cbn [quoted_simple_prefix] in E. apply andb_true_iff in E as [E _]. now apply N.eqb_eq in E. }
  subst c. now exists r.
Qed.

Theorem simplify_quoted_closed : closed_rw rw_simplify_quoted.
Proof.
  intros e l e' Hw HR Hin. destruct (quoted_inv _ _ _ HR Hin) as (r & -> & -> & Hq).
  cbn [wf] in *. destruct (wf_bar_leaf r Hw) as (body & -> & Hb).
  rewrite removelast_last.
  cbn [quoted_simple_prefix] in Hq. change (N.eqb cBAR cBAR) with true in Hq. cbn [andb] in Hq.
  destruct (take_while simple_char (body ++ [cBAR])) as [|x run] eqn:E; [discriminate|].
  rewrite <- E in Hq. pose proof (run_is_body body Hb Hq) as Hrun.
  pose proof (take_while_all simple_char (body ++ [cBAR])) as Hall. rewrite Hrun in Hall.
  apply atom_str_leaf.
  - rewrite <- Hrun, E. discriminate.
  - apply forallb_forall. intros c Hc. apply simple_atom. rewrite forallb_forall in Hall. now apply Hall.
Qed.

(* on a well-formed leaf the proposal consists of class characters only (so it is a full match) *)
Theorem simplify_quoted_simple e l e' :
  wf e = true -> rw_simplify_quoted e = Some l -> In e' l ->
  exists body, e = L (cBAR :: body ++ [cBAR]) /\ e' = L body /\ body <> [] /\ forallb simple_char body = true.
Proof.
  intros Hw HR Hin. destruct (quoted_inv _ _ _ HR Hin) as (r & -> & -> & Hq).
  cbn [wf] in *. destruct (wf_bar_leaf r Hw) as (body & -> & Hb).
  rewrite removelast_last.
  cbn [quoted_simple_prefix] in Hq. change (N.eqb cBAR cBAR) with true in Hq. cbn [andb] in Hq.
  destruct (take_while simple_char (body ++ [cBAR])) as [|x run] eqn:E; [discriminate|].
  rewrite <- E in Hq. pose proof (run_is_body body Hb Hq) as Hrun.
  pose proof (take_while_all simple_char (body ++ [cBAR])) as Hall. rewrite Hrun in Hall.
  exists body. repeat split; [|exact Hall]. rewrite <- Hrun, E. discriminate.
Qed.

(* a leaf stays a leaf (same number of nodes); its text loses two characters -- for every leaf, well formed or not *)
Definition leaf_len (e : sexp) : nat := match e with L s => length s | T _ => 0 end.

Theorem simplify_quoted_size e l e' :
  rw_simplify_quoted e = Some l -> In e' l ->
  size e' = size e /\ leaf_len e' + 2 = leaf_len e.
Proof.
  intros HR Hin. destruct (quoted_inv _ _ _ HR Hin) as (r & -> & -> & Hq).
  split; [reflexivity|]. cbn [leaf_len length].
  cbn [quoted_simple_prefix] in Hq. apply andb_true_iff in Hq as [_ Hq].
  assert (Hr : r <> []).
  { intros ->. cbn in Hq. discriminate. }
  rewrite (app_removelast_last 0%N Hr) at 2. rewrite app_length. cbn [length]. unfold char in *. lia.
Qed.
