(* Computed examples for the models of Model/SmtlibRw.v: a non-trivial proposal
   of each mutator, the nodes on which the implementation raises, the nodes on
   which the number of nodes does not decrease, and what SimplifyQuotedSymbols
   does to symbols whose unquoted text is not a symbol. *)
From DD Require Import Model.SmtlibRw Model.Lexer Spec.StdReader Proofs.More1.Basic Proofs.More1.Quoted Proofs.More1.Logic.
Local Open Scope list_scope.

(* the first s-expression of a text, read by the model of ddSMT's reader *)
Definition rd (t : string) : sexp := hd (T []) (parse (lit t)).

(* ---- CheckSatAssuming ---- *)
Example ex_check_sat_assuming :
  rw_check_sat_assuming (rd "(check-sat-assuming (a (not b)))") = Some [rd "(check-sat)"].
Proof. vm_compute. reflexivity. Qed.

(* same number of nodes before and after *)
Example ex_check_sat_assuming_same_size :
  rw_check_sat_assuming (rd "(check-sat-assuming)") = Some [rd "(check-sat)"] /\
  size (rd "(check-sat-assuming)") = size (rd "(check-sat)").
Proof. vm_compute. split; reflexivity. Qed.

(* ---- RemoveAnnotation ---- *)
Example ex_remove_annotation :
  rw_remove_annotation (rd "(! (> x 0) :named n :pattern ((f x)))") = Some [rd "(> x 0)"].
Proof. vm_compute. reflexivity. Qed.

Example ex_remove_annotation_raises : rw_remove_annotation (rd "(!)") = None.
Proof. vm_compute. reflexivity. Qed.

(* ---- RemoveRecursiveFunction ---- *)
Example ex_remove_rec_fun :
  rw_remove_rec_fun (rd "(define-funs-rec ((f ((x Int)) Int) (g ((y Int)) Int) (h () Bool)) ((g x) (f y) true))") =
  Some [rd "(define-funs-rec ((g ((y Int)) Int) (h () Bool)) ((f y) true))";
        rd "(define-funs-rec ((f ((x Int)) Int) (h () Bool)) ((g x) true))";
        rd "(define-funs-rec ((f ((x Int)) Int) (g ((y Int)) Int)) ((g x) (f y)))"].
Proof. vm_compute. reflexivity. Qed.

(* different numbers of declarations and bodies, or a fourth child: nothing *)
Example ex_remove_rec_fun_nothing :
  rw_remove_rec_fun (rd "(define-funs-rec ((f () Int) (g () Int)) (1))") = Some [] /\
  rw_remove_rec_fun (rd "(define-funs-rec ((f () Int)) (1) extra)") = Some [].
Proof. vm_compute. split; reflexivity. Qed.

(* ---- SimplifyLogic ---- *)
Example ex_simplify_logic :
  rw_simplify_logic (rd "(set-logic QF_UFDTNIRA)") =
  Some [rd "(set-logic QF_DTNIRA)"; rd "(set-logic QF_UFDNIRA)"; rd "(set-logic QF_UFDTLIRA)"].
Proof. vm_compute. reflexivity. Qed.

(* NRA -> LRA keeps the length of the name (and the number of nodes): only the number of letters N decreases *)
Example ex_simplify_logic_same_length :
  rw_simplify_logic (rd "(set-logic NRA)") = Some [rd "(set-logic LRA)"] /\
  size (rd "(set-logic NRA)") = size (rd "(set-logic LRA)") /\
  length (lit "NRA") = length (lit "LRA") /\ lm (lit "LRA") < lm (lit "NRA").
Proof. vm_compute. repeat split; reflexivity. Qed.

(* a candidate that is empty is dropped; candidates need not be logics *)
Example ex_simplify_logic_names :
  rw_simplify_logic (rd "(set-logic BV)") = Some [] /\
  rw_simplify_logic (rd "(set-logic QF_S)") = Some [rd "(set-logic QF_)"].
Proof. vm_compute. split; reflexivity. Qed.

Example ex_simplify_logic_raises :
  rw_simplify_logic (rd "(set-logic)") = None /\ rw_simplify_logic (rd "(set-logic (QF_BV))") = None.
Proof. vm_compute. split; reflexivity. Qed.

(* the child after set-logic is taken as the logic whatever it is: here a comment (kept as a leaf by the reader),
   and the real logic name is dropped *)
Example ex_simplify_logic_comment :
  let e := T [lf "set-logic"; L (lit ";BV" ++ [cLF]); lf "QF_BV"] in
  wf e = true /\ rw_simplify_logic e = Some [T [lf "set-logic"; L (lit ";" ++ [cLF])]].
Proof. vm_compute. split; reflexivity. Qed.

(* ---- SimplifyQuotedSymbols ---- *)
Example ex_simplify_quoted :
  rw_simplify_quoted (lf "|x+y_1|") = Some [lf "x+y_1"] /\
  rw_simplify_quoted (lf "|a b|") = Some [] /\
  rw_simplify_quoted (lf "|a#b|") = Some [] /\
  rw_simplify_quoted (lf "||") = Some [] /\
  rw_simplify_quoted (L []) = None.
Proof. vm_compute. repeat split; reflexivity. Qed.

(* the unquoted text is a token but need not be a symbol: numerals, decimals, reserved words, true *)
Example ex_simplify_quoted_not_symbol :
  rw_simplify_quoted (lf "|12|") = Some [lf "12"] /\ is_int_const (lf "12") = true /\
  rw_simplify_quoted (lf "|1.5|") = Some [lf "1.5"] /\ is_real_const (lf "1.5") = true /\
  rw_simplify_quoted (lf "|true|") = Some [lf "true"] /\ is_bool_const (lf "true") = true /\
  rw_simplify_quoted (lf "|let|") = Some [lf "let"] /\ is_reserved (lit "let") = true /\
  rw_simplify_quoted (lf "|_|") = Some [lf "_"] /\ is_reserved (lit "_") = true.
Proof. vm_compute. repeat split; reflexivity. Qed.

(* the regular expression is matched against a prefix only: on a leaf with a bar inside (which no reader produces,
   wf = false) the proposal is not a token -- closure needs the hypothesis wf *)
Example ex_simplify_quoted_prefix :
  rw_simplify_quoted (lf "|a|b c|") = Some [lf "a|b c"] /\
  wf (lf "|a|b c|") = false /\ wf (lf "a|b c") = false.
Proof. vm_compute. repeat split; reflexivity. Qed.

(* ---- BoolNegateQuantifier ---- *)
Example ex_negate_quant :
  rw_bool_negate_quant (rd "(not (exists ((x Int) (y Int)) (= x y)))") = Some [rd "(forall ((x Int) (y Int)) (not (= x y)))"] /\
  rw_bool_negate_quant (rd "(not (forall ((x Int)) (> x 0)))") = Some [rd "(exists ((x Int)) (not (> x 0)))"].
Proof. vm_compute. split; reflexivity. Qed.

(* same number of nodes; the negated term gets smaller *)
Example ex_negate_quant_same_size :
  size (rd "(not (forall ((x Int)) (> x 0)))") = size (rd "(exists ((x Int)) (not (> x 0)))") /\
  notw (rd "(not (forall ((x Int)) (> x 0)))") = 10 /\ notw (rd "(exists ((x Int)) (not (> x 0)))") = 4.
Proof. vm_compute. repeat split; reflexivity. Qed.

(* further children are dropped; short quantifiers raise *)
Example ex_negate_quant_malformed :
  rw_bool_negate_quant (rd "(not (forall (x) y extra) extra2)") = Some [rd "(exists (x) (not y))"] /\
  rw_bool_negate_quant (rd "(not (forall (x)))") = None /\
  rw_bool_negate_quant (rd "(not (exists))") = None.
Proof. vm_compute. repeat split; reflexivity. Qed.
