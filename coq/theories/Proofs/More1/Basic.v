(* Closure (C15) and measures of the models of CheckSatAssuming, RemoveAnnotation,
   RemoveRecursiveFunction and BoolNegateQuantifier (Model/SmtlibRw.v). *)
From DD Require Import Model.SmtlibRw Spec.StdReader Proofs.Closure.Atoms Proofs.Closure.RwClosed
  Proofs.Core.Base Proofs.Core.Size Proofs.Core.Closed.
From Coq Require Import Arith Lia.
Local Open Scope list_scope.

Lemma is_op_inv e n : is_op e n = true -> exists r, e = T (lf n :: r).
Proof.
  destruct e as [s|[|[h|c] r]]; cbn [is_op]; try discriminate.
  intro H. apply str_eqb_eq in H. subst h. now exists r.
Qed.

Lemma sizes_zero l : sizes l = 0 -> l = [].
Proof.
  destruct l as [|x l]; [reflexivity|]. rewrite sizes_cons. pose proof (size_pos x). lia.
Qed.

(* ---- CheckSatAssuming ---- *)
Theorem check_sat_assuming_closed : closed_rw rw_check_sat_assuming.
Proof.
  start. unfold rw_check_sat_assuming in HR.
  destruct (is_op e "check-sat-assuming"); injection HR as <-; in_split. reflexivity.
Qed.

(* not strictly size decreasing: (check-sat-assuming) and (check-sat) have two nodes each; then the head gets shorter *)
Theorem check_sat_assuming_size e l e' :
  rw_check_sat_assuming e = Some l -> In e' l ->
  e' = T [lf "check-sat"] /\
  (size e' < size e \/ e = T [lf "check-sat-assuming"]).
Proof.
  intros HR Hin. unfold rw_check_sat_assuming in HR.
  destruct (is_op e "check-sat-assuming") eqn:E; injection HR as <-; in_split.
  split; [reflexivity|]. apply is_op_inv in E as (r & ->).
  destruct r as [|x r]; [now right|left].
  rewrite !size_T, !sizes_cons, sizes_nil. pose proof (size_pos x). cbn [lf size]. lia.
Qed.

(* ---- RemoveAnnotation ---- *)
Theorem remove_annotation_closed : closed_rw rw_remove_annotation.
Proof.
  start. unfold rw_remove_annotation in HR. destruct (is_op e "!"); [|injection HR as <-; in_split].
  destruct e as [s|[|h [|t r]]]; try discriminate. injection HR as <-. in_split.
  cbn [wf] in Hw. apply (forallb_in _ _ Hw). right; now left.
Qed.

Theorem remove_annotation_size e l e' :
  rw_remove_annotation e = Some l -> In e' l -> size e' < size e.
Proof.
  intros HR Hin. unfold rw_remove_annotation in HR. destruct (is_op e "!"); [|injection HR as <-; in_split].
  destruct e as [s|[|h [|t r]]]; try discriminate. injection HR as <-. in_split.
  rewrite size_T, !sizes_cons. lia.
Qed.

(* ---- RemoveRecursiveFunction ---- *)
Lemma remove_rec_fun_inv e l e' :
  rw_remove_rec_fun e = Some l -> In e' l ->
  exists h l1 l2 i, e = T [h; T l1; T l2] /\ length l1 = length l2 /\ i < length l1 /\
                    e' = T [h; T (erase_at i l1); T (erase_at i l2)].
Proof.
  intros HR Hin. unfold rw_remove_rec_fun in HR.
  destruct (is_op e "define-funs-rec"); [|injection HR as <-; in_split].
  destruct e as [s|[|h [|n1 [|n2 [|x r]]]]]; try (injection HR as <-; in_split).
  destruct (Nat.eqb (len n1) (len n2)) eqn:E; [|injection HR as <-; in_split].
  destruct n1 as [s1|l1]; [injection HR as <-; in_split|].
  destruct n2 as [s2|l2]; injection HR as <-; in_split.
  apply in_map_iff in Hin as (i & <- & Hi). apply in_seq in Hi.
  apply Nat.eqb_eq in E. cbn [len] in E.
  exists h, l1, l2, i. repeat split; [exact E|lia].
Qed.

Theorem remove_rec_fun_closed : closed_rw rw_remove_rec_fun.
Proof.
  start. destruct (remove_rec_fun_inv _ _ _ HR Hin) as (h & l1 & l2 & i & -> & _ & _ & ->).
  cbn [wf forallb] in *. wf_split.
  repeat (apply andb_true_intro; split); try assumption; try reflexivity;
    (eapply forallb_incl; [apply erase_at_in|assumption]).
Qed.

Theorem remove_rec_fun_size e l e' :
  rw_remove_rec_fun e = Some l -> In e' l -> size e' + 2 <= size e.
Proof.
  intros HR Hin. destruct (remove_rec_fun_inv _ _ _ HR Hin) as (h & l1 & l2 & i & -> & Hl & Hi & ->).
  assert (Hi2 : i < length l2) by lia.
  pose proof (erase_at_sizes i l1 Hi). pose proof (erase_at_sizes i l2 Hi2).
  rewrite !size_T, !sizes_cons, !size_T, sizes_nil. lia.
Qed.

(* ---- BoolNegateQuantifier ---- *)
Lemma negate_quant_inv e l e' :
  rw_bool_negate_quant e = Some l -> In e' l ->
  exists q vars body qr r,
    e = T (lf "not" :: T (lf q :: vars :: body :: qr) :: r) /\
    ((q = "exists" /\ e' = T [lf "forall"; vars; T [lf "not"; body]]) \/
     (q = "forall" /\ e' = T [lf "exists"; vars; T [lf "not"; body]]))%string.
Proof.
  intros HR Hin. unfold rw_bool_negate_quant in HR.
  destruct e as [s|[|[h|c] [|q r]]]; try (injection HR as <-; in_split).
  destruct (iss h "not") eqn:Eh; [|injection HR as <-; in_split].
  apply str_eqb_eq in Eh. subst h. cbn [andb] in HR.
  destruct (is_quantifier q) eqn:Eq; [|injection HR as <-; in_split].
  destruct q as [s|[|qh [|vars [|body qr]]]]; try discriminate.
  injection HR as <-. in_split. unfold is_quantifier in Eq.
  destruct (is_op (T (qh :: vars :: body :: qr)) "exists") eqn:E1.
  - apply is_op_inv in E1 as (r1 & E1). injection E1 as -> <-.
    exists "exists"%string, vars, body, qr, r. split; [reflexivity|]. left. now split.
  - cbn [orb] in Eq. apply is_op_inv in Eq as (r1 & E2). injection E2 as -> <-.
    exists "forall"%string, vars, body, qr, r. split; [reflexivity|]. right. now split.
Qed.

Theorem negate_quant_closed : closed_rw rw_bool_negate_quant.
Proof.
  start. destruct (negate_quant_inv _ _ _ HR Hin) as (q & vars & body & qr & r & -> & [[_ ->] | [_ ->]]);
    cbn [wf forallb] in *; wf_split;
    repeat (apply andb_true_intro; split); try assumption; reflexivity.
Qed.

(* the number of nodes does not grow; it stays the same on (not (Q vars body)) *)
Theorem negate_quant_size e l e' :
  rw_bool_negate_quant e = Some l -> In e' l -> size e' <= size e.
Proof.
  intros HR Hin. destruct (negate_quant_inv _ _ _ HR Hin) as (q & vars & body & qr & r & -> & [[_ ->] | [_ ->]]);
    rewrite !size_T, !sizes_cons, !size_T, !sizes_cons, !sizes_nil; cbn [lf size]; lia.
Qed.

(* what decreases: the total size of the negated terms *)
Fixpoint notw (e : sexp) : nat :=
  match e with
  | L _ => 0
  | T l => (match l with L h :: a :: _ => if iss h "not" then size a else 0 | _ => 0 end)
           + fold_right (fun x acc => notw x + acc) 0 l
  end.

Theorem negate_quant_notw e l e' :
  rw_bool_negate_quant e = Some l -> In e' l -> notw e' < notw e.
Proof.
  intros HR Hin. destruct (negate_quant_inv _ _ _ HR Hin) as (q & vars & body & qr & r & -> & [[-> ->] | [-> ->]]);
    cbn [notw fold_right lf];
    change (iss (lit "not") "not") with true;
    change (iss (lit "forall") "not") with false;
    change (iss (lit "exists") "not") with false;
    cbv iota; rewrite !size_T, !sizes_cons; cbn [size]; lia.
Qed.
