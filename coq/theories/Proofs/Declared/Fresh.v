(* (e) The freshness theorems of Proofs/More4/Fresh.v are relative to an oracle [declared].  Instantiated with
   is_declared script (Model/Declared.v: collect_information + is_declared_symbol on the script) they give, by the
   completeness theorem, freshness with respect to the SPECIFICATION (Spec/DeclaredSpec.v): no declaration a mutator
   introduces declares a symbol the script declares, defines or binds, in whichever spelling. *)
From DD Require Import Model.Rewrites Model.GlobalRw Model.Declared Spec.DeclaredSpec.
From DD Require Import Proofs.More4.Base Proofs.More4.Wf Proofs.More4.Fresh.
From DD Require Import Proofs.Declared.Base Proofs.Declared.Complete.
Open Scope string_scope.
Local Open Scope list_scope.

(* the declarations of g are (declare-const n S) commands of pairwise distinct names none of which is a symbol of
   the script *)
Definition fresh_wrt_spec (script : list sexp) (g : gsimp) : Prop :=
  exists decls : list (str * sexp),
    gs_fresh g = map (fun ns => mk_decl (fst ns) (snd ns)) decls /\
    NoDup (map fst decls) /\
    forall n, In n (map fst decls) -> ~ spec_declares script n.

Lemma fresh_wrt_spec_unfold script g :
  fresh_wrt_spec script g <->
  exists decls : list (str * sexp),
    gs_fresh g = map (fun ns => T [lf "declare-const"; L (fst ns); snd ns]) decls /\
    NoDup (map fst decls) /\
    forall n, In n (map fst decls) -> ~ spec_declares script n.
Proof. reflexivity. Qed.

Theorem not_declared_not_in_spec script n :
  n <> [cBAR] -> is_declared script n = false -> ~ spec_declares script n.
Proof.
  intros Hn Hd Hs. rewrite (is_declared_complete script n Hn Hs) in Hd. discriminate.
Qed.

Theorem gsimp_fresh_wrt_spec script g :
  gsimp_fresh (is_declared script) g ->
  (forall n so, In (mk_decl n so) (gs_fresh g) -> n <> [cBAR]) ->
  fresh_wrt_spec script g.
Proof.
  intros (decls & Hf & Hnd & Hall) Hbar. exists decls. split; [exact Hf|]. split; [exact Hnd|].
  intros n Hn. destruct (Hall n Hn) as [Hd _]. apply not_declared_not_in_spec; [|exact Hd].
  apply in_map_iff in Hn as ([n' so] & <- & Hin). cbn [fst]. apply (Hbar n' so). rewrite Hf.
  apply in_map_iff. exists (n', so). split; [reflexivity | exact Hin].
Qed.

Lemma mk_decl_name n so n' so' : mk_decl n so = mk_decl n' so' -> n = n'.
Proof. unfold mk_decl. intro H. now injection H. Qed.

Lemma fresh_name_not_bar id : fresh_name id <> [cBAR].
Proof. unfold fresh_name. change (lit "x") with [120%N]. cbn [app]. discriminate. Qed.

Lemma suffixed_not_bar v (s : string) : (2 <= length (lit s))%nat -> v ++ lit s <> [cBAR].
Proof.
  intros Hl H. apply (f_equal (@length N)) in H. rewrite app_length in H. cbn [length] in H.
  unfold char in *. lia.
Qed.

(* IntroduceFreshVariable *)
Theorem rw_fresh_var_fresh_wrt_spec script gs vars isdef id here e l g :
  rw_fresh_var gs vars isdef (is_declared script) id here e = Some l -> In g l -> fresh_wrt_spec script g.
Proof.
  intros HR Hin. apply gsimp_fresh_wrt_spec; [exact (rw_fresh_var_fresh _ _ _ _ _ _ _ _ _ HR Hin)|].
  destruct (rw_fresh_var_inv _ _ _ _ _ _ _ _ _ HR Hin) as (so & _ & _ & ->).
  intros n so' [H | []]. apply mk_decl_name in H. subst n. apply fresh_name_not_bar.
Qed.

(* BVReduceBW *)
Theorem rw_bv_reduce_bw_fresh_wrt_spec script gs bw here e l g :
  rw_bv_reduce_bw gs bw (is_declared script) here e = Some l -> In g l -> fresh_wrt_spec script g.
Proof.
  intros HR Hin. apply gsimp_fresh_wrt_spec; [exact (rw_bv_reduce_bw_fresh _ _ _ _ _ _ _ HR Hin)|].
  destruct (rw_bv_reduce_bw_inv _ _ _ _ _ _ _ HR Hin) as (h & s & rest & so & w & b & _ & _ & _ & _ & ->).
  intros n so' [H | []]. apply mk_decl_name in H. subst n. discriminate.
Qed.

(* StringContainsToConcat *)
Theorem rw_str_contains_fresh_wrt_spec script e l g :
  rw_str_contains (is_declared script) e = Some l -> In g l -> fresh_wrt_spec script g.
Proof.
  intros HR Hin. apply gsimp_fresh_wrt_spec; [exact (rw_str_contains_fresh _ _ _ _ HR Hin)|].
  destruct (rw_str_contains_inv _ _ _ _ HR Hin) as (h & v & x & _ & _ & _ & _ & _ & ->).
  intros n so' [H | [H | []]]; apply mk_decl_name in H; subst n; apply suffixed_not_bar; cbn; lia.
Qed.

(* the names, explicitly: none of them is a symbol of the script *)
Corollary rw_fresh_var_name_not_in_spec script gs vars isdef id here e l g :
  rw_fresh_var gs vars isdef (is_declared script) id here e = Some l -> In g l ->
  ~ spec_declares script (fresh_name id).
Proof.
  intros HR Hin. destruct (rw_fresh_var_inv _ _ _ _ _ _ _ _ _ HR Hin) as (so & _ & Hd & _).
  apply not_declared_not_in_spec; [apply fresh_name_not_bar | exact Hd].
Qed.

Corollary rw_bv_reduce_bw_name_not_in_spec script gs bw here e l g :
  rw_bv_reduce_bw gs bw (is_declared script) here e = Some l -> In g l ->
  exists h s rest, e = T (h :: L s :: rest) /\ ~ spec_declares script (95%N :: s).
Proof.
  intros HR Hin.
  destruct (rw_bv_reduce_bw_inv _ _ _ _ _ _ _ HR Hin) as (h & s & rest & so & w & b & He & _ & Hd & _ & _).
  exists h, s, rest. split; [exact He|]. apply not_declared_not_in_spec; [discriminate | exact Hd].
Qed.

Corollary rw_str_contains_names_not_in_spec script e l g :
  rw_str_contains (is_declared script) e = Some l -> In g l ->
  exists h v x, e = T [h; L v; x] /\
    ~ spec_declares script (v ++ lit "_prefix") /\ ~ spec_declares script (v ++ lit "_suffix").
Proof.
  intros HR Hin. destruct (rw_str_contains_inv _ _ _ _ HR Hin) as (h & v & x & He & H1 & H2 & _ & _ & _).
  exists h, v, x. split; [exact He|].
  split; (apply not_declared_not_in_spec; [apply suffixed_not_bar; cbn; lia | assumption]).
Qed.
