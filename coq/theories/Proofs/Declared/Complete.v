(* COMPLETENESS of Model/Declared.v for Spec/DeclaredSpec.v: what a well-formed declaring command declares, and what a
   let / forall / exists anywhere in the script binds, is in the tables collect_information fills; hence
   is_declared_symbol answers true for every spelling of the symbol (other than the lone bar). *)
From DD Require Import Model.Declared Spec.DeclaredSpec Proofs.Rw.LetSubst Proofs.Declared.Base.
Open Scope string_scope.
Local Open Scope list_scope.

(* ---- the command loop on the well-formed commands (evaluated) ---- *)
Lemma sort_names_declare_const x S : sort_names_cmd (T [L (lit "declare-const"); L x; S]) = [x].
Proof. reflexivity. Qed.
Lemma sort_names_declare_fun x Ss S : sort_names_cmd (T [L (lit "declare-fun"); L x; T Ss; S]) = [x].
Proof. reflexivity. Qed.
Lemma sort_names_define_fun x ps S b : sort_names_cmd (T [L (lit "define-fun"); L x; T ps; S; b]) = [x].
Proof. reflexivity. Qed.
Lemma other_names_define_fun f ps S b :
  other_names_cmd (T [L (lit "define-fun"); L f; T ps; S; b]) = formals_of (T ps).
Proof. reflexivity. Qed.
Lemma other_names_define_fun_rec f ps S b :
  other_names_cmd (T [L (lit "define-fun-rec"); L f; T ps; S; b]) = f :: formals_of (T ps).
Proof. reflexivity. Qed.
Lemma other_names_define_funs_rec decs bodies :
  other_names_cmd (T [L (lit "define-funs-rec"); T decs; T bodies]) =
  flat_map head_name decs ++ flat_map (fun d => match d with T (_ :: ps :: _) => formals_of ps | _ => [] end) decs.
Proof. reflexivity. Qed.
Lemma other_names_declare_datatype D d :
  other_names_cmd (T [L (lit "declare-datatype"); D; d]) = flat_map par_names (dfs2 d).
Proof. reflexivity. Qed.
Lemma other_names_declare_datatypes s d :
  other_names_cmd (T [L (lit "declare-datatypes"); s; d]) = flat_map par_names (dfs2 d).
Proof. reflexivity. Qed.
Lemma dt_lists_declare_datatype D cs : dt_lists (T [L (lit "declare-datatype"); D; T cs]) = [T cs].
Proof. reflexivity. Qed.
Lemma dt_lists_declare_datatypes sorts decs :
  dt_lists (T [L (lit "declare-datatypes"); T sorts; T decs]) =
  if forallb nonempty_list sorts then filter (fun l => negb (is_leaf l)) (firstn (length sorts) decs) else [].
Proof. reflexivity. Qed.
Lemma par_names_par params cs : par_names (T [L (lit "par"); params; T cs]) = flat_map leaves cs.
Proof. reflexivity. Qed.
Lemma binder_names_let bs rest : binder_names (T (L (lit "let") :: T bs :: rest)) = flat_map bound_name bs.
Proof. reflexivity. Qed.
Lemma binder_names_forall bs rest : binder_names (T (L (lit "forall") :: T bs :: rest)) = flat_map bound_name bs.
Proof. reflexivity. Qed.
Lemma binder_names_exists bs rest : binder_names (T (L (lit "exists") :: T bs :: rest)) = flat_map bound_name bs.
Proof. reflexivity. Qed.

(* ---- sorted variables ---- *)
Lemma sorted_var_formal x ps : sorted_var x ps -> In x (formals_of (T ps)).
Proof. intros (S & H). cbn [formals_of]. apply (in_flat_map_intro _ _ _ _ H). now left. Qed.

Lemma sorted_var_heads x ps : sorted_var x ps -> In x (flat_map head_name ps).
Proof. intros (S & H). apply (in_flat_map_intro _ _ _ _ H). now left. Qed.

Lemma sorted_var_binding x bs : sorted_var x bs -> In x (flat_map bound_name bs).
Proof. intros (S & H). apply (in_flat_map_intro _ _ _ _ H). now left. Qed.

Lemma sorted_var_leaf x ps : sorted_var x ps -> exists p, In p ps /\ In (L x) (subterms p).
Proof.
  intros (S & H). exists (T [L x; S]). split; [exact H|]. apply (sub_child _ (L x)); [now left | apply sub_refl].
Qed.

(* ---- constructors and selectors ---- *)
Lemma constr_nonempty k x : constr_declares k x -> nonempty_list k = true.
Proof. intros (c & sels & -> & _). reflexivity. Qed.

Lemma constr_names_or_sel k x :
  constr_declares k x -> In x (head_name k) \/ In x (flat_map head_name (tl (kids k))).
Proof.
  intros (c & sels & -> & [-> | Hs]).
  - left. now left.
  - right. cbn [kids tl]. now apply sorted_var_heads.
Qed.

Lemma constr_leaf k x : constr_declares k x -> In x (leaves k).
Proof.
  intros (c & sels & -> & [-> | Hs]); unfold leaves.
  - apply (in_flat_map_intro _ _ (L c)); [|now left]. apply (sub_child _ (L c)); [now left | apply sub_refl].
  - destruct (sorted_var_leaf _ _ Hs) as (p & Hp & Hx).
    apply (in_flat_map_intro _ _ (L x)); [|now left]. apply (sub_child _ p); [now right | exact Hx].
Qed.

(* a constructor found by the loops gives a key of one of the two datatype tables *)
Lemma dt_constr_in_tables script c k x :
  In c script -> In k (dt_constrs (strip_comments c)) -> constr_declares k x -> In x (declared_table script).
Proof.
  intros Hc Hk Hx. destruct (constr_names_or_sel _ _ Hx) as [H | H].
  - apply (in_tbl_constr _ c); [exact Hc|]. unfold constr_names_cmd. now apply (in_flat_map_intro _ _ k).
  - apply (in_tbl_sel _ c); [exact Hc|]. unfold sel_names_cmd. now apply (in_flat_map_intro _ _ k).
Qed.

Lemma in_dt_constrs cmd d cs k x :
  In d (dt_lists cmd) -> d = T cs -> In k cs -> constr_declares k x -> In k (dt_constrs cmd).
Proof.
  intros Hd -> Hk Hx. unfold dt_constrs. apply filter_In. split; [|now apply (constr_nonempty _ x)].
  now apply (in_flat_map_intro _ _ (T cs)).
Qed.

Lemma sort_decs_nonempty sorts : Forall sort_dec sorts -> forallb nonempty_list sorts = true.
Proof.
  intro H. apply forallb_forall. intros s Hs. rewrite Forall_forall in H. destruct (H s Hs) as (D & k & ->). reflexivity.
Qed.

(* a parametric declaration found by the depth-2 traversal gives members of __other_symbols *)
Lemma par_in_other params cs k x :
  In k cs -> constr_declares k x -> In x (par_names (T [L (lit "par"); T params; T cs])).
Proof.
  intros Hk Hx. rewrite par_names_par. apply (in_flat_map_intro _ _ k _ Hk). now apply constr_leaf.
Qed.

Lemma dfs2_self d : In d (dfs2 d).
Proof. now left. Qed.
Lemma dfs2_child d l : In d l -> In d (dfs2 (T l)).
Proof. intro H. unfold dfs2. right. cbn [kids]. apply (in_flat_map_intro _ _ d _ H). now left. Qed.

(* ---- what a command declares is recorded ---- *)
Theorem cmd_declares_recorded script c x :
  In c script -> cmd_declares c x -> In x (declared_table script).
Proof.
  intros Hc H.
  destruct H as [S Hk | Ss S Hk | ps S body Hk | f ps S body Hk Hv | ps S body Hk | f ps S body Hk Hv
                 | decs bodies ps d Hk Hd Hf | decs bodies f ps d Hk Hd Hf Hv | D d Hk Hd | sorts decs d Hk Hs Hl Hin Hd];
    pose proof (command_strip _ _ _ Hk) as E.
  - apply (in_tbl_sort_cmd _ c); [exact Hc|]. rewrite E, sort_names_declare_const. now left.
  - apply (in_tbl_sort_cmd _ c); [exact Hc|]. rewrite E, sort_names_declare_fun. now left.
  - apply (in_tbl_sort_cmd _ c); [exact Hc|]. rewrite E, sort_names_define_fun. now left.
  - apply (in_tbl_other _ c); [exact Hc|]. rewrite E, other_names_define_fun. now apply sorted_var_formal.
  - apply (in_tbl_other _ c); [exact Hc|]. rewrite E, other_names_define_fun_rec. now left.
  - apply (in_tbl_other _ c); [exact Hc|]. rewrite E, other_names_define_fun_rec. right. now apply sorted_var_formal.
  - apply (in_tbl_other _ c); [exact Hc|]. rewrite E, other_names_define_funs_rec. apply in_or_app. left.
    destruct Hf as (S & ->). apply (in_flat_map_intro _ _ _ _ Hd). now left.
  - apply (in_tbl_other _ c); [exact Hc|]. rewrite E, other_names_define_funs_rec. apply in_or_app. right.
    destruct Hf as (S & ->). apply (in_flat_map_intro _ _ _ _ Hd). now apply sorted_var_formal.
  - destruct Hd as [(cs & -> & _ & k & Hkc & Hx) | (params & cs & -> & k & Hkc & Hx)].
    + apply (dt_constr_in_tables _ c k); [exact Hc | | exact Hx]. rewrite E.
      apply (in_dt_constrs _ (T cs) cs k x); [|reflexivity|exact Hkc|exact Hx].
      rewrite dt_lists_declare_datatype. now left.
    + apply (in_tbl_other _ c); [exact Hc|]. rewrite E, other_names_declare_datatype.
      apply (in_flat_map_intro _ _ _ _ (dfs2_self _)). now apply par_in_other with (k := k).
  - destruct Hd as [(cs & -> & _ & k & Hkc & Hx) | (params & cs & -> & k & Hkc & Hx)].
    + apply (dt_constr_in_tables _ c k); [exact Hc | | exact Hx]. rewrite E.
      apply (in_dt_constrs _ (T cs) cs k x); [|reflexivity|exact Hkc|exact Hx].
      rewrite dt_lists_declare_datatypes, (sort_decs_nonempty _ Hs), Hl, firstn_all.
      apply filter_In. split; [exact Hin | reflexivity].
    + apply (in_tbl_other _ c); [exact Hc|]. rewrite E, other_names_declare_datatypes.
      apply (in_flat_map_intro _ _ _ _ (dfs2_child _ _ Hin)). now apply par_in_other with (k := k).
Qed.

(* ---- what a binder binds is recorded ---- *)
Theorem binder_binds_recorded script c t x :
  In c script -> subterm t c -> binder_binds t x -> In x (declared_table script).
Proof.
  intros Hc Ht (h & bs & rest & -> & Hh & Hv).
  apply (in_tbl_sort_binder _ c _ _ Hc (subterm_in _ _ Ht)).
  destruct Hh as [-> | [-> | ->]].
  - rewrite binder_names_let. now apply sorted_var_binding.
  - rewrite binder_names_forall. now apply sorted_var_binding.
  - rewrite binder_names_exists. now apply sorted_var_binding.
Qed.

Theorem binds_recorded script x : binds script x -> In x (declared_table script).
Proof.
  intros (c & Hc & [H | (t & Ht & Hb)]).
  - now apply (cmd_declares_recorded _ c).
  - now apply (binder_binds_recorded _ c t).
Qed.

(* ---- completeness of is_declared_symbol ---- *)
Theorem is_declared_complete script n :
  n <> [cBAR] -> spec_declares script n -> is_declared script n = true.
Proof.
  intros Hn (x & Hb & Hs). apply is_declared_spec. apply binds_recorded in Hb.
  destruct (same_symbol_spelling _ _ Hs Hn) as [<- | <-]; [now left | now right].
Qed.

(* the exact spelling the script uses is found without any condition *)
Theorem is_declared_complete_exact script x : binds script x -> is_declared script x = true.
Proof. intro Hb. apply is_declared_spec. left. now apply binds_recorded. Qed.

(* the lone bar is the only exception: the code takes | for a quoted symbol whose name is empty *)
Example lone_bar_exception :
  let script := [T [L (lit "declare-const"); L (lit "|||"); L (lit "Int")]] in
  spec_declares script (lit "|") /\ is_declared script (lit "|") = false.
Proof.
  split; [|vm_compute; reflexivity].
  exists (lit "|||"). split; [|reflexivity].
  exists (T [L (lit "declare-const"); L (lit "|||"); L (lit "Int")]). split; [now left|]. left.
  apply (D_declare_const _ _ (L (lit "Int"))). eexists. split; [reflexivity|].
  repeat (apply WC_keep; [reflexivity|]). constructor.
Qed.
