(* Since the repair "a fresh name must not be any token of the input": every token of the script is declared for
   is_declared_symbol; hence completeness for the WIDER specification (Spec/DeclaredWide.v) and freshness of the
   declarations the mutators introduce with respect to it. *)
From DD Require Import Model.Rewrites Model.GlobalRw Model.Declared Spec.DeclaredSpec Spec.DeclaredWide.
From DD Require Import Proofs.Rw.LetSubst Proofs.More4.Base Proofs.More4.Wf Proofs.More4.Fresh.
From DD Require Import Proofs.Declared.Base Proofs.Declared.Complete Proofs.Declared.Fresh.
Open Scope string_scope.
Local Open Scope list_scope.

(* ================= every token is declared ================= *)
Theorem occurs_in_table script c n : In c script -> In (L n) (subterms c) -> In n (declared_table script).
Proof.
  intros Hc Hn. apply declared_table_in. right. right. left. apply in_tbl_tokens. now exists c.
Qed.

Theorem occurs_declared script c n : In c script -> In (L n) (subterms c) -> is_declared script n = true.
Proof. intros Hc Hn. apply is_declared_spec. left. now apply (occurs_in_table _ c). Qed.

Theorem occurs_declared_alias script c m n :
  In c script -> In (L m) (subterms c) -> same_symbol m n -> n <> [cBAR] -> is_declared script n = true.
Proof.
  intros Hc Hm Hs Hn. apply is_declared_spec. pose proof (occurs_in_table _ _ _ Hc Hm) as Ht.
  destruct (same_symbol_spelling _ _ Hs Hn) as [<- | <-]; [now left | now right].
Qed.

(* the quoted spelling of a simple token, the simple spelling of a quoted token *)
Corollary occurs_declared_bar script c n :
  In c script -> In (L n) (subterms c) -> is_declared script (bar n) = true.
Proof.
  intros Hc Hn. apply is_declared_spec. right. rewrite other_spelling_bar. now apply (occurs_in_table _ c).
Qed.

Corollary occurs_declared_unbar script c n :
  In c script -> In (L (bar n)) (subterms c) -> is_piped n = false -> is_declared script n = true.
Proof.
  intros Hc Hn Hp. apply is_declared_spec. right. rewrite (other_spelling_simple _ Hp). now apply (occurs_in_table _ c).
Qed.

(* the lone bar again: ||| is a token, | (the same symbol for the specification) is not declared *)
Example occurs_lone_bar_exception :
  let script := [T [L (lit "assert"); L (lit "|||")]] in
  same_symbol (lit "|||") (lit "|") /\ is_declared script (lit "|||") = true /\ is_declared script (lit "|") = false.
Proof. repeat split; vm_compute; reflexivity. Qed.

(* ================= every form of the wide specification is a token ================= *)
Lemma occurs_spec script x : occurs script x <-> exists c, In c script /\ In (L x) (subterms c).
Proof.
  split; intros (c & Hc & H); exists c; (split; [exact Hc|]); [now apply subterm_in | now apply in_subterm].
Qed.

Lemma without_comments_incl l l' x : without_comments l l' -> In x l' -> In x l.
Proof.
  intro H. induction H as [| c l l' _ _ IH | y l l' _ _ IH]; intro Hx; [exact Hx | right; now apply IH |].
  destruct Hx as [-> | Hx]; [now left | right; now apply IH].
Qed.

(* an argument of a command (read without its comments) is a child of the command *)
Lemma command_arg c k args a y : command c k args -> In a args -> In y (subterms a) -> In y (subterms c).
Proof.
  intros (l & -> & H) Ha Hy. apply (sub_child l a); [|exact Hy].
  apply (without_comments_incl _ _ _ H). now right.
Qed.

Lemma sorted_var_token x bs : sorted_var x bs -> In (L x) (subterms (T bs)).
Proof.
  intros (S & H). apply (sub_child bs _ _ H). apply (sub_child _ (L x)); [now left | apply sub_refl].
Qed.

Lemma named_label_token t x : named_label t x -> In (L x) (subterms t).
Proof.
  intros (body & before & after & ->). apply (sub_child _ (L x)); [|apply sub_refl].
  right. right. apply in_or_app. right. right. now left.
Qed.

Lemma lambda_binds_token t x : lambda_binds t x -> In (L x) (subterms t).
Proof.
  intros (bs & rest & -> & Hv). apply (sub_child _ (T bs)); [right; now left | now apply sorted_var_token].
Qed.

Lemma match_binds_token t x : match_binds t x -> In (L x) (subterms t).
Proof.
  intros (scr & cases & rest & p & body & -> & Hc & Hp).
  apply (sub_child _ (T cases)); [right; right; now left|].
  apply (sub_child cases _ _ Hc). apply (sub_child _ p); [now left | now apply subterm_in].
Qed.

Lemma cmd_declares_more_token c x : cmd_declares_more c x -> In (L x) (subterms c).
Proof.
  intros [(S & t & H) | (S & H)]; apply (command_arg _ _ _ (L x) _ H); try (now left); apply sub_refl.
Qed.

Theorem binds_wide_in_table script x : binds_wide script x -> In x (declared_table script).
Proof.
  intros [H | [H | (c & Hc & [H | (t & Ht & H)])]].
  - now apply binds_recorded.
  - apply occurs_spec in H as (c & Hc & H). now apply (occurs_in_table _ c).
  - apply (occurs_in_table _ c _ Hc). now apply cmd_declares_more_token.
  - apply (occurs_in_table _ c _ Hc). apply (sub_trans c (L x) t); [|now apply subterm_in].
    destruct H as [H | [H | H]]; [now apply named_label_token | now apply lambda_binds_token | now apply match_binds_token].
Qed.

(* ================= completeness for the wide specification ================= *)
Theorem is_declared_complete_wide script n :
  n <> [cBAR] -> spec_declares_wide script n -> is_declared script n = true.
Proof.
  intros Hn (x & Hb & Hs). apply is_declared_spec. apply binds_wide_in_table in Hb.
  destruct (same_symbol_spelling _ _ Hs Hn) as [<- | <-]; [now left | now right].
Qed.

Lemma spec_declares_is_wide script n : spec_declares script n -> spec_declares_wide script n.
Proof. intros (x & Hb & Hs). exists x. split; [now left | exact Hs]. Qed.

Lemma occurs_is_wide script m n : occurs script m -> same_symbol m n -> spec_declares_wide script n.
Proof. intros Ho Hs. exists m. split; [right; now left | exact Hs]. Qed.

(* ================= freshness with respect to the wide specification ================= *)
Definition fresh_wrt_spec_wide (script : list sexp) (g : gsimp) : Prop :=
  exists decls : list (str * sexp),
    gs_fresh g = map (fun ns => mk_decl (fst ns) (snd ns)) decls /\
    NoDup (map fst decls) /\
    forall n, In n (map fst decls) -> ~ spec_declares_wide script n.

Lemma fresh_wrt_spec_wide_unfold script g :
  fresh_wrt_spec_wide script g <->
  exists decls : list (str * sexp),
    gs_fresh g = map (fun ns => T [lf "declare-const"; L (fst ns); snd ns]) decls /\
    NoDup (map fst decls) /\
    forall n, In n (map fst decls) -> ~ spec_declares_wide script n.
Proof. reflexivity. Qed.

Lemma fresh_wide_is_fresh script g : fresh_wrt_spec_wide script g -> fresh_wrt_spec script g.
Proof.
  intros (decls & H1 & H2 & H3). exists decls. split; [exact H1|]. split; [exact H2|].
  intros n Hn Hs. apply (H3 n Hn). now apply spec_declares_is_wide.
Qed.

Theorem not_declared_not_in_spec_wide script n :
  n <> [cBAR] -> is_declared script n = false -> ~ spec_declares_wide script n.
Proof.
  intros Hn Hd Hs. rewrite (is_declared_complete_wide script n Hn Hs) in Hd. discriminate.
Qed.

(* ... in particular it is no token of the script, modulo bars *)
Theorem not_declared_no_token script n :
  n <> [cBAR] -> is_declared script n = false -> forall m, occurs script m -> ~ same_symbol m n.
Proof.
  intros Hn Hd m Ho Hs. apply (not_declared_not_in_spec_wide script n Hn Hd). now apply (occurs_is_wide _ m).
Qed.

Theorem gsimp_fresh_wrt_spec_wide script g :
  gsimp_fresh (is_declared script) g ->
  (forall n so, In (mk_decl n so) (gs_fresh g) -> n <> [cBAR]) ->
  fresh_wrt_spec_wide script g.
Proof.
  intros (decls & Hf & Hnd & Hall) Hbar. exists decls. split; [exact Hf|]. split; [exact Hnd|].
  intros n Hn. destruct (Hall n Hn) as [Hd _]. apply not_declared_not_in_spec_wide; [|exact Hd].
  apply in_map_iff in Hn as ([n' so] & <- & Hin). cbn [fst]. apply (Hbar n' so). rewrite Hf.
  apply in_map_iff. exists (n', so). split; [reflexivity | exact Hin].
Qed.

Theorem rw_fresh_var_fresh_wrt_spec_wide script gs vars isdef id here e l g :
  rw_fresh_var gs vars isdef (is_declared script) id here e = Some l -> In g l -> fresh_wrt_spec_wide script g.
Proof.
  intros HR Hin. apply gsimp_fresh_wrt_spec_wide; [exact (rw_fresh_var_fresh _ _ _ _ _ _ _ _ _ HR Hin)|].
  destruct (rw_fresh_var_inv _ _ _ _ _ _ _ _ _ HR Hin) as (so & _ & _ & ->).
  intros n so' [H | []]. apply mk_decl_name in H. subst n. apply fresh_name_not_bar.
Qed.

Theorem rw_bv_reduce_bw_fresh_wrt_spec_wide script gs bw here e l g :
  rw_bv_reduce_bw gs bw (is_declared script) here e = Some l -> In g l -> fresh_wrt_spec_wide script g.
Proof.
  intros HR Hin. apply gsimp_fresh_wrt_spec_wide; [exact (rw_bv_reduce_bw_fresh _ _ _ _ _ _ _ HR Hin)|].
  destruct (rw_bv_reduce_bw_inv _ _ _ _ _ _ _ HR Hin) as (h & s & rest & so & w & b & _ & _ & _ & _ & ->).
  intros n so' [H | []]. apply mk_decl_name in H. subst n. discriminate.
Qed.

Theorem rw_str_contains_fresh_wrt_spec_wide script e l g :
  rw_str_contains (is_declared script) e = Some l -> In g l -> fresh_wrt_spec_wide script g.
Proof.
  intros HR Hin. apply gsimp_fresh_wrt_spec_wide; [exact (rw_str_contains_fresh _ _ _ _ HR Hin)|].
  destruct (rw_str_contains_inv _ _ _ _ HR Hin) as (h & v & x & _ & _ & _ & _ & _ & ->).
  intros n so' [H | [H | []]]; apply mk_decl_name in H; subst n; apply suffixed_not_bar; cbn; lia.
Qed.

(* the names, explicitly: none of them is a token of the script, modulo bars *)
Corollary rw_fresh_var_name_no_token script gs vars isdef id here e l g :
  rw_fresh_var gs vars isdef (is_declared script) id here e = Some l -> In g l ->
  forall m, occurs script m -> ~ same_symbol m (fresh_name id).
Proof.
  intros HR Hin. destruct (rw_fresh_var_inv _ _ _ _ _ _ _ _ _ HR Hin) as (so & _ & Hd & _).
  apply not_declared_no_token; [apply fresh_name_not_bar | exact Hd].
Qed.

Corollary rw_bv_reduce_bw_name_no_token script gs bw here e l g :
  rw_bv_reduce_bw gs bw (is_declared script) here e = Some l -> In g l ->
  exists h s rest, e = T (h :: L s :: rest) /\ forall m, occurs script m -> ~ same_symbol m (95%N :: s).
Proof.
  intros HR Hin.
  destruct (rw_bv_reduce_bw_inv _ _ _ _ _ _ _ HR Hin) as (h & s & rest & so & w & b & He & _ & Hd & _ & _).
  exists h, s, rest. split; [exact He|]. apply not_declared_no_token; [discriminate | exact Hd].
Qed.

Corollary rw_str_contains_names_no_token script e l g :
  rw_str_contains (is_declared script) e = Some l -> In g l ->
  exists h v x, e = T [h; L v; x] /\
    (forall m, occurs script m -> ~ same_symbol m (v ++ lit "_prefix")) /\
    (forall m, occurs script m -> ~ same_symbol m (v ++ lit "_suffix")).
Proof.
  intros HR Hin. destruct (rw_str_contains_inv _ _ _ _ HR Hin) as (h & v & x & He & H1 & H2 & _ & _ & _).
  exists h, v, x. split; [exact He|].
  split; (apply not_declared_no_token; [apply suffixed_not_bar; cbn; lia | assumption]).
Qed.

(* an instance of the wide specification: the label of (assert (! (= x #x00) :named _x)), asked for as |_x| *)
From DD Require Import Proofs.Declared.Examples.
Example ex_named_in_wide_spec :
  spec_declares_wide ex_named (lit "|_x|") /\ ~ spec_declares_wide ex_named (lit "_y").
Proof.
  split.
  - exists (lit "_x"). split; [|reflexivity]. right. right.
    exists (T [lfs "assert"; T [lfs "!"; T [lfs "="; lfs "x"; lfs "#x00"]; lfs ":named"; lfs "_x"]]).
    split; [right; now left|]. right.
    exists (T [lfs "!"; T [lfs "="; lfs "x"; lfs "#x00"]; lfs ":named"; lfs "_x"]). split.
    + apply (Sub_child _ (T [lfs "!"; T [lfs "="; lfs "x"; lfs "#x00"]; lfs ":named"; lfs "_x"])); [right; now left | constructor].
    + left. exists (T [lfs "="; lfs "x"; lfs "#x00"]), [], []. reflexivity.
  - apply not_declared_not_in_spec_wide; [discriminate | vm_compute; reflexivity].
Qed.
