(* Basic facts about Model/Declared.v: membership in the tables, the comment filter against the specification's
   reading of a command (Spec/DeclaredSpec.v), the spellings of a symbol. *)
From DD Require Import Model.Declared Spec.DeclaredSpec Proofs.Rw.LetSubst.
Local Open Scope list_scope.

(* ---- membership ---- *)
Lemma mem_str_l_in s l : mem_str_l s l = true <-> In s l.
Proof.
  unfold mem_str_l. rewrite existsb_exists. split.
  - intros (y & Hy & E). apply str_eqb_eq in E. now subst.
  - intros H. exists s. split; [assumption | apply str_eqb_refl].
Qed.

Lemma declared_table_in script n :
  In n (declared_table script) <->
  In n (tbl_sort script) \/ In n (tbl_other script) \/ In n (tbl_tokens script) \/ In n (tbl_constr script) \/ In n (tbl_sel script).
Proof. unfold declared_table. rewrite !in_app_iff. tauto. Qed.

Lemma structural_table_in script n :
  In n (structural_table script) <->
  In n (tbl_sort script) \/ In n (tbl_other script) \/ In n (tbl_constr script) \/ In n (tbl_sel script).
Proof. unfold structural_table. rewrite !in_app_iff. tauto. Qed.

(* the tables that know the declaring forms are part of the table *)
Lemma structural_in_declared script n : In n (structural_table script) -> In n (declared_table script).
Proof. rewrite structural_table_in, declared_table_in. tauto. Qed.

Lemma declared_table_split script n :
  In n (declared_table script) <-> In n (structural_table script) \/ In n (tbl_tokens script).
Proof. rewrite structural_table_in, declared_table_in. tauto. Qed.

Lemma in_tables_spec script n : in_tables script n = true <-> In n (declared_table script).
Proof.
  unfold in_tables. rewrite declared_table_in, !orb_true_iff, !mem_str_l_in. tauto.
Qed.

Lemma is_declared_spec script n :
  is_declared script n = true <-> In n (declared_table script) \/ In (other_spelling n) (declared_table script).
Proof. unfold is_declared. rewrite orb_true_iff, !in_tables_spec. reflexivity. Qed.

Lemma in_flat_map_intro {A B} (f : A -> list B) l a b : In a l -> In b (f a) -> In b (flat_map f l).
Proof. intros Ha Hb. apply in_flat_map. now exists a. Qed.

Lemma in_tbl_sort_cmd script c x :
  In c script -> In x (sort_names_cmd (strip_comments c)) -> In x (declared_table script).
Proof.
  intros Hc Hx. apply declared_table_in. left. unfold tbl_sort. apply in_or_app. left.
  now apply (in_flat_map_intro _ _ c).
Qed.

Lemma in_tbl_sort_binder script c t x :
  In c script -> In t (subterms c) -> In x (binder_names t) -> In x (declared_table script).
Proof.
  intros Hc Ht Hx. apply declared_table_in. left. unfold tbl_sort. apply in_or_app. right.
  apply (in_flat_map_intro _ _ t); [|exact Hx]. now apply (in_flat_map_intro _ _ c).
Qed.

Lemma in_tbl_other script c x :
  In c script -> In x (other_names_cmd (strip_comments c)) -> In x (declared_table script).
Proof.
  intros Hc Hx. apply declared_table_in. right. left. unfold tbl_other. now apply (in_flat_map_intro _ _ c).
Qed.

Lemma in_tbl_constr script c x :
  In c script -> In x (constr_names_cmd (strip_comments c)) -> In x (declared_table script).
Proof.
  intros Hc Hx. apply declared_table_in. right. right. right. left. unfold tbl_constr.
  now apply (in_flat_map_intro _ _ c).
Qed.

Lemma in_tbl_sel script c x :
  In c script -> In x (sel_names_cmd (strip_comments c)) -> In x (declared_table script).
Proof.
  intros Hc Hx. apply declared_table_in. right. right. right. right. unfold tbl_sel.
  now apply (in_flat_map_intro _ _ c).
Qed.

(* __all_tokens: the leaves of the commands *)
Lemma in_leaves e x : In x (leaves e) <-> In (L x) (subterms e).
Proof.
  unfold leaves. rewrite in_flat_map. split.
  - intros ([s | l] & Hs & Hx); [|destruct Hx]. destruct Hx as [<- | []]. exact Hs.
  - intro H. exists (L x). split; [exact H | now left].
Qed.

Lemma in_tbl_tokens script x : In x (tbl_tokens script) <-> exists c, In c script /\ In (L x) (subterms c).
Proof.
  unfold tbl_tokens. rewrite in_flat_map. split; intros (c & Hc & Hx); exists c; (split; [exact Hc|]); now apply in_leaves.
Qed.

(* ---- comments: the specification's reading of a command is the model's filter ---- *)
Lemma comment_is_comment e : comment e = comment_leaf e.
Proof. reflexivity. Qed.

Lemma without_comments_filter l l' :
  without_comments l l' -> filter (fun c => negb (comment_leaf c)) l = l'.
Proof.
  intro H. induction H as [| c l l' Hc _ IH | x l l' Hx _ IH]; cbn [filter].
  - reflexivity.
  - rewrite <- comment_is_comment, Hc. exact IH.
  - rewrite <- comment_is_comment, Hx. cbn [negb]. now rewrite IH.
Qed.

Lemma filter_without_comments l : without_comments l (filter (fun c => negb (comment_leaf c)) l).
Proof.
  induction l as [| x l IH]; cbn [filter]; [constructor|].
  destruct (comment_leaf x) eqn:E; cbn [negb].
  - apply WC_skip; [now rewrite comment_is_comment | exact IH].
  - apply WC_keep; [now rewrite comment_is_comment | exact IH].
Qed.

Lemma command_strip c k args : command c k args -> strip_comments c = T (L (lit k) :: args).
Proof.
  intros (l & -> & H). cbn [strip_comments]. now rewrite (without_comments_filter _ _ H).
Qed.

(* ---- subterms: the specification's relation is the model's list ---- *)
Lemma subterm_in t e : subterm t e -> In t (subterms e).
Proof.
  intro H. induction H as [e | t x l Hx _ IH]; [apply sub_refl|]. now apply (sub_child l x).
Qed.

Lemma in_subterm : forall e t, In t (subterms e) -> subterm t e.
Proof.
  induction e as [s | l IH] using sexp_ind'; intros t Ht.
  - destruct Ht as [<- | []]. constructor.
  - rewrite Forall_forall in IH. apply sub_inv in Ht as [-> | (a & Ha & Ht)]; [constructor|].
    apply (Sub_child t a l Ha). now apply IH.
Qed.

(* ---- the two spellings of a symbol ---- *)
Definition bar (n : str) : str := cBAR :: n ++ [cBAR].

Lemma last_cons_ne {A} (x : A) l d : l <> [] -> last (x :: l) d = last l d.
Proof. destruct l; [congruence | reflexivity]. Qed.

Lemma quoted_shape s : quoted s = true -> s = bar (removelast (tl s)) /\ is_piped s = true.
Proof.
  destruct s as [| c [| d r]]; try discriminate. unfold quoted, is_piped.
  intro H. apply andb_true_iff in H as [H1 H2]. split.
  - apply N.eqb_eq in H1. apply N.eqb_eq in H2. subst c. unfold bar. cbn [tl]. f_equal.
    rewrite <- H2. apply app_removelast_last. discriminate.
  - rewrite H1. rewrite last_cons_ne by discriminate. rewrite H2. reflexivity.
Qed.

Lemma piped_not_quoted s : is_piped s = true -> quoted s = false -> s = [cBAR].
Proof.
  destruct s as [| c [| d r]]; try discriminate.
  - unfold is_piped. cbn [last]. intros H _. apply andb_true_iff in H as [H _]. apply N.eqb_eq in H. now subst.
  - unfold is_piped, quoted. rewrite last_cons_ne by discriminate. intros H1 H2. congruence.
Qed.

Lemma is_piped_bar n : is_piped (bar n) = true.
Proof.
  unfold is_piped, bar. rewrite N.eqb_refl. cbn [andb].
  rewrite last_cons_ne by (destruct n; discriminate). rewrite last_last. apply N.eqb_refl.
Qed.

Lemma other_spelling_bar n : other_spelling (bar n) = n.
Proof. unfold other_spelling. rewrite is_piped_bar. unfold bar. cbn [tl]. apply removelast_last. Qed.

Lemma other_spelling_simple n : is_piped n = false -> other_spelling n = bar n.
Proof. unfold other_spelling. now intros ->. Qed.

(* the same symbol in the specification's sense is the same or the other spelling in the code's sense -- except for
   the lone bar, which the code takes for a quoted symbol (with the empty name inside) *)
Lemma same_symbol_spelling m n :
  same_symbol m n -> n <> [cBAR] -> m = n \/ m = other_spelling n.
Proof.
  unfold same_symbol, plain. intros H Hn.
  destruct (quoted m) eqn:Qm, (quoted n) eqn:Qn.
  - left. apply quoted_shape in Qm as [Em _]. apply quoted_shape in Qn as [En _]. rewrite Em, En. now rewrite H.
  - right. apply quoted_shape in Qm as [Em _]. rewrite H in Em.
    destruct (is_piped n) eqn:Pn; [exfalso; apply Hn; now apply piped_not_quoted|].
    now rewrite other_spelling_simple.
  - right. apply quoted_shape in Qn as [_ Pn]. unfold other_spelling. now rewrite Pn.
  - now left.
Qed.
