(* Evaluated examples for Model/Declared.v and Spec/DeclaredSpec.v: the three regression inputs of C15 (a quoted
   declaration, a formal parameter, a comment inside the declaring command), a negative one, and the behaviour on
   inputs outside the specification (comments below the top level of a command, malformed declarations). *)
From DD Require Import Model.Declared Spec.DeclaredSpec Proofs.Declared.Base.
Open Scope string_scope.
Local Open Scope list_scope.

Definition lfs (s : string) : sexp := L (lit s).
Definition bv8 : sexp := T [lfs "_"; lfs "BitVec"; lfs "8"].
Definition cmt (s : string) : sexp := L (lit s ++ [cLF]).

(* (declare-const |_v| (_ BitVec 8)) *)
Definition ex_quoted : list sexp := [T [lfs "declare-const"; lfs "|_v|"; bv8]].
(* (define-fun f ((_v (_ BitVec 8))) (_ BitVec 8) (bvadd _v v)) *)
Definition ex_formal : list sexp :=
  [T [lfs "define-fun"; lfs "f"; T [T [lfs "_v"; bv8]]; bv8; T [lfs "bvadd"; lfs "_v"; lfs "v"]]].
(* (declare-const _v ; note<LF> (_ BitVec 8)) *)
Definition ex_comment : list sexp := [T [lfs "declare-const"; lfs "_v"; cmt "; note"; bv8]].
(* (declare-const v (_ BitVec 8)) *)
Definition ex_plain : list sexp := [T [lfs "declare-const"; lfs "v"; bv8]].

Lemma ex_quoted_declared : is_declared ex_quoted (lit "_v") = true /\ is_declared ex_quoted (lit "|_v|") = true.
Proof. split; vm_compute; reflexivity. Qed.
Lemma ex_formal_declared :
  is_declared ex_formal (lit "_v") = true /\ is_declared ex_formal (lit "|_v|") = true /\ is_declared ex_formal (lit "f") = true.
Proof. repeat split; vm_compute; reflexivity. Qed.
Lemma ex_comment_declared : is_declared ex_comment (lit "_v") = true /\ is_declared ex_comment (lit "|_v|") = true.
Proof. split; vm_compute; reflexivity. Qed.
Lemma ex_plain_not_declared :
  is_declared ex_plain (lit "_v") = false /\ is_declared ex_plain (lit "|_v|") = false /\
  is_declared ex_plain (lit "v") = true /\ is_declared ex_plain (lit "BitVec") = true /\     (* a token *)
  is_declared ex_plain (lit "Int") = false /\
  structural_table ex_plain = [lit "v"] /\
  declared_table ex_plain = [lit "v"; lit "declare-const"; lit "v"; lit "_"; lit "BitVec"; lit "8"].
Proof. repeat split; vm_compute; reflexivity. Qed.

(* the specification says the same about the three inputs *)
Lemma keep_all l : forallb (fun x => negb (comment x)) l = true -> without_comments l l.
Proof.
  induction l as [| x l IH]; [constructor|]. cbn [forallb]. intro H. apply andb_true_iff in H as [H1 H2].
  apply WC_keep; [now apply negb_true_iff | now apply IH].
Qed.

Lemma ex_quoted_spec : spec_declares ex_quoted (lit "_v").
Proof.
  exists (lit "|_v|"). split; [|reflexivity]. eexists. split; [now left|]. left.
  apply (D_declare_const _ _ bv8). eexists. split; [reflexivity|]. now apply keep_all.
Qed.
Lemma ex_formal_spec : spec_declares ex_formal (lit "|_v|").
Proof.
  exists (lit "_v"). split; [|reflexivity]. eexists. split; [now left|]. left.
  apply (D_define_fun_formal _ _ (lit "f") [T [lfs "_v"; bv8]] bv8 (T [lfs "bvadd"; lfs "_v"; lfs "v"])).
  - eexists. split; [reflexivity|]. now apply keep_all.
  - exists bv8. now left.
Qed.
Lemma ex_comment_spec : spec_declares ex_comment (lit "_v").
Proof.
  exists (lit "_v"). split; [|reflexivity]. eexists. split; [now left|]. left.
  apply (D_declare_const _ _ bv8). eexists. split; [reflexivity|].
  apply WC_keep; [reflexivity|]. apply WC_keep; [reflexivity|]. apply WC_skip; [reflexivity|].
  apply WC_keep; [reflexivity|]. constructor.
Qed.

(* ---- outside the narrow specification: comments below the top level of a command.  The tables that know the
   declaring forms miss the declaration; since the repair the name is found as a token ---- *)
(* (define-fun f ((; c<LF> x Int)) Int x): the comment is recorded in the place of the formal x *)
Lemma ex_comment_in_formal :
  let s := [T [lfs "define-fun"; lfs "f"; T [T [cmt "; c"; lfs "x"; lfs "Int"]]; lfs "Int"; lfs "x"]] in
  is_declared s (lit "x") = true /\ is_declared s (lit "|x|") = true /\ structural_table s = [lit "f"; lit "; c" ++ [cLF]].
Proof. repeat split; vm_compute; reflexivity. Qed.
(* (assert (let ((x ; c<LF> 1)) x)): a binding of three children is skipped *)
Lemma ex_comment_in_binding :
  let s := [T [lfs "assert"; T [lfs "let"; T [T [lfs "x"; cmt "; c"; lfs "1"]]; lfs "x"]]] in
  is_declared s (lit "x") = true /\ is_declared s (lit "|x|") = true /\ structural_table s = [].
Proof. repeat split; vm_compute; reflexivity. Qed.
(* (declare-datatypes ((D 0)) (; k<LF> ((c)))): the comment takes the place of the constructor list of D *)
Lemma ex_comment_in_datatypes :
  let s := [T [lfs "declare-datatypes"; T [T [lfs "D"; lfs "0"]]; T [cmt "; k"; T [T [lfs "c"]]]]] in
  is_declared s (lit "c") = true /\ is_declared s (lit "|c|") = true /\ structural_table s = [].
Proof. repeat split; vm_compute; reflexivity. Qed.

(* ---- the other ways a symbol gets into a script: none is known to the structural tables, all are tokens ---- *)
Definition x8 : sexp := T [lfs "declare-const"; lfs "x"; bv8].
(* (assert (! (= x #x00) :named _x)) *)
Definition ex_named : list sexp := [x8; T [lfs "assert"; T [lfs "!"; T [lfs "="; lfs "x"; lfs "#x00"]; lfs ":named"; lfs "_x"]]].
(* (assert (match y ((nil x) ((cons _x t) _x)))) *)
Definition ex_match : list sexp :=
  [x8; T [lfs "assert"; T [lfs "match"; lfs "y"; T [T [lfs "nil"; lfs "x"]; T [T [lfs "cons"; lfs "_x"; lfs "t"]; lfs "_x"]]]]].
(* (assert ((lambda ((_x (_ BitVec 8))) _x) x)) *)
Definition ex_lambda : list sexp := [x8; T [lfs "assert"; T [T [lfs "lambda"; T [T [lfs "_x"; bv8]]; lfs "_x"]; lfs "x"]]].
(* (define-const _x Int 1), (declare-var |_x| Int) *)
Definition ex_define_const : list sexp := [x8; T [lfs "define-const"; lfs "_x"; lfs "Int"; lfs "1"]].
Definition ex_declare_var : list sexp := [x8; T [lfs "declare-var"; lfs "|_x|"; lfs "Int"]].

Lemma ex_other_forms_declared :
  (is_declared ex_named (lit "_x") = true /\ structural_table ex_named = [lit "x"]) /\
  (is_declared ex_match (lit "_x") = true /\ structural_table ex_match = [lit "x"]) /\
  (is_declared ex_lambda (lit "_x") = true /\ structural_table ex_lambda = [lit "x"]) /\
  (is_declared ex_define_const (lit "_x") = true /\ structural_table ex_define_const = [lit "x"]) /\
  (is_declared ex_declare_var (lit "_x") = true /\ structural_table ex_declare_var = [lit "x"]).
Proof. repeat split; vm_compute; reflexivity. Qed.

(* ---- malformed declarations ---- *)
(* (declare-datatypes ((D 0) (E 0)) (((c)))) is accepted, (declare-datatypes ((D 0)) (((c)) ((e)))) loses e *)
Lemma ex_datatypes_lengths :
  structural_table [T [lfs "declare-datatypes"; T [T [lfs "D"; lfs "0"]; T [lfs "E"; lfs "0"]]; T [T [T [lfs "c"]]]]] = [lit "c"] /\
  structural_table [T [lfs "declare-datatypes"; T [T [lfs "D"; lfs "0"]]; T [T [T [lfs "c"]]; T [T [lfs "e"]]]]] = [lit "c"].
Proof. split; vm_compute; reflexivity. Qed.
(* (declare-datatype L (par (X) ((nil) (cons (hd X) (tl (L X)))))): every leaf below the constructor list, and X as
   a "constructor", cons as a "selector" *)
Lemma ex_par :
  structural_table [T [lfs "declare-datatype"; lfs "L"; T [lfs "par"; T [lfs "X"];
                     T [T [lfs "nil"]; T [lfs "cons"; T [lfs "hd"; lfs "X"]; T [lfs "tl"; T [lfs "L"; lfs "X"]]]]]]]
  = [lit "nil"; lit "cons"; lit "hd"; lit "X"; lit "tl"; lit "L"; lit "X"; lit "X"; lit "cons"].
Proof. vm_compute; reflexivity. Qed.
(* (define-fun-rec f) and (declare-const x Int extra) *)
Lemma ex_arities :
  structural_table [T [lfs "define-fun-rec"; lfs "f"]] = [lit "f"] /\
  structural_table [T [lfs "declare-const"; lfs "x"; lfs "Int"; lfs "extra"]] = [].
Proof. split; vm_compute; reflexivity. Qed.
