(* Stability of Model/Declared.v: (b) a simple name and its quoted spelling get the same answer; (c) comments on the
   top level of a command do not change the tables (for a command that is not itself a let / forall / exists term:
   the term-level loop of collect_information reads the command with its comments); (d) more commands, more names. *)
From DD Require Import Model.Declared Spec.DeclaredSpec Proofs.Rw.LetSubst Proofs.Declared.Base.
Open Scope string_scope.
Local Open Scope list_scope.

(* ================= (b) aliasing ================= *)
Theorem is_declared_bar script n :
  is_piped n = false -> is_declared script (bar n) = is_declared script n.
Proof.
  intro Hn. unfold is_declared. rewrite other_spelling_bar, (other_spelling_simple _ Hn). apply orb_comm.
Qed.

(* ... and in the other direction: removing the bars of a quoted symbol *)
Theorem is_declared_unbar script n :
  quoted n = true -> is_piped (plain n) = false -> is_declared script (plain n) = is_declared script n.
Proof.
  intros Q Hp. unfold plain in *. rewrite Q in *. destruct (quoted_shape _ Q) as [E _].
  rewrite E at 2. symmetry. now apply is_declared_bar.
Qed.

(* ================= answers depend on the tables as sets ================= *)
Lemma in_tables_ext s s' :
  (forall n, In n (declared_table s) <-> In n (declared_table s')) -> forall n, in_tables s n = in_tables s' n.
Proof.
  intros H n. apply eq_iff_eq_true. rewrite !in_tables_spec. apply H.
Qed.

Lemma is_declared_ext s s' :
  (forall n, In n (declared_table s) <-> In n (declared_table s')) -> forall n, is_declared s n = is_declared s' n.
Proof. intros H n. unfold is_declared. now rewrite !(in_tables_ext _ _ H). Qed.

(* ================= (c) comments on the top level of a command ================= *)
Definition not_comment (c : sexp) : bool := negb (comment_leaf c).
Definition binder_head (c : sexp) : bool := is_op c "let" || is_op c "exists" || is_op c "forall".

Lemma strip_comments_T l : strip_comments (T l) = T (filter not_comment l).
Proof. reflexivity. Qed.

Lemma binder_names_comment x : comment_leaf x = true -> flat_map binder_names (subterms x) = [].
Proof. destruct x as [s | l]; [|discriminate]. reflexivity. Qed.

(* below the top level the comments contribute nothing *)
Lemma binder_part_filter l :
  flat_map binder_names (flat_map subterms (filter not_comment l)) = flat_map binder_names (flat_map subterms l).
Proof.
  induction l as [| x l IH]; [reflexivity|]. cbn [filter flat_map]. unfold not_comment at 1.
  destruct (comment_leaf x) eqn:C; cbn [negb].
  - rewrite flat_map_app, (binder_names_comment _ C). exact IH.
  - cbn [flat_map]. rewrite !flat_map_app. now rewrite IH.
Qed.

(* the command itself is a binder only if it is one without its comments *)
Lemma binder_names_top l : binder_head (T (filter not_comment l)) = false -> binder_names (T l) = [].
Proof.
  destruct l as [| [h | m] r]; try reflexivity.
  cbn [filter]. unfold not_comment at 1. destruct (comment_leaf (L h)) eqn:C; cbn [negb].
  - intros _. destruct h as [| c h']; [discriminate|]. cbn [comment_leaf] in C. apply N.eqb_eq in C. subst c.
    destruct r as [| [s | vars] r']; reflexivity.
  - unfold binder_head, is_op. intro Hb. destruct r as [| [s | vars] r']; try reflexivity.
    cbn [binder_names]. now rewrite Hb.
Qed.

Lemma binder_part_cmd c c' :
  strip_comments c = strip_comments c' -> binder_head (strip_comments c) = false ->
  flat_map binder_names (subterms c) = flat_map binder_names (subterms c').
Proof.
  destruct c as [s | l], c' as [s' | l']; cbn [strip_comments]; intros E Hb; try discriminate.
  - now injection E as ->.
  - fold not_comment in *. injection E as E.
    rewrite !subterms_T. cbn [flat_map].
    rewrite (binder_names_top l Hb). rewrite E in Hb. rewrite (binder_names_top l' Hb).
    cbn [app]. rewrite <- (binder_part_filter l), <- (binder_part_filter l'). now rewrite E.
Qed.

(* two commands that are the same without their top-level comments are interchangeable for the tables that know
   the declaring and binding forms *)
Theorem structural_table_comments pre post c c' :
  strip_comments c = strip_comments c' -> binder_head (strip_comments c) = false ->
  structural_table (pre ++ c :: post) = structural_table (pre ++ c' :: post).
Proof.
  intros E Hb. unfold structural_table, tbl_sort, tbl_other, tbl_constr, tbl_sel.
  rewrite !flat_map_app. cbn [flat_map]. rewrite !flat_map_app.
  rewrite (binder_part_cmd c c' E Hb). now rewrite E.
Qed.

Lemma strip_insert_comment l1 l2 r :
  strip_comments (T (l1 ++ L (cSEMI :: r) :: l2)) = strip_comments (T (l1 ++ l2)).
Proof. cbn [strip_comments]. rewrite !filter_app. reflexivity. Qed.

Theorem structural_table_insert_comment pre post l1 l2 r :
  binder_head (strip_comments (T (l1 ++ l2))) = false ->
  structural_table (pre ++ T (l1 ++ L (cSEMI :: r) :: l2) :: post) = structural_table (pre ++ T (l1 ++ l2) :: post).
Proof.
  intro Hb. apply structural_table_comments; [apply strip_insert_comment|]. now rewrite strip_insert_comment.
Qed.

(* ... and the table of all tokens gains the text of the comment *)
Lemma in_leaves_T l n : In n (leaves (T l)) <-> exists x, In x l /\ In n (leaves x).
Proof.
  rewrite in_leaves. split.
  - intro H. apply sub_inv in H as [H | (a & Ha & H)]; [discriminate|]. exists a. split; [exact Ha | now apply in_leaves].
  - intros (x & Hx & H). apply (sub_child l x _ Hx). now apply in_leaves.
Qed.

Lemma leaves_insert l1 l2 k n :
  In n (leaves (T (l1 ++ L k :: l2))) <-> n = k \/ In n (leaves (T (l1 ++ l2))).
Proof.
  rewrite !in_leaves_T. split.
  - intros (x & Hx & H). apply in_app_or in Hx as [Hx | [<- | Hx]].
    + right. exists x. split; [apply in_or_app; now left | exact H].
    + left. destruct H as [<- | []]. reflexivity.
    + right. exists x. split; [apply in_or_app; now right | exact H].
  - intros [-> | (x & Hx & H)].
    + exists (L k). split; [apply in_or_app; right; now left | now left].
    + exists x. split; [|exact H]. apply in_app_or in Hx as [Hx | Hx]; apply in_or_app; [now left | right; now right].
Qed.

Lemma tbl_tokens_insert pre post l1 l2 k n :
  In n (tbl_tokens (pre ++ T (l1 ++ L k :: l2) :: post)) <-> n = k \/ In n (tbl_tokens (pre ++ T (l1 ++ l2) :: post)).
Proof.
  unfold tbl_tokens. rewrite !flat_map_app. cbn [flat_map]. rewrite !in_app_iff, leaves_insert. tauto.
Qed.

(* inserting a comment leaf anywhere on the top level of a command: the only new name is the text of the comment *)
Theorem declared_table_insert_comment pre post l1 l2 r :
  binder_head (strip_comments (T (l1 ++ l2))) = false ->
  forall n, In n (declared_table (pre ++ T (l1 ++ L (cSEMI :: r) :: l2) :: post)) <->
            n = cSEMI :: r \/ In n (declared_table (pre ++ T (l1 ++ l2) :: post)).
Proof.
  intros Hb n. rewrite !declared_table_split, (structural_table_insert_comment pre post l1 l2 r Hb), tbl_tokens_insert. tauto.
Qed.

Theorem is_declared_insert_comment pre post l1 l2 r n :
  binder_head (strip_comments (T (l1 ++ l2))) = false ->
  n <> cSEMI :: r -> other_spelling n <> cSEMI :: r ->
  is_declared (pre ++ T (l1 ++ L (cSEMI :: r) :: l2) :: post) n = is_declared (pre ++ T (l1 ++ l2) :: post) n.
Proof.
  intros Hb H1 H2. apply eq_iff_eq_true. rewrite !is_declared_spec.
  rewrite !(declared_table_insert_comment pre post l1 l2 r Hb). tauto.
Qed.

(* a comment is a token like any other: with the comment the table holds its text *)
Example comment_is_a_token :
  is_declared [T [L (lit "check-sat"); L (cSEMI :: lit " c" ++ [cLF])]] (cSEMI :: lit " c" ++ [cLF]) = true /\
  is_declared [T [L (lit "check-sat")]] (cSEMI :: lit " c" ++ [cLF]) = false.
Proof. split; vm_compute; reflexivity. Qed.

(* the hypothesis is needed: a let in the place of a command binds x, with a comment before its bindings it does
   not (x is found all the same since the repair, as a token) *)
Example comment_in_top_level_let :
  let binding := T [T [L (lit "x"); L (lit "1")]] in
  structural_table [T [L (lit "let"); binding; L (lit "x")]] = [lit "x"] /\
  structural_table [T [L (lit "let"); L (cSEMI :: lit " c" ++ [cLF]); binding; L (lit "x")]] = [] /\
  is_declared [T [L (lit "let"); L (cSEMI :: lit " c" ++ [cLF]); binding; L (lit "x")]] (lit "x") = true.
Proof. repeat split; vm_compute; reflexivity. Qed.

(* ================= (d) monotonicity ================= *)
Lemma flat_map_mono {A B} (f : A -> list B) s s' :
  (forall c, In c s -> In c s') -> forall x, In x (flat_map f s) -> In x (flat_map f s').
Proof.
  intros H x Hx. apply in_flat_map in Hx as (c & Hc & Hx). apply in_flat_map. exists c. split; [now apply H | exact Hx].
Qed.

Theorem declared_table_mono s s' :
  (forall c, In c s -> In c s') -> forall n, In n (declared_table s) -> In n (declared_table s').
Proof.
  intros H n. rewrite !declared_table_in. unfold tbl_sort, tbl_other, tbl_tokens, tbl_constr, tbl_sel. rewrite !in_app_iff.
  intros [[Hn | Hn] | [Hn | [Hn | [Hn | Hn]]]].
  - left. left. now apply (flat_map_mono _ s s' H).
  - left. right. apply (flat_map_mono _ (flat_map subterms s) (flat_map subterms s')); [|exact Hn].
    now apply flat_map_mono.
  - right. left. now apply (flat_map_mono _ s s' H).
  - right. right. left. now apply (flat_map_mono _ s s' H).
  - right. right. right. left. now apply (flat_map_mono _ s s' H).
  - right. right. right. right. now apply (flat_map_mono _ s s' H).
Qed.

Theorem is_declared_mono s s' n :
  (forall c, In c s -> In c s') -> is_declared s n = true -> is_declared s' n = true.
Proof.
  intros H. rewrite !is_declared_spec. intros [Hn | Hn]; [left | right]; now apply (declared_table_mono s s' H).
Qed.

(* appending commands, and inserting commands anywhere (smtlib.introduce_variables inserts the new declarations in
   the middle of the input), only adds names *)
Corollary declared_table_app s t n : In n (declared_table s) -> In n (declared_table (s ++ t)).
Proof. apply declared_table_mono. intros c Hc. apply in_or_app. now left. Qed.

Corollary is_declared_app s t n : is_declared s n = true -> is_declared (s ++ t) n = true.
Proof. apply is_declared_mono. intros c Hc. apply in_or_app. now left. Qed.

Corollary is_declared_insert a t b n : is_declared (a ++ b) n = true -> is_declared (a ++ t ++ b) n = true.
Proof.
  apply is_declared_mono. intros c Hc. apply in_app_or in Hc as [Hc | Hc]; apply in_or_app; [now left | right].
  apply in_or_app. now right.
Qed.
