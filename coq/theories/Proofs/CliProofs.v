From DD Require Import Model.Cli.

Lemma exit_status_lemma o : exit_status o = 0%Z <-> (o = Completed \/ o = ParserTest).
Proof. destruct o; cbn; split; intros H; try (destruct H; discriminate); try discriminate; auto. Qed.

Lemma run_cli_completed i :
  run_cli i = Completed <->
  (in_regular i = true /\ out_ok i = true /\ out_is_in i = false /\ parser_test i = false /\ has_cmd i = true /\ cmd_regular i = true /\ cmd_exec i = true
   /\ (has_cc i = true -> cc_regular i = true /\ cc_exec i = true /\ cc_runs i = true)
   /\ jobs_ok i = true /\ limits_ok i = true /\ in_decodable i = true /\ cmd_runs i = true /\ golden_has_match i = true /\ interrupted i = false /\ internal i = None).
Proof.
  unfold run_cli.
  destruct i as [a oo o b c d e hc cr ce j lo dec r rc f g h]; cbn.
  destruct a, oo, o, b, c, d, e; cbn; try (split; [discriminate | intros (H1 & H2 & H3 & H4 & H5 & H6 & H7 & _); discriminate]);
  destruct hc, cr, ce, j, lo, dec, r, rc, f, g; cbn; destruct h; cbn;
    (split; [intros H; try discriminate H; repeat split; try reflexivity; intros; try discriminate; repeat split; reflexivity
            | intros (H1 & H2 & H3 & H4 & H5 & H6 & H7 & H8 & H9 & H10 & H11 & H12 & H13 & H14 & H15); try discriminate;
              try reflexivity; try (destruct (H8 eq_refl) as (? & ? & ?); discriminate)]).
Qed.

(* a command that the system cannot run, a missing match string: one diagnostic line, status 1 *)
Lemma cannot_run_status i : run_cli i = CommandCannotRun -> exit_status (run_cli i) = 1%Z /\ diagnostic_lines (run_cli i) = 1.
Proof. intros ->. split; reflexivity. Qed.

(* no usage error, however combined, reaches the minimisation: status 0 needs every check to pass *)
Lemma status_zero_checks i :
  exit_status (run_cli i) = 0%Z -> parser_test i = false ->
  in_regular i = true /\ out_ok i = true /\ out_is_in i = false /\ has_cmd i = true /\ cmd_regular i = true /\ cmd_exec i = true /\ jobs_ok i = true
  /\ limits_ok i = true /\ in_decodable i = true /\ cmd_runs i = true.
Proof.
  intros H Hp. apply exit_status_lemma in H. destruct H as [H | H].
  - apply run_cli_completed in H. destruct H as (? & ? & ? & ? & ? & ? & ? & ? & ? & ? & ? & ? & ?). repeat split; assumption.
  - unfold run_cli in H. rewrite Hp in H.
    destruct (in_regular i), (out_ok i), (out_is_in i), (has_cmd i), (cmd_regular i), (cmd_exec i); cbn in H; try discriminate H;
      destruct (has_cc i), (cc_regular i), (cc_exec i), (jobs_ok i), (limits_ok i), (in_decodable i), (cmd_runs i), (golden_has_match i), (cc_runs i), (interrupted i), (internal i);
      cbn in H; discriminate H.
Qed.

Lemma usage_one_line i e : run_cli i = Usage e -> exit_status (run_cli i) = 1%Z /\ diagnostic_lines (run_cli i) = 1.
Proof. intros ->. split; reflexivity. Qed.

Lemma match_missing_status i : run_cli i = MatchStringMissing -> exit_status (run_cli i) = 1%Z.
Proof. intros ->. reflexivity. Qed.

Section Isolate.
  Variables node simp : Type.
  Notation mutator := (mutator node simp).

  (* an exception in one mutator removes only that mutator's candidates for that node *)
  Lemma mutator_isolated_lemma (ms1 ms2 : list mutator) (m : mutator) (n : node) k :
    (m_filter _ _ m n = Exn k \/ m_mutations _ _ m n = Exn k) ->
    mutate_node _ _ (ms1 ++ m :: ms2) n = mutate_node _ _ (ms1 ++ ms2) n.
  Proof.
    intros H. unfold mutate_node. rewrite !flat_map_app. cbn [flat_map].
    assert (E : proposals _ _ m n = []).
    { unfold proposals. destruct H as [-> | H]; [reflexivity|].
      destruct (m_filter _ _ m n) as [[|]|]; try reflexivity. rewrite H. reflexivity. }
    rewrite E. reflexivity.
  Qed.

  (* and the candidates of the other nodes are untouched *)
  Lemma mutator_isolated_nodes (ms : list mutator) (ns1 ns2 : list node) (n : node) :
    mutate_nodes _ _ ms (ns1 ++ n :: ns2) =
    mutate_nodes _ _ ms ns1 ++ mutate_node _ _ ms n ++ mutate_nodes _ _ ms ns2.
  Proof. unfold mutate_nodes. rewrite flat_map_app. reflexivity. Qed.

  (* generation never raises: mutate_node is a total function into lists *)
  Lemma mutate_total (ms : list mutator) (n : node) : exists l, mutate_node _ _ ms n = l.
  Proof. eexists; reflexivity. Qed.
End Isolate.
