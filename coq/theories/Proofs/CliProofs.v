From DD Require Import Model.Cli.

Lemma exit_status_lemma o : exit_status o = 0%Z <-> (o = Completed \/ o = ParserTest).
Proof. destruct o; cbn; split; intros H; try (destruct H; discriminate); try discriminate; auto. Qed.

Lemma run_cli_completed i :
  run_cli i = Completed <->
  (in_regular i = true /\ parser_test i = false /\ has_cmd i = true /\ cmd_regular i = true /\ cmd_exec i = true
   /\ golden_has_match i = true /\ interrupted i = false /\ internal i = None).
Proof.
  unfold run_cli. destruct i as [a b c d e f g h]; cbn.
  destruct a, b, c, d, e, f, g, h; cbn; split; intros H; try discriminate; try (repeat split; reflexivity);
    try (destruct H as [? [? [? [? [? [? [? ?]]]]]]]; discriminate); auto.
Qed.

Lemma usage_one_line i e : run_cli i = Usage e -> exit_status (run_cli i) = 1%Z /\ diagnostic_lines (run_cli i) = 1.
Proof. intros ->. split; reflexivity. Qed.

Lemma match_missing_status i : run_cli i = MatchStringMissing -> exit_status (run_cli i) = 1%Z.
Proof. intros ->. reflexivity. Qed.

Section Isolate.
  Variables node simp : Type.
  Notation mutator := (mutator node simp).

  (* an exception in one mutator removes only that mutator's candidates for that node *)
  Lemma mutator_isolated_lemma (ms1 ms2 : list mutator) (m : mutator) (n : node) k :
    (m_filter _ _ m n = Exn k \/ m_mutations _ _ m n = Exn k) ->
    mutate_node _ _ (ms1 ++ m :: ms2) n = mutate_node _ _ (ms1 ++ ms2) n.
  Proof.
    intros H. unfold mutate_node. rewrite !flat_map_app. cbn [flat_map].
    assert (E : proposals _ _ m n = []).
    { unfold proposals. destruct H as [-> | H]; [reflexivity|].
      destruct (m_filter _ _ m n) as [[|]|]; try reflexivity. rewrite H. reflexivity. }
    rewrite E. reflexivity.
  Qed.

  (* and the candidates of the other nodes are untouched *)
  Lemma mutator_isolated_nodes (ms : list mutator) (ns1 ns2 : list node) (n : node) :
    mutate_nodes _ _ ms (ns1 ++ n :: ns2) =
    mutate_nodes _ _ ms ns1 ++ mutate_node _ _ ms n ++ mutate_nodes _ _ ms ns2.
  Proof. unfold mutate_nodes. rewrite flat_map_app. reflexivity. Qed.

  (* generation never raises: mutate_node is a total function into lists *)
  Lemma mutate_total (ms : list mutator) (n : node) : exists l, mutate_node _ _ ms n = l.
  Proof. eexists; reflexivity. Qed.
End Isolate.
