(* C13's premise "every identity of the input is at most the counter" follows
   from the shared allocator: whatever processes built the nodes of the input
   (the parser in the main process, substitute in the workers), if their
   identities were issued by the shared counter, reduplicate in the main process
   yields pairwise distinct identities. *)
From DD Require Import Model.Alloc Model.Redup Proofs.Alloc.AllocProofs Proofs.Redup.RedupProofs.
From Coq Require Import Lia.
Local Open Scope Z_scope.

Lemma redup_nodup_shared_proof hstr htup l c evs :
  (forall i, In i (ids_l l) -> i <= c \/ In i (issued c evs)) ->
  NoDup (ids_l (fst (reduplicate hstr htup l (final c evs)))).
Proof.
  intro H. apply redup_nodup_proof. intros i Hi.
  destruct (H i Hi) as [Hle | Hin].
  - rewrite final_eq. lia.
  - apply issued_range in Hin. lia.
Qed.
