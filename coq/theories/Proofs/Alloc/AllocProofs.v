(* The shared allocator hands out the identities c+1 .. c+n, one per allocation,
   whichever processes allocate; so every identity ever issued is at most the
   current counter in every process, which is the premise of C13's theorems
   about reduplicate.  Per-process counters do not have the property. *)
From DD Require Import Model.Alloc.
From Coq Require Import Lia FinFun.
Local Open Scope Z_scope.

Lemma run_shared_cons c p r :
  run_shared c (p :: r) = ((p, c + 1) :: fst (run_shared (c + 1) r), snd (run_shared (c + 1) r)).
Proof. cbn [run_shared]. destruct (run_shared (c + 1) r) as [l c']. reflexivity. Qed.

Lemma final_eq c evs : final c evs = c + Z.of_nat (length evs).
Proof.
  unfold final. revert c. induction evs as [|p r IH]; intro c.
  - cbn. lia.
  - rewrite run_shared_cons. cbn [snd length]. rewrite IH. lia.
Qed.

Lemma issued_eq c evs : issued c evs = map (fun k => c + 1 + Z.of_nat k) (seq 0 (length evs)).
Proof.
  unfold issued. revert c. induction evs as [|p r IH]; intro c; [reflexivity|].
  rewrite run_shared_cons. cbn [fst map length seq snd]. f_equal; [lia|].
  rewrite IH, <- seq_shift, map_map. apply map_ext. intro k. lia.
Qed.

Lemma issued_range c evs i : In i (issued c evs) <-> c < i <= final c evs.
Proof.
  rewrite issued_eq, final_eq, in_map_iff. split.
  - intros (k & <- & Hk). apply in_seq in Hk. lia.
  - intro H. exists (Z.to_nat (i - c - 1)). split; [lia|]. apply in_seq. lia.
Qed.

Lemma issued_nodup c evs : NoDup (issued c evs).
Proof.
  rewrite issued_eq. apply Injective_map_NoDup; [|apply seq_NoDup].
  intros a b H. lia.
Qed.

(* an identity issued before a point of the history is at most the counter at that point *)
Lemma issued_prefix_le c evs1 evs2 i :
  In i (issued c evs1) -> i <= final c evs1 /\ In i (issued c (evs1 ++ evs2)).
Proof.
  intro H. split; [apply issued_range in H; lia|].
  apply issued_range in H. apply issued_range. rewrite final_eq in *. rewrite app_length. lia.
Qed.

(* a later allocation never returns an identity issued earlier, by whichever process *)
Lemma later_fresh c evs1 evs2 i :
  In i (issued (final c evs1) evs2) -> ~ In i (issued c evs1) /\ c < i.
Proof.
  intro H. apply issued_range in H. split; [|pose proof (final_eq c evs1); lia].
  intro H1. apply issued_range in H1. lia.
Qed.

Lemma shared_split c evs1 evs2 :
  issued c (evs1 ++ evs2) = issued c evs1 ++ issued (final c evs1) evs2.
Proof.
  unfold issued, final. revert c. induction evs1 as [|p r IH]; intro c; [reflexivity|].
  rewrite <- app_comm_cons, !run_shared_cons. cbn [fst snd map]. rewrite IH. reflexivity.
Qed.

(* one process alone: the local counter behaves like the shared one *)
Lemma local_single c p n : issued_local c (repeat p n) = issued c (repeat p n).
Proof.
  unfold issued_local, issued.
  assert (G : forall cs c, cs p = c -> map snd (run_local cs (repeat p n)) = map snd (fst (run_shared c (repeat p n)))).
  { induction n as [|n IH]; intros cs c0 Hc; [reflexivity|].
    cbn [repeat]. rewrite run_shared_cons. cbn [run_local map fst snd]. rewrite Hc. f_equal.
    apply IH. rewrite Nat.eqb_refl. reflexivity. }
  apply G. reflexivity.
Qed.

(* two processes: the copies collide at the first allocation of the second process *)
Lemma local_collides c : ~ NoDup (issued_local c [0%nat; 1%nat]).
Proof.
  unfold issued_local. cbn. intro H. inversion H as [|x l Hn _]. apply Hn. left. reflexivity.
Qed.
