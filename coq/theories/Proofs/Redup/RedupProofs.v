(* Proofs about the reduplicate model: shapes, hashes, identity on duplicate-free
   input, distinctness of the identities of the result. *)
From DD Require Import Model.Redup Proofs.Redup.ListAux Proofs.Redup.RedupBase.

Local Open Scope Z_scope.

Section RedupProofs.
  Variable hstr : str -> Z.
  Variable htup : list Z -> Z.
  Notation redup1 := (redup1 hstr htup).
  Notation redup_list := (redup_list hstr htup).
  Notation reduplicate := (reduplicate hstr htup).
  Notation hash_ok := (hash_ok hstr htup).

  Lemma mem_In i s : mem i s = true <-> In i s.
  Proof.
    unfold mem. rewrite existsb_exists. split.
    - intros (x & Hx & E). apply Z.eqb_eq in E. now subst.
    - intro H. exists i. split; [exact H|apply Z.eqb_refl].
  Qed.

  Lemma mem_not_In i s : mem i s = false <-> ~ In i s.
  Proof.
    split; intro H.
    - intro H'. apply mem_In in H'. congruence.
    - destruct (mem i s) eqn:E; [|reflexivity]. apply mem_In in E. contradiction.
  Qed.

  Lemma redup_list_cons x xs st :
    redup_list (x :: xs) st =
    (fst (redup1 x st) :: fst (redup_list xs (snd (redup1 x st))),
     snd (redup_list xs (snd (redup1 x st)))).
  Proof.
    cbn [Redup.redup_list]. destruct (redup1 x st) as [a st1]. cbn [fst snd].
    destruct (redup_list xs st1) as [b st2]. reflexivity.
  Qed.

  Lemma redup_list_app l1 l2 : forall st,
    redup_list (l1 ++ l2) st =
    (fst (redup_list l1 st) ++ fst (redup_list l2 (snd (redup_list l1 st))),
     snd (redup_list l2 (snd (redup_list l1 st)))).
  Proof.
    induction l1 as [|x xs IH]; intro st.
    - cbn [app Redup.redup_list fst snd]. now destruct (redup_list l2 st).
    - cbn [app]. rewrite !redup_list_cons. rewrite IH. cbn [fst snd app]. reflexivity.
  Qed.

  (* ---------------- R1: shapes ---------------- *)

  Lemma redup_list_shape_of l :
    Forall (fun e => forall st, shape (fst (redup1 e st)) = shape e) l ->
    forall st, map shape (fst (redup_list l st)) = map shape l.
  Proof.
    intro HF. induction HF as [|x xs Hx _ IH]; intro st; [reflexivity|].
    rewrite redup_list_cons. cbn [fst map]. now rewrite Hx, IH.
  Qed.

  Lemma redup1_shape e : forall st, shape (fst (redup1 e st)) = shape e.
  Proof.
    induction e as [i s|i h l IH] using node_ind'; intro st.
    - cbn [Redup.redup1]. destruct (mem i (r_ids st)); reflexivity.
    - rewrite redup1_NT. pose proof (redup_list_shape_of l IH st) as HL.
      destruct (redup_list l st) as [cs st']. cbn [fst] in HL.
      destruct (mem i (r_ids st') || negb (nid_same l cs)); [|reflexivity].
      cbn [mk_tuple fst shape]. now rewrite HL.
  Qed.

  Lemma redup_list_shape l : forall st, map shape (fst (redup_list l st)) = map shape l.
  Proof. apply redup_list_shape_of. apply Forall_forall. intros e _. apply redup1_shape. Qed.

  Theorem redup_shape_proof : forall l next,
    map shape (fst (reduplicate l next)) = map shape l.
  Proof.
    intros l next. unfold Redup.reduplicate.
    pose proof (redup_list_shape l (mk_rst [] next)) as H.
    destruct (redup_list l (mk_rst [] next)) as [r st]. exact H.
  Qed.

  (* ---------------- R4: cached hashes ---------------- *)

  Lemma redup_list_hash_of l :
    Forall (fun e => forall st, hash_ok e = true -> hash_ok (fst (redup1 e st)) = true) l ->
    forall st, forallb hash_ok l = true -> forallb hash_ok (fst (redup_list l st)) = true.
  Proof.
    intro HF. induction HF as [|x xs Hx _ IH]; intros st Hok; [reflexivity|].
    rewrite redup_list_cons. cbn [fst forallb] in *.
    apply andb_true_iff in Hok as [H1 H2]. now rewrite Hx, IH.
  Qed.

  Lemma redup1_hash e : forall st, hash_ok e = true -> hash_ok (fst (redup1 e st)) = true.
  Proof.
    induction e as [i s|i h l IH] using node_ind'; intros st Hok.
    - cbn [Redup.redup1]. destruct (mem i (r_ids st)); reflexivity.
    - rewrite redup1_NT. pose proof (redup_list_hash_of l IH st) as HL.
      destruct (redup_list l st) as [cs st']. cbn [fst] in HL.
      destruct (mem i (r_ids st') || negb (nid_same l cs)); [|exact Hok].
      cbn [mk_tuple fst Node.hash_ok]. rewrite Z.eqb_refl. cbn [andb].
      apply HL. cbn [Node.hash_ok] in Hok. now apply andb_true_iff in Hok as [_ H2].
  Qed.

  Theorem redup_hash_ok_proof : forall l next,
    forallb hash_ok l = true -> forallb hash_ok (fst (reduplicate l next)) = true.
  Proof.
    intros l next Hok. unfold Redup.reduplicate.
    assert (H : forallb hash_ok (fst (redup_list l (mk_rst [] next))) = true).
    { apply redup_list_hash_of; [|exact Hok]. apply Forall_forall. intros e _. apply redup1_hash. }
    destruct (redup_list l (mk_rst [] next)) as [r st]. exact H.
  Qed.

  (* ---------------- R3: duplicate-free input is returned as it is ---------------- *)

  Lemma nid_same_refl l : nid_same l l = true.
  Proof.
    unfold nid_same. induction l as [|x xs IH]; [reflexivity|].
    cbn [combine forallb fst snd]. now rewrite Z.eqb_refl, IH.
  Qed.

  Definition keep_post (src : list Z) (st st' : rst) : Prop :=
    r_next st' = r_next st /\
    (forall j, In j (r_ids st') <-> In j src \/ In j (r_ids st)).

  Lemma redup_list_keep_of l :
    Forall (fun e => forall st, NoDup (ids e) -> (forall j, In j (ids e) -> ~ In j (r_ids st)) ->
                     exists st', redup1 e st = (e, st') /\ keep_post (ids e) st st') l ->
    forall st, NoDup (ids_l l) -> (forall j, In j (ids_l l) -> ~ In j (r_ids st)) ->
               exists st', redup_list l st = (l, st') /\ keep_post (ids_l l) st st'.
  Proof.
    intro HF. induction HF as [|x xs Hx _ IH]; intros st HND HD.
    - exists st. split; [reflexivity|]. split; [reflexivity|]. intro j. cbn. tauto.
    - unfold ids_l in HND, HD. cbn [flat_map] in HND, HD.
      apply NoDup_app_inv in HND as (N1 & N2 & N3).
      destruct (Hx st N1) as (st1 & E1 & K1 & K2).
      { intros j Hj. apply HD. apply in_or_app. now left. }
      destruct (IH st1 N2) as (st2 & E2 & K3 & K4).
      { intros j Hj Hin. apply K2 in Hin as [Hin|Hin].
        - exact (N3 j Hin Hj).
        - apply (HD j); [apply in_or_app; now right|exact Hin]. }
      exists st2. cbn [Redup.redup_list]. rewrite E1, E2. split; [reflexivity|].
      split; [congruence|]. intro j. unfold ids_l. cbn [flat_map]. rewrite in_app_iff.
      rewrite K4, K2. unfold ids_l. tauto.
  Qed.

  Lemma redup1_keep e : forall st,
    NoDup (ids e) -> (forall j, In j (ids e) -> ~ In j (r_ids st)) ->
    exists st', redup1 e st = (e, st') /\ keep_post (ids e) st st'.
  Proof.
    induction e as [i s|i h l IH] using node_ind'; intros st HND HD.
    - cbn [Redup.redup1]. assert (Hm : mem i (r_ids st) = false).
      { apply mem_not_In. apply HD. now left. }
      rewrite Hm. eexists. split; [reflexivity|]. split; [reflexivity|].
      intro j. cbn. tauto.
    - rewrite redup1_NT. cbn [ids] in HND, HD. inversion HND as [|i' l' Hi Hl]; subst.
      destruct (redup_list_keep_of l IH st Hl) as (st' & E & K1 & K2).
      { intros j Hj. apply HD. now right. }
      fold (ids_l l) in *. rewrite E.
      assert (Hm : mem i (r_ids st') = false).
      { apply mem_not_In. intro Hin. apply K2 in Hin as [Hin|Hin]; [now apply Hi|].
        apply (HD i); [now left|exact Hin]. }
      rewrite Hm, nid_same_refl. cbn [orb negb].
      eexists. split; [reflexivity|]. split; [exact K1|].
      intro j. cbn [r_ids ids In]. fold (ids_l l). rewrite K2. tauto.
  Qed.

  Lemma redup_list_keep l : forall st,
    NoDup (ids_l l) -> (forall j, In j (ids_l l) -> ~ In j (r_ids st)) ->
    exists st', redup_list l st = (l, st') /\ keep_post (ids_l l) st st'.
  Proof. apply redup_list_keep_of. apply Forall_forall. intros e _. apply redup1_keep. Qed.

  Theorem redup_keeps_proof : forall l next,
    NoDup (ids_l l) ->
    fst (reduplicate l next) = l /\ snd (reduplicate l next) = next.
  Proof.
    intros l next HND. unfold Redup.reduplicate.
    destruct (redup_list_keep l (mk_rst [] next) HND) as (st' & E & K1 & _).
    { intros j _ []. }
    rewrite E. cbn [fst snd]. split; [reflexivity|exact K1].
  Qed.

  (* ---------------- R2: identities of the result are distinct ---------------- *)

  Section Inv.
    Variable N0 : Z.

    (* an identity of the output is either kept (from the input, recorded in
       the set, not seen before) or fresh (allocated during this call) *)
    Definition fk (src : list Z) (st st' : rst) (j : Z) : Prop :=
      (j <= N0 /\ In j src /\ ~ In j (r_ids st) /\ In j (r_ids st'))
      \/ (r_next st < j <= r_next st').

    Definition rpost (src out : list Z) (st st' : rst) : Prop :=
      r_next st <= r_next st' /\
      incl (r_ids st) (r_ids st') /\
      NoDup out /\
      (forall j, In j out -> fk src st st' j) /\
      (forall j, In j (r_ids st') -> In j (r_ids st) \/ In j src \/ N0 < j).

    Definition inv1 (e : node) : Prop :=
      forall st, (forall j, In j (ids e) -> j <= N0) -> N0 <= r_next st ->
        rpost (ids e) (ids (fst (redup1 e st))) st (snd (redup1 e st)) /\
        (nid (fst (redup1 e st)) = nid e -> fst (redup1 e st) = e).

    Definition invl (l : list node) : Prop :=
      forall st, (forall j, In j (ids_l l) -> j <= N0) -> N0 <= r_next st ->
        rpost (ids_l l) (ids_l (fst (redup_list l st))) st (snd (redup_list l st)) /\
        length (fst (redup_list l st)) = length l /\
        (nid_same l (fst (redup_list l st)) = true -> fst (redup_list l st) = l).

    Lemma invl_of l : Forall inv1 l -> invl l.
    Proof.
      intro HF. induction HF as [|x xs Hx _ IH]; intros st HB HN.
      - cbn [Redup.redup_list fst snd ids_l flat_map]. split; [|split; [reflexivity|reflexivity]].
        split; [lia|]. split; [apply incl_refl|]. split; [constructor|].
        split; [intros j []|]. intros j Hj. now left.
      - rewrite redup_list_cons. cbn [fst snd].
        assert (HBx : forall j, In j (ids x) -> j <= N0).
        { intros j Hj. apply HB. unfold ids_l. cbn [flat_map]. apply in_or_app. now left. }
        assert (HBxs : forall j, In j (ids_l xs) -> j <= N0).
        { intros j Hj. apply HB. unfold ids_l. cbn [flat_map]. apply in_or_app. now right. }
        destruct (Hx st HBx HN) as ((A1 & A2 & A3 & A4 & A5) & A6).
        set (a := fst (redup1 x st)) in *. set (st1 := snd (redup1 x st)) in *.
        assert (HN1 : N0 <= r_next st1) by lia.
        destruct (IH st1 HBxs HN1) as ((B1 & B2 & B3 & B4 & B5) & B6 & B7).
        set (b := fst (redup_list xs st1)) in *. set (st2 := snd (redup_list xs st1)) in *.
        split; [|split].
        + unfold ids_l. cbn [flat_map]. fold (ids_l b). fold (ids_l xs).
          split; [lia|]. split; [eapply incl_tran; eassumption|].
          split; [|split].
          * apply NoDup_app_intro; [exact A3|exact B3|].
            intros j Ha Hb. destruct (A4 j Ha) as [(K1 & K2 & K3 & K4)|F1];
              destruct (B4 j Hb) as [(L1 & L2 & L3 & L4)|F2]; try lia.
            now apply L3.
          * intros j Hj. apply in_app_or in Hj as [Hj|Hj].
            -- destruct (A4 j Hj) as [(K1 & K2 & K3 & K4)|F1].
               ++ left. split; [exact K1|]. split; [apply in_or_app; now left|].
                  split; [exact K3|]. now apply B2.
               ++ right. lia.
            -- destruct (B4 j Hj) as [(L1 & L2 & L3 & L4)|F2].
               ++ left. split; [exact L1|]. split; [apply in_or_app; now right|].
                  split; [|exact L4]. intro Hin. apply L3. now apply A2.
               ++ right. lia.
          * intros j Hj. destruct (B5 j Hj) as [Hin|[Hin|Hlt]].
            -- destruct (A5 j Hin) as [Hin'|[Hin'|Hlt]].
               ++ now left.
               ++ right. left. apply in_or_app. now left.
               ++ right. now right.
            -- right. left. apply in_or_app. now right.
            -- right. now right.
        + cbn [length]. now rewrite B6.
        + unfold nid_same. cbn [combine forallb fst snd]. intro Hs.
          apply andb_true_iff in Hs as [Hs1 Hs2]. apply Z.eqb_eq in Hs1.
          rewrite (A6 (eq_sym Hs1)). now rewrite (B7 Hs2).
    Qed.

    Lemma inv1_all e : inv1 e.
    Proof.
      induction e as [i s|i h l IH] using node_ind'; intros st HB HN.
      - cbn [Redup.redup1]. destruct (mem i (r_ids st)) eqn:Hm.
        + cbn [mk_leaf fst snd ids r_ids r_next nid]. split.
          * unfold rpost, fk; cbn [r_ids r_next]. split; [lia|]. split; [apply incl_refl|]. split.
            { constructor; [intros []|constructor]. }
            split.
            { intros j [<-|[]]. right. lia. }
            intros j Hj. now left.
          * intro E. exfalso. assert (i <= N0) by (apply HB; now left). lia.
        + apply mem_not_In in Hm. cbn [fst snd ids r_ids r_next nid]. split; [|reflexivity].
          unfold rpost, fk; cbn [r_ids r_next]. split; [lia|]. split; [apply incl_tl, incl_refl|]. split.
          { constructor; [intros []|constructor]. }
          split.
          { intros j [<-|[]]. left. split; [apply HB; now left|]. split; [now left|].
            split; [exact Hm|now left]. }
          intros j [<-|Hj]; [right; left; now left|now left].
      - rewrite redup1_NT.
        assert (HBl : forall j, In j (ids_l l) -> j <= N0).
        { intros j Hj. apply HB. cbn [ids]. right. exact Hj. }
        assert (Hi : i <= N0) by (apply HB; now left).
        destruct (invl_of l IH st HBl HN) as ((B1 & B2 & B3 & B4 & B5) & B6 & B7).
        destruct (redup_list l st) as [cs st']. cbn [fst snd] in *.
        destruct (mem i (r_ids st')) eqn:Hm; cbn [orb].
        + (* rebuilt: identity seen before *)
          cbn [mk_tuple fst snd ids r_ids r_next nid]. fold (ids_l cs). fold (ids_l l). split.
          * unfold rpost, fk; cbn [r_ids r_next]. split; [lia|]. split; [apply incl_tl; exact B2|]. split; [|split].
            -- constructor; [|exact B3]. intro Hin.
               destruct (B4 _ Hin) as [(K1 & _)|F]; lia.
            -- intros j [<-|Hj]; [right; lia|].
               destruct (B4 j Hj) as [(K1 & K2 & K3 & K4)|F].
               ++ left. split; [exact K1|]. split; [now right|]. split; [exact K3|now right].
               ++ right. lia.
            -- intros j [<-|Hj]; [right; right; lia|].
               destruct (B5 j Hj) as [H1|[H1|H1]]; [now left|right; left; now right|right; now right].
          * intro E. exfalso. lia.
        + destruct (nid_same l cs) eqn:Hs; cbn [negb].
          * (* kept *)
            apply mem_not_In in Hm. rewrite (B7 eq_refl) in *. clear B7.
            cbn [fst snd ids r_ids r_next nid]. fold (ids_l l). split; [|reflexivity].
            unfold rpost, fk; cbn [r_ids r_next]. split; [lia|]. split; [apply incl_tl; exact B2|]. split; [|split].
            -- constructor; [|exact B3]. intro Hin.
               destruct (B4 _ Hin) as [(K1 & K2 & K3 & K4)|F]; [now apply Hm|lia].
            -- intros j [<-|Hj].
               ++ left. split; [exact Hi|]. split; [now left|].
                  split; [|now left]. intro Hin. apply Hm. now apply B2.
               ++ destruct (B4 j Hj) as [(K1 & K2 & K3 & K4)|F].
                  ** left. split; [exact K1|]. split; [now right|]. split; [exact K3|now right].
                  ** right. lia.
            -- intros j [<-|Hj]; [right; left; now left|].
               destruct (B5 j Hj) as [H1|[H1|H1]]; [now left|right; left; now right|right; now right].
          * (* rebuilt: a child was replaced *)
            cbn [mk_tuple fst snd ids r_ids r_next nid]. fold (ids_l cs). fold (ids_l l). split.
            -- unfold rpost, fk; cbn [r_ids r_next]. split; [lia|]. split; [apply incl_tl; exact B2|]. split; [|split].
               ++ constructor; [|exact B3]. intro Hin.
                  destruct (B4 _ Hin) as [(K1 & _)|F]; lia.
               ++ intros j [<-|Hj]; [right; lia|].
                  destruct (B4 j Hj) as [(K1 & K2 & K3 & K4)|F].
                  ** left. split; [exact K1|]. split; [now right|]. split; [exact K3|now right].
                  ** right. lia.
               ++ intros j [<-|Hj]; [right; right; lia|].
                  destruct (B5 j Hj) as [H1|[H1|H1]]; [now left|right; left; now right|right; now right].
            -- intro E. exfalso. lia.
    Qed.

    Lemma invl_all l : invl l.
    Proof. apply invl_of. apply Forall_forall. intros e _. apply inv1_all. Qed.
  End Inv.

  Theorem redup_nodup_proof : forall l next,
    (forall i, In i (ids_l l) -> i <= next) ->
    NoDup (ids_l (fst (reduplicate l next))).
  Proof.
    intros l next HB. unfold Redup.reduplicate.
    destruct (invl_all next l (mk_rst [] next) HB) as ((_ & _ & H & _) & _).
    { cbn [r_next]. lia. }
    destruct (redup_list l (mk_rst [] next)) as [r st]. exact H.
  Qed.

  (* ---------------- R5: an element whose identities are unique is kept ---------------- *)

  Theorem redup_keeps_unique_proof : forall pre x post next,
    (forall i, In i (ids_l (pre ++ x :: post)) -> i <= next) ->
    NoDup (ids x) ->
    (forall i, In i (ids x) -> ~ In i (ids_l pre)) ->
    exists pre' post',
      fst (reduplicate (pre ++ x :: post) next) = pre' ++ x :: post' /\
      length pre' = length pre.
  Proof.
    intros pre x post next HB HND HD. unfold Redup.reduplicate.
    rewrite redup_list_app. rewrite redup_list_cons.
    assert (HBpre : forall j, In j (ids_l pre) -> j <= next).
    { intros j Hj. apply HB. unfold ids_l. rewrite flat_map_app. apply in_or_app. now left. }
    assert (HBx : forall j, In j (ids x) -> j <= next).
    { intros j Hj. apply HB. unfold ids_l. rewrite flat_map_app. apply in_or_app. right.
      cbn [flat_map]. apply in_or_app. now left. }
    destruct (invl_all next pre (mk_rst [] next) HBpre) as ((_ & _ & _ & _ & B5) & B6 & _).
    { cbn [r_next]. lia. }
    set (st1 := snd (redup_list pre (mk_rst [] next))) in *.
    destruct (redup1_keep x st1 HND) as (st2 & E & _).
    { intros j Hj Hin. destruct (B5 j Hin) as [[]|[H1|H1]].
      - exact (HD j Hj H1).
      - specialize (HBx j Hj). lia. }
    rewrite E. cbn [fst snd].
    exists (fst (redup_list pre (mk_rst [] next))), (fst (redup_list post st2)).
    split; [reflexivity|exact B6].
  Qed.

  Theorem redup_keeps_unique_count_proof : forall pre x post next,
    (forall i, In i (ids_l (pre ++ x :: post)) -> i <= next) ->
    (forall i, In i (ids x) -> count_occ Z.eq_dec (ids_l (pre ++ x :: post)) i = 1%nat) ->
    exists pre' post',
      fst (reduplicate (pre ++ x :: post) next) = pre' ++ x :: post' /\
      length pre' = length pre.
  Proof.
    intros pre x post next HB HC.
    assert (HC' : forall i, In i (ids x) ->
      (count_occ Z.eq_dec (ids_l pre) i + (count_occ Z.eq_dec (ids x) i +
        count_occ Z.eq_dec (ids_l post) i) = 1)%nat).
    { intros i Hi. specialize (HC i Hi). unfold ids_l in HC. rewrite flat_map_app in HC.
      cbn [flat_map] in HC. rewrite !count_occ_app in HC. exact HC. }
    apply redup_keeps_unique_proof; [exact HB| |].
    - apply (NoDup_count_occ' Z.eq_dec). intros i Hi. specialize (HC' i Hi).
      apply (count_occ_In Z.eq_dec) in Hi. lia.
    - intros i Hi Hin. specialize (HC' i Hi).
      apply (count_occ_In Z.eq_dec) in Hi. apply (count_occ_In Z.eq_dec) in Hin.
      unfold ids_l in *. lia.
  Qed.
End RedupProofs.
