(* Unfolding lemmas and simple facts for the reduplicate model. *)
From DD Require Import Model.Redup.

Section RedupBase.
  Variable hstr : str -> Z.
  Variable htup : list Z -> Z.
  Notation redup1 := (redup1 hstr htup).
  Notation redup_list := (redup_list hstr htup).
  Notation reduplicate := (reduplicate hstr htup).

  Definition nid_same (l cs : list node) : bool :=
    forallb (fun p => Z.eqb (nid (fst p)) (nid (snd p))) (combine l cs).

  Lemma redup1_NT i h l st :
    redup1 (NT i h l) st =
    (let '(cs, st') := redup_list l st in
     if mem i (r_ids st') || negb (nid_same l cs) then
       let '(n, nx) := mk_tuple hstr htup (r_next st') cs in
       (n, mk_rst (nid n :: r_ids st') nx)
     else (NT i h l, mk_rst (i :: r_ids st') (r_next st'))).
  Proof.
    cbn [Redup.redup1].
    assert (E : forall l st,
      (fix go (l : list node) (st : rst) : list node * rst :=
             match l with
             | [] => ([], st)
             | x :: xs => let '(a, st1) := redup1 x st in
                          let '(b, st2) := go xs st1 in (a :: b, st2)
             end) l st = redup_list l st).
    { clear. induction l as [|x xs IH]; intro st; [reflexivity|].
      cbn [Redup.redup_list]. destruct (redup1 x st) as [a st1]. rewrite IH. reflexivity. }
    rewrite E. reflexivity.
  Qed.
End RedupBase.
