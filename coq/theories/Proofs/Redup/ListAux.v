(* List facts missing from the 8.16 standard library (NoDup over append). *)
From Coq Require Import List ZArith Lia.
Import ListNotations.

Lemma NoDup_app_intro {A} (l1 l2 : list A) :
  NoDup l1 -> NoDup l2 -> (forall x, In x l1 -> ~ In x l2) -> NoDup (l1 ++ l2).
Proof.
  induction l1 as [|a l1 IH]; intros H1 H2 HD; [exact H2|].
  cbn [app]. inversion H1 as [|a' l' Ha Hl]; subst. constructor.
  - intro Hin. apply in_app_or in Hin as [Hin|Hin]; [now apply Ha|].
    apply (HD a); [now left|exact Hin].
  - apply IH; [exact Hl|exact H2|]. intros x Hx. apply HD. now right.
Qed.

Lemma NoDup_app_inv {A} (l1 l2 : list A) :
  NoDup (l1 ++ l2) -> NoDup l1 /\ NoDup l2 /\ (forall x, In x l1 -> ~ In x l2).
Proof.
  induction l1 as [|a l1 IH]; intro H.
  - split; [constructor|]. split; [exact H|]. intros x [].
  - cbn [app] in H. inversion H as [|a' l' Ha Hl]; subst.
    destruct (IH Hl) as (I1 & I2 & I3). split; [|split].
    + constructor; [|exact I1]. intro Hin. apply Ha. apply in_or_app. now left.
    + exact I2.
    + intros x [Hx|Hx]; [subst x|now apply I3].
      intro Hin. apply Ha. apply in_or_app. now right.
Qed.

Lemma flat_map_map {A B C} (f : B -> list C) (g : A -> B) (l : list A) :
  flat_map f (map g l) = flat_map (fun x => f (g x)) l.
Proof. induction l as [|x l IH]; [reflexivity|]. cbn [map flat_map]. now rewrite IH. Qed.
