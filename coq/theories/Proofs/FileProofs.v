From DD Require Import Model.FileProto.

Definition text (chunks : list str) : str := concat chunks.

Lemma run_writes s cs :
  run_ops s (map OWriteTmp cs) = mk_fs (f_out s) (app_opt (f_tmp s) (concat cs)).
Proof.
  revert s; induction cs as [|c cs IH]; intros [o t]; cbn [map run_ops fold_left concat].
  - destruct t; cbn [app_opt f_out f_tmp]; rewrite ?app_nil_r; reflexivity.
  - unfold run_ops in IH. rewrite IH. cbn [exec_op f_out f_tmp].
    destruct t; cbn [app_opt f_out f_tmp]; rewrite ?app_assoc; reflexivity.
Qed.

Lemma run_ops_app s a b : run_ops s (a ++ b) = run_ops (run_ops s a) b.
Proof. unfold run_ops. apply fold_left_app. Qed.

(* a complete rewrite installs exactly the new text and leaves no temporary file *)
Lemma rewrite_complete s cs : run_ops s (rewrite_ops cs) = mk_fs (Some (text cs)) None.
Proof.
  unfold rewrite_ops. cbn [run_ops fold_left]. fold (run_ops (exec_op s OOpenTmp) (map OWriteTmp cs ++ [OCloseTmp; ORename])).
  rewrite run_ops_app, run_writes. cbn. reflexivity.
Qed.

(* prefixes of the write phase never touch the output path *)
Lemma prefix_writes_out s cs k :
  f_out (run_ops s (firstn k (map OWriteTmp cs))) = f_out s.
Proof.
  rewrite firstn_map. rewrite run_writes. reflexivity.
Qed.

(* at every prefix of one rewrite the output path holds the previous content, or
   (only once every operation has been executed) the complete new text *)
Lemma rewrite_prefix s cs k :
  let s' := run_ops s (firstn k (rewrite_ops cs)) in
  (k < length (rewrite_ops cs) -> f_out s' = f_out s) /\
  (length (rewrite_ops cs) <= k -> f_out s' = Some (text cs)).
Proof.
  cbn zeta. split.
  - intros Hk. unfold rewrite_ops in *. destruct k as [|k]; [reflexivity|].
    cbn [firstn run_ops fold_left]. fold (run_ops (exec_op s OOpenTmp) (firstn k (map OWriteTmp cs ++ [OCloseTmp; ORename]))).
    cbn [length] in Hk. rewrite app_length, map_length in Hk. cbn [length] in Hk.
    rewrite firstn_app, run_ops_app, map_length.
    assert (E : f_out (run_ops (exec_op s OOpenTmp) (firstn k (map OWriteTmp cs))) = f_out s)
      by (rewrite prefix_writes_out; reflexivity).
    destruct (k - length cs) as [|[|j]] eqn:Ej.
    + cbn [firstn run_ops fold_left]. exact E.
    + cbn [firstn run_ops fold_left exec_op]. exact E.
    + exfalso. lia.
  - intros Hk. rewrite firstn_all2 by exact Hk. rewrite rewrite_complete. reflexivity.
Qed.

(* a run of several rewrites: after any prefix of the whole operation sequence
   the output path holds nothing (before the first rewrite completed) or the
   complete text of one of the accepted inputs *)
Lemma crash_safe_lemma ws : forall s k,
  let s' := run_ops s (firstn k (run_rewrites ws)) in
  f_out s' = f_out s \/ exists cs, In cs ws /\ f_out s' = Some (text cs).
Proof.
  induction ws as [|cs ws IH]; intros s k; cbn zeta.
  - cbn [run_rewrites flat_map]. rewrite firstn_nil. left; reflexivity.
  - unfold run_rewrites. cbn [flat_map]. fold (run_rewrites ws).
    rewrite firstn_app, run_ops_app.
    destruct (Nat.lt_ge_cases k (length (rewrite_ops cs))) as [Hlt|Hge].
    + replace (k - length (rewrite_ops cs)) with 0 by lia. cbn [firstn run_ops fold_left].
      left. apply (proj1 (rewrite_prefix s cs k)). exact Hlt.
    + rewrite firstn_all2 by exact Hge. rewrite rewrite_complete.
      destruct (IH (mk_fs (Some (text cs)) None) (k - length (rewrite_ops cs))) as [E|[cs' [Hin E]]].
      * right. exists cs. split; [left; reflexivity|]. cbn zeta in E. rewrite E. reflexivity.
      * right. exists cs'. split; [right; exact Hin|exact E].
Qed.

(* after the first completed rewrite the file is never absent or partial again *)
Lemma never_empty_again ws s k cs0 :
  f_out s = Some (text cs0) ->
  exists cs, (cs = cs0 \/ In cs ws) /\ f_out (run_ops s (firstn k (run_rewrites ws))) = Some (text cs).
Proof.
  intros H. destruct (crash_safe_lemma ws s k) as [E|[cs [Hin E]]].
  - exists cs0. split; [left; reflexivity|]. cbn zeta in E. rewrite E. exact H.
  - exists cs. split; [right; exact Hin|exact E].
Qed.

(* an interrupt at any operation boundary: previous content kept (or the new one
   complete), and the temporary file is gone *)
Lemma interrupt_safe s cs k :
  let s' := run_ops s (interrupted_rewrite cs k) in
  f_tmp s' = None /\ (f_out s' = f_out s \/ f_out s' = Some (text cs)).
Proof.
  cbn zeta. unfold interrupted_rewrite.
  destruct (Nat.ltb_spec k (length (rewrite_ops cs))) as [Hlt|Hge].
  - rewrite run_ops_app. cbn [run_ops fold_left exec_op f_out f_tmp]. split; [reflexivity|].
    left. apply (proj1 (rewrite_prefix s cs k)). exact Hlt.
  - rewrite rewrite_complete. split; [reflexivity|right; reflexivity].
Qed.

(* the protocol before the repair: some prefix leaves a truncated file *)
Lemma old_protocol_unsafe :
  exists (prev : str) (cs : list str) (k : nat),
    let s' := run_ops (mk_fs (Some prev) None) (firstn k (old_rewrite_ops cs)) in
    f_out s' <> Some prev /\ f_out s' <> Some (text cs).
Proof.
  exists [97%N], [[98%N]; [99%N]], 2. cbn. split; discriminate.
Qed.
