(* The invariant of the ddmin checking loop model, its preservation by every
   step, and the safety theorems D1 (no stale adoption), D2 (write chain,
   tested before written, faithful verdict log), D3 (file is last write),
   D4 (at most nsubsets adoptions). *)
From DD Require Import Proofs.Ddmin.DdminBase.

Section Inv.
  Variable input : Type.
  Variable cands : nat -> input -> list input.
  Variable accept : input -> bool.
  Variable nsubsets : nat.

  Local Notation dst := (dst input).
  Local Notation dtask := (dtask input).
  Local Notation dresult := (dresult input).
  Local Notation dexec := (dexec input cands accept nsubsets).
  Local Notation destep := (destep cands accept nsubsets).
  Local Notation dstep := (dstep input cands accept nsubsets).
  Local Notation dreachable := (dreachable input cands accept nsubsets).

  (* D2 vocabulary *)
  Definition derives (w w' : input) : Prop :=
    exists k, In w' (cands k w) /\ accept w' = true.

  Fixpoint chain_from (w : input) (l : list input) : Prop :=
    match l with
    | [] => True
    | x :: r => derives w x /\ chain_from x r
    end.

  Lemma dchain_snoc : forall l w x,
    chain_from w l -> derives (last l w) x -> chain_from w (l ++ [x]).
  Proof.
    intros l; induction l as [ | a l IH ]; intros w x Hc Hd.
    - simpl in *. split; [ exact Hd | exact I ].
    - destruct Hc as [ Hc1 Hc2 ]. split; [ exact Hc1 | ].
      apply IH; [ exact Hc2 | ].
      destruct l as [ | b l ]; [ exact Hd | ].
      rewrite (dlast_cons_indep l b a w). exact Hd.
  Qed.

  (* a task carries the candidates of its subset for its base; its subset
     has already been passed by the generator *)
  Definition dtask_ok (s : dst) (t : dtask) : Prop :=
    d_cands t = cands (d_id t) (d_base t) /\ d_id t < dindex s.

  (* a successful result carries the first accepted candidate of its subset
     for its base, and the verdict is in the log *)
  Definition dres_ok (s : dst) (r : dresult) : Prop :=
    r_id r < dindex s /\
    forall c, r_succ r = Some c ->
      first_accepted accept (cands (r_id r) (r_base r)) = Some c /\ In (c, true) (dchecked s).

  Record DInv (i : input) (s : dst) : Prop := {
    dinv_stop : dstopped s = dskip s;
    dinv_abort : dabort s = dskip s;
    dinv_start_none : dskip s = false -> dstart s = None;
    dinv_start_some : dskip s = true -> exists k, dstart s = Some k;
    dinv_index : dindex s <= nsubsets;
    dinv_pend : forall t, In t (dpending s) -> dtask_ok s t;
    dinv_res : forall r, In r (dresults s) -> dres_ok s r;
    (* before the first adoption of a round nothing is stale *)
    dinv_pbase : dskip s = false -> forall t, In t (dpending s) -> d_base t = dcur s;
    dinv_rbase : dskip s = false -> forall r, In r (dresults s) -> r_base r = dcur s;
    (* the number of adoptions is a lower bound for every subset index that
       can still be adopted in this round *)
    dinv_lowi : dskip s = false -> length (dwrites s) <= dindex s;
    dinv_lowp : dskip s = false -> forall t, In t (dpending s) -> length (dwrites s) <= d_id t;
    dinv_lowr : dskip s = false -> forall r, In r (dresults s) -> length (dwrites s) <= r_id r;
    dinv_startk : forall k, dstart s = Some k -> length (dwrites s) <= k /\ k <= dindex s;
    dinv_last : dcur s = hd i (dwrites s);
    dinv_chain : chain_from i (rev (dwrites s));
    dinv_wchk : forall w, In w (dwrites s) -> In (w, true) (dchecked s);
    dinv_done : ddone s = true ->
                dskip s = false /\ dpending s = [] /\ dresults s = [] /\ dindex s = nsubsets
  }.

  Lemma DInv_init : forall i, DInv i (dinit i).
  Proof.
    intros i. constructor; unfold dinit; dprj; simpl; try tauto; try lia;
      try (intros; discriminate); try reflexivity.
  Qed.

  Section Pres.
    Variable i : input.
    Variables (s : dst) (a : daction) (s' : dst).
    Hypothesis HI : DInv i s.
    Hypothesis Hs : destep s a s'.

    Lemma dpres_stop : dstopped s' = dskip s'.
    Proof.
      pose proof (dinv_stop _ _ HI) as H.
      dstep_cases Hs; dprj; try exact H; try reflexivity. congruence.
    Qed.

    Lemma dpres_abort : dabort s' = dskip s'.
    Proof.
      pose proof (dinv_abort _ _ HI) as H.
      dstep_cases Hs; dprj; try exact H; try reflexivity; congruence.
    Qed.

    Lemma dpres_start_none : dskip s' = false -> dstart s' = None.
    Proof.
      pose proof (dinv_start_none _ _ HI) as H.
      dstep_cases Hs; dprj; try exact H; try (intros; discriminate); try (intros; reflexivity).
    Qed.

    Lemma dpres_start_some : dskip s' = true -> exists k0, dstart s' = Some k0.
    Proof.
      pose proof (dinv_start_some _ _ HI) as H.
      dstep_cases Hs; dprj; try exact H; try (intros; discriminate).
      - intros _. exact (H Hsk).
      - intros _. eexists; reflexivity.
    Qed.

    Lemma dpres_index : dindex s' <= nsubsets.
    Proof.
      pose proof (dinv_index _ _ HI) as H.
      dstep_cases Hs; dprj; try exact H; try lia.
      destruct (dinv_startk _ _ HI k Hst) as [ _ H2 ]. lia.
    Qed.

    Lemma dpres_pend : forall t0, In t0 (dpending s') -> dtask_ok s' t0.
    Proof.
      pose proof (dinv_pend _ _ HI) as H. unfold dtask_ok in *.
      dstep_cases Hs; dprj; try exact H; try (intros t0 Hx; exfalso; exact Hx).
      - intros t0 Hin. destruct (H t0 Hin) as [ H1 H2 ]. split; [ exact H1 | lia ].
      - intros t0 Hin. apply in_app_or in Hin. destruct Hin as [ Hin | Hin ].
        + destruct (H t0 Hin) as [ H1 H2 ]. split; [ exact H1 | lia ].
        + destruct Hin as [ Hin | [] ]. subst t0; dprj. split; [ reflexivity | lia ].
      - intros t0 Hin. apply dremove_nth_In in Hin. apply (H t0 Hin).
      - intros t0 Hin. apply dremove_nth_In in Hin. apply (H t0 Hin).
    Qed.

    Lemma dpres_res : forall r0, In r0 (dresults s') -> dres_ok s' r0.
    Proof.
      pose proof (dinv_res _ _ HI) as H.
      pose proof (dinv_pend _ _ HI) as HP. unfold dres_ok, dtask_ok in *.
      dstep_cases Hs; dprj; try exact H; try (intros r0 Hx; exfalso; exact Hx).
      - intros r0 Hin. destruct (H r0 Hin) as [ H1 H2 ]. split; [ lia | exact H2 ].
      - intros r0 Hin. destruct (H r0 Hin) as [ H1 H2 ]. split; [ lia | exact H2 ].
      - intros r0 Hin. apply in_app_or in Hin. destruct Hin as [ Hin | Hin ].
        + apply (H r0 Hin).
        + destruct Hin as [ Hin | [] ]. subst r0; dprj.
          apply nth_error_In in Hn. destruct (HP t Hn) as [ H1 H2 ].
          split; [ exact H2 | ]. intros c Hc. discriminate Hc.
      - intros r0 Hin. apply in_app_or in Hin. destruct Hin as [ Hin | Hin ].
        + destruct (H r0 Hin) as [ H1 H2 ]. split; [ exact H1 | ].
          intros c Hc. destruct (H2 c Hc) as [ H3 H4 ]. split; [ exact H3 | ].
          apply in_or_app. right; exact H4.
        + destruct Hin as [ Hin | [] ]. subst r0; dprj.
          apply nth_error_In in Hn. destruct (HP t Hn) as [ H1 H2 ].
          split; [ exact H2 | ]. intros c Hc. rewrite <- H1. split; [ exact Hc | ].
          apply in_or_app. left. apply -> in_rev. apply first_accepted_tested. exact Hc.
      - intros r0 Hin. apply dremove_nth_In in Hin. apply (H r0 Hin).
      - intros r0 Hin. apply dremove_nth_In in Hin. apply (H r0 Hin).
      - intros r0 Hin. apply dremove_nth_In in Hin. apply (H r0 Hin).
    Qed.

    Lemma dpres_pbase : dskip s' = false -> forall t0, In t0 (dpending s') -> d_base t0 = dcur s'.
    Proof.
      pose proof (dinv_pbase _ _ HI) as H.
      dstep_cases Hs; dprj; try exact H; try (intros; discriminate);
        try (intros _ t0 Hx; exfalso; exact Hx).
      - intros Hsk t0 Hin. apply in_app_or in Hin. destruct Hin as [ Hin | Hin ].
        + apply (H Hsk t0 Hin).
        + destruct Hin as [ Hin | [] ]. subst t0; reflexivity.
      - intros Hsk t0 Hin. apply dremove_nth_In in Hin. apply (H Hsk t0 Hin).
      - intros Hsk t0 Hin. apply dremove_nth_In in Hin. apply (H Hsk t0 Hin).
    Qed.

    Lemma dpres_rbase : dskip s' = false -> forall r0, In r0 (dresults s') -> r_base r0 = dcur s'.
    Proof.
      pose proof (dinv_rbase _ _ HI) as H.
      pose proof (dinv_pbase _ _ HI) as HP.
      dstep_cases Hs; dprj; try exact H; try (intros; discriminate);
        try (intros _ r0 Hx; exfalso; exact Hx).
      - intros Hsk r0 Hin. apply in_app_or in Hin. destruct Hin as [ Hin | Hin ].
        + apply (H Hsk r0 Hin).
        + destruct Hin as [ Hin | [] ]. subst r0; dprj.
          apply nth_error_In in Hn. apply (HP Hsk t Hn).
      - intros Hsk r0 Hin. apply in_app_or in Hin. destruct Hin as [ Hin | Hin ].
        + apply (H Hsk r0 Hin).
        + destruct Hin as [ Hin | [] ]. subst r0; dprj.
          apply nth_error_In in Hn. apply (HP Hsk t Hn).
      - intros Hsk r0 Hin. apply dremove_nth_In in Hin. apply (H Hsk r0 Hin).
    Qed.

    Lemma dpres_lowi : dskip s' = false -> length (dwrites s') <= dindex s'.
    Proof.
      pose proof (dinv_lowi _ _ HI) as H.
      dstep_cases Hs; dprj; try exact H; try (intros; discriminate).
      - intros Hsk. specialize (H Hsk). lia.
      - intros Hsk. specialize (H Hsk). lia.
      - intros _. destruct (dinv_startk _ _ HI k Hst) as [ H1 _ ]. exact H1.
    Qed.

    Lemma dpres_lowp : dskip s' = false ->
      forall t0, In t0 (dpending s') -> length (dwrites s') <= d_id t0.
    Proof.
      pose proof (dinv_lowp _ _ HI) as H.
      dstep_cases Hs; dprj; try exact H; try (intros; discriminate);
        try (intros _ t0 Hx; exfalso; exact Hx).
      - intros Hsk t0 Hin. apply in_app_or in Hin. destruct Hin as [ Hin | Hin ].
        + apply (H Hsk t0 Hin).
        + destruct Hin as [ Hin | [] ]. subst t0; dprj. exact (dinv_lowi _ _ HI Hsk).
      - intros Hsk t0 Hin. apply dremove_nth_In in Hin. apply (H Hsk t0 Hin).
      - intros Hsk t0 Hin. apply dremove_nth_In in Hin. apply (H Hsk t0 Hin).
    Qed.

    Lemma dpres_lowr : dskip s' = false ->
      forall r0, In r0 (dresults s') -> length (dwrites s') <= r_id r0.
    Proof.
      pose proof (dinv_lowr _ _ HI) as H.
      pose proof (dinv_lowp _ _ HI) as HP.
      dstep_cases Hs; dprj; try exact H; try (intros; discriminate);
        try (intros _ r0 Hx; exfalso; exact Hx).
      - intros Hsk r0 Hin. apply in_app_or in Hin. destruct Hin as [ Hin | Hin ].
        + apply (H Hsk r0 Hin).
        + destruct Hin as [ Hin | [] ]. subst r0; dprj.
          apply nth_error_In in Hn. apply (HP Hsk t Hn).
      - intros Hsk r0 Hin. apply in_app_or in Hin. destruct Hin as [ Hin | Hin ].
        + apply (H Hsk r0 Hin).
        + destruct Hin as [ Hin | [] ]. subst r0; dprj.
          apply nth_error_In in Hn. apply (HP Hsk t Hn).
      - intros Hsk r0 Hin. apply dremove_nth_In in Hin. apply (H Hsk r0 Hin).
    Qed.

    Lemma dpres_startk : forall k0, dstart s' = Some k0 ->
      length (dwrites s') <= k0 /\ k0 <= dindex s'.
    Proof.
      pose proof (dinv_startk _ _ HI) as H.
      dstep_cases Hs; dprj; try exact H; try (intros; discriminate).
      - intros k0 Hk. destruct (H k0 Hk) as [ H1 H2 ]. split; lia.
      - intros k0 Hk. destruct (H k0 Hk) as [ H1 H2 ]. split; lia.
      - intros k0 Hk. injection Hk as <-. apply nth_error_In in Hn.
        pose proof (dinv_lowr _ _ HI Hsk r Hn) as H1.
        destruct (dinv_res _ _ HI r Hn) as [ H2 _ ]. simpl. split; lia.
    Qed.

    Lemma dpres_last : dcur s' = hd i (dwrites s').
    Proof.
      pose proof (dinv_last _ _ HI) as H.
      dstep_cases Hs; dprj; try exact H. reflexivity.
    Qed.

    Lemma dpres_chain : chain_from i (rev (dwrites s')).
    Proof.
      pose proof (dinv_chain _ _ HI) as H.
      dstep_cases Hs; dprj; try exact H.
      simpl. apply dchain_snoc; [ exact H | ].
      rewrite dlast_rev_hd, <- (dinv_last _ _ HI).
      apply nth_error_In in Hn.
      destruct (dinv_res _ _ HI r Hn) as [ _ H2 ]. destruct (H2 c Hsu) as [ H3 _ ].
      rewrite (dinv_rbase _ _ HI Hsk r Hn) in H3.
      apply first_accepted_In in H3. exists (r_id r). exact H3.
    Qed.

    Lemma dpres_wchk : forall w, In w (dwrites s') -> In (w, true) (dchecked s').
    Proof.
      pose proof (dinv_wchk _ _ HI) as H.
      dstep_cases Hs; dprj; try exact H.
      - intros w Hw. apply in_or_app. right. apply (H w Hw).
      - intros w [ Hw | Hw ].
        + subst w. apply nth_error_In in Hn.
          destruct (dinv_res _ _ HI r Hn) as [ _ H2 ]. destruct (H2 c Hsu) as [ _ H4 ]. exact H4.
        + apply (H w Hw).
    Qed.

    Lemma dpres_done : ddone s' = true ->
      dskip s' = false /\ dpending s' = [] /\ dresults s' = [] /\ dindex s' = nsubsets.
    Proof.
      dstep_cases Hs; dprj; try (intros; discriminate).
      intros _. pose proof (dinv_abort _ _ HI) as H1. pose proof (dinv_stop _ _ HI) as H2.
      pose proof (dinv_index _ _ HI) as H3.
      assert (Hsk : dskip s = false) by congruence.
      split; [ exact Hsk | ]. split; [ reflexivity | ]. split; [ reflexivity | ].
      destruct Hc as [ Hc | Hc ]; [ congruence | lia ].
    Qed.

    Lemma DInv_destep : DInv i s'.
    Proof.
      constructor.
      - exact dpres_stop.
      - exact dpres_abort.
      - exact dpres_start_none.
      - exact dpres_start_some.
      - exact dpres_index.
      - exact dpres_pend.
      - exact dpres_res.
      - exact dpres_pbase.
      - exact dpres_rbase.
      - exact dpres_lowi.
      - exact dpres_lowp.
      - exact dpres_lowr.
      - exact dpres_startk.
      - exact dpres_last.
      - exact dpres_chain.
      - exact dpres_wchk.
      - exact dpres_done.
    Qed.
  End Pres.

  Lemma DInv_dexec : forall i s a s', DInv i s -> dexec s a = Some s' -> DInv i s'.
  Proof.
    intros i s a s' HI He. eapply DInv_destep; [ exact HI | ]. apply dexec_destep; exact He.
  Qed.

  Lemma DInv_reachable : forall i s, dreachable i s -> DInv i s.
  Proof.
    intros i s H. induction H as [ | s s' Hr IH [ a Ha ] ].
    - apply DInv_init.
    - eapply DInv_dexec; [ exact IH | exact Ha ].
  Qed.

  (* ---------------------------------------------------------------- *)
  (* D1 *)
  Lemma d_no_stale_lemma : forall i s k s' r c,
    dreachable i s ->
    nth_error (dresults s) k = Some r -> r_succ r = Some c -> dskip s = false ->
    dexec s (DConsume k) = Some s' ->
    r_base r = dcur s /\ dcur s' = c /\ accept c = true /\ In c (cands (r_id r) (dcur s)).
  Proof.
    intros i s k s' r c Hr Hn Hsu Hsk He.
    pose proof (DInv_reachable _ _ Hr) as HI.
    pose proof (nth_error_In _ _ Hn) as Hin.
    pose proof (dinv_rbase _ _ HI Hsk r Hin) as Hb.
    destruct (dinv_res _ _ HI r Hin) as [ _ H2 ]. destruct (H2 c Hsu) as [ H3 _ ].
    rewrite Hb in H3. apply first_accepted_In in H3. destruct H3 as [ H3 H4 ].
    split; [ exact Hb | ]. split; [ | split; [ exact H4 | exact H3 ] ].
    unfold SchedDdmin.dexec in He. destruct (ddone s); [ discriminate He | ].
    rewrite Hn, Hsu, Hsk in He. injection He as <-. reflexivity.
  Qed.

  (* a later success of the same round changes nothing but the result list *)
  Lemma d_ignored_lemma : forall s k s' r c,
    nth_error (dresults s) k = Some r -> r_succ r = Some c -> dskip s = true ->
    dexec s (DConsume k) = Some s' ->
    dcur s' = dcur s /\ dwrites s' = dwrites s /\ dstart s' = dstart s /\ dindex s' = dindex s.
  Proof.
    intros s k s' r c Hn Hsu Hsk He.
    unfold SchedDdmin.dexec in He. destruct (ddone s); [ discriminate He | ].
    rewrite Hn, Hsu, Hsk in He. injection He as <-. dprj. repeat split; reflexivity.
  Qed.

  (* D3 *)
  Lemma d_file_is_last_lemma : forall i s, dreachable i s ->
    match dwrites s with w :: _ => dcur s = w | [] => dcur s = i end.
  Proof.
    intros i s Hr. pose proof (dinv_last _ _ (DInv_reachable _ _ Hr)) as H.
    destruct (dwrites s); exact H.
  Qed.

  (* D2 *)
  Lemma d_chain_lemma : forall i s, dreachable i s -> chain_from i (rev (dwrites s)).
  Proof.
    intros i s Hr. exact (dinv_chain _ _ (DInv_reachable _ _ Hr)).
  Qed.

  Lemma d_written_was_checked_lemma : forall i s w, dreachable i s ->
    In w (dwrites s) -> In (w, true) (dchecked s).
  Proof.
    intros i s w Hr Hw. exact (dinv_wchk _ _ (DInv_reachable _ _ Hr) w Hw).
  Qed.

  Lemma d_checked_sound_lemma : forall i s x b, dreachable i s ->
    In (x, b) (dchecked s) -> accept x = b.
  Proof.
    intros i s x b Hr. induction Hr as [ | s s' Hr IH [ a Ha ] ].
    - intros [].
    - apply dexec_destep in Ha. dstep_cases Ha; dprj; try exact IH.
      intros Hin. apply in_app_or in Hin. destruct Hin as [ Hin | Hin ].
      + apply in_rev in Hin. eapply tested_sound; exact Hin.
      + apply IH; exact Hin.
  Qed.

  (* D4 *)
  Lemma d_writes_bound_inv : forall i s, DInv i s -> length (dwrites s) <= nsubsets.
  Proof.
    intros i s HI. pose proof (dinv_index _ _ HI) as Hi.
    destruct (dskip s) eqn:Hsk.
    - destruct (dinv_start_some _ _ HI Hsk) as [ k Hk ].
      destruct (dinv_startk _ _ HI k Hk) as [ H1 H2 ]. lia.
    - pose proof (dinv_lowi _ _ HI Hsk) as H1. lia.
  Qed.

  Lemma d_round_progress_lemma : forall i s, dreachable i s -> length (dwrites s) <= nsubsets.
  Proof.
    intros i s Hr. eapply d_writes_bound_inv. apply DInv_reachable; exact Hr.
  Qed.

  (* the restart index is beyond the number of adoptions so far and never
     beyond the generator index *)
  Lemma d_restart_index_lemma : forall i s k, dreachable i s -> dstart s = Some k ->
    length (dwrites s) <= k /\ k <= dindex s /\ dindex s <= nsubsets.
  Proof.
    intros i s k Hr Hk. pose proof (DInv_reachable _ _ Hr) as HI.
    destruct (dinv_startk _ _ HI k Hk) as [ H1 H2 ].
    split; [ exact H1 | ]. split; [ exact H2 | exact (dinv_index _ _ HI) ].
  Qed.

  (* the final state is quiescent *)
  Lemma d_done_lemma : forall i s, dreachable i s -> ddone s = true ->
    dskip s = false /\ dpending s = [] /\ dresults s = [] /\ dindex s = nsubsets.
  Proof.
    intros i s Hr Hd. exact (dinv_done _ _ (DInv_reachable _ _ Hr) Hd).
  Qed.

  Lemma d_done_terminal_lemma : forall s a, ddone s = true -> dexec s a = None.
  Proof.
    intros s a Hd. unfold SchedDdmin.dexec. rewrite Hd. reflexivity.
  Qed.

  (* no deadlock: a reachable state that is not done has a successor *)
  Lemma d_no_deadlock_lemma : forall i s, dreachable i s -> ddone s = false ->
    exists a s', dexec s a = Some s'.
  Proof.
    intros i s Hr Hd. pose proof (DInv_reachable _ _ Hr) as HI.
    destruct (dpending s) as [ | t0 pe ] eqn:Hpe.
    - destruct (dresults s) as [ | r0 re ] eqn:Hre.
      + destruct (dstopped s || negb (Nat.ltb (dindex s) nsubsets)) eqn:Hc.
        * exists DEndRound. unfold SchedDdmin.dexec. rewrite Hd, Hc, Hpe, Hre.
          destruct (dabort s) eqn:Hab.
          -- assert (Hsk : dskip s = true) by (rewrite <- (dinv_abort _ _ HI); exact Hab).
             destruct (dinv_start_some _ _ HI Hsk) as [ k Hk ]. rewrite Hk.
             eexists; reflexivity.
          -- eexists; reflexivity.
        * exists DGen. unfold SchedDdmin.dexec. rewrite Hd, Hc. eexists; reflexivity.
      + exists (DConsume 0). unfold SchedDdmin.dexec. rewrite Hd, Hre. simpl.
        destruct (r_succ r0); [ destruct (dskip s) | ]; eexists; reflexivity.
    - exists (DWork 0 false). unfold SchedDdmin.dexec. rewrite Hd, Hpe. simpl.
      eexists; reflexivity.
  Qed.
End Inv.

Arguments DInv {input} cands accept nsubsets i s.
Arguments derives {input} cands accept w w'.
Arguments chain_from {input} cands accept w l.
Arguments dtask_ok {input} cands s t.
Arguments dres_ok {input} cands accept s r.
