(* Shared infrastructure for the proofs about Model/SchedDdmin.v:
   implicit arguments, list lemmas, lemmas about the worker functions
   [first_accepted] and [tested], and an inductive presentation [destep] of
   the executable step function [dexec] (one constructor per branch). *)
From DD Require Export Model.SchedDdmin.

Arguments dcur {input} d.
Arguments dindex {input} d.
Arguments dstopped {input} d.
Arguments dabort {input} d.
Arguments dskip {input} d.
Arguments dstart {input} d.
Arguments dpending {input} d.
Arguments dresults {input} d.
Arguments dwrites {input} d.
Arguments dchecked {input} d.
Arguments ddone {input} d.
Arguments mk_dst {input}.
Arguments mk_dtask {input}.
Arguments mk_dres {input}.
Arguments d_id {input} d.
Arguments d_base {input} d.
Arguments d_cands {input} d.
Arguments r_id {input} d.
Arguments r_base {input} d.
Arguments r_succ {input} d.
Arguments dinit {input} i.
Arguments first_accepted {input} accept l.
Arguments tested {input} accept l.

Ltac dprj :=
  cbn [dcur dindex dstopped dabort dskip dstart dpending dresults dwrites dchecked ddone
       d_id d_base d_cands r_id r_base r_succ] in *.

(* ------------------------------------------------------------------ *)
(* list lemmas *)

Lemma dremove_nth_In : forall {A} (l : list A) k x,
  In x (dremove_nth k l) -> In x l.
Proof.
  intros A l; induction l as [ | a l IH ]; intros k x H.
  - destruct k; simpl in H; exact H.
  - destruct k as [ | k ]; simpl in H.
    + right; exact H.
    + destruct H as [ H | H ].
      * left; exact H.
      * right; eapply IH; exact H.
Qed.

Lemma dremove_nth_length : forall {A} (l : list A) k x,
  nth_error l k = Some x -> S (length (dremove_nth k l)) = length l.
Proof.
  intros A l; induction l as [ | a l IH ]; intros k x Hn.
  - destruct k; discriminate Hn.
  - destruct k as [ | k ]; simpl in Hn |- *.
    + reflexivity.
    + f_equal. eapply IH; exact Hn.
Qed.

Lemma dlast_rev_hd : forall {A} (l : list A) d, last (rev l) d = hd d l.
Proof.
  intros A l d. destruct l as [ | a l ].
  - reflexivity.
  - simpl. apply last_last.
Qed.

Lemma dlast_cons_indep : forall {A} (l : list A) b d1 d2,
  last (b :: l) d1 = last (b :: l) d2.
Proof.
  intros A l; induction l as [ | a l IH ]; intros b d1 d2.
  - reflexivity.
  - change (last (b :: a :: l) d1) with (last (a :: l) d1).
    change (last (b :: a :: l) d2) with (last (a :: l) d2). apply IH.
Qed.

(* ------------------------------------------------------------------ *)
(* the worker *)

Section Worker.
  Variable input : Type.
  Variable accept : input -> bool.

  Lemma first_accepted_In : forall (l : list input) c,
    first_accepted accept l = Some c -> In c l /\ accept c = true.
  Proof.
    intros l; induction l as [ | a l IH ]; intros c H.
    - discriminate H.
    - simpl in H. destruct (accept a) eqn:Ha.
      + injection H as <-. split; [ left; reflexivity | exact Ha ].
      + destruct (IH c H) as [ H1 H2 ]. split; [ right; exact H1 | exact H2 ].
  Qed.

  Lemma first_accepted_tested : forall (l : list input) c,
    first_accepted accept l = Some c -> In (c, true) (tested accept l).
  Proof.
    intros l; induction l as [ | a l IH ]; intros c H.
    - discriminate H.
    - simpl in H |- *. destruct (accept a) eqn:Ha.
      + injection H as <-. left; reflexivity.
      + right. apply IH; exact H.
  Qed.

  Lemma tested_sound : forall (l : list input) x b,
    In (x, b) (tested accept l) -> accept x = b.
  Proof.
    intros l; induction l as [ | a l IH ]; intros x b H.
    - destruct H.
    - simpl in H. destruct (accept a) eqn:Ha.
      + destruct H as [ H | [] ]. injection H as <- <-. exact Ha.
      + destruct H as [ H | H ].
        * injection H as <- <-. exact Ha.
        * apply IH; exact H.
  Qed.

  (* everything before the first accepted candidate was rejected *)
  Lemma first_accepted_none : forall (l : list input),
    first_accepted accept l = None -> forall c, In c l -> accept c = false.
  Proof.
    intros l; induction l as [ | a l IH ]; intros H c Hc.
    - destruct Hc.
    - simpl in H. destruct (accept a) eqn:Ha; [ discriminate H | ].
      destruct Hc as [ Hc | Hc ].
      + subst c; exact Ha.
      + apply IH; assumption.
  Qed.
End Worker.

(* ------------------------------------------------------------------ *)
(* the step function as an inductive relation *)

Section Step.
  Variable input : Type.
  Variable cands : nat -> input -> list input.
  Variable accept : input -> bool.
  Variable nsubsets : nat.

  Local Notation dst := (dst input).
  Local Notation dexec := (dexec input cands accept nsubsets).

  Inductive destep (s : dst) : daction -> dst -> Prop :=
  | DEGenNone :
      ddone s = false -> dstopped s = false -> dindex s < nsubsets ->
      cands (dindex s) (dcur s) = [] ->
      destep s DGen
        (mk_dst (dcur s) (S (dindex s)) (dstopped s) (dabort s) (dskip s) (dstart s)
                (dpending s) (dresults s) (dwrites s) (dchecked s) false)
  | DEGenTask :
      ddone s = false -> dstopped s = false -> dindex s < nsubsets ->
      cands (dindex s) (dcur s) <> [] ->
      destep s DGen
        (mk_dst (dcur s) (S (dindex s)) (dstopped s) (dabort s) (dskip s) (dstart s)
                (dpending s ++ [mk_dtask (dindex s) (dcur s) (cands (dindex s) (dcur s))])
                (dresults s) (dwrites s) (dchecked s) false)
  | DEWorkAb : forall k t,
      ddone s = false -> nth_error (dpending s) k = Some t -> dabort s = true ->
      destep s (DWork k true)
        (mk_dst (dcur s) (dindex s) (dstopped s) (dabort s) (dskip s) (dstart s)
                (dremove_nth k (dpending s))
                (dresults s ++ [mk_dres (d_id t) (d_base t) None])
                (dwrites s) (dchecked s) false)
  | DEWorkRun : forall k t,
      ddone s = false -> nth_error (dpending s) k = Some t ->
      destep s (DWork k false)
        (mk_dst (dcur s) (dindex s) (dstopped s) (dabort s) (dskip s) (dstart s)
                (dremove_nth k (dpending s))
                (dresults s ++ [mk_dres (d_id t) (d_base t) (first_accepted accept (d_cands t))])
                (dwrites s) (rev (tested accept (d_cands t)) ++ dchecked s) false)
  | DEConsIgn : forall k r c,
      ddone s = false -> nth_error (dresults s) k = Some r -> r_succ r = Some c ->
      dskip s = true ->
      destep s (DConsume k)
        (mk_dst (dcur s) (dindex s) (dstopped s) (dabort s) true (dstart s) (dpending s)
                (dremove_nth k (dresults s)) (dwrites s) (dchecked s) false)
  | DEConsAdopt : forall k r c,
      ddone s = false -> nth_error (dresults s) k = Some r -> r_succ r = Some c ->
      dskip s = false ->
      destep s (DConsume k)
        (mk_dst c (dindex s) true true true (Some (S (r_id r))) (dpending s)
                (dremove_nth k (dresults s)) (c :: dwrites s) (dchecked s) false)
  | DEConsNone : forall k r,
      ddone s = false -> nth_error (dresults s) k = Some r -> r_succ r = None ->
      destep s (DConsume k)
        (mk_dst (dcur s) (dindex s) (dstopped s) (dabort s) (dskip s) (dstart s) (dpending s)
                (dremove_nth k (dresults s)) (dwrites s) (dchecked s) false)
  | DERestart : forall k,
      ddone s = false -> (dstopped s = true \/ ~ dindex s < nsubsets) ->
      dpending s = [] -> dresults s = [] -> dabort s = true -> dstart s = Some k ->
      destep s DEndRound
        (mk_dst (dcur s) k false false false None [] [] (dwrites s) (dchecked s) false)
  | DEFinish :
      ddone s = false -> (dstopped s = true \/ ~ dindex s < nsubsets) ->
      dpending s = [] -> dresults s = [] -> dabort s = false ->
      destep s DEndRound
        (mk_dst (dcur s) (dindex s) (dstopped s) false (dskip s) (dstart s) [] []
                (dwrites s) (dchecked s) true).

  Lemma stop_cond : forall s : dst,
    dstopped s || negb (Nat.ltb (dindex s) nsubsets) = true <->
    (dstopped s = true \/ ~ dindex s < nsubsets).
  Proof.
    intros s. rewrite orb_true_iff, negb_true_iff, Nat.ltb_ge. split.
    - intros [ H | H ]; [ left; exact H | right; lia ].
    - intros [ H | H ]; [ left; exact H | right; lia ].
  Qed.

  Lemma dexec_destep : forall s a s', dexec s a = Some s' -> destep s a s'.
  Proof.
    intros s a s' H. unfold SchedDdmin.dexec in H.
    destruct (ddone s) eqn:Hdone; [ discriminate H | ].
    destruct a as [ | k ab | k | ].
    - destruct (dstopped s || negb (Nat.ltb (dindex s) nsubsets)) eqn:Hc; [ discriminate H | ].
      apply orb_false_iff in Hc. destruct Hc as [ Hst Hlt ].
      apply negb_false_iff in Hlt. apply Nat.ltb_lt in Hlt.
      destruct (cands (dindex s) (dcur s)) as [ | c0 cs ] eqn:Hcs; injection H as H; subst s'.
      + apply DEGenNone; assumption.
      + rewrite <- Hcs. apply DEGenTask; try assumption. rewrite Hcs. discriminate.
    - destruct (nth_error (dpending s) k) as [ t | ] eqn:Hn; [ | discriminate H ].
      destruct ab.
      + destruct (dabort s) eqn:Hab; simpl in H; [ | discriminate H ].
        injection H as H; subst s'.
        pose proof (DEWorkAb s k t Hdone Hn) as E. rewrite Hab in E. apply E. reflexivity.
      + simpl in H. injection H as H; subst s'. apply DEWorkRun; assumption.
    - destruct (nth_error (dresults s) k) as [ r | ] eqn:Hn; [ | discriminate H ].
      destruct (r_succ r) as [ c | ] eqn:Hsucc.
      + destruct (dskip s) eqn:Hsk; injection H as H; subst s'.
        * eapply DEConsIgn; eassumption.
        * eapply DEConsAdopt; eassumption.
      + injection H as H; subst s'. eapply DEConsNone; eassumption.
    - destruct (dstopped s || negb (Nat.ltb (dindex s) nsubsets)) eqn:Hc; [ | discriminate H ].
      apply stop_cond in Hc.
      destruct (dpending s) as [ | t0 pe ] eqn:Hpe; [ | discriminate H ].
      destruct (dresults s) as [ | r0 re ] eqn:Hre; [ | discriminate H ].
      destruct (dabort s) eqn:Hab.
      + destruct (dstart s) as [ k | ] eqn:Hst; [ | discriminate H ].
        injection H as H; subst s'. apply DERestart; assumption.
      + injection H as H; subst s'.
        pose proof (DEFinish s Hdone Hc Hpe Hre Hab) as E. exact E.
  Qed.

  (* converse, for completeness: destep is exactly dexec *)
  Lemma destep_dexec : forall s a s', destep s a s' -> dexec s a = Some s'.
  Proof.
    intros s a s' H.
    destruct H as [ Hf Hst Hlt Hcs | Hf Hst Hlt Hcs | k t Hf Hn Hab | k t Hf Hn
                  | k r c Hf Hn Hsu Hsk | k r c Hf Hn Hsu Hsk | k r Hf Hn Hsu
                  | k Hf Hc Hpe Hre Hab Hst | Hf Hc Hpe Hre Hab ];
      unfold SchedDdmin.dexec; rewrite Hf.
    - apply Nat.ltb_lt in Hlt. rewrite Hst, Hlt, Hcs. reflexivity.
    - apply Nat.ltb_lt in Hlt. rewrite Hst, Hlt. simpl.
      destruct (cands (dindex s) (dcur s)) as [ | c0 cs ].
      + exfalso; apply Hcs; reflexivity.
      + reflexivity.
    - rewrite Hn, Hab. reflexivity.
    - rewrite Hn. reflexivity.
    - rewrite Hn, Hsu, Hsk. reflexivity.
    - rewrite Hn, Hsu, Hsk. reflexivity.
    - rewrite Hn, Hsu. reflexivity.
    - apply stop_cond in Hc. rewrite Hc, Hpe, Hre, Hab, Hst. reflexivity.
    - apply stop_cond in Hc. rewrite Hc, Hpe, Hre, Hab. reflexivity.
  Qed.

  (* replaying an action list yields a reachable state *)
  Lemma dreplay_reachable : forall i l s s',
    dreachable input cands accept nsubsets i s ->
    dreplay input cands accept nsubsets s l = Some s' ->
    dreachable input cands accept nsubsets i s'.
  Proof.
    intros i l; induction l as [ | a l IH ]; intros s s' Hr H.
    - simpl in H. injection H as <-. exact Hr.
    - simpl in H. destruct (dexec s a) as [ s1 | ] eqn:He; [ | discriminate H ].
      apply (IH s1 s'); [ | exact H ].
      eapply DRS; [ exact Hr | ]. exists a; exact He.
  Qed.

  Lemma dreplay_app : forall l1 l2 s,
    dreplay input cands accept nsubsets s (l1 ++ l2) =
    match dreplay input cands accept nsubsets s l1 with
    | Some s1 => dreplay input cands accept nsubsets s1 l2
    | None => None
    end.
  Proof.
    intros l1; induction l1 as [ | a l1 IH ]; intros l2 s.
    - reflexivity.
    - simpl. destruct (dexec s a) as [ s1 | ]; [ apply IH | reflexivity ].
  Qed.
End Step.

Arguments destep {input} cands accept nsubsets s _ _.

Ltac dstep_cases Hs :=
  destruct Hs as [ Hf Hst Hlt Hcs | Hf Hst Hlt Hcs | k t Hf Hn Hab | k t Hf Hn
                 | k r c Hf Hn Hsu Hsk | k r c Hf Hn Hsu Hsk | k r Hf Hn Hsu
                 | k Hf Hc Hpe Hre Hab Hst | Hf Hc Hpe Hre Hab ].
