(* D6: the sequential special case (_check_seq).  In a sequential run every
   generated task is worked on and consumed before the next generator step:
   the run is a sequence of blocks [DGen] (no task for this subset),
   [DGen; DWork 0 false; DConsume 0], or [DEndRound].  Such runs are runs of
   the parallel model; between blocks nothing is pending or outstanding; no
   success is ever ignored; and the run refines the textbook sequential loop
   [sq_step] on configurations (input, subset index, writes). *)
From DD Require Import Proofs.Ddmin.DdminBase Proofs.Ddmin.DdminInv.

Section Seq.
  Variable input : Type.
  Variable cands : nat -> input -> list input.
  Variable accept : input -> bool.
  Variable nsubsets : nat.

  Local Notation dst := (dst input).
  Local Notation dexec := (dexec input cands accept nsubsets).
  Local Notation dreplay := (dreplay input cands accept nsubsets).
  Local Notation dreachable := (dreachable input cands accept nsubsets).
  Local Notation DInv := (DInv cands accept nsubsets).

  (* the block of actions the sequential loop performs next *)
  Definition seq_actions (s : dst) : list daction :=
    if dstopped s || negb (Nat.ltb (dindex s) nsubsets) then [DEndRound]
    else match cands (dindex s) (dcur s) with
         | [] => [DGen]
         | _ :: _ => [DGen; DWork 0 false; DConsume 0]
         end.

  Definition seq_next (s : dst) : option dst := dreplay s (seq_actions s).

  Inductive seq_run (i : input) : dst -> Prop :=
  | SQ0 : seq_run i (dinit i)
  | SQS : forall s s', seq_run i s -> seq_next s = Some s' -> seq_run i s'.

  Fixpoint seq_iter (n : nat) (s : dst) : option dst :=
    match n with
    | O => Some s
    | S m => match seq_next s with Some s' => seq_iter m s' | None => None end
    end.

  Lemma seq_run_reachable_lemma : forall i s, seq_run i s -> dreachable i s.
  Proof.
    intros i s H. induction H as [ | s s' Hs IH Hn ].
    - apply DR0.
    - eapply dreplay_reachable; [ exact IH | exact Hn ].
  Qed.

  Lemma seq_iter_run : forall n i s s', seq_run i s -> seq_iter n s = Some s' -> seq_run i s'.
  Proof.
    intros n; induction n as [ | n IH ]; intros i s s' Hr H.
    - simpl in H. injection H as <-. exact Hr.
    - simpl in H. destruct (seq_next s) as [ s1 | ] eqn:E; [ | discriminate H ].
      apply (IH i s1 s'); [ | exact H ]. eapply SQS; [ exact Hr | exact E ].
  Qed.

  (* the textbook sequential loop *)
  Definition scfg : Type := (input * nat * list input)%type.

  Definition sq_step (c : scfg) : option scfg :=
    match c with
    | (x, k, w) =>
        if Nat.ltb k nsubsets then
          match first_accepted accept (cands k x) with
          | Some y => Some (y, S k, y :: w)
          | None => Some (x, S k, w)
          end
        else None
    end.

  Fixpoint sq_iter (n : nat) (c : scfg) : option scfg :=
    match n with
    | O => Some c
    | S m => match sq_iter m c with Some c' => sq_step c' | None => None end
    end.

  Definition cfg_of (s : dst) : scfg :=
    (dcur s, match dstart s with Some k => k | None => dindex s end, dwrites s).

  (* one block from a quiescent state: quiescent again, and either a
     stuttering step (round boundary) or one step of the sequential loop *)
  Lemma seq_next_step : forall i s s',
    DInv i s -> dpending s = [] -> dresults s = [] -> seq_next s = Some s' ->
    dpending s' = [] /\ dresults s' = [] /\
    (cfg_of s' = cfg_of s \/ sq_step (cfg_of s) = Some (cfg_of s')).
  Proof.
    intros i s s' HI Hpe Hre H.
    pose proof (dinv_stop _ _ _ _ _ _ HI) as Hstop.
    pose proof (dinv_start_none _ _ _ _ _ _ HI) as Hnone.
    unfold seq_next, seq_actions in H.
    destruct (ddone s) eqn:Hd.
    { exfalso. destruct (dstopped s || negb (Nat.ltb (dindex s) nsubsets));
        [ | destruct (cands (dindex s) (dcur s)) ];
        simpl in H; unfold SchedDdmin.dexec in H; rewrite Hd in H; discriminate H. }
    destruct (dstopped s || negb (Nat.ltb (dindex s) nsubsets)) eqn:Hc.
    - (* round boundary *)
      simpl in H. unfold SchedDdmin.dexec in H. rewrite Hd, Hc, Hpe, Hre in H.
      destruct (dabort s) eqn:Hab.
      + destruct (dstart s) as [ k | ] eqn:Hst; [ | discriminate H ].
        injection H as <-. unfold cfg_of; dprj. rewrite Hst.
        split; [ reflexivity | ]. split; [ reflexivity | ]. left; reflexivity.
      + injection H as <-. unfold cfg_of; dprj.
        split; [ reflexivity | ]. split; [ reflexivity | ]. left; reflexivity.
    - (* generator step *)
      pose proof Hc as Hc'. apply orb_false_iff in Hc'. destruct Hc' as [ Hst Hlt ].
      apply negb_false_iff in Hlt.
      assert (Hsk : dskip s = false) by congruence.
      pose proof (Hnone Hsk) as Hstart.
      destruct (cands (dindex s) (dcur s)) as [ | c0 cs ] eqn:Hcs.
      + simpl in H. unfold SchedDdmin.dexec in H. rewrite Hd, Hc, Hcs in H.
        injection H as <-. unfold cfg_of; dprj. rewrite Hstart.
        split; [ exact Hpe | ]. split; [ exact Hre | ]. right.
        unfold sq_step. rewrite Hlt, Hcs. reflexivity.
      + cbn [SchedDdmin.dreplay] in H.
        destruct (dexec s DGen) as [ s1 | ] eqn:E1; [ | discriminate H ].
        unfold SchedDdmin.dexec in E1. rewrite Hd, Hc, Hcs, Hpe in E1.
        injection E1 as <-.
        destruct (dexec _ (DWork 0 false)) as [ s2 | ] eqn:E2 in H; [ | discriminate H ].
        unfold SchedDdmin.dexec in E2. dprj. simpl in E2. injection E2 as <-.
        destruct (dexec _ (DConsume 0)) as [ s3 | ] eqn:E3 in H; [ | discriminate H ].
        injection H as <-.
        unfold SchedDdmin.dexec in E3. dprj. rewrite Hre in E3. simpl in E3.
        rewrite Hsk in E3. unfold cfg_of, sq_step. rewrite Hstart, Hlt, Hcs. simpl.
        destruct (accept c0) eqn:Ha0.
        * injection E3 as <-. dprj.
          split; [ reflexivity | ]. split; [ reflexivity | ]. right; reflexivity.
        * destruct (first_accepted accept cs) as [ y | ] eqn:Hfa; injection E3 as <-; dprj.
          -- split; [ reflexivity | ]. split; [ reflexivity | ]. right; reflexivity.
          -- rewrite Hstart.
             split; [ reflexivity | ]. split; [ reflexivity | ]. right; reflexivity.
  Qed.

  Lemma sq_iter_S : forall n c c1 c2,
    sq_iter n c = Some c1 -> sq_step c1 = Some c2 -> sq_iter (S n) c = Some c2.
  Proof.
    intros n c c1 c2 H1 H2. simpl. rewrite H1. exact H2.
  Qed.

  (* D6 *)
  Lemma seq_refines_lemma : forall i s, seq_run i s ->
    dpending s = [] /\ dresults s = [] /\
    exists n, sq_iter n (i, 0, []) = Some (cfg_of s).
  Proof.
    intros i s H. induction H as [ | s s' Hs IH Hn ].
    - split; [ reflexivity | ]. split; [ reflexivity | ]. exists 0. reflexivity.
    - destruct IH as (Hpe & Hre & n & Hit).
      pose proof (DInv_reachable _ _ _ _ _ _ (seq_run_reachable_lemma _ _ Hs)) as HI.
      destruct (seq_next_step i s s' HI Hpe Hre Hn) as (Hpe' & Hre' & Hstep).
      split; [ exact Hpe' | ]. split; [ exact Hre' | ].
      destruct Hstep as [ Hstep | Hstep ].
      + exists n. rewrite Hstep. exact Hit.
      + exists (S n). eapply sq_iter_S; [ exact Hit | exact Hstep ].
  Qed.

  (* when a sequential run is done the sequential loop has stopped too *)
  Lemma seq_done_lemma : forall i s, seq_run i s -> ddone s = true -> sq_step (cfg_of s) = None.
  Proof.
    intros i s Hs Hd.
    pose proof (DInv_reachable _ _ _ _ _ _ (seq_run_reachable_lemma _ _ Hs)) as HI.
    destruct (dinv_done _ _ _ _ _ _ HI Hd) as (Hsk & _ & _ & Hidx).
    unfold cfg_of, sq_step. rewrite (dinv_start_none _ _ _ _ _ _ HI Hsk), Hidx.
    rewrite Nat.ltb_irrefl. reflexivity.
  Qed.

  (* the sequential loop never gets stuck before it is done *)
  Lemma seq_progress_lemma : forall i s, seq_run i s -> ddone s = false ->
    exists s', seq_next s = Some s'.
  Proof.
    intros i s Hs Hd.
    pose proof (DInv_reachable _ _ _ _ _ _ (seq_run_reachable_lemma _ _ Hs)) as HI.
    destruct (seq_refines_lemma i s Hs) as (Hpe & Hre & _).
    unfold seq_next, seq_actions.
    destruct (dstopped s || negb (Nat.ltb (dindex s) nsubsets)) eqn:Hc.
    - simpl. unfold SchedDdmin.dexec. rewrite Hd, Hc, Hpe, Hre.
      destruct (dabort s) eqn:Hab.
      + assert (Hsk : dskip s = true) by (rewrite <- (dinv_abort _ _ _ _ _ _ HI); exact Hab).
        destruct (dinv_start_some _ _ _ _ _ _ HI Hsk) as [ k Hk ]. rewrite Hk.
        eexists; reflexivity.
      + eexists; reflexivity.
    - destruct (cands (dindex s) (dcur s)) as [ | c0 cs ] eqn:Hcs.
      + simpl. unfold SchedDdmin.dexec. rewrite Hd, Hc, Hcs. eexists; reflexivity.
      + cbn [SchedDdmin.dreplay].
        assert (E1 : dexec s DGen =
                     Some (mk_dst (dcur s) (S (dindex s)) (dstopped s) (dabort s) (dskip s) (dstart s)
                                  ([] ++ [mk_dtask (dindex s) (dcur s) (c0 :: cs)]) (dresults s)
                                  (dwrites s) (dchecked s) false)).
        { unfold SchedDdmin.dexec. rewrite Hd, Hc, Hcs, Hpe. reflexivity. }
        rewrite E1. unfold SchedDdmin.dexec at 2. dprj. simpl.
        unfold SchedDdmin.dexec. dprj. rewrite Hre. simpl.
        destruct (if accept c0 then Some c0 else first_accepted accept cs);
          [ destruct (dskip s) | ]; eexists; reflexivity.
  Qed.

  (* sequential runs are deterministic: any two are comparable *)
  Lemma seq_run_iter : forall i s, seq_run i s -> exists n, seq_iter n (dinit i) = Some s.
  Proof.
    intros i s H. induction H as [ | s s' Hs IH Hn ].
    - exists 0. reflexivity.
    - destruct IH as [ n Hit ]. exists (S n).
      clear Hs. revert Hit. generalize (dinit i). induction n as [ | n IHn ]; intros s0 Hit.
      + simpl in Hit. injection Hit as ->. simpl. rewrite Hn. reflexivity.
      + simpl in Hit. change (seq_iter (S (S n)) s0) with
          (match seq_next s0 with Some s1 => seq_iter (S n) s1 | None => None end).
        destruct (seq_next s0) as [ s1 | ]; [ | discriminate Hit ].
        apply IHn; exact Hit.
  Qed.

  Lemma seq_iter_add : forall n m s,
    seq_iter (n + m) s = match seq_iter n s with Some s1 => seq_iter m s1 | None => None end.
  Proof.
    intros n; induction n as [ | n IH ]; intros m s.
    - reflexivity.
    - simpl. destruct (seq_next s) as [ s1 | ]; [ apply IH | reflexivity ].
  Qed.

  Lemma seq_deterministic_lemma : forall i s1 s2, seq_run i s1 -> seq_run i s2 ->
    (exists n, seq_iter n s1 = Some s2) \/ (exists n, seq_iter n s2 = Some s1).
  Proof.
    intros i s1 s2 H1 H2.
    destruct (seq_run_iter i s1 H1) as [ n1 E1 ]. destruct (seq_run_iter i s2 H2) as [ n2 E2 ].
    destruct (Nat.le_ge_cases n1 n2) as [ Hle | Hle ].
    - left. exists (n2 - n1). replace n2 with (n1 + (n2 - n1)) in E2 by lia.
      rewrite seq_iter_add, E1 in E2. exact E2.
    - right. exists (n1 - n2). replace n1 with (n2 + (n1 - n2)) in E1 by lia.
      rewrite seq_iter_add, E2 in E1. exact E1.
  Qed.

  Lemma seq_final_lemma : forall i s1 s2, seq_run i s1 -> seq_run i s2 ->
    ddone s1 = true -> ddone s2 = true -> s1 = s2.
  Proof.
    intros i s1 s2 H1 H2 D1 D2.
    assert (Hstuck : forall s n s', ddone s = true -> seq_iter n s = Some s' -> s' = s).
    { intros s n s' Hd Hit. destruct n as [ | n ].
      - simpl in Hit. injection Hit as <-. reflexivity.
      - exfalso. simpl in Hit. unfold seq_next, seq_actions in Hit.
        destruct (dstopped s || negb (Nat.ltb (dindex s) nsubsets));
          [ | destruct (cands (dindex s) (dcur s)) ];
          simpl in Hit; unfold SchedDdmin.dexec in Hit; rewrite Hd in Hit; discriminate Hit. }
    destruct (seq_deterministic_lemma i s1 s2 H1 H2) as [ [ n Hn ] | [ n Hn ] ].
    - symmetry. eapply Hstuck; [ exact D1 | exact Hn ].
    - eapply Hstuck; [ exact D2 | exact Hn ].
  Qed.
End Seq.

Arguments seq_actions {input} cands nsubsets s.
Arguments seq_next {input} cands accept nsubsets s.
Arguments seq_run {input} cands accept nsubsets i s.
Arguments seq_iter {input} cands accept nsubsets n s.
Arguments sq_step {input} cands accept nsubsets c.
Arguments sq_iter {input} cands accept nsubsets n c.
Arguments cfg_of {input} s.
