(* D5: termination of the ddmin checking loop.  Every step from a state
   satisfying the invariant decreases a lexicographic variant
     (nsubsets - number of adoptions, skip flag, remaining work of the round)
   so the step relation restricted to reachable states is well founded and
   there is no infinite run.  No hypothesis on accept or cands is needed: the
   restart index strictly increases (DdminInv, D4). *)
From Coq Require Import Wellfounded.
From DD Require Import Proofs.Ddmin.DdminBase Proofs.Ddmin.DdminInv.

Section Term.
  Variable input : Type.
  Variable cands : nat -> input -> list input.
  Variable accept : input -> bool.
  Variable nsubsets : nat.

  Local Notation dst := (dst input).
  Local Notation dexec := (dexec input cands accept nsubsets).
  Local Notation destep := (destep cands accept nsubsets).
  Local Notation dstep := (dstep input cands accept nsubsets).
  Local Notation dreachable := (dreachable input cands accept nsubsets).
  Local Notation DInv := (DInv cands accept nsubsets).

  (* adoptions still possible *)
  Definition DM1 (s : dst) : nat := nsubsets - length (dwrites s).
  (* a restart is due *)
  Definition DM2 (s : dst) : nat := if dskip s then 1 else 0.
  (* remaining work of the round *)
  Definition DM3 (s : dst) : nat :=
    3 * (nsubsets - dindex s) + 2 * length (dpending s) + length (dresults s) +
    (if ddone s then 0 else 1).

  Definition dmlt (s' s : dst) : Prop :=
    DM1 s' < DM1 s \/
    (DM1 s' = DM1 s /\
     (DM2 s' < DM2 s \/
      (DM2 s' = DM2 s /\ DM3 s' < DM3 s))).

  Lemma dmlt_wf : well_founded dmlt.
  Proof.
    assert (H : forall a b c s, DM1 s = a -> DM2 s = b -> DM3 s = c -> Acc dmlt s).
    { intros a. induction a as [ a IHa ] using (well_founded_induction lt_wf).
      intros b. induction b as [ b IHb ] using (well_founded_induction lt_wf).
      intros c. induction c as [ c IHc ] using (well_founded_induction lt_wf).
      intros s E1 E2 E3. constructor. intros s' Hlt.
      destruct Hlt as [ Hlt | [ F1 [ Hlt | [ F2 Hlt ] ] ] ].
      - eapply (IHa (DM1 s')); [ rewrite <- E1; exact Hlt | reflexivity .. ].
      - eapply (IHb (DM2 s')); [ rewrite <- E2; exact Hlt | rewrite F1; exact E1 | reflexivity .. ].
      - eapply (IHc (DM3 s')); [ rewrite <- E3; exact Hlt | rewrite F1; exact E1
                               | rewrite F2; exact E2 | reflexivity ]. }
    intros s. eapply H; reflexivity.
  Qed.

  Lemma destep_decreases : forall i s a s', DInv i s -> destep s a s' -> dmlt s' s.
  Proof.
    intros i s a s' HI Hs. unfold dmlt.
    dstep_cases Hs; unfold DM1, DM2, DM3; dprj.
    - (* generator step, no task *)
      right; split; [ reflexivity | ]. right; split; [ reflexivity | ].
      rewrite Hf. lia.
    - (* generator step, task emitted *)
      right; split; [ reflexivity | ]. right; split; [ reflexivity | ].
      rewrite Hf, app_length. simpl. lia.
    - right; split; [ reflexivity | ]. right; split; [ reflexivity | ].
      pose proof (dremove_nth_length _ _ _ Hn) as Hl. rewrite Hf, app_length. simpl. lia.
    - right; split; [ reflexivity | ]. right; split; [ reflexivity | ].
      pose proof (dremove_nth_length _ _ _ Hn) as Hl. rewrite Hf, app_length. simpl. lia.
    - (* ignored success *)
      right; split; [ reflexivity | ]. right; split; [ rewrite Hsk; reflexivity | ].
      pose proof (dremove_nth_length _ _ _ Hn) as Hl. rewrite Hf. lia.
    - (* adoption *)
      left. apply nth_error_In in Hn.
      pose proof (dinv_lowr _ _ _ _ _ _ HI Hsk r Hn) as H1.
      destruct (dinv_res _ _ _ _ _ _ HI r Hn) as [ H2 _ ].
      pose proof (dinv_index _ _ _ _ _ _ HI) as H3. simpl. lia.
    - right; split; [ reflexivity | ]. right; split; [ reflexivity | ].
      pose proof (dremove_nth_length _ _ _ Hn) as Hl. rewrite Hf. lia.
    - (* restart *)
      right; split; [ reflexivity | ]. left.
      rewrite <- (dinv_abort _ _ _ _ _ _ HI), Hab. lia.
    - (* finish *)
      right; split; [ reflexivity | ]. right; split; [ reflexivity | ].
      rewrite Hf, Hpe, Hre. simpl. lia.
  Qed.

  Lemma d_step_decreases_lemma : forall i s a s',
    dreachable i s -> dexec s a = Some s' -> dmlt s' s.
  Proof.
    intros i s a s' Hr He.
    eapply destep_decreases; [ apply DInv_reachable; exact Hr | apply dexec_destep; exact He ].
  Qed.

  Definition drstep (i : input) (s' s : dst) : Prop := dreachable i s /\ dstep s s'.

  Lemma d_terminates_lemma : forall i, well_founded (drstep i).
  Proof.
    intros i. apply (wf_incl _ (drstep i) dmlt); [ | exact dmlt_wf ].
    intros s' s [ Hr [ a Ha ] ].
    eapply destep_decreases; [ apply DInv_reachable; exact Hr | apply dexec_destep; exact Ha ].
  Qed.

  Lemma d_no_infinite_run_lemma : forall i (f : nat -> dst),
    dreachable i (f 0) -> (forall n, dstep (f n) (f (S n))) -> False.
  Proof.
    intros i f H0 Hstep.
    assert (Hr : forall n, dreachable i (f n)).
    { intros n; induction n as [ | n IH ]; [ exact H0 | ]. eapply DRS; [ exact IH | apply Hstep ]. }
    assert (HA : forall s, Acc (drstep i) s -> forall n, f n = s -> False).
    { intros s HAcc. induction HAcc as [ s _ IH ]. intros n Hn.
      apply (IH (f (S n))) with (n := S n); [ | reflexivity ].
      split; [ rewrite <- Hn; apply Hr | rewrite <- Hn; apply Hstep ]. }
    apply (HA (f 0) (d_terminates_lemma i (f 0)) 0). reflexivity.
  Qed.
End Term.

Arguments drstep {input} cands accept nsubsets i s' s.
Arguments dmlt {input} nsubsets s' s.
