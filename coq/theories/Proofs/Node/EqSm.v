(* The explicit two-stack loop of Node.__eq__ (eq_sm) terminates within a
   linear amount of fuel and computes the structural function node_eq. *)
From DD Require Import Model.NodeEq Proofs.Node.EqSpec.

Lemma nsizes_app a b : nsizes (a ++ b) = nsizes a + nsizes b.
Proof. induction a as [|x a IH]; cbn [app nsizes fold_right] in *; [reflexivity|]. unfold nsizes in *. lia. Qed.

Lemma nsizes_rev l : nsizes (rev l) = nsizes l.
Proof.
  induction l as [|x l IH]; [reflexivity|].
  cbn [rev]. rewrite nsizes_app, IH. unfold nsizes. cbn [fold_right]. lia.
Qed.

Lemma nsize_pos n : 0 < nsize n.
Proof. destruct n; cbn [nsize]; lia. Qed.

Lemma nsize_NT i h l : nsize (NT i h l) = S (nsizes l).
Proof. reflexivity. Qed.

Lemma nsizes_cons x l : nsizes (x :: l) = nsize x + nsizes l.
Proof. reflexivity. Qed.

Section EqSm.
  Variable hstr : str -> Z.
  Notation node_eq := (node_eq hstr).
  Notation cmp_pair := (cmp_pair hstr).
  Notation eq_sm := (eq_sm hstr).
  Notation node_eq_sm := (node_eq_sm hstr).

  Lemma cmp_pair_none ns no : cmp_pair ns no = None -> node_eq ns no = false.
  Proof.
    unfold NodeEq.cmp_pair. rewrite node_eq_unfold.
    destruct (Z.eqb (nid ns) (nid no)); [discriminate|].
    destruct ns as [i s | i h l], no as [j t | j h' m];
      cbn [n_is_leaf Bool.eqb negb Node.nhash]; try reflexivity.
    - destruct (Z.eqb (hstr s) (hstr t)); cbn [negb andb]; [|reflexivity].
      destruct (str_eqb s t); [discriminate|reflexivity].
    - destruct (Z.eqb h h'); cbn [negb andb]; [|reflexivity].
      destruct (Nat.eqb (length l) (length m)); [discriminate|reflexivity].
  Qed.

  Lemma cmp_pair_some ns no a b :
    cmp_pair ns no = Some (a, b) ->
    length a = length b /\ nsizes a < nsize ns /\ node_eq ns no = forallb2 node_eq a b.
  Proof.
    unfold NodeEq.cmp_pair. rewrite node_eq_unfold.
    destruct (Z.eqb (nid ns) (nid no)).
    { intros [= <- <-]. pose proof (nsize_pos ns). cbn. auto. }
    destruct ns as [i s | i h l], no as [j t | j h' m];
      cbn [n_is_leaf Bool.eqb negb Node.nhash]; try discriminate.
    - destruct (Z.eqb (hstr s) (hstr t)); cbn [negb andb]; [|discriminate].
      destruct (str_eqb s t); [|discriminate].
      intros [= <- <-]. cbn. auto.
    - destruct (Z.eqb h h'); cbn [negb andb]; [|discriminate].
      destruct (Nat.eqb_spec (length l) (length m)) as [Hl|Hl]; [|discriminate].
      intros [= <- <-]. rewrite !rev_length, nsizes_rev, nsize_NT, forallb2_rev by exact Hl.
      repeat split; [exact Hl | lia].
  Qed.

  (* general form: two stacks of equal length *)
  Lemma eq_sm_stacks :
    forall fuel vs vo, length vs = length vo -> nsizes vs < fuel ->
      eq_sm fuel vs vo = Some (forallb2 node_eq vs vo).
  Proof.
    induction fuel as [|k IH]; intros vs vo Hl Hf; [lia|].
    destruct vs as [|ns vs], vo as [|no vo]; cbn in Hl; try discriminate; [reflexivity|].
    cbn [NodeEq.eq_sm forallb2].
    destruct (cmp_pair ns no) as [[a b]|] eqn:Hc.
    - apply cmp_pair_some in Hc as (H1 & H2 & H3).
      rewrite nsizes_cons in Hf.
      rewrite IH.
      + rewrite forallb2_app by exact H1. now rewrite H3.
      + rewrite !app_length. lia.
      + rewrite nsizes_app. lia.
    - now rewrite (cmp_pair_none _ _ Hc).
  Qed.

  (* 1c *)
  Theorem eq_sm_refines a b :
    node_eq_sm (2 * (nsize a + nsize b) + 2) a b = Some (node_eq a b).
  Proof.
    unfold NodeEq.node_eq_sm.
    destruct (Z.eqb_spec (nid a) (nid b)) as [Hid|Hid].
    - now rewrite eq_refl_id.
    - rewrite eq_sm_stacks; [| reflexivity | rewrite nsizes_cons; cbn [nsizes fold_right]; lia].
      cbn [forallb2]. now rewrite andb_true_r.
  Qed.

  (* any larger amount of fuel gives the same answer *)
  Theorem eq_sm_refines_fuel a b fuel :
    nsize a < fuel -> node_eq_sm fuel a b = Some (node_eq a b).
  Proof.
    intros Hf. unfold NodeEq.node_eq_sm.
    destruct (Z.eqb_spec (nid a) (nid b)) as [Hid|Hid].
    - now rewrite eq_refl_id.
    - rewrite eq_sm_stacks; [| reflexivity | rewrite nsizes_cons; cbn [nsizes fold_right]; lia].
      cbn [forallb2]. now rewrite andb_true_r.
  Qed.
End EqSm.
