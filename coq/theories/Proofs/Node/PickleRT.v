(* __getstate__ / __setstate__ round trip: unpickling the record sequence of a
   tree with correct hashes and non-zero identities gives back the same tree
   (same identities, same hashes) and allocates nothing. *)
From DD Require Import Model.Pickle.

Section PickleRT.
  Variable hstr : str -> Z.
  Variable htup : list Z -> Z.
  Notation hash_ok := (hash_ok hstr htup).
  Notation unpk_aux := (unpk_aux hstr htup).
  Notation unpk := (unpk hstr htup).

  Lemma unpk_node :
    forall n, hash_ok n = true -> (forall i, In i (ids n) -> i <> 0%Z) ->
    forall r hd cs fs next,
      unpk_aux (pk n ++ r) ((hd, cs) :: fs) next = unpk_aux r ((hd, n :: cs) :: fs) next.
  Proof.
    induction n as [i s | i h l IH] using node_ind'; intros Hok Hid r hd cs fs next.
    - cbn [pk app Pickle.unpk_aux]. unfold mk_state_leaf.
      destruct (Z.eqb_spec i 0) as [E|E]; [|reflexivity].
      exfalso. apply (Hid i); [cbn; auto | exact E].
    - cbn [pk app]. rewrite <- app_assoc. cbn [Pickle.unpk_aux].
      cbn [Node.hash_ok] in Hok. apply andb_true_iff in Hok as [Hh Hl].
      apply Z.eqb_eq in Hh.
      assert (Hi : i <> 0%Z) by (apply Hid; cbn; auto).
      assert (Hids : forall x, In x l -> forall j, In j (ids x) -> j <> 0%Z).
      { intros x Hx j Hj. apply Hid. cbn [ids]. right. apply in_flat_map. eauto. }
      assert (HL : forall r' hd' cs' fs',
                 unpk_aux (flat_map pk l ++ r') ((hd', cs') :: fs') next =
                 unpk_aux r' ((hd', rev l ++ cs') :: fs') next).
      { clear Hh Hid Hi. induction IH as [|x l Hx _ IHl]; intros r' hd' cs' fs'; [reflexivity|].
        cbn [flat_map forallb] in *. apply andb_true_iff in Hl as [H1 H2].
        rewrite <- app_assoc. rewrite Hx; [| exact H1 | apply Hids; now left].
        rewrite IHl; [| exact H2 | intros y Hy; apply Hids; now right].
        cbn [rev]. now rewrite <- app_assoc. }
      rewrite HL. cbn [app Pickle.unpk_aux]. rewrite app_nil_r, rev_involutive.
      unfold mk_state.
      destruct (Z.eqb_spec i 0) as [E|_]; [contradiction|].
      destruct (Z.eqb_spec h 0) as [E|_]; [rewrite <- Hh|]; reflexivity.
  Qed.

  Lemma pickle_roundtrip_nz n next :
    hash_ok n = true -> (forall i, In i (ids n) -> i <> 0%Z) ->
    unpk (pk n) next = Some n.
  Proof.
    intros Hok Hid. unfold Pickle.unpk.
    rewrite <- (app_nil_r (pk n)), unpk_node by assumption. reflexivity.
  Qed.

  (* 2 *)
  Theorem pickle_roundtrip n next :
    hash_ok n = true -> (forall i, In i (ids n) -> (0 < i)%Z) ->
    unpk (pk n) next = Some n.
  Proof.
    intros Hok Hid. apply pickle_roundtrip_nz; [exact Hok|].
    intros i Hi. apply Hid in Hi. lia.
  Qed.

  (* the allocator is not advanced *)
  Theorem pickle_no_alloc n next :
    hash_ok n = true -> (forall i, In i (ids n) -> (0 < i)%Z) ->
    Pickle.unpk_aux hstr htup (pk n) [(None, [])] next = Some ([(None, [n])], next).
  Proof.
    intros Hok Hid.
    rewrite <- (app_nil_r (pk n)), unpk_node; [reflexivity | exact Hok |].
    intros i Hi. apply Hid in Hi. lia.
  Qed.
End PickleRT.
