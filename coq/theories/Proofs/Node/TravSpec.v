(* nodes.dfs / nodes.bfs / count_nodes / count_exprs against the pre-order
   listing and the level-by-level listing of a forest. *)
From DD Require Import Model.Trav.
From Coq Require Import Permutation.

Fixpoint preorder (n : node) : list node :=
  match n with
  | NL _ _ => [n]
  | NT _ _ l => n :: flat_map preorder l
  end.

Lemma preorder_unfold n : preorder n = n :: flat_map preorder (children n).
Proof. destruct n; reflexivity. Qed.

Lemma dfs_d_NT md d i h l :
  dfs_d md d (NT i h l) =
  NT i h l :: (if expand md d then flat_map (dfs_d md (d + 1)) l else []).
Proof. reflexivity. Qed.

Lemma expand_0 d : expand 0 d = true.
Proof. reflexivity. Qed.

(* 4a *)
Lemma dfs_d_preorder : forall n d, dfs_d 0 d n = preorder n.
Proof.
  induction n as [i s | i h l IH] using node_ind'; intros d; [reflexivity|].
  rewrite dfs_d_NT, expand_0. cbn [preorder]. f_equal.
  induction IH as [|x l Hx _ IHl]; [reflexivity|].
  cbn [flat_map]. now rewrite Hx, IHl.
Qed.

Theorem dfs_preorder l : dfs 0 l = flat_map preorder l.
Proof.
  unfold dfs. induction l as [|x l IH]; [reflexivity|].
  cbn [flat_map]. now rewrite dfs_d_preorder, IH.
Qed.

(* 4e *)
Lemma dfs_d_incl : forall n md d, incl (dfs_d md d n) (preorder n).
Proof.
  induction n as [i s | i h l IH] using node_ind'; intros md d; [apply incl_refl|].
  rewrite dfs_d_NT. cbn [preorder].
  apply incl_cons; [now left|]. apply incl_tl.
  destruct (expand md d); [|intros x []].
  induction IH as [|x l Hx _ IHl]; [apply incl_refl|].
  cbn [flat_map]. apply incl_app; [apply incl_appl, Hx | apply incl_appr, IHl].
Qed.

Theorem dfs_depth_limited md l : incl (dfs md l) (dfs 0 l).
Proof.
  rewrite dfs_preorder. unfold dfs.
  induction l as [|x l IH]; [apply incl_refl|].
  cbn [flat_map]. apply incl_app; [apply incl_appl, dfs_d_incl | apply incl_appr, IH].
Qed.

(* sizes and heights *)
Lemma nsizes_app a b : nsizes (a ++ b) = nsizes a + nsizes b.
Proof. unfold nsizes. induction a as [|x a IH]; cbn [app fold_right]; [reflexivity|]. lia. Qed.

Lemma nsize_children n : nsize n = S (nsizes (children n)).
Proof. destruct n; reflexivity. Qed.

Lemma heights_app a b : heights (a ++ b) = Nat.max (heights a) (heights b).
Proof. unfold heights. induction a as [|x a IH]; cbn [app fold_right]; [reflexivity|]. lia. Qed.

Lemma height_children n : height n = S (heights (children n)).
Proof. destruct n; reflexivity. Qed.

Lemma heights_cons x l : heights (x :: l) = Nat.max (height x) (heights l).
Proof. reflexivity. Qed.

Lemma nsizes_cons x l : nsizes (x :: l) = nsize x + nsizes l.
Proof. reflexivity. Qed.

Lemma heights_0 l : heights l = 0 -> l = [].
Proof.
  destruct l as [|x l]; [reflexivity|]. rewrite heights_cons, height_children. lia.
Qed.

Lemma heights_flat_children l : heights (flat_map children l) = pred (heights l).
Proof.
  induction l as [|x l IH]; [reflexivity|].
  cbn [flat_map]. rewrite heights_app, heights_cons, height_children, IH. lia.
Qed.

Lemma bfs_q_nil fuel md : bfs_q fuel md [] = Some [].
Proof. destruct fuel; reflexivity. Qed.

Lemma bfs_levels_nil h md d : bfs_levels h md d [] = [].
Proof.
  revert d. induction h as [|h IH]; intros d; [reflexivity|].
  cbn [bfs_levels flat_map app]. rewrite IH. now destruct (expand md d).
Qed.

(* the deque holds the rest of the current level followed by the part of the
   next level produced so far *)
Lemma bfs_q_inv md :
  forall H d cur nxt fuel,
    heights (nxt ++ flat_map children cur) <= H ->
    nsizes cur + nsizes nxt <= fuel ->
    (expand md d = false -> nxt = []) ->
    bfs_q fuel md (map (pair d) cur ++ map (pair (d + 1)%Z) nxt) =
    Some (cur ++ (if expand md d
                  then bfs_levels H md (d + 1) (nxt ++ flat_map children cur) else [])).
Proof.
  assert (STEP : forall H d c cur,
    (forall nxt fuel,
        heights (nxt ++ flat_map children cur) <= H ->
        nsizes cur + nsizes nxt <= fuel ->
        (expand md d = false -> nxt = []) ->
        bfs_q fuel md (map (pair d) cur ++ map (pair (d + 1)%Z) nxt) =
        Some (cur ++ (if expand md d
                      then bfs_levels H md (d + 1) (nxt ++ flat_map children cur) else []))) ->
    forall nxt fuel,
        heights (nxt ++ flat_map children (c :: cur)) <= H ->
        nsizes (c :: cur) + nsizes nxt <= fuel ->
        (expand md d = false -> nxt = []) ->
        bfs_q fuel md (map (pair d) (c :: cur) ++ map (pair (d + 1)%Z) nxt) =
        Some ((c :: cur) ++ (if expand md d
                      then bfs_levels H md (d + 1) (nxt ++ flat_map children (c :: cur)) else []))).
  { intros H d c cur IHc nxt fuel Hh Hf He.
    rewrite nsizes_cons, nsize_children in Hf.
    destruct fuel as [|k]; [lia|].
    cbn [map app bfs_q flat_map] in *.
    destruct (expand md d) eqn:Ex.
    - rewrite <- app_assoc, <- map_app. rewrite IHc.
      + now rewrite <- app_assoc.
      + now rewrite <- app_assoc.
      + rewrite nsizes_app. lia.
      + discriminate.
    - rewrite app_nil_r. rewrite IHc.
      + reflexivity.
      + rewrite (He eq_refl). cbn [app]. rewrite (He eq_refl) in Hh. cbn [app] in Hh.
        rewrite heights_app in Hh. lia.
      + lia.
      + exact He. }
  induction H as [|H IHH]; intros d; induction cur as [|c cur IHc]; intros nxt fuel Hh Hf He;
    try (apply STEP; assumption).
  - (* no height left: the deque is empty *)
    cbn [flat_map map app] in *. rewrite app_nil_r in Hh.
    assert (nxt = []) as -> by (apply heights_0; lia).
    cbn [map]. rewrite bfs_q_nil. now destruct (expand md d).
  - (* current level exhausted: the next level becomes current *)
    cbn [flat_map map app] in *. rewrite app_nil_r in *.
    destruct (expand md d) eqn:Ex.
    + replace (map (pair (d + 1)%Z) nxt)
        with (map (pair (d + 1)%Z) nxt ++ map (pair (d + 1 + 1)%Z) []) by apply app_nil_r.
      rewrite IHH.
      * reflexivity.
      * cbn [app]. rewrite heights_flat_children. lia.
      * cbn [nsizes fold_right] in *. lia.
      * reflexivity.
    + rewrite (He eq_refl). cbn [map]. now rewrite bfs_q_nil.
Qed.

(* 4b *)
Theorem bfs_spec md l : bfs md l = Some (bfs_levels (heights l) md 1 l).
Proof.
  unfold bfs.
  destruct l as [|x l'] eqn:El; [reflexivity|]. rewrite <- El.
  assert (Hpos : heights l = S (pred (heights l))).
  { rewrite El, heights_cons, height_children. lia. }
  rewrite Hpos. cbn [bfs_levels].
  change (map (fun n : node => (1%Z, n)) l) with (map (pair 1%Z) l).
  pose proof (bfs_q_inv md (pred (heights l)) 1%Z l [] (nsizes l)) as HI.
  cbn [map app] in HI. rewrite app_nil_r in HI.
  rewrite HI.
  - reflexivity.
  - rewrite heights_flat_children. lia.
  - cbn [nsizes fold_right]. lia.
  - reflexivity.
Qed.

(* 4c *)
Lemma preorder_levels_perm l :
  Permutation (flat_map preorder l) (l ++ flat_map preorder (flat_map children l)).
Proof.
  induction l as [|x l IH]; [constructor|].
  cbn [flat_map app]. rewrite preorder_unfold. cbn [app]. constructor.
  rewrite flat_map_app.
  rewrite IH. apply Permutation_app_swap_app.
Qed.

Lemma bfs_levels_perm : forall H d l,
  heights l <= H -> Permutation (bfs_levels H 0 d l) (flat_map preorder l).
Proof.
  induction H as [|H IH]; intros d l Hh.
  - assert (l = []) as -> by (apply heights_0; lia). constructor.
  - cbn [bfs_levels]. rewrite expand_0. rewrite preorder_levels_perm.
    apply Permutation_app_head. apply IH. rewrite heights_flat_children. lia.
Qed.

Theorem visit_once l r : bfs 0 l = Some r -> Permutation r (dfs 0 l).
Proof.
  rewrite bfs_spec, dfs_preorder. intros [= <-]. now apply bfs_levels_perm.
Qed.

(* 4d *)
Lemma length_preorder : forall n, length (preorder n) = nsize n.
Proof.
  induction n as [i s | i h l IH] using node_ind'; [reflexivity|].
  cbn [preorder nsize length]. f_equal.
  induction IH as [|x l Hx _ IHl]; [reflexivity|].
  cbn [flat_map fold_right]. now rewrite app_length, Hx, IHl.
Qed.

Theorem count_nodes_spec l : count_nodes l = length (dfs 0 l).
Proof.
  rewrite dfs_preorder. unfold count_nodes, nsizes.
  induction l as [|x l IH]; [reflexivity|].
  cbn [flat_map fold_right]. now rewrite app_length, length_preorder, IH.
Qed.

Definition is_expr (n : node) : bool := negb (n_is_leaf n).

Lemma count_exprs1_preorder :
  forall n, count_exprs1 n = length (filter is_expr (preorder n)).
Proof.
  induction n as [i s | i h l IH] using node_ind'; [reflexivity|].
  cbn [preorder count_exprs1 filter is_expr n_is_leaf negb length]. f_equal.
  induction IH as [|x l Hx _ IHl]; [reflexivity|].
  cbn [flat_map fold_right]. now rewrite filter_app, app_length, Hx, IHl.
Qed.

Theorem count_exprs_spec l :
  count_exprs l = length (filter (fun n => negb (n_is_leaf n)) (dfs 0 l)).
Proof.
  rewrite dfs_preorder. unfold count_exprs. change (fun n => negb (n_is_leaf n)) with is_expr.
  induction l as [|x l IH]; [reflexivity|].
  cbn [flat_map fold_right]. now rewrite filter_app, app_length, count_exprs1_preorder, IH.
Qed.
