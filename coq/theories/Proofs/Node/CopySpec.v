(* Node.__deepcopy__: same shape, fresh pairwise distinct identities taken
   from the allocator interval, correct cached hashes; hence equal to the
   original whenever the original has correct hashes. *)
From DD Require Import Model.Copy Model.NodeEq Proofs.Node.EqSpec.

Lemma NoDup_app_disj {A : Type} (a b : list A) :
  NoDup a -> NoDup b -> (forall x, In x a -> In x b -> False) -> NoDup (a ++ b).
Proof.
  intros Ha Hb Hd. induction Ha as [|x a Hx Ha IH]; [exact Hb|].
  cbn [app]. constructor.
  - intros Hin. apply in_app_or in Hin as [Hin|Hin]; [now apply Hx|].
    apply (Hd x); [now left | exact Hin].
  - apply IH. intros y Hy1 Hy2. apply (Hd y); [now right | exact Hy2].
Qed.

Section CopySpec.
  Variable hstr : str -> Z.
  Variable htup : list Z -> Z.
  Notation copy := (copy hstr htup).
  Notation hash_ok := (hash_ok hstr htup).

  Fixpoint copy_list (next : Z) (l : list node) : list node * Z :=
    match l with
    | [] => ([], next)
    | x :: xs => let '(c, nx) := copy next x in
                 let '(r, nx') := copy_list nx xs in (c :: r, nx')
    end.

  Lemma copy_list_fix : forall l next,
    copy_list next l =
    (fix go (next : Z) (l : list node) : list node * Z :=
       match l with
       | [] => ([], next)
       | x :: xs => let '(c, nx) := copy next x in
                    let '(r, nx') := go nx xs in (c :: r, nx')
       end) next l.
  Proof.
    induction l as [|x l IH]; intros next; cbn [copy_list]; [reflexivity|].
    destruct (copy next x) as [c nx]. now rewrite IH.
  Qed.

  Lemma copy_NT next i h l :
    copy next (NT i h l) = let '(cs, nx) := copy_list next l in mk_tuple hstr htup nx cs.
  Proof. rewrite copy_list_fix. reflexivity. Qed.

  Definition good (next : Z) (n c : node) (nx : Z) : Prop :=
    shape c = shape n /\ (next < nx)%Z /\
    (forall i, In i (ids c) -> (next < i <= nx)%Z) /\
    NoDup (ids c) /\ hash_ok c = true.

  Definition goodl (next : Z) (l cs : list node) (nx : Z) : Prop :=
    map shape cs = map shape l /\ (next <= nx)%Z /\
    (forall i, In i (flat_map ids cs) -> (next < i <= nx)%Z) /\
    NoDup (flat_map ids cs) /\ forallb hash_ok cs = true.

  Lemma copy_list_good l :
    Forall (fun n => forall next, good next n (fst (copy next n)) (snd (copy next n))) l ->
    forall next, goodl next l (fst (copy_list next l)) (snd (copy_list next l)).
  Proof.
    intros HF. induction HF as [|x l Hx _ IHl]; intros next.
    - unfold goodl. cbn [copy_list fst snd map flat_map forallb].
      split; [reflexivity|]. split; [lia|]. split; [intros i []|]. split; [constructor|reflexivity].
    - cbn [copy_list]. specialize (Hx next).
      destruct (copy next x) as [c nx]. specialize (IHl nx).
      destruct (copy_list nx l) as [r nx']. cbn [fst snd] in *.
      destruct Hx as (S1 & L1 & R1 & D1 & K1). destruct IHl as (S2 & L2 & R2 & D2 & K2).
      unfold goodl. cbn [map flat_map forallb].
      split; [|split; [|split; [|split]]].
      + congruence.
      + lia.
      + intros i H. apply in_app_or in H as [H|H]; [apply R1 in H | apply R2 in H]; lia.
      + apply NoDup_app_disj; [exact D1 | exact D2 |].
        intros i H1 H2. apply R1 in H1. apply R2 in H2. lia.
      + now rewrite K1, K2.
  Qed.

  Lemma copy_good : forall n next, good next n (fst (copy next n)) (snd (copy next n)).
  Proof.
    induction n as [i s | i h l IH] using node_ind'; intros next.
    - unfold good, mk_leaf. cbn [Copy.copy mk_leaf fst snd shape ids Node.hash_ok].
      split; [reflexivity|]. split; [lia|]. split; [|split; [|reflexivity]].
      + intros j [<-|[]]. lia.
      + constructor; [intros [] | constructor].
    - rewrite copy_NT. pose proof (copy_list_good l IH next) as HG.
      destruct (copy_list next l) as [cs nx]. cbn [fst snd] in HG.
      destruct HG as (S2 & L2 & R2 & D2 & K2).
      unfold mk_tuple, good. cbn [fst snd shape ids Node.hash_ok].
      split; [|split; [|split; [|split]]].
      + now rewrite S2.
      + lia.
      + intros j [<-|H]; [lia | apply R2 in H; lia].
      + constructor; [|exact D2]. intros H. apply R2 in H. lia.
      + now rewrite Z.eqb_refl, K2.
  Qed.

  (* 3 *)
  Theorem copy_shape next n : shape (fst (copy next n)) = shape n.
  Proof. apply (copy_good n next). Qed.

  Theorem copy_fresh next n :
    forall i, In i (ids (fst (copy next n))) -> (next < i <= snd (copy next n))%Z.
  Proof. apply (copy_good n next). Qed.

  Theorem copy_nodup next n : NoDup (ids (fst (copy next n))).
  Proof. apply (copy_good n next). Qed.

  Theorem copy_hash_ok next n : hash_ok (fst (copy next n)) = true.
  Proof. apply (copy_good n next). Qed.

  Theorem copy_advances next n : (next < snd (copy next n))%Z.
  Proof. destruct (copy_good n next) as (_ & H & _). exact H. Qed.

  (* the copy compares equal to the original; freshness is not needed *)
  Theorem copy_equal_gen next n :
    hash_ok n = true -> node_eq hstr (fst (copy next n)) n = true.
  Proof.
    intros Hok. apply (eq_complete hstr htup); [apply copy_hash_ok | exact Hok | apply copy_shape].
  Qed.

  Theorem copy_equal next n :
    hash_ok n = true -> (forall i, In i (ids n) -> (i <= next)%Z) ->
    node_eq hstr (fst (copy next n)) n = true.
  Proof. intros Hok _. now apply copy_equal_gen. Qed.

  (* original and copy share no identity when the original is below the allocator *)
  Theorem copy_disjoint next n :
    (forall i, In i (ids n) -> (i <= next)%Z) ->
    forall i, In i (ids (fst (copy next n))) -> ~ In i (ids n).
  Proof. intros Hn i Hc Hi. apply copy_fresh in Hc. apply Hn in Hi. lia. Qed.
End CopySpec.
