(* Node.__eq__ (structural model node_eq) against the shape of the trees:
   soundness needs coherence of identities (the identity short-cut),
   completeness needs the cached hashes to be right (the hash short-cut). *)
From DD Require Import Model.NodeEq.

Fixpoint forallb2 {A B : Type} (f : A -> B -> bool) (l : list A) (m : list B) : bool :=
  match l, m with
  | [], [] => true
  | x :: l', y :: m' => f x y && forallb2 f l' m'
  | _, _ => false
  end.

Lemma forallb2_app {A B : Type} (f : A -> B -> bool) :
  forall a b c d, length a = length b ->
    forallb2 f (a ++ c) (b ++ d) = forallb2 f a b && forallb2 f c d.
Proof.
  induction a as [|x a IH]; intros [|y b] c d Hl; cbn in Hl; try discriminate.
  - reflexivity.
  - cbn [app forallb2]. rewrite IH by congruence. now rewrite andb_assoc.
Qed.

Lemma forallb2_rev {A B : Type} (f : A -> B -> bool) :
  forall l m, length l = length m -> forallb2 f (rev l) (rev m) = forallb2 f l m.
Proof.
  induction l as [|x l IH]; intros [|y m] Hl; cbn in Hl; try discriminate.
  - reflexivity.
  - cbn [rev]. rewrite forallb2_app by (rewrite !rev_length; congruence).
    rewrite IH by congruence. cbn [forallb2]. rewrite andb_true_r. apply andb_comm.
Qed.

(* all nodes of a tree: the node itself and all its descendants *)
Fixpoint subnodes (n : node) : list node :=
  match n with
  | NL _ _ => [n]
  | NT _ _ l => n :: flat_map subnodes l
  end.

Definition coherent_on (S : list node) : Prop :=
  forall x y, In x S -> In y S -> nid x = nid y -> shape x = shape y.

Definition coherent (a b : node) : Prop :=
  forall x y, In x (subnodes a ++ subnodes b) -> In y (subnodes a ++ subnodes b) ->
    nid x = nid y -> shape x = shape y.

Lemma subnodes_self n : In n (subnodes n).
Proof. destruct n; cbn; auto. Qed.

Lemma subnodes_child i h l x : In x l -> incl (subnodes x) (subnodes (NT i h l)).
Proof. intros Hx y Hy. cbn [subnodes]. right. apply in_flat_map. eauto. Qed.

Lemma str_eqb_sym a b : str_eqb a b = str_eqb b a.
Proof.
  destruct (str_eqb a b) eqn:E1, (str_eqb b a) eqn:E2; try reflexivity.
  - apply str_eqb_eq in E1. subst. now rewrite str_eqb_refl in E2.
  - apply str_eqb_eq in E2. subst. now rewrite str_eqb_refl in E1.
Qed.

Section EqSpec.
  Variable hstr : str -> Z.
  Variable htup : list Z -> Z.
  Notation node_eq := (node_eq hstr).
  Notation nhash := (nhash hstr).
  Notation hash_ok := (hash_ok hstr htup).
  Notation shash := (shash hstr htup).

  Lemma node_eq_unfold a b :
    node_eq a b =
    if Z.eqb (nid a) (nid b) then true
    else match a, b with
         | NL _ s, NL _ t => Z.eqb (hstr s) (hstr t) && str_eqb s t
         | NT _ h l, NT _ h' m =>
             Z.eqb h h' && Nat.eqb (length l) (length m) && forallb2 node_eq l m
         | _, _ => false
         end.
  Proof.
    destruct a as [i s | i h l], b as [j t | j h' m]; cbn [NodeEq.node_eq]; try reflexivity.
    destruct (Z.eqb (nid (NT i h l)) (nid (NT j h' m))); [reflexivity|].
    f_equal. clear. revert m.
    induction l as [|x l IH]; intros [|y m]; cbn [forallb2]; try reflexivity.
    now rewrite IH.
  Qed.

  (* 1d *)
  Lemma eq_refl_id a b : nid a = nid b -> node_eq a b = true.
  Proof. intros H. rewrite node_eq_unfold, H, Z.eqb_refl. reflexivity. Qed.

  Lemma node_eq_sym : forall a b, node_eq a b = node_eq b a.
  Proof.
    induction a as [i s | i h l IH] using node_ind'; intros b;
      rewrite (node_eq_unfold _ b), (node_eq_unfold b _);
      rewrite (Z.eqb_sym (nid b)); destruct (Z.eqb _ (nid b)); try reflexivity;
      destruct b as [j t | j h' m]; try reflexivity.
    - now rewrite Z.eqb_sym, str_eqb_sym.
    - rewrite (Z.eqb_sym h), (Nat.eqb_sym (length l)). f_equal.
      revert m. induction IH as [|x l Hx _ IHl]; intros [|y m]; cbn [forallb2]; try reflexivity.
      now rewrite Hx, IHl.
  Qed.

  (* soundness: uses only coherence *)
  Lemma eq_sound (S : list node) (HS : coherent_on S) :
    forall a b, incl (subnodes a) S -> incl (subnodes b) S ->
      node_eq a b = true -> shape a = shape b.
  Proof.
    induction a as [i s | i h l IH] using node_ind'; intros b Ha Hb He;
      rewrite node_eq_unfold in He;
      match type of He with context [Z.eqb ?x ?y] => destruct (Z.eqb_spec x y) as [Hid|Hid] end;
      try (apply HS; [apply Ha, subnodes_self | apply Hb, subnodes_self | exact Hid]).
    - destruct b as [j t | j h' m]; [|discriminate].
      apply andb_true_iff in He as [_ He]. apply str_eqb_eq in He. now subst.
    - destruct b as [j t | j h' m]; [discriminate|].
      apply andb_true_iff in He as [He H3]. clear He.
      cbn [shape]. f_equal.
      assert (Hl : forall x, In x l -> incl (subnodes x) S).
      { intros x Hx. eapply incl_tran; [apply subnodes_child, Hx | exact Ha]. }
      assert (Hm : forall y, In y m -> incl (subnodes y) S).
      { intros y Hy. eapply incl_tran; [apply subnodes_child, Hy | exact Hb]. }
      clear Ha Hb Hid. revert m H3 Hm.
      induction IH as [|x l Hx _ IHl]; intros [|y m] H3 Hm; cbn [forallb2] in H3;
        try discriminate; [reflexivity|].
      apply andb_true_iff in H3 as [H1 H2]. cbn [map]. f_equal.
      + apply Hx; [apply Hl | apply Hm | exact H1]; now left.
      + apply IHl; [intros z Hz; apply Hl; now right | exact H2 | intros z Hz; apply Hm; now right].
  Qed.

  (* 1b *)
  Lemma nhash_shash : forall n, hash_ok n = true -> nhash n = shash (shape n).
  Proof.
    induction n as [i s | i h l IH] using node_ind'; intros Hok;
      cbn [Node.hash_ok Node.nhash shape Node.shash] in *; [reflexivity|].
    apply andb_true_iff in Hok as [Hh Hl]. apply Z.eqb_eq in Hh. rewrite Hh. f_equal.
    rewrite map_map. clear Hh.
    induction IH as [|x l Hx _ IHl]; [reflexivity|].
    cbn [forallb] in Hl. apply andb_true_iff in Hl as [H1 H2].
    cbn [map]. f_equal; [apply Hx, H1 | apply IHl, H2].
  Qed.

  Lemma eq_hash a b :
    hash_ok a = true -> hash_ok b = true -> shape a = shape b -> nhash a = nhash b.
  Proof. intros Ha Hb Hs. rewrite (nhash_shash a Ha), (nhash_shash b Hb), Hs. reflexivity. Qed.

  (* completeness: uses only the hash invariant *)
  Lemma eq_complete :
    forall a b, hash_ok a = true -> hash_ok b = true -> shape a = shape b -> node_eq a b = true.
  Proof.
    induction a as [i s | i h l IH] using node_ind'; intros b Ha Hb Hs;
      rewrite node_eq_unfold; destruct (Z.eqb _ (nid b)); try reflexivity;
      destruct b as [j t | j h' m]; cbn [shape] in Hs; try discriminate.
    - injection Hs as ->. now rewrite Z.eqb_refl, str_eqb_refl.
    - pose proof (eq_hash _ _ Ha Hb) as Hh. cbn [Node.nhash shape] in Hh.
      rewrite (Hh Hs), Z.eqb_refl. injection Hs as Hs.
      assert (Hlen : length l = length m).
      { apply (f_equal (@length _)) in Hs. now rewrite !map_length in Hs. }
      rewrite Hlen, Nat.eqb_refl. cbn [andb].
      cbn [Node.hash_ok] in Ha, Hb.
      apply andb_true_iff in Ha as [_ Ha]. apply andb_true_iff in Hb as [_ Hb].
      clear Hh Hlen. revert m Hs Hb.
      induction IH as [|x l Hx _ IHl]; intros [|y m] Hs Hb; cbn [map] in Hs;
        try discriminate; [reflexivity|].
      injection Hs as Hs1 Hs2. cbn [forallb] in Ha, Hb.
      apply andb_true_iff in Ha as [Ha1 Ha2]. apply andb_true_iff in Hb as [Hb1 Hb2].
      cbn [forallb2]. rewrite (Hx y Ha1 Hb1 Hs1), (IHl Ha2 m Hs2 Hb2). reflexivity.
  Qed.

  (* 1a *)
  Theorem eq_spec a b :
    hash_ok a = true -> hash_ok b = true -> coherent a b ->
    (node_eq a b = true <-> shape a = shape b).
  Proof.
    intros Ha Hb Hc. split.
    - apply (eq_sound (subnodes a ++ subnodes b) Hc).
      + apply incl_appl, incl_refl.
      + apply incl_appr, incl_refl.
    - apply eq_complete; assumption.
  Qed.
End EqSpec.
