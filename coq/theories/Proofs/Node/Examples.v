(* The hypotheses of the node theorems are satisfiable on concrete trees, and
   the two hypotheses of eq_spec cannot be dropped. *)
From DD Require Import Model.NodeEq Model.Pickle Model.Copy Model.Trav.
From DD Require Import Proofs.Node.EqSpec Proofs.Node.EqSm Proofs.Node.PickleRT
  Proofs.Node.CopySpec Proofs.Node.TravSpec.

Definition hs : str -> Z := fun s => Z.of_nat (length s).
Definition ht : list Z -> Z := fun l => fold_left Z.add l 1%Z.

Definition ex_shape : sexp := T [L [97%N]; T [L [98%N]; L [97%N; 99%N]]; T []].
Definition ex_a : node := fst (build hs ht 0 ex_shape).
Definition ex_b : node := fst (build hs ht 20 ex_shape).

Example ex_hash_ok : hash_ok hs ht ex_a = true /\ hash_ok hs ht ex_b = true.
Proof. split; vm_compute; reflexivity. Qed.

Example ex_coherent : coherent ex_a ex_b.
Proof.
  intros x y Hx Hy. vm_compute in Hx, Hy.
  repeat (destruct Hx as [<-|Hx]); try contradiction;
    repeat (destruct Hy as [<-|Hy]); try contradiction;
    intros E; vm_compute in E |- *; first [reflexivity | discriminate E].
Qed.

Example ex_eq : node_eq hs ex_a ex_b = true.
Proof.
  apply (eq_spec hs ht); [apply ex_hash_ok | apply ex_hash_ok | apply ex_coherent | reflexivity].
Qed.

Example ex_eq_sm : node_eq_sm hs (2 * (nsize ex_a + nsize ex_b) + 2) ex_a ex_b = Some true.
Proof. rewrite eq_sm_refines, ex_eq. reflexivity. Qed.

(* coherence is necessary: same identity 2 with two different payloads *)
Example ex_incoherent :
  let a := NT 1 (ht [1%Z]) [NL 2 [97%N]] in
  let b := NT 3 (ht [1%Z]) [NL 2 [98%N]] in
  hash_ok hs ht a = true /\ hash_ok hs ht b = true /\
  node_eq hs a b = true /\ shape a <> shape b.
Proof. cbv zeta. repeat split; try (vm_compute; reflexivity). discriminate. Qed.

(* the hash invariant is necessary: a stale cached hash makes equal shapes differ *)
Example ex_stale_hash :
  let a := NT 1 (ht [1%Z]) [NL 2 [97%N]] in
  let b := NT 3 77 [NL 4 [97%N]] in
  coherent a b /\ shape a = shape b /\ hash_ok hs ht b = false /\ node_eq hs a b = false.
Proof.
  cbv zeta. split; [|repeat split; vm_compute; reflexivity].
  intros x y Hx Hy. vm_compute in Hx, Hy.
  repeat (destruct Hx as [<-|Hx]); try contradiction;
    repeat (destruct Hy as [<-|Hy]); try contradiction;
    intros E; vm_compute in E |- *; first [reflexivity | discriminate E].
Qed.

Example ex_ids_pos : forall i, In i (ids ex_a) -> (0 < i)%Z.
Proof.
  intros i Hi. vm_compute in Hi.
  repeat (destruct Hi as [<-|Hi]); try contradiction; reflexivity.
Qed.

Example ex_pickle : unpk hs ht (pk ex_a) 100 = Some ex_a.
Proof. apply pickle_roundtrip; [apply ex_hash_ok | apply ex_ids_pos]. Qed.

Example ex_ids_below : forall i, In i (ids ex_a) -> (i <= 50)%Z.
Proof.
  intros i Hi. vm_compute in Hi.
  repeat (destruct Hi as [<-|Hi]); try contradiction; discriminate.
Qed.

Example ex_copy_equal : node_eq hs (fst (copy hs ht 50 ex_a)) ex_a = true.
Proof. apply (copy_equal hs ht); [apply ex_hash_ok | apply ex_ids_below]. Qed.

Example ex_copy_ids : ids (fst (copy hs ht 50 ex_a)) = [56; 51; 54; 52; 53; 55]%Z.
Proof. vm_compute. reflexivity. Qed.

Example ex_bfs :
  option_map (map nid) (bfs 0 [ex_a; ex_b]) = Some [6; 26; 1; 4; 5; 21; 24; 25; 2; 3; 22; 23]%Z
  /\ map nid (dfs 0 [ex_a; ex_b]) = [6; 1; 4; 2; 3; 5; 26; 21; 24; 22; 23; 25]%Z
  /\ map nid (dfs 2 [ex_a; ex_b]) = [6; 1; 4; 5; 26; 21; 24; 25]%Z
  /\ count_nodes [ex_a; ex_b] = 12 /\ count_exprs [ex_a; ex_b] = 6.
Proof. repeat split; vm_compute; reflexivity. Qed.
