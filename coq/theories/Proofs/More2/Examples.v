(* Concrete valuation and term builders for the examples of Props/ConstRwProps.v. *)
From DD Require Import Spec.Semantics Model.Rewrites Model.ConstRw.
Local Open Scope list_scope.

Definition cr_rho : list (str * value) :=
  [(lit "x", VV 4 10); (lit "y", VV 4 0); (lit "z", VV 6 33); (lit "a", VV 1 1); (lit "b", VV 1 0);
   (lit "i", VI 3); (lit "j", VI (-2)); (lit "k", VI 7)].

(* ((_ zero_extend k) t) with the index written as a string *)
Definition zxs (k : string) (t : sexp) : sexp := T [T [lf "_"; lf "zero_extend"; lf k]; t].

Lemma cr_rho_lit_free : forall s, is_bv_const (L s) = true -> lookup_v s cr_rho = None.
Proof.
  intros s H. destruct s as [|c [|d tl]]; try discriminate H. cbn [is_bv_const] in H.
  destruct (N.eqb c cHASH) eqn:E; [|discriminate H]. apply N.eqb_eq in E. subst c. reflexivity.
Qed.

Lemma cr_rho_ok : forall k u, lookup_v k cr_rho = Some u -> match u with VV w n => (n < 2 ^ w)%N | _ => True end.
Proof.
  intros k u H. unfold cr_rho in H. cbn [lookup_v] in H.
  repeat match type of H with
         | (if ?c then _ else _) = _ => destruct c; [injection H as <-; first [exact I | reflexivity]|]
         end.
  discriminate H.
Qed.
