(* BVTransformToBool with the constant 1 of width 1: (= #b1 (bvand x ...)) is (and (= #b1 x) ...), likewise for
   bvor / or and bvxor / xor, in both orders of the equality.  (With the constant 0, which the mutator accepts as
   well, none of the three holds: Props/ConstRwProps.v.) *)
From Coq Require Import ZifyBool.
From DD Require Import Spec.Semantics Model.Rewrites Model.ConstRw.
From DD Require Import Proofs.Rw.DigitsRT Proofs.Rw.EvalBase Proofs.Rw.Range Proofs.Rw.BoolRw Proofs.Rw.BvConst Proofs.More2.Ident.
Local Open Scope list_scope.

Lemma ap_bvand vs : apply_op (lit "bvand") vs =
  match all_bvs vs with Some (w, x :: r) => if Nat.leb 2 (length vs) then Some (VV w (fold_left N.land r x)) else None | _ => None end.
Proof. reflexivity. Qed.
Lemma ap_bvor vs : apply_op (lit "bvor") vs =
  match all_bvs vs with Some (w, x :: r) => if Nat.leb 2 (length vs) then Some (VV w (fold_left N.lor r x)) else None | _ => None end.
Proof. reflexivity. Qed.
Lemma ap_bvxor vs : apply_op (lit "bvxor") vs =
  match all_bvs vs with Some (w, x :: r) => if Nat.leb 2 (length vs) then Some (VV w (fold_left N.lxor r x)) else None | _ => None end.
Proof. reflexivity. Qed.

Lemma opt_all_bv_map w : forall (r : list value) ms,
  opt_all_v (map (fun v => match v with VV w' m => if N.eqb w w' then Some m else None | _ => None end) r) = Some ms ->
  r = map (VV w) ms.
Proof.
  induction r as [|v r IH]; intros ms H.
  - injection H as <-. reflexivity.
  - cbn [map] in H. rewrite opt_all_v_cons in H.
    destruct v as [?|?|w' m]; try discriminate H.
    destruct (N.eqb w w') eqn:E; [|discriminate H]. apply N.eqb_eq in E. subst w'.
    destruct (opt_all_v _) as [ms'|] eqn:E'; [|discriminate H]. injection H as <-.
    cbn [map]. f_equal. now apply IH.
Qed.

Lemma all_bvs_map vs w ns : all_bvs vs = Some (w, ns) -> vs = map (VV w) ns.
Proof.
  unfold all_bvs. destruct vs as [|[?|?|w' n] r]; try discriminate.
  destruct (opt_all_v _) as [ms|] eqn:E; [|discriminate]. intro H. injection H as <- <-.
  cbn [map]. f_equal. now apply opt_all_bv_map.
Qed.

Lemma eval_eq_args rho c vc : eval rho c = Some vc -> forall args vs,
  eval_args rho args = Some vs ->
  eval_args rho (map (fun d => T [lf "="; c; d]) args) = Some (map (fun vd => VB (value_eqb vc vd && true)) vs).
Proof.
  intros Hc. induction args as [|d args IH]; intros vs H.
  - apply eval_args_nil_inv in H. now subst.
  - apply eval_args_cons_inv in H as (vd & r & Hd & Hr & ->). cbn [map]. rewrite eval_args_cons, (IH r Hr).
    unfold lf. rewrite (eval_bin_intro rho (lit "=") c d vc vd eq_refl eq_refl Hc Hd), ap_eq. reflexivity.
Qed.

(* ---- bits ---- *)
Definition is1 (n : N) : bool := N.eqb 1 n.
Lemma bit_cases x : (x < 2)%N -> x = 0%N \/ x = 1%N.
Proof. lia. Qed.

Lemma land_bits : forall ms x, (x < 2)%N -> Forall (fun n => (n < 2)%N) ms ->
  is1 (fold_left N.land ms x) = forallb (fun b => b) (map is1 (x :: ms)).
Proof.
  induction ms as [|m ms IH]; intros x Hx Hms.
  - cbn. now rewrite andb_true_r.
  - inversion Hms as [|? ? Hm Hms']; subst. cbn [fold_left].
    assert (Hl : (N.land x m < 2)%N /\ is1 (N.land x m) = is1 x && is1 m)
      by (destruct (bit_cases x Hx) as [-> | ->], (bit_cases m Hm) as [-> | ->]; split; cbn; lia || reflexivity).
    destruct Hl as [Hl1 Hl2]. rewrite (IH _ Hl1 Hms'). cbn [map forallb]. rewrite Hl2. now rewrite andb_assoc.
Qed.

Lemma lor_bits : forall ms x, (x < 2)%N -> Forall (fun n => (n < 2)%N) ms ->
  is1 (fold_left N.lor ms x) = existsb (fun b => b) (map is1 (x :: ms)).
Proof.
  induction ms as [|m ms IH]; intros x Hx Hms.
  - cbn. now rewrite orb_false_r.
  - inversion Hms as [|? ? Hm Hms']; subst. cbn [fold_left].
    assert (Hl : (N.lor x m < 2)%N /\ is1 (N.lor x m) = is1 x || is1 m)
      by (destruct (bit_cases x Hx) as [-> | ->], (bit_cases m Hm) as [-> | ->]; split; cbn; lia || reflexivity).
    destruct Hl as [Hl1 Hl2]. rewrite (IH _ Hl1 Hms'). cbn [map existsb]. rewrite Hl2. now rewrite orb_assoc.
Qed.

Lemma lxor_bits : forall ms x, (x < 2)%N -> Forall (fun n => (n < 2)%N) ms ->
  is1 (fold_left N.lxor ms x) = fold_left xorb (map is1 ms) (is1 x).
Proof.
  induction ms as [|m ms IH]; intros x Hx Hms; [reflexivity|].
  inversion Hms as [|? ? Hm Hms']; subst. cbn [fold_left map].
  assert (Hl : (N.lxor x m < 2)%N /\ is1 (N.lxor x m) = xorb (is1 x) (is1 m))
    by (destruct (bit_cases x Hx) as [-> | ->], (bit_cases m Hm) as [-> | ->]; split; cbn; lia || reflexivity).
  destruct Hl as [Hl1 Hl2]. now rewrite (IH _ Hl1 Hms'), Hl2.
Qed.

Lemma existsb_all_false {A} (l : list A) : existsb (fun b => b) (map (fun _ => false) l) = false.
Proof. induction l as [|a l IH]; [reflexivity|]. exact IH. Qed.
Lemma xor_all_false {A} (l : list A) : fold_left xorb (map (fun _ => false) l) false = false.
Proof. induction l as [|a l IH]; [reflexivity|]. exact IH. Qed.

(* the comparison of each operand with the constant 1 *)
Definition cmp1 (w n : N) : bool := value_eqb (VV 1 1) (VV w n) && true.
Lemma cmp1_w1 n : cmp1 1 n = is1 n.
Proof. unfold cmp1, is1. cbn. now rewrite andb_true_r. Qed.
Lemma cmp1_other w n : w <> 1%N -> cmp1 w n = false.
Proof. intro H. unfold cmp1. cbn [value_eqb]. replace (N.eqb 1 w) with false by (symmetry; apply N.eqb_neq; lia). reflexivity. Qed.

Lemma cmp1_land w x ms : Forall (fun n => (n < 2 ^ w)%N) (x :: ms) ->
  cmp1 w (fold_left N.land ms x) = forallb (fun b => b) (map (cmp1 w) (x :: ms)).
Proof.
  intro H. destruct (N.eq_dec w 1) as [-> | Hw].
  - change (2 ^ 1)%N with 2%N in H. inversion H; subst. rewrite cmp1_w1, land_bits by assumption.
    f_equal. apply map_ext. intro n. now rewrite cmp1_w1.
  - rewrite cmp1_other by assumption. cbn [map forallb]. now rewrite cmp1_other.
Qed.

Lemma cmp1_lor w x ms : Forall (fun n => (n < 2 ^ w)%N) (x :: ms) ->
  cmp1 w (fold_left N.lor ms x) = existsb (fun b => b) (map (cmp1 w) (x :: ms)).
Proof.
  intro H. destruct (N.eq_dec w 1) as [-> | Hw].
  - change (2 ^ 1)%N with 2%N in H. inversion H; subst. rewrite cmp1_w1, lor_bits by assumption.
    f_equal. apply map_ext. intro n. now rewrite cmp1_w1.
  - rewrite cmp1_other by assumption.
    rewrite (map_ext (cmp1 w) (fun _ => false)) by (intro n; now apply cmp1_other). now rewrite existsb_all_false.
Qed.

Lemma cmp1_lxor w x ms : Forall (fun n => (n < 2 ^ w)%N) (x :: ms) ->
  cmp1 w (fold_left N.lxor ms x) = fold_left xorb (map (cmp1 w) (x :: ms)) false.
Proof.
  intro H. destruct (N.eq_dec w 1) as [-> | Hw].
  - change (2 ^ 1)%N with 2%N in H. inversion H; subst. rewrite cmp1_w1, lxor_bits by assumption.
    cbn [map fold_left]. rewrite cmp1_w1, xorb_false_l. f_equal. apply map_ext. intro n. now rewrite cmp1_w1.
  - rewrite cmp1_other by assumption.
    rewrite (map_ext (cmp1 w) (fun _ => false)) by (intro n; now apply cmp1_other). now rewrite xor_all_false.
Qed.

Lemma repl_of_cases g r : repl_of g = Some r ->
  (g = lit "bvand" /\ r = "and"%string) \/ (g = lit "bvor" /\ r = "or"%string) \/ (g = lit "bvxor" /\ r = "xor"%string).
Proof.
  unfold repl_of. intro H.
  destruct (iss g "bvand") eqn:E1; [apply iss_eq in E1; injection H as <-; now left|].
  destruct (iss g "bvor") eqn:E2; [apply iss_eq in E2; injection H as <-; right; now left|].
  destruct (iss g "bvxor") eqn:E3; [apply iss_eq in E3; injection H as <-; right; now right|discriminate].
Qed.

Lemma to_bool_app_one rho c n l e' vn :
  rho_ok rho -> eval rho c = Some (VV 1 1) -> to_bool_app c n = Some l -> In e' l ->
  eval rho n = Some vn -> eval rho e' = Some (VB (value_eqb (VV 1 1) vn && true)).
Proof.
  intros Hrho Hc H Hin Hn. unfold to_bool_app in H.
  destruct (ident_repl n) as [r|] eqn:Er; [|no_prop H Hin]. injection H as <-. destruct Hin as [<- | []].
  unfold ident_repl in Er. destruct n as [?|[|[g|?] args]]; try discriminate Er. cbn [has_ident] in Er.
  cbn [args_of]. apply repl_of_cases in Er.
  assert (Hplain : isop g "_" = false /\ isop g "let" = false)
    by (destruct Er as [[-> _] | [[-> _] | [-> _]]]; split; reflexivity).
  destruct Hplain as [Hp1 Hp2].
  apply eval_op_inv in Hn as (vs & Ha & Hv); try assumption.
  assert (Hok : Forall val_ok vs).
  { eapply eval_args_ok; [|exact Ha]. intros x _ v Hx. exact (eval_range rho x v Hrho Hx). }
  assert (Hshape : exists w x ms, all_bvs vs = Some (w, x :: ms) /\ Nat.leb 2 (length vs) = true).
  { destruct Er as [[-> _] | [[-> _] | [-> _]]];
      [rewrite ap_bvand in Hv | rewrite ap_bvor in Hv | rewrite ap_bvxor in Hv];
      destruct (all_bvs vs) as [[w [|x ms]]|]; try discriminate Hv;
      destruct (Nat.leb 2 (length vs)); try discriminate Hv; now exists w, x, ms. }
  destruct Hshape as (w & x & ms & Eb & El).
  pose proof (all_bvs_ok vs w _ Hok Eb) as Hlt.
  pose proof (all_bvs_map _ _ _ Eb) as Evs.
  pose proof (eval_eq_args rho c _ Hc args vs Ha) as Hargs.
  assert (Hlen : length args = length vs) by (symmetry; exact (eval_args_length rho args vs Ha)).
  destruct args as [|d args']; [rewrite Evs in Hlen; discriminate Hlen|].
  cbn [map] in Hargs |- *. rewrite node_of_cons. unfold lf in Hargs |- *.
  assert (Hvals : map (fun vd => VB (value_eqb (VV 1 1) vd && true)) vs = map VB (map (cmp1 w) (x :: ms))).
  { rewrite Evs, !map_map. reflexivity. }
  rewrite Hvals in Hargs.
  assert (Hl2 : Nat.leb 2 (length (map VB (map (cmp1 w) (x :: ms)))) = true).
  { rewrite !map_length. rewrite Evs, map_length in El. exact El. }
  destruct Er as [[-> ->] | [[-> ->] | [-> ->]]].
  - rewrite (eval_op_intro rho (lit "and") _ _ eq_refl eq_refl Hargs), ap_and, all_bools_VB, Hl2.
    rewrite ap_bvand, Eb, El in Hv. injection Hv as <-. rewrite <- cmp1_land by assumption. reflexivity.
  - rewrite (eval_op_intro rho (lit "or") _ _ eq_refl eq_refl Hargs), ap_or, all_bools_VB, Hl2.
    rewrite ap_bvor, Eb, El in Hv. injection Hv as <-. rewrite <- cmp1_lor by assumption. reflexivity.
  - rewrite (eval_op_intro rho (lit "xor") _ _ eq_refl eq_refl Hargs), ap_xor, all_bools_VB, Hl2.
    rewrite ap_bvxor, Eb, El in Hv. injection Hv as <-. rewrite <- cmp1_lxor by assumption. reflexivity.
Qed.

Lemma value_eqb_sym a b : value_eqb a b = value_eqb b a.
Proof.
  destruct a, b; cbn [value_eqb]; try reflexivity.
  - now destruct b0, b.
  - apply Z.eqb_sym.
  - now rewrite (N.eqb_sym w w0), (N.eqb_sym n n0).
Qed.

(* the constant the mutator picks evaluates to the bit 1 *)
Theorem bv_to_bool_one_identity : forall rho h a b e' l v,
  rho_ok rho ->
  (forall c u, c = a \/ c = b -> is_bv_const c = true -> eval rho c = Some u -> u = VV 1 1) ->
  rw_bv_to_bool (T [L h; a; b]) = Some l -> In e' l ->
  eval rho (T [L h; a; b]) = Some v -> eval rho e' = Some v.
Proof.
  intros rho h a b e' l v Hrho Hone Hrw Hin Hev. unfold rw_bv_to_bool in Hrw.
  destruct (iss h "=") eqn:Eh; [|no_prop Hrw Hin]. apply iss_eq in Eh. subst h.
  apply eval_bin_inv in Hev as (va & vb & Ha & Hb & Hv); try reflexivity.
  rewrite ap_eq in Hv. cbn [length Nat.leb chain] in Hv. injection Hv as <-.
  unfold is_const_w1 in Hrw.
  destruct (is_bv_const a) eqn:Eca.
  - destruct (bv_cw a) as [wa|]; [|discriminate Hrw]. destruct (Z.eqb wa 1).
    + pose proof (Hone a va (or_introl eq_refl) Eca Ha) as ->.
      exact (to_bool_app_one rho a b l e' vb Hrho Ha Hrw Hin Hb).
    + destruct (is_bv_const b) eqn:Ecb; [|no_prop Hrw Hin].
      destruct (bv_cw b) as [wb|]; [|discriminate Hrw]. destruct (Z.eqb wb 1); [|no_prop Hrw Hin].
      pose proof (Hone b vb (or_intror eq_refl) Ecb Hb) as ->. rewrite value_eqb_sym.
      exact (to_bool_app_one rho b a l e' va Hrho Hb Hrw Hin Ha).
  - destruct (is_bv_const b) eqn:Ecb; [|no_prop Hrw Hin].
    destruct (bv_cw b) as [wb|]; [|discriminate Hrw]. destruct (Z.eqb wb 1); [|no_prop Hrw Hin].
    pose proof (Hone b vb (or_intror eq_refl) Ecb Hb) as ->. rewrite value_eqb_sym.
    exact (to_bool_app_one rho b a l e' va Hrho Hb Hrw Hin Ha).
Qed.
