(* Value preservation (Spec/Semantics.v) of the rewrites of Model/ConstRw.v that
   are meant as identities: binary concat with a zero constant, zero_extend on
   both sides of an equality / disequality / unsigned comparison, and the
   splitting of a chained relation. *)
From Coq Require Import ZifyBool.
From DD Require Import Spec.Semantics Model.Rewrites Model.ConstRw.
From DD Require Import Proofs.Rw.DigitsRT Proofs.Rw.EvalBase Proofs.Rw.BoolRw Proofs.Rw.BvConst.
Local Open Scope list_scope.

(* ---------- int() on numerals ---------- *)
Lemma py_nat_aux_digits : forall s acc prev,
  forallb is_digit s = true -> (s <> [] \/ prev = true) ->
  py_nat_aux s acc prev = Some (fold_left (fun a c => (a * 10 + digit_val c)%N) s acc).
Proof.
  induction s as [|c r IH]; intros acc prev Hd Hne.
  - destruct Hne as [H | ->]; [congruence | reflexivity].
  - cbn [forallb] in Hd. apply andb_true_iff in Hd as [Hc Hr]. cbn [py_nat_aux fold_left]. rewrite Hc.
    apply IH; [exact Hr | now right].
Qed.

Lemma py_int_digits s : all_digits s = true -> py_int s = Some (Z.of_N (dec_val s)).
Proof.
  destruct s as [|c r]; [discriminate|]. unfold all_digits. intro H.
  assert (Hc : is_digit c = true) by (cbn [forallb] in H; now apply andb_true_iff in H as [H _]).
  unfold py_int.
  assert (E : N.eqb c 45 = false /\ N.eqb c 43 = false).
  { unfold is_digit in Hc. apply andb_true_iff in Hc as [H1 _]. apply N.leb_le in H1.
    split; apply N.eqb_neq; unfold char in *; lia. }
  destruct E as [-> ->]. unfold py_nat. rewrite py_nat_aux_digits; [reflexivity | exact H | left; discriminate].
Qed.

Lemma py_int_dec_of s k : dec_of s = Some k -> py_int s = Some (Z.of_N k).
Proof.
  unfold dec_of. destruct (all_digits s) eqn:E; [|discriminate]. intro H. injection H as <-. now apply py_int_digits.
Qed.

(* ---------- constants ---------- *)
Lemma bv_cv_eval rho c v :
  lit_free rho -> is_bv_const c = true -> eval rho c = Some v ->
  exists w n, v = VV w n /\ bv_cv c = Some (Z.of_N n, Z.of_N w) /\ (n < 2 ^ w)%N /\ (0 < w)%N.
Proof.
  intros Hlf Hc Hev. destruct (bv_const_eval rho c v Hlf Hc Hev) as (w & n & -> & Hcv & Hn & Hw).
  exists w, n. repeat split; try assumption.
  destruct c as [s|l].
  - destruct s as [|c0 [|d tl]]; try discriminate Hcv. cbn [bv_const_value] in Hcv. cbn [bv_cv].
    destruct tl as [|t0 tl']; [discriminate Hcv|exact Hcv].
  - cbn [is_bv_const] in Hc. destruct l as [|[h|?] [|[b|?] [|w' [|? ?]]]]; try discriminate Hc.
    cbn [bv_const_value] in Hcv. cbn [bv_cv].
    destruct b as [|b1 [|b2 digs]]; try discriminate Hcv.
    destruct (dec_of digs) as [vd|] eqn:Ed; [|discriminate]. destruct (int_of w') as [bw|] eqn:Ew; [|discriminate].
    rewrite (py_int_dec_of _ _ Ed).
    destruct w' as [ws|]; [|discriminate]. cbn [int_of] in Ew.
    destruct (dec_of ws) as [kw|] eqn:Ek; [|discriminate]. injection Ew as <-.
    cbn [py_int_node]. rewrite (py_int_dec_of _ _ Ek). exact Hcv.
Qed.

(* ---------- zero_extend ---------- *)
Lemma eval_mk_zext rho k x w n :
  eval rho x = Some (VV w n) -> eval rho (mk_zext (Z.of_N k) x) = Some (VV (w + k) n).
Proof.
  intro H. unfold mk_zext, idx_head, lf. cbn [map]. rewrite eval_indexed. cbn [map idx_of].
  rewrite z_to_dec_of_N, dec_of_to_dec. rewrite (eval_args_intro1 _ _ _ H). reflexivity.
Qed.

Lemma eval_zext_inv rho ha ra v :
  is_indexed_operator ha "zero_extend" 1 = true -> eval rho (T (ha :: ra)) = Some v ->
  exists s k x w n, ha = T [L (lit "_"); L (lit "zero_extend"); L s] /\ dec_of s = Some k /\ ra = [x] /\
                    eval rho x = Some (VV w n) /\ v = VV (w + k) n.
Proof.
  intros Hi Hev. destruct (indexed_head rho ha _ _ ra v Hi Hev) as (idx & -> & Hlen).
  destruct idx as [|i [|? ?]]; try discriminate Hlen.
  rewrite eval_indexed in Hev. cbn [map] in Hev.
  destruct i as [s|?]; [|discriminate Hev]. cbn [idx_of] in Hev.
  destruct (dec_of s) as [k|] eqn:Ek; [|discriminate Hev].
  destruct (eval_args rho ra) as [vs|] eqn:Ea; [|discriminate Hev].
  cbn [opt_all_v fold_right] in Hev.
  destruct vs as [|[?|?|w n] [|? ?]]; try discriminate Hev.
  rewrite ai_zext in Hev. injection Hev as <-. apply eval_args_1 in Ea as (x & -> & Hx).
  exists s, k, x, w, n. repeat split; assumption.
Qed.

(* ---------- BVConcatToZeroExtend, binary concat ---------- *)
Lemma ap_concat vs : apply_op (lit "concat") vs =
  match vs with
  | VV w x :: r =>
      if Nat.leb 2 (length vs) then
        fold_left (fun acc v => match acc, v with
                                | Some (VV wa a), VV wb b => Some (VV (wa + wb) (a * 2 ^ wb + b))
                                | _, _ => None end) r (Some (VV w x))
      else None
  | _ => None
  end.
Proof. reflexivity. Qed.

Theorem bv_concat_zext_identity : forall rho h c x e' l v,
  lit_free rho ->
  rw_bv_concat_zext (T [L h; c; x]) = Some l -> In e' l ->
  eval rho (T [L h; c; x]) = Some v -> eval rho e' = Some v.
Proof.
  intros rho h c x e' l v Hlf Hrw Hin Hev. unfold rw_bv_concat_zext in Hrw.
  destruct (iss h "concat") eqn:Eh; [|no_prop Hrw Hin]. apply iss_eq in Eh. subst h.
  destruct (is_bv_const c) eqn:Ec; [|no_prop Hrw Hin].
  apply eval_bin_inv in Hev as (v1 & v2 & H1 & H2 & Hv); try reflexivity.
  destruct (bv_cv_eval rho c v1 Hlf Ec H1) as (w & n & -> & Hcv & Hn & Hw).
  rewrite Hcv in Hrw. destruct (Z.eqb (Z.of_N n) 0) eqn:En; [|no_prop Hrw Hin].
  apply Z.eqb_eq in En. assert (n = 0%N) by lia. subst n.
  injection Hrw as <-. destruct Hin as [<- | []].
  rewrite ap_concat in Hv. cbn [length Nat.leb fold_left] in Hv.
  destruct v2 as [?|?|wb b]; try discriminate Hv. injection Hv as <-.
  change (T [idx_head "zero_extend" [Z.of_N w]; x]) with (mk_zext (Z.of_N w) x).
  rewrite (eval_mk_zext rho w x wb b H2). now rewrite N.add_comm.
Qed.

(* ---------- BVZeroExtendPredicate, equality / disequality / unsigned comparisons ---------- *)
Definition unsigned_pred (h : str) : bool :=
  existsb (iss h) ["="; "distinct"; "bvult"; "bvule"; "bvugt"; "bvuge"]%string.

Lemma ap_bvult vs : apply_op (lit "bvult") vs = match all_bvs vs with Some (w, [x; y]) => Some (VB (N.ltb x y)) | _ => None end.
Proof. reflexivity. Qed.
Lemma ap_bvule vs : apply_op (lit "bvule") vs = match all_bvs vs with Some (w, [x; y]) => Some (VB (N.leb x y)) | _ => None end.
Proof. reflexivity. Qed.
Lemma ap_bvugt vs : apply_op (lit "bvugt") vs = match all_bvs vs with Some (w, [x; y]) => Some (VB (N.ltb y x)) | _ => None end.
Proof. reflexivity. Qed.
Lemma ap_bvuge vs : apply_op (lit "bvuge") vs = match all_bvs vs with Some (w, [x; y]) => Some (VB (N.leb y x)) | _ => None end.
Proof. reflexivity. Qed.

Lemma unsigned_pred_cases h : unsigned_pred h = true ->
  h = lit "=" \/ h = lit "distinct" \/ h = lit "bvult" \/ h = lit "bvule" \/ h = lit "bvugt" \/ h = lit "bvuge".
Proof.
  unfold unsigned_pred. cbn [existsb]. intro H.
  repeat (apply orb_true_iff in H as [H | H]; [apply iss_eq in H; tauto|]). discriminate H.
Qed.

(* the value of such a predicate on two bit-vectors depends on the widths only through their equality *)
Lemma unsigned_pred_width h wa wb wa' wb' n1 n2 :
  unsigned_pred h = true -> N.eqb wa' wb' = N.eqb wa wb ->
  apply_op h [VV wa' n1; VV wb' n2] = apply_op h [VV wa n1; VV wb n2].
Proof.
  intros Hu Hw. apply unsigned_pred_cases in Hu.
  destruct Hu as [-> | [-> | [-> | [-> | [-> | ->]]]]].
  - rewrite !ap_eq. cbn [length Nat.leb chain value_eqb]. now rewrite Hw.
  - rewrite !ap_distinct. cbn [length Nat.leb pairwise_distinct forallb value_eqb]. now rewrite Hw.
  - rewrite !ap_bvult. cbn [all_bvs map opt_all_v fold_right]. rewrite Hw. now destruct (N.eqb wa wb).
  - rewrite !ap_bvule. cbn [all_bvs map opt_all_v fold_right]. rewrite Hw. now destruct (N.eqb wa wb).
  - rewrite !ap_bvugt. cbn [all_bvs map opt_all_v fold_right]. rewrite Hw. now destruct (N.eqb wa wb).
  - rewrite !ap_bvuge. cbn [all_bvs map opt_all_v fold_right]. rewrite Hw. now destruct (N.eqb wa wb).
Qed.

Lemma unsigned_pred_plain h : unsigned_pred h = true -> isop h "_" = false /\ isop h "let" = false.
Proof.
  intro Hu. apply unsigned_pred_cases in Hu.
  destruct Hu as [-> | [-> | [-> | [-> | [-> | ->]]]]]; split; reflexivity.
Qed.

Theorem bv_zext_pred_identity : forall rho h a b e' l v,
  unsigned_pred h = true ->
  rw_bv_zext_pred (T [L h; a; b]) = Some l -> In e' l ->
  eval rho (T [L h; a; b]) = Some v -> eval rho e' = Some v.
Proof.
  intros rho h a b e' l v Hu Hrw Hin Hev.
  destruct (unsigned_pred_plain h Hu) as [Hh1 Hh2].
  apply eval_bin_inv in Hev as (v1 & v2 & H1 & H2 & Hv); try assumption.
  unfold rw_bv_zext_pred in Hrw.
  destruct a as [?|[|ha ra]]; try (no_prop Hrw Hin).
  destruct b as [?|[|hb rb]]; try (no_prop Hrw Hin).
  destruct (is_zx_pred h && is_indexed_operator ha "zero_extend" 1 && is_indexed_operator hb "zero_extend" 1) eqn:E;
    [|no_prop Hrw Hin].
  apply andb_true_iff in E as [E Eb]. apply andb_true_iff in E as [_ Ea].
  destruct (eval_zext_inv _ _ _ _ Ea H1) as (s1 & k1 & x & w1 & n1 & -> & Hk1 & -> & Hx & ->).
  destruct (eval_zext_inv _ _ _ _ Eb H2) as (s2 & k2 & y & w2 & n2 & -> & Hk2 & -> & Hy & ->).
  cbn [py_indices fold_right py_int_node] in Hrw.
  rewrite (py_int_dec_of _ _ Hk1), (py_int_dec_of _ _ Hk2) in Hrw.
  destruct (Z.eqb (Z.of_N k1) (Z.of_N k2)) eqn:E12; [|destruct (Z.ltb (Z.of_N k2) (Z.of_N k1)) eqn:E21];
    injection Hrw as <-; destruct Hin as [<- | []].
  - apply Z.eqb_eq in E12.
    rewrite (eval_bin_intro rho h x y _ _ Hh1 Hh2 Hx Hy), <- Hv. apply unsigned_pred_width; [exact Hu|].
    apply Bool.eq_true_iff_eq. rewrite !N.eqb_eq. lia.
  - apply Z.ltb_lt in E21.
    replace (Z.of_N k1 - Z.of_N k2)%Z with (Z.of_N (k1 - k2)) by lia.
    rewrite (eval_bin_intro rho h _ y _ _ Hh1 Hh2 (eval_mk_zext rho (k1 - k2) x w1 n1 Hx) Hy), <- Hv.
    apply unsigned_pred_width; [exact Hu|]. apply Bool.eq_true_iff_eq. rewrite !N.eqb_eq. lia.
  - apply Z.eqb_neq in E12. apply Z.ltb_ge in E21.
    replace (Z.of_N k2 - Z.of_N k1)%Z with (Z.of_N (k2 - k1)) by lia.
    rewrite (eval_bin_intro rho h x _ _ _ Hh1 Hh2 Hx (eval_mk_zext rho (k2 - k1) y w2 n2 Hy)), <- Hv.
    apply unsigned_pred_width; [exact Hu|]. apply Bool.eq_true_iff_eq. rewrite !N.eqb_eq. lia.
Qed.

(* ---------- ArithmeticSplitNaryRelation ---------- *)
Lemma opt_all_v_cons {A} (x : option A) l :
  opt_all_v (x :: l) = match x, opt_all_v l with Some a, Some r => Some (a :: r) | _, _ => None end.
Proof. reflexivity. Qed.

Lemma all_bools_VB bs : all_bools (map VB bs) = Some bs.
Proof.
  unfold all_bools. induction bs as [|b bs IH]; [reflexivity|]. cbn [map]. rewrite opt_all_v_cons.
  fold (all_bools (map VB bs)) in *. unfold all_bools in *. now rewrite IH.
Qed.

Section Split.
  Variables (A : Type) (pr : value -> option A) (rel : A -> A -> bool) (h : str) (rho : list (str * value)).
  Hypothesis Hh1 : isop h "_" = false.
  Hypothesis Hh2 : isop h "let" = false.
  Hypothesis Hap : forall vs, apply_op h vs =
    match opt_all_v (map pr vs) with
    | Some xs => if Nat.leb 2 (length vs) then Some (VB (chain rel xs)) else None
    | None => None
    end.

  Lemma split_pairs_eval : forall args vs xs,
    eval_args rho args = Some vs -> opt_all_v (map pr vs) = Some xs ->
    exists bs, eval_args rho (split_pairs (L h) args) = Some (map VB bs) /\
               forallb (fun b => b) bs = chain rel xs /\ length bs = pred (length args).
  Proof.
    induction args as [|a args IH]; intros vs xs Hev Hpr.
    - exists []. apply eval_args_nil_inv in Hev. subst vs. injection Hpr as <-. repeat split.
    - apply eval_args_cons_inv in Hev as (va & r & Ha & Hr & ->).
      cbn [map] in Hpr. rewrite opt_all_v_cons in Hpr.
      destruct (pr va) as [xa|] eqn:Epa; [|discriminate]. destruct (opt_all_v (map pr r)) as [xr|] eqn:Epr; [|discriminate].
      injection Hpr as <-.
      destruct (IH r xr Hr Epr) as (bs & Hbs & Hall & Hlen).
      destruct args as [|b args'].
      + exists []. apply eval_args_nil_inv in Hr. subst r. injection Epr as <-. repeat split.
      + apply eval_args_cons_inv in Hr as (vb & r' & Hb & Hr' & ->).
        cbn [map] in Epr. rewrite opt_all_v_cons in Epr.
        destruct (pr vb) as [xb|] eqn:Epb; [|discriminate]. destruct (opt_all_v (map pr r')) as [xr'|] eqn:Epr'; [|discriminate].
        injection Epr as <-.
        change (split_pairs (L h) (a :: b :: args')) with (T [L h; a; b] :: split_pairs (L h) (b :: args')).
        exists ((rel xa xb && true) :: bs). rewrite eval_args_cons, Hbs.
        rewrite (eval_bin_intro rho h a b va vb Hh1 Hh2 Ha Hb), Hap. cbn [map]. rewrite !opt_all_v_cons, Epa, Epb.
        cbn [opt_all_v fold_right length Nat.leb chain]. split; [reflexivity|]. split.
        * cbn [forallb]. rewrite Hall. cbn [chain]. now rewrite andb_true_r.
        * cbn [length] in *. lia.
  Qed.

  Lemma split_nary_gen args v :
    (2 < length args)%nat ->
    eval rho (T (L h :: args)) = Some v ->
    eval rho (T (lf "and" :: split_pairs (L h) args)) = Some v.
  Proof.
    intros Hlen Hev. apply eval_op_inv in Hev as (vs & Ha & Hv); try assumption.
    rewrite Hap in Hv. destruct (opt_all_v (map pr vs)) as [xs|] eqn:Ex; [|discriminate].
    destruct (Nat.leb 2 (length vs)); [|discriminate]. injection Hv as <-.
    destruct (split_pairs_eval args vs xs Ha Ex) as (bs & Hbs & Hall & Hl).
    unfold lf. rewrite (eval_op_intro rho (lit "and") _ _ eq_refl eq_refl Hbs).
    rewrite ap_and, all_bools_VB, map_length.
    replace (Nat.leb 2 (length bs)) with true by (symmetry; apply Nat.leb_le; lia).
    now rewrite Hall.
  Qed.
End Split.

Definition as_int (v : value) : option Z := match v with VI z => Some z | _ => None end.

Lemma opt_all_v_some (vs : list value) : opt_all_v (map (@Some value) vs) = Some vs.
Proof. induction vs as [|v vs IH]; [reflexivity|]. cbn [map]. rewrite opt_all_v_cons. now rewrite IH. Qed.

Lemma ap_eq_chain vs : apply_op (lit "=") vs =
  match opt_all_v (map (@Some value) vs) with
  | Some xs => if Nat.leb 2 (length vs) then Some (VB (chain value_eqb xs)) else None
  | None => None
  end.
Proof. rewrite ap_eq, opt_all_v_some. destruct vs as [|a [|b r]]; reflexivity. Qed.

Theorem arith_split_nary_identity : forall rho h args e' l v,
  iss h "distinct" = false ->
  rw_arith_split_nary (T (L h :: args)) = Some l -> In e' l ->
  eval rho (T (L h :: args)) = Some v -> eval rho e' = Some v.
Proof.
  intros rho h args e' l v Hnd Hrw Hin Hev. unfold rw_arith_split_nary in Hrw.
  destruct (is_arith_rel h && Nat.ltb 2 (length args)) eqn:E; [|no_prop Hrw Hin].
  injection Hrw as <-. destruct Hin as [<- | []].
  apply andb_true_iff in E as [Er El]. apply Nat.ltb_lt in El.
  unfold is_arith_rel, arith_rels in Er. cbn [existsb] in Er. rewrite Hnd in Er.
  repeat (apply orb_true_iff in Er as [Er | Er]; [apply iss_eq in Er; subst h|]); try discriminate Er.
  - exact (split_nary_gen value (@Some value) value_eqb (lit "=") rho eq_refl eq_refl ap_eq_chain args v El Hev).
  - exact (split_nary_gen Z as_int Z.ltb (lit "<") rho eq_refl eq_refl ap_lt args v El Hev).
  - exact (split_nary_gen Z as_int Z.gtb (lit ">") rho eq_refl eq_refl ap_gt args v El Hev).
  - exact (split_nary_gen Z as_int Z.geb (lit ">=") rho eq_refl eq_refl ap_ge args v El Hev).
  - exact (split_nary_gen Z as_int Z.leb (lit "<=") rho eq_refl eq_refl ap_le args v El Hev).
  - apply eval_op_inv in Hev as (vs & _ & Hv); try reflexivity. rewrite ap_neq in Hv. discriminate.
  - apply eval_op_inv in Hev as (vs & _ & Hv); try reflexivity. rewrite ap_ltgt in Hv. discriminate.
Qed.
