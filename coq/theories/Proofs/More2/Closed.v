(* Closure of the rewrites of Model/ConstRw.v: every replacement is made of
   subterms of the node and of freshly written atoms, so it is well formed
   (Spec/StdReader.v) whenever the node is. *)
From DD Require Import Model.Rewrites Model.ConstRw Spec.StdReader Proofs.Closure.Atoms Proofs.Closure.RwClosed.
Local Open Scope list_scope.

(* ---- freshly written leaves ---- *)
Lemma atom_str_repeat_zero k : atom_str (repeat_c 48%N k) = true.
Proof. induction k as [|k IH]; [reflexivity|]. cbn [repeat_c]. unfold atom_str in *. cbn [forallb]. now rewrite IH. Qed.

Lemma atom_str_to_bin n : atom_str (to_bin n) = true.
Proof. apply digits_atom_str. exact (proj1 (to_bin_digits_proof n)). Qed.

Lemma atom_str_z_to_bin z : atom_str (z_to_bin z) = true.
Proof.
  unfold z_to_bin. destruct (Z.ltb z 0); [|apply atom_str_to_bin].
  pose proof (atom_str_to_bin (Z.to_N (- z))) as H. unfold atom_str in *. cbn [forallb]. now rewrite H.
Qed.

Lemma bin_lit_wf w v : wf (bin_lit w v) = true.
Proof.
  unfold bin_lit, fmt_bin. cbn [wf]. apply atom_str_leaf; [discriminate|].
  change (cHASH :: c_b :: ?s) with ([cHASH; c_b] ++ s).
  rewrite !atom_str_app, atom_str_repeat_zero, atom_str_z_to_bin. reflexivity.
Qed.

Lemma wf_mk_zext k x : wf x = true -> wf (mk_zext k x) = true.
Proof. intro H. unfold mk_zext. cbn [wf forallb]. rewrite wf_idx_head by reflexivity. now rewrite H. Qed.

(* ---- BVConcatToZeroExtend ---- *)
Theorem rw_bv_concat_zext_closed : closed_rw rw_bv_concat_zext.
Proof.
  intros e l e' Hw HR Hin. unfold rw_bv_concat_zext in HR. brk HR; injection HR as <-; in_split.
  subst. wf_split. cbn [wf forallb]. rewrite wf_idx_head by reflexivity.
  repeat (apply andb_true_intro; split); first [assumption|reflexivity].
Qed.

(* ---- BVSimplifyConstants ---- *)
Theorem rw_bv_simp_consts_closed : closed_rw rw_bv_simp_consts.
Proof.
  intros e l e' Hw HR Hin. unfold rw_bv_simp_consts in HR. brk HR; injection HR as <-; in_split.
  all: try apply bin_lit_wf. apply in_map_iff in Hin as (v & <- & _). apply bin_lit_wf.
Qed.

(* ---- BVTransformToBool ---- *)
Lemma repl_of_leaf h r : repl_of h = Some r -> leaf_ok (lit r) = true.
Proof.
  unfold repl_of. intro H.
  repeat match type of H with (if ?c then _ else _) = _ => destruct c end;
    try discriminate; injection H as <-; reflexivity.
Qed.

Lemma to_bool_app_closed c n l e' :
  wf c = true -> wf n = true -> to_bool_app c n = Some l -> In e' l -> wf e' = true.
Proof.
  intros Hc Hn H Hin. unfold to_bool_app in H.
  destruct (ident_repl n) as [r|] eqn:Er; injection H as <-; in_split.
  apply wf_node_of.
  - unfold ident_repl in Er. destruct (has_ident n); [|discriminate]. eapply repl_of_leaf; eassumption.
  - apply forallb_map_wf. intros d Hd. wf_goal.
    apply wf_args_of in Hn. rewrite forallb_forall in Hn. now apply Hn.
Qed.

Theorem rw_bv_to_bool_closed : closed_rw rw_bv_to_bool.
Proof.
  intros e l e' Hw HR Hin. unfold rw_bv_to_bool in HR.
  destruct e as [s|[|[h|?] [|a [|b [|? ?]]]]]; try (injection HR as <-; in_split; fail).
  wf_split.
  destruct (iss h "="); [|injection HR as <-; in_split].
  destruct (is_const_w1 a) as [[|]|]; [| |discriminate].
  - eapply to_bool_app_closed; [| |exact HR|exact Hin]; assumption.
  - destruct (is_const_w1 b) as [[|]|]; [| |discriminate].
    + eapply to_bool_app_closed; [| |exact HR|exact Hin]; assumption.
    + injection HR as <-; in_split.
Qed.

(* ---- BVZeroExtendPredicate ---- *)
Theorem rw_bv_zext_pred_closed : closed_rw rw_bv_zext_pred.
Proof.
  intros e l e' Hw HR Hin. unfold rw_bv_zext_pred in HR. brk HR; injection HR as <-; in_split; subst; wf_split.
  all: cbn [wf forallb]; rewrite ?wf_mk_zext by assumption;
    repeat (apply andb_true_intro; split); first [assumption|reflexivity].
Qed.

(* ---- ArithmeticSimplifyConstant ---- *)
Lemma real_tail_atom s : real_tail s = true -> atom_str s = true.
Proof.
  induction s as [|c r IH]; [reflexivity|]. cbn [real_tail]. unfold atom_str in *. cbn [forallb].
  destruct (N.eqb c cDOT) eqn:E.
  - intro H. apply N.eqb_eq in E. subst c. cbn. now apply digits_atom_str.
  - intro H. apply andb_true_iff in H as [H1 H2]. now rewrite (digit_atom_char c H1), IH.
Qed.

Lemma real_lit_atom s : real_lit s = true -> atom_str s = true.
Proof.
  destruct s as [|c r]; [discriminate|]. cbn [real_lit]. intro H. apply andb_true_iff in H as [H1 H2].
  unfold atom_str. cbn [forallb]. rewrite (digit_atom_char c H1). now apply real_tail_atom.
Qed.

Lemma atom_str_removelast s : atom_str s = true -> atom_str (removelast s) = true.
Proof.
  induction s as [|c r IH]; [reflexivity|]. unfold atom_str in *. cbn [forallb]. intro H.
  apply andb_true_iff in H as [H1 H2]. cbn [removelast]. destruct r as [|d r']; [reflexivity|].
  cbn [forallb]. rewrite H1. now apply IH.
Qed.

(* a one-digit numeral is an integer: the second branch of the mutator never cuts it down to the empty string *)
Lemma one_digit_integral c : is_digit c = true ->
  match float_of_lit [c] with DFin m u => snd (dbl_trunc m u) = true | _ => False end.
Proof.
  unfold is_digit. intro H. apply andb_true_iff in H as [H1 H2]. apply N.leb_le in H1, H2.
  assert (E : (c = 48 \/ c = 49 \/ c = 50 \/ c = 51 \/ c = 52 \/ c = 53 \/ c = 54 \/ c = 55 \/ c = 56 \/ c = 57)%N)
    by (unfold char in *; lia).
  repeat (destruct E as [-> | E]; [vm_compute; reflexivity|]). subst c. vm_compute. reflexivity.
Qed.

Theorem rw_arith_simp_const_closed : closed_rw rw_arith_simp_const.
Proof.
  intros e l e' Hw HR Hin. unfold rw_arith_simp_const in HR.
  destruct (is_real_const e) eqn:Ec; [|injection HR as <-; in_split].
  destruct (arith_const e) as [| |m u] eqn:Ea; try discriminate.
  destruct (dbl_trunc m u) as [i integral] eqn:Et. destruct integral.
  - destruct (N.eqb i 0 || N.eqb i 1); injection HR as <-; in_split; cbn [wf]; apply to_dec_leaf.
  - injection HR as <-. in_split; [cbn [wf]; apply to_dec_leaf|].
    destruct e as [s|l].
    + cbn [wf]. cbn [is_real_const] in Ec. apply atom_str_leaf; [|now apply atom_str_removelast, real_lit_atom].
      destruct s as [|c [|d r]]; [discriminate| |discriminate].
      exfalso. cbn [real_lit real_tail] in Ec. rewrite andb_true_r in Ec.
      pose proof (one_digit_integral c Ec) as Hi. change (float_of_lit [c]) with (arith_const (L [c])) in Hi.
      rewrite Ea, Et in Hi. discriminate.
    + cbn [is_real_const] in Ec. destruct l as [|[h|?] [|a [|b [|? ?]]]]; try discriminate.
      wf_split. cbn [removelast]. wf_goal.
Qed.

(* ---- ArithmeticSplitNaryRelation ---- *)
Lemma split_pairs_wf h l : wf h = true -> forallb wf l = true -> forallb wf (split_pairs h l) = true.
Proof.
  intro Hh. induction l as [|a l IH]; intro H; [reflexivity|]. destruct l as [|b r]; [reflexivity|].
  change (split_pairs h (a :: b :: r)) with (T [h; a; b] :: split_pairs h (b :: r)).
  cbn [forallb] in H. apply andb_true_iff in H as [Ha H]. specialize (IH H).
  cbn [forallb] in H. apply andb_true_iff in H as [Hb _].
  change (wf (T [h; a; b]) && forallb wf (split_pairs h (b :: r)) = true).
  rewrite IH, andb_true_r. cbn [wf forallb]. now rewrite Hh, Ha, Hb.
Qed.

Theorem rw_arith_split_nary_closed : closed_rw rw_arith_split_nary.
Proof.
  intros e l e' Hw HR Hin. unfold rw_arith_split_nary in HR. brk HR; injection HR as <-; in_split.
  subst. wf_split. unfold lf. cbn [wf forallb]. change (leaf_ok (lit "and")) with true. cbn [andb].
  now apply split_pairs_wf.
Qed.

(* ---- SeqNthUnit, StringIndexOfNotFound, StringReplaceAll ---- *)
Theorem rw_seq_nth_unit_closed : closed_rw rw_seq_nth_unit.
Proof.
  intros e l e' Hw HR Hin. unfold rw_seq_nth_unit in HR. brk HR; injection HR as <-; in_split.
  subst. wf_split. use_args. wf_split. assumption.
Qed.

Theorem rw_str_indexof_closed : closed_rw rw_str_indexof.
Proof.
  intros e l e' Hw HR Hin. unfold rw_str_indexof in HR. brk HR; injection HR as <-; in_split. reflexivity.
Qed.

Theorem rw_str_replace_all_closed : closed_rw rw_str_replace_all.
Proof.
  intros e l e' Hw HR Hin. unfold rw_str_replace_all in HR. brk HR; injection HR as <-; in_split.
  subst. wf_split. apply wf_node_of; [reflexivity|assumption].
Qed.
