(* C03, union ranking: the rewrites of Model/Rewrites.v whose proposals have
   strictly fewer nodes than the node, and BoolXORBinary (9 of the 15; the other 6
   grow the term or keep the whole triple and are ranked by the polynomial measure
   of Proofs/Measure only). *)
From DD Require Import Proofs.Measure.RootBase Proofs.Core.Base Proofs.Union.Tri.
Local Open Scope list_scope.

Ltac sz := repeat (progress (rewrite ?size_T, ?sizes_cons, ?sizes_nil, ?sizes_app in * )); cbn [size lf] in *.
Ltac spos :=
  repeat match goal with
         | x : sexp |- _ =>
             lazymatch goal with
             | H : 0 < size x |- _ => fail
             | _ => pose proof (size_pos x)
             end
         end.
Ltac none_case :=
  match goal with HR : Some [] = Some _, Hin : In _ _ |- _ => injection HR as <-; destruct Hin end.

Lemma size_mk_bv_const v w : size (mk_bv_const v w) = 4.
Proof. reflexivity. Qed.

Lemma size_idx_head1 op k : size (idx_head op [k]) = 4.
Proof. reflexivity. Qed.

(* an indexed operator (_ name i1 .. in) has n + 2 children *)
Lemma idx_op_size h name cnt :
  is_indexed_operator h name cnt = true -> exists hl, h = T hl /\ cnt + 3 <= size h.
Proof.
  destruct h as [s|l]; cbn [is_indexed_operator]; [discriminate|].
  destruct (Nat.ltb (length l) 2); [discriminate|].
  intro H. exists l. split; [reflexivity|].
  assert (G : length l = cnt + 2).
  { destruct l as [|[s|hl] r]; [discriminate| |].
    - destruct (iss s "_"); [|discriminate]. cbn [negb] in H.
      destruct (nth_error (L s :: r) 1); [|discriminate].
      apply andb_true_iff in H as [_ H]. now apply Nat.eqb_eq in H.
    - destruct (nth_error (T hl :: r) 1); [|discriminate].
      apply andb_true_iff in H as [_ H]. now apply Nat.eqb_eq in H. }
  rewrite size_T. pose proof (sizes_len l). lia.
Qed.

(* ---- double negations ---- *)
Theorem bool_double_neg_tdecr : tdecr rw_bool_double_neg.
Proof.
  start. apply tri_by_size. unfold rw_bool_double_neg in HR. brk HR; injection HR as <-; in_split.
  bools. subst. cbn [args_of] in *. subst. sz. lia.
Qed.

Theorem bv_double_neg_tdecr : tdecr rw_bv_double_neg.
Proof.
  start. apply tri_by_size. unfold rw_bv_double_neg in HR. brk HR; injection HR as <-; in_split.
  all: bools; subst; cbn [args_of] in *; subst; sz; lia.
Qed.

(* ---- (not (r xs)) becomes (r' xs): two nodes less ---- *)
Theorem arith_negate_relation_tdecr : tdecr rw_arith_negate_relation.
Proof.
  start. apply tri_by_size. unfold rw_arith_negate_relation in HR. brk HR; injection HR as <-; in_split.
  bools. subst.
  match goal with |- size (node_of _ ?xs) < _ => destruct xs as [|x r] end; cbn [node_of]; sz; lia.
Qed.

(* ---- (bvnand a a) becomes (bvnot a) ---- *)
Theorem bv_reflexive_nand_tdecr : tdecr rw_bv_reflexive_nand.
Proof.
  start. apply tri_by_size. unfold rw_bv_reflexive_nand in HR. brk HR; injection HR as <-; in_split.
  bools. subst. sz. spos. lia.
Qed.

(* ---- (xor a b) becomes (distinct a b): same nodes, lighter head (the letter x weighs 7) ---- *)
Theorem bool_xor_binary_tdecr : tdecr rw_bool_xor_binary.
Proof.
  start. unfold rw_bool_xor_binary in HR. brk HR; injection HR as <-; in_split.
  bools. subst.
  assert (Hw : wchars (lf "distinct") < wchars (L (lit "xor"))) by (vm_compute; lia).
  apply tri_by_wchars; [sz; lia|]. rewrite !wchars_T, !wcharss_cons. lia.
Qed.

(* ---- (ite (= x y) #b1 #b0) becomes (bvcomp x y) ---- *)
Theorem bv_ite_to_bvcomp_tdecr : forall p, tdecr (rw_bv_ite_to_bvcomp p).
Proof.
  intro p. start. apply tri_by_size. unfold rw_bv_ite_to_bvcomp in HR. brk HR; injection HR as <-; in_split.
  bools. subst. sz. spos. lia.
Qed.

(* ---- constant folding under an indexed operator: the result is a leaf or (_ bvN w) ---- *)
Theorem bv_eval_extend_tdecr : tdecr rw_bv_eval_extend.
Proof.
  start. apply tri_by_size. unfold rw_bv_eval_extend in HR. cbv zeta in HR. brk HR; injection HR as <-; in_split.
  all: match goal with H : (_ || _) && _ = true |- _ => apply andb_true_iff in H; destruct H as [Ho _] end.
  all: apply orb_true_iff in Ho as [Ho|Ho]; apply idx_op_size in Ho as (hl & -> & Hm).
  all: rewrite ?size_mk_bv_const.
  all: match goal with |- _ < size (T (T ?hl :: ?c :: ?r)) =>
         rewrite (size_T (T hl :: c :: r)), !sizes_cons; pose proof (size_pos c) end.
  all: try match goal with |- size (L ?s) < _ => change (size (L s)) with 1 end.
  all: lia.
Qed.

Theorem bv_extract_const_tdecr : tdecr rw_bv_extract_const.
Proof.
  start. apply tri_by_size. unfold rw_bv_extract_const in HR. cbv zeta in HR. brk HR; injection HR as <-; in_split.
  match goal with |- _ < size (T (?h :: ?c :: ?r)) =>
    rewrite (size_T (h :: c :: r)), !sizes_cons; pose proof (size_pos c); pose proof (size_pos h) end.
  match goal with |- size (L ?s) < _ => change (size (L s)) with 1 end. lia.
Qed.

(* ---- nested extensions are merged: at least five nodes less ---- *)
Lemma size_arg_lt hl a r : size a < size (T (T hl :: a :: r)).
Proof. rewrite (size_T (T hl :: a :: r)), !sizes_cons. lia. Qed.

Lemma merge_ext_size_le op : forall fuel e acc k inner,
  merge_ext fuel op e acc = Some (k, inner) -> size inner <= size e.
Proof.
  induction fuel as [|n IH]; intros e acc k inner H; cbn [merge_ext] in H.
  - injection H as _ <-. lia.
  - destruct (is_indexed_app e op 1) eqn:E; [|injection H as _ <-; lia].
    apply idx_app_inv in E as (h & r & -> & E). apply idx_op_size in E as (hl & -> & _).
    destruct r as [|a r]; [discriminate|].
    destruct (get_indices (T hl)) as [[|i ?]|]; try discriminate.
    apply IH in H. pose proof (size_arg_lt hl a r). lia.
Qed.

Lemma merge_ext_size_lt op : forall fuel e acc k inner,
  is_indexed_app e op 1 = true ->
  merge_ext (S fuel) op e acc = Some (k, inner) -> size inner < size e.
Proof.
  intros fuel e acc k inner E H. cbn [merge_ext] in H. rewrite E in H.
  apply idx_app_inv in E as (h & r & -> & E). apply idx_op_size in E as (hl & -> & _).
  destruct r as [|a r]; [discriminate|].
  destruct (get_indices (T hl)) as [[|i ?]|]; try discriminate.
  apply merge_ext_size_le in H. pose proof (size_arg_lt hl a r). lia.
Qed.

Lemma merge_go_size (op : string) e x a r k inner :
  e = T (x :: a :: r) -> is_indexed_app e op 1 = true -> is_indexed_app a op 1 = true ->
  merge_ext (size e) op e 0%Z = Some (k, inner) ->
  size (T [idx_head op [k]; inner]) < size e.
Proof.
  intros -> E Ea H.
  assert (Hf : exists n, size (T (x :: a :: r)) = S (S n)).
  { exists (size x + size a + sizes r - 1). rewrite size_T, !sizes_cons.
    pose proof (size_pos x). pose proof (size_pos a). lia. }
  destruct Hf as [n Hf]. rewrite Hf in H. cbn [merge_ext] in H. rewrite E in H.
  apply idx_app_inv in E as (h & r' & Eq & E). injection Eq as <- <-.
  apply idx_op_size in E as (hl & -> & Hm).
  destruct (get_indices (T hl)) as [[|i ?]|]; try discriminate.
  apply merge_ext_size_lt in H; [|exact Ea].
  rewrite (size_T [idx_head op [k]; inner]), !sizes_cons, sizes_nil, size_idx_head1.
  rewrite (size_T (T hl :: a :: r)), !sizes_cons. lia.
Qed.

Ltac split_if HR E :=
  match type of HR with (if ?b then _ else _) = _ => destruct b eqn:E end.

Theorem bv_merge_extend_tdecr : tdecr rw_bv_merge_extend.
Proof.
  start. apply tri_by_size. unfold rw_bv_merge_extend in HR. cbv zeta in HR.
  destruct e as [s|[|x [|a r]]]; cbn iota in HR; try none_case.
  - split_if HR E0; [discriminate|]. none_case.
  - split_if HR E1.
    + apply andb_true_iff in E1 as [E Ea].
      destruct (merge_ext _ _ _ _) as [[k inner]|] eqn:Hm in HR; [|discriminate].
      injection HR as <-. in_split.
      eapply (merge_go_size "zero_extend"); try eassumption; reflexivity.
    + split_if HR E2; [|none_case].
      apply andb_true_iff in E2 as [E Ea].
      destruct (merge_ext _ _ _ _) as [[k inner]|] eqn:Hm in HR; [|discriminate].
      injection HR as <-. in_split.
      eapply (merge_go_size "sign_extend"); try eassumption; reflexivity.
Qed.
