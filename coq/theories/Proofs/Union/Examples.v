(* C03, union ranking: computed examples.
   (a) non-vacuity: a node on which three different members of the union have
       proposals; a chain of four steps through four different members at
       different positions, in which each of the three components of the measure
       is the one that decreases at some step;
   (b) the candidates that are NOT members, each with a proposal that is not
       smaller in the triple order (so that no proof of membership exists);
   (c) the two guarded members: the unguarded rewrite has such a proposal, on a
       node that no reader produces. *)
From DD Require Import Model.CoreRw Model.SmtlibRw Model.ConstRw Model.OracleRw Proofs.Core.Sort Proofs.Core.Step
  Proofs.More1.Examples Proofs.Union.Tri Proofs.Union.RootC Proofs.Union.Union.
From Coq Require Import Relations.
Local Open Scope list_scope.

(* ================= (a) non-vacuity ================= *)
Definition ex_xor : sexp := T [lf "xor"; lf "p"; lf "q"].
Definition ex_nn : sexp := T [lf "not"; T [lf "not"; ex_xor]].

Example ex_three_members :
  ex_nn = rd "(not (not (xor p q)))" /\
  U rw_bool_double_neg /\ U rw_erase_child /\ U (rw_replace_by_child (fun _ => None)) /\
  rw_bool_double_neg ex_nn = Some [rd "(xor p q)"] /\
  rw_erase_child ex_nn = Some [rd "((not (xor p q)))"; rd "(not)"] /\
  rw_replace_by_child (fun _ => None) ex_nn = Some [rd "(not (xor p q))"].
Proof. repeat split; try constructor; vm_compute; reflexivity. Qed.

Definition ch0 : sexp := T [lf "assert"; T [lf "and"; ex_nn; lf "r"]].
Definition ch1 : sexp := T [lf "assert"; T [lf "and"; ex_xor; lf "r"]].
Definition ch2 : sexp := T [lf "assert"; T [lf "and"; T [lf "distinct"; lf "p"; lf "q"]; lf "r"]].
Definition ch3 : sexp := T [lf "assert"; T [lf "and"; lf "r"; T [lf "distinct"; lf "p"; lf "q"]]].
Definition ch4 : sexp := T [lf "assert"; T [lf "and"; lf "r"; T [lf "="; lf "p"; lf "q"]]].

Example ex_chain_terms :
  ch0 = rd "(assert (and (not (not (xor p q))) r))" /\ ch1 = rd "(assert (and (xor p q) r))" /\
  ch2 = rd "(assert (and (distinct p q) r))" /\ ch3 = rd "(assert (and r (distinct p q)))" /\
  ch4 = rd "(assert (and r (= p q)))".
Proof. vm_compute. repeat split. Qed.

Ltac root_with R HU :=
  apply step_root; exists R; eexists; split; [exact HU|split; [vm_compute; reflexivity|left; reflexivity]].

(* BoolDoubleNegation below (and ...): fewer nodes *)
Example ex_step1 : step U ch0 ch1.
Proof.
  apply (step_child U [lf "assert"] _ _ []). apply (step_child U [lf "and"] _ _ [lf "r"]).
  root_with rw_bool_double_neg U_bool_double_neg.
Qed.

(* BoolXORBinary at the same position: same nodes, lighter characters *)
Example ex_step2 : step U ch1 ch2.
Proof.
  apply (step_child U [lf "assert"] _ _ []). apply (step_child U [lf "and"] _ _ [lf "r"]).
  root_with rw_bool_xor_binary U_bool_xor_binary.
Qed.

(* SortChildren one level up: same nodes, same characters, fewer inversions *)
Example ex_step3 : step U ch2 ch3.
Proof.
  apply (step_child U [lf "assert"] _ _ []).
  root_with rw_sort_children U_sort_children.
Qed.

(* ArithmeticStrengthenRelation at the moved operand: lighter characters *)
Example ex_step4 : step U ch3 ch4.
Proof.
  apply (step_child U [lf "assert"] _ _ []). apply (step_child U [lf "and"; lf "r"] _ _ []).
  root_with rw_arith_strengthen U_arith_strengthen.
Qed.

Example ex_chain : chain U 4 ch0 ch4 /\ clos_trans sexp (step U) ch0 ch4.
Proof.
  split.
  - eapply chain_S; [exact ex_step1|]. eapply chain_S; [exact ex_step2|].
    eapply chain_S; [exact ex_step3|]. eapply chain_S; [exact ex_step4|]. apply chain_0.
  - eapply t_trans; [apply t_step, ex_step1|]. eapply t_trans; [apply t_step, ex_step2|].
    eapply t_trans; [apply t_step, ex_step3|]. apply t_step, ex_step4.
Qed.

Example ex_chain_triples :
  map tri [ch0; ch1; ch2; ch3; ch4] = [(13, 27, 1); (9, 21, 1); (9, 20, 1); (9, 20, 0); (9, 13, 0)].
Proof. vm_compute. reflexivity. Qed.

(* ================= (b) candidates that are not members ================= *)
(* [refutes R e l e']: the proposal e' of R for the node e is not smaller than e *)
Definition refutes (R : rewrite) (e : sexp) (l : list sexp) (e' : sexp) : Prop :=
  R e = Some l /\ In e' l /\ tri_ltb e' e = false.

Lemma refutes_not_tdecr R e l e' : refutes R e l e' -> ~ tdecr R.
Proof. intros (HR & Hin & Hf). exact (not_tdecr R e l e' HR Hin Hf). Qed.

(* such a rewrite, added to any set, breaks the decrease of the step relation *)
Lemma refutes_step (S : rewrite -> Prop) R e l e' :
  S R -> refutes R e l e' -> exists t t', step S t t' /\ ~ tri_lt t' t.
Proof.
  intros HS (HR & Hin & Hf). exists e, e'. split; [|now apply tri_ltb_false].
  apply step_root. exists R, l. now repeat split.
Qed.

Ltac refute := unfold refutes; vm_compute; repeat split; auto.

(* BoolNegateQuantifier: same nodes; forall -> exists makes the characters heavier (with unit weights the triple
   would stay the same) *)
Example drop_bool_negate_quant :
  refutes rw_bool_negate_quant (rd "(not (forall ((x Int)) (> x 0)))")
    [rd "(exists ((x Int)) (not (> x 0)))"] (rd "(exists ((x Int)) (not (> x 0)))").
Proof. refute. Qed.

Example drop_bool_negate_quant_triples :
  tri (rd "(not (forall ((x Int)) (> x 0)))") = (12, 29, 0) /\ tri (rd "(exists ((x Int)) (not (> x 0)))") = (12, 35, 0).
Proof. vm_compute. split; reflexivity. Qed.

(* Model/Rewrites.v: the six that grow the term (or keep the whole triple) *)
Example drop_bool_de_morgan :
  refutes rw_bool_de_morgan (rd "(not (and a b))") [rd "(or (not a) (not b))"] (rd "(or (not a) (not b))").
Proof. refute. Qed.

Example drop_bool_false_eq :
  refutes rw_bool_false_eq (rd "(= false a b)") [rd "(and (not a) (not b))"] (rd "(and (not a) (not b))").
Proof. refute. Qed.

Example drop_bool_implication :
  refutes rw_bool_implication (rd "(=> a b)") [rd "(or (not a) b)"] (rd "(or (not a) b)").
Proof. refute. Qed.

Example drop_bv_normalize : refutes rw_bv_normalize (rd "#b101") [rd "(_ bv5 3)"] (rd "(_ bv5 3)").
Proof. refute. Qed.

Example drop_bv_elim_bvcomp :
  refutes (rw_bv_elim_bvcomp (fun _ => 1%Z)) (rd "(= #b1 (bvcomp a b) c)")
    [rd "(and (= a b) (= #b1 c))"] (rd "(and (= a b) (= #b1 c))").
Proof. refute. Qed.

(* the whole triple is kept: (12, 42, 1) *)
Example drop_bv_extract_zext :
  refutes (rw_bv_extract_zext (fun _ => 3%Z)) (rd "((_ extract 5 0) ((_ zero_extend 4) x))")
    [rd "((_ zero_extend 3) ((_ extract 2 0) x))"] (rd "((_ zero_extend 3) ((_ extract 2 0) x))").
Proof. refute. Qed.

(* Model/ConstRw.v *)
Example drop_bv_concat_zext :
  refutes rw_bv_concat_zext (rd "(concat #b00 x)") [rd "((_ zero_extend 2) x)"] (rd "((_ zero_extend 2) x)").
Proof. refute. Qed.

Example drop_bv_simp_consts : exists l, refutes rw_bv_simp_consts (rd "#xff") l (rd "#b00000000").
Proof. eexists. refute. Qed.

Example drop_bv_to_bool :
  refutes rw_bv_to_bool (rd "(= #b1 (bvor a b))") [rd "(or (= #b1 a) (= #b1 b))"] (rd "(or (= #b1 a) (= #b1 b))").
Proof. refute. Qed.

(* the constant goes through a binary64 float: the halved numeral has as many digits *)
Example drop_arith_simp_const :
  refutes rw_arith_simp_const (rd "9007199254740993") [rd "4503599627370496"; rd "900719925474099"] (rd "4503599627370496").
Proof. refute. Qed.

Example drop_arith_split_nary :
  refutes rw_arith_split_nary (rd "(<= a b c)") [rd "(and (<= a b) (<= b c))"] (rd "(and (<= a b) (<= b c))").
Proof. refute. Qed.

(* Model/OracleRw.v *)
Example drop_bool_xor_const :
  refutes rw_bool_xor_const (rd "(xor p true)") [rd "(xor p)"; rd "(not (xor p))"] (rd "(not (xor p))").
Proof. refute. Qed.

Example drop_constants :
  refutes (rw_constants false (Some (lf "Int")) (Some [lf "0"; lf "1"])) (rd "y") [rd "0"; rd "1"] (rd "0").
Proof. refute. Qed.

Example drop_replace_by_var_inc :
  refutes (rw_replace_by_var true false (Some (lf "Int")) [lit "z"]) (rd "m") [rd "z"] (rd "z").
Proof. refute. Qed.

Example drop_replace_by_var_dec :
  refutes (rw_replace_by_var false false (Some (lf "Int")) [lit "a"]) (rd "m") [rd "a"] (rd "a").
Proof. refute. Qed.

(* ================= (c) the guards are needed ================= *)
(* (str.indexof) without operands has two nodes, (- 1) has three *)
Example drop_str_indexof_unguarded :
  refutes rw_str_indexof (rd "(str.indexof)") [rd "(- 1)"] (rd "(- 1)").
Proof. refute. Qed.

(* the leaf made of one double quote (no reader produces it) is accepted by the filter; the proposals are longer *)
Example drop_str_simp_const_unguarded :
  refutes rw_str_simp_const (L [cDQ]) [L empty_strlit; L empty_strlit; L empty_strlit] (L empty_strlit).
Proof. refute. Qed.

(* the guarded members do fire *)
Example ex_guarded_fire :
  guard has_arg rw_str_indexof (rd "(str.indexof s t 0)") = Some [rd "(- 1)"] /\
  (exists r, guard str_lit_long rw_str_simp_const (L (quote (lit "abcdefgh"))) = Some (L empty_strlit :: L (quote (lit "abcd")) :: r)).
Proof. split; [vm_compute; reflexivity|eexists; vm_compute; reflexivity]. Qed.
