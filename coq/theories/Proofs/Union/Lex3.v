(* C03, union ranking: the lexicographic order on triples of natural numbers is a
   strict order and is well founded. *)
From Coq Require Import Arith Lia Wellfounded Wf_nat.

Definition fst3 (p : nat * nat * nat) : nat := fst (fst p).
Definition snd3 (p : nat * nat * nat) : nat := snd (fst p).
Definition thd3 (p : nat * nat * nat) : nat := snd p.

Definition lex3 (p q : nat * nat * nat) : Prop :=
  fst3 p < fst3 q \/
  (fst3 p = fst3 q /\ snd3 p < snd3 q) \/
  (fst3 p = fst3 q /\ snd3 p = snd3 q /\ thd3 p < thd3 q).

Lemma lex3_trans p q r : lex3 p q -> lex3 q r -> lex3 p r.
Proof. unfold lex3. lia. Qed.

Lemma lex3_irrefl p : ~ lex3 p p.
Proof. unfold lex3. lia. Qed.

Lemma lex3_asym p q : lex3 p q -> ~ lex3 q p.
Proof. unfold lex3. lia. Qed.

(* total on triples: the order is linear *)
Lemma lex3_total p q : lex3 p q \/ p = q \/ lex3 q p.
Proof.
  destruct p as [[a b] c], q as [[a' b'] c']. unfold lex3, fst3, snd3, thd3. cbn [fst snd].
  destruct (lt_eq_lt_dec a a') as [[H|H]|H]; [left; lia| |right; right; lia].
  destruct (lt_eq_lt_dec b b') as [[H1|H1]|H1]; [left; lia| |right; right; lia].
  destruct (lt_eq_lt_dec c c') as [[H2|H2]|H2]; [left; lia| |right; right; lia].
  right; left. subst. reflexivity.
Qed.

Lemma lex3_wf : well_founded lex3.
Proof.
  assert (H : forall a b c, Acc lex3 (a, b, c)).
  { induction a as [a IHa] using lt_wf_ind.
    induction b as [b IHb] using lt_wf_ind.
    induction c as [c IHc] using lt_wf_ind.
    constructor. intros [[a' b'] c'] Hlt.
    unfold lex3, fst3, snd3, thd3 in Hlt. cbn [fst snd] in Hlt.
    destruct Hlt as [Hlt | [[Heq Hlt] | [Heq1 [Heq2 Hlt]]]].
    - now apply IHa.
    - subst a'. now apply IHb.
    - subst a' b'. now apply IHc. }
  intros [[a b] c]. apply H.
Qed.
