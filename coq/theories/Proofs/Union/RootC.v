(* C03, union ranking: rewrites of Model/ConstRw.v and Model/OracleRw.v whose
   proposals are smaller in the triple order, for every value of their oracle
   arguments.  Two of them are members only under a guard on the node (the
   unguarded rewrite has a counterexample on a node that no reader produces:
   see Proofs/Union/Examples.v). *)
From DD Require Import Model.ConstRw Model.OracleRw Proofs.Measure.RootBase Proofs.Core.Base Proofs.Core.Size Proofs.Core.Names
  Proofs.More3.Strings Proofs.More3.Facts Spec.StdReader Proofs.Union.Tri Proofs.Union.RootB.
Local Open Scope list_scope.

(* ---- guarded rewrites: the rewrite is applied only to the nodes that satisfy P ---- *)
Definition guard (P : sexp -> bool) (R : rewrite) : rewrite := fun e => if P e then R e else Some [].

Lemma guard_tdecr (P : sexp -> bool) (R : rewrite) :
  (forall e l e', P e = true -> R e = Some l -> In e' l -> tri_lt e' e) -> tdecr (guard P R).
Proof.
  intros H e l e' HR Hin. unfold guard in HR. destruct (P e) eqn:EP; [|injection HR as <-; destruct Hin].
  exact (H e l e' EP HR Hin).
Qed.

(* ---- BVZeroExtendPredicate: at least one zero_extend disappears ---- *)
Theorem bv_zext_pred_tdecr : tdecr rw_bv_zext_pred.
Proof.
  start. apply tri_by_size. unfold rw_bv_zext_pred in HR. brk HR; injection HR as <-; in_split.
  all: bools.
  all: repeat match goal with H : is_indexed_operator _ _ _ = true |- _ =>
                let hl := fresh "hl" in let Hm := fresh "Hm" in apply idx_op_size in H as (hl & -> & Hm) end.
  all: unfold mk_zext; sz; rewrite ?size_idx_head1; spos; lia.
Qed.

(* ---- SeqNthUnit ---- *)
Theorem seq_nth_unit_tdecr : tdecr rw_seq_nth_unit.
Proof.
  start. apply tri_by_size. unfold rw_seq_nth_unit in HR. brk HR; injection HR as <-; in_split.
  bools. subst. cbn [args_of] in *. subst. sz. lia.
Qed.

(* ---- StringReplaceAll: the head loses four characters (one node when it has no operands) ---- *)
Theorem str_replace_all_tdecr : tdecr rw_str_replace_all.
Proof.
  start. unfold rw_str_replace_all in HR. brk HR; injection HR as <-; in_split.
  bools. subst.
  match goal with |- tri_lt (node_of _ ?xs) _ => destruct xs as [|x r] end; cbn [node_of].
  - apply tri_by_size. sz. lia.
  - assert (Hw : wchars (lf "str.replace") < wchars (L (lit "str.replace_all"))) by (vm_compute; lia).
    apply tri_by_wchars; [sz; lia|]. rewrite !wchars_T, !wcharss_cons. lia.
Qed.

(* ---- StringIndexOfNotFound on a node with at least one operand: (- 1) has 3 nodes and 2 characters ---- *)
Definition has_arg (e : sexp) : bool := match e with T (_ :: _ :: _) => true | _ => false end.

Theorem str_indexof_tdecr : tdecr (guard has_arg rw_str_indexof).
Proof.
  apply guard_tdecr. intros e l e' HP HR Hin.
  destruct e as [s|[|h [|x r]]]; try discriminate HP.
  unfold rw_str_indexof in HR. brk HR; injection HR as <-; in_split.
  bools. subst.
  assert (Hw : wchars (T [lf "-"; lf "1"]) < wchars (L (lit "str.indexof"))) by (vm_compute; lia).
  apply tri_by_wchars; [sz; spos; lia|].
  rewrite (wchars_T (_ :: x :: r)), !wcharss_cons. lia.
Qed.

Lemma str_indexof_guard_same e : e <> T [lf "str.indexof"] -> guard has_arg rw_str_indexof e = rw_str_indexof e.
Proof.
  intro H. unfold guard. destruct e as [s|[|h [|x r]]]; try reflexivity.
  cbn [has_arg rw_str_indexof]. destruct h as [h|hl]; [|reflexivity].
  destruct (iss h "str.indexof") eqn:E; [|reflexivity]. apply iss_eq in E. subst h. now elim H.
Qed.

(* ---- ArithmeticStrengthenRelation: the relation symbol gets lighter (<= to < or =, < to =, distinct to =) ---- *)
Lemma strengthen_lighter h rels r : strengthen h = Some rels -> In r rels -> wlen (lit r) < wlen h.
Proof.
  unfold strengthen. intros Hs Hr.
  repeat match type of Hs with
         | (if iss ?x ?n then _ else _) = _ =>
             let E := fresh "E" in destruct (iss x n) eqn:E;
               [apply iss_eq in E; subst x; injection Hs as <-; in_split; vm_compute; lia|]
         end.
  discriminate.
Qed.

Theorem arith_strengthen_tdecr : tdecr rw_arith_strengthen.
Proof.
  start. unfold rw_arith_strengthen in HR.
  destruct e as [s|[|[h|?] args]]; try none_case.
  destruct (strengthen h) as [rels|] eqn:Es; injection HR as <-; [|destruct Hin].
  apply in_map_iff in Hin as (r & <- & Hr). pose proof (strengthen_lighter h rels r Es Hr) as Hw.
  destruct args as [|x xs]; cbn [node_of].
  - apply tri_by_size. sz. lia.
  - apply tri_by_wchars; [sz; lia|]. unfold lf. rewrite !wchars_T, !wcharss_cons, !wchars_L. lia.
Qed.

(* ---- FPShortSort: (_ FloatingPoint eb sb) becomes a leaf ---- *)
Theorem fp_short_sort_tdecr : tdecr rw_fp_short_sort.
Proof.
  start. destruct (fp_short_sort_sound e l e' HR Hin) as (eb & sb & _ & -> & -> & _).
  apply tri_by_size. unfold fp_long, fp_short. sz. lia.
Qed.

(* ---- RemoveDatatypeIdentity ---- *)
Theorem dt_identity_tdecr sels ctors : tdecr (rw_dt_identity sels ctors).
Proof. start. apply tri_by_size. pose proof (dt_identity_smaller sels ctors e l e' HR Hin). lia. Qed.

(* ---- StringSimplifyConstant on a leaf of at least two characters (every leaf that a reader produces and
        the filter accepts): every candidate is the content with a section cut out ---- *)
Definition str_lit_long (e : sexp) : bool := match e with L s => Nat.leb 2 (length s) | T _ => true end.

Lemma cut_section_wlen content a b :
  In (a, b) (binary_search (length content)) -> wlen (cut_section content (a, b)) < wlen content.
Proof.
  intro Hin. apply binary_search_range in Hin. unfold cut_section. cbn [fst snd].
  pose proof (fix_escape_range content a (proj1 Hin)) as Hf.
  apply wlen_cut; lia.
Qed.

Lemma str_cands_wlen content cand :
  content <> [] -> In cand (str_cands content) -> wlen cand < wlen content.
Proof.
  intros Hne Hin. unfold str_cands in Hin. apply in_app_or in Hin as [Hin | Hin].
  - apply in_map_iff in Hin as ([a b] & <- & Hab). now apply cut_section_wlen.
  - destruct Hin as [<- | [<- | []]]; [now apply wlen_tl|now apply wlen_removelast].
Qed.

Theorem str_simp_const_tdecr : tdecr (guard str_lit_long rw_str_simp_const).
Proof.
  apply guard_tdecr. intros e l e' HP HR Hin.
  destruct e as [s|c]; [|cbn [rw_str_simp_const] in HR; injection HR as <-; destruct Hin].
  cbn [str_lit_long] in HP. apply Nat.leb_le in HP.
  destruct s as [|c ts]; [cbn [length] in HP; lia|]. cbn [rw_str_simp_const] in HR.
  destruct (is_string_const_leaf (c :: ts) && negb (str_eqb (c :: ts) empty_strlit)) eqn:Ef;
    injection HR as <-; [|destruct Hin].
  pose proof (accepted_long _ HP Ef) as H3. cbn [length] in H3.
  assert (Htl : ts <> []) by (intro E; subst ts; cbn [length] in H3; lia).
  assert (Hs : wlen (c :: ts) = cw c + (wlen (removelast ts) + cw (last ts 0%N))).
  { rewrite (app_removelast_last 0%N Htl) at 1. rewrite wlen_cons, wlen_app, wlen_cons. cbn [wlen]. lia. }
  pose proof (cw_pos c) as Hc. pose proof (cw_pos (last ts 0%N)) as Hl.
  assert (Hlen : length (removelast ts) = length ts - 1) by apply removelast_len.
  assert (Hcn : removelast ts <> []).
  { intro E. rewrite E in Hlen. cbn [length] in Hlen. lia. }
  apply tri_by_wchars; [destruct Hin as [<- | Hin]; [reflexivity|]; apply in_map_iff in Hin as (cand & <- & _); reflexivity|].
  rewrite (wchars_L (c :: ts)), Hs.
  destruct Hin as [<- | Hin].
  - pose proof (wlen_ge_length (removelast ts)) as Hg. change (wchars (L empty_strlit)) with 2.
    unfold char, str in *. lia.
  - apply in_map_iff in Hin as (cand & <- & Hcand). apply filter_In in Hcand as [Hcand _].
    cbn [List.tl] in Hcand. apply (str_cands_wlen _ _ Hcn) in Hcand.
    unfold quote. rewrite wchars_L, wlen_cons, wlen_app. change (wlen [cDQ]) with 1. change (cw cDQ) with 1.
    unfold char, str in *. lia.
Qed.

(* on every well-formed node the guard is transparent *)
Lemma str_simp_const_guard_same e : wf e = true -> guard str_lit_long rw_str_simp_const e = rw_str_simp_const e.
Proof.
  intro Hw. unfold guard. destruct e as [s|c]; [|reflexivity]. cbn [str_lit_long].
  destruct (Nat.leb 2 (length s)) eqn:E; [reflexivity|]. apply Nat.leb_gt in E.
  cbn [wf] in Hw. destruct s as [|c tl]; [discriminate Hw|]. cbn [rw_str_simp_const].
  destruct (is_string_const_leaf (c :: tl)) eqn:Es; [|reflexivity].
  pose proof (wf_quote_leaf_long _ Hw Es). lia.
Qed.
