(* C03, union ranking: the root decrease of the structural mutators
   (Model/CoreRw.v) and of the local mutators of Model/SmtlibRw.v. *)
From DD Require Import Model.CoreRw Model.SmtlibRw Proofs.Core.Base Proofs.Core.Size Proofs.Core.Sort
  Proofs.More1.Basic Proofs.More1.Quoted Proofs.More1.Logic Proofs.Union.Tri.
From Coq Require Import Permutation Arith Lia.
Local Open Scope list_scope.

(* ---- the six structural mutators ---- *)
Theorem erase_child_tdecr : tdecr rw_erase_child.
Proof. intros e l e' HR Hin. apply tri_by_size. exact (erase_child_size e l e' HR Hin). Qed.

Theorem replace_by_child_tdecr gs : tdecr (rw_replace_by_child gs).
Proof. intros e l e' HR Hin. apply tri_by_size. exact (replace_by_child_size gs e l e' HR Hin). Qed.

Theorem merge_children_tdecr : tdecr rw_merge_children.
Proof. intros e l e' HR Hin. apply tri_by_size. exact (merge_children_size e l e' HR Hin). Qed.

Theorem binary_reduction_tdecr : tdecr rw_binary_reduction.
Proof. intros e l e' HR Hin. apply tri_by_size. exact (binary_reduction_size e l e' HR Hin). Qed.

Theorem let_elim_tdecr : tdecr rw_let_elim.
Proof. intros e l e' HR Hin. apply tri_by_size. exact (let_elim_size e l e' HR Hin). Qed.

(* SortChildren permutes the children: same nodes, same characters, fewer inversions *)
Theorem sort_children_tdecr : tdecr rw_sort_children.
Proof.
  intros e l e' HR Hin. destruct (sort_children_lex e l e' HR Hin) as [Hs Hd].
  destruct (sort_children_inv1 e e' l HR Hin) as (c & -> & _ & -> & _).
  apply tri_by_disorder; [exact Hs| |exact Hd].
  rewrite !wchars_T. apply wcharss_perm, sort_by_perm.
Qed.

(* ---- CheckSatAssuming: fewer nodes, or (check-sat-assuming) -> (check-sat): 9 characters less ---- *)
Theorem check_sat_assuming_tdecr : tdecr rw_check_sat_assuming.
Proof.
  intros e l e' HR Hin. destruct (check_sat_assuming_size e l e' HR Hin) as [-> [H | ->]].
  - now apply tri_by_size.
  - apply tri_by_wchars; vm_compute; lia.
Qed.

Theorem remove_annotation_tdecr : tdecr rw_remove_annotation.
Proof. intros e l e' HR Hin. apply tri_by_size. exact (remove_annotation_size e l e' HR Hin). Qed.

Theorem remove_rec_fun_tdecr : tdecr rw_remove_rec_fun.
Proof. intros e l e' HR Hin. apply tri_by_size. pose proof (remove_rec_fun_size e l e' HR Hin). lia. Qed.

(* ---- SimplifyLogic: str.replace with a lighter replacement makes the text lighter ---- *)
Lemma replace_wlen_le p r : p <> [] -> wlen r <= wlen p ->
  forall s k, wlen (replace_from p r k s) <= wlen (skipn k s).
Proof.
  intros Hp Hle. induction s as [|c tl IH]; intro k.
  - destruct k; cbn; lia.
  - destruct k as [|k]; cbn [replace_from skipn]; [|apply IH].
    destruct (prefixb p (c :: tl)) eqn:E.
    + pose proof (prefixb_app p _ E) as Hs. destruct p as [|a p']; [congruence|].
      cbn [length skipn] in Hs. rewrite Hs.
      unfold char in *. replace (length (a :: p') - 1) with (length p') by (cbn [length]; lia).
      rewrite !wlen_app. specialize (IH (length p')). lia.
    + rewrite !wlen_cons. specialize (IH 0). cbn [skipn] in IH. lia.
Qed.

Lemma replace_wlen_lt p r : p <> [] -> wlen r < wlen p ->
  forall s, containsb p s = true -> wlen (replace_from p r 0 s) < wlen s.
Proof.
  intros Hp Hlt. induction s as [|c tl IH]; intro Hc.
  - destruct p; [congruence|discriminate].
  - cbn [replace_from]. cbn [containsb] in Hc. destruct (prefixb p (c :: tl)) eqn:E.
    + pose proof (prefixb_app p _ E) as Hs. destruct p as [|a p']; [congruence|].
      cbn [length skipn] in Hs. rewrite Hs.
      unfold char in *. replace (length (a :: p') - 1) with (length p') by (cbn [length]; lia).
      rewrite !wlen_app.
      assert (Hle : wlen r <= wlen (a :: p')) by lia.
      pose proof (replace_wlen_le (a :: p') r Hp Hle tl (length p')). lia.
    + cbn [orb] in Hc. specialize (IH Hc). rewrite !wlen_cons. lia.
Qed.

Lemma logic_cands_wlen s c : In c (logic_cands s) -> wlen c < wlen s.
Proof.
  unfold logic_cands. intro H. apply in_flat_map in H as (pr & Hpr & Hc).
  cbn [logic_repls In] in Hpr.
  repeat (destruct Hpr as [<- | Hpr]; [
    cbn [fst snd] in Hc;
    match type of Hc with In _ (if ?b then _ else _) => destruct b eqn:Eb; [|destruct Hc] end;
    match type of Hc with In _ (match ?r with _ => _ end) => destruct r eqn:E; [destruct Hc|] end;
    destruct Hc as [<- | []];
    rewrite <- E; unfold replace_all;
    apply replace_wlen_lt; [discriminate|vm_compute; lia|exact Eb]
  |]).
  destruct Hpr.
Qed.

Theorem simplify_logic_tdecr : tdecr rw_simplify_logic.
Proof.
  intros e l e' HR Hin. unfold rw_simplify_logic in HR.
  destruct (is_op e "set-logic") eqn:Eop; [|injection HR as <-; destruct Hin].
  apply is_op_inv in Eop as (r & ->).
  destruct r as [|[s|c] rest]; try discriminate. injection HR as <-.
  apply in_map_iff in Hin as (c & <- & Hc). apply logic_cands_wlen in Hc.
  apply tri_by_wchars.
  - rewrite !size_T, !sizes_cons, sizes_nil. cbn [lf size]. lia.
  - rewrite !wchars_T, !wcharss_cons, wcharss_nil, !wchars_L. lia.
Qed.

(* ---- SimplifyQuotedSymbols: a leaf loses its two bars ---- *)
Theorem simplify_quoted_tdecr : tdecr rw_simplify_quoted.
Proof.
  intros e l e' HR Hin. destruct (quoted_inv _ _ _ HR Hin) as (r & -> & -> & Hq).
  apply tri_by_wchars; [cbn [size]; lia|].
  cbn [quoted_simple_prefix] in Hq. apply andb_true_iff in Hq as [_ Hq].
  assert (Hr : r <> []).
  { intros ->. cbn in Hq. discriminate. }
  rewrite !wchars_L, wlen_cons. pose proof (wlen_removelast r Hr). unfold char, str in *. lia.
Qed.
