(* C03, union ranking: ONE no-cycle / well-foundedness theorem for the union of
   28 mutators mixing freely at any positions of a term.  The oracle arguments
   (sort oracle of ReplaceByChild, is-bit-vector-term test of BVIteToBVComp,
   selector and constructor tables of RemoveDatatypeIdentity) are quantified
   inside the set: they may change from step to step. *)
From DD Require Import Model.CoreRw Model.SmtlibRw Model.ConstRw Model.OracleRw Proofs.Core.Sort Proofs.Core.Step
  Proofs.Union.Tri Proofs.Union.RootA Proofs.Union.RootB Proofs.Union.RootC.
From Coq Require Import Relations Wellfounded Arith Lia.
Local Open Scope list_scope.

Inductive U : rewrite -> Prop :=
(* the six structural mutators (Model/CoreRw.v) *)
| U_erase_child : U rw_erase_child
| U_replace_by_child gs : U (rw_replace_by_child gs)
| U_merge_children : U rw_merge_children
| U_sort_children : U rw_sort_children
| U_binary_reduction : U rw_binary_reduction
| U_let_elim : U rw_let_elim
(* Model/SmtlibRw.v *)
| U_check_sat_assuming : U rw_check_sat_assuming
| U_remove_annotation : U rw_remove_annotation
| U_remove_rec_fun : U rw_remove_rec_fun
| U_simplify_logic : U rw_simplify_logic
| U_simplify_quoted : U rw_simplify_quoted
(* Model/Rewrites.v *)
| U_bool_double_neg : U rw_bool_double_neg
| U_bool_xor_binary : U rw_bool_xor_binary
| U_arith_negate_relation : U rw_arith_negate_relation
| U_bv_double_neg : U rw_bv_double_neg
| U_bv_eval_extend : U rw_bv_eval_extend
| U_bv_extract_const : U rw_bv_extract_const
| U_bv_ite_to_bvcomp p : U (rw_bv_ite_to_bvcomp p)
| U_bv_reflexive_nand : U rw_bv_reflexive_nand
| U_bv_merge_extend : U rw_bv_merge_extend
(* Model/ConstRw.v *)
| U_bv_zext_pred : U rw_bv_zext_pred
| U_seq_nth_unit : U rw_seq_nth_unit
| U_str_replace_all : U rw_str_replace_all
| U_str_indexof : U (guard has_arg rw_str_indexof)
(* Model/OracleRw.v *)
| U_arith_strengthen : U rw_arith_strengthen
| U_fp_short_sort : U rw_fp_short_sort
| U_dt_identity sels ctors : U (rw_dt_identity sels ctors)
| U_str_simp_const : U (guard str_lit_long rw_str_simp_const).

Theorem U_tdecreasing : tdecreasing U.
Proof.
  intros R HR. destruct HR.
  - exact erase_child_tdecr.
  - apply replace_by_child_tdecr.
  - exact merge_children_tdecr.
  - exact sort_children_tdecr.
  - exact binary_reduction_tdecr.
  - exact let_elim_tdecr.
  - exact check_sat_assuming_tdecr.
  - exact remove_annotation_tdecr.
  - exact remove_rec_fun_tdecr.
  - exact simplify_logic_tdecr.
  - exact simplify_quoted_tdecr.
  - exact bool_double_neg_tdecr.
  - exact bool_xor_binary_tdecr.
  - exact arith_negate_relation_tdecr.
  - exact bv_double_neg_tdecr.
  - exact bv_eval_extend_tdecr.
  - exact bv_extract_const_tdecr.
  - apply bv_ite_to_bvcomp_tdecr.
  - exact bv_reflexive_nand_tdecr.
  - exact bv_merge_extend_tdecr.
  - exact bv_zext_pred_tdecr.
  - exact seq_nth_unit_tdecr.
  - exact str_replace_all_tdecr.
  - exact str_indexof_tdecr.
  - exact arith_strengthen_tdecr.
  - exact fp_short_sort_tdecr.
  - apply dt_identity_tdecr.
  - exact str_simp_const_tdecr.
Qed.

(* the structural set of Proofs/Core/Step.v is a subset, for every sort oracle *)
Lemma Score_in_U gs R : Score gs R -> U R.
Proof. intro H. destruct H; constructor. Qed.

(* one rewrite of the union at the root *)
Theorem uroot_decreases e e' : root_step U e e' -> tri_lt e' e.
Proof. intros (R & l & HR & He & Hin). exact (U_tdecreasing R HR e l e' He Hin). Qed.

(* one rewrite of the union anywhere in the term *)
Theorem ustep_lex t t' : step U t t' -> tri_lt t' t.
Proof. exact (tstep_decreases U U_tdecreasing t t'). Qed.

Theorem ustep_decreases t t' :
  step U t t' ->
  size t' < size t \/
  (size t' = size t /\ wchars t' < wchars t) \/
  (size t' = size t /\ wchars t' = wchars t /\ disorder t' < disorder t).
Proof. intro H. exact (proj1 (tri_lt_unfold t' t) (ustep_lex t t' H)). Qed.

Theorem usteps_lex t t' : clos_trans sexp (step U) t t' -> tri_lt t' t.
Proof. exact (tsteps_decrease U U_tdecreasing t t'). Qed.

Theorem no_cycles_union t t' : clos_trans sexp (step U) t t' -> t <> t'.
Proof. exact (tno_cycles U U_tdecreasing t t'). Qed.

Theorem no_noop_union t : ~ step U t t.
Proof. exact (tno_noop U U_tdecreasing t). Qed.

Theorem ustep_wf : well_founded (fun a b => step U b a).
Proof. exact (tstep_wf U U_tdecreasing). Qed.

Theorem no_infinite_chain_union (f : nat -> sexp) : ~ (forall n, step U (f n) (f (S n))).
Proof. exact (tno_infinite_chain U U_tdecreasing f). Qed.

(* the structural theorem is an instance *)
Corollary cstep_in_ustep gs t t' : cstep gs t t' -> step U t t'.
Proof.
  induction 1 as [e e' (R & l & HR & He & Hin)|pre x y post _ IH].
  - apply step_root. exists R, l. split; [exact (Score_in_U gs R HR)|now split].
  - now apply step_child.
Qed.

(* ---- a decision procedure for the order, used to record counterexamples ---- *)
Definition tri_ltb (a b : sexp) : bool :=
  Nat.ltb (size a) (size b) ||
  (Nat.eqb (size a) (size b) &&
   (Nat.ltb (wchars a) (wchars b) ||
    (Nat.eqb (wchars a) (wchars b) && Nat.ltb (disorder a) (disorder b)))).

Lemma tri_ltb_spec a b : tri_ltb a b = true <-> tri_lt a b.
Proof.
  unfold tri_ltb. rewrite tri_lt_unfold.
  destruct (Nat.ltb_spec (size a) (size b)) as [H1|H1]; cbn [orb]; [split; [lia|reflexivity]|].
  destruct (Nat.eqb_spec (size a) (size b)) as [H2|H2]; cbn [andb]; [|split; [discriminate|lia]].
  destruct (Nat.ltb_spec (wchars a) (wchars b)) as [H3|H3]; cbn [orb]; [split; [lia|reflexivity]|].
  destruct (Nat.eqb_spec (wchars a) (wchars b)) as [H4|H4]; cbn [andb]; [|split; [discriminate|lia]].
  destruct (Nat.ltb_spec (disorder a) (disorder b)) as [H5|H5]; split; try reflexivity; try discriminate; lia.
Qed.

Lemma tri_ltb_false a b : tri_ltb a b = false -> ~ tri_lt a b.
Proof. intros H H'. apply tri_ltb_spec in H'. congruence. Qed.

(* a rewrite with a proposal that is not smaller cannot be ranked by the triple *)
Lemma not_tdecr (R : rewrite) e l e' : R e = Some l -> In e' l -> tri_ltb e' e = false -> ~ tdecr R.
Proof. intros HR Hin Hf H. exact (tri_ltb_false _ _ Hf (H e l e' HR Hin)). Qed.

(* ---- the members, spelled out ---- *)
Definition U_members (R : rewrite) : Prop :=
  R = rw_erase_child \/ (exists gs, R = rw_replace_by_child gs) \/ R = rw_merge_children \/
  R = rw_sort_children \/ R = rw_binary_reduction \/ R = rw_let_elim \/
  R = rw_check_sat_assuming \/ R = rw_remove_annotation \/ R = rw_remove_rec_fun \/
  R = rw_simplify_logic \/ R = rw_simplify_quoted \/
  R = rw_bool_double_neg \/ R = rw_bool_xor_binary \/ R = rw_arith_negate_relation \/
  R = rw_bv_double_neg \/ R = rw_bv_eval_extend \/ R = rw_bv_extract_const \/
  (exists p, R = rw_bv_ite_to_bvcomp p) \/ R = rw_bv_reflexive_nand \/ R = rw_bv_merge_extend \/
  R = rw_bv_zext_pred \/ R = rw_seq_nth_unit \/ R = rw_str_replace_all \/
  R = guard has_arg rw_str_indexof \/
  R = rw_arith_strengthen \/ R = rw_fp_short_sort \/ (exists sels ctors, R = rw_dt_identity sels ctors) \/
  R = guard str_lit_long rw_str_simp_const.

Ltac solve_member := first [reflexivity | eexists; reflexivity | do 2 eexists; reflexivity].

Lemma U_iff R : U R <-> U_members R.
Proof.
  unfold U_members. split.
  - intro H. destruct H; repeat (first [solve [left; solve_member] | right]); solve_member.
  - intro H.
    repeat match type of H with _ \/ _ => destruct H as [H | H] end;
      repeat match type of H with exists _, _ => let x := fresh "x" in destruct H as [x H] end;
      subst R; constructor.
Qed.
