(* C03, union ranking: the measure.  A term is ranked by the triple
     (size e, wchars e, disorder e)
   ordered lexicographically, where size = number of nodes, disorder = the
   inversions of the child sizes summed over all nodes (Proofs/Core/Sort.v) and
   wchars = the weighted number of characters of all leaves: the letter N and the
   characters < and > count 2, the letter x counts 7, every other character 1 (so
   that NRA -> LRA, < -> = and xor -> distinct are decreases; all other members
   that keep the number of nodes delete characters).  Replacing a child by a smaller one (in this order)
   makes the parent smaller; hence a rewrite anywhere in a term with rewrites that
   decrease the triple at the root decreases the triple of the whole term. *)
From DD Require Import Model.CoreRw Proofs.Core.Base Proofs.Core.Sort.
From DD Require Export Proofs.Measure.Step Proofs.Union.Lex3.
From Coq Require Import Permutation Relations Wellfounded Arith Lia.
Local Open Scope list_scope.

(* ---- weighted text length ---- *)
Definition cw (c : char) : nat :=
  if (N.eqb c 78 || N.eqb c 60 || N.eqb c 62)%bool then 2 else if N.eqb c 120 then 7 else 1.

Fixpoint wlen (s : str) : nat :=
  match s with [] => 0 | c :: r => cw c + wlen r end.

Lemma cw_pos c : 1 <= cw c.
Proof. unfold cw. destruct (N.eqb c 78 || N.eqb c 60 || N.eqb c 62)%bool; [lia|]. destruct (N.eqb c 120); lia. Qed.

Lemma wlen_cons c s : wlen (c :: s) = cw c + wlen s.
Proof. reflexivity. Qed.

Lemma wlen_app a b : wlen (a ++ b) = wlen a + wlen b.
Proof.
  induction a as [|c a IH]; [reflexivity|]. rewrite <- app_comm_cons, !wlen_cons, IH. lia.
Qed.

Lemma wlen_ge_length s : length s <= wlen s.
Proof.
  induction s as [|c s IH]; [cbn; lia|]. rewrite wlen_cons. cbn [length]. pose proof (cw_pos c). lia.
Qed.

Lemma wlen_skipn_le k : forall s, wlen (skipn k s) <= wlen s.
Proof.
  induction k as [|k IH]; intros [|c s]; cbn [skipn]; try lia.
  rewrite wlen_cons. specialize (IH s). lia.
Qed.

(* cutting the section [a, b) out of a text *)
Lemma wlen_cut s : forall a b,
  a < b -> a < length s -> wlen (firstn a s ++ skipn b s) < wlen s.
Proof.
  induction s as [|c s IH]; intros a b Hab Hal; [cbn in Hal; lia|].
  destruct b as [|b]; [lia|]. destruct a as [|a].
  - cbn [firstn skipn app]. rewrite wlen_cons.
    pose proof (wlen_skipn_le b s). pose proof (cw_pos c). lia.
  - cbn [firstn skipn]. rewrite <- app_comm_cons, !wlen_cons.
    cbn [length] in Hal. assert (H1 : a < b) by lia. assert (H2 : a < length s) by lia.
    specialize (IH a b H1 H2). lia.
Qed.

Lemma wlen_tl s : s <> [] -> wlen (tl s) < wlen s.
Proof. destruct s as [|c s]; [congruence|]. intros _. cbn [tl]. rewrite wlen_cons. pose proof (cw_pos c). lia. Qed.

Lemma wlen_removelast s : s <> [] -> wlen (removelast s) < wlen s.
Proof.
  intro H. rewrite (app_removelast_last 0%N H) at 2. rewrite wlen_app, wlen_cons.
  pose proof (cw_pos (last s 0%N)). lia.
Qed.

(* ---- weighted characters of a term ---- *)
Fixpoint wchars (e : sexp) : nat :=
  match e with
  | L s => wlen s
  | T l => fold_right (fun x a => wchars x + a) 0 l
  end.
Definition wcharss (l : list sexp) : nat := fold_right (fun x a => wchars x + a) 0 l.

Lemma wchars_L s : wchars (L s) = wlen s.
Proof. reflexivity. Qed.

Lemma wchars_T l : wchars (T l) = wcharss l.
Proof. reflexivity. Qed.

Lemma wcharss_nil : wcharss [] = 0.
Proof. reflexivity. Qed.

Lemma wcharss_cons x l : wcharss (x :: l) = wchars x + wcharss l.
Proof. reflexivity. Qed.

Lemma wcharss_app l m : wcharss (l ++ m) = wcharss l + wcharss m.
Proof.
  induction l as [|x l IH]; [reflexivity|].
  rewrite <- app_comm_cons, !wcharss_cons, IH. lia.
Qed.

Lemma wcharss_perm l m : Permutation l m -> wcharss l = wcharss m.
Proof.
  induction 1 as [|x l m _ IH|x y l|l m n _ IH1 _ IH2]; rewrite ?wcharss_cons; lia.
Qed.

(* ---- the triple and its order ---- *)
Definition tri (e : sexp) : nat * nat * nat := (size e, wchars e, disorder e).
Definition tri_lt (a b : sexp) : Prop := lex3 (tri a) (tri b).

Lemma tri_lt_wf : well_founded tri_lt.
Proof. unfold tri_lt. apply (wf_inverse_image sexp (nat * nat * nat) lex3 tri), lex3_wf. Qed.

Lemma tri_lt_trans a b c : tri_lt a b -> tri_lt b c -> tri_lt a c.
Proof. unfold tri_lt. apply lex3_trans. Qed.

Lemma tri_lt_irrefl a : ~ tri_lt a a.
Proof. unfold tri_lt. apply lex3_irrefl. Qed.

Lemma tri_lt_unfold a b :
  tri_lt a b <->
  size a < size b \/ (size a = size b /\ wchars a < wchars b) \/
  (size a = size b /\ wchars a = wchars b /\ disorder a < disorder b).
Proof. reflexivity. Qed.

(* the three ways to be smaller *)
Lemma tri_by_size a b : size a < size b -> tri_lt a b.
Proof. intro H. apply tri_lt_unfold. now left. Qed.

Lemma tri_by_wchars a b : size a <= size b -> wchars a < wchars b -> tri_lt a b.
Proof. intros H1 H2. apply tri_lt_unfold. lia. Qed.

Lemma tri_by_disorder a b : size a = size b -> wchars a = wchars b -> disorder a < disorder b -> tri_lt a b.
Proof. intros H1 H2 H3. apply tri_lt_unfold. lia. Qed.

(* ---- every component is monotone in every child position; when the size of the child is unchanged the
        inversions of the parent are unchanged ---- *)
Lemma child_tri pre x y post :
  tri_lt y x -> tri_lt (T (pre ++ y :: post)) (T (pre ++ x :: post)).
Proof.
  intro H0. pose proof (proj1 (tri_lt_unfold y x) H0) as H. clear H0. apply tri_lt_unfold.
  rewrite !size_T, !sizes_app, !sizes_cons, !wchars_T, !wcharss_app, !wcharss_cons.
  destruct H as [H | [[H1 H2] | [H1 [H2 H3]]]]; [left; lia | right; left; lia | right; right].
  split; [lia|]. split; [lia|].
  rewrite !disorder_T, !map_app, !disorders_app. cbn [map]. rewrite !disorders_cons, H1. lia.
Qed.

(* ---- the generic step theory: rewrites that decrease the triple at the root ---- *)
Definition tdecr (R : rewrite) : Prop := forall e l e', R e = Some l -> In e' l -> tri_lt e' e.
Definition tdecreasing (S : rewrite -> Prop) : Prop := forall R, S R -> tdecr R.

Section TriRanking.
  Variable S : rewrite -> Prop.
  Hypothesis HS : tdecreasing S.

  Theorem tstep_decreases : forall t t', step S t t' -> tri_lt t' t.
  Proof.
    induction 1 as [e e' (R & l & HR & He & Hin)|pre x y post _ IH].
    - exact (HS R HR e l e' He Hin).
    - now apply child_tri.
  Qed.

  Theorem tsteps_decrease : forall t t', clos_trans sexp (step S) t t' -> tri_lt t' t.
  Proof.
    induction 1 as [t t' H|t u v _ IH1 _ IH2]; [now apply tstep_decreases|].
    eapply tri_lt_trans; eassumption.
  Qed.

  Theorem tno_cycles : forall t t', clos_trans sexp (step S) t t' -> t <> t'.
  Proof. intros t t' H E. apply tsteps_decrease in H. subst. exact (tri_lt_irrefl _ H). Qed.

  Theorem tno_noop : forall t, ~ step S t t.
  Proof. intros t H. apply tstep_decreases in H. exact (tri_lt_irrefl _ H). Qed.

  Theorem tstep_wf : well_founded (fun a b => step S b a).
  Proof.
    apply (wf_incl _ _ tri_lt); [|exact tri_lt_wf]. intros a b H. exact (tstep_decreases b a H).
  Qed.

  (* consequently there is no infinite chain of steps *)
  Theorem tno_infinite_chain : forall f : nat -> sexp, ~ (forall n, step S (f n) (f (Datatypes.S n))).
  Proof.
    intros f Hf.
    assert (H : forall t, Acc (fun a b => step S b a) t -> forall n, f n <> t).
    { induction 1 as [t _ IH]. intros n E. subst t. exact (IH (f (Datatypes.S n)) (Hf n) (Datatypes.S n) eq_refl). }
    exact (H (f 0) (tstep_wf (f 0)) 0 eq_refl).
  Qed.
End TriRanking.
