(* (a) Well-formedness of what the simplifications of Model/GlobalRw.v insert: replacement values and declarations
   are well formed (Spec/StdReader.v) when the node is and the oracle values (sorts, bodies of defined functions)
   are.  BVReduceBW and StringContainsToConcat derive the names of their declarations from a leaf of the node by
   prefixing / suffixing it: that is a single token only if the leaf is an atom.  Since the mutators skip a string
   literal or a comment in that place (besides quoted symbols and, for str.contains, constants), a well-formed leaf
   that passes their guards IS an atom: the theorems *_closed_wf need the well-formedness of the node only; the
   versions with the hypothesis "the leaf is an atom" are kept, the stronger ones are derived from them. *)
From DD Require Import Model.Rewrites Model.GlobalRw Spec.StdReader.
From DD Require Import Proofs.Closure.Atoms Proofs.Closure.RwClosed Proofs.Rw.LetSubst Proofs.Rw.InlineSubst Proofs.More4.Base.
Local Open Scope list_scope.

(* ---- IntroduceFreshVariable ---- *)
Lemma fresh_filter_sort gs vars isdef e so :
  fresh_filter gs vars isdef e = Some (Some so) -> gs e = Some so /\ is_leaf e = false.
Proof.
  unfold fresh_filter. destruct e as [s|l]; [discriminate|].
  destruct (is_const (T l) || isdef); [discriminate|].
  destruct (gs (T l)) as [so'|]; [|discriminate].
  destruct (is_bv_sort so').
  - destruct (bv_var_scan _ _ _ _) as [[|]|]; try discriminate. intro H. injection H as ->. now split.
  - intro H. injection H as ->. now split.
Qed.

Lemma rw_fresh_var_inv gs vars isdef declared id here e l g :
  rw_fresh_var gs vars isdef declared id here e = Some l -> In g l ->
  exists so, gs e = Some so /\ declared (fresh_name id) = false /\
             g = GS [(here, Some (L (fresh_name id)))] [] [mk_decl (fresh_name id) so].
Proof.
  unfold rw_fresh_var. intros HR Hin.
  destruct (fresh_filter gs vars isdef e) as [[so|]|] eqn:EF; try discriminate; [|injection HR as <-; destruct Hin].
  cbv zeta in HR. destruct (declared (fresh_name id)) eqn:Ed; injection HR as <-; [destruct Hin|].
  destruct Hin as [<- | []]. apply fresh_filter_sort in EF as [EF _]. now exists so.
Qed.

Theorem rw_fresh_var_closed gs vars isdef declared id here e l g :
  (forall x so, gs x = Some so -> wf so = true) ->
  rw_fresh_var gs vars isdef declared id here e = Some l -> In g l -> gsimp_wf g.
Proof.
  intros Hgs HR Hin. destruct (rw_fresh_var_inv _ _ _ _ _ _ _ _ _ HR Hin) as (so & Eso & _ & ->).
  split.
  - intros r Hr. destruct Hr as [<- | []]. cbn [wf]. apply fresh_name_leaf.
  - intros d [<- | []]. apply wf_mk_decl; [apply fresh_name_leaf | now apply (Hgs e)].
Qed.

(* ---- BVReduceBW ---- *)
(* the shape of a proposal, with all three guards on the declared name *)
Lemma rw_bv_reduce_bw_inv_guard gs bw declared here e l g :
  rw_bv_reduce_bw gs bw declared here e = Some l -> In g l ->
  exists h s rest so w b,
    e = T (h :: L s :: rest) /\ gs (L s) = Some so /\ declared (95%N :: s) = false /\ is_piped s = false /\
    starts_dq_semi s = false /\
    g = reduce_bw_one here (L s) so (95%N :: s) w b.
Proof.
  unfold rw_bv_reduce_bw. intros HR Hin.
  destruct (reduce_bw_filter gs e); [|injection HR as <-; destruct Hin].
  destruct e as [s|[|h [|n1 rest]]]; try (injection HR as <-; destruct Hin).
  destruct (bw n1) as [w|]; [|discriminate].
  destruct n1 as [s|m]; [|destruct (gs (T m)); injection HR as <-; destruct Hin].
  destruct (gs (L s)) as [so|] eqn:Eso; [|injection HR as <-; destruct Hin].
  cbv zeta in HR. fold (starts_dq_semi s) in HR.
  destruct (is_piped s) eqn:Ep; [injection HR as <-; destruct Hin|].
  destruct (starts_dq_semi s) eqn:Eg; [injection HR as <-; destruct Hin|].
  destruct (declared (95%N :: s)) eqn:Ed; [injection HR as <-; destruct Hin|].
  cbn [orb] in HR. injection HR as <-. apply in_map_iff in Hin as (b & <- & _).
  exists h, s, rest, so, w, b. repeat split; assumption.
Qed.

Lemma rw_bv_reduce_bw_inv gs bw declared here e l g :
  rw_bv_reduce_bw gs bw declared here e = Some l -> In g l ->
  exists h s rest so w b,
    e = T (h :: L s :: rest) /\ gs (L s) = Some so /\ declared (95%N :: s) = false /\ is_piped s = false /\
    g = reduce_bw_one here (L s) so (95%N :: s) w b.
Proof.
  intros HR Hin.
  destruct (rw_bv_reduce_bw_inv_guard _ _ _ _ _ _ _ HR Hin) as (h & s & rest & so & w & b & He & Eso & Ed & Ep & _ & Hg).
  exists h, s, rest, so, w, b. repeat split; assumption.
Qed.

(* since the guard on a leading double quote / semicolon: a proposal is made only when the declared name, a
   well-formed leaf, is an atom *)
Lemma rw_bv_reduce_bw_name_atom gs bw declared here e l g :
  wf e = true -> rw_bv_reduce_bw gs bw declared here e = Some l -> In g l ->
  forall s, nth_child e 1 = Some (L s) -> atom_ok s = true.
Proof.
  intros Hw HR Hin s0 Hs0.
  destruct (rw_bv_reduce_bw_inv_guard _ _ _ _ _ _ _ HR Hin) as (h & s & rest & so & w & b & -> & _ & _ & Ep & Eg & _).
  injection Hs0 as <-. apply leaf_atom_reduce_bw; [|exact Ep|exact Eg].
  apply (wf_T_in _ (L s) Hw). right. now left.
Qed.

(* the hypothesis "the declared name is an atom" is kept as an argument here; it follows from wf e, see below *)
Theorem rw_bv_reduce_bw_closed gs bw declared here e l g :
  wf e = true ->
  (forall x so, gs x = Some so -> wf so = true) ->
  (forall s, nth_child e 1 = Some (L s) -> atom_ok s = true) ->
  rw_bv_reduce_bw gs bw declared here e = Some l -> In g l -> gsimp_wf g.
Proof.
  intros Hw Hgs Hat HR Hin.
  destruct (rw_bv_reduce_bw_inv _ _ _ _ _ _ _ HR Hin) as (h & s & rest & so & w & b & -> & Eso & _ & _ & ->).
  specialize (Hat s eq_refl). pose proof (Hgs _ _ Eso) as Hso.
  assert (Hv : leaf_ok (95%N :: s) = true).
  { apply atom_ok_leaf. apply atom_ok_cons; [reflexivity|]. now apply atom_ok_str in Hat as [Hat _]. }
  split.
  - intros r [<- | []]. unfold lf. cbn [wf forallb]. rewrite wf_idx_head by reflexivity.
    rewrite Hso, Hv. rewrite (atom_ok_leaf _ Hat). reflexivity.
  - intros d [<- | []]. apply wf_mk_decl; [exact Hv | apply wf_bv_sort_of].
Qed.

(* the stronger statement: from the well-formedness of the node alone *)
Theorem rw_bv_reduce_bw_closed_wf gs bw declared here e l g :
  wf e = true ->
  (forall x so, gs x = Some so -> wf so = true) ->
  rw_bv_reduce_bw gs bw declared here e = Some l -> In g l -> gsimp_wf g.
Proof.
  intros Hw Hgs HR Hin.
  exact (rw_bv_reduce_bw_closed _ _ _ _ _ _ _ Hw Hgs (rw_bv_reduce_bw_name_atom _ _ _ _ _ _ _ Hw HR Hin) HR Hin).
Qed.

(* ---- BVMergeReducedBW ---- *)
Lemma zext_def_wf defs n b :
  wf n = true -> Forall (fun d => wf (d_body d) = true) defs -> zext_def defs n = Some (Some b) -> wf b = true.
Proof.
  intros Hn Hdefs H. unfold zext_def in H. destruct (def_of defs n) as [d|] eqn:Ed; [|discriminate].
  assert (Hd : In d defs).
  { unfold def_of in Ed. destruct n as [s|[|[h|?] ?]]; try discriminate; now apply lookup_def_inv in Ed as [_ Ed]. }
  rewrite Forall_forall in Hdefs. destruct (instantiate d n) as [r|] eqn:Ei; [|discriminate].
  destruct (is_indexed_app r "zero_extend" 1); [|discriminate]. injection H as <-.
  exact (instantiate_wf d n r Hn (Hdefs d Hd) Ei).
Qed.

Lemma rw_bv_merge_bw_inv gs defs here e l g :
  rw_bv_merge_bw gs defs here e = Some l -> In g l ->
  exists h n1 n2 nsort rest n b2 z dec,
    e = T (h :: n1 :: n2 :: nsort :: rest) /\ last_of_last e = LLnode n /\ zext_def defs n = Some (Some b2) /\
    last_child b2 = Some dec /\
    g = GS [(here, Some (T [lf "define-fun"; n1; T []; nsort; T [idx_head "zero_extend" [z]; dec]]))] [] [].
Proof.
  unfold rw_bv_merge_bw. intros HR Hin.
  destruct (is_op e "define-fun"); [|injection HR as <-; destruct Hin].
  destruct e as [s|[|h [|n1 [|n2 rest]]]]; try discriminate.
  destruct (negb (Nat.eqb (len n2) 0)); [injection HR as <-; destruct Hin|].
  destruct (gs n1) as [so|]; [|injection HR as <-; destruct Hin].
  destruct (negb (is_bv_sort so)); [injection HR as <-; destruct Hin|].
  destruct (zext_def defs n1) as [[b1|]|]; try discriminate; [|injection HR as <-; destruct Hin].
  destruct (last_of_last (T (h :: n1 :: n2 :: rest))) as [|c|n] eqn:ELL; try discriminate.
  { destruct (lookup_def defs [c]); [discriminate|injection HR as <-; destruct Hin]. }
  destruct (zext_def defs n) as [[b2|]|] eqn:EZ; try discriminate; [|injection HR as <-; destruct Hin].
  destruct rest as [|nsort rest]; [discriminate|].
  destruct (zext_amount b1) as [z1|]; [|discriminate].
  destruct (sexp_eqb n n1); [injection HR as <-; destruct Hin|].
  match type of HR with (if ?c then _ else _) = _ => destruct c end; [injection HR as <-; destruct Hin|].
  destruct (zext_amount b2) as [z2|]; [|discriminate].
  destruct (last_child b2) as [dec|] eqn:ELC; [|discriminate].
  injection HR as <-. destruct Hin as [<- | []].
  exists h, n1, n2, nsort, rest, n, b2, (z1 + z2)%Z, dec. repeat split; assumption.
Qed.

(* the inner definition (the one node[-1][-1] names) refers to itself, directly or not: nothing is proposed.
   First form: whenever the mutator answers at all (does not raise); second form: with the guards passed spelled out. *)
Theorem rw_bv_merge_bw_skips_recursive_proof gs defs here e n l :
  rw_bv_merge_bw gs defs here e = Some l ->
  last_of_last e = LLnode n ->
  (match n with L s => is_recursive defs s | T (L h :: _) => is_recursive defs h | _ => false end) = true ->
  l = [].
Proof.
  unfold rw_bv_merge_bw. intros HR HLL Hrec.
  destruct (is_op e "define-fun"); [|now injection HR as <-].
  destruct e as [s|[|h [|n1 [|n2 rest]]]]; try discriminate.
  destruct (negb (Nat.eqb (len n2) 0)); [now injection HR as <-|].
  destruct (gs n1) as [so|]; [|now injection HR as <-].
  destruct (negb (is_bv_sort so)); [now injection HR as <-|].
  destruct (zext_def defs n1) as [[b1|]|]; try discriminate; [|now injection HR as <-].
  rewrite HLL in HR.
  destruct (zext_def defs n) as [[b2|]|]; try discriminate; [|now injection HR as <-].
  destruct rest as [|nsort rest]; [discriminate|].
  destruct (zext_amount b1) as [z1|]; [|discriminate].
  destruct (sexp_eqb n n1); [now injection HR as <-|].
  rewrite Hrec in HR. now injection HR as <-.
Qed.

Theorem rw_bv_merge_bw_recursive_guard_proof gs defs here h n1 n2 nsort rest so b1 b2 z1 n :
  let e := T (h :: n1 :: n2 :: nsort :: rest) in
  is_op e "define-fun" = true -> len n2 = 0%nat -> gs n1 = Some so -> is_bv_sort so = true ->
  zext_def defs n1 = Some (Some b1) -> last_of_last e = LLnode n -> zext_def defs n = Some (Some b2) ->
  zext_amount b1 = Some z1 ->
  (match n with L s => is_recursive defs s | T (L h :: _) => is_recursive defs h | _ => false end) = true ->
  rw_bv_merge_bw gs defs here e = Some [].
Proof.
  intros e Hop Hlen Hgs Hbv Hz1 HLL Hz2 Hza Hrec. unfold rw_bv_merge_bw. rewrite Hop. unfold e in *.
  rewrite Hlen, Hgs, Hbv, Hz1, HLL, Hz2, Hza, Hrec. cbn [Nat.eqb negb].
  now destruct (sexp_eqb n n1).
Qed.

(* the case of the task: the inner definition is named by a leaf *)
Corollary rw_bv_merge_bw_skips_recursive_leaf_proof gs defs here e s l :
  rw_bv_merge_bw gs defs here e = Some l -> last_of_last e = LLnode (L s) -> is_recursive defs s = true -> l = [].
Proof. intros HR HLL Hrec. exact (rw_bv_merge_bw_skips_recursive_proof _ _ _ _ (L s) _ HR HLL Hrec). Qed.

Theorem rw_bv_merge_bw_closed gs defs here e l g :
  wf e = true -> Forall (fun d => wf (d_body d) = true) defs ->
  rw_bv_merge_bw gs defs here e = Some l -> In g l -> gsimp_wf g.
Proof.
  intros Hw Hdefs HR Hin.
  destruct (rw_bv_merge_bw_inv _ _ _ _ _ _ HR Hin) as (h & n1 & n2 & nsort & rest & n & b2 & z & dec & -> & ELL & EZ & ELC & ->).
  pose proof (wf_last_of_last_node _ _ Hw ELL) as Hn.
  pose proof (zext_def_wf _ _ _ Hn Hdefs EZ) as Hb2.
  pose proof (wf_last_child _ _ Hb2 ELC) as Hdec.
  split; [|intros d []]. intros r [<- | []].
  cbn [wf forallb] in Hw. repeat (apply andb_true_iff in Hw; destruct Hw as [? Hw]).
  unfold lf. cbn [wf forallb]. rewrite wf_idx_head by reflexivity.
  repeat (apply andb_true_intro; split); first [assumption | reflexivity].
Qed.

(* ---- StringContainsToConcat ---- *)
Lemma rw_str_contains_inv_guard declared e l g :
  rw_str_contains declared e = Some l -> In g l ->
  exists h v x,
    e = T [h; L v; x] /\ declared (v ++ lit "_prefix") = false /\ declared (v ++ lit "_suffix") = false /\
    is_const_leaf v = false /\ is_piped v = false /\ starts_semi v = false /\
    g = GS [] [(e, Some (T [lf "="; L v; T [lf "str.++"; L (v ++ lit "_prefix"); x; L (v ++ lit "_suffix")]]))]
           [mk_decl (v ++ lit "_prefix") (lf "String"); mk_decl (v ++ lit "_suffix") (lf "String")].
Proof.
  unfold rw_str_contains. intros HR Hin.
  destruct (is_op e "str.contains"); [|injection HR as <-; destruct Hin].
  destruct e as [s|[|h [|[v|m] [|x [|y r]]]]]; try (injection HR as <-; destruct Hin).
  cbv zeta in HR. fold (starts_semi v) in HR.
  destruct (is_const_leaf v) eqn:Ec; [injection HR as <-; destruct Hin|].
  destruct (is_piped v) eqn:Ep; [injection HR as <-; destruct Hin|].
  destruct (starts_semi v) eqn:Eg; [injection HR as <-; destruct Hin|]. cbn [orb] in HR.
  destruct (declared (v ++ lit "_prefix")) eqn:E1; [injection HR as <-; destruct Hin|].
  destruct (declared (v ++ lit "_suffix")) eqn:E2; [injection HR as <-; destruct Hin|].
  cbn [orb] in HR. injection HR as <-. destruct Hin as [<- | []].
  exists h, v, x. repeat split; assumption.
Qed.

Lemma rw_str_contains_inv declared e l g :
  rw_str_contains declared e = Some l -> In g l ->
  exists h v x,
    e = T [h; L v; x] /\ declared (v ++ lit "_prefix") = false /\ declared (v ++ lit "_suffix") = false /\
    is_const_leaf v = false /\ is_piped v = false /\
    g = GS [] [(e, Some (T [lf "="; L v; T [lf "str.++"; L (v ++ lit "_prefix"); x; L (v ++ lit "_suffix")]]))]
           [mk_decl (v ++ lit "_prefix") (lf "String"); mk_decl (v ++ lit "_suffix") (lf "String")].
Proof.
  intros HR Hin.
  destruct (rw_str_contains_inv_guard _ _ _ _ HR Hin) as (h & v & x & He & H1 & H2 & Hc & Hp & _ & Hg).
  exists h, v, x. repeat split; assumption.
Qed.

(* since the guard on a leading semicolon: a proposal is made only when the first operand, if a well-formed leaf,
   is an atom *)
Lemma rw_str_contains_operand_atom declared e l g :
  wf e = true -> rw_str_contains declared e = Some l -> In g l ->
  forall s, nth_child e 1 = Some (L s) -> atom_ok s = true.
Proof.
  intros Hw HR Hin s0 Hs0.
  destruct (rw_str_contains_inv_guard _ _ _ _ HR Hin) as (h & v & x & -> & _ & _ & Ec & Ep & Eg & _).
  injection Hs0 as <-. apply leaf_atom_str_contains; [|exact Ec|exact Ep|exact Eg].
  apply (wf_T_in _ (L v) Hw). right. now left.
Qed.

(* the hypothesis "the operand is an atom" is kept as an argument here; it follows from wf e, see below *)
Theorem rw_str_contains_closed declared e l g :
  wf e = true ->
  (forall s, nth_child e 1 = Some (L s) -> atom_ok s = true) ->
  rw_str_contains declared e = Some l -> In g l -> gsimp_wf g.
Proof.
  intros Hw Hat HR Hin.
  destruct (rw_str_contains_inv _ _ _ _ HR Hin) as (h & v & x & -> & _ & _ & _ & _ & ->).
  specialize (Hat v eq_refl).
  assert (H1 : leaf_ok (v ++ lit "_prefix") = true) by (apply atom_ok_leaf, atom_ok_app; [assumption|reflexivity]).
  assert (H2 : leaf_ok (v ++ lit "_suffix") = true) by (apply atom_ok_leaf, atom_ok_app; [assumption|reflexivity]).
  cbn [wf forallb] in Hw. repeat (apply andb_true_iff in Hw; destruct Hw as [? Hw]).
  split.
  - intros r Hr. apply gs_values_spec in Hr as [(p & []) | (k & [Hk | []])]. injection Hk as _ <-.
    pose proof (atom_ok_leaf _ Hat) as Hv. unfold lf. cbn [wf forallb].
    repeat (apply andb_true_intro; split); first [exact H1 | exact H2 | assumption | reflexivity].
  - intros d [<- | [<- | []]]; apply wf_mk_decl; first [assumption | reflexivity].
Qed.

(* the stronger statement: from the well-formedness of the node alone *)
Theorem rw_str_contains_closed_wf declared e l g :
  wf e = true -> rw_str_contains declared e = Some l -> In g l -> gsimp_wf g.
Proof.
  intros Hw HR Hin.
  exact (rw_str_contains_closed _ _ _ _ Hw (rw_str_contains_operand_atom _ _ _ _ Hw HR Hin) HR Hin).
Qed.

(* ---- EliminateVariable: every value is an operand of the equality ---- *)
Lemma rw_elim_var_inv input isdef e l g :
  rw_elim_var input isdef e = Some l -> In g l ->
  exists h ops t c ps,
    e = T (L h :: ops) /\ In t (elim_targets ops) /\ In c ops /\
    sexp_eqb c t = false /\ mem_sexp t (subterms c) = false /\
    ps = filter (fun p => negb (isdef p)) (occs_input t input) /\ ps <> [] /\
    g = GS (map (fun p => (p, Some c)) ps) [] [].
Proof.
  unfold rw_elim_var. intros HR Hin.
  destruct e as [s|[|[h|m] ops]]; try (injection HR as <-; destruct Hin).
  destruct (iss h "=" && existsb is_leaf ops); [|injection HR as <-; destruct Hin].
  injection HR as <-. apply in_flat_map in Hin as (t & Ht & Hin). apply in_flat_map in Hin as (c & Hc & Hin).
  unfold elim_one in Hin. destruct (sexp_eqb c t) eqn:E1; [destruct Hin|].
  destruct (mem_sexp t (subterms c)) eqn:E2; [destruct Hin|].
  destruct (filter (fun p => negb (isdef p)) (occs_input t input)) as [|p0 ps] eqn:E3; [destruct Hin|].
  destruct Hin as [<- | []].
  exists h, ops, t, c, (p0 :: ps). repeat split; first [assumption | reflexivity | discriminate | now symmetry].
Qed.

Theorem rw_elim_var_closed input isdef e l g :
  wf e = true -> rw_elim_var input isdef e = Some l -> In g l -> gsimp_wf g.
Proof.
  intros Hw HR Hin.
  destruct (rw_elim_var_inv _ _ _ _ _ HR Hin) as (h & ops & t & c & ps & -> & _ & Hc & _ & _ & _ & _ & ->).
  split; [|intros d []]. intros r Hr. apply gs_values_spec in Hr as [(p & Hp) | (k & [])].
  cbn [gs_ids] in Hp. apply in_map_iff in Hp as (q & Hq & _). injection Hq as _ <-.
  apply (wf_T_in _ c Hw). now right.
Qed.

(* ---- RemoveConstructor, RemoveDatatype: deletions only ---- *)
Lemma rm_cons_types_del p : forall tys j l g, rm_cons_types p j tys = Some l -> In g l -> exists q, g = del_at q.
Proof.
  induction tys as [|ty r IH]; intros j l g H Hin; cbn [rm_cons_types] in H.
  - injection H as <-. destruct Hin.
  - destruct (rm_cons_types p (S j) r) as [rest|] eqn:E.
    + destruct ty as [[|? ?]|cs]; try discriminate; injection H as <-.
      * now apply (IH (S j) rest).
      * apply in_app_iff in Hin as [Hin | Hin]; [|now apply (IH (S j) rest)].
        apply in_map_iff in Hin as (i & <- & _). now eexists.
    + destruct ty as [[|? ?]|cs]; discriminate.
Qed.

Lemma rw_remove_constructor_inv here e l g :
  rw_remove_constructor here e = Some l -> In g l -> exists q, g = del_at q.
Proof.
  unfold rw_remove_constructor. intros HR Hin.
  destruct (is_op e "declare-datatype").
  - destruct e as [s|[|h [|n1 [|n2 [|? ?]]]]]; try (injection HR as <-; destruct Hin).
    destruct n2 as [[|? ?]|cs]; try discriminate; injection HR as <-; [destruct Hin|].
    apply in_map_iff in Hin as (i & <- & _). now eexists.
  - destruct (is_op e "declare-datatypes"); [|injection HR as <-; destruct Hin].
    destruct e as [s|[|h [|n1 [|n2 [|? ?]]]]]; try (injection HR as <-; destruct Hin).
    destruct n2 as [[|? ?]|tys]; try discriminate; [injection HR as <-; destruct Hin|].
    eapply rm_cons_types_del; eassumption.
Qed.

Theorem rw_remove_constructor_closed here e l g :
  rw_remove_constructor here e = Some l -> In g l -> gsimp_wf g.
Proof.
  intros HR Hin. destruct (rw_remove_constructor_inv _ _ _ _ HR Hin) as (q & ->).
  apply gsimp_wf_del. intros p v [H | []]. now injection H as _ <-.
Qed.

Lemma rw_remove_datatype_inv here e l g :
  rw_remove_datatype here e = Some l -> In g l ->
  exists i, g = GS [(here ++ [1; i]%nat, None); (here ++ [2; i]%nat, None)] [] [].
Proof.
  unfold rw_remove_datatype. intros HR Hin.
  destruct (is_op e "declare-datatypes"); [|injection HR as <-; destruct Hin].
  destruct e as [s|[|h [|n1 [|n2 [|? ?]]]]]; try (injection HR as <-; destruct Hin).
  destruct (Nat.eqb (len n1) (len n2)); injection HR as <-; [|destruct Hin].
  apply in_map_iff in Hin as (i & <- & _). now exists i.
Qed.

Theorem rw_remove_datatype_closed here e l g :
  rw_remove_datatype here e = Some l -> In g l -> gsimp_wf g.
Proof.
  intros HR Hin. destruct (rw_remove_datatype_inv _ _ _ _ HR Hin) as (i & ->).
  apply gsimp_wf_del. intros p v [H | [H | []]]; now injection H as _ <-.
Qed.
