(* Properties of the simplifications of Model/GlobalRw.v: the predicates (well-formedness of everything a gsimp
   inserts, freshness of its declarations) and the lemmas shared by the per-mutator proofs. *)
From DD Require Import Model.Rewrites Model.GlobalRw Spec.StdReader.
From DD Require Import Proofs.Closure.Atoms Proofs.Closure.RwClosed Proofs.Closure.InlineClosed.
From DD Require Import Proofs.Rw.LetSubst Proofs.Rw.InlineSubst Proofs.Core.Base.
Local Open Scope list_scope.

(* ---- the values a simplification inserts ---- *)
Definition ovals {A} (l : list (A * option sexp)) : list sexp :=
  flat_map (fun kv => match snd kv with Some r => [r] | None => [] end) l.
Definition gs_values (g : gsimp) : list sexp := ovals (gs_ids g) ++ ovals (gs_struct g).

Lemma in_ovals {A} (l : list (A * option sexp)) r : In r (ovals l) <-> exists k, In (k, Some r) l.
Proof.
  unfold ovals. rewrite in_flat_map. split.
  - intros ([k [v|]] & Hin & Hr); cbn [snd] in Hr; [|destruct Hr]. destruct Hr as [<- | []]. now exists k.
  - intros (k & Hin). exists (k, Some r). split; [assumption|now left].
Qed.

Lemma gs_values_spec g r :
  In r (gs_values g) <-> (exists p, In (p, Some r) (gs_ids g)) \/ (exists k, In (k, Some r) (gs_struct g)).
Proof. unfold gs_values. rewrite in_app_iff, !in_ovals. reflexivity. Qed.

(* (a) every replacement value and every declaration is well formed: the sexp-level form of the hypotheses of
   closed_apply_simp (Props/C15.v) on the values of the replacement map and on the declarations *)
Definition gsimp_wf (g : gsimp) : Prop :=
  (forall r, In r (gs_values g) -> wf r = true) /\ (forall d, In d (gs_fresh g) -> wf d = true).

(* (b) the declarations are (declare-const name sort) commands of pairwise distinct names none of which is declared
   (for the oracle [declared] = smtlib.is_declared_symbol), and each name occurs in a replacement value *)
Definition gsimp_fresh (declared : str -> bool) (g : gsimp) : Prop :=
  exists decls : list (str * sexp),
    gs_fresh g = map (fun ns => mk_decl (fst ns) (snd ns)) decls /\
    NoDup (map fst decls) /\
    forall n, In n (map fst decls) ->
      declared n = false /\ exists r, In r (gs_values g) /\ In (L n) (subterms r).

Lemma gsimp_wf_unfold g :
  gsimp_wf g <->
  (forall r, ((exists p, In (p, Some r) (gs_ids g)) \/ (exists k, In (k, Some r) (gs_struct g))) -> wf r = true) /\
  (forall d, In d (gs_fresh g) -> wf d = true).
Proof.
  unfold gsimp_wf. split; intros [H1 H2]; (split; [|exact H2]); intros r Hr; apply H1; now apply gs_values_spec.
Qed.

Lemma gsimp_fresh_unfold declared g :
  gsimp_fresh declared g <->
  exists decls : list (str * sexp),
    gs_fresh g = map (fun ns => T [lf "declare-const"; L (fst ns); snd ns]) decls /\
    NoDup (map fst decls) /\
    forall n, In n (map fst decls) ->
      declared n = false /\
      exists r, ((exists p, In (p, Some r) (gs_ids g)) \/ (exists k, In (k, Some r) (gs_struct g))) /\ In (L n) (subterms r).
Proof.
  unfold gsimp_fresh. split; intros (decls & H1 & H2 & H3); exists decls; (split; [exact H1|]); (split; [exact H2|]);
    intros n Hn; destruct (H3 n Hn) as (Hd & r & Hr & Hin); (split; [exact Hd|]); exists r; (split; [|exact Hin]); now apply gs_values_spec.
Qed.

Lemma gsimp_fresh_nil declared g : gs_fresh g = [] -> gsimp_fresh declared g.
Proof. intro H. exists []. rewrite H. split; [reflexivity|]. split; [apply NoDup_nil|]. intros n []. Qed.

Lemma gsimp_wf_del ids : (forall p v, In (p, v) ids -> v = None) -> gsimp_wf (GS ids [] []).
Proof.
  intro H. split; [|intros d []]. intros r Hr. apply gs_values_spec in Hr as [(p & Hp) | (k & [])].
  cbn [gs_ids] in Hp. apply H in Hp. discriminate.
Qed.

(* ---- freshly written leaves ---- *)
Lemma atom_ok_str s : atom_ok s = true -> atom_str s = true /\ s <> [].
Proof. destruct s; [discriminate|]. intro H. split; [exact H|discriminate]. Qed.

Lemma atom_ok_leaf s : atom_ok s = true -> leaf_ok s = true.
Proof. intro H. unfold leaf_ok, atom_ok_lib. now rewrite H. Qed.

Lemma atom_ok_app a b : atom_ok a = true -> atom_str b = true -> atom_ok (a ++ b) = true.
Proof.
  intros Ha Hb. apply atom_ok_str in Ha as [Ha Hne]. destruct a as [|c a]; [congruence|].
  change (atom_ok ((c :: a) ++ b)) with (atom_str ((c :: a) ++ b)). now rewrite atom_str_app, Ha, Hb.
Qed.

Lemma atom_ok_cons c s : atom_char c = true -> atom_str s = true -> atom_ok (c :: s) = true.
Proof. intros Hc Hs. unfold atom_ok. cbn [forallb]. unfold atom_str in Hs. now rewrite Hc, Hs. Qed.

(* ---- the guards of BVReduceBW / StringContainsToConcat leave only atoms among the well-formed leaves ---- *)
(* the guard "the text starts with a double quote or a semicolon" (BVReduceBW), "... with a semicolon" (str.contains) *)
Definition starts_dq_semi (s : str) : bool := match s with c :: _ => N.eqb c cDQ || N.eqb c cSEMI | [] => false end.
Definition starts_semi (s : str) : bool := match s with c :: _ => N.eqb c cSEMI | [] => false end.

Lemma qsym_is_piped s : qsym_ok s = true -> is_piped s = true.
Proof.
  destruct s as [|c r]; [discriminate|]. unfold qsym_ok, is_piped. intro H.
  apply andb_true_iff in H as [Hc H]. rewrite Hc. cbn [andb].
  destruct (rev r) as [|d br] eqn:E; [discriminate|]. apply andb_true_iff in H as [Hd _].
  assert (Er : r = rev br ++ [d]) by (rewrite <- (rev_involutive r), E; reflexivity).
  rewrite Er. change (c :: rev br ++ [d]) with ((c :: rev br) ++ [d]). now rewrite last_last.
Qed.

Lemma strlit_is_string_const s : strlit_ok s = true -> is_string_const_leaf s = true.
Proof.
  destruct s as [|c r]; [discriminate|]. unfold strlit_ok, is_string_const_leaf. intro H.
  apply andb_true_iff in H as [Hc H]. rewrite Hc. cbn [andb].
  destruct (rev r) as [|d br] eqn:E; [discriminate|]. apply andb_true_iff in H as [Hd _].
  assert (Er : r = rev br ++ [d]) by (rewrite <- (rev_involutive r), E; reflexivity).
  rewrite Er. change (c :: rev br ++ [d]) with ((c :: rev br) ++ [d]). now rewrite last_last.
Qed.

Lemma strlit_is_const s : strlit_ok s = true -> is_const_leaf s = true.
Proof.
  intro H. unfold is_const_leaf. rewrite (strlit_is_string_const s H). now rewrite !orb_true_r.
Qed.

Lemma strlit_starts_dq s : strlit_ok s = true -> starts_dq_semi s = true.
Proof.
  destruct s as [|c r]; [discriminate|]. unfold strlit_ok, starts_dq_semi. intro H.
  apply andb_true_iff in H as [Hc _]. now rewrite Hc.
Qed.

Lemma comment_starts_semi s : comment_ok s = true -> starts_semi s = true.
Proof.
  destruct s as [|c r]; [discriminate|]. unfold comment_ok, starts_semi. intro H.
  now apply andb_true_iff in H as [Hc _].
Qed.

Lemma starts_semi_dq_semi s : starts_semi s = true -> starts_dq_semi s = true.
Proof. destruct s as [|c r]; [discriminate|]. unfold starts_semi, starts_dq_semi. intros ->. apply orb_true_r. Qed.

(* a well-formed leaf is an atom, a string literal, a quoted symbol or a comment *)
Lemma leaf_ok_cases s :
  leaf_ok s = true -> atom_ok s = true \/ strlit_ok s = true \/ qsym_ok s = true \/ comment_ok s = true.
Proof.
  unfold leaf_ok, atom_ok_lib. intro H. apply orb_true_iff in H as [H | H]; [|now right; right; right].
  apply orb_true_iff in H as [H | H]; [|now right; right; left].
  apply orb_true_iff in H as [H | H]; [now left | now right; left].
Qed.

(* BVReduceBW: not a quoted symbol, does not start with a double quote or a semicolon *)
Lemma leaf_atom_reduce_bw s :
  leaf_ok s = true -> is_piped s = false -> starts_dq_semi s = false -> atom_ok s = true.
Proof.
  intros Hl Hp Hg. destruct (leaf_ok_cases s Hl) as [H | [H | [H | H]]]; [exact H| | |].
  - apply strlit_starts_dq in H. congruence.
  - apply qsym_is_piped in H. congruence.
  - apply comment_starts_semi, starts_semi_dq_semi in H. congruence.
Qed.

(* StringContainsToConcat: not a constant, not a quoted symbol, does not start with a semicolon *)
Lemma leaf_atom_str_contains s :
  leaf_ok s = true -> is_const_leaf s = false -> is_piped s = false -> starts_semi s = false -> atom_ok s = true.
Proof.
  intros Hl Hc Hp Hg. destruct (leaf_ok_cases s Hl) as [H | [H | [H | H]]]; [exact H| | |].
  - apply strlit_is_const in H. congruence.
  - apply qsym_is_piped in H. congruence.
  - apply comment_starts_semi in H. congruence.
Qed.

Lemma fresh_name_leaf id : leaf_ok (fresh_name id) = true.
Proof.
  unfold fresh_name. apply atom_str_leaf; [discriminate|]. rewrite !atom_str_app.
  destruct (z_to_dec_atom_proof id) as [H _]. now rewrite H.
Qed.

Lemma wf_mk_decl n so : leaf_ok n = true -> wf so = true -> wf (mk_decl n so) = true.
Proof. intros Hn Hs. unfold mk_decl, lf. cbn [wf forallb]. now rewrite Hn, Hs. Qed.

Lemma wf_bv_sort_of b : wf (bv_sort_of b) = true.
Proof. unfold bv_sort_of, lf. cbn [wf forallb]. now rewrite z_to_dec_leaf. Qed.

Lemma wf_last_child e x : wf e = true -> last_child e = Some x -> wf x = true.
Proof.
  destruct e as [s|l]; [discriminate|]. cbn [last_child]. intros Hw H.
  destruct (rev l) as [|y r] eqn:E; [discriminate|]. injection H as ->.
  apply (wf_T_in l x Hw). apply in_rev. rewrite E. now left.
Qed.

Lemma wf_last_of_last_node e n : wf e = true -> last_of_last e = LLnode n -> wf n = true.
Proof.
  destruct e as [s|l]; [discriminate|]. cbn [last_of_last]. intros Hw H.
  destruct (rev l) as [|y r] eqn:E; [discriminate|]. destruct y as [s|m]; [destruct (rev s); discriminate|].
  destruct (rev m) as [|z r'] eqn:E'; [discriminate|]. injection H as ->.
  assert (Hm : wf (T m) = true). { apply (wf_T_in l _ Hw). apply in_rev. rewrite E. now left. }
  apply (wf_T_in m n Hm). apply in_rev. rewrite E'. now left.
Qed.

(* get_defined_fun of a well-formed node, relative to well-formed bodies *)
Lemma instantiate_wf d e res :
  wf e = true -> wf (d_body d) = true -> instantiate d e = Some res -> wf res = true.
Proof.
  intros Hw Hb Ei. unfold instantiate in Ei. destruct e as [s | [| h args]]; try (injection Ei as <-; assumption).
  destruct (Nat.eqb (length (d_formals d)) (length args)); [|injection Ei as <-; assumption].
  destruct (bind_formals (d_formals d) args) as [m|] eqn:Em; [|discriminate Ei].
  assert (Hres : res = subst_map m (d_body d) \/ res = T (h :: args)).
  { destruct m; [injection Ei as <-; left; now rewrite subst_map_nil|]. cbv zeta in Ei.
    destruct (_ || _) in Ei; injection Ei as <-; [now right | now left]. }
  destruct Hres as [Hres | Hres]; rewrite Hres; [|assumption]. apply wf_subst_map; [|assumption].
  intros k a Hka. apply (bind_formals_In _ _ _ _ _ Em) in Hka.
  cbn [wf forallb] in Hw. apply andb_true_iff in Hw as [_ Hw]. rewrite forallb_forall in Hw. now apply Hw.
Qed.

(* a leaf occurs in itself *)
Lemma in_subterms_self e : In e (subterms e).
Proof. destruct e; now left. Qed.

Lemma subterms_T_in l x y : In x l -> In y (subterms x) -> In y (subterms (T l)).
Proof. intros Hx Hy. rewrite subterms_T. right. apply in_flat_map. now exists x. Qed.
