(* (c) EliminateVariable (Model/GlobalRw.v): the replaced positions are exactly the positions of the input that hold
   the eliminated leaf and are not definition nodes; the leaf is an operand of the equality that is not a constant;
   the replacement is another operand in which the leaf does not occur (occurs check). *)
From DD Require Import Model.Rewrites Model.GlobalRw Spec.StdReader.
From DD Require Import Proofs.Rw.LetSubst Proofs.Core.Base Proofs.More4.Base Proofs.More4.Wf.
Local Open Scope list_scope.

Lemma occs_T t p l :
  occs t p (T l) = (if sexp_eqb (T l) t then [p] else []) ++ occs_from t p 0 l.
Proof.
  cbn [occs]. f_equal. generalize 0. induction l as [|x r IH]; intro i; cbn [occs_from]; [reflexivity|].
  f_equal. apply IH.
Qed.

Definition occs_ok (t x : sexp) : Prop :=
  forall p q, In q (occs t p x) <-> exists r, q = p ++ r /\ get_at x r = Some t.

Lemma occs_from_spec t p : forall l, Forall (occs_ok t) l -> forall i q,
  In q (occs_from t p i l) <-> exists j x r, nth_error l j = Some x /\ q = p ++ (i + j) :: r /\ get_at x r = Some t.
Proof.
  induction l as [|x l IH]; intros HF i q; cbn [occs_from].
  - split; [intros [] | intros (j & y & r & H & _)]. destruct j; discriminate.
  - inversion HF as [|? ? Hx HF']; subst. rewrite in_app_iff, (Hx (p ++ [i]) q), (IH HF' (S i) q). split.
    + intros [(r & -> & Hr) | (j & y & r & Hj & -> & Hr)].
      * exists 0, x, r. rewrite Nat.add_0_r, <- app_assoc. now repeat split.
      * exists (S j), y, r. rewrite Nat.add_succ_r. now repeat split.
    + intros ([|j] & y & r & Hj & -> & Hr); cbn [nth_error] in Hj.
      * injection Hj as <-. left. exists r. rewrite Nat.add_0_r, <- app_assoc. now split.
      * right. exists j, y, r. rewrite Nat.add_succ_r. now repeat split.
Qed.

Lemma occs_spec t : forall e, occs_ok t e.
Proof.
  induction e as [s | l IH] using sexp_ind'; intros p q.
  - cbn [occs]. rewrite app_nil_r. split.
    + destruct (sexp_eqb (L s) t) eqn:E; [|intros []]. intros [<- | []]. apply sexp_eqb_iff in E.
      exists []. rewrite app_nil_r. split; [reflexivity|]. cbn [get_at]. now rewrite E.
    + intros ([|i r] & -> & Hr); cbn [get_at] in Hr; [|discriminate]. injection Hr as <-.
      rewrite (proj2 (sexp_eqb_iff _ _) eq_refl), app_nil_r. now left.
  - rewrite occs_T, in_app_iff, (occs_from_spec t p l IH 0 q). split.
    + intros [H | (j & x & r & Hj & -> & Hr)].
      * destruct (sexp_eqb (T l) t) eqn:E; [|destruct H]. destruct H as [<- | []]. apply sexp_eqb_iff in E.
        exists []. rewrite app_nil_r. split; [reflexivity|]. cbn [get_at]. now rewrite E.
      * exists (j :: r). split; [reflexivity|]. cbn [get_at]. now rewrite Hj.
    + intros ([|j r] & -> & Hr); cbn [get_at] in Hr.
      * injection Hr as <-. left. rewrite (proj2 (sexp_eqb_iff _ _) eq_refl), app_nil_r. now left.
      * right. destruct (nth_error l j) as [x|] eqn:Hj; [|discriminate]. now exists j, x, r.
Qed.

(* the positions of the input that hold t *)
Theorem occs_input_spec t input p : In p (occs_input t input) <-> get_in input p = Some t.
Proof.
  unfold occs_input. rewrite (occs_from_spec t [] input (proj2 (Forall_forall _ _) (fun x _ => occs_spec t x)) 0 p). split.
  - intros (j & x & r & Hj & -> & Hr). cbn [app get_in get_at Nat.add]. now rewrite Hj.
  - destruct p as [|j r]; [discriminate|]. cbn [get_in get_at]. intro H.
    destruct (nth_error input j) as [x|] eqn:Hj; [|discriminate]. now exists j, x, r.
Qed.

Theorem rw_elim_var_sound_proof input isdef e l g :
  rw_elim_var input isdef e = Some l -> In g l ->
  exists t c ps,
    g = GS (map (fun p => (p, Some c)) ps) [] [] /\ ps <> [] /\
    In t (args_of e) /\ In c (args_of e) /\
    is_leaf t = true /\ is_const t = false /\
    ~ In t (subterms c) /\
    (forall p, In p ps <-> get_in input p = Some t /\ isdef p = false).
Proof.
  intros HR Hin.
  destruct (rw_elim_var_inv _ _ _ _ _ HR Hin) as (h & ops & t & c & ps & -> & Ht & Hc & _ & Hocc & Hps & Hne & ->).
  exists t, c, ps. unfold elim_targets in Ht. apply filter_In in Ht as [Ht Hlc].
  apply andb_true_iff in Hlc as [Hl Hnc]. apply negb_true_iff in Hnc.
  repeat split; try assumption.
  - now apply mem_sexp_false.
  - subst ps. apply filter_In in H as [H _]. now apply occs_input_spec.
  - subst ps. apply filter_In in H as [_ H]. now apply negb_true_iff in H.
  - intros [H1 H2]. subst ps. apply filter_In. split; [now apply occs_input_spec | now rewrite H2].
Qed.

(* the positions are pairwise distinct (the keys of the dict) *)
Lemma nodup_app {A} (a b : list A) :
  NoDup a -> NoDup b -> (forall x, In x a -> In x b -> False) -> NoDup (a ++ b).
Proof.
  induction a as [|x a IH]; intros Ha Hb Hd; [exact Hb|]. inversion Ha as [|? ? Hx Ha']; subst.
  cbn [app]. constructor.
  - rewrite in_app_iff. intros [H | H]; [now apply Hx | apply (Hd x); [now left | exact H]].
  - apply IH; [assumption | assumption |]. intros y Hy. apply Hd. now right.
Qed.

Lemma occs_from_nodup t p : forall l, Forall (fun x => forall p, NoDup (occs t p x)) l -> forall i, NoDup (occs_from t p i l).
Proof.
  induction l as [|x l IH]; intros HF i; cbn [occs_from]; [constructor|].
  inversion HF as [|? ? Hx HF']; subst. apply nodup_app; [apply Hx | now apply IH |].
  intros q H1 H2. apply (occs_spec t x) in H1 as (r1 & -> & _).
  apply (occs_from_spec t p l (proj2 (Forall_forall _ _) (fun y _ => occs_spec t y))) in H2 as (j & y & r2 & _ & H2 & _).
  rewrite <- app_assoc in H2. apply app_inv_head in H2. cbn [app] in H2. injection H2 as H2 _. lia.
Qed.

Lemma occs_nodup t : forall e p, NoDup (occs t p e).
Proof.
  induction e as [s | l IH] using sexp_ind'; intro p.
  - cbn [occs]. rewrite app_nil_r. destruct (sexp_eqb (L s) t); repeat constructor. intros [].
  - rewrite occs_T. apply nodup_app.
    + destruct (sexp_eqb (T l) t); repeat constructor. intros [].
    + now apply occs_from_nodup.
    + intros q H1 H2. destruct (sexp_eqb (T l) t); [|destruct H1]. destruct H1 as [<- | []].
      apply (occs_from_spec t p l (proj2 (Forall_forall _ _) (fun y _ => occs_spec t y))) in H2 as (j & y & r2 & _ & H2 & _).
      rewrite <- (app_nil_r p) in H2 at 1. apply app_inv_head in H2. discriminate.
Qed.

Theorem occs_input_nodup t input : NoDup (occs_input t input).
Proof. apply occs_from_nodup. apply Forall_forall. intros x _ p. apply occs_nodup. Qed.

Lemma nodup_filter {A} (f : A -> bool) l : NoDup l -> NoDup (filter f l).
Proof.
  induction 1 as [|x l Hx _ IH]; cbn [filter]; [constructor|]. destruct (f x); [|exact IH].
  constructor; [|exact IH]. intro H. apply filter_In in H as [H _]. now apply Hx.
Qed.

Theorem rw_elim_var_keys_distinct input isdef e l g :
  rw_elim_var input isdef e = Some l -> In g l -> NoDup (map fst (gs_ids g)).
Proof.
  intros HR Hin.
  destruct (rw_elim_var_inv _ _ _ _ _ HR Hin) as (h & ops & t & c & ps & _ & _ & _ & _ & _ & Hps & _ & ->).
  cbn [gs_ids]. rewrite map_map. cbn [fst]. rewrite map_id. subst ps. apply nodup_filter, occs_input_nodup.
Qed.
