(* (b) Freshness (property C15): every declaration a simplification of Model/GlobalRw.v introduces is a
   (declare-const name sort) whose name is not declared -- for the oracle [declared], i.e. smtlib.is_declared_symbol --,
   the names within one simplification are pairwise distinct, and each name occurs in a replacement value. *)
From DD Require Import Model.Rewrites Model.GlobalRw Spec.StdReader.
From DD Require Import Proofs.Rw.LetSubst Proofs.More4.Base Proofs.More4.Wf.
Local Open Scope list_scope.

Lemma fresh_single declared n so (g : gsimp) r :
  gs_fresh g = [mk_decl n so] -> declared n = false -> In r (gs_values g) -> In (L n) (subterms r) ->
  gsimp_fresh declared g.
Proof.
  intros Hf Hd Hr Hn. exists [(n, so)]. split; [exact Hf|]. split.
  - cbn [map fst]. constructor; [intros []|constructor].
  - intros m [<- | []]. split; [exact Hd|]. now exists r.
Qed.

Theorem rw_fresh_var_fresh gs vars isdef declared id here e l g :
  rw_fresh_var gs vars isdef declared id here e = Some l -> In g l -> gsimp_fresh declared g.
Proof.
  intros HR Hin. destruct (rw_fresh_var_inv _ _ _ _ _ _ _ _ _ HR Hin) as (so & _ & Hd & ->).
  apply (fresh_single declared (fresh_name id) so _ (L (fresh_name id))); [reflexivity | exact Hd | now left | now left].
Qed.

Theorem rw_bv_reduce_bw_fresh gs bw declared here e l g :
  rw_bv_reduce_bw gs bw declared here e = Some l -> In g l -> gsimp_fresh declared g.
Proof.
  intros HR Hin.
  destruct (rw_bv_reduce_bw_inv _ _ _ _ _ _ _ HR Hin) as (h & s & rest & so & w & b & -> & _ & Hd & _ & ->).
  eapply (fresh_single declared (95%N :: s) (bv_sort_of b)); [reflexivity | exact Hd | now left |].
  (* (define-fun x () sort ((_ zero_extend k) _x)) *)
  eapply subterms_T_in; [right; right; right; right; now left|].
  eapply subterms_T_in; [right; now left|]. now left.
Qed.

Theorem rw_str_contains_fresh declared e l g :
  rw_str_contains declared e = Some l -> In g l -> gsimp_fresh declared g.
Proof.
  intros HR Hin. destruct (rw_str_contains_inv _ _ _ _ HR Hin) as (h & v & x & -> & H1 & H2 & _ & _ & ->).
  exists [(v ++ lit "_prefix", lf "String"); (v ++ lit "_suffix", lf "String")]. split; [reflexivity|]. split.
  - cbn [map fst]. constructor; [|constructor; [intros []|constructor]].
    intros [H | []]. apply app_inv_head in H. discriminate.
  - set (r := T [lf "="; L v; T [lf "str.++"; L (v ++ lit "_prefix"); x; L (v ++ lit "_suffix")]]).
    assert (Hr : In r (gs_values (GS [] [(T [h; L v; x], Some r)]
                   [mk_decl (v ++ lit "_prefix") (lf "String"); mk_decl (v ++ lit "_suffix") (lf "String")]))) by now left.
    intros n [<- | [<- | []]]; (split; [assumption|]); exists r; (split; [exact Hr|]); subst r.
    + eapply subterms_T_in; [right; right; now left|]. eapply subterms_T_in; [right; now left|]. now left.
    + eapply subterms_T_in; [right; right; now left|]. eapply subterms_T_in; [right; right; right; now left|]. now left.
Qed.

(* the other four introduce no declaration *)
Theorem rw_bv_merge_bw_nofresh gs defs here e l g :
  rw_bv_merge_bw gs defs here e = Some l -> In g l -> gs_fresh g = [].
Proof.
  intros HR Hin.
  destruct (rw_bv_merge_bw_inv _ _ _ _ _ _ HR Hin) as (h & n1 & n2 & nsort & rest & n & b2 & z & dec & _ & _ & _ & _ & ->).
  reflexivity.
Qed.

Theorem rw_elim_var_nofresh input isdef e l g :
  rw_elim_var input isdef e = Some l -> In g l -> gs_fresh g = [].
Proof.
  intros HR Hin. destruct (rw_elim_var_inv _ _ _ _ _ HR Hin) as (h & ops & t & c & ps & _ & _ & _ & _ & _ & _ & _ & ->).
  reflexivity.
Qed.

Theorem rw_remove_constructor_nofresh here e l g :
  rw_remove_constructor here e = Some l -> In g l -> gs_fresh g = [].
Proof. intros HR Hin. destruct (rw_remove_constructor_inv _ _ _ _ HR Hin) as (q & ->). reflexivity. Qed.

Theorem rw_remove_datatype_nofresh here e l g :
  rw_remove_datatype here e = Some l -> In g l -> gs_fresh g = [].
Proof. intros HR Hin. destruct (rw_remove_datatype_inv _ _ _ _ HR Hin) as (i & ->). reflexivity. Qed.
