(* (d) The models of Model/GlobalRw.v evaluated on one input per mutator; a string literal / comment in the place of
   the name (nothing is proposed), and the inputs that show that the hypothesis "the node is well formed" of the
   well-formedness theorems of Wf.v is needed. *)
From DD Require Import Model.Rewrites Model.GlobalRw Spec.StdReader Proofs.More4.Base.
Local Open Scope list_scope.

Definition bv (n : string) : sexp := T [lf "_"; lf "BitVec"; lf n].
Definition zx (k : string) (x : sexp) : sexp := T [T [lf "_"; lf "zero_extend"; lf k]; x].
Definition one_sort (x so : sexp) : sexp -> option sexp := fun y => if sexp_eqb y x then Some so else None.
Definition names (l : list string) : str -> bool := fun s => existsb (iss s) l.
Definition decl (n : string) (so : sexp) : sexp := T [lf "declare-const"; lf n; so].

(* ---- IntroduceFreshVariable: node 17 = (+ i 1) at position [2; 1] ---- *)
Definition t_plus : sexp := T [lf "+"; lf "i"; lf "1"].
Example ex_fresh_var :
  rw_fresh_var (one_sort t_plus (lf "Int")) [(lit "i", Some (-1)%Z)] false (names []) 17 [2; 1]%nat t_plus
  = Some [GS [([2; 1]%nat, Some (lf "x17__fresh"))] [] [decl "x17__fresh" (lf "Int")]].
Proof. vm_compute. reflexivity. Qed.

(* ... the name is declared already: nothing *)
Example ex_fresh_var_declared :
  rw_fresh_var (one_sort t_plus (lf "Int")) [(lit "i", Some (-1)%Z)] false (names ["x17__fresh"]) 17 [2; 1]%nat t_plus
  = Some [].
Proof. vm_compute. reflexivity. Qed.

(* ... a bit-vector term with a single variable of the same width is excluded, with two variables it is not *)
Example ex_fresh_var_bv :
  rw_fresh_var (one_sort (T [lf "bvnot"; lf "b"]) (bv "4")) [(lit "b", Some 4%Z)] false (names []) 17 [2; 1]%nat
               (T [lf "bvnot"; lf "b"]) = Some [] /\
  rw_fresh_var (one_sort (T [lf "bvadd"; lf "b"; lf "c"]) (bv "4")) [(lit "b", Some 4%Z); (lit "c", Some 4%Z)] false (names [])
               17 [2; 1]%nat (T [lf "bvadd"; lf "b"; lf "c"])
  = Some [GS [([2; 1]%nat, Some (lf "x17__fresh"))] [] [decl "x17__fresh" (bv "4")]] /\
  (* a single variable that is wider than the term *)
  rw_fresh_var (one_sort (T [T [lf "_"; lf "extract"; lf "3"; lf "0"]; lf "w"]) (bv "4")) [(lit "w", Some 8%Z)] false (names [])
               17 [2; 1]%nat (T [T [lf "_"; lf "extract"; lf "3"; lf "0"]; lf "w"])
  = Some [GS [([2; 1]%nat, Some (lf "x17__fresh"))] [] [decl "x17__fresh" (bv "4")]] /\
  (* the width of the sort is not a numeral: int() raises *)
  rw_fresh_var (one_sort (T [lf "store"; lf "a"; lf "1"; lf "2"]) (bv "foo")) [(lit "a", None)] false (names [])
               17 [2; 1]%nat (T [lf "store"; lf "a"; lf "1"; lf "2"]) = None.
Proof. vm_compute. repeat split; reflexivity. Qed.

(* ---- BVReduceBW: (declare-const x (_ BitVec 8)) at position [0]: widths 1, 2, 4, 7 ---- *)
Definition reduced (w k : string) : gsimp :=
  GS [([0]%nat, Some (T [lf "define-fun"; lf "x"; T []; bv "8"; zx k (lf "_x")]))] [] [decl "_x" (bv w)].
Example ex_reduce_bw :
  rw_bv_reduce_bw (one_sort (lf "x") (bv "8")) (fun _ => Some 8%Z) (names []) [0]%nat (T [lf "declare-const"; lf "x"; bv "8"])
  = Some [reduced "1" "7"; reduced "2" "6"; reduced "4" "4"; reduced "7" "1"].
Proof. vm_compute. reflexivity. Qed.

Example ex_reduce_bw_declared :
  rw_bv_reduce_bw (one_sort (lf "x") (bv "8")) (fun _ => Some 8%Z) (names ["_x"]) [0]%nat (T [lf "declare-const"; lf "x"; bv "8"])
  = Some [] /\
  rw_bv_reduce_bw (one_sort (lf "|x|") (bv "8")) (fun _ => Some 8%Z) (names []) [0]%nat (T [lf "declare-const"; lf "|x|"; bv "8"])
  = Some [] /\
  rw_bv_reduce_bw (one_sort (lf "x") (bv "1")) (fun _ => Some 1%Z) (names []) [0]%nat (T [lf "declare-fun"; lf "x"; T []; bv "1"])
  = Some [] /\
  rw_bv_reduce_bw (one_sort (lf "x") (bv "foo")) (fun _ => None) (names []) [0]%nat (T [lf "declare-const"; lf "x"; bv "foo"])
  = None.
Proof. vm_compute. repeat split; reflexivity. Qed.

(* ---- BVMergeReducedBW ---- *)
Definition defs_w : list defn := [mk_defn (lit "_w") [] (zx "2" (lf "__w")); mk_defn (lit "w") [] (zx "4" (lf "_w"))].
Example ex_merge_bw :
  rw_bv_merge_bw (one_sort (lf "w") (bv "8")) defs_w [2]%nat (T [lf "define-fun"; lf "w"; T []; bv "8"; zx "4" (lf "_w")])
  = Some [GS [([2]%nat, Some (T [lf "define-fun"; lf "w"; T []; bv "8"; zx "6" (lf "__w")]))] [] []].
Proof. vm_compute. reflexivity. Qed.

(* a definition in terms of itself; a body that is a leaf whose last character is the name of a defined function
   (get_defined_fun of a Python str raises) *)
Example ex_merge_bw_self :
  rw_bv_merge_bw (one_sort (lf "s") (bv "8")) [mk_defn (lit "s") [] (zx "4" (lf "s"))] [2]%nat
                 (T [lf "define-fun"; lf "s"; T []; bv "8"; zx "4" (lf "s")]) = Some [] /\
  rw_bv_merge_bw (one_sort (lf "f") (bv "8"))
                 [mk_defn (lit "c") [] (zx "4" (lf "y")); mk_defn (lit "f") [] (lf "abc"); mk_defn (lit "f") [] (zx "4" (lf "y"))]
                 [1]%nat (T [lf "define-fun"; lf "f"; T []; bv "8"; lf "abc"]) = None.
Proof. vm_compute. repeat split; reflexivity. Qed.

(* the inner definition is recursive: a := ((_ zero_extend 2) a), b := ((_ zero_extend 1) a); nothing is proposed for
   the definition of b (merging would build ((_ zero_extend 3) a) from the body of a, again and again) *)
Definition defs_rec : list defn := [mk_defn (lit "a") [] (zx "2" (lf "a")); mk_defn (lit "b") [] (zx "1" (lf "a"))].
Example ex_merge_bw_recursive :
  is_recursive defs_rec (lit "a") = true /\
  last_of_last (T [lf "define-fun"; lf "b"; T []; bv "8"; zx "1" (lf "a")]) = LLnode (lf "a") /\
  rw_bv_merge_bw (one_sort (lf "b") (bv "8")) defs_rec [1]%nat (T [lf "define-fun"; lf "b"; T []; bv "8"; zx "1" (lf "a")])
  = Some [].
Proof. vm_compute. repeat split; reflexivity. Qed.

(* ---- StringContainsToConcat ---- *)
Example ex_str_contains :
  rw_str_contains (names []) (T [lf "str.contains"; lf "s"; lf "t"])
  = Some [GS [] [(T [lf "str.contains"; lf "s"; lf "t"],
                  Some (T [lf "="; lf "s"; T [lf "str.++"; lf "s_prefix"; lf "t"; lf "s_suffix"]]))]
             [decl "s_prefix" (lf "String"); decl "s_suffix" (lf "String")]] /\
  rw_str_contains (names ["s_suffix"]) (T [lf "str.contains"; lf "s"; lf "t"]) = Some [] /\
  rw_str_contains (names []) (T [lf "str.contains"; L (lit "|s|"); lf "t"]) = Some [] /\
  rw_str_contains (names []) (T [lf "str.contains"; L (34%N :: lit "s" ++ [34%N]); lf "t"]) = Some [].
Proof. vm_compute. repeat split; reflexivity. Qed.

(* ---- EliminateVariable: x is replaced at its two uses, not in its declaration; occurs check ---- *)
Definition ex_input : list sexp :=
  [T [lf "declare-const"; lf "x"; lf "Int"];
   T [lf "assert"; T [lf "="; lf "x"; T [lf "f"; lf "y"]]];
   T [lf "assert"; T [lf ">"; lf "x"; T [lf "g"; lf "x"]]]].
Definition ex_isdef (p : path) : bool := match p with [0; 1]%nat => true | _ => false end.
Example ex_elim_var :
  rw_elim_var ex_input ex_isdef (T [lf "="; lf "x"; T [lf "f"; lf "y"]])
  = Some [GS [([1; 1; 1]%nat, Some (T [lf "f"; lf "y"])); ([2; 1; 1]%nat, Some (T [lf "f"; lf "y"]));
              ([2; 1; 2; 1]%nat, Some (T [lf "f"; lf "y"]))] [] []] /\
  rw_elim_var ex_input ex_isdef (T [lf "="; lf "x"; T [lf "f"; lf "x"]; lf "5"])
  = Some [GS [([1; 1; 1]%nat, Some (lf "5")); ([2; 1; 1]%nat, Some (lf "5")); ([2; 1; 2; 1]%nat, Some (lf "5"))] [] []].
Proof. vm_compute. repeat split; reflexivity. Qed.

(* ---- RemoveConstructor, RemoveDatatype ---- *)
Definition dts : sexp :=
  T [lf "declare-datatypes"; T [T [lf "D"; lf "0"]; T [lf "E"; lf "0"]]; T [T [T [lf "c"]; T [lf "d"]]; T [T [lf "e"]]]].
Example ex_remove_constructor :
  rw_remove_constructor [3]%nat (T [lf "declare-datatype"; lf "D"; T [T [lf "c"]; T [lf "d"; T [lf "s"; lf "D"]]]])
  = Some [del_at [3; 2; 0]%nat; del_at [3; 2; 1]%nat] /\
  rw_remove_constructor [3]%nat dts = Some [del_at [3; 2; 0; 0]%nat; del_at [3; 2; 0; 1]%nat; del_at [3; 2; 1; 0]%nat] /\
  rw_remove_constructor [3]%nat (T [lf "declare-datatype"; lf "D"; lf "c"]) = None.
Proof. vm_compute. repeat split; reflexivity. Qed.

Example ex_remove_datatype :
  rw_remove_datatype [3]%nat dts
  = Some [GS [([3; 1; 0]%nat, None); ([3; 2; 0]%nat, None)] [] []; GS [([3; 1; 1]%nat, None); ([3; 2; 1]%nat, None)] [] []].
Proof. vm_compute. reflexivity. Qed.

(* ---- a string literal or a comment in the place of the name: nothing is proposed ---- *)
(* (before the guards: (declare-const "x" (_ BitVec 8)) gave the declared name _"x", which a reader takes for the two
   tokens _ and "x"; (str.contains <comment> t) gave the comment text followed by _prefix / _suffix) *)
Definition q_x : str := 34%N :: lit "x" ++ [34%N].
Definition cmt : str := lit "; c" ++ [10%N].
Example ex_reduce_bw_string_name :
  wf (T [lf "declare-const"; L q_x; bv "8"]) = true /\
  rw_bv_reduce_bw (one_sort (L q_x) (bv "8")) (fun _ => Some 8%Z) (names []) [0]%nat (T [lf "declare-const"; L q_x; bv "8"])
  = Some [].
Proof. vm_compute. repeat split; reflexivity. Qed.

Example ex_reduce_bw_comment_name :
  wf (T [lf "declare-const"; L cmt; bv "8"]) = true /\
  rw_bv_reduce_bw (one_sort (L cmt) (bv "8")) (fun _ => Some 8%Z) (names []) [0]%nat (T [lf "declare-const"; L cmt; bv "8"])
  = Some [].
Proof. vm_compute. repeat split; reflexivity. Qed.

Example ex_str_contains_comment :
  wf (T [lf "str.contains"; L cmt; lf "t"]) = true /\
  rw_str_contains (names []) (T [lf "str.contains"; L cmt; lf "t"]) = Some [].
Proof. vm_compute. repeat split; reflexivity. Qed.

(* ---- without well-formedness of the node the declarations need not be well formed: a leaf that is no token (an
   unterminated quoted symbol |x) passes all guards ---- *)
Definition bar_x : str := 124%N :: lit "x".
Example ex_reduce_bw_not_wf_node :
  wf (T [lf "declare-const"; L bar_x; bv "8"]) = false /\
  match rw_bv_reduce_bw (one_sort (L bar_x) (bv "8")) (fun _ => Some 8%Z) (names []) [0]%nat (T [lf "declare-const"; L bar_x; bv "8"]) with
  | Some (GS _ _ [d] :: _) => d = T [lf "declare-const"; L (95%N :: bar_x); bv "1"] /\ wf d = false
  | _ => False
  end.
Proof. vm_compute. repeat split; reflexivity. Qed.

Example ex_str_contains_not_wf_node :
  wf (T [lf "str.contains"; L bar_x; lf "t"]) = false /\
  match rw_str_contains (names []) (T [lf "str.contains"; L bar_x; lf "t"]) with
  | Some [GS _ _ [d1; d2]] => d1 = T [lf "declare-const"; L (bar_x ++ lit "_prefix"); lf "String"] /\ wf d1 = false /\ wf d2 = false
  | _ => False
  end.
Proof. vm_compute. repeat split; reflexivity. Qed.
