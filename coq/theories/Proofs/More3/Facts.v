(* What the oracle-driven rewrites of Model/OracleRw.v preserve:
   Constants proposes exactly the default constants and nothing for a node that
   is one of them; RemoveDatatypeIdentity proposes the argument that the
   selector selects; FPShortSort relates exactly the four standard formats;
   ArithmeticStrengthenRelation and BoolXORRemoveConstant keep the operands. *)
From DD Require Import Model.OracleRw Proofs.Core.Base.
From Coq Require Import Lia.
Local Open Scope list_scope.

(* ---- Constants ---- *)
Lemma existsb_sexp_in e res : existsb (sexp_eqb e) res = true <-> In e res.
Proof.
  rewrite existsb_exists. split.
  - intros (x & Hx & E). apply seqb_true in E. now subst.
  - intro H. exists e. split; [exact H|apply seqb_refl].
Qed.

Theorem constants_fixpoint isdef sort res e :
  In e res -> rw_constants isdef sort (Some res) e = Some [].
Proof.
  intro H. unfold rw_constants. destruct isdef; [reflexivity|]. destruct sort; [|reflexivity].
  apply existsb_sexp_in in H. now rewrite H.
Qed.

Theorem constants_sound isdef sort dc e l e' :
  rw_constants isdef sort dc e = Some l -> In e' l ->
  exists res, dc = Some res /\ l = res /\ In e' res /\ ~ In e res /\ isdef = false /\ sort <> None.
Proof.
  intros HR Hin. unfold rw_constants in HR.
  destruct isdef; [injection HR as <-; destruct Hin|].
  destruct sort; [|injection HR as <-; destruct Hin].
  destruct dc as [res|]; [|discriminate].
  destruct (existsb (sexp_eqb e) res) eqn:E; injection HR as <-; [destruct Hin|].
  exists res. repeat split; try assumption; try discriminate.
  intro H. apply existsb_sexp_in in H. congruence.
Qed.

(* a proposal of Constants gets no further proposal from Constants under the same table *)
Theorem constants_one_step isdef sort dc e l e' isdef' sort' :
  rw_constants isdef sort dc e = Some l -> In e' l -> rw_constants isdef' sort' dc e' = Some [].
Proof.
  intros HR Hin. destruct (constants_sound _ _ _ _ _ _ HR Hin) as (res & -> & _ & Hr & _).
  now apply constants_fixpoint.
Qed.

(* ---- RemoveDatatypeIdentity ---- *)
Theorem dt_identity_selected sels ctors e l e' :
  rw_dt_identity sels ctors e = Some l -> In e' l ->
  exists s c idx args,
    e = T [L s; T (L c :: args)] /\ slookup (L s) sels = Some (L c, idx) /\ In (L c) ctors /\
    nth_error args idx = Some e' /\ l = [e'].
Proof.
  intros HR Hin. unfold rw_dt_identity in HR.
  destruct e as [s|[|[s|?] [|c [|? ?]]]]; try (injection HR as <-; destruct Hin).
  destruct (slookup (L s) sels) as [[cname idx]|] eqn:Es; [|injection HR as <-; destruct Hin].
  destruct c as [?|[|[ch|?] cargs]]; try (injection HR as <-; destruct Hin).
  destruct (existsb (sexp_eqb (L ch)) ctors && sexp_eqb cname (L ch)) eqn:Ec; injection HR as <-; [|destruct Hin].
  apply andb_true_iff in Ec as [E1 E2]. apply seqb_true in E2. subst cname.
  apply existsb_sexp_in in E1.
  destruct (nth_error cargs idx) as [x|] eqn:En; [|destruct Hin]. destruct Hin as [<- | []].
  exists s, ch, idx, cargs. auto.
Qed.

Theorem dt_identity_complete sels ctors s c idx args x :
  slookup (L s) sels = Some (L c, idx) -> In (L c) ctors -> nth_error args idx = Some x ->
  rw_dt_identity sels ctors (T [L s; T (L c :: args)]) = Some [x].
Proof.
  intros Hs Hc Hn. unfold rw_dt_identity. rewrite Hs.
  apply existsb_sexp_in in Hc. rewrite Hc, seqb_refl. cbn [andb]. now rewrite Hn.
Qed.

(* the replacement is smaller than the node *)
Lemma nth_error_size (l : list sexp) i x : nth_error l i = Some x -> size x <= sizes l.
Proof.
  revert i; induction l as [|y l IH]; intros [|i] H; cbn [nth_error] in H; try discriminate.
  - injection H as ->. unfold sizes. cbn [fold_right]. lia.
  - apply IH in H. unfold sizes in *. cbn [fold_right]. lia.
Qed.

Theorem dt_identity_smaller sels ctors e l e' :
  rw_dt_identity sels ctors e = Some l -> In e' l -> size e' + 4 <= size e.
Proof.
  intros HR Hin. destruct (dt_identity_selected _ _ _ _ _ HR Hin) as (s & c & idx & args & -> & _ & _ & Hn & _).
  apply nth_error_size in Hn. cbn [size fold_right]. fold (sizes args). lia.
Qed.

(* ---- FPShortSort ---- *)
(* the four standard formats: (exponent bits, significand bits) *)
Definition fp_formats : list (N * N) := [(5, 11); (8, 24); (11, 53); (15, 113)]%N.
Definition fp_long (eb sb : N) : sexp := T [lf "_"; lf "FloatingPoint"; L (to_dec eb); L (to_dec sb)].
Definition fp_short (eb sb : N) : sexp := L (lit "Float" ++ to_dec (eb + sb)).

Lemma is_lf_true x c : is_lf x c = true -> c = lf x.
Proof. unfold is_lf. apply seqb_true. Qed.

Theorem fp_short_sort_sound e l e' :
  rw_fp_short_sort e = Some l -> In e' l ->
  exists eb sb, In (eb, sb) fp_formats /\ e = fp_long eb sb /\ e' = fp_short eb sb /\ l = [e'].
Proof.
  intros HR Hin. unfold rw_fp_short_sort in HR.
  destruct (is_fp_sort_long e) eqn:Ef; [|injection HR as <-; destruct Hin].
  destruct e as [s|[|[h|?] [|x1 [|a [|b [|? ?]]]]]]; try discriminate Ef.
  cbn [is_fp_sort_long] in Ef. apply andb_true_iff in Ef as [Eh Ex].
  apply str_eqb_eq in Eh. apply is_lf_true in Ex. subst h x1.
  match type of HR with (match find ?f ?t with _ => _ end) = _ => destruct (find f t) as [p|] eqn:Efd end;
    injection HR as <-; [|destruct Hin].
  destruct Hin as [<- | []]. apply find_some in Efd as [Hp Hab].
  apply andb_true_iff in Hab as [Ha Hb]. apply is_lf_true in Ha, Hb. subst a b.
  unfold fp_short_table in Hp. cbn [In] in Hp.
  destruct Hp as [<- | [<- | [<- | [<- | []]]]];
    [exists 5%N, 11%N | exists 8%N, 24%N | exists 11%N, 53%N | exists 15%N, 113%N];
    (split; [cbn; tauto|split; [reflexivity|split; reflexivity]]).
Qed.

Theorem fp_short_sort_complete eb sb :
  In (eb, sb) fp_formats -> rw_fp_short_sort (fp_long eb sb) = Some [fp_short eb sb].
Proof.
  unfold fp_formats. cbn [In]. intros [E | [E | [E | [E | []]]]]; injection E as <- <-; vm_compute; reflexivity.
Qed.

(* any other pair of indices is left alone *)
Theorem fp_short_sort_other h x a b :
  (forall eb sb, In (eb, sb) fp_formats -> T [h; x; a; b] <> fp_long eb sb) ->
  rw_fp_short_sort (T [h; x; a; b]) = Some [].
Proof.
  intro H. destruct (rw_fp_short_sort (T [h; x; a; b])) as [l|] eqn:E.
  - destruct l as [|e' r]; [reflexivity|]. exfalso.
    destruct (fp_short_sort_sound _ _ e' E (or_introl eq_refl)) as (eb & sb & Hin & Ee & _).
    exact (H eb sb Hin Ee).
  - exfalso. unfold rw_fp_short_sort in E. destruct (is_fp_sort_long (T [h; x; a; b])); [|discriminate].
    match type of E with (match find ?f ?t with _ => _ end) = _ => destruct (find f t) end; discriminate.
Qed.

(* ---- ArithmeticStrengthenRelation, BoolXORRemoveConstant: the operands stay ---- *)
Theorem arith_strengthen_operands e l e' :
  rw_arith_strengthen e = Some l -> In e' l ->
  exists h args r, e = T (L h :: args) /\ e' = node_of r args /\
                   (r = "="%string \/ (iss h "<=" = true /\ r = "<"%string) \/ (iss h ">=" = true /\ r = ">"%string)).
Proof.
  intros HR Hin. unfold rw_arith_strengthen in HR.
  destruct e as [s|[|[h|?] args]]; try (injection HR as <-; destruct Hin).
  destruct (strengthen h) as [rels|] eqn:Es; injection HR as <-; [|destruct Hin].
  apply in_map_iff in Hin as (r & <- & Hr). exists h, args, r. repeat split.
  unfold strengthen in Es.
  destruct (iss h "<"); [injection Es as <-; destruct Hr as [<- | []]; now left|].
  destruct (iss h ">"); [injection Es as <-; destruct Hr as [<- | []]; now left|].
  destruct (iss h "<=") eqn:E1; [injection Es as <-; destruct Hr as [<- | [<- | []]]; auto|].
  destruct (iss h ">=") eqn:E2; [injection Es as <-; destruct Hr as [<- | [<- | []]]; auto|].
  destruct (iss h "distinct"); [injection Es as <-; destruct Hr as [<- | []]; now left|discriminate].
Qed.

Lemma xor_props_in l e' :
  In e' ((if existsb (is_lf "false") l then [T (without "false" l)] else []) ++
         (if existsb (is_lf "true") l then [T (without "true" l); T [lf "not"; T (without "true" l)]] else [])) ->
  (existsb (is_lf "false") l = true /\ e' = T (without "false" l)) \/
  (existsb (is_lf "true") l = true /\ (e' = T (without "true" l) \/ e' = T [lf "not"; T (without "true" l)])).
Proof.
  intro Hin. apply in_app_or in Hin as [Hin | Hin].
  - destruct (existsb (is_lf "false") l); [|destruct Hin]. destruct Hin as [<- | []]. now left.
  - destruct (existsb (is_lf "true") l); [|destruct Hin]. right. split; [reflexivity|].
    destruct Hin as [<- | [<- | []]]; auto.
Qed.

Theorem bool_xor_const_operands e l e' :
  rw_bool_xor_const e = Some l -> In e' l ->
  exists h args, e = T (L h :: args) /\ iss h "xor" = true /\
    ((In (lf "false") args /\ e' = T (without "false" (L h :: args))) \/
     (In (lf "true") args /\ (e' = T (without "true" (L h :: args)) \/ e' = T [lf "not"; T (without "true" (L h :: args))]))).
Proof.
  intros HR Hin. unfold rw_bool_xor_const in HR.
  destruct e as [s|[|[h|?] args]]; try (injection HR as <-; destruct Hin).
  destruct (iss h "xor") eqn:Eh; injection HR as <-; [|destruct Hin].
  exists h, args. split; [reflexivity|split; [exact Eh|]].
  assert (Hmem : forall x, x = "false"%string \/ x = "true"%string ->
                           existsb (is_lf x) (L h :: args) = true -> In (lf x) args).
  { intros x Hx H. cbn [existsb] in H. apply orb_true_iff in H as [H | H].
    - exfalso. apply is_lf_true in H. injection H as ->. destruct Hx as [-> | ->]; discriminate Eh.
    - apply existsb_exists in H as (c & Hc & E). apply is_lf_true in E. now subst. }
  destruct (xor_props_in (L h :: args) e' Hin) as [[H1 H2] | [H1 H2]].
  - left. split; [apply Hmem; auto|exact H2].
  - right. split; [apply Hmem; auto|exact H2].
Qed.
