(* ReplaceByVariable (Model/OracleRw.v) on leaves: the code-point order on
   strings is a strict total order, the names proposed for a leaf are strictly
   greater (inc) / smaller (dec) than the leaf, hence no chain of leaf
   replacements by ReplaceByVariable alone returns to its start -- whatever the
   oracle values (is_definition_node, get_sort, the variables) are at each step. *)
From DD Require Import Model.OracleRw.
From Coq Require Import Lia Relations.
Local Open Scope list_scope.

(* ---- the order ---- *)
Definition str_lt (a b : str) : Prop := str_ltb a b = true.

Lemma str_ltb_irrefl a : str_ltb a a = false.
Proof.
  induction a as [|x a IH]; [reflexivity|]. cbn [str_ltb]. now rewrite N.ltb_irrefl, N.eqb_refl, IH.
Qed.

Lemma str_ltb_trans a : forall b c, str_ltb a b = true -> str_ltb b c = true -> str_ltb a c = true.
Proof.
  induction a as [|x a IH]; intros [|y b] [|z c] H1 H2; cbn [str_ltb] in *; try discriminate; try reflexivity.
  apply orb_true_iff in H1, H2. apply orb_true_iff.
  destruct H1 as [H1 | H1], H2 as [H2 | H2].
  - left. apply N.ltb_lt in H1, H2. apply N.ltb_lt. lia.
  - apply andb_true_iff in H2 as [E _]. apply N.eqb_eq in E. subst. now left.
  - apply andb_true_iff in H1 as [E _]. apply N.eqb_eq in E. subst. now left.
  - apply andb_true_iff in H1 as [E1 H1]. apply andb_true_iff in H2 as [E2 H2].
    apply N.eqb_eq in E1, E2. subst. right. rewrite N.eqb_refl. cbn [andb]. now apply (IH b c).
Qed.

Lemma str_ltb_asym a b : str_ltb a b = true -> str_ltb b a = false.
Proof.
  intro H. destruct (str_ltb b a) eqn:E; [|reflexivity].
  pose proof (str_ltb_trans a b a H E) as C. now rewrite str_ltb_irrefl in C.
Qed.

Lemma str_ltb_total a : forall b, a = b \/ str_ltb a b = true \/ str_ltb b a = true.
Proof.
  induction a as [|x a IH]; intros [|y b]; cbn [str_ltb]; auto.
  destruct (N.compare_spec x y) as [E | Hl | Hg].
  - subst y. rewrite N.ltb_irrefl, N.eqb_refl. cbn [orb andb].
    destruct (IH b) as [-> | [H | H]]; auto.
  - right. left. apply N.ltb_lt in Hl. now rewrite Hl.
  - right. right. apply N.ltb_lt in Hg. now rewrite Hg.
Qed.

(* the order is the lexicographic one: a is a proper prefix of b, or the first difference decides *)
Theorem str_ltb_spec a : forall b, str_ltb a b = true <->
  (exists r, r <> [] /\ b = a ++ r) \/
  (exists p x y ra rb, a = p ++ x :: ra /\ b = p ++ y :: rb /\ (x < y)%N).
Proof.
  induction a as [|x a IH]; intros [|y b]; cbn [str_ltb].
  - split; [discriminate|]. intros [(r & Hr & E) | (p & u & v & ra & rb & E & _)].
    + cbn [app] in E. congruence.
    + destruct p; discriminate E.
  - split; [|reflexivity]. intros _. left. exists (y :: b). split; [discriminate|reflexivity].
  - split; [discriminate|]. intros [(r & Hr & E) | (p & u & v & ra & rb & _ & E & _)].
    + discriminate E.
    + destruct p; discriminate E.
  - split.
    + intro H. apply orb_true_iff in H as [H | H].
      * right. exists [], x, y, a, b. apply N.ltb_lt in H. auto.
      * apply andb_true_iff in H as [E H]. apply N.eqb_eq in E. subst y.
        apply IH in H as [(r & Hr & ->) | (p & u & v & ra & rb & -> & -> & Huv)].
        -- left. exists r. auto.
        -- right. exists (x :: p), u, v, ra, rb. auto.
    + intros [(r & Hr & E) | (p & u & v & ra & rb & Ea & Eb & Huv)]; apply orb_true_iff.
      * cbn [app] in E. injection E as -> ->. right. rewrite N.eqb_refl. cbn [andb].
        apply IH. left. exists r. auto.
      * destruct p as [|w p]; cbn [app] in Ea, Eb.
        -- injection Ea as -> ->. injection Eb as -> ->. left. now apply N.ltb_lt.
        -- injection Ea as -> ->. injection Eb as -> ->. right. rewrite N.eqb_refl. cbn [andb].
           apply IH. right. exists p, u, v, ra, rb. auto.
Qed.

(* ---- proposals for a leaf ---- *)
Definition rbv_ord (inc : bool) (s v : str) : Prop := if inc then str_lt s v else str_lt v s.

Theorem rbv_leaf_ordered inc isdef sort vars s l e' :
  rw_replace_by_var inc isdef sort vars (L s) = Some l -> In e' l ->
  exists v, e' = L v /\ In v vars /\ rbv_ord inc s v.
Proof.
  intros HR Hin. unfold rw_replace_by_var in HR.
  destruct (is_const (L s)) as [[|]|]; try discriminate; [injection HR as <-; destruct Hin|].
  destruct isdef; [injection HR as <-; destruct Hin|].
  destruct sort; injection HR as <-; [|destruct Hin].
  apply in_map_iff in Hin as (v & <- & Hv). apply filter_In in Hv as [Hv Ho].
  exists v. repeat split; [exact Hv|]. unfold rbv_ord, str_lt. now destruct inc.
Qed.

(* on a list every variable of the sort is proposed, whatever its name *)
Theorem rbv_list_all inc sort0 vars c :
  is_const (T c) = Some false ->
  rw_replace_by_var inc false (Some sort0) vars (T c) = Some (map L vars).
Proof. intro H. unfold rw_replace_by_var. now rewrite H. Qed.

(* every proposal is a leaf *)
Theorem rbv_proposes_leaves inc isdef sort vars e l e' :
  rw_replace_by_var inc isdef sort vars e = Some l -> In e' l -> exists v, e' = L v /\ In v vars.
Proof.
  intros HR Hin. unfold rw_replace_by_var in HR.
  destruct (is_const e) as [[|]|]; try discriminate; [injection HR as <-; destruct Hin|].
  destruct isdef; [injection HR as <-; destruct Hin|].
  destruct sort; injection HR as <-; [|destruct Hin].
  apply in_map_iff in Hin as (v & <- & Hv). exists v. split; [reflexivity|].
  destruct e; [now apply filter_In in Hv as [Hv _]|exact Hv].
Qed.

(* ---- chains of leaf replacements ---- *)
Inductive rbv_step (inc : bool) : sexp -> sexp -> Prop :=
| rbv_step_intro isdef sort vars s l e' :
    rw_replace_by_var inc isdef sort vars (L s) = Some l -> In e' l -> rbv_step inc (L s) e'.

Definition rbv_chain (inc : bool) : sexp -> sexp -> Prop := clos_trans sexp (rbv_step inc).

Lemma rbv_ord_trans inc a b c : rbv_ord inc a b -> rbv_ord inc b c -> rbv_ord inc a c.
Proof.
  unfold rbv_ord, str_lt. destruct inc; intros H1 H2.
  - exact (str_ltb_trans a b c H1 H2).
  - exact (str_ltb_trans c b a H2 H1).
Qed.

Theorem rbv_chain_ordered inc a b :
  rbv_chain inc a b -> exists s t, a = L s /\ b = L t /\ rbv_ord inc s t.
Proof.
  induction 1 as [a b H | a b c _ IH1 _ IH2].
  - destruct H as [isdef sort vars s l e' HR Hin].
    destruct (rbv_leaf_ordered inc isdef sort vars s l e' HR Hin) as (v & -> & _ & Ho).
    exists s, v. auto.
  - destruct IH1 as (s & t & -> & -> & H1). destruct IH2 as (t' & u & E & -> & H2).
    injection E as <-. exists s, u. repeat split. exact (rbv_ord_trans inc s t u H1 H2).
Qed.

Theorem rbv_no_cycle inc e : ~ rbv_chain inc e e.
Proof.
  intro H. apply rbv_chain_ordered in H as (s & t & -> & E & Ho). injection E as <-.
  unfold rbv_ord, str_lt in Ho. rewrite str_ltb_irrefl in Ho. destruct inc; discriminate.
Qed.

(* the same statements with the order spelled out *)
Theorem rbv_leaf_ordered' inc isdef sort vars s l e' :
  rw_replace_by_var inc isdef sort vars (L s) = Some l -> In e' l ->
  exists v, e' = L v /\ In v vars /\ (if inc then str_ltb s v = true else str_ltb v s = true).
Proof.
  intros HR Hin. destruct (rbv_leaf_ordered inc isdef sort vars s l e' HR Hin) as (v & E & Hv & Ho).
  exists v. repeat split; [exact E|exact Hv|]. destruct inc; exact Ho.
Qed.

Theorem rbv_chain_ordered' inc a b :
  clos_trans sexp (rbv_step inc) a b ->
  exists s t, a = L s /\ b = L t /\ (if inc then str_ltb s t = true else str_ltb t s = true).
Proof.
  intro H. destruct (rbv_chain_ordered inc a b H) as (s & t & Ea & Eb & Ho).
  exists s, t. repeat split; [exact Ea|exact Eb|]. destruct inc; exact Ho.
Qed.
